(* PerfectLinkProofs.v — proof for the unbounded part of property C02 (props/C02u.v): over a fault-free link
   the two-entity system of System.v delivers EVERY file with EVERY configuration in unacknowledged mode without
   closure.  Composition of
     - the sender's per-call lemmas (StreamProofs.v, re-proved here with the event log and the final state),
     - a symbolic execution of the receiver (Dest.v) on states in constructor form,
     - chunk independence of the checksum (ChecksumProofs.v) and the write model of Fs.v (FsProofs.v),
     - the round-based scheduler of System.v (one inbound PDU per round, links empty between rounds).
   No axioms. *)
From CFDP Require Import Base LostSeg Fs Crc Checksum Handler Dest Source HandlerSpec SourceSpec System.
From CFDP.gen Require Import Tables.
From CFDP.proofs Require Import ChecksumProofs FsProofs StreamProofs.
From RecordUpdate Require Import RecordSet.
Import RecordSetNotations.

(* arithmetic stays folded unless both arguments are literals *)
Local Arguments Z.add : simpl never. Local Arguments Z.sub : simpl never. Local Arguments Z.mul : simpl never.
Local Arguments Z.pow : simpl never. Local Arguments Z.div : simpl never. Local Arguments Z.min : simpl never.
Local Arguments Z.max : simpl never. Local Arguments Z.to_nat : simpl never.
Local Arguments Z.ltb !x !y : simpl nomatch. Local Arguments Z.leb !x !y : simpl nomatch.
Local Arguments Z.eqb !x !y : simpl nomatch. Local Arguments Z.of_nat !n : simpl nomatch.
Local Arguments write_at : simpl never.
Local Arguments set_node : simpl never.
Local Opaque calculate_checksum.

(* ================================================================== *)
(* 1. the sender, call by call, with its event log                     *)
(* ================================================================== *)
(* a log without fault callbacks and without a successful Transaction-Finished *)
Definition clean (l : list event) : Prop := existsb fault_event l = false /\ filter success_event l = [].

Lemma clean_nil : clean []. Proof. split; reflexivity. Qed.
Lemma clean_cons : forall e l, fault_event e = false -> success_event e = false -> clean l -> clean (e :: l).
Proof. intros e l H1 H2 [H3 H4]. split; cbn [existsb filter]; rewrite ?H1, ?H2; assumption. Qed.

Section SenderSide.
Local Arguments max_file_seg_len : simpl never.
Local Arguments lookup : simpl never.

(* ------------------------------------------------------------------ sender, unacknowledged without closure *)
Section Sender.
Variables (c : lcfg) (p : putreq) (r : rcfg) (fs : tree) (d cks : bytes) (cf : sconf)
          (seg : Z) (tid : Z * Z) (sn dn : path).
Hypothesis Hnames : pr_names p = Some (sn, dn).
Hypothesis Hlook : lookup fs sn = Some (File d).
Hypothesis Hseg : 1 <= seg.
Hypothesis Hm : sc_mode cf = UNACKED.
Hypothesis Hck : calculate_checksum (r_cktype r) (Some d) (zlen d) seg = Ok cks.
Hypothesis Hfin : l_ind_fin c = true.

Definition InvL (off : Z) (s : src) : Prop :=
  Inv c p r fs d cf seg false tid off s /\ clean (e_log (s_env s)) /\ q_fin (s_p s) = None.

Lemma InvL_busy : forall off s, InvL off s -> s_state s = ST_BUSY.
Proof. intros off s [(_&H&_) _]. exact H. Qed.
Lemma InvL_range : forall off s, InvL off s -> 0 <= off <= zlen d.
Proof. intros off s [(_&_&_&_&_&_&_&_&_&_&_&_&_&_&_&H&_) _]. exact H. Qed.

Lemma step_fd_u : forall off s, InvL off s -> off < zlen d ->
  exists s', pump s = (s', Ok [fd_of (hdr_of cf TOWARDS_RECEIVER) (off, ztake seg (zdrop off d))]) /\
             InvL (off + Z.min seg (zlen d - off)) s'.
Proof.
  intros off s [HI [Hcl Hqf]] Hlt.
  destruct HI as (H1&H2&H3&H4&H5&H6&H7&H8&H9&H10&H11&H12&H13&H14&H15&H16&H17).
  destruct s as [cfg st step ready queue q sb pt sc sbits [nw fs' rw lg]].
  destruct q. cbn in H1,H2,H3,H4,H5,H6,H7,H8,H9,H10,H11,H12,H13,H14,H15,Hcl,Hqf. subst.
  unfold pump, pump_with, state_machine_s.
  assert (E1 : (off <? zlen d) = true) by (apply Z.ltb_lt; lia).
  assert (E2 : (off =? zlen d) = false) by (apply Z.eqb_neq; lia).
  assert (E3 : (zlen d =? 0) = false) by (apply Z.eqb_neq; lia).
  destruct H15 as [[Hs _]|Hs]; subst step;
    repeat (progress (sx; rewrite ?Hnames, ?Hlook, ?Hm, ?E1, ?E2, ?E3;
                      unfold fsm_non_idle, fsm_advancement_s, sending_file_data_fsm, handle_retransmission,
                        prepare_progressing_file_data_pdu, prepare_file_data_pdu, fs_read_data));
    rewrite (read_len_eq (zlen d) seg off) by lia; rewrite ztake_min by lia;
    (eexists; split; [reflexivity|]);
    (split; [|split; [exact Hcl | reflexivity]]);
    unfold Inv; cbn; repeat split; try reflexivity; try lia;
    try (right; reflexivity).
Qed.

Local Opaque checksum_calculation.

Ltac unf_final :=
  unfold fsm_non_idle, fsm_advancement_s, sending_file_data_fsm, handle_retransmission,
    prepare_eof_pdu, handle_eof_sent, start_positive_ack_procedure_s, handle_waiting_for_ack,
    handle_positive_ack_procedures_s, handle_wait_for_finish, notice_of_completion_s, sreset_internal.

Lemma step_final_u : forall s, InvL (zlen d) s ->
  exists s' lg0, pump s = (s', Ok [PEof (hdr_of cf TOWARDS_RECEIVER) C_NO_ERROR cks (zlen d) None]) /\
             s_state s' = ST_IDLE /\
             e_log (s_env s') = EvFinished (fst tid) (snd tid) C_NO_ERROR DATA_COMPLETE FS_UNREPORTED None :: lg0 /\
             clean lg0.
Proof.
  intros s [HI [Hcl Hqf]].
  destruct HI as (H1&H2&H3&H4&H5&H6&H7&H8&H9&H10&H11&H12&H13&H14&H15&H16&H17).
  destruct s as [cfg st step ready queue q sb pt sc sbits [nw fs' rw lg]].
  destruct q. cbn in H1,H2,H3,H4,H5,H6,H7,H8,H9,H10,H11,H12,H13,H14,H15,Hcl,Hqf. subst.
  unfold pump, pump_with, state_machine_s.
  assert (E1 : (zlen d <? zlen d) = false) by (apply Z.ltb_irrefl).
  assert (E4 : zlen d = 0 -> (zlen d =? 0) = true) by (intro Hz; apply Z.eqb_eq; exact Hz).
  destruct (l_ind_eof_sent c) eqn:Ee;
  (destruct H15 as [[Hs Hz]|Hs]; subst step; [pose proof (E4 Hz) as E7 | pose proof E1 as E7]);
  repeat (progress (sx; rewrite ?Hnames, ?Hlook, ?Hm, ?Ee, ?Hfin, ?zsub_diag, ?zeqb_refl, ?E1, ?E7;
                    rewrite ?(cc_ok p r fs d cks seg sn dn Hnames Hlook Hck) by reflexivity; unf_final));
  (eexists; eexists; split; [reflexivity|]); cbn;
  (split; [reflexivity|]); (split; [reflexivity|]);
  repeat (apply clean_cons; [reflexivity|reflexivity|]); exact Hcl.
Qed.

End Sender.

Lemma md_pump_u : forall c p r fs d cf seg tid sn dn, pr_names p = Some (sn, dn) ->
  forall s, InvL c p r fs d cf seg tid 0 s ->
  exists s3,
    (match prepare_metadata_pdu s with
     | (s'', Ok _) => let '(s3, ps) := drain_s s'' in (s3, Ok ps)
     | (s'', Err e) => (s'', Err e)
     end) =
    (s3, Ok [PMetadata (hdr_of cf TOWARDS_RECEIVER) false (r_cktype r) (zlen d) (Some (sn, dn))
               (match pr_msgs p with Some l => l | None => [] end)]) /\
    InvL c p r fs d cf seg tid 0 s3.
Proof.
  intros c p r fs d cf seg tid sn dn Hnames s [HI [Hcl Hqf]].
  destruct HI as (H1&H2&H3&H4&H5&H6&H7&H8&H9&H10&H11&H12&H13&H14&H15&H16&H17).
  destruct s as [cfg st step ready queue q sb pt sc sbits [nw fs' rw lg]].
  destruct q. cbn in H1,H2,H3,H4,H5,H6,H7,H8,H9,H10,H11,H12,H13,H14,H15,Hcl,Hqf. subst.
  unfold prepare_metadata_pdu, drain_s.
  repeat (progress (sx; rewrite ?Hnames)).
  eexists. split; [reflexivity|].
  split; [|split; [exact Hcl|reflexivity]].
  unfold Inv; cbn. repeat split; try reflexivity; try lia; exact H15.
Qed.

Lemma eof_fits_pl : forall maxp hl fl cl, 6 <= maxp - hl - fl - cl -> (maxp <? hl + 1 + 1 + 4 + fl + cl) = false.
Proof. intros. apply Z.ltb_ge. lia. Qed.

Lemma ts_ok_u : forall (c : lcfg) (seq0 bits : Z) (fs : tree) (p : putreq) (r : rcfg) (sn dn : path) (d : bytes)
    (mode : Z),
  let w := Z.max (l_idw c) (pr_dstw p) in
  let large := 4294967295 <? zlen d in
  let derived := r_max_packet r - (4 + 2 * w + bits / 8) - (if large then 8 else 4) - (if r_crc r then 2 else 0) in
  let seg := match r_max_seg r with Some m => Z.min m derived | None => derived end in
  let cf := mkSconf (l_id c) w (pr_dst p) w seq0 (bits / 8) mode large (r_crc r) in
  pr_names p = Some (sn, dn) -> lookup fs sn = Some (File d) ->
  (bits = 8 \/ bits = 16 \/ bits = 32) -> 0 <= seq0 < 2 ^ bits ->
  1 <= seg -> 6 <= derived ->
  exists s2,
    transaction_start (st1 c p r fs seq0 bits mode false SS_TRANSACTION_START) = (s2, Ok tt) /\
    InvL c p r fs d cf seg (l_id c, seq0) 0 (s2 <| s_step := SS_SENDING_METADATA |>).
Proof.
  intros c seq0 bits fs p r sn dn d mode w large derived seg cf Hn Hl Hb Hs Hseg Hd6.
  assert (Hd : 1 <= derived).
  { unfold seg in Hseg. destruct (r_max_seg r); lia. }
  destruct p as [dst dstw pm pc pn pmsg]. cbn in Hn, w, cf. subst pn.
  subst cf seg derived large w.
  unfold st1.
  assert (Hlen : 0 <= zlen d) by (unfold zlen; lia).
  assert (E2 : (2 ^ bits <=? seq0) = false) by (apply Z.leb_gt; lia).
  assert (E3 : (bits =? 8) || (bits =? 16) || (bits =? 32) = true).
  { destruct Hb as [Hb|[Hb|Hb]]; subst bits; reflexivity. }
  unfold transaction_start.
  destruct (zlen d =? 0) eqn:Ez.
  - pose proof Ez as Ez'. apply Z.eqb_eq in Ez'. rewrite Ez' in Hd, Hd6. cbn in Hd, Hd6.
    repeat (progress (sx; rewrite ?Hl, ?Ez, ?E2, ?E3;
                      rewrite ?mfsl_ok by (unfold hdr_len, fss_len, crc_len; cbn; lia);
                      rewrite ?eof_fits_pl by (unfold hdr_len, fss_len, crc_len; cbn; lia);
                      unfold fs_file_exists, exists_, fs_file_size)).
    unfold InvL, Inv. rewrite Ez'. eexists. split; [reflexivity|]. unfold set; cbn.
    split; [|split; [apply clean_cons; [reflexivity|reflexivity|apply clean_nil]|reflexivity]].
    repeat split; try reflexivity; try lia; try (left; split; reflexivity).
    unfold hdr_len, crc_len. cbn.
    destruct (r_max_seg r) as [m|]; [|lia].
    destruct (m <? _) eqn:E; [apply Z.ltb_lt in E | apply Z.ltb_ge in E]; lia.
  - pose proof Ez as Ez'. apply Z.eqb_neq in Ez'.
    repeat (progress (sx; rewrite ?Hl, ?Ez, ?E2, ?E3;
                      rewrite ?mfsl_ok by (unfold hdr_len, fss_len, crc_len; cbn; lia);
                      rewrite ?eof_fits_pl by (unfold hdr_len, fss_len, crc_len; cbn; lia);
                      unfold fs_file_exists, exists_, fs_file_size)).
    unfold InvL, Inv. eexists. split; [reflexivity|]. unfold set; cbn.
    split; [|split; [apply clean_cons; [reflexivity|reflexivity|apply clean_nil]|reflexivity]].
    repeat split; try reflexivity; try lia; try (left; split; reflexivity).
    unfold hdr_len, crc_len, fss_len. cbn.
    destruct (r_max_seg r) as [m|]; [|lia].
    destruct (m <? _) eqn:E; [apply Z.ltb_lt in E | apply Z.ltb_ge in E]; lia.
Qed.

(* the first call on the handler that accepted the put request: Metadata PDU *)
Lemma first_call : forall (c : lcfg) (seq0 bits : Z) (fs : tree) (p : putreq) (r : rcfg) (sn dn : path) (d : bytes),
  let w := Z.max (l_idw c) (pr_dstw p) in
  let large := 4294967295 <? zlen d in
  let derived := r_max_packet r - (4 + 2 * w + bits / 8) - (if large then 8 else 4) - (if r_crc r then 2 else 0) in
  let seg := match r_max_seg r with Some m => Z.min m derived | None => derived end in
  let cf := mkSconf (l_id c) w (pr_dst p) w seq0 (bits / 8) UNACKED large (r_crc r) in
  get_remote (l_remotes c) (pr_dst p) = Some r ->
  pr_names p = Some (sn, dn) -> lookup fs sn = Some (File d) ->
  (match pr_mode p with Some m => m | None => r_mode r end) = UNACKED ->
  (match pr_closure p with Some b => b | None => r_closure r end) = false ->
  (bits = 8 \/ bits = 16 \/ bits = 32) -> 0 <= seq0 < 2 ^ bits -> 1 <= seg -> 6 <= derived ->
  exists s1 s3,
    put_request p (src_fresh c seq0 bits fs) = (s1, Ok true) /\
    pump s1 = (s3, Ok [PMetadata (hdr_of cf TOWARDS_RECEIVER) false (r_cktype r) (zlen d) (Some (sn, dn))
                         (match pr_msgs p with Some l => l | None => [] end)]) /\
    InvL c p r fs d cf seg (l_id c, seq0) 0 s3.
Proof.
  intros c seq0 bits fs p r sn dn d w large derived seg cf Hr Hn Hl Hmode Hclo Hb Hs Hseg Hd6.
  destruct (ts_ok_u c seq0 bits fs p r sn dn d UNACKED Hn Hl Hb Hs Hseg Hd6) as [s2 [T1 T2]].
  fold w large cf in T2. fold derived in T2. fold seg in T2.
  destruct (md_pump_u c p r fs d cf seg (l_id c, seq0) sn dn Hn _ T2) as [s3 [M1 M2]].
  eexists. exists s3. split; [|split; [|exact M2]].
  - rewrite (pr_ok c seq0 bits fs p r sn dn d Hr Hn Hl), Hmode, Hclo. reflexivity.
  - rewrite pump_call1, T1. exact M1.
Qed.

End SenderSide.

(* ================================================================== *)
(* 2. the receiver: symbolic execution on states in constructor form   *)
(* ================================================================== *)
(* ---- symbolic execution of the monad: one rewriting lemma per primitive *)
Lemma b_ret {S A B} (a : A) (k : A -> M S B) s : bind (ret a) k s = k a s. Proof. reflexivity. Qed.
Lemma b_raise {S A B} e (k : A -> M S B) s : bind (raise e) k s = (s, Err e). Proof. reflexivity. Qed.
Lemma b_gets {S A B} (f : S -> A) (k : A -> M S B) s : bind (gets f) k s = k (f s) s. Proof. reflexivity. Qed.
Lemma b_get {S B} (k : S -> M S B) s : bind get k s = k s s. Proof. reflexivity. Qed.
Lemma b_modify {S B} (f : S -> S) (k : unit -> M S B) s : bind (modify f) k s = k tt (f s). Proof. reflexivity. Qed.
Lemma b_put {S B} (x : S) (k : unit -> M S B) s : bind (put x) k s = k tt x. Proof. reflexivity. Qed.
Lemma b_gp {A B} (f : dparams -> A) (k : A -> D B) s : bind (gp f) k s = k (f (d_p s)) s. Proof. reflexivity. Qed.
Lemma b_setp {B} f (k : unit -> D B) s : bind (setp f) k s = k tt (s <| d_p ::= f |>). Proof. reflexivity. Qed.
Lemma b_set_step {B} v (k : unit -> D B) s : bind (set_step v) k s = k tt (s <| d_step := v |>). Proof. reflexivity. Qed.
Lemma b_emit {B} e (k : unit -> D B) s :
  bind (emit e) k s = k tt (s <| d_env ::= (fun en => en <| e_log ::= cons e |>) |>). Proof. reflexivity. Qed.
Lemma b_get_step {B} (k : Z -> D B) s : bind get_step k s = k (d_step s) s. Proof. reflexivity. Qed.
Lemma b_step_is {B} v (k : bool -> D B) s : bind (step_is v) k s = k (d_step s =? v) s. Proof. reflexivity. Qed.
Lemma b_mode_is {B} m (k : bool -> D B) s :
  bind (mode_is m) k s = k (match (if d_state s =? ST_IDLE then None else Some (h_mode (p_conf (d_p s)))) with
                            | Some x => x =? m | None => false end) s.
Proof. reflexivity. Qed.
Lemma b_ok {S A B} (m : M S A) (k : A -> M S B) s s1 a : m s = (s1, Ok a) -> bind m k s = k a s1.
Proof. intro H. unfold bind. rewrite H. reflexivity. Qed.
Lemma b_assoc {S A B C} (m : M S A) (f : A -> M S B) (g : B -> M S C) s :
  bind (bind m f) g s = bind m (fun a => bind (f a) g) s.
Proof. unfold bind. destruct (m s) as [s1 [a|e]]; reflexivity. Qed.
Lemma when_true {S} (m : M S unit) : when true m = m. Proof. reflexivity. Qed.
Lemma when_false {S} (m : M S unit) : when false m = ret tt. Proof. reflexivity. Qed.

(* a small head-directed symbolic interpreter for the receiver monad on states in constructor form *)
Lemma bytes_eqb_refl : forall a, bytes_eqb a a = true.
Proof. intro a. apply bytes_eqb_eq. reflexivity. Qed.

Ltac pc t :=
  eval cbv beta iota delta
    [set d_cfg d_state d_step d_states_tid d_ready d_queue d_p d_env
     p_tid p_rcfg p_check_timer p_check_count p_closure p_cktype p_fin p_disp p_conf p_progress p_crc32 p_file_size
     p_file_name p_file_size_eof p_md_only p_tracker p_md_missing p_last_start p_last_end p_deferred p_proc_timer
     p_nak_counter p_ack_timer p_ack_counter f_deliv f_fstatus f_cond f_fl e_now e_fs e_reject_writes e_log
     h_dir h_mode h_crc h_large h_src h_dst h_idw h_seq h_seqw set_dir fst snd] in t.
Ltac cl t := let v1 := pc t in let v2 := eval cbv in v1 in v2.

Ltac mstep :=
  lazymatch goal with
  | |- bind (bind _ _) _ _ = _ => etransitivity; [apply b_assoc|]
  | |- bind (ret ?a) ?k ?s = ?r => change (k a s = r)
  | |- bind (gets ?f) ?k ?s = ?r => let v := pc (f s) in change (k v s = r)
  | |- bind (gp ?f) ?k ?s = ?r => let v := pc (f (d_p s)) in change (k v s = r)
  | |- bind (modify ?f) ?k ?s = ?r => let s' := pc (f s) in change (k tt s' = r)
  | |- bind (setp ?f) ?k ?s = ?r => let s' := pc (s <| d_p ::= f |>) in change (k tt s' = r)
  | |- bind (set_step ?v) ?k ?s = ?r => let s' := pc (s <| d_step := v |>) in change (k tt s' = r)
  | |- bind (emit ?e) ?k ?s = ?r =>
      let s' := pc (s <| d_env ::= (fun en => en <| e_log ::= cons e |>) |>) in change (k tt s' = r)
  | |- bind tmode ?k ?s = ?r =>
      let v := cl (if d_state s =? ST_IDLE then None else Some (h_mode (p_conf (d_p s)))) in change (k v s = r)
  | |- bind get_step ?k ?s = ?r => let v := pc (d_step s) in change (k v s = r)
  | |- bind (step_is ?v) ?k ?s = ?r => let b := cl (d_step s =? v) in change (k b s = r)
  | |- bind (mode_is ?m) ?k ?s = ?r =>
      let b := cl (match (if d_state s =? ST_IDLE then None else Some (h_mode (p_conf (d_p s)))) with
                   | Some x => x =? m | None => false end) in change (k b s = r)
  | |- bind get ?k ?s = ?r => change (k s s = r)
  | |- bind (put ?s') ?k ?s = ?r => let s'' := pc s' in change (k tt s'' = r)
  | |- bind (if ?c then _ else _) _ _ = _ =>
      let b := cl c in lazymatch b with true => change c with true | false => change c with false end
  | |- (if ?c then _ else _) _ = _ =>
      let b := cl c in lazymatch b with true => change c with true | false => change c with false end
  end; cbv beta iota zeta delta [when].
Ltac mrun := repeat mstep.

Section Receiver.
Variables (cd : lcfg) (rd : rcfg) (x : Z) (crc large : bool) (srcid idw seq seqw ckt fsz : Z).
Hypothesis Hrem : get_remote (l_remotes cd) srcid = Some rd.
Hypothesis Hfin : l_ind_fin cd = true.

Definition hS : hdr := mkHdr TOWARDS_RECEIVER UNACKED crc large srcid (l_id cd) idw seq seqw.

Definition dstate (off : Z) (fs : tree) (lg : list event) : dst :=
  mkDst cd ST_BUSY DS_RECEIVING_FILE_DATA (Some (srcid, seq)) 0 []
    (mkDP (Some (srcid, seq)) (Some rd) None 0 false ckt (mkFin DATA_INCOMPLETE FS_RETAINED C_NO_ERROR None)
          DISP_COMPLETED (set_dir TOWARDS_SENDER hS) off [] (Some fsz) [x] None false [] false 0 0 false None 0 None 0)
    (mkEnv 0 fs false lg).

Lemma check_md : forall cl ck sz names msgs s, d_cfg s = cd -> d_state s = ST_IDLE ->
  check_inserted_packet (PMetadata hS cl ck sz names msgs) s = (s, Ok tt).
Proof.
  intros cl ck sz names msgs s H1 H2. unfold check_inserted_packet. rewrite b_get. cbv zeta.
  cbn [pdu_hdr hS h_dir h_dst h_src h_mode]. rewrite H1, H2, Hrem, !Z.eqb_refl. reflexivity.
Qed.

Lemma check_fd : forall off data s, d_cfg s = cd -> d_state s = ST_BUSY ->
  check_inserted_packet (PFileData hS off data) s = (s, Ok tt).
Proof.
  intros off data s H1 H2. unfold check_inserted_packet. rewrite b_get. cbv zeta.
  cbn [pdu_hdr hS h_dir h_dst h_src h_mode]. rewrite H1, H2, Hrem, !Z.eqb_refl. reflexivity.
Qed.

Lemma check_eof : forall c ck sz fl s, d_cfg s = cd -> d_state s = ST_BUSY ->
  check_inserted_packet (PEof hS c ck sz fl) s = (s, Ok tt).
Proof.
  intros c ck sz fl s H1 H2. unfold check_inserted_packet. rewrite b_get. cbv zeta.
  cbn [pdu_hdr hS h_dir h_dst h_src h_mode]. rewrite H1, H2, Hrem, !Z.eqb_refl. reflexivity.
Qed.


Lemma catch_ok {S A} (m : M S A) h s s1 a : m s = (s1, Ok a) -> catch m h s = (s1, Ok a).
Proof. intro H. unfold catch. rewrite H. reflexivity. Qed.

Lemma init_vfs_run : forall base s, e_fs (d_env s) = [] -> p_file_name (d_p s) = [x] ->
  init_vfs_handling base s =
    (s <| d_p ::= (fun p => p <| p_file_name := [x] |>) |>
       <| d_env ::= (fun e => e <| e_fs := [([x], File [])] |>) |>
       <| d_p ::= (fun p => p <| p_fin ::= (fun f => f <| f_fstatus := FS_RETAINED |>) |>) |>, Ok tt).
Proof.
  intros base s H1 H2. unfold init_vfs_handling. apply catch_ok.
  rewrite b_gets, b_gp, H1, H2.
  change (fs_is_directory [] [x]) with false. cbv iota.
  change (fs_file_exists [] [x]) with false. cbv iota.
  rewrite b_setp. unfold vfs_op_tree. rewrite b_assoc, b_gets. cbn [d_env set e_fs]. rewrite H1.
  change (fst (fs_create_file [] [x])) with [([x], File [])]. cbv iota. rewrite b_modify.
  reflexivity.
Qed.

Lemma idle_md : forall sn msgs,
  idle_fsm (Some (PMetadata hS false ckt fsz (Some (sn, [x])) msgs)) (dst_init cd) =
    (dstate 0 [([x], File [])] [EvMetadataRecv srcid seq srcid (Some fsz) (Some (sn, [x])) msgs], Ok tt).
Proof.
  intros sn msgs. unfold idle_fsm, start_transaction, dst_init, fresh_params, hS.
  mrun. unfold common_first_packet_handler. mrun. rewrite Hrem.
  unfold handle_metadata_packet. mrun.
  erewrite b_ok by (apply init_vfs_run; reflexivity). mrun.
  reflexivity.
Qed.

Lemma fsm_adv_nop : forall s, d_queue s = [] -> d_step s = DS_RECEIVING_FILE_DATA -> fsm_advancement s = (s, Ok tt).
Proof. intros s H1 H2. unfold fsm_advancement. rewrite b_get, H1, H2. reflexivity. Qed.

Lemma handle_fd_run : forall off data fs lg old, lookup fs [x] = Some (File old) ->
  handle_fd_pdu off data (dstate off fs lg) =
    (dstate (Z.max (off + zlen data) off) (set_node fs [x] (File (write_at old off data)))
            (if l_ind_seg cd then EvSegmentRecv srcid seq off (zlen data) :: lg else lg), Ok tt).
Proof.
  intros off data fs lg old Hl. unfold handle_fd_pdu, dstate, hS. mrun.
  destruct (l_ind_seg cd); mrun; apply catch_ok; mrun; unfold vfs_write; mrun;
    cbn [e_fs]; unfold fs_write_data; rewrite Hl; cbv iota; mrun; reflexivity.
Qed.

Lemma nif_md : forall fuel cl ck sz names msgs off fs lg,
  non_idle_fsm (S fuel) (Some (PMetadata hS cl ck sz names msgs)) (dstate off fs lg) = (dstate off fs lg, Ok tt).
Proof.
  intros. cbn [non_idle_fsm]. rewrite (b_ok _ _ _ _ _ (fsm_adv_nop (dstate off fs lg) eq_refl eq_refl)).
  unfold dstate, hS. mrun. reflexivity.
Qed.

Lemma nif_fd : forall fuel off data fs lg old, lookup fs [x] = Some (File old) ->
  non_idle_fsm (S fuel) (Some (PFileData hS off data)) (dstate off fs lg) =
    (dstate (Z.max (off + zlen data) off) (set_node fs [x] (File (write_at old off data)))
            (if l_ind_seg cd then EvSegmentRecv srcid seq off (zlen data) :: lg else lg), Ok tt).
Proof.
  intros fuel off data fs lg old Hl. cbn [non_idle_fsm].
  rewrite (b_ok _ _ _ _ _ (fsm_adv_nop (dstate off fs lg) eq_refl eq_refl)).
  unfold dstate at 1, hS. mrun. fold hS. fold (dstate off fs lg).
  rewrite (b_ok _ _ _ _ _ (handle_fd_run off data fs lg old Hl)).
  unfold dstate, hS. mrun. reflexivity.
Qed.

Lemma sm_md : forall sn msgs,
  Dest.state_machine (Some (PMetadata hS false ckt fsz (Some (sn, [x])) msgs)) (dst_init cd) =
    (dstate 0 [([x], File [])] [EvMetadataRecv srcid seq srcid (Some fsz) (Some (sn, [x])) msgs], Ok tt).
Proof.
  intros sn msgs. unfold Dest.state_machine.
  rewrite (b_ok _ _ _ _ _ (check_md _ _ _ _ _ (dst_init cd) eq_refl eq_refl)).
  unfold catch_abandoned; apply catch_ok.
  unfold dst_init at 1. mrun. fold (dst_init cd).
  rewrite (b_ok _ _ _ _ _ (idle_md sn msgs)).
  unfold dstate at 1, hS. mrun. fold hS.
  apply nif_md.
Qed.

Lemma sm_fd : forall off data fs lg old, lookup fs [x] = Some (File old) ->
  Dest.state_machine (Some (PFileData hS off data)) (dstate off fs lg) =
    (dstate (Z.max (off + zlen data) off) (set_node fs [x] (File (write_at old off data)))
            (if l_ind_seg cd then EvSegmentRecv srcid seq off (zlen data) :: lg else lg), Ok tt).
Proof.
  intros off data fs lg old Hl. unfold Dest.state_machine.
  rewrite (b_ok _ _ _ _ _ (check_fd off data (dstate off fs lg) eq_refl eq_refl)).
  unfold catch_abandoned; apply catch_ok.
  unfold dstate at 1, hS. mrun. fold hS.
  apply nif_fd. exact Hl.
Qed.

Definition dfinal (fs : tree) (lg : list event) : dst :=
  mkDst cd ST_IDLE DS_IDLE (Some (srcid, seq)) 0 [] fresh_params (mkEnv 0 fs false lg).

Ltac dpr :=
  cbn [d_cfg d_state d_step d_states_tid d_ready d_queue d_p d_env
       p_tid p_rcfg p_check_timer p_check_count p_closure p_cktype p_fin p_disp p_conf p_progress p_crc32 p_file_size
       p_file_name p_file_size_eof p_md_only p_tracker p_md_missing p_last_start p_last_end p_deferred p_proc_timer
       p_nak_counter p_ack_timer p_ack_counter f_deliv f_fstatus f_cond f_fl e_now e_fs e_reject_writes e_log
       h_dir h_mode h_crc h_large h_src h_dst h_idw h_seq h_seqw fst snd opt_z].

Lemma nif_eof : forall fuel cks fl fs lg data,
  lookup fs [x] = Some (File data) -> calculate_checksum ckt (Some data) fsz 4096 = Ok cks ->
  non_idle_fsm (S fuel) (Some (PEof hS C_NO_ERROR cks fsz fl)) (dstate fsz fs lg) =
    (dfinal fs (EvFinished srcid seq C_NO_ERROR DATA_COMPLETE FS_RETAINED None ::
                (if l_ind_eof_recv cd then [EvEofRecv srcid seq] else []) ++ lg), Ok tt).
Proof.
  intros fuel cks fl fs lg data Hl Hck. cbn [non_idle_fsm].
  rewrite (b_ok _ _ _ _ _ (fsm_adv_nop (dstate fsz fs lg) eq_refl eq_refl)).
  unfold dstate at 1, hS. mrun. unfold handle_eof_pdu. mrun.
  destruct (l_ind_eof_recv cd); unfold tid_or_assert; mrun;
  unfold handle_no_error_eof; mrun; dpr; rewrite Z.ltb_irrefl; cbn [andb]; mrun;
  unfold checksum_verify; mrun; dpr;
  (destruct (ckt =? CK_NULL) eqn:Eck; cbn [orb]; mrun;
   [| unfold vfs_checksum; mrun; rewrite Eck; mrun; rewrite Hl, Hck; cbv iota; mrun; rewrite bytes_eqb_refl; dpr; rewrite Z.leb_refl; cbn [andb]; mrun]);
  unfold file_transfer_complete_transition; mrun;
  unfold handle_transfer_completion, notice_of_completion; mrun; rewrite Hfin; mrun; dpr; mrun;
  unfold reset_internal; mrun; reflexivity.
Qed.

Lemma sm_eof : forall cks fl fs lg data,
  lookup fs [x] = Some (File data) -> calculate_checksum ckt (Some data) fsz 4096 = Ok cks ->
  Dest.state_machine (Some (PEof hS C_NO_ERROR cks fsz fl)) (dstate fsz fs lg) =
    (dfinal fs (EvFinished srcid seq C_NO_ERROR DATA_COMPLETE FS_RETAINED None ::
                (if l_ind_eof_recv cd then [EvEofRecv srcid seq] else []) ++ lg), Ok tt).
Proof.
  intros cks fl fs lg data Hl Hck. unfold Dest.state_machine.
  rewrite (b_ok _ _ _ _ _ (check_eof C_NO_ERROR cks fsz fl (dstate fsz fs lg) eq_refl eq_refl)).
  unfold catch_abandoned; apply catch_ok.
  unfold dstate at 1, hS. mrun. fold hS.
  eapply nif_eof; eassumption.
Qed.
End Receiver.

(* ================================================================== *)
(* 3. the system: one round = one sender call + one delivery           *)
(* ================================================================== *)
Local Opaque state_machine_s Dest.state_machine.

Ltac ypr :=
  unfold set; cbv beta;
  cbn [y_src y_dst y_s2d y_d2s y_cnt_s2d y_cnt_d2s y_delayed y_round y_src_cur y_dst_cur y_src_done y_dst_done
       y_errs y_faults fst snd].

(* the system between two rounds of a fault-free run: links empty, nothing delayed, no error so far *)
Definition Y (s : src) (dd : dst) (c1 c2 rnd : Z) (scur dcur : option (Z * Z)) (sdone ddone : list (Z * Z)) : sys :=
  mkSys s dd [] [] c1 c2 [] rnd scur dcur sdone ddone [] [].

Definition ow (p : pdu) : list pdu := match on_wire p with Some q => [q] | None => [] end.

Lemma nds_shape : forall s dd q1 q2 c1 c2 dl rnd scur dcur sdone ddone er fl, exists scur' sdone',
  note_done_src (mkSys s dd q1 q2 c1 c2 dl rnd scur dcur sdone ddone er fl) =
  mkSys s dd q1 q2 c1 c2 dl rnd scur' dcur sdone' ddone er fl.
Proof.
  intros. unfold note_done_src. ypr.
  destruct (s_state s =? ST_BUSY); [destruct (q_tid (s_p s))|destruct scur]; ypr; eexists; eexists; reflexivity.
Qed.

Lemma ndd_shape : forall s dd q1 q2 c1 c2 dl rnd scur dcur sdone ddone er fl, exists dcur' ddone',
  note_done_dst (mkSys s dd q1 q2 c1 c2 dl rnd scur dcur sdone ddone er fl) =
  mkSys s dd q1 q2 c1 c2 dl rnd scur dcur' sdone ddone' er fl.
Proof.
  intros. unfold note_done_dst. ypr.
  destruct (d_state dd =? ST_BUSY); [destruct (p_tid (d_p dd))|destruct dcur]; ypr; eexists; eexists; reflexivity.
Qed.

Lemma call_src_pump : forall s s2 ps dd q1 q2 c1 c2 rnd scur dcur sdone ddone,
  pump s = (s2, Ok ps) ->
  exists scur' sdone',
  call_src None (mkSys s dd q1 q2 c1 c2 [] rnd scur dcur sdone ddone [] []) =
   (emit_pdus 0 (flat_map ow ps) (mkSys s2 dd q1 q2 c1 c2 [] rnd scur' dcur sdone' ddone [] []), zlen ps).
Proof.
  intros s s2 ps dd q1 q2 c1 c2 rnd scur dcur sdone ddone H.
  unfold pump, pump_with in H.
  destruct (state_machine_s None s) as [s1 [u|e]] eqn:Hsm; [|discriminate H].
  unfold drain_s in H. injection H as <- <-.
  destruct (nds_shape s1 dd q1 q2 c1 c2 [] rnd scur dcur sdone ddone [] []) as (sc & sd & E).
  exists sc, sd.
  unfold call_src. ypr. rewrite Hsm. ypr. rewrite E. ypr. unfold drain_s. reflexivity.
Qed.

Lemma call_dst_ok : forall pkt dd dd2 s q1 q2 c1 c2 rnd scur dcur sdone ddone,
  Dest.state_machine pkt dd = (dd2, Ok tt) -> drain_d dd2 = (dd2, []) ->
  exists dcur' ddone',
  call_dst pkt (mkSys s dd q1 q2 c1 c2 [] rnd scur dcur sdone ddone [] []) =
   (mkSys s dd2 q1 q2 c1 c2 [] rnd scur dcur' sdone ddone' [] [], 0).
Proof.
  intros pkt dd dd2 s q1 q2 c1 c2 rnd scur dcur sdone ddone H1 H2.
  destruct (ndd_shape s dd2 q1 q2 c1 c2 [] rnd scur dcur sdone ddone [] []) as (dc & dn & E).
  exists dc, dn.
  unfold call_dst. ypr. rewrite H1. ypr. rewrite E. ypr. rewrite H2. reflexivity.
Qed.

Lemma deliver_all_nil : forall f y a, deliver_all f [] y a = (y, a).
Proof. reflexivity. Qed.
Lemma deliver_all_one : forall f p y a,
  deliver_all f [p] y a = (fst (f p y), a + 1 + snd (f p y)).
Proof. intros. cbn [deliver_all]. destruct (f p y). reflexivity. Qed.

Lemma emit_one : forall p s dd q1 q2 c1 c2 dl rnd scur dcur sdone ddone er,
  emit_pdus 0 [p] (mkSys s dd q1 q2 c1 c2 dl rnd scur dcur sdone ddone er []) =
  mkSys s dd (q1 ++ [p]) q2 (c1 + 1) c2 dl rnd scur dcur sdone ddone er [].
Proof. reflexivity. Qed.

Lemma deliver_to_dest_pass : forall pd s dd q1 q2 c1 c2 dl rnd scur dcur sdone ddone er fl,
  (d_state dd =? ST_IDLE) && tid_mem (h_src (pdu_hdr pd), h_seq (pdu_hdr pd)) ddone = false ->
  (d_state dd =? ST_BUSY) &&
    match p_tid (d_p dd) with
    | Some t => negb (tid_eqb (h_src (pdu_hdr pd), h_seq (pdu_hdr pd)) t) | None => false end = false ->
  deliver_to_dest pd (mkSys s dd q1 q2 c1 c2 dl rnd scur dcur sdone ddone er fl) =
  call_dst (Some pd) (mkSys s dd q1 q2 c1 c2 dl rnd scur dcur sdone ddone er fl).
Proof.
  intros pd s dd q1 q2 c1 c2 dl rnd scur dcur sdone ddone er fl G1 G2.
  unfold deliver_to_dest. ypr. rewrite G1, G2. reflexivity.
Qed.

Lemma step_round_Y : forall s dd c1 c2 rnd scur dcur sdone ddone,
  step_round (Y s dd c1 c2 rnd scur dcur sdone ddone) =
  (let y1 := Y s dd c1 c2 (rnd + 1) scur dcur sdone ddone in
   let '(y2, a2) :=
            let before := (s_state (y_src y1), s_step (y_src y1)) in
            let '(yy, n) := call_src None y1 in
            (yy, 0 + n + (if (fst before =? s_state (y_src yy)) && (snd before =? s_step (y_src yy)) then 0 else 1)) in
  let inbound2 := y_s2d y2 in
  let '(y3, a3) := deliver_all deliver_to_dest inbound2 (y2 <| y_s2d := [] |>) a2 in
  match inbound2 with
  | [] => let before := (d_state (y_dst y3), d_step (y_dst y3)) in
          let '(yy, n) := call_dst None y3 in
          (yy, a3 + n + (if (fst before =? d_state (y_dst yy)) && (snd before =? d_step (y_dst yy)) then 0 else 1))
  | _ => (y3, a3)
  end).
Proof. reflexivity. Qed.

Lemma round_generic : forall s s2 pd dd dd2 c1 c2 rnd scur dcur sdone ddone,
  pump s = (s2, Ok [pd]) -> on_wire pd = Some pd ->
  (d_state dd =? ST_IDLE) && tid_mem (h_src (pdu_hdr pd), h_seq (pdu_hdr pd)) ddone = false ->
  (d_state dd =? ST_BUSY) &&
    match p_tid (d_p dd) with
    | Some t => negb (tid_eqb (h_src (pdu_hdr pd), h_seq (pdu_hdr pd)) t) | None => false end = false ->
  Dest.state_machine (Some pd) dd = (dd2, Ok tt) -> drain_d dd2 = (dd2, []) ->
  exists c1' scur' dcur' sdone' ddone' a,
    step_round (Y s dd c1 c2 rnd scur dcur sdone ddone) = (Y s2 dd2 c1' c2 (rnd + 1) scur' dcur' sdone' ddone', a) /\
    0 < a.
Proof.
  intros s s2 pd dd dd2 c1 c2 rnd scur dcur sdone ddone Hp How G1 G2 Hd Hdr.
  destruct (call_src_pump s s2 [pd] dd [] [] c1 c2 (rnd + 1) scur dcur sdone ddone Hp) as (scur' & sdone' & E).
  destruct (call_dst_ok (Some pd) dd dd2 s2 [] [] (c1 + 1) c2 (rnd + 1) scur' dcur sdone' ddone Hd Hdr)
    as (dcur' & ddone' & E2).
  exists (c1 + 1), scur', dcur', sdone', ddone'. eexists.
  rewrite step_round_Y. unfold Y. cbv zeta. rewrite E.
  cbn [flat_map app]. unfold ow. rewrite How. cbn [app]. rewrite emit_one.
  ypr. cbn [app]. rewrite deliver_all_one. rewrite deliver_to_dest_pass by assumption. rewrite E2.
  ypr. split; [reflexivity|].
  change (zlen [pd]) with 1.
  destruct ((s_state s =? s_state s2) && (s_step s =? s_step s2)); lia.
Qed.

(* ------------------------------------------------------------------ list facts *)
Lemma ztake_all : forall (l : bytes), ztake (zlen l) l = l.
Proof. intro l. unfold ztake, zlen. rewrite Nat2Z.id. apply firstn_all. Qed.

Lemma tile_len : forall (d : bytes) seg off, 1 <= seg -> 0 <= off < zlen d ->
  zlen (ztake seg (zdrop off d)) = Z.min seg (zlen d - off).
Proof. intros d seg off H1 H2. rewrite zlen_ztake by lia. rewrite zlen_zdrop by lia. lia. Qed.

Lemma write_append : forall (d : bytes) seg off, 1 <= seg -> 0 <= off < zlen d ->
  write_at (ztake off d) off (ztake seg (zdrop off d)) = ztake (off + Z.min seg (zlen d - off)) d.
Proof.
  intros d seg off H1 H2.
  pose proof (tile_len d seg off H1 H2) as Hl.
  assert (Hne : ztake seg (zdrop off d) <> []).
  { intro E. rewrite E in Hl. change (zlen (@nil Z)) with 0 in Hl. lia. }
  rewrite write_at_eq by exact Hne.
  assert (Ho : length (ztake off d) = Z.to_nat off).
  { assert (zlen (ztake off d) = Z.min off (zlen d)) by (apply zlen_ztake; lia). unfold zlen in *. lia. }
  rewrite firstn_all2 by lia. rewrite Ho, Nat.sub_diag. cbn [zrepeat app].
  rewrite skipn_all2 by lia. rewrite app_nil_r.
  rewrite ztake_add by lia. unfold read_at. rewrite ztake_min by lia. reflexivity.
Qed.

Lemma ck_agree : forall ty (d : bytes) seg,
  (ty = CK_CRC32 \/ ty = CK_CRC32C \/ ty = CK_NULL \/ ty = CK_MODULAR) -> 1 <= seg ->
  exists cks, calculate_checksum ty (Some d) (zlen d) seg = Ok cks /\
              calculate_checksum ty (Some d) (zlen d) 4096 = Ok cks.
Proof.
  intros ty d seg Hty Hseg.
  assert (Hr : 0 <= zlen d <= zlen d) by (unfold zlen; lia).
  destruct Hty as [H|[H|[H|H]]]; subst ty; eexists.
  - rewrite !calc_crc_chunk_independent by (auto; lia). split; reflexivity.
  - rewrite !calc_crc_chunk_independent by (auto; lia). split; reflexivity.
  - rewrite !null_spec. split; reflexivity.
  - rewrite !modular_spec by exact Hr. split; reflexivity.
Qed.

Lemma clean_app : forall a b, clean a -> clean b -> clean (a ++ b).
Proof.
  intros a b [A1 A2] [B1 B2]. split.
  - rewrite existsb_app, A1, B1. reflexivity.
  - rewrite filter_app, A2, B2. reflexivity.
Qed.

Lemma run_S : forall k tick y,
  run (S k) tick y =
    (let '(y1, a) := step_round y in
     if quiescent y1 then (y1, true) else run k tick (if a =? 0 then advance tick y1 else y1)).
Proof. reflexivity. Qed.

(* ------------------------------------------------------------------ the two-entity system, round by round *)
Section Sys.
Variables (cs cd : lcfg) (p : putreq) (rs rd : rcfg) (sn : path) (x : Z) (data cks : bytes) (cf : sconf) (seg tick : Z).
Variable fss : tree.
Hypothesis Hnames : pr_names p = Some (sn, [x]).
Hypothesis Hlook : lookup fss sn = Some (File data).
Hypothesis Hseg : 1 <= seg.
Hypothesis Hm : sc_mode cf = UNACKED.
Hypothesis Hck : calculate_checksum (r_cktype rs) (Some data) (zlen data) seg = Ok cks.
Hypothesis Hck2 : calculate_checksum (r_cktype rs) (Some data) (zlen data) 4096 = Ok cks.
Hypothesis Hfins : l_ind_fin cs = true.
Hypothesis Hfind : l_ind_fin cd = true.
Hypothesis Hrem : get_remote (l_remotes cd) (sc_src cf) = Some rd.
Hypothesis Hdst : sc_dst cf = l_id cd.

Definition tid0 : Z * Z := (sc_src cf, sc_seq cf).
Definition hR : hdr := hS cd (sc_crc cf) (sc_large cf) (sc_src cf) (sc_srcw cf) (sc_seq cf) (sc_seqw cf).
Definition DS (off : Z) (fs : tree) (lg : list event) : dst :=
  dstate cd rd x (sc_crc cf) (sc_large cf) (sc_src cf) (sc_srcw cf) (sc_seq cf) (sc_seqw cf) (r_cktype rs) (zlen data)
         off fs lg.
Definition DF (fs : tree) (lg : list event) : dst :=
  dfinal cd (sc_src cf) (sc_seq cf) fs lg.

Lemma hdr_eq : hdr_of cf TOWARDS_RECEIVER = hR.
Proof. unfold hdr_of, hR, hS. rewrite Hm, Hdst. reflexivity. Qed.

Definition SInv (off : Z) (y : sys) : Prop :=
  exists s fs lg c1 c2 rnd scur dcur sdone ddone,
    y = Y s (DS off fs lg) c1 c2 rnd scur dcur sdone ddone /\
    InvL cs p rs fss data cf seg tid0 off s /\
    lookup fs [x] = Some (File (ztake off data)) /\ clean lg.

Lemma guard_busy : forall pkt off fs lg ddone, pdu_hdr pkt = hR ->
  (d_state (DS off fs lg) =? ST_IDLE) && tid_mem (h_src (pdu_hdr pkt), h_seq (pdu_hdr pkt)) ddone = false /\
  (d_state (DS off fs lg) =? ST_BUSY) &&
    match p_tid (d_p (DS off fs lg)) with
    | Some t => negb (tid_eqb (h_src (pdu_hdr pkt), h_seq (pdu_hdr pkt)) t) | None => false end = false.
Proof.
  intros pkt off fs lg ddone H. rewrite H. split; [reflexivity|].
  unfold DS, dstate, hR, hS, tid_eqb. cbn [d_state d_p p_tid h_src h_seq fst snd].
  rewrite !Z.eqb_refl. reflexivity.
Qed.

(* a File Data round *)
Lemma round_fd : forall off y, SInv off y -> off < zlen data ->
  exists y' a, step_round y = (y', a) /\ 0 < a /\ quiescent y' = false /\
               SInv (off + Z.min seg (zlen data - off)) y'.
Proof.
  intros off y (s & fs & lg & c1 & c2 & rnd & scur & dcur & sdone & ddone & -> & HI & Hl & Hc) Hlt.
  pose proof (InvL_range _ _ _ _ _ _ _ _ _ _ HI) as Hr.
  destruct (step_fd_u cs p rs fss data cf seg tid0 sn [x] Hnames Hlook Hseg Hm off s HI Hlt) as (s' & P & HI').
  unfold fd_of in P. cbn [fst snd] in P. rewrite hdr_eq in P.
  set (tile := ztake seg (zdrop off data)) in *.
  assert (Htl : zlen tile = Z.min seg (zlen data - off)) by (apply tile_len; lia).
  assert (How : on_wire (PFileData hR off tile) = Some (PFileData hR off tile)).
  { destruct tile; [change (zlen (@nil Z)) with 0 in Htl; lia | reflexivity]. }
  destruct (guard_busy (PFileData hR off tile) off fs lg ddone eq_refl) as [G1 G2].
  pose proof (sm_fd cd rd x (sc_crc cf) (sc_large cf) (sc_src cf) (sc_srcw cf) (sc_seq cf) (sc_seqw cf)
                (r_cktype rs) (zlen data) Hrem off tile fs lg _ Hl) as Hsm.
  fold hR in Hsm. rewrite Z.max_l in Hsm by lia. rewrite Htl in Hsm.
  destruct (round_generic s s' _ _ _ c1 c2 rnd scur dcur sdone ddone P How G1 G2 Hsm eq_refl)
    as (c1' & scur' & dcur' & sdone' & ddone' & a & R & Ha).
  eexists. exists a. split; [exact R|]. split; [exact Ha|]. split.
  - unfold quiescent, Y. cbn [y_src]. rewrite (InvL_busy _ _ _ _ _ _ _ _ _ _ HI'). reflexivity.
  - do 10 eexists. split; [reflexivity|]. split; [exact HI'|]. split.
    + rewrite lookup_set_node by discriminate. rewrite path_eqb_refl. f_equal. f_equal.
      apply write_append; lia.
    + destruct (l_ind_seg cd); [apply clean_cons; [reflexivity|reflexivity|exact Hc] | exact Hc].
Qed.


(* what the verdict looks at, after the last round *)
Definition Final (y : sys) : Prop :=
  exists s fs lgs lgd c1 c2 rnd scur dcur sdone ddone,
    y = Y s (DF fs (EvFinished (sc_src cf) (sc_seq cf) C_NO_ERROR DATA_COMPLETE FS_RETAINED None :: lgd))
          c1 c2 rnd scur dcur sdone ddone /\
    e_log (s_env s) = EvFinished (sc_src cf) (sc_seq cf) C_NO_ERROR DATA_COMPLETE FS_UNREPORTED None :: lgs /\
    clean lgs /\ clean lgd /\ lookup fs [x] = Some (File data).

(* the EOF round *)
Lemma round_eof : forall y, SInv (zlen data) y ->
  exists y' a, step_round y = (y', a) /\ quiescent y' = true /\ Final y'.
Proof.
  intros y (s & fs & lg & c1 & c2 & rnd & scur & dcur & sdone & ddone & -> & HI & Hl & Hc).
  destruct (step_final_u cs p rs fss data cks cf seg tid0 sn [x] Hnames Hlook Hm Hck Hfins s HI)
    as (s' & lg0 & P & Hst & Hlog & Hc0).
  rewrite hdr_eq in P. rewrite ztake_all in Hl.
  destruct (guard_busy (PEof hR C_NO_ERROR cks (zlen data) None) (zlen data) fs lg ddone eq_refl) as [G1 G2].
  pose proof (sm_eof cd rd x (sc_crc cf) (sc_large cf) (sc_src cf) (sc_srcw cf) (sc_seq cf) (sc_seqw cf)
                (r_cktype rs) (zlen data) Hrem Hfind cks None fs lg data Hl Hck2) as Hsm.
  fold hR in Hsm.
  destruct (round_generic s s' _ _ _ c1 c2 rnd scur dcur sdone ddone P eq_refl G1 G2 Hsm eq_refl)
    as (c1' & scur' & dcur' & sdone' & ddone' & a & R & Ha).
  eexists. exists a. split; [exact R|]. split.
  - unfold quiescent, Y. cbn [y_src]. rewrite Hst. reflexivity.
  - do 11 eexists. split; [reflexivity|]. split; [exact Hlog|]. split; [exact Hc0|]. split; [|exact Hl].
    apply clean_app; [|exact Hc].
    destruct (l_ind_eof_recv cd); [apply clean_cons; [reflexivity|reflexivity|apply clean_nil] | apply clean_nil].
Qed.

(* all rounds after the Metadata round *)
Lemma run_rest : forall n off y, SInv off y -> (length (zdrop off data) <= n)%nat ->
  exists y', run (S n) tick y = (y', true) /\ Final y'.
Proof.
  induction n as [|n IH]; intros off y HS Hn.
  - assert (Hr : 0 <= off <= zlen data).
    { destruct HS as (s & fs & lg & c1 & c2 & rnd & scur & dcur & sdone & ddone & _ & HI & _).
      exact (InvL_range _ _ _ _ _ _ _ _ _ _ HI). }
    assert (Hz : zlen (zdrop off data) = 0) by (unfold zlen; lia).
    rewrite zlen_zdrop in Hz by lia. assert (off = zlen data) by lia. subst off.
    destruct (round_eof y HS) as (y' & a & R & Q & F).
    exists y'. split; [|exact F]. rewrite run_S, R. cbv iota beta. rewrite Q. reflexivity.
  - assert (Hr : 0 <= off <= zlen data).
    { destruct HS as (s & fs & lg & c1 & c2 & rnd & scur & dcur & sdone & ddone & _ & HI & _).
      exact (InvL_range _ _ _ _ _ _ _ _ _ _ HI). }
    destruct (Z.eq_dec off (zlen data)) as [He|He].
    + subst off. destruct (round_eof y HS) as (y' & a & R & Q & F).
      exists y'. split; [|exact F]. rewrite run_S, R. cbv iota beta. rewrite Q. reflexivity.
    + assert (Hlt : off < zlen data) by lia.
      destruct (round_fd off y HS Hlt) as (y1 & a & R & Ha & Q & HS').
      set (off' := off + Z.min seg (zlen data - off)) in *.
      assert (Hn' : (length (zdrop off' data) <= n)%nat).
      { assert (Hz : zlen (zdrop off data) = Z.max 0 (zlen data - off)) by (apply zlen_zdrop; lia).
        assert (Hz' : zlen (zdrop off' data) = Z.max 0 (zlen data - off')) by (apply zlen_zdrop; unfold off'; lia).
        unfold zlen in Hz, Hz'. unfold off' in *. lia. }
      destruct (IH off' y1 HS' Hn') as (y' & Rr & F).
      exists y'. split; [|exact F].
      rewrite run_S, R. cbv iota beta. rewrite Q.
      assert (Ea : (a =? 0) = false) by (apply Z.eqb_neq; lia). rewrite Ea. exact Rr.
Qed.

(* the Metadata round *)
Lemma round_md : forall s1 s3 c1 c2 rnd,
  pump s1 = (s3, Ok [PMetadata (hdr_of cf TOWARDS_RECEIVER) false (r_cktype rs) (zlen data) (Some (sn, [x])) []]) ->
  InvL cs p rs fss data cf seg tid0 0 s3 ->
  exists y' a, step_round (Y s1 (dst_init cd) c1 c2 rnd None None [] []) = (y', a) /\ 0 < a /\
               quiescent y' = false /\ SInv 0 y'.
Proof.
  intros s1 s3 c1 c2 rnd P HI. rewrite hdr_eq in P.
  pose proof (sm_md cd rd x (sc_crc cf) (sc_large cf) (sc_src cf) (sc_srcw cf) (sc_seq cf) (sc_seqw cf)
                (r_cktype rs) (zlen data) Hrem sn []) as Hsm.
  fold hR in Hsm.
  destruct (round_generic s1 s3 _ (dst_init cd) _ c1 c2 rnd None None [] [] P eq_refl eq_refl eq_refl Hsm eq_refl)
    as (c1' & scur' & dcur' & sdone' & ddone' & a & R & Ha).
  eexists. exists a. split; [exact R|]. split; [exact Ha|]. split.
  - unfold quiescent, Y. cbn [y_src]. rewrite (InvL_busy _ _ _ _ _ _ _ _ _ _ HI). reflexivity.
  - do 10 eexists. split; [reflexivity|]. split; [exact HI|]. split.
    + cbn [lookup lookup_raw path_eqb]. rewrite Z.eqb_refl. reflexivity.
    + apply clean_cons; [reflexivity|reflexivity|apply clean_nil].
Qed.

End Sys.

Lemma final_verdict : forall cd x data cf y,
  Final cd x data cf y ->
  delivered_ok [x] data (y, true) = true /\ y_errs y = [] /\
  existsb fault_event (e_log (s_env (y_src y))) = false /\
  existsb fault_event (e_log (d_env (y_dst y))) = false.
Proof.
  intros cd x data cf y (s & fs & lgs & lgd & c1 & c2 & rnd & scur & dcur & sdone & ddone & -> & Hs & [S1 S2] & [D1 D2] & Hl).
  unfold delivered_ok, Y, DF, dfinal, file_content.
  cbn [y_src y_dst y_errs d_env e_fs e_log]. rewrite Hs, Hl.
  cbn [filter success_event existsb fault_event hd andb orb]. rewrite S1, S2, D1, D2.
  rewrite bytes_eqb_refl. repeat split; reflexivity.
Qed.

Lemma unacked_perfect_link :
  forall (cs cd : lcfg) (seq0 bits : Z) (p : putreq) (rs rd : rcfg) (sn dn : path) (data : bytes) (tick : Z),
  let w := Z.max (l_idw cs) (pr_dstw p) in
  let large := 4294967295 <? zlen data in
  let derived := r_max_packet rs - (4 + 2 * w + bits / 8) - (if large then 8 else 4) - (if r_crc rs then 2 else 0) in
  let seg := match r_max_seg rs with Some m => Z.min m derived | None => derived end in
  get_remote (l_remotes cs) (pr_dst p) = Some rs ->
  pr_names p = Some (sn, dn) -> sn <> [] -> dn <> [] -> pr_msgs p = None ->
  (match pr_mode p with Some m => m | None => r_mode rs end) = UNACKED ->
  (match pr_closure p with Some b => b | None => r_closure rs end) = false ->
  (bits = 8 \/ bits = 16 \/ bits = 32) -> 0 <= seq0 < 2 ^ bits -> 1 <= seg -> 6 <= derived ->
  (r_cktype rs = CK_CRC32 \/ r_cktype rs = CK_CRC32C \/ r_cktype rs = CK_NULL \/ r_cktype rs = CK_MODULAR) ->
  bytes_ok data = true ->
  l_id cd = pr_dst p -> get_remote (l_remotes cd) (l_id cs) = Some rd -> length dn = 1%nat ->
  get_fault_handler (l_faults cd) C_CHECKSUM_FAILURE <> None ->
  l_ind_fin cs = true -> l_ind_fin cd = true ->
  exists fuel,
    let res := transfer cs cd seq0 bits p sn data [] fuel tick in
    delivered_ok dn data res = true /\ y_errs (fst res) = [] /\
    existsb fault_event (e_log (s_env (y_src (fst res)))) = false /\
    existsb fault_event (e_log (d_env (y_dst (fst res)))) = false.
Proof.
  intros cs cd seq0 bits p rs rd sn dn data tick w large derived seg
         Hrs Hn Hsn Hdn Hmsgs Hmode Hclo Hbits Hseq Hseg Hd6 Hck Hbytes Hid Hrd Hlen Hfh Hfs Hfd.
  destruct dn as [|x [|x' dn']]; try discriminate Hlen.
  set (fss := [(sn, File data)]).
  assert (Hlook : lookup fss sn = Some (File data)).
  { destruct sn as [|a sn']; [contradiction|]. unfold fss. cbn [lookup lookup_raw].
    rewrite path_eqb_refl. reflexivity. }
  destruct (ck_agree (r_cktype rs) data seg Hck Hseg) as (cks & C1 & C2).
  set (cf := mkSconf (l_id cs) w (pr_dst p) w seq0 (bits / 8) UNACKED large (r_crc rs)).
  destruct (first_call cs seq0 bits fss p rs sn [x] data Hrs Hn Hlook Hmode Hclo Hbits Hseq Hseg Hd6)
    as (s1 & s3 & P1 & P2 & HI).
  rewrite Hmsgs in P2.
  assert (Hdst : sc_dst cf = l_id cd) by (symmetry; exact Hid).
  destruct (round_md cs cd p rs rd sn x data cf seg fss eq_refl Hrd Hdst s1 s3 0 0 0 P2 HI)
    as (y1 & a & R & Ha & Q & HS).
  destruct (run_rest cs cd p rs rd sn x data cks cf seg tick fss Hn Hlook Hseg eq_refl C1 C2 Hfs Hfd Hrd Hdst
              (length data) 0 y1 HS (le_n _)) as (y' & Rr & F).
  exists (S (S (length data))).
  assert (Et : transfer cs cd seq0 bits p sn data [] (S (S (length data))) tick = (y', true)).
  { unfold transfer, sys_init. cbn [y_src]. fold fss. rewrite P1.
    change (mkSys (src_fresh cs seq0 bits fss) (dst_init cd) [] [] 0 0 [] 0 None None [] [] [] (rev []) <| y_src := s1 |>)
      with (Y s1 (dst_init cd) 0 0 0 None None [] []).
    rewrite run_S, R. cbv iota beta. rewrite Q.
    assert (Ea : (a =? 0) = false) by (apply Z.eqb_neq; lia). rewrite Ea. exact Rr. }
  cbv zeta. rewrite Et. cbn [fst].
  exact (final_verdict cd x data cf y' F).
Qed.

