(* FaultTableProofs.v — proofs for props/C14b.v: the whole-FSM half of property C14.  Every fault callback that ANY API
   call of either handler delivers follows the fault-handler table of the local configuration (or is the abandonment of
   a transaction that is already being cancelled, CFDP 4.11.2.2.3 / 4.11.2.3.3), carries the id of the transaction the
   call works on, and an abandon callback is the last thing the call reports.

   Method (receiver): one compositional judgement [Jg c t Q m] on monadic computations, in the style of the predicate
   [Gate] of proofs/IndicationProofs.v, but with a state invariant (configuration c; transaction id absent or t), the
   growth of the PDU queue and of the ready counter, and the two ways a computation can end:
     - normally (or with an exception other than the internal unwinding code): no abandon callback among the new events;
     - abandoned: the abandon callback is the newest event, the handler is idle with fresh parameters, and the result
       satisfies Q (for all functions but the positive ACK procedure and its callers: the result is the unwinding code).
   Sender: the state machine is walked section by section; at most one fault callback per call. *)
From CFDP Require Import Base LostSeg Fs Crc Checksum Handler Dest Source HandlerSpec SourceSpec.
From CFDP.gen Require Import Tables.
From CFDP.proofs Require Import GuardProofs IsolationProofs IndicationProofs FaultProofs HistoryIndepProofs.
From RecordUpdate Require Import RecordSet.
Import RecordSetNotations.
Open Scope monad_scope.

Local Opaque calculate_checksum.

Lemma ft_zlen_app : forall A (a b : list A), zlen (a ++ b) = zlen a + zlen b.
Proof. intros. unfold zlen. rewrite app_length, Nat2Z.inj_add. reflexivity. Qed.

(* ------------------------------------------------------------------ vocabulary shared with props/C14b.v (same bodies) *)
Definition is_abandon (e : event) : bool := match e with EvFault k _ _ _ _ => k =? FH_ABANDON | _ => false end.
Definition no_abandon (l : list event) : Prop := forallb (fun e => negb (is_abandon e)) l = true.

(* what a fault callback delivered under configuration c for the transaction t looks like *)
Definition fault_ok (c : lcfg) (t : option (Z * Z)) (e : event) : Prop :=
  match e with
  | EvFault k a b cond pr =>
      t = Some (a, b) /\ (get_fault_handler (l_faults c) cond = Some k \/ k = FH_ABANDON)
  | _ => True
  end.

(* ================================================================== receiver *)
Section DestJ.
  Variable c : lcfg.
  Variable t : option (Z * Z).

  Definition Iv (s : dst) : Prop := d_cfg s = c /\ (p_tid (d_p s) = None \/ p_tid (d_p s) = t).
  Definition AbHead (l : list event) : Prop := exists e rest, l = e :: rest /\ is_abandon e = true /\ no_abandon rest.
  Definition Fresh (s : dst) : Prop := d_state s = ST_IDLE /\ d_step s = DS_IDLE /\ d_p s = fresh_params.

  Definition Ext (s s' : dst) (new : list event) (added : list pdu) : Prop :=
    log_d s' = new ++ log_d s /\ d_queue s' = d_queue s ++ added /\ d_ready s' = d_ready s + zlen added /\
    Forall (fault_ok c t) new.

  Definition Post {A} (Q : res Z A -> Prop) (s : dst) (x : dst * res Z A) : Prop :=
    exists new added, Ext s (fst x) new added /\ Iv (fst x) /\
      ((no_abandon new /\ snd x <> Err E_ABANDONED) \/ (AbHead new /\ Fresh (fst x) /\ Q (snd x))).

  Definition JgP {A} (Pre : dst -> Prop) (Q : res Z A -> Prop) (m : D A) : Prop := forall s, Pre s -> Post Q s (m s).
  Definition Jg {A} (Q : res Z A -> Prop) (m : D A) : Prop := JgP Iv Q m.

  Lemma ext_refl : forall s, Ext s s [] [].
  Proof.
    intro s. split; [reflexivity|]. split; [symmetry; apply app_nil_r|]. split; [cbn; lia | constructor].
  Qed.

  Lemma ext_trans : forall s1 s2 s3 n1 a1 n2 a2, Ext s1 s2 n1 a1 -> Ext s2 s3 n2 a2 -> Ext s1 s3 (n2 ++ n1) (a1 ++ a2).
  Proof.
    intros s1 s2 s3 n1 a1 n2 a2 [H1 [H2 [H3 H4]]] [K1 [K2 [K3 K4]]].
    split; [|split; [|split]].
    - rewrite K1, H1. apply app_assoc.
    - rewrite K2, H2. symmetry. apply app_assoc.
    - rewrite K3, H3, ft_zlen_app. lia.
    - apply Forall_app. split; assumption.
  Qed.

  Lemma no_abandon_app : forall a b, no_abandon a -> no_abandon b -> no_abandon (a ++ b).
  Proof. intros a b Ha Hb. unfold no_abandon in *. rewrite forallb_app, Ha, Hb. reflexivity. Qed.

  Lemma abhead_app : forall a b, AbHead a -> no_abandon b -> AbHead (a ++ b).
  Proof.
    intros a b [e [rest [E [H1 H2]]]] Hb. exists e, (rest ++ b). subst a. split; [reflexivity|].
    split; [exact H1 | apply no_abandon_app; assumption].
  Qed.

  Lemma fresh_iv : forall s, d_cfg s = c -> Fresh s -> Iv s.
  Proof. intros s Hc [_ [_ Hp]]. split; [exact Hc|]. left. rewrite Hp. reflexivity. Qed.

  (* a step that ends quietly in the same invariant *)
  Lemma post_quiet {A} (Q : res Z A -> Prop) s s' (r : res Z A) :
    log_d s' = log_d s -> d_queue s' = d_queue s -> d_ready s' = d_ready s -> Iv s' -> r <> Err E_ABANDONED ->
    Post Q s (s', r).
  Proof.
    intros H1 H2 H3 H4 H5. exists [], []. cbn [fst snd]. split; [|split; [exact H4|]].
    - split; [exact H1|]. split; [rewrite H2; symmetry; apply app_nil_r|]. split; [rewrite H3; cbn; lia | constructor].
    - left. split; [reflexivity | exact H5].
  Qed.

  Lemma jg_ret {A} (Pre : dst -> Prop) (Q : res Z A -> Prop) (a : A) : (forall s, Pre s -> Iv s) -> JgP Pre Q (ret a).
  Proof. intros HP s H. apply post_quiet; try reflexivity; [apply HP, H | discriminate]. Qed.

  Lemma jg_raise {A} (Q : res Z A -> Prop) (e : Z) : (e =? E_ABANDONED) = false -> Jg Q (@raise dst A e).
  Proof.
    intros He s H. apply post_quiet; try reflexivity; [exact H|].
    intro X. inversion X; subst e. discriminate He.
  Qed.

  Lemma jg_get Q : Jg Q (@get dst).
  Proof. intros s H. apply post_quiet; try reflexivity; [exact H | discriminate]. Qed.

  Lemma jg_gets {A} Q (f : dst -> A) : Jg Q (gets f).
  Proof. intros s H. apply post_quiet; try reflexivity; [exact H | discriminate]. Qed.

  (* a modification that leaves log, queue, ready counter and configuration alone and keeps or drops the transaction id *)
  Lemma jg_modify Q (f : dst -> dst) :
    (forall s, log_d (f s) = log_d s /\ d_queue (f s) = d_queue s /\ d_ready (f s) = d_ready s /\ d_cfg (f s) = d_cfg s /\
               (p_tid (d_p (f s)) = p_tid (d_p s) \/ p_tid (d_p (f s)) = None)) ->
    Jg Q (modify f).
  Proof.
    intros Hf s [Hc Ht]. destruct (Hf s) as [H1 [H2 [H3 [H4 H5]]]]. unfold modify.
    apply post_quiet; try assumption; [|discriminate].
    split; [congruence|]. destruct H5 as [H5|H5]; [rewrite H5; exact Ht | left; exact H5].
  Qed.

  (* one event that is not an abandon callback *)
  Lemma jg_emit Q (e : event) : fault_ok c t e -> is_abandon e = false -> Jg Q (emit e).
  Proof.
    intros He Hn s H. unfold emit, modify. exists [e], []. cbn [fst snd]. split; [|split].
    - split; [reflexivity|]. split; [symmetry; apply app_nil_r|]. split; [cbn; lia|]. constructor; [exact He | constructor].
    - exact H.
    - left. split; [|discriminate]. unfold no_abandon. cbn [forallb]. rewrite Hn. reflexivity.
  Qed.

  Lemma jg_add_packet Q (p : pdu) : Jg Q (add_packet p).
  Proof.
    intros s H. unfold add_packet, modify. exists [], [p]. cbn [fst snd]. split; [|split].
    - split; [reflexivity|]. split; [reflexivity|]. split; [reflexivity | constructor].
    - exact H.
    - left. split; [reflexivity | discriminate].
  Qed.

  Definition DQ {A} : res Z A -> Prop := fun r => r = Err E_ABANDONED.
  Definition TQ {A} : res Z A -> Prop := fun _ => True.

  Lemma jg_bind {A B} (Pre : dst -> Prop) (Q : res Z B -> Prop) (m : D A) (f : A -> D B) :
    JgP Pre DQ m -> (forall a, Jg Q (f a)) -> Q (Err E_ABANDONED) -> JgP Pre Q (bind m f).
  Proof.
    intros Hm Hf HQ s H. unfold bind. destruct (Hm s H) as [n1 [a1 [E1 [I1 C1]]]].
    destruct (m s) as [s1 [a|e]]; cbn [fst snd] in *.
    - destruct C1 as [[N1 _]|[_ [_ X]]]; [|discriminate X].
      destruct (Hf a s1 I1) as [n2 [a2 [E2 [I2 C2]]]].
      exists (n2 ++ n1), (a1 ++ a2). split; [eapply ext_trans; eassumption|]. split; [exact I2|].
      destruct C2 as [[N2 R2]|[N2 [F2 R2]]].
      + left. split; [apply no_abandon_app; assumption | exact R2].
      + right. split; [apply abhead_app; assumption|]. split; assumption.
    - exists n1, a1. cbn [fst snd]. split; [exact E1|]. split; [exact I1|].
      destruct C1 as [[N1 R1]|[N1 [F1 R1]]].
      + left. split; [exact N1|]. intro X. apply R1. inversion X. reflexivity.
      + right. split; [exact N1|]. split; [exact F1|]. unfold DQ in R1. inversion R1. exact HQ.
  Qed.

  Lemma jg_weaken {A} (Pre : dst -> Prop) (Q Q' : res Z A -> Prop) (m : D A) : (forall r, Q r -> Q' r) -> JgP Pre Q m -> JgP Pre Q' m.
  Proof.
    intros HQ Hm s H. destruct (Hm s H) as [n [a [E [I1 C1]]]]. exists n, a. split; [exact E|]. split; [exact I1|].
    destruct C1 as [C1|[N [F R]]]; [left; exact C1 | right; split; [exact N | split; [exact F | apply HQ, R]]].
  Qed.

  Lemma jg_weaken_T {A} (Pre : dst -> Prop) (m : D A) : JgP Pre DQ m -> JgP Pre TQ m.
  Proof. apply jg_weaken. intros; exact I. Qed.

  Lemma jg_pre {A} (Pre Pre' : dst -> Prop) (Q : res Z A -> Prop) (m : D A) :
    (forall s, Pre' s -> Pre s) -> JgP Pre Q m -> JgP Pre' Q m.
  Proof. intros HP Hm s H. apply Hm, HP, H. Qed.

  (* reading the configuration yields c *)
  Lemma jg_bind_cfg {B} Q (f : lcfg -> D B) : Jg Q (f c) -> Jg Q (bind (gets d_cfg) f).
  Proof. intros Hf s H. unfold bind, gets. rewrite (proj1 H). apply Hf, H. Qed.

  (* reading the transaction id yields nothing or t *)
  Lemma jg_bind_tid {B} Q (f : option (Z * Z) -> D B) : Jg Q (f None) -> Jg Q (f t) -> Jg Q (bind (gp p_tid) f).
  Proof.
    intros H1 H2 s H. unfold bind, gp, gets. destruct (proj2 H) as [E|E]; rewrite E; [apply H1, H | apply H2, H].
  Qed.

  Lemma jg_when Q (b : bool) (m : D unit) : (b = true -> Jg Q m) -> Jg Q (when b m).
  Proof. intro Hm. unfold when. destruct b; [apply Hm; reflexivity | apply jg_ret; auto]. Qed.

  (* the handlers of the model never catch the unwinding code *)
  Lemma jg_catch {A} (Q : res Z A -> Prop) (m : D A) (h : Z -> option (D A)) :
    Jg DQ m -> h E_ABANDONED = None -> (forall e k, h e = Some k -> Jg Q k) -> Q (Err E_ABANDONED) -> Jg Q (catch m h).
  Proof.
    intros Hm Hab Hh HQ s H. unfold catch. destruct (Hm s H) as [n1 [a1 [E1 [I1 C1]]]].
    destruct (m s) as [s1 [a|e]]; cbn [fst snd] in *.
    - exists n1, a1. cbn [fst snd]. split; [exact E1|]. split; [exact I1|].
      destruct C1 as [[N1 _]|[_ [_ X]]]; [|discriminate X]. left. split; [exact N1 | discriminate].
    - destruct C1 as [[N1 R1]|[N1 [F1 R1]]].
      + destruct (h e) as [k|] eqn:Hk.
        * destruct (Hh e k Hk s1 I1) as [n2 [a2 [E2 [I2 C2]]]].
          exists (n2 ++ n1), (a1 ++ a2). split; [eapply ext_trans; eassumption|]. split; [exact I2|].
          destruct C2 as [[N2 R2]|[N2 [F2 R2]]].
          -- left. split; [apply no_abandon_app; assumption | exact R2].
          -- right. split; [apply abhead_app; assumption|]. split; assumption.
        * exists n1, a1. cbn [fst snd]. split; [exact E1|]. split; [exact I1|]. left. split; [exact N1|].
          intro X. apply R1. inversion X. reflexivity.
      + unfold DQ in R1. inversion R1; subst e. rewrite Hab.
        exists n1, a1. cbn [fst snd]. split; [exact E1|]. split; [exact I1|]. right. split; [exact N1|]. split; [exact F1 | exact HQ].
  Qed.

  Lemma jg_fold {B} (g : B -> D unit) (l : list B) : forall m0,
    Jg DQ m0 -> (forall b, Jg DQ (g b)) -> Jg DQ (fold_left (fun m b => bind m (fun _ => g b)) l m0).
  Proof.
    induction l as [|b l IH]; intros m0 H0 Hg; cbn [fold_left]; [exact H0|].
    apply IH; [|exact Hg]. apply jg_bind; [exact H0 | intros _; apply Hg | reflexivity].
  Qed.

  (* the same rules for the invariant as precondition (what the walking tactic applies) *)
  Lemma jg_ret' {A} (Q : res Z A -> Prop) (a : A) : Jg Q (ret a).
  Proof. apply jg_ret. auto. Qed.
  Lemma jg_bind' {A B} (Q : res Z B -> Prop) (m : D A) (f : A -> D B) :
    Jg DQ m -> (forall a, Jg Q (f a)) -> Q (Err E_ABANDONED) -> Jg Q (bind m f).
  Proof. apply jg_bind. Qed.
  Lemma jg_weaken_T' {A} (m : D A) : Jg DQ m -> Jg TQ m.
  Proof. apply jg_weaken_T. Qed.

  (* a computation that says whether the caller stops: after an abandonment it does not answer "go on" *)
  Definition SQ : res Z bool -> Prop := fun r => r <> Ok false.

  Lemma jg_bind_stop (m : D bool) (f : bool -> D unit) :
    Jg SQ m -> Jg TQ (f false) -> f true = ret tt -> Jg TQ (bind m f).
  Proof.
    intros Hm Hf Ht s H. unfold bind. destruct (Hm s H) as [n1 [a1 [E1 [I1 C1]]]].
    destruct (m s) as [s1 [[|]|e]]; cbn [fst snd] in *.
    - rewrite Ht. unfold ret. exists n1, a1. cbn [fst snd]. split; [exact E1|]. split; [exact I1|].
      destruct C1 as [[N1 _]|[N1 [F1 _]]]; [left; split; [exact N1 | discriminate] | right; split; [exact N1 | split; [exact F1 | exact I]]].
    - destruct C1 as [[N1 _]|[_ [_ X]]]; [|exfalso; apply X; reflexivity].
      destruct (Hf s1 I1) as [n2 [a2 [E2 [I2 C2]]]].
      exists (n2 ++ n1), (a1 ++ a2). split; [eapply ext_trans; eassumption|]. split; [exact I2|].
      destruct C2 as [[N2 R2]|[N2 [F2 R2]]].
      + left. split; [apply no_abandon_app; assumption | exact R2].
      + right. split; [apply abhead_app; assumption|]. split; assumption.
    - exists n1, a1. cbn [fst snd]. split; [exact E1|]. split; [exact I1|].
      destruct C1 as [[N1 R1]|[N1 [F1 _]]].
      + left. split; [exact N1|]. intro X. apply R1. inversion X. reflexivity.
      + right. split; [exact N1|]. split; [exact F1 | exact I].
  Qed.

  Lemma jg_then_true (m : D unit) : Jg TQ m -> Jg SQ (m ;;; ret true).
  Proof.
    intros Hm s H. unfold bind, ret. destruct (Hm s H) as [n1 [a1 [E1 [I1 C1]]]].
    destruct (m s) as [s1 [u|e]]; cbn [fst snd] in *; exists n1, a1; cbn [fst snd]; (split; [exact E1|]); (split; [exact I1|]).
    - destruct C1 as [[N1 _]|[N1 [F1 _]]]; [left; split; [exact N1 | discriminate] | right; split; [exact N1 | split; [exact F1 | discriminate]]].
    - destruct C1 as [[N1 R1]|[N1 [F1 _]]].
      + left. split; [exact N1|]. intro X. apply R1. inversion X. reflexivity.
      + right. split; [exact N1|]. split; [exact F1 | discriminate].
  Qed.

  (* try: ... except _TransactionAbandoned: pass *)
  Lemma jg_catch_abandoned (m : D unit) : Jg TQ m -> Jg TQ (catch_abandoned m).
  Proof.
    intros Hm s H. unfold catch_abandoned, catch. destruct (Hm s H) as [n1 [a1 [E1 [I1 C1]]]].
    destruct (m s) as [s1 [u|e]]; cbn [fst snd] in *.
    - exists n1, a1. cbn [fst snd]. split; [exact E1|]. split; [exact I1|].
      destruct C1 as [[N1 _]|[N1 [F1 _]]]; [left; split; [exact N1 | discriminate] | right; split; [exact N1 | split; [exact F1 | exact I]]].
    - destruct (e =? E_ABANDONED) eqn:Ee; unfold ret; exists n1, a1; cbn [fst snd]; (split; [exact E1|]); (split; [exact I1|]).
      + destruct C1 as [[N1 _]|[N1 [F1 _]]]; [left; split; [exact N1 | discriminate] | right; split; [exact N1 | split; [exact F1 | exact I]]].
      + destruct C1 as [[N1 R1]|[N1 [F1 _]]].
        * left. split; [exact N1|]. intro X. inversion X; subst e. discriminate Ee.
        * right. split; [exact N1|]. split; [exact F1 | exact I].
  Qed.
End DestJ.

(* ------------------------------------------------------------------ the walking tactic *)
Create HintDb ftj discriminated.

Ltac jhead t := match t with ?f _ => jhead f | _ => t end.
Ltac jframe := intros; repeat split; try reflexivity; first [left; reflexivity | right; reflexivity].
Ltac jq := first [reflexivity | exact I | discriminate].
Ltac jhandler :=
  let e := fresh "e" in let k := fresh "k" in let Hh := fresh "Hh" in
  intros e k Hh; cbv beta in Hh;
  match type of Hh with
  | (if ?c then Some _ else None) = Some _ => destruct c; [inversion Hh; subst k; clear Hh | discriminate Hh]
  end.

Ltac jstep :=
  cbv beta zeta;
  match goal with
  | |- Jg _ _ _ _ => solve [auto with ftj nocore]
  | |- Jg _ _ TQ _ => solve [apply jg_weaken_T'; auto with ftj nocore]
  | |- Jg _ _ _ (handle_waiting_for_finished_ack _ _) => fail 1
  | |- Jg _ _ _ (handle_positive_ack_procedures _) => fail 1
  | |- Jg _ _ TQ (catch_abandoned _) => apply jg_catch_abandoned
  | |- Jg _ _ _ (bind (gets d_cfg) _) => apply jg_bind_cfg
  | |- Jg _ _ _ (bind _ _) => apply jg_bind'; [ | intro | jq]
  | |- Jg _ _ _ (ret _) => apply jg_ret'
  | |- Jg _ _ _ (raise (oserr_exn ?o)) => apply jg_raise; destruct o; reflexivity
  | |- Jg _ _ _ (raise _) => apply jg_raise; reflexivity
  | |- Jg _ _ _ get => apply jg_get
  | |- Jg _ _ _ (gets _) => apply jg_gets
  | |- Jg _ _ _ (emit ?e) => apply jg_emit; [exact I | reflexivity]
  | |- Jg _ _ _ (add_packet _) => apply jg_add_packet
  | |- Jg _ _ _ (modify _) => apply jg_modify; jframe
  | |- Jg _ _ _ (when _ _) => apply jg_when; intro
  | |- Jg _ _ _ (catch _ _) => apply jg_catch; [ | reflexivity | jhandler | jq]
  | |- Jg _ _ _ (fold_left _ _ _) => apply jg_fold; [|intro]
  | |- Jg _ _ _ (if ?b then _ else _) => destruct b
  | |- Jg _ _ _ (match ?x with _ => _ end) => destruct x
  | |- Jg _ _ _ ?m => let h := jhead m in unfold h
  end.
Ltac jwalk := repeat jstep.

Section DestWalk.
  Variable c : lcfg.
  Variable t : option (Z * Z).
  Notation DJ m := (Jg c t DQ m).
  Notation TJ m := (Jg c t TQ m).

  Lemma dj_declare_fault : forall cond, DJ (declare_fault cond).
  Proof.
    intros cond s [Hc Ht]. unfold declare_fault. unfold bind at 1, gets at 1. rewrite Hc.
    unfold bind at 1, gp at 1, gets at 1. unfold bind at 1, gp at 1, gets at 1.
    destruct (p_tid (d_p s)) as [[a b]|] eqn:E.
    2: { apply post_quiet; try reflexivity; [split; [exact Hc | left; exact E] | discriminate]. }
    assert (Et : t = Some (a, b)) by (destruct Ht as [X|X]; [discriminate X | symmetry; exact X]).
    assert (HI : Iv c t s) by (split; [exact Hc | right; rewrite E; symmetry; exact Et]).
    destruct (get_fault_handler (l_faults c) cond) as [fh|] eqn:F.
    2: { apply post_quiet; try reflexivity; [exact HI | discriminate]. }
    destruct (fh =? FH_ABANDON) eqn:E2.
    - apply Z.eqb_eq in E2. subst fh. change (FH_ABANDON =? FH_CANCEL) with false. change (FH_ABANDON =? FH_ABANDON) with true. cbv iota.
      unfold reset_internal, emit, modify, bind, raise. cbn [fst snd].
      exists [EvFault FH_ABANDON a b cond (p_progress (d_p s))], []. cbn [fst snd]. split; [|split].
      + split; [reflexivity|]. split; [symmetry; apply app_nil_r|]. split; [cbn; lia|].
        constructor; [|constructor]. split; [exact Et | left; exact F].
      + split; [exact Hc | left; reflexivity].
      + right. split; [|split; [|reflexivity]].
        * eexists _, []. split; [reflexivity|]. split; reflexivity.
        * repeat split; reflexivity.
    - assert (HK : DJ ((if fh =? FH_CANCEL then notice_of_cancellation cond else ret tt) ;;;
                        emit (EvFault fh a b cond (p_progress (d_p s))) ;;; ret fh)).
      { apply jg_bind'; [destruct (fh =? FH_CANCEL); jwalk | intros _ | reflexivity].
        apply jg_bind'; [ | intros _; apply jg_ret' | reflexivity].
        apply jg_emit; [split; [exact Et | left; exact F] | exact E2]. }
      exact (HK s HI).
  Qed.
  #[local] Hint Resolve dj_declare_fault : ftj.

  Lemma dj_checksum_verify : DJ checksum_verify.
  Proof. jwalk. Qed.
  #[local] Hint Resolve dj_checksum_verify : ftj.

  Lemma dj_deferred_lost_segment_handling : DJ deferred_lost_segment_handling.
  Proof. jwalk. Qed.
  #[local] Hint Resolve dj_deferred_lost_segment_handling : ftj.

  Lemma dj_start_deferred_lost_segment_handling : DJ start_deferred_lost_segment_handling.
  Proof. jwalk. Qed.
  #[local] Hint Resolve dj_start_deferred_lost_segment_handling : ftj.

  Lemma dj_fsm_advancement : DJ fsm_advancement.
  Proof. jwalk. Qed.
  #[local] Hint Resolve dj_fsm_advancement : ftj.

  Lemma dj_file_transfer_complete_transition : DJ file_transfer_complete_transition.
  Proof. jwalk. Qed.
  #[local] Hint Resolve dj_file_transfer_complete_transition : ftj.

  Lemma dj_lost_segment_handling : forall o l, DJ (lost_segment_handling o l).
  Proof. intros. jwalk. Qed.
  #[local] Hint Resolve dj_lost_segment_handling : ftj.

  Lemma dj_filestore_rejection : DJ filestore_rejection.
  Proof. jwalk. Qed.
  #[local] Hint Resolve dj_filestore_rejection : ftj.

  Lemma dj_handle_fd_pdu : forall o d, DJ (handle_fd_pdu o d).
  Proof. intros. jwalk. Qed.
  #[local] Hint Resolve dj_handle_fd_pdu : ftj.

  Lemma dj_handle_no_error_eof : DJ handle_no_error_eof.
  Proof. jwalk. Qed.
  #[local] Hint Resolve dj_handle_no_error_eof : ftj.

  Lemma dj_handle_eof_pdu : forall cd ck sz, DJ (handle_eof_pdu cd ck sz).
  Proof. intros. jwalk. Qed.
  #[local] Hint Resolve dj_handle_eof_pdu : ftj.

  Lemma dj_init_vfs_handling : forall b, DJ (init_vfs_handling b).
  Proof. intros. jwalk. Qed.
  #[local] Hint Resolve dj_init_vfs_handling : ftj.

  Lemma dj_handle_metadata_packet : forall h cl ck sz names msgs, DJ (handle_metadata_packet h cl ck sz names msgs).
  Proof. intros. jwalk. Qed.
  #[local] Hint Resolve dj_handle_metadata_packet : ftj.

  Lemma dj_handle_eof_without_previous_metadata : forall cd ck sz, DJ (handle_eof_without_previous_metadata cd ck sz).
  Proof. intros. jwalk. Qed.
  #[local] Hint Resolve dj_handle_eof_without_previous_metadata : ftj.

  Lemma dj_handle_fd_without_previous_metadata : forall f o d, DJ (handle_fd_without_previous_metadata f o d).
  Proof. intros. jwalk. Qed.
  #[local] Hint Resolve dj_handle_fd_without_previous_metadata : ftj.

  Lemma dj_handle_waiting_for_missing_metadata : forall pkt, DJ (handle_waiting_for_missing_metadata pkt).
  Proof. intros. jwalk. Qed.
  #[local] Hint Resolve dj_handle_waiting_for_missing_metadata : ftj.

  Lemma dj_check_limit_handling : DJ check_limit_handling.
  Proof. jwalk. Qed.
  #[local] Hint Resolve dj_check_limit_handling : ftj.

  Lemma dj_notice_of_completion : DJ notice_of_completion.
  Proof. jwalk. Qed.
  #[local] Hint Resolve dj_notice_of_completion : ftj.

  Lemma dj_handle_transfer_completion : DJ handle_transfer_completion.
  Proof. jwalk. Qed.
  #[local] Hint Resolve dj_handle_transfer_completion : ftj.

  Lemma dj_prepare_finished_pdu : DJ prepare_finished_pdu.
  Proof. jwalk. Qed.
  #[local] Hint Resolve dj_prepare_finished_pdu : ftj.

  Lemma dj_handle_finished_pdu_sent : DJ handle_finished_pdu_sent.
  Proof. jwalk. Qed.
  #[local] Hint Resolve dj_handle_finished_pdu_sent : ftj.

  Lemma dj_prepare_eof_ack_packet : DJ prepare_eof_ack_packet.
  Proof. jwalk. Qed.
  #[local] Hint Resolve dj_prepare_eof_ack_packet : ftj.

  Lemma dj_reset_internal : DJ reset_internal.
  Proof. jwalk. Qed.
  #[local] Hint Resolve dj_reset_internal : ftj.

  (* the abandonment of a transaction whose Finished (cancel) exchange hits the positive ACK limit *)
  Definition direct_abandon : D bool :=
    p <- gp (fun p => p) ;;
    match p_tid p with
    | None => raise E_ASSERT
    | Some (src, seq) =>
        emit (EvFault FH_ABANDON src seq (f_cond (p_fin p)) (p_progress p)) ;;;
        reset_internal ;;; ret true
    end.

  Lemma sj_direct_abandon : Jg c t SQ direct_abandon.
  Proof.
    intros s [Hc Ht]. unfold direct_abandon. unfold bind at 1, gp at 1, gets at 1.
    destruct (p_tid (d_p s)) as [[a b]|] eqn:E.
    2: { apply post_quiet; try reflexivity; [split; [exact Hc | left; exact E] | discriminate]. }
    assert (Et : t = Some (a, b)) by (destruct Ht as [X|X]; [discriminate X | symmetry; exact X]).
    unfold reset_internal, emit, modify, bind, ret. cbn [fst snd].
    exists [EvFault FH_ABANDON a b (f_cond (p_fin (d_p s))) (p_progress (d_p s))], []. cbn [fst snd]. split; [|split].
    - split; [reflexivity|]. split; [symmetry; apply app_nil_r|]. split; [cbn; lia|].
      constructor; [|constructor]. split; [exact Et | right; reflexivity].
    - split; [exact Hc | left; reflexivity].
    - right. split; [|split; [|discriminate]].
      + eexists _, []. split; [reflexivity|]. split; reflexivity.
      + repeat split; reflexivity.
  Qed.

  Lemma tj_handle_positive_ack_procedures : forall again, TJ again -> TJ (handle_positive_ack_procedures again).
  Proof.
    intros again Hagain. unfold handle_positive_ack_procedures.
    apply jg_bind'; [jwalk | intro tm | exact I]. destruct tm as [tm|]; [|jwalk].
    apply jg_bind'; [jwalk | intro r | exact I]. apply jg_bind'; [jwalk | intro n | exact I].
    destruct (negb (timed_out n tm)); [jwalk|].
    apply jg_bind'; [jwalk | intro cnt | exact I].
    apply jg_bind_stop; [ | jwalk | reflexivity].
    destruct (r_ack_limit r <=? cnt + 1); [|apply jg_ret'].
    apply jg_bind'; [jwalk | intro disp | discriminate].
    destruct (disp =? DISP_CANCELED); [exact sj_direct_abandon|].
    apply jg_bind'; [apply dj_declare_fault | intros _ | discriminate].
    apply jg_bind'; [jwalk | intro disp' | discriminate].
    destruct (disp' =? DISP_CANCELED); [apply jg_then_true; exact Hagain | apply jg_ret'].
  Qed.

  Lemma tj_handle_waiting_for_finished_ack : forall again pkt, TJ again -> TJ (handle_waiting_for_finished_ack again pkt).
  Proof.
    intros again pkt Hagain. unfold handle_waiting_for_finished_ack.
    destruct pkt as [[]|]; try (apply tj_handle_positive_ack_procedures; exact Hagain); jwalk.
  Qed.

  Lemma tj_non_idle_fsm : forall fuel pkt, TJ (non_idle_fsm fuel pkt).
  Proof.
    induction fuel as [|k IH]; intro pkt; cbn [non_idle_fsm]; jwalk;
      apply tj_handle_waiting_for_finished_ack; jwalk.
  Qed.
End DestWalk.

(* ------------------------------------------------------------------ receiver: the call that starts a transaction *)
Definition pdu_tid (p : pdu) : Z * Z := (h_src (pdu_hdr p), h_seq (pdu_hdr p)).
(* the transaction a state_machine call works on: the one in progress, or the one the inserted PDU starts *)
Definition dest_call_tid (pkt : option pdu) (s : dst) : option (Z * Z) :=
  if d_state s =? ST_IDLE then option_map pdu_tid pkt else p_tid (d_p s).

Section DestIdle.
  Variable c : lcfg.
  Variable h : hdr.
  Let t : option (Z * Z) := Some (h_src h, h_seq h).
  Notation DJ m := (Jg c t DQ m).
  Definition Pre0 (s : dst) : Prop := d_cfg s = c /\ d_state s = ST_IDLE.

  Lemma dj_common_first_packet_handler : DJ (common_first_packet_handler h).
  Proof.
    intros s [Hc Ht]. unfold common_first_packet_handler, bind, get, put, ret.
    destruct (negb (d_state s =? ST_IDLE)); apply post_quiet; try reflexivity; try discriminate.
    - split; assumption.
    - split; [exact Hc | right; reflexivity].
  Qed.
  #[local] Hint Resolve dj_common_first_packet_handler : ftj.

  Lemma jgp_fresh : JgP c t (fun s => d_cfg s = c) DQ (setp (fun _ => fresh_params)).
  Proof.
    intros s Hc. unfold setp, modify. apply post_quiet; try reflexivity; [|discriminate].
    split; [exact Hc | left; reflexivity].
  Qed.

  Lemma jgp_common_first_packet_not_metadata : JgP c t (fun s => d_cfg s = c) DQ (common_first_packet_not_metadata h).
  Proof.
    unfold common_first_packet_not_metadata.
    apply jg_bind; [apply jgp_fresh | intros _; jwalk | reflexivity].
  Qed.

  Lemma jgp_start_transaction : forall cl ck sz names msgs, JgP c t Pre0 DQ (start_transaction h cl ck sz names msgs).
  Proof.
    intros cl ck sz names msgs s [Hc Hi]. unfold start_transaction. unfold bind at 1, get at 1. rewrite Hi.
    change (negb (ST_IDLE =? ST_IDLE)) with false. cbv iota.
    apply (jg_bind c t (fun s0 => d_cfg s0 = c)); [apply jgp_fresh | intros _ | reflexivity | exact Hc].
    apply jg_bind'; [jwalk | intros _ | reflexivity]. apply dj_handle_metadata_packet.
  Qed.
End DestIdle.

Lemma jgp_idle_fsm : forall c p,
  (match p with PFileData _ _ _ | PEof _ _ _ _ _ | PMetadata _ _ _ _ _ _ => True | _ => False end) ->
  JgP c (Some (pdu_tid p)) (Pre0 c) DQ (idle_fsm (Some p)).
Proof.
  intros c p Hp. destruct p; try contradiction; unfold pdu_tid; cbn [pdu_hdr idle_fsm].
  - apply jg_bind; [|intros _; apply dj_handle_fd_without_previous_metadata | reflexivity].
    eapply jg_pre; [|apply jgp_common_first_packet_not_metadata]. intros s [H _]; exact H.
  - apply jgp_start_transaction.
  - apply jg_bind; [|intros _; apply dj_handle_eof_without_previous_metadata | reflexivity].
    eapply jg_pre; [|apply jgp_common_first_packet_not_metadata]. intros s [H _]; exact H.
Qed.

(* the part of state_machine after the idle section *)
Definition sm_rest (pkt : option pdu) (stop : bool) : D unit :=
  if stop then ret tt else (s <- get ;; when (d_state s =? ST_BUSY) (non_idle_fsm 3 pkt)).

Lemma tj_sm_rest : forall c t pkt stop, Jg c t TQ (sm_rest pkt stop).
Proof.
  intros c t pkt stop. unfold sm_rest. destruct stop; [apply jg_ret'|].
  apply jg_bind'; [apply jg_get | intro s0 | exact I]. apply jg_when. intros _. apply tj_non_idle_fsm.
Qed.

(* what every state_machine call of the receiver does to log, queue and ready counter *)
Definition dest_sm_post (pkt : option pdu) (s s' : dst) : Prop :=
  exists new added,
    log_d s' = new ++ log_d s /\ d_queue s' = d_queue s ++ added /\ d_ready s' = d_ready s + zlen added /\
    Forall (fault_ok (d_cfg s) (dest_call_tid pkt s)) new /\
    (no_abandon new \/
     (exists e rest, new = e :: rest /\ is_abandon e = true /\ no_abandon rest) /\
     d_state s' = ST_IDLE /\ d_step s' = DS_IDLE /\ d_p s' = fresh_params).

Lemma post_to_sm : forall c t A (Q : res Z A -> Prop) s x pkt,
  c = d_cfg s -> t = dest_call_tid pkt s -> Post c t Q s x -> dest_sm_post pkt s (fst x).
Proof.
  intros c t A Q s x pkt -> -> [new [added [[E1 [E2 [E3 E4]]] [_ C]]]].
  exists new, added. split; [exact E1|]. split; [exact E2|]. split; [exact E3|]. split; [exact E4|].
  destruct C as [[N _]|[N [F _]]]; [left; exact N | right; split; [exact N | exact F]].
Qed.

Lemma sm_post_refl : forall pkt s, dest_sm_post pkt s s.
Proof.
  intros pkt s. exists [], []. split; [reflexivity|]. split; [symmetry; apply app_nil_r|]. split; [cbn; lia|].
  split; [constructor | left; reflexivity].
Qed.

Lemma dest_state_machine_post : forall pkt s, dest_sm_post pkt s (fst (Dest.state_machine pkt s)).
Proof.
  intros pkt s. unfold Dest.state_machine. unfold bind at 1. cbv beta.
  match goal with |- dest_sm_post _ _ (fst (let (s', r) := ?X in _)) => destruct X as [s1 r0] eqn:Hadm end.
  assert (s1 = s) as ->.
  { destruct pkt as [p|]; [|inversion Hadm; reflexivity].
    pose proof (minv_state _ _ _ s (adm_d p)) as X. rewrite Hadm in X. exact X. }
  destruct r0 as [u|e]; [|apply sm_post_refl].
  match goal with |- dest_sm_post _ _ (fst (catch_abandoned ?B s)) => set (body := B) end.
  destruct (d_state s =? ST_IDLE) eqn:Ei.
  - (* idle: the inserted PDU may start a transaction *)
    apply Z.eqb_eq in Ei.
    destruct pkt as [p|].
    + assert (Hk : (match p with PFileData _ _ _ | PEof _ _ _ _ _ | PMetadata _ _ _ _ _ _ => True | _ => False end) \/
                   idle_fsm (Some p) = raise E_VALUE) by (destruct p; (left; exact I) || (right; reflexivity)).
      destruct Hk as [Hk|Hk].
      * assert (HB : JgP (d_cfg s) (Some (pdu_tid p)) (Pre0 (d_cfg s)) TQ
                       (stop <- (idle_fsm (Some p) ;;; n <- gets d_ready ;; ret (0 <? n)) ;; sm_rest (Some p) stop)).
        { apply jg_bind; [|intro; apply tj_sm_rest | exact I].
          apply jg_bind; [apply jgp_idle_fsm; exact Hk | intros _; jwalk | reflexivity]. }
        assert (EB : body s = (stop <- (idle_fsm (Some p) ;;; n <- gets d_ready ;; ret (0 <? n)) ;; sm_rest (Some p) stop) s).
        { unfold body. unfold bind at 1, get at 1. rewrite Ei. reflexivity. }
        specialize (HB s (conj eq_refl Ei)).
        assert (HC : Post (d_cfg s) (Some (pdu_tid p)) TQ s (catch_abandoned body s)).
        { unfold catch_abandoned, catch. rewrite EB.
          destruct HB as [n1 [a1 [E1 [I1 C1]]]].
          match type of E1 with Ext _ _ _ (fst ?x) _ _ => destruct x as [s1 [u1|e1]] end; cbn [fst snd] in *.
          - exists n1, a1. cbn [fst snd]. split; [exact E1|]. split; [exact I1|].
            destruct C1 as [[N1 _]|[N1 [F1 _]]]; [left; split; [exact N1 | discriminate] | right; split; [exact N1 | split; [exact F1 | exact I]]].
          - destruct (e1 =? E_ABANDONED) eqn:Ee; unfold ret; exists n1, a1; cbn [fst snd]; (split; [exact E1|]); (split; [exact I1|]).
            + destruct C1 as [[N1 _]|[N1 [F1 _]]]; [left; split; [exact N1 | discriminate] | right; split; [exact N1 | split; [exact F1 | exact I]]].
            + destruct C1 as [[N1 R1]|[N1 [F1 _]]].
              * left. split; [exact N1|]. intro X. inversion X; subst e1. discriminate Ee.
              * right. split; [exact N1|]. split; [exact F1 | exact I]. }
        eapply post_to_sm; [reflexivity | | exact HC].
        unfold dest_call_tid. rewrite Ei. reflexivity.
      * assert (EB : body s = (s, Err E_VALUE)).
        { unfold body. unfold bind at 1, get at 1. rewrite Ei. change (ST_IDLE =? ST_IDLE) with true. cbv beta iota.
          rewrite Hk. reflexivity. }
        unfold catch_abandoned, catch. rewrite EB. cbn. apply sm_post_refl.
    + assert (EB : body s = (s, Ok tt)).
      { unfold body, idle_fsm, when, bind, get, gets, ret. cbv beta. rewrite Ei.
        change (ST_IDLE =? ST_IDLE) with true. cbv beta iota.
        destruct (0 <? d_ready s); cbv beta iota; [reflexivity|]. rewrite Ei. reflexivity. }
      unfold catch_abandoned, catch. rewrite EB. apply sm_post_refl.
  - (* a transaction is in progress *)
    assert (EB : body s = sm_rest pkt false s).
    { unfold body. unfold bind at 1, get at 1. rewrite Ei. reflexivity. }
    assert (HI : Iv (d_cfg s) (p_tid (d_p s)) s) by (split; [reflexivity | right; reflexivity]).
    pose proof (jg_catch_abandoned _ _ _ (tj_sm_rest (d_cfg s) (p_tid (d_p s)) pkt false) s HI) as HC.
    assert (EC : catch_abandoned body s = catch_abandoned (sm_rest pkt false) s).
    { unfold catch_abandoned, catch. rewrite EB. reflexivity. }
    rewrite EC. eapply post_to_sm; [reflexivity | | exact HC].
    unfold dest_call_tid. rewrite Ei. reflexivity.
Qed.

(* ================================================================== sender *)
Definition is_fault (e : event) : bool := match e with EvFault _ _ _ _ _ => true | _ => false end.
Definition no_fault (l : list event) : Prop := forallb (fun e => negb (is_fault e)) l = true.

(* computations that deliver no fault callback: log and queue grow, an invariant is kept *)
Section SrcG.
  Variable I : src -> Prop.

  Definition SExt (s s' : src) (new : list event) (added : list pdu) : Prop :=
    log_s s' = new ++ log_s s /\ s_queue s' = s_queue s ++ added /\ s_ready s' = s_ready s + zlen added /\ no_fault new.
  Definition SGrow (s s' : src) : Prop := exists new added, SExt s s' new added /\ I s'.
  Definition SG {A} (m : SM A) : Prop := forall s, I s -> SGrow s (fst (m s)).

  Lemma sext_refl : forall s, SExt s s [] [].
  Proof. intro s. split; [reflexivity|]. split; [symmetry; apply app_nil_r|]. split; [cbn; lia | reflexivity]. Qed.

  Lemma no_fault_app : forall a b, no_fault a -> no_fault b -> no_fault (a ++ b).
  Proof. intros a b Ha Hb. unfold no_fault in *. rewrite forallb_app, Ha, Hb. reflexivity. Qed.

  Lemma sext_trans : forall s1 s2 s3 n1 a1 n2 a2, SExt s1 s2 n1 a1 -> SExt s2 s3 n2 a2 -> SExt s1 s3 (n2 ++ n1) (a1 ++ a2).
  Proof.
    intros s1 s2 s3 n1 a1 n2 a2 [H1 [H2 [H3 H4]]] [K1 [K2 [K3 K4]]].
    split; [|split; [|split]].
    - rewrite K1, H1. apply app_assoc.
    - rewrite K2, H2. symmetry. apply app_assoc.
    - rewrite K3, H3, ft_zlen_app. lia.
    - apply no_fault_app; assumption.
  Qed.

  Lemma sgrow_refl : forall s, I s -> SGrow s s.
  Proof. intros s H. exists [], []. split; [apply sext_refl | exact H]. Qed.

  Lemma sgrow_trans : forall s1 s2 s3, SGrow s1 s2 -> SGrow s2 s3 -> SGrow s1 s3.
  Proof.
    intros s1 s2 s3 [n1 [a1 [E1 I1]]] [n2 [a2 [E2 I2]]]. exists (n2 ++ n1), (a1 ++ a2).
    split; [eapply sext_trans; eassumption | exact I2].
  Qed.

  Lemma sgrow_inv : forall s s', SGrow s s' -> I s'.
  Proof. intros s s' [n [a [_ H]]]. exact H. Qed.

  Lemma sg_ret {A} (a : A) : SG (ret a).
  Proof. intros s H. apply sgrow_refl, H. Qed.
  Lemma sg_raise {A} (e : Z) : SG (@raise src A e).
  Proof. intros s H. apply sgrow_refl, H. Qed.
  Lemma sg_get : SG (@get src).
  Proof. intros s H. apply sgrow_refl, H. Qed.
  Lemma sg_gets {A} (f : src -> A) : SG (gets f).
  Proof. intros s H. apply sgrow_refl, H. Qed.

  Lemma sg_modify (f : src -> src) :
    (forall s, log_s (f s) = log_s s /\ s_queue (f s) = s_queue s /\ s_ready (f s) = s_ready s) ->
    (forall s, I s -> I (f s)) -> SG (modify f).
  Proof.
    intros Hf Hi s H. destruct (Hf s) as [H1 [H2 H3]]. unfold modify; cbn [fst]. exists [], []. split; [|apply Hi, H].
    split; [exact H1|]. split; [rewrite H2; symmetry; apply app_nil_r|]. split; [rewrite H3; cbn; lia | reflexivity].
  Qed.

  Lemma sg_semit (e : event) : is_fault e = false -> (forall s f, I s -> I (s <| s_env ::= f |>)) -> SG (semit e).
  Proof.
    intros He Hi s H. unfold semit, modify; cbn [fst]. exists [e], []. split; [|apply Hi, H].
    split; [reflexivity|]. split; [symmetry; apply app_nil_r|]. split; [cbn; lia|].
    unfold no_fault. cbn [forallb]. rewrite He. reflexivity.
  Qed.

  Lemma sg_sadd_packet (p : pdu) :
    (forall s q r, I s -> I (s <| s_queue := q |> <| s_ready := r |>)) -> SG (sadd_packet p).
  Proof.
    intros Hi s H. unfold sadd_packet, modify; cbn [fst]. exists [], [p]. split; [|apply (Hi s _ _ H)].
    split; [reflexivity|]. split; [reflexivity|]. split; reflexivity.
  Qed.

  Lemma sg_bind {A B} (m : SM A) (f : A -> SM B) : SG m -> (forall a, SG (f a)) -> SG (bind m f).
  Proof.
    intros Hm Hf s H. unfold bind. specialize (Hm s H).
    destruct (m s) as [s1 [a|e]]; cbn [fst] in *; [|exact Hm].
    eapply sgrow_trans; [exact Hm|]. apply Hf. eapply sgrow_inv, Hm.
  Qed.

  Lemma sg_get_put {B} (g : src -> src) (k : src -> SM B) :
    (forall s, log_s (g s) = log_s s /\ s_queue (g s) = s_queue s /\ s_ready (g s) = s_ready s) ->
    (forall s, I s -> I (g s)) -> (forall s0, SG (k s0)) ->
    SG (bind get (fun s => bind (put (g s)) (fun _ => k s))).
  Proof.
    intros Hg Hi Hk s H. unfold bind, get, put. destruct (Hg s) as [H1 [H2 H3]].
    eapply sgrow_trans; [|apply Hk; apply Hi, H].
    exists [], []. split; [|apply Hi, H].
    split; [exact H1|]. split; [rewrite H2; symmetry; apply app_nil_r|]. split; [rewrite H3; cbn; lia | reflexivity].
  Qed.

  Lemma sg_when (b : bool) (m : SM unit) : (b = true -> SG m) -> SG (when b m).
  Proof. intro Hm. unfold when. destruct b; [apply Hm; reflexivity | apply sg_ret]. Qed.

  Lemma sg_fold {B} (g : B -> SM unit) (l : list B) : forall m0,
    SG m0 -> (forall b, SG (g b)) -> SG (fold_left (fun m b => bind m (fun _ => g b)) l m0).
  Proof.
    induction l as [|b l IH]; intros m0 H0 Hg; cbn [fold_left]; [exact H0|].
    apply IH; [|exact Hg]. apply sg_bind; [exact H0 | intros _; apply Hg].
  Qed.
End SrcG.

Create HintDb fts discriminated.

(* invariants of the sender: the configuration; and, until a fault is declared, the transaction id and the condition
   code of the EOF PDU (kept, or set to No Error by the regular end of the file data) *)
Definition Is0 (c : lcfg) (s : src) : Prop := s_cfg s = c.
Definition IsT (c : lcfg) (t : option (Z * Z)) (ce0 : option Z) (s : src) : Prop :=
  s_cfg s = c /\ q_tid (s_p s) = t /\ (q_cond_eof (s_p s) = ce0 \/ q_cond_eof (s_p s) = Some C_NO_ERROR).

Ltac sinv :=
  intros; unfold IsT, Is0 in *;
  first [ assumption
        | match goal with H : _ /\ _ /\ _ |- _ =>
            let H1 := fresh in let H2 := fresh in let H3 := fresh in
            destruct H as [H1 [H2 H3]]; split; [exact H1 | split; [exact H2 | first [exact H3 | right; reflexivity]]] end
        | match goal with H : s_cfg _ = _ |- _ => exact H end ].
Ltac sframe := intros; repeat split; reflexivity.

Ltac sstep :=
  cbv beta iota zeta;
  match goal with
  | |- SG _ _ => solve [auto with fts nocore]
  | |- SG _ (bind get (fun s => bind (put (@?g s)) (fun _ => @?k s))) => apply (sg_get_put _ g k); [sframe | sinv | intro]
  | |- SG _ (bind _ _) => apply sg_bind; [|intro]
  | |- SG _ (ret _) => apply sg_ret
  | |- SG _ (raise _) => apply sg_raise
  | |- SG _ get => apply sg_get
  | |- SG _ (gets _) => apply sg_gets
  | |- SG _ (semit ?e) => apply sg_semit; [reflexivity | sinv]
  | |- SG _ (sadd_packet _) => apply sg_sadd_packet; sinv
  | |- SG _ (modify _) => apply sg_modify; [sframe | sinv]
  | |- SG _ (when _ _) => apply sg_when; intro
  | |- SG _ (fold_left _ _ _) => apply sg_fold; [|intro]
  | |- SG _ (if ?b then _ else _) => destruct b
  | |- SG _ (match ?x with _ => _ end) => destruct x
  | |- SG _ ?m => let h := jhead m in unfold h
  end.
Ltac swalk := repeat sstep.

Section SrcWalk.
  Variable c : lcfg.
  Variable t : option (Z * Z).
  Variable ce0 : option Z.
  Notation GT m := (SG (IsT c t ce0) m).
  Notation G0 m := (SG (Is0 c) m).

  Lemma gt_checksum_calculation : forall size, GT (checksum_calculation size).
  Proof. intro. swalk. Qed.
  Lemma g0_checksum_calculation : forall size, G0 (checksum_calculation size).
  Proof. intro. swalk. Qed.
  #[local] Hint Resolve gt_checksum_calculation g0_checksum_calculation : fts.

  Lemma gt_prepare_file_data_pdu : forall o l, GT (prepare_file_data_pdu o l).
  Proof. intros. swalk. Qed.
  #[local] Hint Resolve gt_prepare_file_data_pdu : fts.

  Lemma gt_prepare_metadata_pdu : GT prepare_metadata_pdu.
  Proof. swalk. Qed.
  Lemma g0_prepare_metadata_pdu : G0 prepare_metadata_pdu.
  Proof. swalk. Qed.
  #[local] Hint Resolve gt_prepare_metadata_pdu g0_prepare_metadata_pdu : fts.

  Lemma gt_prepare_eof_pdu : forall ck, GT (prepare_eof_pdu ck).
  Proof. intro. swalk. Qed.
  Lemma g0_prepare_eof_pdu : forall ck, G0 (prepare_eof_pdu ck).
  Proof. intro. swalk. Qed.
  #[local] Hint Resolve gt_prepare_eof_pdu g0_prepare_eof_pdu : fts.

  Lemma g0_notice_of_completion_s : G0 notice_of_completion_s.
  Proof. swalk. Qed.
  #[local] Hint Resolve g0_notice_of_completion_s : fts.

  Lemma gt_handle_eof_sent_false : GT (handle_eof_sent false).
  Proof. swalk. Qed.
  Lemma g0_handle_eof_sent : forall b, G0 (handle_eof_sent b).
  Proof. intro. swalk. Qed.
  #[local] Hint Resolve gt_handle_eof_sent_false g0_handle_eof_sent : fts.

  Lemma g0_transaction_start : G0 transaction_start.
  Proof. swalk. Qed.
  #[local] Hint Resolve g0_transaction_start : fts.

  Lemma gt_retransmit_chunks : forall fuel o m seg, GT (retransmit_chunks fuel o m seg).
  Proof. induction fuel; intros; cbn [retransmit_chunks]; swalk. Qed.
  #[local] Hint Resolve gt_retransmit_chunks : fts.

  Lemma gt_handle_segment_req : forall rq, GT (handle_segment_req rq).
  Proof. intro. swalk. Qed.
  #[local] Hint Resolve gt_handle_segment_req : fts.

  Lemma gt_handle_retransmission : forall pkt, GT (handle_retransmission pkt).
  Proof. intro. swalk. Qed.
  #[local] Hint Resolve gt_handle_retransmission : fts.

  Lemma gt_sending_file_data_fsm : forall pkt, GT (sending_file_data_fsm pkt).
  Proof. intro. swalk. Qed.
  #[local] Hint Resolve gt_sending_file_data_fsm : fts.

  Lemma gt_fsm_advancement_s : GT fsm_advancement_s.
  Proof. swalk. Qed.
  #[local] Hint Resolve gt_fsm_advancement_s : fts.
End SrcWalk.
(* ------------------------------------------------------------------ sender: the fault declaration, exactly *)
Definition idle_reset (s : src) : Prop :=
  s_state s = ST_IDLE /\ s_step s = SS_IDLE /\ s_p s = reset_sparams /\ s_queue s = [] /\ s_ready s = 0.

(* the one fault callback a sender call delivers, [new] being the events of the call so far (newest first), q0 / r0 the
   queue and the ready counter at the start: it is the newest event, unless its kind is IGNORE: then the procedure that
   declared the fault carries on (F34 repair: a re-sent EOF with its EOF-Sent indication may follow); it carries the
   transaction id t; either its kind is
   what the table gives for its condition (ABANDON: handler idle, parameters reset, queue cleared, counter zero; CANCEL:
   an EOF PDU with that condition was queued in the call and nothing was dropped) or it is the abandonment of a transaction
   whose EOF (cancel) exchange was already running with that condition (ce0: the EOF condition at the start) *)
Definition src_fault_last (c : lcfg) (t : option (Z * Z)) (ce0 : option Z) (q0 : list pdu) (r0 : Z)
           (new : list event) (s' : src) : Prop :=
  exists k a b cond pr newer older,
    new = newer ++ EvFault k a b cond pr :: older /\ no_fault newer /\ (k <> FH_IGNORE -> newer = []) /\
    no_fault older /\ t = Some (a, b) /\
    ((get_fault_handler (l_faults c) cond = Some k /\
      (k = FH_ABANDON -> idle_reset s') /\
      (k <> FH_ABANDON -> exists added, s_queue s' = q0 ++ added /\ s_ready s' = r0 + zlen added /\
                            (k = FH_CANCEL -> exists h ck fsz, In (PEof h cond ck fsz None) added)))
     \/ (k = FH_ABANDON /\ ce0 = Some cond /\ cond <> C_NO_ERROR /\ idle_reset s')).

Definition b2 (cond : Z) : SM bool :=
  setq (fun q => q <| q_cond_eof := Some cond |>) ;;;
  pr <- gq q_progress ;; ck <- checksum_calculation pr ;;
  prepare_eof_pdu ck ;;; handle_eof_sent true ;;; ret true.

Lemma bind_ok {S A B} (m : M S A) (f : A -> M S B) s s' b :
  bind m f s = (s', Ok b) -> exists a s1, m s = (s1, Ok a) /\ f a s1 = (s', Ok b).
Proof. unfold bind. destruct (m s) as [s1 [a|e]]; intro H; [exists a, s1; split; [reflexivity | exact H] | discriminate H]. Qed.

Lemma prepare_eof_pdu_ok : forall ck s s' u cond, q_cond_eof (s_p s) = Some cond -> prepare_eof_pdu ck s = (s', Ok u) ->
  s_queue s' = s_queue s ++ [PEof (hdr_of (q_conf (s_p s)) TOWARDS_RECEIVER) cond ck (q_progress (s_p s)) None].
Proof.
  intros ck s s' u cond Hc H. unfold prepare_eof_pdu in H. unfold bind at 1, gq at 1, gets at 1 in H. rewrite Hc in H.
  unfold bind at 1, gq at 1, gets at 1 in H. unfold bind at 1, gq at 1, gets at 1 in H.
  apply bind_ok in H. destruct H as [u1 [s1 [H1 H2]]]. unfold sadd_packet, modify in H1. inversion H1; subst s1; clear H1.
  unfold bind at 1, gets at 1 in H2. unfold when in H2.
  match type of H2 with (if ?b then _ else _) _ = _ => destruct b end.
  - unfold stid_or_assert, bind, gq, gets, semit, modify, ret, raise in H2. cbn [s_p] in H2.
    match type of H2 with context [match ?x with Some _ => _ | None => _ end] => destruct x end; inversion H2; reflexivity.
  - inversion H2. reflexivity.
Qed.

Lemma handle_eof_sent_true_ok : forall s s' u, handle_eof_sent true s = (s', Ok u) ->
  s_queue s' = s_queue s /\ (s_step s' = SS_WAITING_FOR_EOF_ACK \/ s_step s' = SS_IDLE).
Proof.
  intros s s' u H. unfold handle_eof_sent in H.
  unfold bind at 1, smode_is at 1, stmode at 1 in H. unfold bind at 1 in H. unfold bind at 1, get at 1 in H. unfold ret at 1 2 in H. cbv beta iota in H.
  match type of H with (if ?b then _ else _) _ = _ => destruct b end.
  - unfold start_positive_ack_procedure_s, srcfg_or_assert, bind, gq, gets, snow, sset_step, setq, modify, ret, raise in H.
    destruct (q_rcfg (s_p s)); inversion H. split; [reflexivity | left; reflexivity].
  - unfold bind at 1, gq at 1, gets at 1 in H. destruct (q_cond_eof (s_p s)) as [c|]; [|discriminate H].
    unfold bind at 1, setq at 1, modify at 1 in H. unfold notice_of_completion_s in H.
    unfold bind at 1, gets at 1 in H. cbn [s_cfg set] in H.
    match type of H with context [when ?b _] => destruct b end; unfold when in H.
    + unfold stid_or_assert, bind, gq, gets, setq, semit, sreset_internal, modify, ret, raise in H. cbn [s_p set] in H.
      match type of H with context [match ?x with Some _ => _ | None => _ end] => destruct x end; inversion H; split; [reflexivity | right; reflexivity].
    + unfold bind, ret, sreset_internal, modify in H. inversion H. split; [reflexivity | right; reflexivity].
Qed.

Lemma b2_ok : forall cond s s', b2 cond s = (s', Ok true) ->
  exists ck, s_queue s' = s_queue s ++ [PEof (hdr_of (q_conf (s_p s)) TOWARDS_RECEIVER) cond ck (q_progress (s_p s)) None] /\
             (s_step s' = SS_WAITING_FOR_EOF_ACK \/ s_step s' = SS_IDLE).
Proof.
  intros cond s s' H. unfold b2 in H.
  unfold bind at 1, setq at 1, modify at 1 in H.
  unfold bind at 1, gq at 1, gets at 1 in H.
  unfold bind at 1 in H.
  match type of H with context [checksum_calculation ?pr ?s0] => rewrite (cc_frame pr s0 s0) in H by reflexivity;
    destruct (snd (checksum_calculation pr s0)) as [ck|e]; [|discriminate H] end.
  exists ck. apply bind_ok in H. destruct H as [u1 [s1 [H1 H2]]].
  apply bind_ok in H2. destruct H2 as [u2 [s2 [H2 H3]]]. inversion H3; subst s'; clear H3.
  eapply prepare_eof_pdu_ok in H1; [|reflexivity]. apply handle_eof_sent_true_ok in H2. destruct H2 as [Q St].
  split; [rewrite Q, H1; reflexivity | exact St].
Qed.

Lemma b2_not_false : forall cond s, snd (b2 cond s) <> Ok false.
Proof.
  intros cond s. unfold b2.
  repeat (unfold bind at 1; match goal with |- snd (let (_, _) := ?x in _) <> _ => destruct x as [? [?|?]]; [|discriminate] end).
  discriminate.
Qed.

Section SrcFault.
  Variable c : lcfg.
  Variable t : option (Z * Z).
  Variable ce0 : option Z.
  Notation GT m := (SG (IsT c t ce0) m).
  Notation G0 m := (SG (Is0 c) m).

  Lemma g0_b2 : forall cond, G0 (b2 cond).
  Proof.
    intro. unfold b2. swalk; auto using g0_checksum_calculation, g0_prepare_eof_pdu, g0_handle_eof_sent.
  Qed.

  (* what the notice of cancellation does at the sender *)
  Definition noc_out (cond : Z) (s : src) (x : src * res Z bool) : Prop :=
    exists new, log_s (fst x) = new ++ log_s s /\ s_cfg (fst x) = c /\
      ((snd x = Ok false /\ exists a b c0 pr, t = Some (a, b) /\ new = [EvFault FH_ABANDON a b c0 pr] /\
                                          ce0 = Some c0 /\ c0 <> C_NO_ERROR /\ idle_reset (fst x))
       \/ (snd x <> Ok false /\ no_fault new /\
           exists added, s_queue (fst x) = s_queue s ++ added /\ s_ready (fst x) = s_ready s + zlen added /\
             (snd x = Ok true -> (exists h ck fsz, In (PEof h cond ck fsz None) added) /\
                                 (s_step (fst x) = SS_WAITING_FOR_EOF_ACK \/ s_step (fst x) = SS_IDLE)))).

  Lemma noc_spec : forall cond s, IsT c t ce0 s -> noc_out cond s (notice_of_cancellation_s cond s).
  Proof.
    intros cond s [Hc [Ht Hce]].
    assert (Hb2 : noc_out cond s (b2 cond s)).
    { destruct (g0_b2 cond s Hc) as [new [added [[E1 [E2 [E3 E4]]] I1]]].
      exists new. split; [exact E1|]. split; [exact I1|]. right. split; [apply b2_not_false|]. split; [exact E4|].
      exists added. split; [exact E2|]. split; [exact E3|]. intro Hok.
      destruct (b2 cond s) as [s' r] eqn:Eb. cbn [fst snd] in *. subst r.
      destruct (b2_ok _ _ _ Eb) as [ck [Q1 Q2]]. split; [|exact Q2].
      rewrite E2 in Q1. apply app_inv_head in Q1. subst added. eexists _, _, _. left. reflexivity. }
    unfold notice_of_cancellation_s. unfold bind at 1, gq at 1, gets at 1.
    destruct (q_cond_eof (s_p s)) as [c0|] eqn:Ece; [|exact Hb2].
    destruct (c0 =? C_NO_ERROR) eqn:E0; cbn [negb]; [exact Hb2|].
    assert (c0 <> C_NO_ERROR) as Hne by (apply Z.eqb_neq; exact E0).
    assert (ce0 = Some c0) as Hce0.
    { destruct Hce as [X|X]; [symmetry; exact X | inversion X; contradiction]. }
    unfold stid_or_assert. unfold bind at 1. unfold bind at 1, gq at 1, gets at 1.
    destruct (q_tid (s_p s)) as [[a b]|] eqn:Eq.
    - symmetry in Ht. unfold ret at 1. cbv beta iota. unfold bind at 1, gq at 1, gets at 1.
      unfold semit, sreset_internal, modify, bind, ret. cbn [fst snd].
      exists [EvFault FH_ABANDON a b c0 (q_progress (s_p s))]. split; [reflexivity|]. split; [exact Hc|].
      left. split; [reflexivity|]. exists a, b, c0, (q_progress (s_p s)).
      split; [exact Ht|]. split; [reflexivity|]. split; [exact Hce0|]. split; [exact Hne|].
      repeat split; reflexivity.
    - unfold raise. cbv beta iota. exists []. split; [reflexivity|]. split; [exact Hc|].
      right. split; [discriminate|]. split; [reflexivity|]. exists []. split; [symmetry; apply app_nil_r|].
      split; [cbn; lia|]. intro X; discriminate X.
  Qed.

  (* the outcome of a part of a call: nothing but non-fault events so far, or the one fault callback *)
  Definition sout {A} (s : src) (x : src * res Z A) : Prop :=
    exists new, log_s (fst x) = new ++ log_s s /\ s_cfg (fst x) = c /\
      ((no_fault new /\ exists added, s_queue (fst x) = s_queue s ++ added /\ s_ready (fst x) = s_ready s + zlen added)
       \/ src_fault_last c t ce0 (s_queue s) (s_ready s) new (fst x)).

  (* after the declaration the step is the old one, or that of the EOF (cancel) exchange, or idle *)
  (* what the declaration of an ignored fault leaves: everything but the log *)
  Definition ign_out (cond : Z) (s : src) (new : list event) (s' : src) : Prop :=
    fault_ignored c cond = true ->
    IsT c t ce0 s' /\ s_queue s' = s_queue s /\ s_ready s' = s_ready s /\ s_step s' = s_step s /\
    exists a b pr, new = [EvFault FH_IGNORE a b cond pr] /\ t = Some (a, b) /\
                   get_fault_handler (l_faults c) cond = Some FH_IGNORE.

  Definition decl_out (cond : Z) (s : src) (x : src * res Z unit) : Prop :=
    exists new, log_s (fst x) = new ++ log_s s /\ s_cfg (fst x) = c /\
      ((no_fault new /\ snd x <> Ok tt /\
        exists added, s_queue (fst x) = s_queue s ++ added /\ s_ready (fst x) = s_ready s + zlen added)
       \/ (src_fault_last c t ce0 (s_queue s) (s_ready s) new (fst x) /\ snd x = Ok tt /\
           (s_step (fst x) = s_step s \/ s_step (fst x) = SS_WAITING_FOR_EOF_ACK \/ s_step (fst x) = SS_IDLE) /\
           ign_out cond s new (fst x))).

  Lemma declare_fault_s_spec : forall cond s, IsT c t ce0 s -> decl_out cond s (declare_fault_s cond s).
  Proof.
    intros cond s HI. pose proof HI as [Hc [Ht Hce]].
    unfold declare_fault_s. unfold bind at 1, gets at 1. rewrite Hc.
    unfold bind at 1, gq at 1, gets at 1. unfold bind at 1, gq at 1, gets at 1.
    assert (Hq : forall (e : Z), decl_out cond s (s, Err e)).
    { intro e. exists []. split; [reflexivity|]. split; [exact Hc|]. left. split; [reflexivity|]. split; [discriminate|].
      exists []. split; [symmetry; apply app_nil_r | cbn; lia]. }
    destruct (q_tid (s_p s)) as [[a b]|] eqn:Eq; [|apply Hq]. symmetry in Ht.
    destruct (get_fault_handler (l_faults c) cond) as [h|] eqn:F; [|apply Hq].
    assert (FI : fault_ignored c cond = (h =? FH_IGNORE)) by (unfold fault_ignored; rewrite F; reflexivity).
    destruct (h =? FH_CANCEL) eqn:E1.
    - apply Z.eqb_eq in E1. subst h.
      unfold bind at 1. pose proof (noc_spec cond s HI) as N.
      destruct (notice_of_cancellation_s cond s) as [s1 r]. destruct N as [new [L1 [C1 N]]]. cbn [fst snd] in *.
      destruct N as [[R [a' [b' [c0 [pr [T1 [N1 [N2 [N3 N4]]]]]]]]]|[R [N1 [added [Q1 [Q2 Q3]]]]]].
      + subst r. cbn [negb]. unfold ret. exists new. cbn [fst snd]. split; [exact L1|]. split; [exact C1|].
        right. split; [|split; [reflexivity|]; split; [right; right; apply N4 | intro X; rewrite FI in X; compute in X; discriminate X]].
        exists FH_ABANDON, a', b', c0, pr, [], []. split; [exact N1|]. split; [reflexivity|]. split; [reflexivity|].
        split; [reflexivity|]. split; [exact T1|].
        right. split; [reflexivity|]. split; [exact N2|]. split; [exact N3 | exact N4].
      + destruct r as [[|]|e].
        * cbn [negb]. unfold semit, modify. cbn [fst snd].
          exists (EvFault FH_CANCEL a b cond (q_progress (s_p s)) :: new). cbn [fst snd].
          split; [cbn; unfold log_s in *; cbn; rewrite L1; reflexivity|]. split; [exact C1|].
          destruct (Q3 eq_refl) as [[hh [ck [fsz Hin]]] Hstep].
          right. split; [|split; [reflexivity|]; split; [right; exact Hstep | intro X; rewrite FI in X; compute in X; discriminate X]].
          exists FH_CANCEL, a, b, cond, (q_progress (s_p s)), [], new. split; [reflexivity|]. split; [reflexivity|].
          split; [reflexivity|]. split; [exact N1|]. split; [exact Ht|].
          left. split; [exact F|]. split; [intro X; discriminate X|]. intros _.
          exists added. split; [exact Q1|]. split; [exact Q2|]. intros _. exists hh, ck, fsz. exact Hin.
        * exfalso. apply R. reflexivity.
        * exists new. cbn [fst snd]. split; [exact L1|]. split; [exact C1|]. left. split; [exact N1|]. split; [discriminate|].
          exists added. split; assumption.
    - destruct (h =? FH_ABANDON) eqn:E2.
      + apply Z.eqb_eq in E2. subst h.
        unfold sreset_internal, semit, modify, bind, ret. cbn [fst snd negb].
        exists [EvFault FH_ABANDON a b cond (q_progress (s_p s))]. cbn [fst snd]. split; [reflexivity|]. split; [exact Hc|].
        right. split; [|split; [reflexivity|]; split; [right; right; reflexivity | intro X; rewrite FI in X; compute in X; discriminate X]].
        exists FH_ABANDON, a, b, cond, (q_progress (s_p s)), [], []. split; [reflexivity|]. split; [reflexivity|].
        split; [reflexivity|]. split; [reflexivity|]. split; [exact Ht|].
        left. split; [exact F|]. split; [intros _; repeat split; reflexivity|]. intro X; contradiction X; reflexivity.
      + unfold semit, modify, bind, ret. cbn [fst snd negb].
        exists [EvFault h a b cond (q_progress (s_p s))]. cbn [fst snd]. split; [reflexivity|]. split; [exact Hc|].
        right. split; [|split; [reflexivity|]; split; [left; reflexivity|]].
        2: { intro X. rewrite FI in X. apply Z.eqb_eq in X. subst h.
             split; [split; [exact Hc | split; [rewrite Ht; exact Eq | exact Hce]]|].
             split; [reflexivity|]. split; [reflexivity|]. split; [reflexivity|].
             exists a, b, (q_progress (s_p s)). split; [reflexivity|]. split; [exact Ht | exact F]. }
        exists h, a, b, cond, (q_progress (s_p s)), [], []. split; [reflexivity|]. split; [reflexivity|].
        split; [reflexivity|]. split; [reflexivity|]. split; [exact Ht|].
        left. split; [exact F|]. split; [intro X; subst h; discriminate E2|]. intros _.
        exists []. split; [symmetry; apply app_nil_r|]. split; [cbn; lia|]. intro X; subst h; discriminate E1.
  Qed.
End SrcFault.

(* ------------------------------------------------------------------ sender: the state machine, section by section *)
Lemma hr_false : forall pkt s s', handle_retransmission pkt s = (s', Ok false) -> s' = s.
Proof.
  intros pkt s s' H. destruct pkt as [[]|]; try (inversion H; reflexivity).
  unfold handle_retransmission in H. unfold bind at 1 in H.
  match type of H with (let (_, _) := ?x in _) = _ => destruct x as [s1 [u|e]] end; [|discriminate H].
  unfold bind, get, put, ret in H. discriminate H.
Qed.

Section SrcCall.
  Variable c : lcfg.
  Variable t : option (Z * Z).
  Variable ce0 : option Z.
  Notation GT m := (SG (IsT c t ce0) m).
  Notation G0 m := (SG (Is0 c) m).
  Notation IT := (IsT c t ce0).

  Lemma it_is0 : forall s, IT s -> Is0 c s.
  Proof. intros s [H _]. exact H. Qed.

  Lemma sout_quiet {A} : forall s (x : src * res Z A) new added, SExt s (fst x) new added -> s_cfg (fst x) = c -> sout c t ce0 s x.
  Proof.
    intros s x new added [E1 [E2 [E3 E4]]] Hc. exists new. split; [exact E1|]. split; [exact Hc|]. left. split; [exact E4|].
    exists added. split; assumption.
  Qed.

  Lemma sout_shift {A} : forall s s1 (x : src * res Z A) n1 a1, SExt s s1 n1 a1 -> sout c t ce0 s1 x -> sout c t ce0 s x.
  Proof.
    intros s s1 x n1 a1 [E1 [E2 [E3 E4]]] [new [L [C D]]]. exists (new ++ n1).
    split; [rewrite L, E1; apply app_assoc|]. split; [exact C|].
    destruct D as [[N [added [Q1 Q2]]]|[k [a [b [cond [pr [newer [older [F1 [Fn [Fi [F2 [F3 F4]]]]]]]]]]]]].
    - left. split; [apply no_fault_app; assumption|]. exists (a1 ++ added).
      split; [rewrite Q1, E2; symmetry; apply app_assoc | rewrite Q2, E3, ft_zlen_app; lia].
    - right. exists k, a, b, cond, pr, newer, (older ++ n1). split; [rewrite F1, <- app_assoc; reflexivity|].
      split; [exact Fn|]. split; [exact Fi|].
      split; [apply no_fault_app; assumption|]. split; [exact F3|].
      destruct F4 as [[T1 [T2 T3]]|T]; [|right; exact T].
      left. split; [exact T1|]. split; [exact T2|]. intro Hk. destruct (T3 Hk) as [added [Q1 [Q2 Q3]]].
      exists (a1 ++ added). split; [rewrite Q1, E2; symmetry; apply app_assoc|].
      split; [rewrite Q2, E3, ft_zlen_app; lia|]. intro Hc. destruct (Q3 Hc) as [h [ck [fsz Hin]]].
      exists h, ck, fsz. apply in_or_app. right. exact Hin.
  Qed.

  Lemma bind_quiet {A B} (m : SM A) (f : A -> SM B) s :
    GT m -> IT s -> (forall a s1, IT s1 -> sout c t ce0 s1 (f a s1)) -> sout c t ce0 s (bind m f s).
  Proof.
    intros Hm HI Hf. unfold bind. destruct (Hm s HI) as [n1 [a1 [E1 I1]]].
    destruct (m s) as [s1 [a|e]]; cbn [fst] in *.
    - eapply sout_shift; [exact E1 | apply Hf; exact I1].
    - eapply sout_quiet; [exact E1 | apply I1].
  Qed.

  Lemma quiet_out {A} (m : SM A) s : GT m -> IT s -> sout c t ce0 s (m s).
  Proof.
    intros Hm HI. destruct (Hm s HI) as [n1 [a1 [E1 I1]]]. eapply sout_quiet; [exact E1 | apply I1].
  Qed.

  Lemma quiet0_out {A} (m : SM A) s : G0 m -> IT s -> sout c t ce0 s (m s).
  Proof.
    intros Hm HI. destruct (Hm s (it_is0 s HI)) as [n1 [a1 [E1 I1]]]. eapply sout_quiet; [exact E1 | exact I1].
  Qed.

  (* the outcome of a section that may declare a fault: quiet (invariant kept if it returns normally), or the callback,
     after which the step satisfies S_ok *)
  Definition mid_out (S_ok : Z -> Prop) (s : src) (x : src * res Z unit) : Prop :=
    (exists new added, SExt s (fst x) new added /\ s_cfg (fst x) = c /\ (snd x = Ok tt -> IT (fst x))) \/
    (exists new, log_s (fst x) = new ++ log_s s /\ s_cfg (fst x) = c /\
                 src_fault_last c t ce0 (s_queue s) (s_ready s) new (fst x) /\ S_ok (s_step (fst x))).

  Lemma mid_quiet (S_ok : Z -> Prop) (m : SM unit) s : GT m -> IT s -> mid_out S_ok s (m s).
  Proof.
    intros Hm HI. destruct (Hm s HI) as [n1 [a1 [E1 I1]]]. left. exists n1, a1. split; [exact E1|].
    split; [apply I1 | intros _; exact I1].
  Qed.

  (* a limit fault is declared; if its handler is IGNORE the procedure [K] carries on (F34 repair) *)
  Lemma decl_then (S_ok : Z -> Prop) cond (K : SM unit) s :
    IT s -> GT K -> MInv s_step Any K ->
    (forall st, st = s_step s \/ st = SS_WAITING_FOR_EOF_ACK \/ st = SS_IDLE -> S_ok st) ->
    mid_out S_ok s ((declare_fault_s cond ;;; l <- gets s_cfg ;; if fault_ignored l cond then K else ret tt) s).
  Proof.
    intros HI HK HKs HS. destruct (declare_fault_s_spec c t ce0 cond s HI) as [new [L [C D]]]. unfold bind at 1.
    destruct (declare_fault_s cond s) as [s1 r]. cbn [fst snd] in *.
    destruct D as [[N [R [added [Q1 Q2]]]]|[F [R [St Ig]]]].
    - left. destruct r as [[]|e]; [contradiction R; reflexivity|]. exists new, added. cbn [fst snd].
      split; [split; [exact L | split; [exact Q1 | split; [exact Q2 | exact N]]]|]. split; [exact C | intro X; discriminate X].
    - subst r. unfold bind at 1, gets at 1. rewrite C.
      destruct (fault_ignored c cond) eqn:Efi.
      + destruct (Ig Efi) as [I1 [Q1 [Q2 [S1 [a [b [pr [En [Et Ft]]]]]]]]].
        destruct (HK s1 I1) as [n2 [a2 [[L2 [Q3 [Q4 N2]]] I2]]].
        pose proof (minv_state _ _ _ s1 HKs) as S2.
        right. exists (n2 ++ new). split; [rewrite L2, L; apply app_assoc|]. split; [apply I2|]. split.
        * subst new. exists FH_IGNORE, a, b, cond, pr, n2, []. split; [reflexivity|]. split; [exact N2|].
          split; [intro X; contradiction X; reflexivity|]. split; [reflexivity|]. split; [exact Et|].
          left. split; [exact Ft|]. split; [intro X; discriminate X|]. intros _.
          exists a2. split; [rewrite Q3, Q1; reflexivity|]. split; [rewrite Q4, Q2; reflexivity | intro X; discriminate X].
        * apply HS. left. rewrite S2. exact S1.
      + unfold ret. cbn [fst snd]. right. exists new. split; [exact L|]. split; [exact C|]. split; [exact F | apply HS, St].
  Qed.

  Lemma hpap_s_out : forall s, IT s ->
    mid_out (fun st => st = s_step s \/ st = SS_WAITING_FOR_EOF_ACK \/ st = SS_IDLE) s (handle_positive_ack_procedures_s s).
  Proof.
    intros s HI. unfold handle_positive_ack_procedures_s.
    unfold bind at 1, gq at 1, gets at 1.
    destruct (q_ack_timer (s_p s)) as [tm|]; [|apply (mid_quiet _ (raise E_ASSERT)); [apply sg_raise | exact HI]].
    unfold srcfg_or_assert. unfold bind at 1. unfold bind at 1, gq at 1, gets at 1.
    destruct (q_rcfg (s_p s)) as [r|]; [|apply (mid_quiet _ (raise E_ASSERT)); [apply sg_raise | exact HI]].
    unfold ret at 1. cbv beta iota. unfold bind at 1, snow at 1, gets at 1.
    destruct (negb (timed_out (e_now (s_env s)) tm)); [apply (mid_quiet _ (ret tt)); [apply sg_ret | exact HI]|].
    unfold bind at 1, gq at 1, gets at 1. cbv zeta.
    match goal with |- mid_out _ _ ((if _ then _ else ?K) s) =>
      assert (GK : GT K) by (swalk; auto using gt_checksum_calculation, gt_prepare_eof_pdu);
      assert (SK : MInv s_step Any K) by minv end.
    destruct (r_ack_limit r <=? q_ack_counter (s_p s) + 1).
    - apply decl_then; [exact HI | exact GK | exact SK | intros st H; exact H].
    - apply mid_quiet; [exact GK | exact HI].
  Qed.

  Lemma hwfa_out : forall pkt s, IT s -> s_step s = SS_WAITING_FOR_EOF_ACK ->
    mid_out (fun st => st = SS_WAITING_FOR_EOF_ACK \/ st = SS_IDLE) s (handle_waiting_for_ack pkt s).
  Proof.
    intros pkt s HI Hst. unfold handle_waiting_for_ack. unfold bind at 1.
    destruct (gt_handle_retransmission c t ce0 pkt s HI) as [n1 [a1 [E1 I1]]].
    destruct (handle_retransmission pkt s) as [s1 [[|]|e]] eqn:Er; cbn [fst] in *.
    - left. exists n1, a1. split; [exact E1|]. split; [apply I1 | intros _; exact I1].
    - apply hr_false in Er. subst s1.
      assert (HP : mid_out (fun st => st = SS_WAITING_FOR_EOF_ACK \/ st = SS_IDLE) s (handle_positive_ack_procedures_s s)).
      { destruct (hpap_s_out s HI) as [Q|[new [L [C [F St]]]]]; [left; exact Q|].
        right. exists new. split; [exact L|]. split; [exact C|]. split; [exact F|].
        rewrite Hst in St. destruct St as [X|[X|X]]; [left; exact X | left; exact X | right; exact X]. }
      destruct pkt as [[]|]; try exact HP; (apply mid_quiet; [swalk | exact HI]).
    - left. exists n1, a1. split; [exact E1|]. split; [apply I1 | intro X; discriminate X].
  Qed.

  Lemma hwff_out : forall pkt s, IT s -> s_step s = SS_WAITING_FOR_FINISHED ->
    mid_out (fun st => st = SS_WAITING_FOR_FINISHED \/ st = SS_WAITING_FOR_EOF_ACK \/ st = SS_IDLE) s (handle_wait_for_finish pkt s).
  Proof.
    intros pkt s HI Hst. unfold handle_wait_for_finish.
    unfold bind at 1. unfold smode_is at 1, stmode at 1. unfold bind at 1. unfold bind at 1, get at 1. unfold ret at 1 2. cbv beta iota.
    match goal with |- mid_out _ _ (bind (if ?b then _ else _) _ _) => set (ac := b) end.
    unfold bind at 1.
    assert (Hrt : GT (if ac then handle_retransmission pkt else ret false)) by (destruct ac; [apply gt_handle_retransmission | apply sg_ret]).
    match goal with |- mid_out _ _ (let (_, _) := ?X in _) =>
      assert (G : SGrow (IsT c t ce0) s (fst X)) by (exact (Hrt s HI)); destruct X as [s1 [[|]|e]] eqn:Er end;
    cbn [fst] in G; destruct G as [n1 [a1 [E1 I1]]].
    - left. exists n1, a1. split; [exact E1|]. split; [apply I1 | intros _; exact I1].
    - assert (s1 = s) as ->.
      { destruct ac; [apply hr_false in Er; exact Er | inversion Er; reflexivity]. }
      assert (HP : mid_out (fun st => st = SS_WAITING_FOR_FINISHED \/ st = SS_WAITING_FOR_EOF_ACK \/ st = SS_IDLE) s
                     ((t0 <- gq q_check_timer ;; n <- snow ;;
                       match t0 with
                       | Some tm =>
                           when (timed_out n tm)
                             (declare_fault_s C_CHECK_LIMIT ;;;
                              l <- gets s_cfg ;;
                              when (fault_ignored l C_CHECK_LIMIT) (setq (fun q => q <| q_check_timer := Some (n, snd tm) |>)))
                       | None => ret tt
                       end) s)).
      { unfold bind at 1, gq at 1, gets at 1. unfold bind at 1, snow at 1, gets at 1.
        destruct (q_check_timer (s_p s)) as [tm|]; [|apply (mid_quiet _ (ret tt)); [apply sg_ret | exact HI]].
        unfold when at 1. destruct (timed_out (e_now (s_env s)) tm); [|apply (mid_quiet _ (ret tt)); [apply sg_ret | exact HI]].
        unfold when. apply decl_then; [exact HI | swalk | minv | rewrite Hst; intros st H; exact H]. }
      destruct pkt as [[]|]; try exact HP; (apply mid_quiet; [swalk | exact HI]).
    - left. exists n1, a1. split; [exact E1|]. split; [apply I1 | intro X; discriminate X].
  Qed.
End SrcCall.

(* ------------------------------------------------------------------ sender: the whole call *)
(* the sections of _fsm_non_idle after the transaction start *)
Definition sec_f : SM unit := b <- sstep_is SS_NOTICE_OF_COMPLETION ;; when b notice_of_completion_s.
Definition sec_ef (pkt : option pdu) : SM unit :=
  (b <- sstep_is SS_WAITING_FOR_FINISHED ;; when b (handle_wait_for_finish pkt)) ;;; sec_f.
Definition sec_def (pkt : option pdu) : SM unit :=
  (b <- sstep_is SS_WAITING_FOR_EOF_ACK ;; when b (handle_waiting_for_ack pkt)) ;;; sec_ef pkt.
Definition sec_cdef (pkt : option pdu) : SM unit :=
  (b <- sstep_is SS_SENDING_EOF ;;
   when b (fsz <- gq q_file_size ;; ck <- checksum_calculation (opt_z fsz) ;; prepare_eof_pdu ck ;;; handle_eof_sent false)) ;;;
  sec_def pkt.
Definition sec_bcdef (pkt : option pdu) : SM unit :=
  b <- sstep_is SS_SENDING_FILE_DATA ;;
  stop <- (if b then sending_file_data_fsm pkt else ret false) ;;
  if stop then ret tt else sec_cdef pkt.
Definition sec_meta (pkt : option pdu) : SM unit :=
  b <- sstep_is SS_SENDING_METADATA ;; if b then prepare_metadata_pdu else sec_bcdef pkt.
Definition sec_all (pkt : option pdu) : SM unit :=
  b <- sstep_is SS_IDLE ;; when b (sset_step SS_TRANSACTION_START) ;;;
  b <- sstep_is SS_TRANSACTION_START ;; when b (transaction_start ;;; sset_step SS_SENDING_METADATA) ;;;
  sec_meta pkt.

Lemma fsm_non_idle_eq : forall pkt,
  fsm_non_idle pkt = (fsm_advancement_s ;;; p <- gets s_put ;; match p with None => ret tt | Some _ => sec_all pkt end).
Proof. reflexivity. Qed.

Lemma sec_guard : forall X (m : SM unit) s,
  (b <- sstep_is X ;; when b m) s = if s_step s =? X then m s else (s, Ok tt).
Proof. intros. unfold sstep_is, bind, gets, ret, when. destruct (s_step s =? X); reflexivity. Qed.
Lemma sec_guard2 : forall X (m k : SM unit) s,
  (b <- sstep_is X ;; (when b m ;;; k)) s = if s_step s =? X then (m ;;; k) s else k s.
Proof. intros. unfold sstep_is, bind, gets, ret, when. destruct (s_step s =? X); reflexivity. Qed.
Lemma sec_guard3 : forall X (m k : SM unit) s,
  (b <- sstep_is X ;; if b then m else k) s = if s_step s =? X then m s else k s.
Proof. intros. unfold sstep_is, bind, gets, ret. destruct (s_step s =? X); reflexivity. Qed.

Lemma sec_f_skip : forall s, s_step s <> SS_NOTICE_OF_COMPLETION -> sec_f s = (s, Ok tt).
Proof.
  intros s H. unfold sec_f. rewrite sec_guard.
  destruct (s_step s =? SS_NOTICE_OF_COMPLETION) eqn:E; [apply Z.eqb_eq in E; contradiction | reflexivity].
Qed.

Lemma sec_ef_skip : forall pkt s, s_step s <> SS_WAITING_FOR_FINISHED -> s_step s <> SS_NOTICE_OF_COMPLETION ->
  sec_ef pkt s = (s, Ok tt).
Proof.
  intros pkt s H1 H2. unfold sec_ef. unfold bind at 1. rewrite sec_guard.
  destruct (s_step s =? SS_WAITING_FOR_FINISHED) eqn:E; [apply Z.eqb_eq in E; contradiction|].
  apply sec_f_skip. exact H2.
Qed.

Section SrcTop.
  Variable c : lcfg.
  Variable t : option (Z * Z).
  Variable ce0 : option Z.
  Notation GT m := (SG (IsT c t ce0) m).
  Notation G0 m := (SG (Is0 c) m).
  Notation IT := (IsT c t ce0).
  Notation OUT := (sout c t ce0).

  Lemma out_of_fault {A} : forall s s' (r : res Z A) new,
    log_s s' = new ++ log_s s -> s_cfg s' = c -> src_fault_last c t ce0 (s_queue s) (s_ready s) new s' -> OUT s (s', r).
  Proof. intros s s' r new L C F. exists new. cbn [fst]. split; [exact L|]. split; [exact C|]. right. exact F. Qed.

  Lemma sec_f_out : forall s, IT s -> OUT s (sec_f s).
  Proof. intros s HI. apply quiet0_out; [|exact HI]. unfold sec_f. swalk; auto using g0_notice_of_completion_s. Qed.

  Lemma sec_ef_out : forall pkt s, IT s -> OUT s (sec_ef pkt s).
  Proof.
    intros pkt s HI. unfold sec_ef. unfold bind at 1. rewrite sec_guard.
    destruct (s_step s =? SS_WAITING_FOR_FINISHED) eqn:E.
    - apply Z.eqb_eq in E.
      destruct (hwff_out c t ce0 pkt s HI E) as [[n1 [a1 [E1 [C1 I1]]]]|[new [L [C1 [F St]]]]];
        destruct (handle_wait_for_finish pkt s) as [s1 [[]|e]]; cbn [fst snd] in *.
      + eapply sout_shift; [exact E1 | apply sec_f_out; apply I1; reflexivity].
      + eapply sout_quiet; [exact E1 | exact C1].
      + rewrite sec_f_skip; [eapply out_of_fault; eassumption|].
        destruct St as [X|[X|X]]; rewrite X; discriminate.
      + eapply out_of_fault; eassumption.
    - apply sec_f_out. exact HI.
  Qed.

  Lemma sec_def_out : forall pkt s, IT s -> OUT s (sec_def pkt s).
  Proof.
    intros pkt s HI. unfold sec_def. unfold bind at 1. rewrite sec_guard.
    destruct (s_step s =? SS_WAITING_FOR_EOF_ACK) eqn:E.
    - apply Z.eqb_eq in E.
      destruct (hwfa_out c t ce0 pkt s HI E) as [[n1 [a1 [E1 [C1 I1]]]]|[new [L [C1 [F St]]]]];
        destruct (handle_waiting_for_ack pkt s) as [s1 [[]|e]]; cbn [fst snd] in *.
      + eapply sout_shift; [exact E1 | apply sec_ef_out; apply I1; reflexivity].
      + eapply sout_quiet; [exact E1 | exact C1].
      + rewrite sec_ef_skip; [eapply out_of_fault; eassumption | |];
          destruct St as [X|X]; rewrite X; discriminate.
      + eapply out_of_fault; eassumption.
    - apply sec_ef_out. exact HI.
  Qed.

  Lemma sec_cdef_out : forall pkt s, IT s -> OUT s (sec_cdef pkt s).
  Proof.
    intros pkt s HI. unfold sec_cdef. apply bind_quiet; [|exact HI|intros _ s1 H1; apply sec_def_out; exact H1].
    swalk; auto using gt_checksum_calculation, gt_prepare_eof_pdu, gt_handle_eof_sent_false.
  Qed.

  Lemma sec_bcdef_out : forall pkt s, IT s -> OUT s (sec_bcdef pkt s).
  Proof.
    intros pkt s HI. unfold sec_bcdef. apply bind_quiet; [swalk | exact HI | intros b s1 H1].
    apply bind_quiet; [destruct b; [apply gt_sending_file_data_fsm | apply sg_ret] | exact H1 | intros stop s2 H2].
    destruct stop; [apply (quiet_out _ _ _ (ret tt)); [apply sg_ret | exact H2] | apply sec_cdef_out; exact H2].
  Qed.

  Lemma sec_meta_out : forall pkt s, IT s -> OUT s (sec_meta pkt s).
  Proof.
    intros pkt s HI. unfold sec_meta. apply bind_quiet; [swalk | exact HI | intros b s1 H1].
    destruct b; [apply quiet_out; [apply gt_prepare_metadata_pdu | exact H1] | apply sec_bcdef_out; exact H1].
  Qed.

  (* the call that starts the transaction sends the Metadata PDU and returns: no fault is declared in it *)
  Lemma sec_all_start : forall pkt s, Is0 c s -> (s_step s = SS_IDLE \/ s_step s = SS_TRANSACTION_START) ->
    SGrow (Is0 c) s (fst (sec_all pkt s)).
  Proof.
    intros pkt s HI Hst.
    set (s1 := s <| s_step := SS_TRANSACTION_START |>).
    assert (E : sec_all pkt s =
                ((transaction_start ;;; sset_step SS_SENDING_METADATA) ;;; sec_meta pkt) (if s_step s =? SS_IDLE then s1 else s)).
    { unfold sec_all. rewrite sec_guard2.
      destruct Hst as [Hst|Hst]; rewrite Hst.
      - change (SS_IDLE =? SS_IDLE) with true. cbv iota. unfold bind at 1, sset_step at 1, modify at 1. fold s1.
        rewrite sec_guard2. change (s_step s1 =? SS_TRANSACTION_START) with true. reflexivity.
      - change (SS_TRANSACTION_START =? SS_IDLE) with false. cbv iota.
        rewrite sec_guard2. rewrite Hst. change (SS_TRANSACTION_START =? SS_TRANSACTION_START) with true. reflexivity. }
    rewrite E. clear E.
    assert (HI2 : Is0 c (if s_step s =? SS_IDLE then s1 else s)) by (destruct (s_step s =? SS_IDLE); exact HI).
    assert (X : SGrow (Is0 c) s (if s_step s =? SS_IDLE then s1 else s)).
    { exists [], []. split; [|exact HI2]. destruct (s_step s =? SS_IDLE); (split; [reflexivity|]; split; [symmetry; apply app_nil_r|]; split; [cbn; lia | reflexivity]). }
    eapply sgrow_trans; [exact X|]. clear X. generalize dependent (if s_step s =? SS_IDLE then s1 else s). clear s1 s HI Hst.
    intros s HI.
    unfold bind at 1.
    assert (G : G0 (transaction_start ;;; sset_step SS_SENDING_METADATA)) by (swalk; auto using g0_transaction_start).
    pose proof (G s HI) as G1.
    assert (Hstep : forall s2 u, (transaction_start ;;; sset_step SS_SENDING_METADATA) s = (s2, Ok u) -> s_step s2 = SS_SENDING_METADATA).
    { intros s2 u H. unfold bind in H. destruct (transaction_start s) as [s3 [v|e]]; [|discriminate H].
      unfold sset_step, modify in H. inversion H. reflexivity. }
    destruct ((transaction_start ;;; sset_step SS_SENDING_METADATA) s) as [s2 [u|e]]; cbn [fst] in *; [|exact G1].
    eapply sgrow_trans; [exact G1|]. specialize (Hstep s2 u eq_refl).
    unfold sec_meta. rewrite sec_guard3. rewrite Hstep.
    change (SS_SENDING_METADATA =? SS_SENDING_METADATA) with true. cbv beta iota.
    apply g0_prepare_metadata_pdu. eapply sgrow_inv, G1.
  Qed.

  Lemma sec_all_skip : forall pkt s, s_step s <> SS_IDLE -> s_step s <> SS_TRANSACTION_START -> sec_all pkt s = sec_meta pkt s.
  Proof.
    intros pkt s H1 H2. unfold sec_all. rewrite sec_guard2.
    destruct (s_step s =? SS_IDLE) eqn:E1; [apply Z.eqb_eq in E1; contradiction|].
    rewrite sec_guard2.
    destruct (s_step s =? SS_TRANSACTION_START) eqn:E2; [apply Z.eqb_eq in E2; contradiction|].
    reflexivity.
  Qed.

  Lemma fsm_non_idle_out : forall pkt s, IT s -> OUT s (fsm_non_idle pkt s).
  Proof.
    intros pkt s HI. rewrite fsm_non_idle_eq.
    apply bind_quiet; [apply gt_fsm_advancement_s | exact HI | intros _ s1 H1].
    unfold bind at 1, gets at 1. destruct (s_put s1) as [p|]; [|apply (quiet_out _ _ _ (ret tt)); [apply sg_ret | exact H1]].
    destruct (Z.eq_dec (s_step s1) SS_IDLE) as [E1|E1];
      [|destruct (Z.eq_dec (s_step s1) SS_TRANSACTION_START) as [E2|E2]].
    - destruct (sec_all_start pkt s1 (it_is0 _ _ _ s1 H1) (or_introl E1)) as [n [a [E I1]]]. eapply sout_quiet; [exact E | exact I1].
    - destruct (sec_all_start pkt s1 (it_is0 _ _ _ s1 H1) (or_intror E2)) as [n [a [E I1]]]. eapply sout_quiet; [exact E | exact I1].
    - rewrite sec_all_skip by assumption. apply sec_meta_out. exact H1.
  Qed.
End SrcTop.

(* what every API call of the sender does to the log: nothing but non-fault events, or exactly one fault callback,
   which is then the newest event *)
Definition source_call_post (s s' : src) : Prop :=
  exists new, log_s s' = new ++ log_s s /\
    ((no_fault new /\ exists added, s_queue s' = s_queue s ++ added /\ s_ready s' = s_ready s + zlen added) \/
     src_fault_last (s_cfg s) (q_tid (s_p s)) (q_cond_eof (s_p s)) (s_queue s) (s_ready s) new s').

Lemma sout_post : forall s A (x : src * res Z A),
  sout (s_cfg s) (q_tid (s_p s)) (q_cond_eof (s_p s)) s x -> source_call_post s (fst x).
Proof. intros s A x [new [L [_ D]]]. exists new. split; [exact L | exact D]. Qed.

Lemma ist_start : forall s, IsT (s_cfg s) (q_tid (s_p s)) (q_cond_eof (s_p s)) s.
Proof. intro s. split; [reflexivity|]. split; [reflexivity | left; reflexivity]. Qed.

Lemma source_post_refl : forall s, source_call_post s s.
Proof.
  intro s. exists []. split; [reflexivity|]. left. split; [reflexivity|]. exists []. split; [symmetry; apply app_nil_r | cbn; lia].
Qed.

Lemma source_state_machine_post : forall pkt s, source_call_post s (fst (state_machine_s pkt s)).
Proof.
  intros pkt s. unfold state_machine_s. unfold bind at 1. cbv beta.
  match goal with |- source_call_post _ (fst (let (s', r) := ?X in _)) => destruct X as [s1 r0] eqn:Hadm end.
  assert (s1 = s) as ->.
  { destruct pkt as [p|]; [|inversion Hadm; reflexivity].
    pose proof (minv_state _ _ _ s (adm_s p)) as X. rewrite Hadm in X. exact X. }
  destruct r0 as [u|e]; [|apply source_post_refl].
  unfold bind at 1, get at 1. destruct (s_state s =? ST_IDLE); [apply source_post_refl|].
  apply sout_post. apply fsm_non_idle_out. apply ist_start.
Qed.

Lemma source_cancel_request_post : forall a b s, source_call_post s (fst (cancel_request_s a b s)).
Proof.
  intros a b s. unfold cancel_request_s. unfold bind at 1, get at 1.
  destruct (0 <? s_ready s); [apply source_post_refl|].
  destruct (q_tid (s_p s)) as [[x y]|] eqn:Et; [|apply source_post_refl].
  destruct ((x =? a) && (y =? b)); [|apply source_post_refl].
  unfold bind. pose proof (noc_spec (s_cfg s) (q_tid (s_p s)) (q_cond_eof (s_p s)) C_CANCEL_REQUEST s (ist_start s)) as N.
  destruct (notice_of_cancellation_s C_CANCEL_REQUEST s) as [s1 r]. destruct N as [new [L [C N]]]. cbn [fst snd] in *.
  assert (E : fst (match r with Ok _ => ret true s1 | Err e => (s1, Err e) end) = s1) by (destruct r; reflexivity).
  rewrite E. exists new. split; [exact L|].
  destruct N as [[R [a' [b' [c0 [pr [T1 [N1 [N2 [N3 N4]]]]]]]]]|[R [N1 [added [Q1 [Q2 Q3]]]]]].
  - right. exists FH_ABANDON, a', b', c0, pr, [], []. split; [exact N1|]. split; [reflexivity|]. split; [reflexivity|].
    split; [reflexivity|]. split; [exact T1|].
    right. split; [reflexivity|]. split; [exact N2|]. split; [exact N3 | exact N4].
  - left. split; [exact N1|]. exists added. split; assumption.
Qed.

(* ================================================================== the theorems of props/C14b.v *)
(* the transaction a call of the receiver works on; only state_machine can deliver callbacks *)
Definition dcall_tid (cl : dcall) (s : dst) : option (Z * Z) :=
  match cl with DSm pkt => dest_call_tid pkt s | _ => None end.

Lemma dest_cancel_log_ft : forall a b sd, log_d (fst (Dest.cancel_request a b sd)) = log_d sd.
Proof.
  intros a b sd. unfold Dest.cancel_request, bind, get, ret, raise.
  destruct (d_state sd =? ST_IDLE); [reflexivity|].
  destruct (0 <? d_ready sd); [reflexivity|].
  destruct (p_tid (d_p sd)) as [[x y]|]; [|reflexivity].
  destruct ((x =? a) && (y =? b)); reflexivity.
Qed.

Lemma dapply_quiet : forall cl s, (match cl with DSm _ => False | _ => True end) -> log_d (fst (dapply cl s)) = log_d s.
Proof.
  intros cl s H. destruct cl as [pkt| |a b| |ms]; try contradiction; unfold dapply.
  - unfold Dest.get_next_packet, bind, get, put, ret. destruct (d_queue s); reflexivity.
  - pose proof (dest_cancel_log_ft a b s) as X. destruct (Dest.cancel_request a b s). exact X.
  - reflexivity.
  - reflexivity.
Qed.

Lemma dest_fault_events_follow_table : forall (cl : dcall) (s : dst),
  exists new, log_d (fst (dapply cl s)) = new ++ log_d s /\
    forall kind a b cond prog, In (EvFault kind a b cond prog) new ->
      dcall_tid cl s = Some (a, b) /\
      (get_fault_handler (l_faults (d_cfg s)) cond = Some kind \/ kind = FH_ABANDON).
Proof.
  intros cl s.
  assert (Hq : (match cl with DSm _ => False | _ => True end) ->
               exists new, log_d (fst (dapply cl s)) = new ++ log_d s /\
                 forall kind a b cond prog, In (EvFault kind a b cond prog) new ->
                   dcall_tid cl s = Some (a, b) /\ (get_fault_handler (l_faults (d_cfg s)) cond = Some kind \/ kind = FH_ABANDON)).
  { intro H. exists []. split; [apply dapply_quiet; exact H | intros ? ? ? ? ? []]. }
  destruct cl as [pkt| |a b| |ms]; try (apply Hq; exact I).
  unfold dapply. pose proof (dest_state_machine_post pkt s) as P.
  destruct (Dest.state_machine pkt s) as [s' r]. cbn [fst] in *.
  destruct P as [new [added [L [_ [_ [F _]]]]]]. exists new. split; [exact L|].
  intros kind a b cond prog Hin. rewrite Forall_forall in F. exact (F _ Hin).
Qed.

Lemma dest_abandon_is_final : forall pkt s,
  exists new added,
    log_d (fst (Dest.state_machine pkt s)) = new ++ log_d s /\
    d_queue (fst (Dest.state_machine pkt s)) = d_queue s ++ added /\
    d_ready (fst (Dest.state_machine pkt s)) = d_ready s + zlen added /\
    forall e, In e new -> is_abandon e = true ->
      (exists older, new = e :: older /\ no_abandon older) /\
      d_state (fst (Dest.state_machine pkt s)) = ST_IDLE /\ d_step (fst (Dest.state_machine pkt s)) = DS_IDLE /\
      d_p (fst (Dest.state_machine pkt s)) = fresh_params.
Proof.
  intros pkt s. destruct (dest_state_machine_post pkt s) as [new [added [L [Q [R [_ C]]]]]].
  exists new, added. split; [exact L|]. split; [exact Q|]. split; [exact R|].
  intros e Hin Hab. destruct C as [N|[[e0 [rest [E [A N]]]] F]].
  - exfalso. unfold no_abandon in N. rewrite forallb_forall in N. specialize (N e Hin). rewrite Hab in N. discriminate N.
  - split; [|exact F]. subst new. destruct Hin as [Hin|Hin].
    + subst e0. exists rest. split; [reflexivity | exact N].
    + exfalso. unfold no_abandon in N. rewrite forallb_forall in N. specialize (N e Hin). rewrite Hab in N. discriminate N.
Qed.

(* the kinds: a table whose entries are handler codes yields callbacks of the four kinds only *)
Definition table_valid (tb : list (Z * Z)) : Prop :=
  Forall (fun kv => In (snd kv) [FH_CANCEL; FH_SUSPEND; FH_IGNORE; FH_ABANDON]) tb.

Lemma fault_kinds : forall tb cond kind, table_valid tb ->
  (get_fault_handler tb cond = Some kind \/ kind = FH_ABANDON) -> In kind [FH_CANCEL; FH_SUSPEND; FH_IGNORE; FH_ABANDON].
Proof.
  intros tb cond kind Hv [H|H]; [|subst kind; right; right; right; left; reflexivity].
  induction tb as [|[k v] tb IH]; [discriminate H|]. cbn [get_fault_handler] in H. inversion Hv; subst.
  destruct (k =? cond); [inversion H; subst; assumption | apply IH; assumption].
Qed.

(* ---------- sender *)
Lemma source_one_fault_callback : forall pkt a b s,
  source_call_post s (fst (state_machine_s pkt s)) /\ source_call_post s (fst (cancel_request_s a b s)).
Proof. intros. split; [apply source_state_machine_post | apply source_cancel_request_post]. Qed.

Lemma sapply_quiet : forall cl s, (match cl with SSm _ | SCancel _ _ => False | _ => True end) ->
  log_s (fst (sapply cl s)) = log_s s.
Proof.
  intros cl s H. destruct cl as [pkt| |p|a b| |ms]; try contradiction; unfold sapply.
  - unfold get_next_packet_s, bind, get, put, ret. destruct (s_queue s); reflexivity.
  - unfold put_request. unfold bind at 1, get at 1.
    destruct (negb (s_state s =? ST_IDLE)); [reflexivity|].
    unfold bind, put, setq, modify, ret, raise.
    destruct (pr_names p) as [[sn dn]|]; [destruct (fs_file_exists (e_fs (s_env s)) sn)|]; cbn [fst snd];
      try reflexivity; destruct (get_remote (l_remotes (s_cfg s)) (pr_dst p)); reflexivity.
  - reflexivity.
  - reflexivity.
Qed.

Lemma source_fault_events_follow_table : forall (cl : scall) (s : src),
  exists new, log_s (fst (sapply cl s)) = new ++ log_s s /\
    (no_fault new \/
     exists kind a b cond prog newer older,
       new = newer ++ EvFault kind a b cond prog :: older /\ no_fault newer /\ (kind <> FH_IGNORE -> newer = []) /\
       no_fault older /\
       q_tid (s_p s) = Some (a, b) /\
       (get_fault_handler (l_faults (s_cfg s)) cond = Some kind \/
        (kind = FH_ABANDON /\ q_cond_eof (s_p s) = Some cond /\ cond <> C_NO_ERROR))).
Proof.
  intros cl s.
  assert (Hp : forall s', source_call_post s s' ->
     exists new, log_s s' = new ++ log_s s /\
    (no_fault new \/
     exists kind a b cond prog newer older,
       new = newer ++ EvFault kind a b cond prog :: older /\ no_fault newer /\ (kind <> FH_IGNORE -> newer = []) /\
       no_fault older /\
       q_tid (s_p s) = Some (a, b) /\
       (get_fault_handler (l_faults (s_cfg s)) cond = Some kind \/
        (kind = FH_ABANDON /\ q_cond_eof (s_p s) = Some cond /\ cond <> C_NO_ERROR)))).
  { intros s' [new [L D]]. exists new. split; [exact L|].
    destruct D as [[N _]|[k [a [b [cond [pr [newer [older [F1 [Fn [Fi [F2 [F3 F4]]]]]]]]]]]]]; [left; exact N | right].
    exists k, a, b, cond, pr, newer, older. split; [exact F1|]. split; [exact Fn|]. split; [exact Fi|].
    split; [exact F2|]. split; [exact F3|].
    destruct F4 as [[T _]|[T1 [T2 [T3 _]]]]; [left; exact T | right; split; [exact T1 | split; [exact T2 | exact T3]]]. }
  assert (Hq : (match cl with SSm _ | SCancel _ _ => False | _ => True end) ->
     exists new, log_s (fst (sapply cl s)) = new ++ log_s s /\
    (no_fault new \/
     exists kind a b cond prog newer older,
       new = newer ++ EvFault kind a b cond prog :: older /\ no_fault newer /\ (kind <> FH_IGNORE -> newer = []) /\
       no_fault older /\
       q_tid (s_p s) = Some (a, b) /\
       (get_fault_handler (l_faults (s_cfg s)) cond = Some kind \/
        (kind = FH_ABANDON /\ q_cond_eof (s_p s) = Some cond /\ cond <> C_NO_ERROR)))).
  { intro H. exists []. split; [apply sapply_quiet; exact H | left; reflexivity]. }
  destruct cl as [pkt| |p|a b| |ms]; try (apply Hq; exact I); unfold sapply.
  - pose proof (source_state_machine_post pkt s) as P. destruct (state_machine_s pkt s). apply Hp. exact P.
  - pose proof (source_cancel_request_post a b s) as P. destruct (cancel_request_s a b s). apply Hp. exact P.
Qed.

(* ================================================================== receiver: the condition of a notice of cancellation
   is what the transaction reports.  Method: Hoare-style specifications ([postx] of IsolationProofs) function by function,
   following the control flow (which sections run depends on the step a fault leaves), over a relation [RRk] / [RRl]
   between two points of a call: the events in between, read as a mode automaton (the condition of the newest cancel
   callback), every Transaction-Finished reporting the mode, and the state being cancelled with the mode (or, on the
   completion path, reset).  A checksum verification is only reached while no cancel callback has been delivered in the
   call (F35 repair: the deferred procedure leaves a cancelled transaction alone), so nothing overwrites the condition.  Stretches that neither declare nor complete are dealt with wholesale through the predicate
   [Gate] of IndicationProofs (NG / NGS). *)
(* ------------------------------------------------------------------ vocabulary of the cancel theorem *)
Definition is_cancel (e : event) : bool := match e with EvFault k _ _ _ _ => k =? FH_CANCEL | _ => false end.
Definition is_finished (e : event) : bool := match e with EvFinished _ _ _ _ _ _ => true | _ => false end.
(* the transaction is being cancelled with condition c (since the F35 repair no verification overwrites it) *)
Definition cancelling (c : Z) (s : dst) : Prop :=
  p_disp (d_p s) = DISP_CANCELED /\ f_cond (p_fin (d_p s)) = c.
Definition dfresh (s : dst) : Prop := d_state s = ST_IDLE /\ d_step s = DS_IDLE /\ d_p s = fresh_params.
(* the condition of the newest cancel callback among the events (newest first); m0 if there is none *)
Fixpoint mode_after (m0 : option Z) (new : list event) : option Z :=
  match new with
  | [] => m0
  | EvFault k _ _ c _ :: older => if k =? FH_CANCEL then Some c else mode_after m0 older
  | _ :: older => mode_after m0 older
  end.
(* every Transaction-Finished reports the condition of the newest cancel callback before it *)
Fixpoint fins_ok (m0 : option Z) (new : list event) : Prop :=
  match new with
  | [] => True
  | e :: older =>
      fins_ok m0 older /\
      match e with
      | EvFinished _ _ cd _ _ _ => match mode_after m0 older with Some c => cd = c | None => True end
      | _ => True
      end
  end.

Lemma mode_after_app : forall m0 n2 n1, mode_after m0 (n2 ++ n1) = mode_after (mode_after m0 n1) n2.
Proof.
  intros m0 n2 n1. induction n2 as [|e n2 IH]; [reflexivity|].
  cbn [app mode_after]. destruct e; try exact IH. destruct (kind =? FH_CANCEL); [reflexivity | exact IH].
Qed.

Lemma fins_ok_app : forall m0 n2 n1, fins_ok m0 n1 -> fins_ok (mode_after m0 n1) n2 -> fins_ok m0 (n2 ++ n1).
Proof.
  intros m0 n2 n1 H1. induction n2 as [|e n2 IH]; intro H2; [exact H1|].
  cbn [app fins_ok] in *. destruct H2 as [H2 H3]. split; [apply IH; exact H2|].
  rewrite mode_after_app. exact H3.
Qed.

Definition quiet_ev (e : event) : bool := negb (is_cancel e) && negb (is_finished e).

Lemma quiet_mode : forall m0 new, forallb quiet_ev new = true -> mode_after m0 new = m0.
Proof.
  intros m0 new. induction new as [|e new IH]; intro H; [reflexivity|].
  cbn [forallb] in H. apply andb_true_iff in H. destruct H as [He H]. cbn [mode_after].
  destruct e; try (apply IH; exact H). unfold quiet_ev in He. cbn in He.
  destruct (kind =? FH_CANCEL); [discriminate He | apply IH; exact H].
Qed.

Lemma quiet_fins : forall m0 new, forallb quiet_ev new = true -> fins_ok m0 new.
Proof.
  intros m0 new. induction new as [|e new IH]; intro H; [exact I|].
  cbn [forallb] in H. apply andb_true_iff in H. destruct H as [He H]. cbn [fins_ok]. split; [apply IH; exact H|].
  destruct e; try exact I. unfold quiet_ev in He. cbn in He. discriminate He.
Qed.

(* ------------------------------------------------------------------ the relation between two points of a call *)
Definition trip (s : dst) : Z * Z := (p_disp (d_p s), f_cond (p_fin (d_p s))).
Definition mk (m : option Z) (s : dst) : Prop := forall c, m = Some c -> cancelling c s.
Definition ml (m : option Z) (s : dst) : Prop := forall c, m = Some c -> cancelling c s \/ dfresh s.
Definition RRk (m0 : option Z) (s : dst) (m1 : option Z) (s' : dst) : Prop :=
  exists new, log_d s' = new ++ log_d s /\ fins_ok m0 new /\ m1 = mode_after m0 new /\ mk m1 s'.
Definition RRl (m0 : option Z) (s : dst) (m1 : option Z) (s' : dst) : Prop :=
  exists new, log_d s' = new ++ log_d s /\ fins_ok m0 new /\ m1 = mode_after m0 new /\ ml m1 s'.
(* a stretch without cancel callback and Transaction-Finished that leaves disposition and condition code alone *)
Definition nq (s s' : dst) : Prop :=
  exists new, log_d s' = new ++ log_d s /\ forallb quiet_ev new = true /\ trip s' = trip s.

Lemma mk_ml : forall m s, mk m s -> ml m s.
Proof. intros m s H c E. left. apply H, E. Qed.
Lemma mk_trip : forall m s s', trip s' = trip s -> mk m s -> mk m s'.
Proof.
  intros m s s' T H c E. specialize (H c E). unfold cancelling, trip in *. injection T as T1 T2.
  rewrite T1, T2. exact H.
Qed.
Lemma rrk_l : forall m0 s m1 s', RRk m0 s m1 s' -> RRl m0 s m1 s'.
Proof. intros m0 s m1 s' [n [L [F [M K]]]]. exists n. split; [exact L|]. split; [exact F|]. split; [exact M | apply mk_ml, K]. Qed.
Lemma rrk_refl : forall m0 s, mk m0 s -> RRk m0 s m0 s.
Proof. intros m0 s H. exists []. split; [reflexivity|]. split; [exact I|]. split; [reflexivity | exact H]. Qed.
Lemma rrk_trans : forall m0 s m1 s1 m2 s2, RRk m0 s m1 s1 -> RRk m1 s1 m2 s2 -> RRk m0 s m2 s2.
Proof.
  intros m0 s m1 s1 m2 s2 [n1 [L1 [F1 [M1 K1]]]] [n2 [L2 [F2 [M2 K2]]]]. exists (n2 ++ n1).
  split; [rewrite L2, L1; apply app_assoc|]. subst m1.
  split; [apply fins_ok_app; assumption|]. split; [rewrite mode_after_app; exact M2 | exact K2].
Qed.
Lemma rrl_trans : forall m0 s m1 s1 m2 s2, RRk m0 s m1 s1 -> RRl m1 s1 m2 s2 -> RRl m0 s m2 s2.
Proof.
  intros m0 s m1 s1 m2 s2 [n1 [L1 [F1 [M1 K1]]]] [n2 [L2 [F2 [M2 K2]]]]. exists (n2 ++ n1).
  split; [rewrite L2, L1; apply app_assoc|]. subst m1.
  split; [apply fins_ok_app; assumption|]. split; [rewrite mode_after_app; exact M2 | exact K2].
Qed.
Lemma nq_rrk : forall m0 s s', nq s s' -> mk m0 s -> RRk m0 s m0 s'.
Proof.
  intros m0 s s' [n [L [Q T]]] H. exists n. split; [exact L|]. split; [apply quiet_fins, Q|].
  split; [symmetry; apply quiet_mode, Q | eapply mk_trip; eassumption].
Qed.
Lemma nq_refl : forall s, nq s s.
Proof. intro s. exists []. split; [reflexivity|]. split; reflexivity. Qed.
Lemma nq_trans : forall s1 s2 s3, nq s1 s2 -> nq s2 s3 -> nq s1 s3.
Proof.
  intros s1 s2 s3 [n1 [L1 [Q1 T1]]] [n2 [L2 [Q2 T2]]]. exists (n2 ++ n1).
  split; [rewrite L2, L1; apply app_assoc|]. split; [rewrite forallb_app, Q2, Q1; reflexivity | congruence].
Qed.

(* post-conditions: on a normal return the state is strictly in the mode (not reset); on an exception it is, unless the
   exception is the unwinding code of an abandonment *)
Definition QK {A} (m0 : option Z) (s : dst) (F : A -> option Z -> dst -> Prop) : A -> dst -> Prop :=
  fun a s' => exists m1, RRk m0 s m1 s' /\ F a m1 s'.
Definition EK (m0 : option Z) (s : dst) : Z -> dst -> Prop :=
  fun e s' => exists m1, if e =? E_ABANDONED then RRl m0 s m1 s' else RRk m0 s m1 s'.

Lemma ek_of_rrk : forall m0 s m1 s' e, RRk m0 s m1 s' -> EK m0 s e s'.
Proof. intros m0 s m1 s' e H. exists m1. destruct (e =? E_ABANDONED); [apply rrk_l, H | exact H]. Qed.

(* re-basing a specification at a later point of the call *)
Lemma qk_shift {A} (m0 : option Z) s m1 s1 (F : A -> option Z -> dst -> Prop) x :
  RRk m0 s m1 s1 -> postx (QK m1 s1 F) (EK m1 s1) x -> postx (QK m0 s F) (EK m0 s) x.
Proof.
  intros R. unfold postx. destruct x as [s2 [a|e]].
  - intros [m2 [R2 F2]]. exists m2. split; [eapply rrk_trans; eassumption | exact F2].
  - intros [m2 R2]. exists m2. destruct (e =? E_ABANDONED); [eapply rrl_trans | eapply rrk_trans]; eassumption.
Qed.

(* neutral computations, through the predicate Gate of IndicationProofs *)
Definition NG {A} (m : D A) : Prop := forall c3, Gate log_d trip (fun _ e => quiet_ev e) c3 m.

Lemma ng_nq {A} (m : D A) s : NG m -> nq s (fst (m s)).
Proof. intro H. destruct (H (trip s) s eq_refl) as [n [L [Q T]]]. exists n. split; [exact L|]. split; assumption. Qed.

(* a neutral step followed by the rest *)
Lemma nbind {A B} (m : D A) (k : A -> D B) m0 s (F : B -> option Z -> dst -> Prop) :
  NG m -> mk m0 s ->
  (forall a s1, nq s s1 -> mk m0 s1 -> postx (QK m0 s1 F) (EK m0 s1) (k a s1)) ->
  postx (QK m0 s F) (EK m0 s) (bind m k s).
Proof.
  intros Hm Hk Hr. pose proof (ng_nq m s Hm) as N. unfold bind. destruct (m s) as [s1 [a|e]]; cbn [fst] in N.
  - eapply qk_shift; [apply nq_rrk; eassumption|]. apply Hr; [exact N|]. destruct N as [n [_ [_ T]]]. eapply mk_trip; eassumption.
  - unfold postx. eapply ek_of_rrk. apply nq_rrk; eassumption.
Qed.

Lemma nlast {A} (m : D A) m0 s (F : A -> option Z -> dst -> Prop) :
  NG m -> mk m0 s -> (forall a s1, nq s s1 -> F a m0 s1) -> postx (QK m0 s F) (EK m0 s) (m s).
Proof.
  intros Hm Hk HF. pose proof (ng_nq m s Hm) as N. unfold postx. destruct (m s) as [s1 [a|e]]; cbn [fst] in N.
  - exists m0. split; [apply nq_rrk; assumption | apply HF; exact N].
  - eapply ek_of_rrk. apply nq_rrk; eassumption.
Qed.

(* ------------------------------------------------------------------ the specifications, function by function *)
Definition trip4 (s : dst) : Z * Z * Z := (p_disp (d_p s), f_cond (p_fin (d_p s)), d_step s).
(* neutral and the step stays *)
Definition NGS {A} (m : D A) : Prop := forall c4, Gate log_d trip4 (fun _ e => quiet_ev e) c4 m.
Definition nqs (s s' : dst) : Prop := nq s s' /\ d_step s' = d_step s.

Lemma ngs_nqs {A} (m : D A) s : NGS m -> nqs s (fst (m s)).
Proof.
  intro H. destruct (H (trip4 s) s eq_refl) as [n [L [Q T]]]. unfold trip4 in T. injection T as T1 T2 T4.
  split; [|exact T4]. exists n. split; [exact L|]. split; [exact Q|]. unfold trip. congruence.
Qed.
Lemma ngs_ng {A} (m : D A) : NGS m -> NG m.
Proof.
  intros H c3 s Hc. destruct (ngs_nqs m s H) as [[n [L [Q T]]] _]. exists n. split; [exact L|]. split; [exact Q | congruence].
Qed.

Lemma nsbind {A B} (m : D A) (k : A -> D B) m0 s (F : B -> option Z -> dst -> Prop) :
  NGS m -> mk m0 s ->
  (forall a s1, nq s s1 -> d_step s1 = d_step s -> mk m0 s1 -> postx (QK m0 s1 F) (EK m0 s1) (k a s1)) ->
  postx (QK m0 s F) (EK m0 s) (bind m k s).
Proof.
  intros Hm Hk Hr. pose proof (ngs_nqs m s Hm) as [N St]. unfold bind. destruct (m s) as [s1 [a|e]]; cbn [fst] in N, St.
  - eapply qk_shift; [apply nq_rrk; eassumption|]. apply Hr; [exact N | exact St |]. destruct N as [n [_ [_ T]]]. eapply mk_trip; eassumption.
  - unfold postx. eapply ek_of_rrk. apply nq_rrk; eassumption.
Qed.

Lemma nslast {A} (m : D A) m0 s (F : A -> option Z -> dst -> Prop) :
  NGS m -> mk m0 s -> (forall a s1, nq s s1 -> d_step s1 = d_step s -> F a m0 s1) -> postx (QK m0 s F) (EK m0 s) (m s).
Proof.
  intros Hm Hk HF. pose proof (ngs_nqs m s Hm) as [N St]. unfold postx. destruct (m s) as [s1 [a|e]]; cbn [fst] in N, St.
  - exists m0. split; [apply nq_rrk; assumption | apply HF; assumption].
  - eapply ek_of_rrk. apply nq_rrk; eassumption.
Qed.

Lemma mk_none : forall s, mk None s.
Proof. intros s c E. discriminate E. Qed.
(* a transaction that is not cancelled has seen no cancel callback *)
Lemma mk_disp : forall m s, mk m s -> p_disp (d_p s) <> DISP_CANCELED -> m = None.
Proof. intros [c|] s H N; [|reflexivity]. destruct (H c eq_refl) as [X _]. contradiction. Qed.

Lemma k_declare_fault : forall cond m0 s, mk m0 s ->
  postx (QK m0 s (fun fh m1 s' =>
           get_fault_handler (l_faults (d_cfg s)) cond = Some fh /\
           d_state s' = d_state s /\ d_cfg s' = d_cfg s /\ fh <> FH_ABANDON /\
           ((fh = FH_CANCEL /\ m1 = Some cond /\ d_step s' = DS_TRANSFER_COMPLETION) \/
            (fh <> FH_CANCEL /\ m1 = m0 /\ d_step s' = d_step s /\ trip s' = trip s))))
        (EK m0 s) (declare_fault cond s).
Proof.
  intros cond m0 s Hk. unfold declare_fault. mrun.
  destruct (p_tid (d_p s)) as [[a b]|]; [|eapply ek_of_rrk, rrk_refl, Hk].
  destruct (get_fault_handler (l_faults (d_cfg s)) cond) as [fh|] eqn:Ft; [|eapply ek_of_rrk, rrk_refl, Hk].
  destruct (fh =? FH_CANCEL) eqn:E1; [|destruct (fh =? FH_ABANDON) eqn:E2].
  - assert (fh = FH_CANCEL) as -> by (apply Z.eqb_eq; exact E1).
    unfold notice_of_cancellation. mrun. change (FH_CANCEL =? FH_ABANDON) with false. cbv iota. mfin.
    exists (Some cond). split.
    + exists [EvFault FH_CANCEL a b cond (p_progress (d_p s))]. split; [reflexivity|]. split; [cbn; auto|].
      split; [reflexivity|]. intros c E. inversion E; subst c. split; reflexivity.
    + split; [reflexivity|]. split; [reflexivity|]. split; [reflexivity|]. split; [discriminate|]. left. repeat split; reflexivity.
  - assert (fh = FH_ABANDON) as -> by (apply Z.eqb_eq; exact E2). mrun. mfin.
    exists m0. change (E_ABANDONED =? E_ABANDONED) with true. cbv iota.
    exists [EvFault FH_ABANDON a b cond (p_progress (d_p s))]. split; [reflexivity|]. split; [cbn; auto|].
    split; [reflexivity|]. intros c E. right. repeat split; reflexivity.
  - mrun. mfin. exists m0. split.
    + exists [EvFault fh a b cond (p_progress (d_p s))]. split; [reflexivity|]. split; [cbn; auto|].
      split; [cbn [mode_after]; rewrite E1; reflexivity|]. eapply mk_trip; [|exact Hk]. reflexivity.
    + split; [reflexivity|]. split; [reflexivity|]. split; [reflexivity|]. split; [intro X; subst fh; discriminate E2|].
      right. split; [intro X; subst fh; discriminate E1|]. repeat split; reflexivity.
Qed.

Ltac ngs := let c4 := fresh in intro c4; gate.
Ltac ng := let c3 := fresh in intro c3; gate.

Lemma ngs_vfs_checksum : forall ty n sz, NGS (vfs_checksum ty n sz).
Proof. intros. ngs. Qed.

(* a successful verification of a cancelled transaction overwrites condition and delivery code *)
Lemma k_ret {A} (a : A) m0 s (F : A -> option Z -> dst -> Prop) : mk m0 s -> F a m0 s -> postx (QK m0 s F) (EK m0 s) (ret a s).
Proof. intros H HF. exists m0. split; [apply rrk_refl, H | exact HF]. Qed.
Lemma k_raise {A} e m0 s (F : A -> option Z -> dst -> Prop) : mk m0 s -> postx (QK m0 s F) (EK m0 s) (@raise dst A e s).
Proof. intros H. eapply ek_of_rrk, rrk_refl, H. Qed.

(* a call in the middle *)
Lemma kbind {A B} (m : D A) (k : A -> D B) m0 s (F1 : A -> option Z -> dst -> Prop) (F : B -> option Z -> dst -> Prop) :
  postx (QK m0 s F1) (EK m0 s) (m s) ->
  (forall a m1 s1, mk m1 s1 -> F1 a m1 s1 -> postx (QK m1 s1 F) (EK m1 s1) (k a s1)) ->
  postx (QK m0 s F) (EK m0 s) (bind m k s).
Proof.
  intros Hm Hk. eapply postx_bind; [exact Hm | intros e s' H; exact H |].
  intros a s1 [m1 [R1 F1a]]. eapply qk_shift; [exact R1|]. apply Hk; [|exact F1a].
  destruct R1 as [n [_ [_ [_ K]]]]. exact K.
Qed.

Lemma ft_postx_weaken {S A} (Q1 Q : A -> S -> Prop) (E1 E : Z -> S -> Prop) x :
  postx Q1 E1 x -> (forall a s', Q1 a s' -> Q a s') -> (forall e s', E1 e s' -> E e s') -> postx Q E x.
Proof. unfold postx. destruct x as [s1 [a|e]]; intros H HQ HE; [apply HQ | apply HE]; exact H. Qed.

Lemma k_weaken {A} m0 s (F F' : A -> option Z -> dst -> Prop) x :
  postx (QK m0 s F) (EK m0 s) x -> (forall a m1 s', F a m1 s' -> F' a m1 s') -> postx (QK m0 s F') (EK m0 s) x.
Proof.
  intros H HF. eapply ft_postx_weaken; [exact H | | intros e s' X; exact X].
  intros a s' [m1 [R Fa]]. exists m1. split; [exact R | apply HF, Fa].
Qed.

Definition DFF (cond : Z) (m0 : option Z) (s : dst) : Z -> option Z -> dst -> Prop :=
  fun fh m1 s' =>
    get_fault_handler (l_faults (d_cfg s)) cond = Some fh /\
    d_state s' = d_state s /\ d_cfg s' = d_cfg s /\ fh <> FH_ABANDON /\
    ((fh = FH_CANCEL /\ m1 = Some cond /\ d_step s' = DS_TRANSFER_COMPLETION) \/
     (fh <> FH_CANCEL /\ m1 = m0 /\ d_step s' = d_step s /\ trip s' = trip s)).

Lemma kbind_df {B} cond (k : Z -> D B) m0 s (F : B -> option Z -> dst -> Prop) :
  mk m0 s ->
  (forall fh m1 s1, mk m1 s1 -> DFF cond m0 s fh m1 s1 -> postx (QK m1 s1 F) (EK m1 s1) (k fh s1)) ->
  postx (QK m0 s F) (EK m0 s) (bind (declare_fault cond) k s).
Proof. intros K H. eapply kbind; [apply k_declare_fault; exact K | exact H]. Qed.

(* the step after a computation: unchanged with the mode, or the completion step *)
Definition FSF (m0 : option Z) (s : dst) : unit -> option Z -> dst -> Prop :=
  fun _ m1 s' => (m1 = m0 /\ d_step s' = d_step s) \/ d_step s' = DS_TRANSFER_COMPLETION.
Definition FWF (m0 : option Z) : unit -> option Z -> dst -> Prop :=
  fun _ m1 s' => m1 = m0 \/ d_step s' = DS_TRANSFER_COMPLETION.
(* the same, and the step is kept unless it was the step of the EOF ACK *)
Definition FWA (m0 : option Z) (s : dst) : unit -> option Z -> dst -> Prop :=
  fun _ m1 s' => (m1 = m0 /\ (d_step s <> DS_SENDING_EOF_ACK -> d_step s' = d_step s)) \/ d_step s' = DS_TRANSFER_COMPLETION.

(* no cancel callback so far, or the completion step *)
Definition FWN {A} : A -> option Z -> dst -> Prop := fun _ m1 s' => m1 = None \/ d_step s' = DS_TRANSFER_COMPLETION.

(* which exceptions the filestore handler of handle_fd_pdu catches *)
Definition NotFs (e : Z) : Prop := ((e =? E_FILE_NOT_FOUND) || (e =? E_PERMISSION)) = false.

Lemma postx_and_exn {S T A} (delta : S -> T) (C : Z -> Prop) (m : M S A) s (Q : A -> S -> Prop) (E : Z -> S -> Prop) :
  postx Q E (m s) -> MInv delta C m -> postx Q (fun e s' => E e s' /\ C e) (m s).
Proof.
  intros H Hm. destruct (Hm s) as [_ H2]. unfold postx in *. destruct (m s) as [s1 [a|e]]; [exact H|].
  split; [exact H | apply H2; reflexivity].
Qed.

Definition FT {A} : A -> option Z -> dst -> Prop := fun _ _ _ => True.

(* a verification is only made while no cancel callback has been delivered in the call.  After it: no callback and the
   step as before, or (verification failed, the fault cancelled) the completion step and the table says cancel *)
Definition FCV (s : dst) : bool -> option Z -> dst -> Prop :=
  fun ok m1 s' => (m1 = None /\ d_step s' = d_step s) \/
                  (ok = false /\ d_step s' = DS_TRANSFER_COMPLETION /\
                   get_fault_handler (l_faults (d_cfg s')) C_CHECKSUM_FAILURE = Some FH_CANCEL).

Lemma rrk_none : forall s s1, log_d s1 = log_d s -> RRk None s None s1.
Proof. intros s s1 L. exists []. split; [exact L|]. split; [exact I|]. split; [reflexivity | apply mk_none]. Qed.

Lemma k_checksum_verify : forall s, postx (QK None s (FCV s)) (EK None s) (checksum_verify s).
Proof.
  intros s. pose proof (mk_none s) as Hk. unfold checksum_verify. mrun.
  assert (Hyes : postx (QK None s (FCV s)) (EK None s)
            ((when true (setp (fun p => p <| p_fin ::= (fun f => f <| f_deliv := DATA_COMPLETE |> <| f_cond := C_NO_ERROR |>) |>)) ;;; ret true) s)).
  { unfold when; cbv iota. mrun. mfin. exists None. split; [apply rrk_none; reflexivity | left; split; reflexivity]. }
  destruct ((p_cktype (d_p s) =? CK_NULL) || p_md_only (d_p s)); [mrun; exact Hyes|].
  rewrite bind_assoc. apply nsbind; [apply ngs_vfs_checksum | exact Hk|].
  intros crc s1 N1 St1 K1.
  destruct (bytes_eqb crc (p_crc32 (d_p s)) && _).
  - mrun. unfold when; cbv iota. mrun. mfin. exists None. split; [apply rrk_none; reflexivity | left; split; [reflexivity | exact St1]].
  - rewrite bind_assoc. apply kbind_df; [exact K1|].
    intros fh m1 s2 K2 D2. mrun. unfold when; cbv iota. mrun. apply k_ret; [exact K2|].
    destruct D2 as [Ft [_ [Cf [_ [[Ec [_ D2]]|[_ [D2 [D3 _]]]]]]]].
    + right. split; [reflexivity|]. split; [exact D2|]. rewrite Cf, <- Ec. exact Ft.
    + left. split; [exact D2 | congruence].
Qed.

Lemma k_rebase {A} m0 s s1 (F : A -> option Z -> dst -> Prop) x :
  nq s s1 -> mk m0 s -> (mk m0 s1 -> postx (QK m0 s1 F) (EK m0 s1) x) -> postx (QK m0 s F) (EK m0 s) x.
Proof.
  intros N K H. eapply qk_shift; [apply nq_rrk; eassumption|]. apply H.
  destruct N as [n [_ [_ T]]]. eapply mk_trip; eassumption.
Qed.
(* the state was modified in place by fields the relation does not look at *)
Ltac nq0 := exists []; split; [reflexivity | split; reflexivity].
Ltac rebase :=
  match goal with |- postx (QK ?m0 ?s _) (EK ?m0 ?s) (_ ?st) =>
    apply (k_rebase m0 s st); [nq0 | assumption | let K := fresh "K" in intro K] end.
Tactic Notation "rebase" "as" ident(K) :=
  match goal with |- postx (QK ?m0 ?s _) (EK ?m0 ?s) (_ ?st) =>
    apply (k_rebase m0 s st); [nq0 | assumption | intro K] end.
(* a normal return after such modifications *)
Ltac kok := match goal with
  | |- exists m1, RRk ?m0 ?s m1 ?st /\ _ => exists m0; split; [apply nq_rrk; [nq0 | assumption] | ]
  | |- QK ?m0 ?s _ _ ?st => exists m0; split; [apply nq_rrk; [nq0 | assumption] | ]
  end.

Lemma ngs_lost_segment_handling : forall o l, NGS (lost_segment_handling o l).
Proof. intros. ngs. Qed.
Lemma ngs_vfs_write : forall n d o, NGS (vfs_write n d o).
Proof. intros. ngs. Qed.

Lemma k_filestore_rejection : forall m0 s, mk m0 s -> postx (QK m0 s (FSF m0 s)) (EK m0 s) (filestore_rejection s).
Proof.
  intros m0 s Hk. unfold filestore_rejection. mrun.
  destruct (negb (f_fstatus (p_fin (d_p s)) =? FS_RETAINED)); unfold when; cbv iota; [|apply k_ret; [exact Hk | left; split; reflexivity]].
  mrun. rebase. apply kbind_df; [exact K|].
  intros fh m1 s1 K1 D1. apply k_ret; [exact K1|].
  destruct D1 as [_ [_ [_ [_ [[_ [_ D1]]|[_ [D1 [D2 _]]]]]]]]; [right; exact D1 | left; split; [exact D1 | exact D2]].
Qed.

Lemma ncatch {A B} (m : D A) (k : A -> D B) (h : Z -> option (D B)) m0 s (F : B -> option Z -> dst -> Prop) :
  NGS m -> mk m0 s ->
  (forall e kk s1, h e = Some kk -> nq s s1 -> d_step s1 = d_step s -> mk m0 s1 -> postx (QK m0 s1 F) (EK m0 s1) (kk s1)) ->
  (forall a s1, nq s s1 -> d_step s1 = d_step s -> mk m0 s1 -> postx (QK m0 s1 F) (EK m0 s1) (catch (k a) h s1)) ->
  postx (QK m0 s F) (EK m0 s) (catch (bind m k) h s).
Proof.
  intros Hm Hk Hh Hr. pose proof (ngs_nqs m s Hm) as [N St].
  assert (K1 : mk m0 (fst (m s))) by (destruct N as [n [_ [_ T]]]; eapply mk_trip; eassumption).
  unfold catch at 1, bind at 1. destruct (m s) as [s1 [a|e]] eqn:Em; cbn [fst] in N, St, K1.
  - eapply qk_shift; [apply nq_rrk; eassumption|]. specialize (Hr a s1 N St K1). unfold catch in Hr. exact Hr.
  - destruct (h e) as [kk|] eqn:Eh.
    + eapply qk_shift; [apply nq_rrk; eassumption|]. eapply Hh; eassumption.
    + unfold postx. eapply ek_of_rrk. apply nq_rrk; eassumption.
Qed.

Lemma k_handle_fd_pdu : forall o d m0 s, mk m0 s -> postx (QK m0 s (FSF m0 s)) (EK m0 s) (handle_fd_pdu o d s).
Proof.
  intros o d m0 s Hk. rewrite handle_fd_pdu_eq. mrun.
  apply nsbind; [ngs | exact Hk|]. intros u s1 N1 St1 K1. unfold fd_tail.
  assert (Hrej : forall s2, d_step s2 = d_step s -> mk m0 s2 -> postx (QK m0 s2 (FSF m0 s)) (EK m0 s2) (filestore_rejection s2)).
  { intros s2 St2 K2. eapply k_weaken; [apply k_filestore_rejection; exact K2|].
    intros a m1 s' [[X Y]|X]; [left; split; [exact X | congruence] | right; exact X]. }
  assert (Hh : forall e kk s2, (if (e =? E_FILE_NOT_FOUND) || (e =? E_PERMISSION) then Some filestore_rejection else None) = Some kk ->
                d_step s2 = d_step s -> mk m0 s2 -> postx (QK m0 s2 (FSF m0 s)) (EK m0 s2) (kk s2)).
  { intros e kk s2 Hh St2 K2. destruct ((e =? E_FILE_NOT_FOUND) || (e =? E_PERMISSION)); [|discriminate Hh].
    inversion Hh; subst kk. apply Hrej; assumption. }
  cbv zeta.
  apply ncatch; [ngs | exact K1 | |].
  { intros e kk s2 Hhe N2 St2 K2. eapply Hh; [exact Hhe | congruence | exact K2]. }
  intros acked sa Na Sta Ka.
  apply ncatch; [destruct acked; [apply ngs_lost_segment_handling | ngs] | exact Ka | |].
  { intros e kk s2 Hhe N2 St2 K2. eapply Hh; [exact Hhe | congruence | exact K2]. }
  intros u2 s2 N2 St2 K2.
  apply ncatch; [ngs | exact K2 | |].
  { intros e kk s3 Hhe N3 St3 K3. eapply Hh; [exact Hhe | congruence | exact K3]. }
  intros name sb Nb Stb Kb.
  apply ncatch; [apply ngs_vfs_write | exact Kb | |].
  { intros e kk s3 Hhe N3 St3 K3. eapply Hh; [exact Hhe | congruence | exact K3]. }
  intros u3 s3 N3 St3 K3.
  assert (S3 : d_step s3 = d_step s) by congruence.
  apply postx_catch with (E1 := fun e s' => EK m0 s3 e s' /\ NotFs e).
  - eapply postx_and_exn with (delta := @nothing dst); [|minv].
    mrun. rebase.
    match goal with |- context [match ?x with Some _ => _ | None => _ end] => destruct x as [sz|] end;
      [destruct (sz <? o + zlen d)|].
    + try rewrite bind_assoc. apply kbind_df; [exact K|].
      intros fh m1 s4 K4 D4. mrun.
      assert (W : FSF m0 s tt m1 s4).
      { destruct D4 as [_ [_ [_ [_ [[_ [_ D4]]|[_ [D4 [D5 _]]]]]]]]; [right; exact D4 | left; split; [exact D4 | cbn in D5; congruence]]. }
      destruct (negb (fh =? FH_IGNORE)); [apply k_ret; [exact K4 | exact W]|].
      mfin. kok. destruct W as [[X Y]|X]; [left; split; [exact X | exact Y] | right; exact X].
    + mrun. mfin. kok. left. split; [reflexivity | exact S3].
    + mrun. mfin. kok. left. split; [reflexivity | exact S3].
  - intros e k s' Hhe [_ HE]. unfold NotFs in HE. rewrite HE in Hhe. discriminate Hhe.
  - intros e s' _ [H _]. exact H.
Qed.

Lemma rrk_silent : forall m0 s s1, log_d s1 = log_d s -> mk m0 s1 -> RRk m0 s m0 s1.
Proof. intros m0 s s1 L K. exists []. split; [exact L|]. split; [exact I|]. split; [reflexivity | exact K]. Qed.

Lemma ng_start_check_limit_handling : NG start_check_limit_handling.
Proof. ng. Qed.
Lemma ng_ftct : NG file_transfer_complete_transition.
Proof. ng. Qed.
Lemma ngs_tracker_add : forall sg, NGS (tracker_add sg).
Proof. intro. ngs. Qed.

(* the regular EOF: after it no cancel callback has been delivered, or the answer is "not regular" in the completion step *)
Definition FNE : bool -> option Z -> dst -> Prop :=
  fun regular m1 s' => m1 = None \/ (regular = false /\ d_step s' = DS_TRANSFER_COMPLETION).

Lemma k_handle_no_error_eof : forall s, postx (QK None s FNE) (EK None s) (handle_no_error_eof s).
Proof.
  intros s. pose proof (mk_none s) as Hk. unfold handle_no_error_eof. mrun.
  set (acked := if d_state s =? ST_IDLE then false else h_mode (p_conf (d_p s)) =? ACKED).
  set (unacked := if d_state s =? ST_IDLE then false else h_mode (p_conf (d_p s)) =? UNACKED).
  eapply kbind with (F1 := fun (early : bool) m1 s1 => m1 = None \/ (early = true /\ d_step s1 = DS_TRANSFER_COMPLETION)).
  { destruct (opt_z (p_file_size_eof (d_p s)) <? p_progress (d_p s)).
    - apply kbind_df; [exact Hk|]. intros fh m1 s1 K1 D1. apply k_ret; [exact K1|].
      destruct D1 as [_ [_ [_ [_ [[Ef [_ D1]]|[_ [D1 _]]]]]]]; [right; subst fh; split; [reflexivity | exact D1] | left; exact D1].
    - destruct ((p_progress (d_p s) <? opt_z (p_file_size_eof (d_p s))) && acked).
      + apply nsbind; [apply ngs_tracker_add | exact Hk|]. intros u s1 N1 St1 K1. apply k_ret; [exact K1 | left; reflexivity].
      + apply k_ret; [exact Hk | left; reflexivity]. }
  intros early m1 s1 K1 W1. destruct early.
  { apply k_ret; [exact K1|]. destruct W1 as [X|[_ X]]; [left; exact X | right; split; [reflexivity | exact X]]. }
  destruct W1 as [X|[X _]]; [subst m1 | discriminate X].
  destruct unacked; [|apply k_ret; [exact K1 | left; reflexivity]].
  eapply kbind; [apply k_checksum_verify|].
  intros ok m2 s2 K2 C2. destruct ok; [apply k_ret; [exact K2|]; destruct C2 as [[X _]|[X _]]; [left; exact X | discriminate X]|]. mrun.
  destruct C2 as [[X _]|[_ [St Tb]]].
  - subst m2. destruct (get_fault_handler (l_faults (d_cfg s2)) C_CHECKSUM_FAILURE) as [fh|]; [|apply k_ret; [exact K2 | left; reflexivity]].
    destruct (fh =? FH_IGNORE); [|apply k_ret; [exact K2 | left; reflexivity]].
    apply nbind; [apply ng_start_check_limit_handling | exact K2|]. intros u s3 N3 K3. apply k_ret; [exact K3 | left; reflexivity].
  - rewrite Tb. change (FH_CANCEL =? FH_IGNORE) with false. cbv iota. apply k_ret; [exact K2 | right; split; [reflexivity | exact St]].
Qed.

Lemma k_handle_eof_pdu : forall cond ck sz s, postx (QK None s FWN) (EK None s) (handle_eof_pdu cond ck sz s).
Proof.
  intros cond ck sz s. pose proof (mk_none s) as Hk. unfold handle_eof_pdu. mrun. rebase.
  apply nsbind; [ngs | exact K|]. intros u s1 N1 St1 K1.
  destruct (cond =? C_NO_ERROR) eqn:Ec.
  - eapply kbind; [apply k_handle_no_error_eof|].
    intros regular m1 s2 K2 F2. destruct regular.
    + destruct F2 as [X|[X _]]; [subst m1 | discriminate X].
      apply nlast; [apply ng_ftct | exact K2 | intros a s3 N3; left; reflexivity].
    + apply k_ret; [exact K2|]. destruct F2 as [X|[_ X]]; [left; exact X | right; exact X].
  - mrun. destruct (p_rcfg (d_p s1)) as [r|]; [|apply k_raise; exact K1]. mrun.
    match goal with |- postx _ _ (_ ?st) => apply (qk_shift None s1 None st); [apply rrk_none; reflexivity|] end.
    apply nlast; [apply ng_ftct | apply mk_none | intros a s3 N3; left; reflexivity].
Qed.

Lemma ncatch_last {A} (m : D A) (h : Z -> option (D A)) m0 s (F : A -> option Z -> dst -> Prop) :
  NGS m -> mk m0 s ->
  (forall e kk s1, h e = Some kk -> nq s s1 -> d_step s1 = d_step s -> mk m0 s1 -> postx (QK m0 s1 F) (EK m0 s1) (kk s1)) ->
  (forall a s1, nq s s1 -> d_step s1 = d_step s -> F a m0 s1) ->
  postx (QK m0 s F) (EK m0 s) (catch m h s).
Proof.
  intros Hm Hk Hh Hr. pose proof (ngs_nqs m s Hm) as [N St].
  assert (K1 : mk m0 (fst (m s))) by (destruct N as [n [_ [_ T]]]; eapply mk_trip; eassumption).
  unfold catch at 1. destruct (m s) as [s1 [a|e]] eqn:Em; cbn [fst] in N, St, K1.
  - exists m0. split; [apply nq_rrk; assumption | apply Hr; assumption].
  - destruct (h e) as [kk|] eqn:Eh.
    + eapply qk_shift; [apply nq_rrk; eassumption|]. eapply Hh; eassumption.
    + unfold postx. eapply ek_of_rrk. apply nq_rrk; eassumption.
Qed.

Lemma k_init_vfs_handling : forall b m0 s, mk m0 s -> postx (QK m0 s (FSF m0 s)) (EK m0 s) (init_vfs_handling b s).
Proof.
  intros b m0 s Hk. unfold init_vfs_handling.
  apply ncatch_last; [ngs | exact Hk | |].
  - intros e kk s1 Hh N1 St1 K1. cbv beta in Hh. destruct (e =? E_PERMISSION); [|discriminate Hh]. inversion Hh; subst kk.
    mrun. rebase. apply kbind_df; [exact K|]. intros fh m2 s2 K2 D2. apply k_ret; [exact K2|].
    destruct D2 as [_ [_ [_ [_ [[_ [_ D2]]|[_ [D2 [D3 _]]]]]]]]; [right; exact D2 | left; split; [exact D2 | cbn in D3; congruence]].
  - intros a s1 N1 St1. left. split; [reflexivity | exact St1].
Qed.

Lemma k_handle_metadata_packet : forall h cl ck sz names msgs m0 s, mk m0 s ->
  postx (QK m0 s (FWF m0)) (EK m0 s) (handle_metadata_packet h cl ck sz names msgs s).
Proof.
  intros h cl ck sz names msgs m0 s Hk. unfold handle_metadata_packet. mrun. rebase.
  eapply kbind with (F1 := fun (_ : unit) m1 (_ : dst) => m1 = m0).
  { destruct names as [[sn dn]|]; mfin; kok; reflexivity. }
  intros u m1 s1 K1 E1. subst m1. mrun. rebase as K2.
  match goal with |- context [match ?x with Some _ => _ | None => _ end] => destruct x as [r|] end; [|apply k_raise; exact K2].
  mrun.
  assert (Hev : forall m2 s2, mk m2 s2 -> (m2 = m0 \/ d_step s2 = DS_TRANSFER_COMPLETION) ->
            postx (QK m2 s2 (FWF m0)) (EK m2 s2)
              ((t <- gp p_tid ;;
                let '(src, seq) := match t with Some x => x | None => (-1, -1) end in
                emit (EvMetadataRecv src seq (h_src h) (match names with Some _ => Some sz | None => None end) names msgs)) s2)).
  { intros m2 s2 Hk2 W. apply nslast; [ngs | exact Hk2|]. intros a s3 N3 St3.
    destruct W as [X|X]; [left; exact X | right; congruence]. }
  match goal with |- context [if negb ?x then _ else _] => destruct x end; cbn [negb]; mrun.
  - rebase as K3. apply Hev; [exact K3 | left; reflexivity].
  - rebase as K3. eapply kbind; [apply k_init_vfs_handling; exact K3|]. intros u2 m2 s2 Hk2 F2. apply Hev; [exact Hk2|].
    destruct F2 as [[X _]|X]; [left; exact X | right; exact X].
Qed.

Lemma k_heowpm : forall cond ck sz s,
  postx (QK None s FWN) (EK None s) (handle_eof_without_previous_metadata cond ck sz s).
Proof.
  intros cond ck sz s. unfold handle_eof_without_previous_metadata.
  destruct (cond =? C_NO_ERROR) eqn:Ec; cbn [negb].
  - apply nlast; [ng | apply mk_none | intros a s1 N1; left; reflexivity].
  - apply k_handle_eof_pdu.
Qed.

Lemma ngs_reset_nak : NGS reset_nak_activity_parameters.
Proof. ngs. Qed.

Lemma k_hwfmm : forall pkt s, postx (QK None s FWN) (EK None s) (handle_waiting_for_missing_metadata pkt s).
Proof.
  intros pkt s. pose proof (mk_none s) as Hk. unfold handle_waiting_for_missing_metadata.
  destruct pkt as [[h off data|h cl ck sz names msgs|h c ck sz fl| | | | | ]|];
    try (apply k_ret; [exact Hk | left; reflexivity]).
  - apply nlast; [ng | exact Hk | intros a s1 N1; left; reflexivity].
  - eapply kbind; [apply k_handle_metadata_packet; exact Hk|]. intros u m1 s1 K1 F1. mrun.
    destruct (p_deferred (d_p s1)); unfold when; cbv iota; [|apply k_ret; [exact K1 | exact F1]].
    apply nsbind; [apply ngs_reset_nak | exact K1|]. intros u2 s2 N2 St2 K2. mrun.
    destruct F1 as [X|X].
    + subst m1. destruct (d_step s2 =? DS_RECEIVING_FILE_DATA); cbv iota; [mfin; kok; left; reflexivity | apply k_ret; [exact K2 | left; reflexivity]].
    + rewrite St2, X. change (DS_TRANSFER_COMPLETION =? DS_RECEIVING_FILE_DATA) with false. cbv iota.
      apply k_ret; [exact K2 | right; congruence].
  - eapply kbind; [apply k_heowpm|]. intros u m1 s1 K1 F1.
    apply nslast; [ngs | exact K1|]. intros a s2 N2 St2. destruct F1 as [X|X]; [left; exact X | right; congruence].
Qed.

(* the re-issue of the NAK sequence (text of Dest.v) *)
Definition nak_tail (r : rcfg) (eos : Z) (first : bool) : D unit :=
  h <- conf ;;
  match max_seg_reqs (r_max_packet r) h with
  | None => raise E_VALUE
  | Some maxn =>
    let hh := set_dir TOWARDS_SENDER h in
    tr <- gp p_tracker ;; mdm <- gp p_md_missing ;;
    let '(pre, acc0) :=
      if mdm then (if 1 =? maxn then ([PNak hh 0 eos [(0, 0)]], []) else ([], [(0, 0)]))
      else ([], []) in
    let '(ps, rest) := nak_split hh eos maxn acc0 tr in
    let all := pre ++ ps ++ (match rest with [] => [] | _ => [PNak hh 0 eos rest] end) in
    fold_left (fun m p => m ;;; add_packet p) all (ret tt) ;;;
    when (negb first)
      (n <- now ;; t <- gp p_proc_timer ;;
       setp (fun p => p <| p_nak_counter ::= (fun c => c + 1) |>
                        <| p_proc_timer := (match t with Some (_, tmo) => Some (n, tmo) | None => None end) |>))
  end.

Lemma ngs_nak_tail : forall r eos first, NGS (nak_tail r eos first).
Proof. intros. ngs. Qed.

Lemma k_deferred : forall m0 s, mk m0 s -> postx (QK m0 s (FSF m0 s)) (EK m0 s) (deferred_lost_segment_handling s).
Proof.
  intros m0 s Hk. unfold deferred_lost_segment_handling. mrun.
  destruct (negb (p_deferred (d_p s))); [apply k_ret; [exact Hk | left; split; reflexivity]|].
  (* F35 repair: a cancelled transaction is left alone *)
  mrun. destruct (p_disp (d_p s) =? DISP_CANCELED) eqn:Ed; [apply k_ret; [exact Hk | left; split; reflexivity]|].
  assert (m0 = None) as -> by (eapply mk_disp; [exact Hk | apply Z.eqb_neq; exact Ed]).
  unfold rcfg_or_assert. mrun. destruct (p_rcfg (d_p s)) as [r|]; [|apply k_raise; exact Hk]. mrun.
  destruct (p_file_size_eof (d_p s)) as [eos|]; [|apply k_raise; exact Hk]. mrun.
  destruct ((zlen (p_tracker (d_p s)) =? 0) && negb (p_md_missing (d_p s))).
  - eapply kbind; [apply k_checksum_verify|]. intros ok m1 s1 K1 _. mrun. mfin. kok. right. reflexivity.
  - change (postx (QK None s (FSF None s)) (EK None s)
      ((go <- (match p_proc_timer (d_p s) with
               | Some t => if negb (timed_out (e_now (d_env s)) t) then ret None else ret (Some false)
               | None => setp (fun p => p <| p_proc_timer := Some (e_now (d_env s), r_nak_ms r) |>) ;;; ret (Some true)
               end) ;;
        match go with
        | None => ret tt
        | Some first =>
          cnt <- gp p_nak_counter ;;
          stop <- (if negb first && (cnt + 1 =? r_nak_limit r)
                   then (fh <- declare_fault C_NAK_LIMIT ;; ret (negb (fh =? FH_IGNORE)))
                   else ret false) ;;
          if stop then ret tt else nak_tail r eos first
        end) s)).
    apply nsbind; [destruct (p_proc_timer (d_p s)) as [t|]; [destruct (negb (timed_out (e_now (d_env s)) t))|]; ngs | exact Hk|].
    intros go s1 N1 St1 K1. destruct go as [first|]; [|apply k_ret; [exact K1 | left; split; [reflexivity | exact St1]]].
    mrun. destruct (negb first && (p_nak_counter (d_p s1) + 1 =? r_nak_limit r)).
    + rewrite bind_assoc. apply kbind_df; [exact K1|]. intros fh m1 s2 K2 D2. mrun.
      destruct D2 as [_ [_ [_ [_ D2]]]].
      destruct (negb (fh =? FH_IGNORE)).
      * apply k_ret; [exact K2|]. destruct D2 as [[_ [_ D2]]|[_ [D2 [D3 _]]]]; [right; exact D2 | left; split; [exact D2 | congruence]].
      * destruct D2 as [[_ [_ D2]]|[_ [D2 [D3 _]]]].
        -- (* not a real path (cancel and ignore at once), but harmless: the step stays 7 *)
           apply nslast; [apply ngs_nak_tail | exact K2|]. intros u s3 N3 St3. right; congruence.
        -- apply nslast; [apply ngs_nak_tail | exact K2|]. intros u s3 N3 St3. left; split; [exact D2 | congruence].
    + mrun. apply nslast; [apply ngs_nak_tail | exact K1|]. intros u s3 N3 St3. left; split; [reflexivity | congruence].
Qed.

Lemma k_start_deferred : forall m0 s, mk m0 s -> postx (QK m0 s (FWF m0)) (EK m0 s) (start_deferred_lost_segment_handling s).
Proof.
  intros m0 s Hk. unfold start_deferred_lost_segment_handling. mrun. rebase as K1.
  eapply k_weaken; [apply k_deferred; exact K1|].
  intros a m1 s' [[H _]|H]; [left; exact H | right; exact H].
Qed.

Lemma k_fsm_advancement : forall m0 s, mk m0 s -> postx (QK m0 s (FWA m0 s)) (EK m0 s) (fsm_advancement s).
Proof.
  intros m0 s Hk. unfold fsm_advancement. mrun.
  destruct (0 <? zlen (d_queue s)); [apply k_raise; exact Hk|].
  destruct (d_step s =? DS_SENDING_EOF_ACK) eqn:Es; [|apply k_ret; [exact Hk | left; split; [reflexivity | intros _; reflexivity]]].
  apply Z.eqb_eq in Es.
  destruct (negb (p_disp (d_p s) =? DISP_CANCELED) && _).
  { eapply k_weaken; [apply k_start_deferred; exact Hk|].
    intros a m1 s' [X|X]; [left; split; [exact X | intro Y; contradiction] | right; exact X]. }
  destruct (negb (p_disp (d_p s) =? DISP_CANCELED)) eqn:Ed; unfold when; cbv iota.
  - assert (m0 = None) as ->.
    { eapply mk_disp; [exact Hk|]. apply negb_true_iff in Ed. apply Z.eqb_neq. exact Ed. }
    rewrite bind_assoc. eapply kbind; [apply k_checksum_verify|]. intros ok m1 s1 K1 _. mrun. mfin. kok. right. reflexivity.
  - mrun. mfin. kok. right. reflexivity.
Qed.

Lemma k_check_limit_handling : forall s, postx (QK None s FWN) (EK None s) (check_limit_handling s).
Proof.
  intros s. pose proof (mk_none s) as Hk. unfold check_limit_handling, rcfg_or_assert. mrun.
  destruct (p_check_timer (d_p s)) as [tm|]; [|apply k_raise; exact Hk]. mrun.
  destruct (p_rcfg (d_p s)) as [r|]; [|apply k_raise; exact Hk]. mrun.
  destruct (timed_out (e_now (d_env s)) tm); [|apply k_ret; [exact Hk | left; reflexivity]].
  eapply kbind; [apply k_checksum_verify|]. intros ok m1 s1 K1 C1.
  assert (W1 : m1 = None \/ (ok = false /\ d_step s1 = DS_TRANSFER_COMPLETION)).
  { destruct C1 as [[X _]|[X [Y _]]]; [left; exact X | right; split; assumption]. }
  destruct ok.
  - apply nlast; [apply ng_ftct | exact K1|]. intros a s2 N2. destruct W1 as [X|[X _]]; [left; exact X | discriminate X].
  - mrun. destruct (p_rcfg (d_p s1)) as [r'|]; [|apply k_raise; exact K1]. cbv zeta.
    destruct (r_check_limit r' <=? p_check_count (d_p s1) + 1).
    + apply kbind_df; [exact K1|]. intros fh m2 s2 K2 D2.
      assert (W2 : m2 = None \/ d_step s2 = DS_TRANSFER_COMPLETION).
      { destruct D2 as [_ [_ [_ [_ [[_ [_ D2]]|[_ [D2 [D3 _]]]]]]]]; [right; exact D2|].
        destruct W1 as [X|[_ X]]; [left; congruence | right; congruence]. }
      (* an ignored Check Limit Reached keeps counting and waits for another interval (F34 repair) *)
      destruct (fh =? FH_IGNORE); [|apply k_ret; [exact K2 | exact W2]].
      mrun. destruct (p_check_timer (d_p s2)) as [[t0 tmo]|]; [|apply k_raise; exact K2]. mfin. kok.
      destruct W2 as [X|X]; [left; exact X | right; exact X].
    + mrun. destruct (p_check_timer (d_p s1)) as [[t0 tmo]|]; [|apply k_raise; exact K1]. mfin. kok.
      destruct W1 as [X|[_ X]]; [left; exact X | right; exact X].
Qed.

(* ------------------------------------------------------------------ completion: the handler may be reset *)
Definition QL {A} (m0 : option Z) (s : dst) (F : A -> option Z -> dst -> Prop) : A -> dst -> Prop :=
  fun a s' => exists m1, RRl m0 s m1 s' /\ F a m1 s'.
Definition EL (m0 : option Z) (s : dst) : Z -> dst -> Prop := fun e s' => exists m1, RRl m0 s m1 s'.

Lemma rll_trans : forall m0 s m1 s1 m2 s2, RRl m0 s m1 s1 -> RRl m1 s1 m2 s2 -> RRl m0 s m2 s2.
Proof.
  intros m0 s m1 s1 m2 s2 [n1 [L1 [F1 [M1 K1]]]] [n2 [L2 [F2 [M2 K2]]]]. exists (n2 ++ n1).
  split; [rewrite L2, L1; apply app_assoc|]. subst m1.
  split; [apply fins_ok_app; assumption|]. split; [rewrite mode_after_app; exact M2 | exact K2].
Qed.
Lemma ek_el : forall m0 s e s', EK m0 s e s' -> EL m0 s e s'.
Proof. intros m0 s e s' [m1 R]. exists m1. destruct (e =? E_ABANDONED); [exact R | apply rrk_l, R]. Qed.
Lemma k_to_l {A} m0 s (F : A -> option Z -> dst -> Prop) x :
  postx (QK m0 s F) (EK m0 s) x -> postx (QL m0 s F) (EL m0 s) x.
Proof.
  intro H. eapply ft_postx_weaken; [exact H | | apply ek_el].
  intros a s' [m1 [R Fa]]. exists m1. split; [apply rrk_l, R | exact Fa].
Qed.
Lemma ql_shift {A} m0 s m1 s1 (F : A -> option Z -> dst -> Prop) x :
  RRl m0 s m1 s1 -> postx (QL m1 s1 F) (EL m1 s1) x -> postx (QL m0 s F) (EL m0 s) x.
Proof.
  intros R. unfold postx. destruct x as [s2 [a|e]].
  - intros [m2 [R2 F2]]. exists m2. split; [eapply rll_trans; eassumption | exact F2].
  - intros [m2 R2]. exists m2. eapply rll_trans; eassumption.
Qed.
Lemma ml_mk : forall m s, ml m s -> d_step s <> DS_IDLE -> mk m s.
Proof. intros m s H N c E. destruct (H c E) as [X|[_ [X _]]]; [exact X | contradiction]. Qed.
Lemma rrl_ml : forall m0 s m1 s1, RRl m0 s m1 s1 -> ml m1 s1.
Proof. intros m0 s m1 s1 [n [_ [_ [_ X]]]]. exact X. Qed.
Lemma rrk_mk : forall m0 s m1 s1, RRk m0 s m1 s1 -> mk m1 s1.
Proof. intros m0 s m1 s1 [n [_ [_ [_ X]]]]. exact X. Qed.

Lemma klbind {A B} (m : D A) (k : A -> D B) m0 s (F1 : A -> option Z -> dst -> Prop) (F : B -> option Z -> dst -> Prop) :
  postx (QK m0 s F1) (EK m0 s) (m s) ->
  (forall a m1 s1, mk m1 s1 -> F1 a m1 s1 -> postx (QL m1 s1 F) (EL m1 s1) (k a s1)) ->
  postx (QL m0 s F) (EL m0 s) (bind m k s).
Proof.
  intros Hm Hk. eapply postx_bind; [exact Hm | apply ek_el |].
  intros a s1 [m1 [R1 F1a]]. eapply ql_shift; [apply rrk_l, R1|]. apply Hk; [eapply rrk_mk, R1 | exact F1a].
Qed.
Lemma llbind {A B} (m : D A) (k : A -> D B) m0 s (F1 : A -> option Z -> dst -> Prop) (F : B -> option Z -> dst -> Prop) :
  postx (QL m0 s F1) (EL m0 s) (m s) ->
  (forall a m1 s1, ml m1 s1 -> F1 a m1 s1 -> postx (QL m1 s1 F) (EL m1 s1) (k a s1)) ->
  postx (QL m0 s F) (EL m0 s) (bind m k s).
Proof.
  intros Hm Hk. eapply postx_bind; [exact Hm | intros e s' H; exact H |].
  intros a s1 [m1 [R1 F1a]]. eapply ql_shift; [exact R1|]. apply Hk; [eapply rrl_ml, R1 | exact F1a].
Qed.
Lemma l_ret {A} (a : A) m0 s (F : A -> option Z -> dst -> Prop) : ml m0 s -> F a m0 s -> postx (QL m0 s F) (EL m0 s) (ret a s).
Proof. intros H HF. exists m0. split; [|exact HF]. exists []. split; [reflexivity|]. split; [exact I|]. split; [reflexivity | exact H]. Qed.

(* the reset of the handler *)
Lemma rrl_reset : forall m0 s s', log_d s' = log_d s -> dfresh s' -> RRl m0 s m0 s'.
Proof.
  intros m0 s s' L Fr. exists []. split; [exact L|]. split; [exact I|]. split; [reflexivity|]. intros c _. right. exact Fr.
Qed.

Lemma ngs_noc_prefix : forall (p : dparams),
  NGS (when (p_disp p =? DISP_CANCELED)
         (r <- rcfg_or_assert ;;
          when (r_disposition r && (f_deliv (p_fin p) =? DATA_INCOMPLETE))
            (modify (fun s => s <| d_env ::= (fun e => e <| e_fs ::= (fun t => fst (fs_delete_file t (p_file_name p))) |>) |>) ;;;
             setp (fun p => p <| p_fin ::= (fun f => f <| f_fstatus := FS_DISCARDED_DELIBERATELY |>) |>)))).
Proof. intros. ngs. Qed.

Lemma k_noc : forall m0 s, mk m0 s ->
  postx (QK m0 s (fun _ _ s' => d_step s' = d_step s)) (EK m0 s) (notice_of_completion s).
Proof.
  intros m0 s Hk. unfold notice_of_completion. mrun.
  apply nsbind; [apply ngs_noc_prefix | exact Hk|]. intros u s1 N1 St1 K1. mrun.
  destruct (l_ind_fin (d_cfg s1)); unfold when; cbv iota; [|apply k_ret; [exact K1 | exact St1]].
  mrun. destruct (match p_tid (d_p s1) with Some x => x | None => (-1, -1) end) as [a b]. mfin.
  exists m0. split; [|exact St1].
  exists [EvFinished a b (f_cond (p_fin (d_p s1))) (f_deliv (p_fin (d_p s1))) (f_fstatus (p_fin (d_p s1))) (f_fl (p_fin (d_p s1)))].
  split; [reflexivity|]. split.
  - cbn [fins_ok mode_after]. split; [exact I|]. destruct m0 as [c|]; [|exact I]. exact (proj2 (K1 c eq_refl)).
  - split; [reflexivity|]. eapply mk_trip; [|exact K1]. reflexivity.
Qed.

Definition FTAIL (st : Z) : unit -> option Z -> dst -> Prop :=
  fun _ m1 s' => (d_step s' = st /\ mk m1 s') \/ dfresh s'.

Lemma k_htc : forall m0 s, mk m0 s -> postx (QL m0 s (FTAIL DS_SENDING_FINISHED)) (EL m0 s) (handle_transfer_completion s).
Proof.
  intros m0 s Hk. unfold handle_transfer_completion.
  eapply klbind; [apply k_noc; exact Hk|]. intros u m1 s1 K1 _. mrun.
  match goal with |- context [if ?b then _ else _] => destruct b end.
  - mfin. exists m1. split; [apply rrk_l, nq_rrk; [nq0 | exact K1]|]. left. split; [reflexivity|].
    eapply mk_trip; [|exact K1]. reflexivity.
  - mfin. exists m1. split; [apply rrl_reset; [reflexivity | repeat split; reflexivity]|]. right. repeat split; reflexivity.
Qed.

Lemma ngs_prepare_finished_pdu : NGS prepare_finished_pdu.
Proof. ngs. Qed.
Lemma ngs_start_positive_ack_procedure : NGS start_positive_ack_procedure.
Proof. ngs. Qed.
Lemma ngs_prepare_eof_ack_packet : NGS prepare_eof_ack_packet.
Proof. ngs. Qed.

Definition FTAIL2 (s : dst) : unit -> option Z -> dst -> Prop :=
  fun _ m1 s' => ((d_step s' = d_step s \/ d_step s' = DS_WAITING_FOR_FINISHED_ACK) /\ mk m1 s') \/ dfresh s'.

Lemma nlbind {A B} (m : D A) (k : A -> D B) m0 s (F : B -> option Z -> dst -> Prop) :
  NGS m -> mk m0 s ->
  (forall a s1, nq s s1 -> d_step s1 = d_step s -> mk m0 s1 -> postx (QL m0 s1 F) (EL m0 s1) (k a s1)) ->
  postx (QL m0 s F) (EL m0 s) (bind m k s).
Proof.
  intros Hm Hk Hr. pose proof (ngs_nqs m s Hm) as [N St]. unfold bind. destruct (m s) as [s1 [a|e]]; cbn [fst] in N, St.
  - eapply ql_shift; [apply rrk_l, nq_rrk; eassumption|]. apply Hr; [exact N | exact St |]. destruct N as [n [_ [_ T]]]. eapply mk_trip; eassumption.
  - unfold postx. exists m0. apply rrk_l, nq_rrk; eassumption.
Qed.

Lemma k_sending_finished : forall m0 s, mk m0 s ->
  postx (QL m0 s (FTAIL2 s)) (EL m0 s)
    ((n <- gets d_ready ;; if 0 <? n then ret tt else (prepare_finished_pdu ;;; handle_finished_pdu_sent)) s).
Proof.
  intros m0 s Hk. mrun.
  destruct (0 <? d_ready s); [apply l_ret; [apply mk_ml, Hk | left; split; [left; reflexivity | exact Hk]]|].
  apply nlbind; [apply ngs_prepare_finished_pdu | exact Hk|]. intros u s1 N1 St1 K1.
  unfold handle_finished_pdu_sent. mrun.
  match goal with |- context [if ?b then _ else _] => destruct b end.
  - apply nlbind; [apply ngs_start_positive_ack_procedure | exact K1|]. intros u2 s2 N2 St2 K2. mfin.
    exists m0. split; [apply rrk_l, nq_rrk; [nq0 | exact K2]|]. left. split; [right; reflexivity|].
    eapply mk_trip; [|exact K2]. reflexivity.
  - mfin. exists m0. split; [apply rrl_reset; [reflexivity | repeat split; reflexivity]|]. right. repeat split; reflexivity.
Qed.

(* the positive ACK procedure for the Finished PDU; [again]: the nested state_machine() call *)
Definition HAG (again : D unit) : Prop :=
  forall m s0, mk m s0 -> d_step s0 = DS_TRANSFER_COMPLETION -> postx (QL m s0 FT) (EL m s0) (again s0).

Lemma k_hpap : forall again, HAG again -> forall m0 s, mk m0 s ->
  postx (QL m0 s FT) (EL m0 s) (handle_positive_ack_procedures again s).
Proof.
  intros again Hag m0 s Hk. unfold handle_positive_ack_procedures, rcfg_or_assert. mrun.
  destruct (p_ack_timer (d_p s)) as [tm|]; [|apply k_to_l, k_raise; exact Hk]. mrun.
  destruct (p_rcfg (d_p s)) as [r|]; [|apply k_to_l, k_raise; exact Hk]. mrun.
  destruct (negb (timed_out (e_now (d_env s)) tm)); [apply l_ret; [apply mk_ml, Hk | exact I]|]. mrun.
  assert (Hrest : forall m1 s1, mk m1 s1 ->
     postx (QL m1 s1 FT) (EL m1 s1)
       ((t' <- gp p_ack_timer ;;
         match t' with
         | None => raise E_ATTRIBUTE
         | Some (_, tmo) =>
             setp (fun p => p <| p_ack_timer := Some (e_now (d_env s), tmo) |> <| p_ack_counter ::= (fun c => c + 1) |>) ;;;
             prepare_finished_pdu
         end) s1)).
  { intros m1 s1 K1. apply k_to_l. apply nslast; [ngs | exact K1 | intros; exact I]. }
  destruct (r_ack_limit r <=? p_ack_counter (d_p s) + 1); [|mrun; apply Hrest; exact Hk].
  mrun. destruct (p_disp (d_p s) =? DISP_CANCELED) eqn:Ed.
  - (* the transaction is being cancelled already: abandoned *)
    mrun. destruct (p_tid (d_p s)) as [[a b]|]; [|apply k_to_l, k_raise; exact Hk]. mrun. mfin.
    exists m0. split; [|exact I].
    exists [EvFault FH_ABANDON a b (f_cond (p_fin (d_p s))) (p_progress (d_p s))].
    split; [reflexivity|]. split; [cbn; auto|]. split; [reflexivity|]. intros c _. right. repeat split; reflexivity.
  - rewrite bind_assoc. eapply klbind; [apply k_declare_fault; exact Hk|].
    intros fh m1 s1 K1 D1. mrun. destruct D1 as [_ [_ [_ [_ D1]]]].
    destruct D1 as [[_ [Em St]]|[_ [Em [St T]]]].
    + (* notice of cancellation: completion in the same call *)
      assert (Ec : (p_disp (d_p s1) =? DISP_CANCELED) = true).
      { destruct (K1 _ Em) as [X _]. rewrite X. reflexivity. }
      rewrite Ec. rewrite bind_assoc.
      eapply llbind; [apply Hag; [exact K1 | exact St]|]. intros u m2 s2 K2 _. mrun. apply l_ret; [exact K2 | exact I].
    + assert (Ec : (p_disp (d_p s1) =? DISP_CANCELED) = false).
      { unfold trip in T. injection T as T1 _. rewrite T1. exact Ed. }
      rewrite Ec. mrun. apply Hrest. exact K1.
Qed.

Lemma k_hwffa : forall again pkt, HAG again -> forall m0 s, mk m0 s ->
  postx (QL m0 s FT) (EL m0 s) (handle_waiting_for_finished_ack again pkt s).
Proof.
  intros again pkt Hag m0 s Hk. unfold handle_waiting_for_finished_ack.
  destruct pkt as [[ | | | | | | | ]|]; try (apply k_hpap; assumption).
  - apply k_to_l. apply nslast; [apply ngs_prepare_eof_ack_packet | exact Hk | intros; exact I].
  - unfold reset_internal. mfin. exists m0. split; [apply rrl_reset; [reflexivity | repeat split; reflexivity] | exact I].
Qed.

(* ------------------------------------------------------------------ the tail of the state machine of a busy handler *)
Definition ktail (again : D unit) (pkt : option pdu) : D unit :=
  b <- step_is DS_TRANSFER_COMPLETION ;;
  when b handle_transfer_completion ;;;
  b <- step_is DS_SENDING_FINISHED ;;
  when b (n <- gets d_ready ;;
          if 0 <? n then ret tt else (prepare_finished_pdu ;;; handle_finished_pdu_sent)) ;;;
  b <- step_is DS_WAITING_FOR_FINISHED_ACK ;;
  when b (handle_waiting_for_finished_ack again pkt).

Lemma k_tail : forall again pkt, HAG again -> forall m0 s, ml m0 s -> postx (QL m0 s FT) (EL m0 s) (ktail again pkt s).
Proof.
  intros again pkt Hag m0 s Hl. unfold ktail. mrun.
  eapply llbind with (F1 := @FT unit).
  { destruct (d_step s =? DS_TRANSFER_COMPLETION) eqn:E; unfold when; cbv iota; [|apply l_ret; [exact Hl | exact I]].
    apply Z.eqb_eq in E. eapply ft_postx_weaken; [apply k_htc; apply ml_mk; [exact Hl | rewrite E; discriminate] | | intros e s' H; exact H].
    intros a s' [m1 [R _]]. exists m1. split; [exact R | exact I]. }
  intros u1 m1 s1 L1 _. mrun.
  eapply llbind with (F1 := @FT unit).
  { destruct (d_step s1 =? DS_SENDING_FINISHED) eqn:E; unfold when; cbv iota; [|apply l_ret; [exact L1 | exact I]].
    apply Z.eqb_eq in E. eapply ft_postx_weaken; [apply k_sending_finished; apply ml_mk; [exact L1 | rewrite E; discriminate] | | intros e s' H; exact H].
    intros a s' [m2 [R _]]. exists m2. split; [exact R | exact I]. }
  intros u2 m2 s2 L2 _. mrun.
  destruct (d_step s2 =? DS_WAITING_FOR_FINISHED_ACK) eqn:E; unfold when; cbv iota; [|apply l_ret; [exact L2 | exact I]].
  apply Z.eqb_eq in E. apply k_hwffa; [exact Hag | apply ml_mk; [exact L2 | rewrite E; discriminate]].
Qed.

Lemma l_catch_abandoned : forall (m : D unit) m0 s,
  postx (QL m0 s FT) (EL m0 s) (m s) -> postx (QL m0 s FT) (EL m0 s) (catch_abandoned m s).
Proof.
  intros m m0 s H. unfold catch_abandoned, catch. unfold postx in *. destruct (m s) as [s1 [u|e]]; [exact H|].
  destruct (e =? E_ABANDONED); [|exact H]. unfold ret. destruct H as [m1 R]. exists m1. split; [exact R | exact I].
Qed.

(* ------------------------------------------------------------------ the state machine of a busy handler *)
Definition kbody (again : D unit) (pkt : option pdu) : D unit :=
  fsm_advancement ;;;
  st <- get_step ;;
  when (((st =? DS_RECEIVING_FILE_DATA) || (st =? DS_RECV_WITH_CHECK_LIMIT)))
    (match pkt with
     | Some (PFileData _ off data) => handle_fd_pdu off data
     | Some (PEof _ cond ck sz _) => handle_eof_pdu cond ck sz
     | _ => ret tt
     end) ;;;
  b <- step_is DS_WAITING_FOR_METADATA ;;
  when b (handle_waiting_for_missing_metadata pkt ;;; deferred_lost_segment_handling) ;;;
  b <- step_is DS_RECV_WITH_CHECK_LIMIT ;;
  when b check_limit_handling ;;;
  b <- step_is DS_WAITING_FOR_MISSING_DATA ;;
  when b
    ((match pkt with
      | Some (PEof _ cond ck sz _) =>
          if cond =? C_NO_ERROR then prepare_eof_ack_packet
          else (setp (fun p => p <| p_deferred := false |>) ;;; handle_eof_pdu cond ck sz)
      | _ => ret tt
      end) ;;;
     (match pkt with
      | Some (PFileData _ off data) =>
          handle_fd_pdu off data ;;;
          active <- gp p_deferred ;;
          when active reset_nak_activity_parameters
      | _ => ret tt
      end) ;;;
     deferred_lost_segment_handling) ;;;
  ktail again pkt.

Lemma non_idle_fsm_S : forall k pkt,
  non_idle_fsm (S k) pkt = kbody (catch_abandoned (s <- get ;; when (d_state s =? ST_BUSY) (non_idle_fsm k None))) pkt.
Proof. reflexivity. Qed.
Lemma non_idle_fsm_O : forall pkt, non_idle_fsm O pkt = kbody (raise E_FUEL) pkt.
Proof. reflexivity. Qed.

(* between the sections that look at the inbound PDU or verify the checksum: no cancel callback has been delivered in the
   call, or the completion step has been entered (where none of those sections runs) *)
Lemma k_body : forall again pkt, HAG again -> forall m0 s, mk m0 s -> (m0 = None \/ d_step s = DS_TRANSFER_COMPLETION) ->
  postx (QL m0 s FT) (EL m0 s) (kbody again pkt s).
Proof.
  intros again pkt Hag m0 s Hk Hpre. unfold kbody.
  eapply klbind; [apply k_fsm_advancement; exact Hk|]. intros u0 m1 s1 K1 W1.
  assert (P1 : @FWN unit tt m1 s1).
  { destruct W1 as [[X Y]|Y]; [|right; exact Y]. destruct Hpre as [Z0|Z0]; [left; congruence|].
    right. rewrite Y; [exact Z0 | rewrite Z0; discriminate]. }
  clear W1 Hpre Hk. mrun.
  (* file data / EOF while receiving *)
  eapply klbind with (F1 := @FWN unit).
  { destruct ((d_step s1 =? DS_RECEIVING_FILE_DATA) || (d_step s1 =? DS_RECV_WITH_CHECK_LIMIT)) eqn:G;
      unfold when; cbv iota; [|apply k_ret; [exact K1 | exact P1]].
    assert (m1 = None) as ->.
    { destruct P1 as [X|X]; [exact X | rewrite X in G; discriminate G]. }
    destruct pkt as [[h off data|h cl ck sz names msgs|h c ck sz fl| | | | | ]|]; try (apply k_ret; [exact K1 | left; reflexivity]).
    - eapply k_weaken; [apply k_handle_fd_pdu; exact K1|]. intros a m2 s2 [[X _]|X]; [left; exact X | right; exact X].
    - apply k_handle_eof_pdu. }
  intros u1 m2 s2 K2 P2. mrun.
  (* waiting for the Metadata PDU *)
  eapply klbind with (F1 := @FWN unit).
  { destruct (d_step s2 =? DS_WAITING_FOR_METADATA) eqn:G; unfold when; cbv iota; [|apply k_ret; [exact K2 | exact P2]].
    apply Z.eqb_eq in G.
    assert (m2 = None) as ->.
    { destruct P2 as [X|X]; [exact X | rewrite G in X; discriminate X]. }
    eapply kbind; [apply k_hwfmm|]. intros u m3 s3 K3 F3.
    eapply k_weaken; [apply k_deferred; exact K3|].
    intros a m4 s4 [[X Y]|Y]; [|right; exact Y]. destruct F3 as [Z0|Z0]; [left; congruence | right; congruence]. }
  intros u2 m3 s3 K3 P3. mrun.
  (* check limit handling *)
  eapply klbind with (F1 := @FWN unit).
  { destruct (d_step s3 =? DS_RECV_WITH_CHECK_LIMIT) eqn:G; unfold when; cbv iota; [|apply k_ret; [exact K3 | exact P3]].
    apply Z.eqb_eq in G.
    assert (m3 = None) as ->.
    { destruct P3 as [X|X]; [exact X | rewrite G in X; discriminate X]. }
    apply k_check_limit_handling. }
  intros u3 m4 s4 K4 P4. mrun.
  (* waiting for missing data *)
  eapply klbind with (F1 := @FT unit).
  { destruct (d_step s4 =? DS_WAITING_FOR_MISSING_DATA) eqn:G; unfold when; cbv iota; [|apply k_ret; [exact K4 | exact I]].
    apply Z.eqb_eq in G.
    assert (m4 = None) as ->.
    { destruct P4 as [X|X]; [exact X | rewrite G in X; discriminate X]. }
    eapply kbind with (F1 := @FT unit).
    { destruct pkt as [[h off data|h cl ck sz names msgs|h c ck sz fl| | | | | ]|]; try (apply k_ret; [exact K4 | exact I]).
      destruct (c =? C_NO_ERROR) eqn:Ec.
      - apply nslast; [apply ngs_prepare_eof_ack_packet | exact K4 | intros; exact I].
      - mrun. rebase as K5. eapply k_weaken; [apply k_handle_eof_pdu|]. intros; exact I. }
    intros u m5 s5 K5 _.
    eapply kbind with (F1 := @FT unit).
    { destruct pkt as [[h off data|h cl ck sz names msgs|h c ck sz fl| | | | | ]|]; try (apply k_ret; [exact K5 | exact I]).
      eapply kbind; [apply k_handle_fd_pdu; exact K5|]. intros u' m6 s6 K6 _.
      apply nlast; [ng | exact K6 | intros; exact I]. }
    intros u' m6 s6 K6 _. eapply k_weaken; [apply k_deferred; exact K6|]. intros; exact I. }
  intros u4 m5 s5 K5 _.
  apply k_tail; [exact Hag | apply mk_ml, K5].
Qed.

Lemma k_non_idle_fsm : forall fuel pkt m0 s, mk m0 s -> (m0 = None \/ d_step s = DS_TRANSFER_COMPLETION) ->
  postx (QL m0 s FT) (EL m0 s) (non_idle_fsm fuel pkt s).
Proof.
  induction fuel as [|k IH]; intros pkt m0 s Hk Hpre.
  - rewrite non_idle_fsm_O. apply k_body; [|exact Hk | exact Hpre].
    intros m s0 K0 _. apply k_to_l, k_raise. exact K0.
  - rewrite non_idle_fsm_S. apply k_body; [|exact Hk | exact Hpre].
    intros m s0 K0 St0. apply l_catch_abandoned. mrun.
    destruct (d_state s0 =? ST_BUSY); unfold when; cbv iota; [|apply l_ret; [apply mk_ml, K0 | exact I]].
    apply IH; [exact K0 | right; exact St0].
Qed.

(* ------------------------------------------------------------------ the call that starts a transaction, and the whole call *)
Lemma ng_hfdwpm : forall f o d, NG (handle_fd_without_previous_metadata f o d).
Proof. intros. ng. Qed.

Lemma cfpnm_silent : forall h s, exists s1, common_first_packet_not_metadata h s = (s1, Ok tt) /\ log_d s1 = log_d s.
Proof.
  intros h s. unfold common_first_packet_not_metadata, common_first_packet_handler. mrun.
  match goal with |- context [if ?b then _ else _] => destruct b end; mrun; mfin; eexists; split; reflexivity.
Qed.

Lemma k_idle_fsm : forall pkt s, postx (QK None s FWN) (EK None s) (idle_fsm pkt s).
Proof.
  intros pkt s. unfold idle_fsm.
  destruct pkt as [[h off data|h cl ck sz names msgs|h c ck sz fl| | | | | ]|];
    try (apply k_raise; apply mk_none); try (apply k_ret; [apply mk_none | left; reflexivity]).
  - destruct (cfpnm_silent h s) as [s1 [E L]]. unfold bind at 1. rewrite E.
    apply (qk_shift None s None s1); [apply rrk_none; exact L|].
    apply nlast; [apply ng_hfdwpm | apply mk_none | intros; left; reflexivity].
  - unfold start_transaction, common_first_packet_handler. mrun.
    destruct (negb (d_state s =? ST_IDLE)); [apply k_ret; [apply mk_none | left; reflexivity]|]. mrun.
    match goal with |- context [if ?b then _ else _] => destruct b end; mrun;
      (match goal with |- postx _ _ (_ ?st) => apply (qk_shift None s None st); [apply rrk_none; reflexivity|] end);
      (eapply k_weaken; [apply k_handle_metadata_packet; apply mk_none | intros a m1 s' X; exact X]).
  - destruct (cfpnm_silent h s) as [s1 [E L]]. unfold bind at 1. rewrite E.
    apply (qk_shift None s None s1); [apply rrk_none; exact L|]. apply k_heowpm.
Qed.

(* what every state_machine call of the receiver does after a notice of cancellation: [new] are the events of the call *)
Definition dest_cancel_post (s s' : dst) : Prop :=
  exists new, log_d s' = new ++ log_d s /\ fins_ok None new /\
    forall c, mode_after None new = Some c -> cancelling c s' \/ dfresh s'.

Lemma ql_post : forall s (x : dst * res Z unit), postx (QL None s FT) (EL None s) x -> dest_cancel_post s (fst x).
Proof.
  intros s x H. assert (R : exists m1, RRl None s m1 (fst x)).
  { unfold postx in H. destruct x as [s' [u|e]]; cbn [fst]; [destruct H as [m1 [R _]]; exists m1; exact R | exact H]. }
  destruct R as [m1 [new [L [F [M K]]]]]. exists new. split; [exact L|]. split; [exact F|].
  intros c E. apply K. rewrite M. exact E.
Qed.

Lemma dest_cancel_post_refl : forall s, dest_cancel_post s s.
Proof. intro s. exists []. split; [reflexivity|]. split; [exact I|]. intros c E. discriminate E. Qed.

Lemma dest_state_machine_cancel_post : forall pkt s, dest_cancel_post s (fst (Dest.state_machine pkt s)).
Proof.
  intros pkt s. unfold Dest.state_machine. unfold bind at 1. cbv beta.
  match goal with |- dest_cancel_post _ (fst (let (s', r) := ?X in _)) => destruct X as [s1 r0] eqn:Hadm end.
  assert (s1 = s) as ->.
  { destruct pkt as [p|]; [|inversion Hadm; reflexivity].
    pose proof (minv_state _ _ _ s (adm_d p)) as X. rewrite Hadm in X. exact X. }
  destruct r0 as [u|e]; [|apply dest_cancel_post_refl].
  apply ql_post. apply l_catch_abandoned. mrun.
  eapply klbind with (F1 := @FWN bool).
  { destruct (d_state s =? ST_IDLE).
    - try rewrite bind_assoc. eapply kbind; [apply k_idle_fsm|]. intros u1 m1 s1 K1 F1. mrun. apply k_ret; [exact K1 | exact F1].
    - apply k_ret; [apply mk_none | left; reflexivity]. }
  intros stop m1 s1 K1 F1. destruct stop; [apply l_ret; [apply mk_ml, K1 | exact I]|]. mrun.
  destruct (d_state s1 =? ST_BUSY); unfold when; cbv iota; [|apply l_ret; [apply mk_ml, K1 | exact I]].
  apply k_non_idle_fsm; [exact K1 | exact F1].
Qed.


(* ---------- the same without the two recursive definitions: for the newest cancel callback of the call *)
Lemma mode_after_no_cancel : forall m0 l, (forall e, In e l -> is_cancel e = false) -> mode_after m0 l = m0.
Proof.
  intros m0 l. induction l as [|e l IH]; intro H; [reflexivity|]. cbn [mode_after].
  assert (He := H e (or_introl eq_refl)). assert (Hl : forall x, In x l -> is_cancel x = false) by (intros x Hx; apply H; right; exact Hx).
  destruct e; try (apply IH; exact Hl). cbn in He. rewrite He. apply IH. exact Hl.
Qed.

Lemma fins_ok_split : forall m0 n2 n1, fins_ok m0 (n2 ++ n1) -> fins_ok (mode_after m0 n1) n2.
Proof.
  intros m0 n2 n1. induction n2 as [|e n2 IH]; intro H; [exact I|].
  cbn [app fins_ok] in *. destruct H as [H1 H2]. split; [apply IH; exact H1|]. rewrite mode_after_app in H2. exact H2.
Qed.

Lemma fins_ok_in : forall c l, (forall e, In e l -> is_cancel e = false) -> fins_ok (Some c) l ->
  forall a b cd dl fs fl, In (EvFinished a b cd dl fs fl) l -> cd = c.
Proof.
  intros c l. induction l as [|e l IH]; intros Hn H a b cd dl fs fl Hin; [destruct Hin|].
  cbn [fins_ok] in H. destruct H as [H1 H2].
  assert (Hl : forall x, In x l -> is_cancel x = false) by (intros x Hx; apply Hn; right; exact Hx).
  destruct Hin as [Hin|Hin].
  - subst e. rewrite (mode_after_no_cancel _ _ Hl) in H2. exact H2.
  - eapply IH; eassumption.
Qed.

Lemma dest_cancel_condition_reported : forall pkt s,
  exists new, log_d (fst (Dest.state_machine pkt s)) = new ++ log_d s /\
    forall newer a b c prog older,
      new = newer ++ EvFault FH_CANCEL a b c prog :: older -> (forall e, In e newer -> is_cancel e = false) ->
      (forall a' b' cd dl fs fl, In (EvFinished a' b' cd dl fs fl) newer -> cd = c) /\
      (cancelling c (fst (Dest.state_machine pkt s)) \/ dfresh (fst (Dest.state_machine pkt s))).
Proof.
  intros pkt s. destruct (dest_state_machine_cancel_post pkt s) as [new [L [F M]]]. exists new. split; [exact L|].
  intros newer a b c prog older E Hn. subst new.
  assert (Em : mode_after None (EvFault FH_CANCEL a b c prog :: older) = Some c) by reflexivity.
  split.
  - apply fins_ok_split in F. rewrite Em in F. apply fins_ok_in; assumption.
  - apply M. rewrite mode_after_app, Em. apply mode_after_no_cancel. exact Hn.
Qed.

(* a cancelled transaction: the deferred procedure does nothing, the cancel condition stands (F35 repair) *)
Lemma deferred_cancelled_noop : forall s, p_disp (d_p s) = DISP_CANCELED -> deferred_lost_segment_handling s = (s, Ok tt).
Proof.
  intros s H. unfold deferred_lost_segment_handling. mrun. destruct (negb (p_deferred (d_p s))); [reflexivity|].
  mrun. rewrite H. reflexivity.
Qed.

(* ================================================================== non-vacuity and counterexamples (from fresh handlers) *)
Module Examples.
  Definition test_data (size : Z) : bytes := map (fun i => (7 * Z.of_nat i + 3) mod 256) (seq 0 (Z.to_nat size)).
  Definition rc (id : Z) (seg : option Z) (closure : bool) (mode ck lim : Z) (imm : bool) : rcfg :=
    mkRcfg id 2 seg 64 closure false mode ck 1000 lim lim false imm 1000 lim.
  (* the generated default table with the handler of one condition replaced *)
  Definition ex_tb (cond k : Z) : list (Z * Z) :=
    map (fun kv => if fst kv =? cond then (fst kv, k) else kv) default_fault_table.
  Definition ex_data := test_data 10.

  (* ---- receiver: unacknowledged transfer, EOF with a wrong checksum; File Checksum Failure configured as k;
          check timer interval chk *)
  Definition ex_dcfg (k chk : Z) : lcfg :=
    mkLcfg 2 2 true true true true (ex_tb C_CHECKSUM_FAILURE k) chk [rc 1 (Some 4) false UNACKED CK_CRC32 2 false].
  Definition ex_h : hdr := mkHdr TOWARDS_RECEIVER UNACKED false false 1 2 2 7 2.
  Definition ex_dsm (pkt : option pdu) (s : dst) : dst :=
    (fst (Dest.state_machine pkt s)) <| d_queue := [] |> <| d_ready := 0 |>.
  Definition ex_d2 (k chk : Z) : dst :=
    ex_dsm (Some (PFileData ex_h 0 ex_data))
      (ex_dsm (Some (PMetadata ex_h false CK_CRC32 10 (Some ([1], [2])) [])) (dst_init (ex_dcfg k chk))).
  Definition ex_eof : option pdu := Some (PEof ex_h C_NO_ERROR [0; 0; 0; 0] 10 None).
  Definition ex_d3 k chk := fst (Dest.state_machine ex_eof (ex_d2 k chk)).
  Definition ex_new (s s' : dst) : list event := firstn (length (log_d s') - length (log_d s)) (log_d s').

  Example dest_ignore_declared :
    ex_new (ex_d2 FH_IGNORE 1000) (ex_d3 FH_IGNORE 1000) = [EvFault FH_IGNORE 1 7 C_CHECKSUM_FAILURE 10; EvEofRecv 1 7] /\
    d_step (ex_d3 FH_IGNORE 1000) = DS_RECV_WITH_CHECK_LIMIT.
  Proof. vm_compute. split; reflexivity. Qed.
  Example dest_cancel_declared :
    ex_new (ex_d2 FH_CANCEL 1000) (ex_d3 FH_CANCEL 1000) =
      [EvFinished 1 7 C_CHECKSUM_FAILURE DATA_INCOMPLETE FS_RETAINED None; EvFault FH_CANCEL 1 7 C_CHECKSUM_FAILURE 10; EvEofRecv 1 7] /\
    d_state (ex_d3 FH_CANCEL 1000) = ST_IDLE.
  Proof. vm_compute. split; reflexivity. Qed.
  Example dest_abandon_declared :
    ex_new (ex_d2 FH_ABANDON 1000) (ex_d3 FH_ABANDON 1000) = [EvFault FH_ABANDON 1 7 C_CHECKSUM_FAILURE 10; EvEofRecv 1 7] /\
    d_state (ex_d3 FH_ABANDON 1000) = ST_IDLE /\ d_step (ex_d3 FH_ABANDON 1000) = DS_IDLE /\ d_p (ex_d3 FH_ABANDON 1000) = fresh_params.
  Proof. vm_compute. repeat split; reflexivity. Qed.

  (* "no call delivers two callbacks with the same condition" is FALSE for the receiver when the check timer interval is 0:
     the verification that fails when the EOF arrives starts the check timer, which has expired at once, so the check
     limit handling of the same call verifies (and declares) again *)
  Example dest_same_condition_twice_with_zero_check_interval :
    ex_new (ex_d2 FH_IGNORE 0) (ex_d3 FH_IGNORE 0) =
      [EvFault FH_IGNORE 1 7 C_CHECKSUM_FAILURE 10; EvFault FH_IGNORE 1 7 C_CHECKSUM_FAILURE 10; EvEofRecv 1 7].
  Proof. vm_compute. reflexivity. Qed.

  (* ---- receiver, (3): the condition of the cancel callback is what Transaction-Finished reports (dest_cancel_declared above).
          Defect F35 (found as the second alternative of the former [cond_ok]; repaired): acknowledged transfer of 5 bytes,
          Metadata, File Data (0,4), EOF (no error, 5), ACK retrieved, poll (NAK (4,5)), then File Data (4, 4 bytes), which
          closes the gap and reaches beyond the EOF's file size: File Size Error, cancel callback.  Before the repair the
          deferred procedure of the same call verified the checksum and the transaction was reported No Error / Data
          Complete; now the condition of the callback stands: Finished (File Size Error, Data Incomplete) to user and peer *)
  Definition ex_acfg : lcfg :=
    mkLcfg 2 2 true true true true default_fault_table 1000 [rc 1 (Some 4) false ACKED CK_CRC32 3 false].
  Definition ex_ah : hdr := mkHdr TOWARDS_RECEIVER ACKED false false 1 2 2 7 2.
  Definition ex_d5 := test_data 5.
  Definition ex_ck5 : bytes := match calculate_checksum CK_CRC32 (Some ex_d5) 5 4 with Ok c => c | Err _ => [] end.
  Definition ex_b4 : dst :=
    ex_dsm None (ex_dsm (Some (PEof ex_ah C_NO_ERROR ex_ck5 5 None))
        (ex_dsm (Some (PFileData ex_ah 0 (ztake 4 ex_d5)))
          (ex_dsm (Some (PMetadata ex_ah false CK_CRC32 5 (Some ([1], [2])) [])) (dst_init ex_acfg)))).
  Definition ex_b5 : dst := fst (Dest.state_machine (Some (PFileData ex_ah 4 (zdrop 4 ex_d5 ++ [9; 9; 9]))) ex_b4).
  Example cancel_condition_stands_after_gap_closed :
    d_step ex_b4 = DS_WAITING_FOR_MISSING_DATA /\ p_tracker (d_p ex_b4) = [(4, 5)] /\
    ex_new ex_b4 ex_b5 =
      [EvFinished 1 7 C_FILE_SIZE_ERROR DATA_INCOMPLETE FS_RETAINED None; EvFault FH_CANCEL 1 7 C_FILE_SIZE_ERROR 4; EvSegmentRecv 1 7 4 4] /\
    (exists h, d_queue ex_b5 = [PFinished h C_FILE_SIZE_ERROR DATA_INCOMPLETE FS_RETAINED None]) /\
    p_disp (d_p ex_b5) = DISP_CANCELED.
  Proof. vm_compute. repeat split; try reflexivity. eexists; reflexivity. Qed.

  (* ---- sender: acknowledged transfer, the EOF is never acknowledged, positive ACK limit 1; Positive ACK Limit Reached
          configured as k *)
  Definition ex_scfg (k : Z) : lcfg :=
    mkLcfg 1 2 true true true true (ex_tb C_POS_ACK_LIMIT k) 1000 [rc 2 (Some 4) false ACKED CK_CRC32 1 false].
  Definition ex_ssm (pkt : option pdu) (s : src) : src := fst (drain_s (fst (state_machine_s pkt s))).
  Definition ex_s0 (k : Z) : src :=
    fst (put_request (mkPut 2 2 None None (Some ([1], [2])) None) (src_fresh (ex_scfg k) 0 16 [([1], File ex_data)])).
  Fixpoint ex_iter (n : nat) (s : src) : src := match n with O => s | S m => ex_iter m (ex_ssm None s) end.
  Definition ex_tick (ms : Z) (s : src) : src := s <| s_env ::= (fun e => e <| e_now ::= Z.add ms |>) |>.
  Definition ex_s7 (k : Z) : src := ex_tick 1000 (ex_iter 5 (ex_s0 k)).
  Definition ex_s8 k := fst (state_machine_s None (ex_s7 k)).
  Definition ex_snew (s s' : src) : list event := firstn (length (log_s s') - length (log_s s)) (log_s s').

  (* an ignored limit fault lets the positive ACK procedure carry on (F34 repair): the EOF is re-sent after the callback, so
     the callback is no longer the newest event of the call ("new = EvFault ... :: older", true before the repair, is false) *)
  Example source_ignore_declared :
    s_step (ex_s7 FH_IGNORE) = SS_WAITING_FOR_EOF_ACK /\
    ex_snew (ex_s7 FH_IGNORE) (ex_s8 FH_IGNORE) = [EvEofSent 1 0; EvFault FH_IGNORE 1 0 C_POS_ACK_LIMIT 10] /\
    (exists h ck, s_queue (ex_s8 FH_IGNORE) = [PEof h C_NO_ERROR ck 10 None]) /\
    q_ack_counter (s_p (ex_s8 FH_IGNORE)) = 1 /\ q_ack_timer (s_p (ex_s8 FH_IGNORE)) = Some (1000, 1000) /\
    (* the next call, before the next expiry, declares nothing *)
    ex_snew (fst (drain_s (ex_s8 FH_IGNORE))) (fst (state_machine_s None (fst (drain_s (ex_s8 FH_IGNORE))))) = [].
  Proof. vm_compute. split; [reflexivity|]. split; [reflexivity|]. split; [eexists _, _; reflexivity|]. repeat split; reflexivity. Qed.
  Example source_cancel_declared :
    ex_snew (ex_s7 FH_CANCEL) (ex_s8 FH_CANCEL) = [EvFault FH_CANCEL 1 0 C_POS_ACK_LIMIT 10; EvEofSent 1 0] /\
    (exists h ck, s_queue (ex_s8 FH_CANCEL) = [PEof h C_POS_ACK_LIMIT ck 10 None]) /\
    s_step (ex_s8 FH_CANCEL) = SS_WAITING_FOR_EOF_ACK.
  Proof. vm_compute. split; [reflexivity|]. split; [eexists _, _; reflexivity | reflexivity]. Qed.
  Example source_abandon_declared :
    ex_snew (ex_s7 FH_ABANDON) (ex_s8 FH_ABANDON) = [EvFault FH_ABANDON 1 0 C_POS_ACK_LIMIT 10] /\
    s_state (ex_s8 FH_ABANDON) = ST_IDLE /\ s_queue (ex_s8 FH_ABANDON) = [] /\ s_ready (ex_s8 FH_ABANDON) = 0.
  Proof. vm_compute. repeat split; reflexivity. Qed.
  (* the EOF (cancel) is not acknowledged either: the next limit fault abandons, reporting the condition of the
     cancellation in progress; so does a cancel request *)
  Definition ex_s9 := ex_tick 1000 (fst (drain_s (ex_s8 FH_CANCEL))).
  Example source_abandon_during_cancel :
    q_cond_eof (s_p ex_s9) = Some C_POS_ACK_LIMIT /\
    ex_snew ex_s9 (fst (state_machine_s None ex_s9)) = [EvFault FH_ABANDON 1 0 C_POS_ACK_LIMIT 10] /\
    ex_snew ex_s9 (fst (cancel_request_s 1 0 ex_s9)) = [EvFault FH_ABANDON 1 0 C_POS_ACK_LIMIT 10] /\
    s_state (fst (state_machine_s None ex_s9)) = ST_IDLE.
  Proof. vm_compute. repeat split; reflexivity. Qed.
End Examples.

(* ================================================================== the three procedures whose limit fault is IGNOREd,
   exactly (F34 repair) *)
Local Opaque checksum_calculation.
Ltac ft_eqbs := change (FH_IGNORE =? FH_CANCEL) with false; change (FH_IGNORE =? FH_ABANDON) with false;
  change (FH_IGNORE =? FH_IGNORE) with true; cbv iota.
(* sender, Positive ACK Limit Reached configured as IGNORE *)
Lemma source_pos_ack_limit_ignored_continues : forall s r tm a b ce ck,
  q_ack_timer (s_p s) = Some tm -> q_rcfg (s_p s) = Some r -> timed_out (now_s s) tm = true ->
  r_ack_limit r <= q_ack_counter (s_p s) + 1 ->
  get_fault_handler (l_faults (s_cfg s)) C_POS_ACK_LIMIT = Some FH_IGNORE ->
  q_tid (s_p s) = Some (a, b) -> q_cond_eof (s_p s) = Some ce ->
  snd (checksum_calculation (q_progress (s_p s)) s) = Ok ck ->
  exists s', handle_positive_ack_procedures_s s = (s', Ok tt) /\
    log_s s' = (if l_ind_eof_sent (s_cfg s) then [EvEofSent a b] else []) ++
               EvFault FH_IGNORE a b C_POS_ACK_LIMIT (q_progress (s_p s)) :: log_s s /\
    s_queue s' = s_queue s ++ [PEof (hdr_of (q_conf (s_p s)) TOWARDS_RECEIVER) ce ck (q_progress (s_p s)) None] /\
    s_ready s' = s_ready s + 1 /\
    s_p s' = (s_p s) <| q_ack_timer := Some (now_s s, snd tm) |> <| q_ack_counter := q_ack_counter (s_p s) + 1 |> /\
    s_state s' = s_state s /\ s_step s' = s_step s /\
    (* not declared again before the next expiry *)
    (0 < snd tm -> handle_positive_ack_procedures_s s' = (s', Ok tt)).
Proof.
  intros s r tm a b ce ck Ht Hr Hto Hlim Hf Htid Hce Hck.
  assert (Hl : (r_ack_limit r <=? q_ack_counter (s_p s) + 1) = true) by (apply Z.leb_le; exact Hlim).
  destruct s as [cfg st step ready q p sb pt sc sbits env]; destruct env as [nw fs rw lg].
  destruct p as [tid ckt ackt ackc cex pr sl fsz ef mdo fin rc cl cf].
  unfold now_s in *. cbn in Ht, Hr, Hto, Hl, Hf, Htid, Hce, Hck. subst tid ackt rc cex.
  unfold handle_positive_ack_procedures_s. cbn. unfold bind. cbn. rewrite Hto. cbn. rewrite Hl.
  cbn. unfold bind. cbn. rewrite ?Hf. ft_eqbs. cbn. unfold bind. cbn. unfold fault_ignored. cbn. rewrite ?Hf. ft_eqbs. cbn.
  match type of Hck with snd (checksum_calculation _ ?s0) = _ =>
    match goal with |- context [checksum_calculation ?p ?s1] => rewrite (cc_frame p s0 s1) by reflexivity end end.
  rewrite Hck. cbn. unfold bind. cbn.
  destruct (l_ind_eof_sent cfg); cbn; unfold bind; cbn;
  (eexists; split; [reflexivity|]; cbn; repeat (split; [reflexivity|]));
  intro Hp; assert (Hn : (snd tm <=? nw - nw) = false) by (apply Z.leb_gt; lia);
  unfold timed_out; cbn; rewrite Hn; reflexivity.
Qed.

(* the check timer of the sender has not expired: nothing happens *)
Lemma source_check_limit_waits : forall s tm,
  q_check_timer (s_p s) = Some tm -> timed_out (now_s s) tm = false -> handle_wait_for_finish None s = (s, Ok tt).
Proof.
  intros s tm Ht Hto.
  destruct s as [cfg st step ready q p sb pt sc sbits env]; destruct env as [nw fs rw lg].
  destruct p as [tid ckt ackt ackc cex pr sl fsz ef mdo fin rc cl cf].
  unfold now_s in *. cbn in Ht, Hto. subst ckt.
  unfold handle_wait_for_finish. cbn. unfold bind. cbn.
  destruct (st =? ST_IDLE); cbn; [|destruct (sc_mode cf =? ACKED); cbn]; unfold bind; cbn; rewrite Hto; reflexivity.
Qed.

(* sender, Check Limit Reached (waiting for the Finished PDU) configured as IGNORE: the check timer is restarted *)
Lemma source_check_limit_ignored_continues : forall s tm a b,
  q_check_timer (s_p s) = Some tm -> timed_out (now_s s) tm = true ->
  get_fault_handler (l_faults (s_cfg s)) C_CHECK_LIMIT = Some FH_IGNORE -> q_tid (s_p s) = Some (a, b) ->
  exists s', handle_wait_for_finish None s = (s', Ok tt) /\
    log_s s' = EvFault FH_IGNORE a b C_CHECK_LIMIT (q_progress (s_p s)) :: log_s s /\
    s_p s' = (s_p s) <| q_check_timer := Some (now_s s, snd tm) |> /\
    s_queue s' = s_queue s /\ s_ready s' = s_ready s /\ s_state s' = s_state s /\ s_step s' = s_step s /\
    (0 < snd tm -> handle_wait_for_finish None s' = (s', Ok tt)).
Proof.
  intros s tm a b Ht Hto Hf Htid.
  destruct s as [cfg st step ready q p sb pt sc sbits env]; destruct env as [nw fs rw lg].
  destruct p as [tid ckt ackt ackc cex pr sl fsz ef mdo fin rc cl cf].
  unfold now_s in *. cbn in Ht, Hto, Hf, Htid. subst tid ckt.
  assert (Hw : 0 < snd tm -> timed_out nw (nw, snd tm) = false).
  { intro Hp. unfold timed_out. cbn [fst snd]. apply Z.leb_gt. lia. }
  unfold handle_wait_for_finish. cbn. unfold bind. cbn.
  destruct (st =? ST_IDLE); cbn; [|destruct (sc_mode cf =? ACKED); cbn]; unfold bind; cbn; rewrite Hto; cbn; unfold bind; cbn;
    rewrite ?Hf; ft_eqbs; cbn; unfold bind; cbn; unfold fault_ignored; cbn; rewrite ?Hf; ft_eqbs; cbn;
    (eexists; split; [reflexivity|]; repeat (split; [reflexivity|]));
    intro Hp; (eapply source_check_limit_waits; [reflexivity | apply Hw, Hp]).
Qed.

(* receiver, Check Limit Reached configured as IGNORE: after the callback the check counter is incremented and the check
   timer restarted, exactly as below the limit *)
Lemma dest_check_limit_ignored_continues : forall s s1 tm r r' a b t0 tmo,
  p_check_timer (d_p s) = Some tm -> p_rcfg (d_p s) = Some r -> timed_out (now_d s) tm = true ->
  checksum_verify s = (s1, Ok false) ->
  p_rcfg (d_p s1) = Some r' -> r_check_limit r' <= p_check_count (d_p s1) + 1 ->
  get_fault_handler (l_faults (d_cfg s1)) C_CHECK_LIMIT = Some FH_IGNORE ->
  p_tid (d_p s1) = Some (a, b) -> p_check_timer (d_p s1) = Some (t0, tmo) ->
  check_limit_handling s =
    (s1 <| d_env ::= (fun en => en <| e_log ::= cons (EvFault FH_IGNORE a b C_CHECK_LIMIT (p_progress (d_p s1))) |>) |>
        <| d_p ::= (fun p => p <| p_check_count ::= (fun c => c + 1) |> <| p_check_timer := Some (now_d s, tmo) |>) |>, Ok tt).
Proof.
  intros s s1 tm r r' a b t0 tmo Ht Hr Hto Hcv Hr' Hlim Hf Htid Ht'.
  assert (Hl : (r_check_limit r' <=? p_check_count (d_p s1) + 1) = true) by (apply Z.leb_le; exact Hlim).
  unfold check_limit_handling, rcfg_or_assert, gp, now, now_d in *.
  unfold bind at 1, gets at 1. rewrite Ht. unfold bind at 1. unfold bind at 1, gets at 1. rewrite Hr. unfold ret at 1. cbv beta iota.
  unfold bind at 1, gets at 1. rewrite Hto. unfold bind at 1. rewrite Hcv. cbv beta iota.
  unfold bind at 1, gets at 1. unfold bind at 1, gets at 1. rewrite Hr'. cbv zeta. rewrite Hl.
  unfold bind at 1. unfold declare_fault. unfold bind at 1, gets at 1. unfold bind at 1, gp at 1, gets at 1.
  unfold bind at 1, gp at 1, gets at 1. rewrite Htid, Hf.
  change (FH_IGNORE =? FH_CANCEL) with false. change (FH_IGNORE =? FH_ABANDON) with false. cbv iota.
  unfold bind at 1, ret at 1. unfold bind at 1, emit at 1, modify at 1. unfold ret at 1.
  change (FH_IGNORE =? FH_IGNORE) with true. cbv iota.
  unfold bind at 1, gets at 1. cbn [d_p set]. 
  destruct s1 as [cfg st step stid ready q p env]. cbn in Ht' |- *. rewrite Ht'. reflexivity.
Qed.

(* the check timer of the receiver has not expired: nothing happens *)
Lemma dest_check_limit_waits : forall s tm r,
  p_check_timer (d_p s) = Some tm -> p_rcfg (d_p s) = Some r -> timed_out (now_d s) tm = false ->
  check_limit_handling s = (s, Ok tt).
Proof.
  intros s tm r Ht Hr Hto. unfold check_limit_handling, rcfg_or_assert, gp, now, now_d in *.
  unfold bind at 1, gets at 1. rewrite Ht. unfold bind at 1. unfold bind at 1, gets at 1. rewrite Hr. unfold ret at 1. cbv beta iota.
  unfold bind at 1, gets at 1. rewrite Hto. reflexivity.
Qed.

Print Assumptions source_pos_ack_limit_ignored_continues.
Print Assumptions source_check_limit_ignored_continues.
Print Assumptions dest_check_limit_ignored_continues.
Print Assumptions dest_fault_events_follow_table.
Print Assumptions dest_abandon_is_final.
Print Assumptions fault_kinds.
Print Assumptions dest_state_machine_cancel_post.
Print Assumptions dest_cancel_condition_reported.
Print Assumptions deferred_cancelled_noop.
Print Assumptions source_one_fault_callback.
Print Assumptions source_fault_events_follow_table.
