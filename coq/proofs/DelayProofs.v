(* DelayProofs.v — proofs for the unbounded instances K = 1 of property C03 for DELAY (props/C03y.v): in acknowledged mode
   the two-entity system of System.v delivers EVERY file although the link HOLDS BACK one PDU of the transfer for [d]
   rounds (fault kind 2: the PDU emitted in round r is handed to the link in round r + d, before the PDUs emitted in that
   round; d <= 1 on the receiver -> sender direction is no delay at all, d <= 1 on the sender -> receiver direction makes
   the PDU one round late without reordering).  A held-back PDU looks like a lost one until it is released and like a
   late / duplicate arrival afterwards; [System.run] does not stop while a PDU is held back, so a PDU released after both
   handlers have closed the transaction is delivered to their surrounding entities (which drop it; a late EOF PDU is
   acknowledged "terminated", a late Finished PDU likewise).
     0. the receiver and a File Data PDU that arrives late (fills the one recorded gap, wherever the last segment started),
     1. the scheduler of System.v on a link that delays one PDU: [ZD] (system state with the PDUs held back), [held],
        [rel0]/[rel1]/[kept] (release at the start of a round), one-by-one delivery to busy and idle handlers,
     2. rounds composed of a sender half and a receiver half ([SAll]/[DAll] with constructors for the four things that can
        happen to an inbound PDU, [SHalf]/[DHalf], [round_K]) with the exact bookkeeping of the surrounding entities ([BK]),
     3. the two-entity system: [St] (state between two rounds), [St_round], [k_step]/[k_idle]/[k_last], the halves of the
        handlers, the fault-free prefix, per held-back control PDU the rounds until it is released - with the idle
        rounds in which a Positive-ACK timer may expire - and the runs after the release (PathA .. PathD);
        a held-back File Data PDU released no later than in the round of the EOF PDU (PathF: the gap is recorded, the
        PDUs that overtake it are received in order, the late PDU fills the gap; deferred NAK mode, or no reordering),
        the Metadata PDU held back for one round,
     4. the theorems: control PDUs (any d), File Data (release before the EOF PDU is processed), Metadata (d <= 1),
     5. instances, among them every PDU of 5- and 9-byte files held back for 1 .. 30 rounds in both NAK modes, and what a
        late Metadata PDU does to a receiver handler without its surrounding entity (it truncates the delivered file).
   Built on ControlLossProofs.v ([surv]/[hit], [ncur]/[ndone], [TailT], [RA]/[RE]/[RW]/[RF], [FinalG]), DuplicateProofs.v
   (handler lemmas for second copies) and SingleLossProofs.v (the receiver with a gap).  Closed under the global context. *)
From CFDP Require Import Base LostSeg Fs Crc Checksum Handler Dest Source HandlerSpec SourceSpec System SystemCases.
From CFDP.gen Require Import Tables.
From CFDP.proofs Require Import ChecksumProofs FsProofs StreamProofs RetransmitProofs PerfectLinkProofs PerfectLinkAckedProofs
  SingleLossProofs ControlLossProofs DuplicateProofs.
From RecordUpdate Require Import RecordSet.
Import RecordSetNotations.
Local Arguments Z.add : simpl never. Local Arguments Z.sub : simpl never. Local Arguments Z.mul : simpl never.
Local Arguments Z.pow : simpl never. Local Arguments Z.div : simpl never. Local Arguments Z.min : simpl never.
Local Arguments Z.max : simpl never. Local Arguments Z.to_nat : simpl never.
Local Arguments Z.ltb !x !y : simpl nomatch. Local Arguments Z.leb !x !y : simpl nomatch.
Local Arguments Z.eqb !x !y : simpl nomatch. Local Arguments Z.of_nat !n : simpl nomatch.
Local Arguments write_at : simpl never.
Local Arguments set_node : simpl never.
Local Opaque calculate_checksum.

(* ================================================================== *)
(* 0. the receiver and a File Data PDU that arrives late               *)
(* ================================================================== *)
Section ReceiverK.
Variables (cd : lcfg) (rd : rcfg) (x : Z) (crc large clo : bool) (srcid idw seq seqw ckt fsz : Z).
Hypothesis Hrem : get_remote (l_remotes cd) srcid = Some rd.

Notation hA' := (hA cd crc large srcid idw seq seqw).
Notation DR' := (DR cd rd x crc large clo srcid idw seq seqw ckt fsz).

Ltac unfX := unfold DR, dX, dpX, hB, fin0, fin1.
Ltac rc_one a e :=
  let E := fresh "Erc" in
  assert (E : (a <? e) = true) by (apply Z.ltb_lt; lia);
  cbn [fold_left]; mrun; unfold remove_covered; cbn [fst snd]; rewrite E, Z.max_id, Z.min_id; cbn [andb]; mrun;
  rewrite remove_one by lia; mrun; clear E.
Ltac wr Hl := unfold vfs_write; mrun; cbn [e_fs]; unfold fs_write_data; rewrite Hl; cbv iota; mrun.
Ltac evlog := (destruct (l_ind_seg cd); mrun; apply catch_ok; mrun; unfold lost_segment_handling; mrun).

(* the File Data PDU that was overtaken by others fills the one recorded gap exactly, wherever the last segment received
   in order started ([ls] at or after the end of the gap): the tracker is empty again, progress and last segment stay *)
Lemma hfd_fill_late : forall a prog ls data fs lg old, lookup fs [x] = Some (File old) -> 0 < zlen data ->
  a + zlen data <= ls -> a + zlen data <= prog ->
  handle_fd_pdu a data (DR' prog [(a, a + zlen data)] ls prog fs lg) =
    (DR' (Z.max (a + zlen data) prog) [] ls prog
        (set_node fs [x] (File (write_at old a data)))
        (if l_ind_seg cd then EvSegmentRecv srcid seq a (zlen data) :: lg else lg), Ok tt).
Proof.
  intros a prog ls data fs lg old Hl Hpos Hls Hle.
  assert (E1 : (prog <? a) = false) by (apply Z.ltb_ge; lia).
  assert (E2 : (prog <=? a) = false) by (apply Z.leb_gt; lia).
  assert (E3 : (a + zlen data <=? ls) = true) by (apply Z.leb_le; lia).
  unfold handle_fd_pdu. unfX. mrun.
  evlog; rewrite E1; mrun; rewrite E2; mrun; rewrite E3; mrun;
    rc_one a (a + zlen data); wr Hl; reflexivity.
Qed.

Lemma sm_fd_fill_late : forall a prog ls data fs lg old, lookup fs [x] = Some (File old) -> 0 < zlen data ->
  a + zlen data <= ls -> a + zlen data <= prog ->
  Dest.state_machine (Some (PFileData hA' a data)) (DR' prog [(a, a + zlen data)] ls prog fs lg) =
    (DR' (Z.max (a + zlen data) prog) [] ls prog
        (set_node fs [x] (File (write_at old a data)))
        (if l_ind_seg cd then EvSegmentRecv srcid seq a (zlen data) :: lg else lg), Ok tt).
Proof.
  intros a prog ls data fs lg old Hl Hpos Hls Hle.
  rewrite (sm_busy cd rd crc large srcid idw seq seqw Hrem) by reflexivity.
  unfold catch_abandoned; apply catch_ok; change 3%nat with (S 2); cbn [non_idle_fsm]; unfX.
  unfold fsm_advancement at 1; mrun.
  match goal with |- bind (handle_fd_pdu ?o ?dt) _ ?st = _ =>
    let H := fresh "Hfd" in
    pose proof (hfd_fill_late a prog ls data fs lg old Hl Hpos Hls Hle) as H;
    match type of H with _ = (?st', _) =>
      rewrite (b_ok _ _ _ _ _ (H : handle_fd_pdu o dt st = (st', Ok tt))) end; clear H
  end.
  unfX. mrun. reflexivity.
Qed.
End ReceiverK.

(* a call without a PDU on the receiver that has not seen anything yet *)
Lemma sm_idle_init : forall cd, Dest.state_machine None (dst_init cd) = (dst_init cd, Ok tt).
Proof.
  intro cd. unfold Dest.state_machine, dst_init. mrun.
  unfold catch_abandoned; apply catch_ok. mrun. unfold idle_fsm. mrun. reflexivity.
Qed.

Local Opaque state_machine_s Dest.state_machine.

Ltac ypr :=
  unfold set; cbv beta;
  cbn [y_src y_dst y_s2d y_d2s y_cnt_s2d y_cnt_d2s y_delayed y_round y_src_cur y_dst_cur y_src_done y_dst_done
       y_errs y_faults fst snd].

(* ================================================================== *)
(* 1. the scheduler of System.v on a link that delays one PDU          *)
(* ================================================================== *)
(* the system between two API calls: [dl] delayed PDUs (release round, direction, PDU) *)
Definition ZD (ft : fault) (er : list (Z * Z)) (s : src) (dd : dst) (q1 q2 : list pdu) (c1 c2 : Z)
           (dl : list (Z * Z * pdu)) (rnd : Z) (scur dcur : option (Z * Z)) (sdone ddone : list (Z * Z)) : sys :=
  mkSys s dd q1 q2 c1 c2 dl rnd scur dcur sdone ddone er [ft].

(* the PDUs the link holds back of [ps], emitted as number [c], [c + 1], ... on direction [dir] in round [rnd] *)
Fixpoint held (ft : fault) (dir c rnd : Z) (ps : list pdu) : list (Z * Z * pdu) :=
  match ps with
  | [] => []
  | p :: t => if hit ft dir c then (rnd + ft_arg ft, dir, p) :: held ft dir (c + 1) rnd t else held ft dir (c + 1) rnd t
  end.

(* what the link releases in round [rnd], and what it keeps *)
Fixpoint rel0 (rnd : Z) (dl : list (Z * Z * pdu)) : list pdu :=
  match dl with
  | [] => []
  | (r, d, p) :: t => if (r <=? rnd) && (d =? 0) then p :: rel0 rnd t else rel0 rnd t
  end.
Fixpoint rel1 (rnd : Z) (dl : list (Z * Z * pdu)) : list pdu :=
  match dl with
  | [] => []
  | (r, d, p) :: t => if (r <=? rnd) && negb (d =? 0) then p :: rel1 rnd t else rel1 rnd t
  end.
Fixpoint kept (rnd : Z) (dl : list (Z * Z * pdu)) : list (Z * Z * pdu) :=
  match dl with
  | [] => []
  | (r, d, p) :: t => if r <=? rnd then kept rnd t else (r, d, p) :: kept rnd t
  end.

Lemma release_ZD : forall ft dl er s dd q1 q2 c1 c2 dl0 rnd scur dcur sdone ddone,
  fold_left (fun y e => let '(r, d, p) := e in
                        if r <=? y_round y then link_push d [p] y
                        else y <| y_delayed ::= (fun l => l ++ [e]) |>)
            dl (ZD ft er s dd q1 q2 c1 c2 dl0 rnd scur dcur sdone ddone) =
  ZD ft er s dd (q1 ++ rel0 rnd dl) (q2 ++ rel1 rnd dl) c1 c2 (dl0 ++ kept rnd dl) rnd scur dcur sdone ddone.
Proof.
  intros ft dl. unfold ZD. induction dl as [|[[r d] p] t IH]; intros er s dd q1 q2 c1 c2 dl0 rnd scur dcur sdone ddone.
  - cbn [fold_left rel0 rel1 kept]. rewrite !app_nil_r. reflexivity.
  - cbn [fold_left rel0 rel1 kept]. ypr.
    destruct (r <=? rnd); cbn [andb].
    + unfold link_push. destruct (d =? 0); cbn [negb]; ypr; rewrite IH; rewrite <- app_assoc; reflexivity.
    + rewrite IH. rewrite <- app_assoc. reflexivity.
Qed.

Section SchedK.
Variable ft : fault.
Hypothesis Hk : ft_kind ft = 2.

Lemma emit_k0 : forall ps er s dd q1 q2 c1 c2 dl rnd scur dcur sdone ddone,
  emit_pdus 0 ps (ZD ft er s dd q1 q2 c1 c2 dl rnd scur dcur sdone ddone) =
  ZD ft er s dd (q1 ++ surv ft 0 c1 ps) q2 (c1 + zlen ps) c2 (dl ++ held ft 0 c1 rnd ps) rnd scur dcur sdone ddone.
Proof.
  unfold ZD. induction ps as [|p t IH]; intros er s dd q1 q2 c1 c2 dl rnd scur dcur sdone ddone.
  - cbn [emit_pdus surv held]. rewrite !app_nil_r. change (zlen (@nil pdu)) with 0. rewrite Z.add_0_r. reflexivity.
  - pose proof (zlen_cons _ p t) as Hz.
    cbn [emit_pdus surv held]. ypr. change (0 =? 0) with true. cbv iota. ypr.
    cbn [find_fault]. fold (hit ft 0 c1). destruct (hit ft 0 c1); cbv iota.
    + rewrite Hk. change (2 =? 0) with false. change (2 =? 1) with false. cbv iota. ypr. rewrite IH.
      rewrite <- app_assoc. cbn [app]. rewrite Hz. f_equal. lia.
    + unfold link_push. change (0 =? 0) with true. cbv iota. ypr. rewrite IH.
      rewrite <- app_assoc. cbn [app]. rewrite Hz. f_equal. lia.
Qed.

Lemma emit_k1 : forall ps er s dd q1 q2 c1 c2 dl rnd scur dcur sdone ddone,
  emit_pdus 1 ps (ZD ft er s dd q1 q2 c1 c2 dl rnd scur dcur sdone ddone) =
  ZD ft er s dd q1 (q2 ++ surv ft 1 c2 ps) c1 (c2 + zlen ps) (dl ++ held ft 1 c2 rnd ps) rnd scur dcur sdone ddone.
Proof.
  unfold ZD. induction ps as [|p t IH]; intros er s dd q1 q2 c1 c2 dl rnd scur dcur sdone ddone.
  - cbn [emit_pdus surv held]. rewrite !app_nil_r. change (zlen (@nil pdu)) with 0. rewrite Z.add_0_r. reflexivity.
  - pose proof (zlen_cons _ p t) as Hz.
    cbn [emit_pdus surv held]. ypr. change (1 =? 0) with false. cbv iota. ypr.
    cbn [find_fault]. fold (hit ft 1 c2). destruct (hit ft 1 c2); cbv iota.
    + rewrite Hk. change (2 =? 0) with false. change (2 =? 1) with false. cbv iota. ypr. rewrite IH.
      rewrite <- app_assoc. cbn [app]. rewrite Hz. f_equal. lia.
    + unfold link_push. change (1 =? 0) with false. cbv iota. ypr. rewrite IH.
      rewrite <- app_assoc. cbn [app]. rewrite Hz. f_equal. lia.
Qed.

Lemma nds_k : forall fl er s dd q1 q2 c1 c2 dl rnd scur dcur sdone ddone,
  note_done_src (mkSys s dd q1 q2 c1 c2 dl rnd scur dcur sdone ddone er fl) =
  mkSys s dd q1 q2 c1 c2 dl rnd (ncur (s_state s =? ST_BUSY) (q_tid (s_p s)) scur) dcur
     (ndone (s_state s =? ST_BUSY) scur sdone) ddone er fl.
Proof.
  intros. unfold note_done_src, ncur, ndone. ypr.
  destruct (s_state s =? ST_BUSY); [destruct (q_tid (s_p s))|destruct scur]; reflexivity.
Qed.
Lemma ndd_k : forall fl er s dd q1 q2 c1 c2 dl rnd scur dcur sdone ddone,
  note_done_dst (mkSys s dd q1 q2 c1 c2 dl rnd scur dcur sdone ddone er fl) =
  mkSys s dd q1 q2 c1 c2 dl rnd scur (ncur (d_state dd =? ST_BUSY) (p_tid (d_p dd)) dcur) sdone
     (ndone (d_state dd =? ST_BUSY) dcur ddone) er fl.
Proof.
  intros. unfold note_done_dst, ncur, ndone. ypr.
  destruct (d_state dd =? ST_BUSY); [destruct (p_tid (d_p dd))|destruct dcur]; reflexivity.
Qed.

(* ---- one API call *)
Lemma call_src_k : forall pkt s s' ps er dd q1 q2 c1 c2 dl rnd scur dcur sdone ddone,
  pump_with pkt s = (s', Ok ps) -> Forall onw ps ->
  call_src pkt (ZD ft er s dd q1 q2 c1 c2 dl rnd scur dcur sdone ddone) =
   (ZD ft er s' dd (q1 ++ surv ft 0 c1 ps) q2 (c1 + zlen ps) c2 (dl ++ held ft 0 c1 rnd ps) rnd
       (ncur (s_state s' =? ST_BUSY) (q_tid (s_p s')) scur) dcur (ndone (s_state s' =? ST_BUSY) scur sdone) ddone,
    zlen ps).
Proof.
  intros pkt s s' ps er dd q1 q2 c1 c2 dl rnd scur dcur sdone ddone H Ho.
  unfold pump_with in H.
  destruct (state_machine_s pkt s) as [s1 [u|e]] eqn:Hsm; [|discriminate H].
  assert (Es1 : s_state (fst (drain_s s1)) = s_state s1) by reflexivity.
  assert (Es2 : q_tid (s_p (fst (drain_s s1))) = q_tid (s_p s1)) by reflexivity.
  destruct (drain_s s1) as [s2 ps2] eqn:Ed. cbn [fst] in Es1, Es2. injection H as -> ->.
  rewrite Es1, Es2.
  unfold call_src, ZD. ypr. rewrite Hsm. ypr. rewrite nds_k. ypr. rewrite Ed.
  change (fun p => match on_wire p with Some q => [q] | None => [] end) with ow.
  rewrite (ow_all _ Ho). exact (f_equal (fun y => (y, zlen ps)) (emit_k0 ps er s' dd q1 q2 c1 c2 dl rnd _ dcur _ ddone)).
Qed.

Lemma call_dst_k : forall pkt dd dd1 dd' outs er s q1 q2 c1 c2 dl rnd scur dcur sdone ddone,
  Dest.state_machine pkt dd = (dd1, Ok tt) -> drain_d dd1 = (dd', outs) -> Forall onw outs ->
  call_dst pkt (ZD ft er s dd q1 q2 c1 c2 dl rnd scur dcur sdone ddone) =
   (ZD ft er s dd' q1 (q2 ++ surv ft 1 c2 outs) c1 (c2 + zlen outs) (dl ++ held ft 1 c2 rnd outs) rnd scur
       (ncur (d_state dd' =? ST_BUSY) (p_tid (d_p dd')) dcur) sdone (ndone (d_state dd' =? ST_BUSY) dcur ddone),
    zlen outs).
Proof.
  intros pkt dd dd1 dd' outs er s q1 q2 c1 c2 dl rnd scur dcur sdone ddone H1 Hdr Ho.
  assert (Es1 : d_state (fst (drain_d dd1)) = d_state dd1) by reflexivity.
  assert (Es2 : p_tid (d_p (fst (drain_d dd1))) = p_tid (d_p dd1)) by reflexivity.
  rewrite Hdr in Es1, Es2. cbn [fst] in Es1, Es2. rewrite Es1, Es2.
  unfold call_dst, ZD. ypr. rewrite H1. ypr. rewrite ndd_k. ypr. rewrite Hdr.
  change (fun p => match on_wire p with Some q => [q] | None => [] end) with ow.
  rewrite (ow_all _ Ho). exact (f_equal (fun y => (y, zlen outs)) (emit_k1 outs er s dd' q1 q2 c1 c2 dl rnd scur _ sdone _)).
Qed.

(* ---- the PDUs on their way to a handler are handed to it one after the other *)
Lemma ka_src_ok : forall pk t s s' ps er dd q1 q2 c1 c2 dl rnd scur dcur sdone ddone a,
  s_state s = ST_BUSY -> pump_with (Some pk) s = (s', Ok ps) -> Forall onw ps ->
  deliver_all deliver_to_source (pk :: t) (ZD ft er s dd q1 q2 c1 c2 dl rnd scur dcur sdone ddone) a =
  deliver_all deliver_to_source t
    (ZD ft er s' dd (q1 ++ surv ft 0 c1 ps) q2 (c1 + zlen ps) c2 (dl ++ held ft 0 c1 rnd ps) rnd
        (ncur (s_state s' =? ST_BUSY) (q_tid (s_p s')) scur) dcur (ndone (s_state s' =? ST_BUSY) scur sdone) ddone)
    (a + 1 + zlen ps).
Proof.
  intros pk t s s' ps er dd q1 q2 c1 c2 dl rnd scur dcur sdone ddone a Hb P Ho. cbn [deliver_all].
  assert (E : deliver_to_source pk (ZD ft er s dd q1 q2 c1 c2 dl rnd scur dcur sdone ddone) =
              call_src (Some pk) (ZD ft er s dd q1 q2 c1 c2 dl rnd scur dcur sdone ddone)).
  { unfold deliver_to_source, ZD. ypr. rewrite Hb. reflexivity. }
  rewrite E, (call_src_k (Some pk) s s' ps) by assumption. reflexivity.
Qed.

(* a Finished PDU for a sender that has closed the transaction: the surrounding entity acknowledges it *)
Lemma ka_src_idle_fin : forall h c dv fst0 fl0 t s er dd q1 q2 c1 c2 dl rnd scur dcur sdone ddone a,
  s_state s = ST_IDLE -> tid_mem (h_src h, h_seq h) sdone = true ->
  deliver_all deliver_to_source (PFinished h c dv fst0 fl0 :: t) (ZD ft er s dd q1 q2 c1 c2 dl rnd scur dcur sdone ddone) a =
  deliver_all deliver_to_source t
    (ZD ft er s dd (q1 ++ surv ft 0 c1 [PAck (set_dir TOWARDS_RECEIVER h) D_FINISHED c TS_TERMINATED]) q2 (c1 + 1) c2
        (dl ++ held ft 0 c1 rnd [PAck (set_dir TOWARDS_RECEIVER h) D_FINISHED c TS_TERMINATED]) rnd scur dcur sdone ddone)
    (a + 1 + 0).
Proof.
  intros h c dv fst0 fl0 t s er dd q1 q2 c1 c2 dl rnd scur dcur sdone ddone a Hi Hmem. cbn [deliver_all].
  assert (E : deliver_to_source (PFinished h c dv fst0 fl0) (ZD ft er s dd q1 q2 c1 c2 dl rnd scur dcur sdone ddone) =
              (emit_pdus 0 [PAck (set_dir TOWARDS_RECEIVER h) D_FINISHED c TS_TERMINATED]
                 (ZD ft er s dd q1 q2 c1 c2 dl rnd scur dcur sdone ddone), 0)).
  { unfold deliver_to_source. unfold ZD at 1 2 3. ypr. rewrite Hi. change (ST_IDLE =? ST_IDLE) with true. cbv iota.
    cbn [pdu_hdr]. rewrite Hmem. reflexivity. }
  rewrite E, emit_k0. reflexivity.
Qed.

(* an ACK for the idle sender: dropped *)
Lemma ka_src_idle_ack : forall h dv c st t s er dd q1 q2 c1 c2 dl rnd scur dcur sdone ddone a,
  s_state s = ST_IDLE ->
  deliver_all deliver_to_source (PAck h dv c st :: t) (ZD ft er s dd q1 q2 c1 c2 dl rnd scur dcur sdone ddone) a =
  deliver_all deliver_to_source t (ZD ft er s dd q1 q2 c1 c2 dl rnd scur dcur sdone ddone) (a + 1 + 0).
Proof.
  intros h dv c st t s er dd q1 q2 c1 c2 dl rnd scur dcur sdone ddone a Hi. cbn [deliver_all].
  assert (E : deliver_to_source (PAck h dv c st) (ZD ft er s dd q1 q2 c1 c2 dl rnd scur dcur sdone ddone) =
              (ZD ft er s dd q1 q2 c1 c2 dl rnd scur dcur sdone ddone, 0)).
  { unfold deliver_to_source. unfold ZD at 1 2. ypr. rewrite Hi. reflexivity. }
  rewrite E. reflexivity.
Qed.

(* the receiver takes the PDU *)
Lemma ka_dst_ok : forall pd t dd dd1 dd' outs er s q1 q2 c1 c2 dl rnd scur dcur sdone ddone a,
  dguard pd dd ddone ->
  Dest.state_machine (Some pd) dd = (dd1, Ok tt) -> drain_d dd1 = (dd', outs) -> Forall onw outs ->
  deliver_all deliver_to_dest (pd :: t) (ZD ft er s dd q1 q2 c1 c2 dl rnd scur dcur sdone ddone) a =
  deliver_all deliver_to_dest t
    (ZD ft er s dd' q1 (q2 ++ surv ft 1 c2 outs) c1 (c2 + zlen outs) (dl ++ held ft 1 c2 rnd outs) rnd scur
        (ncur (d_state dd' =? ST_BUSY) (p_tid (d_p dd')) dcur) sdone (ndone (d_state dd' =? ST_BUSY) dcur ddone))
    (a + 1 + zlen outs).
Proof.
  intros pd t dd dd1 dd' outs er s q1 q2 c1 c2 dl rnd scur dcur sdone ddone a [G1 G2] Hd Hdr Ho. cbn [deliver_all].
  unfold ZD at 1. rewrite deliver_to_dest_pass by assumption.
  fold (ZD ft er s dd q1 q2 c1 c2 dl rnd scur dcur sdone ddone).
  rewrite (call_dst_k (Some pd) dd dd1 dd' outs) by assumption. reflexivity.
Qed.

(* a PDU (not an EOF PDU) for a transaction the idle receiver has closed: dropped by its surrounding entity *)
Definition not_eof (pd : pdu) : Prop := match pd with PEof _ _ _ _ _ => False | _ => True end.
Lemma ka_dst_closed : forall pd t dd er s q1 q2 c1 c2 dl rnd scur dcur sdone ddone a,
  not_eof pd -> d_state dd = ST_IDLE -> tid_mem (h_src (pdu_hdr pd), h_seq (pdu_hdr pd)) ddone = true ->
  deliver_all deliver_to_dest (pd :: t) (ZD ft er s dd q1 q2 c1 c2 dl rnd scur dcur sdone ddone) a =
  deliver_all deliver_to_dest t (ZD ft er s dd q1 q2 c1 c2 dl rnd scur dcur sdone ddone) (a + 1 + 0).
Proof.
  intros pd t dd er s q1 q2 c1 c2 dl rnd scur dcur sdone ddone a Hne Hi Hmem. cbn [deliver_all].
  assert (E : deliver_to_dest pd (ZD ft er s dd q1 q2 c1 c2 dl rnd scur dcur sdone ddone) =
              (ZD ft er s dd q1 q2 c1 c2 dl rnd scur dcur sdone ddone, 0)).
  { unfold deliver_to_dest. unfold ZD at 1 2 3. ypr. rewrite Hi. change (ST_IDLE =? ST_IDLE) with true.
    cbn [andb]. rewrite Hmem. destruct pd; try reflexivity. contradiction. }
  rewrite E. reflexivity.
Qed.

(* an EOF PDU for a transaction the idle receiver has closed: its surrounding entity acknowledges it (terminated) *)
Lemma ka_dst_closed_eof : forall h c ck sz fl0 t dd er s q1 q2 c1 c2 dl rnd scur dcur sdone ddone a,
  d_state dd = ST_IDLE -> tid_mem (h_src h, h_seq h) ddone = true ->
  deliver_all deliver_to_dest (PEof h c ck sz fl0 :: t) (ZD ft er s dd q1 q2 c1 c2 dl rnd scur dcur sdone ddone) a =
  deliver_all deliver_to_dest t
    (ZD ft er s dd q1 (q2 ++ surv ft 1 c2 [PAck (set_dir TOWARDS_SENDER h) D_EOF c TS_TERMINATED]) c1 (c2 + 1)
        (dl ++ held ft 1 c2 rnd [PAck (set_dir TOWARDS_SENDER h) D_EOF c TS_TERMINATED]) rnd scur dcur sdone ddone)
    (a + 1 + 0).
Proof.
  intros h c ck sz fl0 t dd er s q1 q2 c1 c2 dl rnd scur dcur sdone ddone a Hi Hmem. cbn [deliver_all].
  assert (E : deliver_to_dest (PEof h c ck sz fl0) (ZD ft er s dd q1 q2 c1 c2 dl rnd scur dcur sdone ddone) =
              (emit_pdus 1 [PAck (set_dir TOWARDS_SENDER h) D_EOF c TS_TERMINATED]
                 (ZD ft er s dd q1 q2 c1 c2 dl rnd scur dcur sdone ddone), 0)).
  { unfold deliver_to_dest. unfold ZD at 1 2 3. ypr. rewrite Hi. change (ST_IDLE =? ST_IDLE) with true.
    cbn [pdu_hdr andb]. rewrite Hmem. reflexivity. }
  rewrite E, emit_k1. reflexivity.
Qed.

(* ---- the two halves of a round *)
Lemma step_round_ZD : forall er s dd qin c1 c2 dl rnd scur dcur sdone ddone,
  step_round (ZD ft er s dd [] qin c1 c2 dl rnd scur dcur sdone ddone) =
  (let '(y2, a2) := sphase (qin ++ rel1 (rnd + 1) dl)
                      (ZD ft er s dd (rel0 (rnd + 1) dl) [] c1 c2 (kept (rnd + 1) dl) (rnd + 1) scur dcur sdone ddone) in
   dphase y2 a2).
Proof.
  intros. unfold step_round, sphase. cbv zeta.
  assert (E : release_delayed (ZD ft er s dd [] qin c1 c2 dl rnd scur dcur sdone ddone <| y_round ::= (fun r => r + 1) |>) =
              ZD ft er s dd (rel0 (rnd + 1) dl) (qin ++ rel1 (rnd + 1) dl) c1 c2 (kept (rnd + 1) dl) (rnd + 1)
                 scur dcur sdone ddone).
  { unfold release_delayed.
    change (y_delayed (ZD ft er s dd [] qin c1 c2 dl rnd scur dcur sdone ddone <| y_round ::= (fun r => r + 1) |>)) with dl.
    change (ZD ft er s dd [] qin c1 c2 dl rnd scur dcur sdone ddone <| y_round ::= (fun r => r + 1) |> <| y_delayed := [] |>)
      with (ZD ft er s dd [] qin c1 c2 [] (rnd + 1) scur dcur sdone ddone).
    rewrite release_ZD. reflexivity. }
  rewrite E. unfold ZD. ypr.
  destruct (deliver_all deliver_to_source (qin ++ rel1 (rnd + 1) dl) _ 0) as [y1 a1].
  destruct (qin ++ rel1 (rnd + 1) dl); [destruct (call_src None y1) as [yy n]|]; reflexivity.
Qed.

Lemma sph0_k : forall s s' ps er dd q1 c1 c2 dl rnd scur dcur sdone ddone,
  pump s = (s', Ok ps) -> Forall onw ps ->
  sphase [] (ZD ft er s dd q1 [] c1 c2 dl rnd scur dcur sdone ddone) =
   (ZD ft er s' dd (q1 ++ surv ft 0 c1 ps) [] (c1 + zlen ps) c2 (dl ++ held ft 0 c1 rnd ps) rnd
       (ncur (s_state s' =? ST_BUSY) (q_tid (s_p s')) scur) dcur (ndone (s_state s' =? ST_BUSY) scur sdone) ddone,
    0 + zlen ps + (if (s_state s =? s_state s') && (s_step s =? s_step s') then 0 else 1)).
Proof.
  intros s s' ps er dd q1 c1 c2 dl rnd scur dcur sdone ddone P Ho.
  unfold sphase. cbn [deliver_all]. rewrite (call_src_k None s s' ps) by assumption. reflexivity.
Qed.

Lemma dph0_k : forall dd dd1 dd' outs er s q2 c1 c2 dl rnd scur dcur sdone ddone a2,
  Dest.state_machine None dd = (dd1, Ok tt) -> drain_d dd1 = (dd', outs) -> Forall onw outs ->
  dphase (ZD ft er s dd [] q2 c1 c2 dl rnd scur dcur sdone ddone) a2 =
   (ZD ft er s dd' [] (q2 ++ surv ft 1 c2 outs) c1 (c2 + zlen outs) (dl ++ held ft 1 c2 rnd outs) rnd scur
       (ncur (d_state dd' =? ST_BUSY) (p_tid (d_p dd')) dcur) sdone (ndone (d_state dd' =? ST_BUSY) dcur ddone),
    a2 + zlen outs + (if (d_state dd =? d_state dd') && (d_step dd =? d_step dd') then 0 else 1)).
Proof.
  intros dd dd1 dd' outs er s q2 c1 c2 dl rnd scur dcur sdone ddone a2 Hd Hdr Ho.
  unfold dphase. unfold ZD at 1 2. ypr. cbn [deliver_all].
  fold (ZD ft er s dd [] q2 c1 c2 dl rnd scur dcur sdone ddone).
  rewrite (call_dst_k None dd dd1 dd' outs) by assumption. reflexivity.
Qed.

Lemma dph_list_k : forall pd t er s dd q2 c1 c2 dl rnd scur dcur sdone ddone a2,
  dphase (ZD ft er s dd (pd :: t) q2 c1 c2 dl rnd scur dcur sdone ddone) a2 =
  deliver_all deliver_to_dest (pd :: t) (ZD ft er s dd [] q2 c1 c2 dl rnd scur dcur sdone ddone) a2.
Proof.
  intros. rewrite (dphase_cons (ZD ft er s dd (pd :: t) q2 c1 c2 dl rnd scur dcur sdone ddone) a2 pd t eq_refl). reflexivity.
Qed.
End SchedK.

Lemma qz_sbusy_k : forall ft er s dd q1 q2 c1 c2 dl rnd scur dcur sdone ddone, s_state s = ST_BUSY ->
  quiescent (ZD ft er s dd q1 q2 c1 c2 dl rnd scur dcur sdone ddone) = false.
Proof. intros. unfold quiescent, ZD. cbn [y_src]. rewrite H. reflexivity. Qed.
Lemma qz_dbusy_k : forall ft er s dd q1 q2 c1 c2 dl rnd scur dcur sdone ddone, d_state dd = ST_BUSY ->
  quiescent (ZD ft er s dd q1 q2 c1 c2 dl rnd scur dcur sdone ddone) = false.
Proof. intros. unfold quiescent, ZD. cbn [y_src y_dst]. rewrite H. rewrite andb_false_r. reflexivity. Qed.
Lemma qz_delayed_k : forall ft er s dd q1 q2 c1 c2 e dl rnd scur dcur sdone ddone,
  quiescent (ZD ft er s dd q1 q2 c1 c2 (e :: dl) rnd scur dcur sdone ddone) = false.
Proof. intros. unfold quiescent, ZD. cbn [y_src y_dst y_s2d y_d2s y_delayed]. destruct q1, q2; rewrite ?andb_false_r; reflexivity. Qed.
Lemma qz_d2s_k : forall ft er s dd q1 pk q2 c1 c2 dl rnd scur dcur sdone ddone,
  quiescent (ZD ft er s dd q1 (pk :: q2) c1 c2 dl rnd scur dcur sdone ddone) = false.
Proof. intros. unfold quiescent, ZD. cbn [y_src y_dst y_s2d y_d2s y_delayed]. destruct q1; rewrite ?andb_false_r; reflexivity. Qed.

(* ================================================================== *)
(* 2. rounds, composed of a sender half and a receiver half            *)
(* ================================================================== *)
Lemma surv_app : forall ft dir a b c, surv ft dir c (a ++ b) = surv ft dir c a ++ surv ft dir (c + zlen a) b.
Proof.
  intros ft dir a. induction a as [|p t IH]; intros b c.
  - cbn [app surv]. change (zlen (@nil pdu)) with 0. rewrite Z.add_0_r. reflexivity.
  - cbn [app surv]. rewrite IH, zlen_cons. replace (c + 1 + zlen t) with (c + (1 + zlen t)) by lia.
    destruct (hit ft dir c); reflexivity.
Qed.
Lemma held_app : forall ft dir rnd a b c, held ft dir c rnd (a ++ b) = held ft dir c rnd a ++ held ft dir (c + zlen a) rnd b.
Proof.
  intros ft dir rnd a. induction a as [|p t IH]; intros b c.
  - cbn [app held]. change (zlen (@nil pdu)) with 0. rewrite Z.add_0_r. reflexivity.
  - cbn [app held]. rewrite IH, zlen_cons. replace (c + 1 + zlen t) with (c + (1 + zlen t)) by lia.
    destruct (hit ft dir c); reflexivity.
Qed.
Lemma zlen_app_k : forall A (a b : list A), zlen (a ++ b) = zlen a + zlen b.
Proof. intros. unfold zlen. rewrite app_length. lia. Qed.
Lemma zlen_nonneg : forall A (l : list A), 0 <= zlen l.
Proof. intros. unfold zlen. lia. Qed.

Section HalvesK.
Variables (ft : fault) (tid : Z * Z).
Hypothesis Hk : ft_kind ft = 2.

(* the bookkeeping of a surrounding entity: it knows the transaction as current while its handler is busy with it, and as
   done once the handler is idle again *)
Definition BK (st : Z) (cur : option (Z * Z)) (done : list (Z * Z)) : Prop :=
  (st = ST_BUSY -> cur = Some tid) /\ (st = ST_IDLE -> tid_mem tid done = true).

Lemma tid_mem_cons : forall t a l, tid_mem t l = true -> tid_mem t (a :: l) = true.
Proof. intros t a l H. unfold tid_mem in *. cbn [existsb]. rewrite H. apply orb_true_r. Qed.
Lemma tid_mem_here : forall l, tid_mem tid (tid :: l) = true.
Proof. intro l. unfold tid_mem, tid_eqb. cbn [existsb]. rewrite !Z.eqb_refl. reflexivity. Qed.

Lemma bk_busy : forall st' tido cur done, st' = ST_BUSY -> tido = Some tid ->
  BK st' (ncur (st' =? ST_BUSY) tido cur) (ndone (st' =? ST_BUSY) cur done).
Proof. intros st' tido cur done -> ->. split; [reflexivity|discriminate]. Qed.
Lemma bk_idle : forall st st' tido cur done, st' = ST_IDLE -> (st = ST_BUSY \/ st = ST_IDLE) -> BK st cur done ->
  BK st' (ncur (st' =? ST_BUSY) tido cur) (ndone (st' =? ST_BUSY) cur done).
Proof.
  intros st st' tido cur done -> Hst [B1 B2]. split; [discriminate|]. intros _.
  change (ST_IDLE =? ST_BUSY) with false. unfold ndone. cbv iota.
  destruct Hst as [H|H].
  - rewrite (B1 H). apply tid_mem_here.
  - destruct cur; [apply tid_mem_cons|]; exact (B2 H).
Qed.
Lemma bk_next : forall st st' tido cur done, (st = ST_BUSY \/ st = ST_IDLE) -> BK st cur done ->
  (st' = ST_BUSY /\ tido = Some tid) \/ st' = ST_IDLE ->
  BK st' (ncur (st' =? ST_BUSY) tido cur) (ndone (st' =? ST_BUSY) cur done).
Proof.
  intros st st' tido cur done Hst B [[H1 H2]|H]; [apply bk_busy; assumption | exact (bk_idle st st' tido cur done H Hst B)].
Qed.

(* ---- the sender is handed the PDUs [qin] one by one and emits [ps] altogether *)
Definition SAll (qin : list pdu) (s s' : src) (ps : list pdu) : Prop :=
  forall er dd q1 q2 c1 c2 dl rnd scur dcur sdone ddone a, BK (s_state s) scur sdone ->
  exists scur' sdone' a',
    deliver_all deliver_to_source qin (ZD ft er s dd q1 q2 c1 c2 dl rnd scur dcur sdone ddone) a =
      (ZD ft er s' dd (q1 ++ surv ft 0 c1 ps) q2 (c1 + zlen ps) c2 (dl ++ held ft 0 c1 rnd ps) rnd scur' dcur sdone' ddone, a') /\
    BK (s_state s') scur' sdone' /\ a + zlen qin <= a'.

Lemma SAll_nil : forall s, SAll [] s s [].
Proof.
  intros s er dd q1 q2 c1 c2 dl rnd scur dcur sdone ddone a B. exists scur, sdone, a.
  cbn [deliver_all surv held]. rewrite !app_nil_r. change (zlen (@nil pdu)) with 0. rewrite !Z.add_0_r.
  split; [reflexivity|]. split; [exact B|lia].
Qed.

Lemma SAll_ok : forall pk t s s1 ps1 s' ps2,
  s_state s = ST_BUSY -> pump_with (Some pk) s = (s1, Ok ps1) -> Forall onw ps1 ->
  (s_state s1 = ST_BUSY /\ q_tid (s_p s1) = Some tid) \/ s_state s1 = ST_IDLE ->
  SAll t s1 s' ps2 -> SAll (pk :: t) s s' (ps1 ++ ps2).
Proof.
  intros pk t s s1 ps1 s' ps2 Hb P Ho Hn HT er dd q1 q2 c1 c2 dl rnd scur dcur sdone ddone a B.
  rewrite (ka_src_ok ft Hk pk t s s1 ps1) by assumption.
  edestruct HT as (sc & sd & a' & E & B' & Ha).
  { apply (bk_next (s_state s)); [left; exact Hb|exact B|exact Hn]. }
  rewrite E. exists sc, sd, a'. rewrite surv_app, held_app, zlen_app_k, !app_assoc, Z.add_assoc.
  split; [reflexivity|]. split; [exact B'|]. rewrite zlen_cons. pose proof (zlen_nonneg _ ps1). lia.
Qed.

Lemma SAll_idle_ack : forall h dv c st t s s' ps,
  s_state s = ST_IDLE -> SAll t s s' ps -> SAll (PAck h dv c st :: t) s s' ps.
Proof.
  intros h dv c st t s s' ps Hi HT er dd q1 q2 c1 c2 dl rnd scur dcur sdone ddone a B.
  rewrite (ka_src_idle_ack ft) by assumption.
  destruct (HT er dd q1 q2 c1 c2 dl rnd scur dcur sdone ddone (a + 1 + 0) B) as (sc & sd & a' & E & B' & Ha).
  rewrite E. exists sc, sd, a'. split; [reflexivity|]. split; [exact B'|]. rewrite zlen_cons. lia.
Qed.

Lemma SAll_idle_fin : forall h c dv fst0 fl0 t s s' ps,
  s_state s = ST_IDLE -> (h_src h, h_seq h) = tid -> SAll t s s' ps ->
  SAll (PFinished h c dv fst0 fl0 :: t) s s' (PAck (set_dir TOWARDS_RECEIVER h) D_FINISHED c TS_TERMINATED :: ps).
Proof.
  intros h c dv fst0 fl0 t s s' ps Hi Ht HT er dd q1 q2 c1 c2 dl rnd scur dcur sdone ddone a B.
  rewrite (ka_src_idle_fin ft Hk) by (first [exact Hi | rewrite Ht; exact (proj2 B Hi)]).
  edestruct HT as (sc & sd & a' & E & B' & Ha); [exact B|].
  rewrite E. exists sc, sd, a'.
  change (PAck (set_dir TOWARDS_RECEIVER h) D_FINISHED c TS_TERMINATED :: ps)
    with ([PAck (set_dir TOWARDS_RECEIVER h) D_FINISHED c TS_TERMINATED] ++ ps).
  rewrite surv_app, held_app, zlen_app_k, !app_assoc, Z.add_assoc.
  change (zlen [PAck (set_dir TOWARDS_RECEIVER h) D_FINISHED c TS_TERMINATED]) with 1.
  split; [reflexivity|]. split; [exact B'|]. rewrite zlen_cons. lia.
Qed.

(* ---- the receiver is handed the PDUs [pds] one by one and emits [outs] altogether *)
Definition DAll (pds : list pdu) (dd dd' : dst) (outs : list pdu) : Prop :=
  forall er s q1 q2 c1 c2 dl rnd scur dcur sdone ddone a, BK (d_state dd) dcur ddone ->
  exists dcur' ddone' a',
    deliver_all deliver_to_dest pds (ZD ft er s dd q1 q2 c1 c2 dl rnd scur dcur sdone ddone) a =
      (ZD ft er s dd' q1 (q2 ++ surv ft 1 c2 outs) c1 (c2 + zlen outs) (dl ++ held ft 1 c2 rnd outs) rnd scur dcur' sdone ddone', a') /\
    BK (d_state dd') dcur' ddone' /\ a + zlen pds <= a'.

Lemma DAll_nil : forall dd, DAll [] dd dd [].
Proof.
  intros dd er s q1 q2 c1 c2 dl rnd scur dcur sdone ddone a B. exists dcur, ddone, a.
  cbn [deliver_all surv held]. rewrite !app_nil_r. change (zlen (@nil pdu)) with 0. rewrite !Z.add_0_r.
  split; [reflexivity|]. split; [exact B|lia].
Qed.

Lemma DAll_ok : forall pd t dd dd1 dd2 outs1 dd' outs2,
  dbusy pd dd -> Dest.state_machine (Some pd) dd = (dd1, Ok tt) -> drain_d dd1 = (dd2, outs1) -> Forall onw outs1 ->
  (d_state dd2 = ST_BUSY /\ p_tid (d_p dd2) = Some tid) \/ d_state dd2 = ST_IDLE ->
  DAll t dd2 dd' outs2 -> DAll (pd :: t) dd dd' (outs1 ++ outs2).
Proof.
  intros pd t dd dd1 dd2 outs1 dd' outs2 Hb Hd Hdr Ho Hn HT er s q1 q2 c1 c2 dl rnd scur dcur sdone ddone a B.
  rewrite (ka_dst_ok ft Hk pd t dd dd1 dd2 outs1) by first [apply dbusy_guard; exact Hb | assumption].
  edestruct HT as (dc & dn & a' & E & B' & Ha).
  { apply (bk_next (d_state dd)); [left; exact (proj1 Hb)|exact B|exact Hn]. }
  rewrite E. exists dc, dn, a'. rewrite surv_app, held_app, zlen_app_k, !app_assoc, Z.add_assoc.
  split; [reflexivity|]. split; [exact B'|]. rewrite zlen_cons. pose proof (zlen_nonneg _ outs1). lia.
Qed.

Lemma DAll_closed : forall pd t dd dd' outs,
  not_eof pd -> d_state dd = ST_IDLE -> (h_src (pdu_hdr pd), h_seq (pdu_hdr pd)) = tid ->
  DAll t dd dd' outs -> DAll (pd :: t) dd dd' outs.
Proof.
  intros pd t dd dd' outs Hne Hi Ht HT er s q1 q2 c1 c2 dl rnd scur dcur sdone ddone a B.
  rewrite (ka_dst_closed ft) by (first [exact Hne | exact Hi | rewrite Ht; exact (proj2 B Hi)]).
  destruct (HT er s q1 q2 c1 c2 dl rnd scur dcur sdone ddone (a + 1 + 0) B) as (dc & dn & a' & E & B' & Ha).
  rewrite E. exists dc, dn, a'. split; [reflexivity|]. split; [exact B'|]. rewrite zlen_cons. lia.
Qed.

Lemma DAll_closed_eof : forall h c ck sz fl0 t dd dd' outs,
  d_state dd = ST_IDLE -> (h_src h, h_seq h) = tid -> DAll t dd dd' outs ->
  DAll (PEof h c ck sz fl0 :: t) dd dd' (PAck (set_dir TOWARDS_SENDER h) D_EOF c TS_TERMINATED :: outs).
Proof.
  intros h c ck sz fl0 t dd dd' outs Hi Ht HT er s q1 q2 c1 c2 dl rnd scur dcur sdone ddone a B.
  rewrite (ka_dst_closed_eof ft Hk) by (first [exact Hi | rewrite Ht; exact (proj2 B Hi)]).
  edestruct HT as (dc & dn & a' & E & B' & Ha); [exact B|].
  rewrite E. exists dc, dn, a'.
  change (PAck (set_dir TOWARDS_SENDER h) D_EOF c TS_TERMINATED :: outs)
    with ([PAck (set_dir TOWARDS_SENDER h) D_EOF c TS_TERMINATED] ++ outs).
  rewrite surv_app, held_app, zlen_app_k, !app_assoc, Z.add_assoc.
  change (zlen [PAck (set_dir TOWARDS_SENDER h) D_EOF c TS_TERMINATED]) with 1.
  split; [reflexivity|]. split; [exact B'|]. rewrite zlen_cons. lia.
Qed.

(* ---- the halves of a round; [act]: the half counts as activity *)
Definition SHalf (qin : list pdu) (s s' : src) (ps : list pdu) (act : bool) : Prop :=
  forall er dd q1 c1 c2 dl rnd scur dcur sdone ddone, BK (s_state s) scur sdone ->
  exists scur' sdone' a,
    sphase qin (ZD ft er s dd q1 [] c1 c2 dl rnd scur dcur sdone ddone) =
      (ZD ft er s' dd (q1 ++ surv ft 0 c1 ps) [] (c1 + zlen ps) c2 (dl ++ held ft 0 c1 rnd ps) rnd scur' dcur sdone' ddone, a) /\
    BK (s_state s') scur' sdone' /\ (if act then 0 < a else a = 0).

Definition DHalf (pds : list pdu) (dd dd' : dst) (outs : list pdu) (act : bool) : Prop :=
  forall er s c1 c2 dl rnd scur dcur sdone ddone a2, BK (d_state dd) dcur ddone ->
  exists dcur' ddone' a,
    dphase (ZD ft er s dd pds [] c1 c2 dl rnd scur dcur sdone ddone) a2 =
      (ZD ft er s dd' [] (surv ft 1 c2 outs) c1 (c2 + zlen outs) (dl ++ held ft 1 c2 rnd outs) rnd scur dcur' sdone ddone', a) /\
    BK (d_state dd') dcur' ddone' /\ (if act then a2 < a else a = a2).

Lemma SHalf_list : forall pk t s s' ps, SAll (pk :: t) s s' ps -> SHalf (pk :: t) s s' ps true.
Proof.
  intros pk t s s' ps H er dd q1 c1 c2 dl rnd scur dcur sdone ddone B.
  destruct (H er dd q1 [] c1 c2 dl rnd scur dcur sdone ddone 0 B) as (sc & sd & a & E & B' & Ha).
  exists sc, sd, a. rewrite sph_list, E. split; [reflexivity|]. split; [exact B'|].
  rewrite zlen_cons in Ha. pose proof (zlen_nonneg _ t). lia.
Qed.

(* the sender is called without a PDU *)
Lemma SHalf_none : forall s s' ps,
  pump s = (s', Ok ps) -> Forall onw ps -> (s_state s = ST_BUSY \/ s_state s = ST_IDLE) ->
  (s_state s' = ST_BUSY /\ q_tid (s_p s') = Some tid) \/ s_state s' = ST_IDLE ->
  SHalf [] s s' ps (negb ((zlen ps =? 0) && (s_state s =? s_state s') && (s_step s =? s_step s'))).
Proof.
  intros s s' ps P Ho Hst Hn er dd q1 c1 c2 dl rnd scur dcur sdone ddone B.
  rewrite (sph0_k ft Hk s s' ps) by assumption.
  do 3 eexists. split; [reflexivity|]. split; [exact (bk_next _ _ _ _ _ Hst B Hn)|].
  pose proof (zlen_nonneg _ ps).
  destruct (zlen ps =? 0) eqn:E1; cbn [andb negb]; [|destruct ((s_state s =? s_state s') && (s_step s =? s_step s')); lia].
  apply Z.eqb_eq in E1. destruct ((s_state s =? s_state s') && (s_step s =? s_step s')); cbn [negb]; lia.
Qed.

Lemma DHalf_list : forall pd t dd dd' outs, DAll (pd :: t) dd dd' outs -> DHalf (pd :: t) dd dd' outs true.
Proof.
  intros pd t dd dd' outs H er s c1 c2 dl rnd scur dcur sdone ddone a2 B.
  destruct (H er s [] [] c1 c2 dl rnd scur dcur sdone ddone a2 B) as (dc & dn & a & E & B' & Ha).
  exists dc, dn, a. rewrite (dph_list_k ft), E. split; [reflexivity|]. split; [exact B'|].
  rewrite zlen_cons in Ha. pose proof (zlen_nonneg _ t). lia.
Qed.

(* the receiver is called without a PDU *)
Lemma DHalf_none : forall dd dd1 dd' outs,
  Dest.state_machine None dd = (dd1, Ok tt) -> drain_d dd1 = (dd', outs) -> Forall onw outs ->
  (d_state dd = ST_BUSY \/ d_state dd = ST_IDLE) ->
  (d_state dd' = ST_BUSY /\ p_tid (d_p dd') = Some tid) \/ d_state dd' = ST_IDLE ->
  DHalf [] dd dd' outs (negb ((zlen outs =? 0) && (d_state dd =? d_state dd') && (d_step dd =? d_step dd'))).
Proof.
  intros dd dd1 dd' outs Hd Hdr Ho Hst Hn er s c1 c2 dl rnd scur dcur sdone ddone a2 B.
  rewrite (dph0_k ft Hk dd dd1 dd' outs) by assumption.
  do 3 eexists. split; [reflexivity|]. split; [exact (bk_next _ _ _ _ _ Hst B Hn)|].
  pose proof (zlen_nonneg _ outs).
  destruct (zlen outs =? 0) eqn:E1; cbn [andb negb]; [|destruct ((d_state dd =? d_state dd') && (d_step dd =? d_step dd')); lia].
  apply Z.eqb_eq in E1. destruct ((d_state dd =? d_state dd') && (d_step dd =? d_step dd')); cbn [negb]; lia.
Qed.

(* ---- a whole round *)
Lemma round_K : forall er s s' ps dd dd' outs q c1 c2 dl rnd scur dcur sdone ddone a1 a2,
  SHalf (q ++ rel1 (rnd + 1) dl) s s' ps a1 -> DHalf (rel0 (rnd + 1) dl ++ surv ft 0 c1 ps) dd dd' outs a2 ->
  BK (s_state s) scur sdone -> BK (d_state dd) dcur ddone ->
  exists scur' dcur' sdone' ddone' a,
    step_round (ZD ft er s dd [] q c1 c2 dl rnd scur dcur sdone ddone) =
      (ZD ft er s' dd' [] (surv ft 1 c2 outs) (c1 + zlen ps) (c2 + zlen outs)
          ((kept (rnd + 1) dl ++ held ft 0 c1 (rnd + 1) ps) ++ held ft 1 c2 (rnd + 1) outs) (rnd + 1)
          scur' dcur' sdone' ddone', a) /\
    BK (s_state s') scur' sdone' /\ BK (d_state dd') dcur' ddone' /\ (if a1 || a2 then 0 < a else a = 0).
Proof.
  intros er s s' ps dd dd' outs q c1 c2 dl rnd scur dcur sdone ddone a1 a2 HS HD Bs Bd.
  rewrite (step_round_ZD ft).
  destruct (HS er dd (rel0 (rnd + 1) dl) c1 c2 (kept (rnd + 1) dl) (rnd + 1) scur dcur sdone ddone Bs)
    as (sc & sd & a & E & Bs' & Ha).
  rewrite E.
  destruct (HD er s' (c1 + zlen ps) c2 (kept (rnd + 1) dl ++ held ft 0 c1 (rnd + 1) ps) (rnd + 1) sc dcur sd ddone a Bd)
    as (dc & dn & a' & E' & Bd' & Ha').
  rewrite E'. exists sc, dc, sd, dn, a'. split; [reflexivity|]. split; [exact Bs'|]. split; [exact Bd'|].
  destruct a1, a2; cbn [orb]; lia.
Qed.
End HalvesK.

(* ================================================================== *)
(* 3. the two-entity system with one delayed PDU                       *)
(* ================================================================== *)
Lemma hit_k00 : forall i a c, hit (mkFault 0 i 2 a) 0 c = (i =? c). Proof. reflexivity. Qed.
Lemma hit_k01 : forall i a c, hit (mkFault 0 i 2 a) 1 c = false. Proof. reflexivity. Qed.
Lemma hit_k10 : forall i a c, hit (mkFault 1 i 2 a) 0 c = false. Proof. reflexivity. Qed.
Lemma hit_k11 : forall i a c, hit (mkFault 1 i 2 a) 1 c = (i =? c). Proof. reflexivity. Qed.

Lemma surv_nohit : forall ft dir ps c0 c, (forall c', c0 <= c' -> hit ft dir c' = false) -> c0 <= c -> surv ft dir c ps = ps.
Proof.
  intros ft dir ps. induction ps as [|p t IH]; intros c0 c H Hc; [reflexivity|].
  cbn [surv]. rewrite (H c Hc). f_equal. apply (IH c0); [exact H|lia].
Qed.
Lemma held_nohit : forall ft dir rnd ps c0 c, (forall c', c0 <= c' -> hit ft dir c' = false) -> c0 <= c -> held ft dir c rnd ps = [].
Proof.
  intros ft dir rnd ps. induction ps as [|p t IH]; intros c0 c H Hc; [reflexivity|].
  cbn [held]. rewrite (H c Hc). apply (IH c0); [exact H|lia].
Qed.

Lemma rel_hold : forall rnd r d p, rnd < r ->
  rel0 rnd [(r, d, p)] = [] /\ rel1 rnd [(r, d, p)] = [] /\ kept rnd [(r, d, p)] = [(r, d, p)].
Proof.
  intros rnd r d p H. cbn [rel0 rel1 kept]. replace (r <=? rnd) with false by (symmetry; apply Z.leb_gt; lia).
  cbn [andb]. repeat split; reflexivity.
Qed.
Lemma rel_now0 : forall rnd r p, r <= rnd ->
  rel0 rnd [(r, 0, p)] = [p] /\ rel1 rnd [(r, 0, p)] = [] /\ kept rnd [(r, 0, p)] = [].
Proof.
  intros rnd r p H. cbn [rel0 rel1 kept]. replace (r <=? rnd) with true by (symmetry; apply Z.leb_le; lia).
  change (0 =? 0) with true. cbn [andb negb]. repeat split; reflexivity.
Qed.
Lemma rel_now1 : forall rnd r p, r <= rnd ->
  rel0 rnd [(r, 1, p)] = [] /\ rel1 rnd [(r, 1, p)] = [p] /\ kept rnd [(r, 1, p)] = [].
Proof.
  intros rnd r p H. cbn [rel0 rel1 kept]. replace (r <=? rnd) with true by (symmetry; apply Z.leb_le; lia).
  change (1 =? 0) with false. cbn [andb negb]. repeat split; reflexivity.
Qed.

Lemma advance_ZD : forall ft tick er s dd q1 q2 c1 c2 dl rnd scur dcur sdone ddone,
  advance tick (ZD ft er s dd q1 q2 c1 c2 dl rnd scur dcur sdone ddone) =
  ZD ft er (adv_s tick s) (adv_d tick dd) q1 q2 c1 c2 dl rnd scur dcur sdone ddone.
Proof. reflexivity. Qed.

Section SysK.
Variables (cs cd : lcfg) (p : putreq) (rs rd : rcfg) (sn : path) (x : Z) (data cks : bytes) (cf : sconf)
          (seg tick : Z) (clo : bool) (fss : tree) (ft : fault).
Hypothesis Hnames : pr_names p = Some (sn, [x]).
Hypothesis Hlook : lookup fss sn = Some (File data).
Hypothesis Hseg : 1 <= seg.
Hypothesis Hm : sc_mode cf = ACKED.
Hypothesis Hck : calculate_checksum (r_cktype rs) (Some data) (zlen data) seg = Ok cks.
Hypothesis Hck2 : calculate_checksum (r_cktype rs) (Some data) (zlen data) 4096 = Ok cks.
Hypothesis Hfins : l_ind_fin cs = true.
Hypothesis Hfind : l_ind_fin cd = true.
Hypothesis Hrem : get_remote (l_remotes cd) (sc_src cf) = Some rd.
Hypothesis Hdst : sc_dst cf = l_id cd.
Hypothesis Hacks : 0 < r_ack_ms rs.
Hypothesis Hackd : 0 < r_ack_ms rd.
Hypothesis Hsrc : sc_src cf = l_id cs.
Hypothesis Hdstr : sc_dst cf = r_id rs.
Hypothesis Hk : ft_kind ft = 2.

Local Notation hRA' := (hRA cd cf).
Local Notation hRB' := (hRB cd cf).
Local Notation tid := (tidA cf).
Local Notation RT f :=
  (f cd rd x (sc_crc cf) (sc_large cf) clo (sc_src cf) (sc_srcw cf) (sc_seq cf) (sc_seqw cf) (r_cktype rs) (zlen data))
  (only parsing).
Local Notation DAx := (RT DA) (only parsing).
Local Notation RAx := (RT RA) (only parsing).
Local Notation REx := (RT RE) (only parsing).
Local Notation RWx := (RT RW) (only parsing).
Local Notation RFx := (RF cd (sc_src cf) (sc_seq cf)) (only parsing).
Local Notation InvAx := (InvA cs p rs fss data cf seg clo tid) (only parsing).
Local Notation T7 := (TailT cs p rs fss data cf seg tid) (only parsing).
Local Notation T8 := (Tail cs p rs cf tid SS_WAITING_FOR_FINISHED None) (only parsing).
Local Notation T9 := (Tail cs p rs cf tid SS_SENDING_ACK_OF_FINISHED (Some (C_NO_ERROR, DATA_COMPLETE, FS_RETAINED, None)))
  (only parsing).
Local Notation ackE' := (ackEA cd cf).
Local Notation finP' := (finPA cd cf).
Local Notation evF := (evFinD cf).
Local Notation eofG' := (eofG cd data cks cf).
Local Notation ackFG' := (ackFG cd cf).
Local Notation nfd' := (nfd data seg).
Local Notation eofr := (if l_ind_eof_recv cd then [EvEofRecv (sc_src cf) (sc_seq cf)] else []) (only parsing).
Local Notation SHalf' := (SHalf ft tid).
Local Notation DHalf' := (DHalf ft tid).
Local Notation SAll' := (SAll ft tid).
Local Notation DAll' := (DAll ft tid).

(* the ACKs of the surrounding entities for transactions their handlers have closed *)
Definition ackFT : pdu := PAck hRA' D_FINISHED C_NO_ERROR TS_TERMINATED.
Definition ackET : pdu := PAck hRB' D_EOF C_NO_ERROR TS_TERMINATED.
(* the sender has closed the transaction *)
Definition PD (s : src) : Prop := exists lgs, Done cf lgs s.

(* the system between two rounds: nothing on its way to the receiver, [q] on its way to the sender, [dl] held back *)
Definition St (Ps : src -> Prop) (dd : dst) (q : list pdu) (c1 c2 : Z) (dl : list (Z * Z * pdu)) (rnd : Z) (y : sys) : Prop :=
  exists s scur dcur sdone ddone,
    y = ZD ft [] s dd [] q c1 c2 dl rnd scur dcur sdone ddone /\ Ps s /\
    BK tid (s_state s) scur sdone /\ BK tid (d_state dd) dcur ddone.

Definition SH (Ps : src -> Prop) (qin : list pdu) (Ps' : src -> Prop) (ps : list pdu) (act : bool) : Prop :=
  forall s, Ps s -> exists s', Ps' s' /\ SHalf' qin s s' ps act.
Definition SA (Ps : src -> Prop) (qin : list pdu) (Ps' : src -> Prop) (ps : list pdu) : Prop :=
  forall s, Ps s -> exists s', Ps' s' /\ SAll' qin s s' ps.

Lemma St_weaken : forall (Ps Qs : src -> Prop) dd q c1 c2 dl rnd y, (forall s, Ps s -> Qs s) ->
  St Ps dd q c1 c2 dl rnd y -> St Qs dd q c1 c2 dl rnd y.
Proof. intros Ps Qs dd q c1 c2 dl rnd y H (s & a & b & c & d & E & HP & B). exists s, a, b, c, d. split; [exact E|]. split; [apply H; exact HP|exact B]. Qed.
Lemma St_ex : forall A (P : A -> src -> Prop) dd q c1 c2 dl rnd y,
  St (fun s => exists a, P a s) dd q c1 c2 dl rnd y -> exists a, St (P a) dd q c1 c2 dl rnd y.
Proof. intros A P dd q c1 c2 dl rnd y (s & a & b & c & d & E & [v HP] & B). exists v, s, a, b, c, d. split; [exact E|]. split; [exact HP|exact B]. Qed.

(* ---- one round *)
Lemma St_round : forall Ps Ps' ps dd dd' outs q c1 c2 dl rnd a1 a2 qin pds q' dl' y,
  St Ps dd q c1 c2 dl rnd y ->
  q ++ rel1 (rnd + 1) dl = qin -> SH Ps qin Ps' ps a1 ->
  rel0 (rnd + 1) dl ++ surv ft 0 c1 ps = pds -> DHalf' pds dd dd' outs a2 ->
  surv ft 1 c2 outs = q' ->
  (kept (rnd + 1) dl ++ held ft 0 c1 (rnd + 1) ps) ++ held ft 1 c2 (rnd + 1) outs = dl' ->
  exists y' a, step_round y = (y', a) /\ St Ps' dd' q' (c1 + zlen ps) (c2 + zlen outs) dl' (rnd + 1) y' /\
               (if a1 || a2 then 0 < a else a = 0).
Proof.
  intros Ps Ps' ps dd dd' outs q c1 c2 dl rnd a1 a2 qin pds q' dl' y
         (s & scur & dcur & sdone & ddone & -> & HP & Bs & Bd) <- HS <- HD <- <-.
  destruct (HS s HP) as (s' & HP' & HS').
  destruct (round_K ft tid [] s s' ps dd dd' outs q c1 c2 dl rnd scur dcur sdone ddone a1 a2 HS' HD Bs Bd)
    as (sc & dc & sd & dn & a & E & Bs' & Bd' & Ha).
  exists (ZD ft [] s' dd' [] (surv ft 1 c2 outs) (c1 + zlen ps) (c2 + zlen outs)
            ((kept (rnd + 1) dl ++ held ft 0 c1 (rnd + 1) ps) ++ held ft 1 c2 (rnd + 1) outs) (rnd + 1) sc dc sd dn), a.
  split; [exact E|]. split; [|exact Ha]. exists s', sc, dc, sd, dn. split; [reflexivity|]. split; [exact HP'|]. split; assumption.
Qed.

(* no PDU emitted from now on is held back *)
Definition NH (dir c0 : Z) : Prop := forall c, c0 <= c -> hit ft dir c = false.
Lemma NH_mono : forall dir c0 c, NH dir c0 -> c0 <= c -> NH dir c.
Proof. intros dir c0 c H Hc c' Hc'. apply H. lia. Qed.

Lemma St_round_nh : forall Ps Ps' ps dd dd' outs q c1 c2 dl rnd a1 a2 qin pds dl' y,
  NH 0 c1 -> NH 1 c2 -> St Ps dd q c1 c2 dl rnd y ->
  q ++ rel1 (rnd + 1) dl = qin -> SH Ps qin Ps' ps a1 ->
  rel0 (rnd + 1) dl ++ ps = pds -> DHalf' pds dd dd' outs a2 -> kept (rnd + 1) dl = dl' ->
  exists y' a, step_round y = (y', a) /\ St Ps' dd' outs (c1 + zlen ps) (c2 + zlen outs) dl' (rnd + 1) y' /\
               (if a1 || a2 then 0 < a else a = 0).
Proof.
  intros Ps Ps' ps dd dd' outs q c1 c2 dl rnd a1 a2 qin pds dl' y N0 N1 H E1 HS E2 HD E3.
  apply (St_round Ps Ps' ps dd dd' outs q c1 c2 dl rnd a1 a2 qin pds outs dl' y H E1 HS); try assumption.
  - rewrite (surv_nohit ft 0 ps c1 c1 N0) by lia. exact E2.
  - apply (surv_nohit ft 1 outs c2 c2 N1). lia.
  - rewrite (held_nohit ft 0 (rnd + 1) ps c1 c1 N0), (held_nohit ft 1 (rnd + 1) outs c2 c2 N1) by lia.
    rewrite !app_nil_r. exact E3.
Qed.

(* not quiescent *)
Definition BusyP (Ps : src -> Prop) : Prop := forall s, Ps s -> s_state s = ST_BUSY.
Lemma St_nq : forall Ps dd q c1 c2 dl rnd y, St Ps dd q c1 c2 dl rnd y ->
  BusyP Ps \/ d_state dd = ST_BUSY \/ dl <> [] \/ q <> [] -> quiescent y = false.
Proof.
  intros Ps dd q c1 c2 dl rnd y (s & scur & dcur & sdone & ddone & -> & HP & _) [H|[H|[H|H]]].
  - apply qz_sbusy_k. exact (H s HP).
  - apply qz_dbusy_k. exact H.
  - destruct dl; [contradiction|apply qz_delayed_k].
  - destruct q; [contradiction|apply qz_d2s_k].
Qed.

Lemma St_act : forall y y' a Ps dd q c1 c2 dl rnd, step_round y = (y', a) -> 0 < a -> St Ps dd q c1 c2 dl rnd y' ->
  BusyP Ps \/ d_state dd = ST_BUSY \/ dl <> [] \/ q <> [] -> reach tick y y'.
Proof. intros y y' a Ps dd q c1 c2 dl rnd R Ha H N. exact (reach_step tick y y' a R Ha (St_nq _ _ _ _ _ _ _ _ H N)). Qed.

Definition advP (Ps : src -> Prop) : src -> Prop := fun s => exists s0, Ps s0 /\ s = adv_s tick s0.
Lemma St_adv : forall Ps dd q c1 c2 dl rnd y, St Ps dd q c1 c2 dl rnd y ->
  St (advP Ps) (adv_d tick dd) q c1 c2 dl rnd (advance tick y).
Proof.
  intros Ps dd q c1 c2 dl rnd y (s & scur & dcur & sdone & ddone & -> & HP & Bs & Bd).
  exists (adv_s tick s), scur, dcur, sdone, ddone. split; [apply advance_ZD|]. split; [exists s; split; [exact HP|reflexivity]|].
  split; [exact Bs|exact Bd].
Qed.
Lemma St_idle : forall y y' Ps dd q c1 c2 dl rnd, step_round y = (y', 0) -> St Ps dd q c1 c2 dl rnd y' ->
  BusyP Ps \/ d_state dd = ST_BUSY \/ dl <> [] \/ q <> [] ->
  reach tick y (advance tick y') /\ St (advP Ps) (adv_d tick dd) q c1 c2 dl rnd (advance tick y').
Proof.
  intros y y' Ps dd q c1 c2 dl rnd R H N. split; [|apply St_adv; exact H].
  exact (reach_idle tick y y' R (St_nq _ _ _ _ _ _ _ _ H N)).
Qed.

(* the last round *)
Lemma St_final : forall nwd fs lgd c1 c2 rnd y, St PD (RFx nwd fs (evF :: lgd)) [] c1 c2 [] rnd y ->
  lookup fs [x] = Some (File data) -> clean lgd -> quiescent y = true /\ FinalG cd x data cf ft [] y.
Proof.
  intros nwd fs lgd c1 c2 rnd y (s & scur & dcur & sdone & ddone & -> & [lgs (Hi & Hq & Hlog & Hcs)] & _) Hl Hc. split.
  - unfold quiescent, ZD. cbn [y_src y_dst y_s2d y_d2s y_delayed]. rewrite Hi. reflexivity.
  - do 12 eexists. split; [reflexivity|]. split; [exact Hlog|]. split; [exact Hcs|]. split; [exact Hc|exact Hl].
Qed.

Local Notation fin_okx := (fin_ok cd x data cf tick ft []).

Lemma fin_St_last : forall y y' a nwd fs lgd c1 c2 rnd, step_round y = (y', a) ->
  St PD (RFx nwd fs (evF :: lgd)) [] c1 c2 [] rnd y' -> lookup fs [x] = Some (File data) -> clean lgd -> fin_okx y.
Proof.
  intros y y' a nwd fs lgd c1 c2 rnd R H Hl Hc. destruct (St_final _ _ _ _ _ _ _ H Hl Hc) as [Q F].
  exact (fin_last cd x data cf tick ft [] y y' a R Q F).
Qed.

(* ---- the sender's halves *)
Ltac fo := repeat (first [apply Forall_nil | apply Forall_cons; [reflexivity|]]).

Lemma T7_bt : forall nw t0 k s, T7 nw t0 k s -> s_state s = ST_BUSY /\ q_tid (s_p s) = Some tid.
Proof. intros nw t0 k s H. split; [exact (TailT_busy _ _ _ _ _ _ _ _ _ _ _ _ H)|exact (TailT_tid _ _ _ _ _ _ _ _ _ _ _ _ H)]. Qed.
Lemma Tl_bt : forall st qf s, Tail cs p rs cf tid st qf s -> s_state s = ST_BUSY /\ q_tid (s_p s) = Some tid.
Proof. intros st qf s H. split; [exact (Tail_busy _ _ _ _ _ _ _ H)|exact (Tail_tid _ _ _ _ _ _ _ H)]. Qed.
Lemma IA_bt : forall off s, InvAx off s -> s_state s = ST_BUSY /\ q_tid (s_p s) = Some tid.
Proof. intros off s H. split; [exact (InvA_busy _ _ _ _ _ _ _ _ _ _ _ H)|exact (InvA_tid _ _ _ _ _ _ _ _ _ _ H)]. Qed.
Lemma T7_step : forall nw t0 k s, T7 nw t0 k s -> s_step s = SS_WAITING_FOR_EOF_ACK.
Proof. intros nw t0 k s (_&_&H&_). exact H. Qed.
Lemma Tl_step : forall st qf s, Tail cs p rs cf tid st qf s -> s_step s = st.
Proof. intros st qf s (_&_&H&_). exact H. Qed.
Lemma PD_idle : forall s, PD s -> s_state s = ST_IDLE.
Proof. intros s [lgs (H & _)]. exact H. Qed.

Lemma act_t : forall s s' (ps : list pdu), 0 < zlen ps ->
  negb ((zlen ps =? 0) && (s_state s =? s_state s') && (s_step s =? s_step s')) = true.
Proof. intros. replace (zlen ps =? 0) with false by (symmetry; apply Z.eqb_neq; lia). reflexivity. Qed.
Lemma act_st : forall s s' (ps : list pdu), s_state s <> s_state s' ->
  negb ((zlen ps =? 0) && (s_state s =? s_state s') && (s_step s =? s_step s')) = true.
Proof. intros. replace (s_state s =? s_state s') with false by (symmetry; apply Z.eqb_neq; assumption). rewrite andb_false_r. reflexivity. Qed.
Lemma act_f : forall s s', s_state s = s_state s' -> s_step s = s_step s' ->
  negb ((zlen (@nil pdu) =? 0) && (s_state s =? s_state s') && (s_step s =? s_step s')) = false.
Proof. intros s s' H1 H2. rewrite H1, H2, !Z.eqb_refl. reflexivity. Qed.

(* the call after the last File Data PDU: EOF PDU *)
Lemma sh_final : SH (InvAx (zlen data)) [] (fun s => exists nw, T7 nw nw 0 s) [eofG'] true.
Proof.
  intros s HI.
  destruct (Ld_final cs cd p rs sn x data cks cf seg clo fss Hnames Hlook Hm Hck Hdst Hacks s HI) as (s' & nw & P & HT).
  exists s'. split; [exists nw; exact HT|].
  rewrite <- (act_t s s' [eofG']) by reflexivity.
  apply (SHalf_none ft tid Hk); [exact P|fo|left; exact (proj1 (IA_bt _ _ HI))|left; exact (T7_bt _ _ _ _ HT)].
Qed.
Lemma sh7_wait : forall nw t0 k, nw - t0 < r_ack_ms rs -> SH (T7 nw t0 k) [] (T7 nw t0 k) [] false.
Proof.
  intros nw t0 k Hlt s HT.
  destruct (t7_wait cs p rs fss data cf seg tid nw t0 k s HT Hlt) as (s' & P & HT' & Hst).
  exists s'. split; [exact HT'|].
  rewrite <- (act_f s s') by (first [rewrite (proj1 (T7_bt _ _ _ _ HT)), (proj1 (T7_bt _ _ _ _ HT')); reflexivity
                                   | rewrite (T7_step _ _ _ _ HT), Hst; reflexivity]).
  apply (SHalf_none ft tid Hk); [exact P|fo|left; exact (proj1 (T7_bt _ _ _ _ HT))|left; exact (T7_bt _ _ _ _ HT')].
Qed.
Lemma sh7_resend : forall nw t0 k, r_ack_ms rs <= nw - t0 -> k + 1 < r_ack_limit rs ->
  SH (T7 nw t0 k) [] (T7 nw nw (k + 1)) [eofG'] true.
Proof.
  intros nw t0 k Hge Hlim s HT.
  destruct (L_resend_s cs cd p rs sn x data cks cf seg fss Hnames Hlook Hm Hck Hdst nw t0 k s HT Hge Hlim) as (s' & P & HT').
  exists s'. split; [exact HT'|].
  rewrite <- (act_t s s' [eofG']) by reflexivity.
  apply (SHalf_none ft tid Hk); [exact P|fo|left; exact (proj1 (T7_bt _ _ _ _ HT))|left; exact (T7_bt _ _ _ _ HT')].
Qed.
Lemma sh8_wait : SH T8 [] T8 [] false.
Proof.
  intros s HT. destruct (t8_wait cs p rs cf tid Hm s HT) as (s' & P & HT' & Hst).
  exists s'. split; [exact HT'|].
  rewrite <- (act_f s s') by (first [rewrite (proj1 (Tl_bt _ _ _ HT)), (proj1 (Tl_bt _ _ _ HT')); reflexivity
                                   | rewrite (Tl_step _ _ _ HT), Hst; reflexivity]).
  apply (SHalf_none ft tid Hk); [exact P|fo|left; exact (proj1 (Tl_bt _ _ _ HT))|left; exact (Tl_bt _ _ _ HT')].
Qed.
Lemma sh9_done : SH T9 [] PD [] true.
Proof.
  intros s HT. destruct (step_done cs p rs cf tid Hfins s FS_RETAINED HT) as (s' & lg0 & P & Hst & Hlog & Hc0).
  exists s'. split; [exists lg0; repeat split; [exact Hst|exact (pump_queue _ _ _ _ P)|exact Hlog|apply Hc0|apply Hc0]|].
  rewrite <- (act_st s s' []) by (rewrite (proj1 (Tl_bt _ _ _ HT)), Hst; discriminate).
  apply (SHalf_none ft tid Hk); [exact P|fo|left; exact (proj1 (Tl_bt _ _ _ HT))|right; exact Hst].
Qed.
Lemma shD_none : SH PD [] PD [] false.
Proof.
  intros s [lgs HD]. pose proof HD as (Hi & Hq & _). pose proof (idle_pump s Hi Hq) as P.
  pose proof (Done_drain _ _ _ HD) as HD'. pose proof HD' as (Hi' & _).
  exists (fst (drain_s s)). split; [exists lgs; exact HD'|].
  rewrite <- (act_f s (fst (drain_s s))) by reflexivity.
  apply (SHalf_none ft tid Hk); [exact P|fo|right; exact Hi|right; exact Hi'].
Qed.

(* one PDU for the busy sender *)
Definition S1 (Ps : src -> Prop) (pk : pdu) (Pm : src -> Prop) (ps1 : list pdu) : Prop :=
  forall s, Ps s -> s_state s = ST_BUSY /\ exists s1, pump_with (Some pk) s = (s1, Ok ps1) /\ Pm s1.
Definition BIP (Ps : src -> Prop) : Prop :=
  forall s, Ps s -> (s_state s = ST_BUSY /\ q_tid (s_p s) = Some tid) \/ s_state s = ST_IDLE.

Lemma SA_nil : forall Ps, SA Ps [] Ps [].
Proof. intros Ps s H. exists s. split; [exact H|apply SAll_nil]. Qed.
Lemma SA_cons : forall Ps pk Pm ps1 t Ps' ps2, S1 Ps pk Pm ps1 -> Forall onw ps1 -> BIP Pm -> SA Pm t Ps' ps2 ->
  SA Ps (pk :: t) Ps' (ps1 ++ ps2).
Proof.
  intros Ps pk Pm ps1 t Ps' ps2 H1 Ho HB HT s HP. destruct (H1 s HP) as (Hb & s1 & P & HM).
  destruct (HT s1 HM) as (s' & HP' & HA). exists s'. split; [exact HP'|].
  exact (SAll_ok ft tid Hk pk t s s1 ps1 s' ps2 Hb P Ho (HB s1 HM) HA).
Qed.
Lemma SH_of_SA : forall Ps pk t Ps' ps, SA Ps (pk :: t) Ps' ps -> SH Ps (pk :: t) Ps' ps true.
Proof. intros Ps pk t Ps' ps H s HP. destruct (H s HP) as (s' & HP' & HA). exists s'. split; [exact HP'|apply SHalf_list; exact HA]. Qed.

Lemma BIP_T8 : BIP T8. Proof. intros s H. left. exact (Tl_bt _ _ _ H). Qed.
Lemma BIP_T9 : BIP T9. Proof. intros s H. left. exact (Tl_bt _ _ _ H). Qed.
Lemma BIP_PD : BIP PD. Proof. intros s H. right. exact (PD_idle _ H). Qed.

Lemma s1_7_ack : forall nw t0 k, S1 (T7 nw t0 k) ackE' T8 [].
Proof.
  intros nw t0 k s HT. split; [exact (proj1 (T7_bt _ _ _ _ HT))|].
  exact (Ld_ack cs cd p rs data cf seg fss Hm Hdst Hsrc Hdstr nw t0 k s HT).
Qed.
Lemma s1_7_fin : forall nw t0 k, S1 (T7 nw t0 k) finP' T9 [ackFG'].
Proof.
  intros nw t0 k s HT. split; [exact (proj1 (T7_bt _ _ _ _ HT))|].
  exact (L_fin7 cs cd p rs data cf seg fss Hm Hdst Hsrc Hdstr nw t0 k s HT).
Qed.
Lemma s1_8_fin : S1 T8 finP' T9 [ackFG'].
Proof.
  intros s HT. split; [exact (proj1 (Tl_bt _ _ _ HT))|]. exact (Ld_fin cs cd p rs cf Hm Hdst Hsrc Hdstr s HT).
Qed.
Lemma s1_9_ack : S1 T9 ackE' PD [].
Proof.
  intros s HT. split; [exact (proj1 (Tl_bt _ _ _ HT))|].
  destruct (Ld_t9_ack cs cd p rs cf Hm Hfins Hdst Hsrc Hdstr s HT) as (s' & lg0 & P & Hst & Hlog & Hc0).
  exists s'. split; [exact P|]. exists lg0. repeat split; [exact Hst|exact (pump_queue _ _ _ _ P)|exact Hlog|apply Hc0|apply Hc0].
Qed.
Lemma s1_9_fin : S1 T9 finP' PD [].
Proof.
  intros s HT. split; [exact (proj1 (Tl_bt _ _ _ HT))|].
  destruct (Ld_t9_fin cs cd p rs cf Hm Hfins Hdst Hsrc Hdstr s HT) as (s' & lg0 & P & Hst & Hlog & Hc0).
  exists s'. split; [exact P|]. exists lg0. repeat split; [exact Hst|exact (pump_queue _ _ _ _ P)|exact Hlog|apply Hc0|apply Hc0].
Qed.

Lemma sh7_ack : forall nw t0 k, SH (T7 nw t0 k) [ackE'] T8 [] true.
Proof. intros. apply SH_of_SA. exact (SA_cons _ _ _ _ _ _ _ (s1_7_ack nw t0 k) ltac:(fo) BIP_T8 (SA_nil _)). Qed.
Lemma sh7_fin : forall nw t0 k, SH (T7 nw t0 k) [finP'] T9 [ackFG'] true.
Proof. intros. apply SH_of_SA. exact (SA_cons _ _ _ _ _ _ _ (s1_7_fin nw t0 k) ltac:(fo) BIP_T9 (SA_nil _)). Qed.
Lemma sh7_fin_ack : forall nw t0 k, SH (T7 nw t0 k) [finP'; ackE'] PD [ackFG'] true.
Proof.
  intros. apply SH_of_SA.
  exact (SA_cons _ _ _ _ _ _ _ (s1_7_fin nw t0 k) ltac:(fo) BIP_T9 (SA_cons _ _ _ _ _ _ _ s1_9_ack ltac:(fo) BIP_PD (SA_nil _))).
Qed.
Lemma sh7_afa : forall nw t0 k, SH (T7 nw t0 k) [ackE'; finP'; ackE'] PD [ackFG'] true.
Proof.
  intros. apply SH_of_SA.
  exact (SA_cons _ _ _ _ _ _ _ (s1_7_ack nw t0 k) ltac:(fo) BIP_T8
          (SA_cons _ _ _ _ _ _ _ s1_8_fin ltac:(fo) BIP_T9 (SA_cons _ _ _ _ _ _ _ s1_9_ack ltac:(fo) BIP_PD (SA_nil _)))).
Qed.
Lemma sh8_fin : SH T8 [finP'] T9 [ackFG'] true.
Proof. apply SH_of_SA. exact (SA_cons _ _ _ _ _ _ _ s1_8_fin ltac:(fo) BIP_T9 (SA_nil _)). Qed.
Lemma sh8_fin_ack : SH T8 [finP'; ackE'] PD [ackFG'] true.
Proof.
  apply SH_of_SA.
  exact (SA_cons _ _ _ _ _ _ _ s1_8_fin ltac:(fo) BIP_T9 (SA_cons _ _ _ _ _ _ _ s1_9_ack ltac:(fo) BIP_PD (SA_nil _))).
Qed.
Lemma sh8_fin_fin : SH T8 [finP'; finP'] PD [ackFG'] true.
Proof.
  apply SH_of_SA.
  exact (SA_cons _ _ _ _ _ _ _ s1_8_fin ltac:(fo) BIP_T9 (SA_cons _ _ _ _ _ _ _ s1_9_fin ltac:(fo) BIP_PD (SA_nil _))).
Qed.
Lemma sh9_ack : SH T9 [ackE'] PD [] true.
Proof. apply SH_of_SA. exact (SA_cons _ _ _ _ _ _ _ s1_9_ack ltac:(fo) BIP_PD (SA_nil _)). Qed.
Lemma sh9_fin : SH T9 [finP'] PD [] true.
Proof. apply SH_of_SA. exact (SA_cons _ _ _ _ _ _ _ s1_9_fin ltac:(fo) BIP_PD (SA_nil _)). Qed.
(* the idle sender: an ACK is dropped, a Finished PDU is acknowledged by the surrounding entity *)
Lemma shD_ack : forall h dv c st, SH PD [PAck h dv c st] PD [] true.
Proof.
  intros h dv c st s HD. exists s. split; [exact HD|]. apply SHalf_list.
  apply SAll_idle_ack; [exact (PD_idle _ HD)|apply SAll_nil].
Qed.
Lemma shD_fin : SH PD [finP'] PD [ackFT] true.
Proof.
  intros s HD. exists s. split; [exact HD|]. apply SHalf_list.
  exact (SAll_idle_fin ft tid Hk hRB' C_NO_ERROR DATA_COMPLETE FS_RETAINED None [] s s [] (PD_idle _ HD) eq_refl (SAll_nil ft tid s)).
Qed.

(* ---- the receiver's halves *)
Local Notation BT := (or_introl (conj eq_refl eq_refl)) (only parsing).
Local Notation BB := (or_introl eq_refl) (only parsing).

Lemma dhA_none : forall nwd ls fs lg, DHalf' [] (RAx nwd ls fs lg) (RAx nwd ls fs lg) [] false.
Proof.
  intros. exact (DHalf_none ft tid Hk _ _ _ [] (L_none_ra cd rs rd x data cf clo nwd ls fs lg) eq_refl (Forall_nil _) BB BT).
Qed.
Lemma dhA_eof : forall nwd ls fs lg,
  DHalf' [eofG'] (RAx nwd ls fs lg) (REx nwd 0 [] cks ls fs (eofr ++ lg)) [ackE'] true.
Proof.
  intros. apply DHalf_list. change [ackE'] with ([ackE'] ++ []).
  eapply (DAll_ok ft tid Hk _ _ _ _ (REx nwd 0 [] cks ls fs (eofr ++ lg)) [ackE']);
    [split; reflexivity | exact (Ld_eof_ra cd rs rd x data cks cf clo Hrem nwd ls fs lg) | reflexivity | fo | left; split; reflexivity |].
  apply DAll_nil.
Qed.
Lemma dhA_eof2 : forall nwd ls fs lg, lookup fs [x] = Some (File data) ->
  DHalf' [eofG'; eofG'] (RAx nwd ls fs lg) (RWx nwd nwd 0 0 [] cks ls fs (evF :: eofr ++ lg)) [ackE'; finP'; ackE'] true.
Proof.
  intros nwd ls fs lg Hl. apply DHalf_list. change [ackE'; finP'; ackE'] with ([ackE'] ++ [finP'; ackE'] ++ []).
  eapply (DAll_ok ft tid Hk _ _ _ _ (REx nwd 0 [] cks ls fs (eofr ++ lg)) [ackE']);
    [split; reflexivity | exact (Ld_eof_ra cd rs rd x data cks cf clo Hrem nwd ls fs lg) | reflexivity | fo | left; split; reflexivity |].
  eapply (DAll_ok ft tid Hk _ _ _ _ (RWx nwd nwd 0 0 [] cks ls fs (evF :: eofr ++ lg)) [finP'; ackE']);
    [split; reflexivity | exact (Ld_eof_re cd rs rd x data cks cf clo Hck2 Hfind Hrem nwd ls fs (eofr ++ lg) Hl) | reflexivity | fo | left; split; reflexivity |].
  apply DAll_nil.
Qed.
Lemma dhE_none : forall nwd ls fs lg, lookup fs [x] = Some (File data) ->
  DHalf' [] (REx nwd 0 [] cks ls fs lg) (RWx nwd nwd 0 0 [] cks ls fs (evF :: lg)) [finP'] true.
Proof.
  intros nwd ls fs lg Hl.
  exact (DHalf_none ft tid Hk _ _ _ [finP'] (Ld_complete cd rs rd x data cks cf clo Hck2 Hfind Hackd nwd ls fs lg Hl) eq_refl
           ltac:(fo) BB BT).
Qed.
Lemma dhE_eof : forall nwd ls fs lg, lookup fs [x] = Some (File data) ->
  DHalf' [eofG'] (REx nwd 0 [] cks ls fs lg) (RWx nwd nwd 0 0 [] cks ls fs (evF :: lg)) [finP'; ackE'] true.
Proof.
  intros nwd ls fs lg Hl. apply DHalf_list. change [finP'; ackE'] with ([finP'; ackE'] ++ []).
  eapply (DAll_ok ft tid Hk _ _ _ _ (RWx nwd nwd 0 0 [] cks ls fs (evF :: lg)) [finP'; ackE']);
    [split; reflexivity | exact (Ld_eof_re cd rs rd x data cks cf clo Hck2 Hfind Hrem nwd ls fs lg Hl) | reflexivity | fo | left; split; reflexivity |].
  apply DAll_nil.
Qed.
Lemma dhW_wait : forall nwd td kd ls fs lg, nwd - td < r_ack_ms rd ->
  DHalf' [] (RWx nwd td kd 0 [] cks ls fs lg) (RWx nwd td kd 0 [] cks ls fs lg) [] false.
Proof.
  intros nwd td kd ls fs lg Hlt.
  exact (DHalf_none ft tid Hk _ _ _ [] (L_wait cd rs rd x data cks cf clo nwd td kd ls fs lg Hlt) eq_refl (Forall_nil _) BB BT).
Qed.
Lemma dhW_resend : forall nwd td kd ls fs lg, r_ack_ms rd <= nwd - td -> kd + 1 < r_ack_limit rd ->
  DHalf' [] (RWx nwd td kd 0 [] cks ls fs lg) (RWx nwd nwd (kd + 1) 0 [] cks ls fs lg) [finP'] true.
Proof.
  intros nwd td kd ls fs lg Hge Hlim.
  exact (DHalf_none ft tid Hk _ _ _ [finP'] (L_resend cd rs rd x data cks cf clo nwd td kd ls fs lg Hge Hlim) eq_refl
           ltac:(fo) BB BT).
Qed.
Lemma dhW_ack : forall st nwd td kd ls fs lg,
  DHalf' [PAck hRA' D_FINISHED C_NO_ERROR st] (RWx nwd td kd 0 [] cks ls fs lg) (RFx nwd fs lg) [] true.
Proof.
  intros. apply DHalf_list. change (@nil pdu) with (@nil pdu ++ []) at 2.
  eapply (DAll_ok ft tid Hk _ _ _ _ (RFx nwd fs lg) []);
    [split; reflexivity | exact (Ld_ack_fin cd rs rd x data cks cf clo Hrem st nwd td kd ls fs lg) | reflexivity | fo | right; reflexivity |].
  apply DAll_nil.
Qed.
Lemma dhW_eof_ack : forall nwd td kd ls fs lg,
  DHalf' [eofG'; ackFG'] (RWx nwd td kd 0 [] cks ls fs lg) (RFx nwd fs lg) [ackE'] true.
Proof.
  intros. apply DHalf_list. change [ackE'] with ([ackE'] ++ [] ++ []).
  eapply (DAll_ok ft tid Hk _ _ _ _ (RWx nwd td kd 0 [] cks ls fs lg) [ackE']);
    [split; reflexivity | exact (L_eof_rw cd rs rd x data cks cf clo Hrem nwd td kd ls fs lg) | reflexivity | fo | left; split; reflexivity |].
  eapply (DAll_ok ft tid Hk _ _ _ _ (RFx nwd fs lg) []);
    [split; reflexivity | exact (Ld_ack_fin cd rs rd x data cks cf clo Hrem TS_ACTIVE nwd td kd ls fs lg) | reflexivity | fo | right; reflexivity |].
  apply DAll_nil.
Qed.
Lemma dhW_ack_ackT : forall nwd td kd ls fs lg,
  DHalf' [ackFG'; ackFT] (RWx nwd td kd 0 [] cks ls fs lg) (RFx nwd fs lg) [] true.
Proof.
  intros. apply DHalf_list. change (@nil pdu) with (@nil pdu ++ []) at 3.
  eapply (DAll_ok ft tid Hk _ _ _ _ (RFx nwd fs lg) []);
    [split; reflexivity | exact (Ld_ack_fin cd rs rd x data cks cf clo Hrem TS_ACTIVE nwd td kd ls fs lg) | reflexivity | fo | right; reflexivity |].
  eapply (DAll_closed ft tid ackFT [] (RFx nwd fs lg)); [exact I|reflexivity|reflexivity|apply DAll_nil].
Qed.
Lemma dhF_none : forall nwd fs lg, DHalf' [] (RFx nwd fs lg) (RFx nwd fs lg) [] false.
Proof.
  intros. exact (DHalf_none ft tid Hk _ _ _ [] (tm_idle cd (sc_src cf) (sc_seq cf) nwd fs lg) eq_refl (Forall_nil _)
                   (or_intror eq_refl) (or_intror eq_refl)).
Qed.
Lemma dhF_eof : forall nwd fs lg, DHalf' [eofG'] (RFx nwd fs lg) (RFx nwd fs lg) [ackET] true.
Proof.
  intros. apply DHalf_list.
  exact (DAll_closed_eof ft tid Hk hRA' C_NO_ERROR cks (zlen data) None [] (RFx nwd fs lg) _ [] eq_refl eq_refl (DAll_nil ft tid _)).
Qed.
Lemma dhF_ack : forall st nwd fs lg, DHalf' [PAck hRA' D_FINISHED C_NO_ERROR st] (RFx nwd fs lg) (RFx nwd fs lg) [] true.
Proof.
  intros. apply DHalf_list.
  exact (DAll_closed ft tid (PAck hRA' D_FINISHED C_NO_ERROR st) [] (RFx nwd fs lg) _ [] I eq_refl eq_refl (DAll_nil ft tid _)).
Qed.

(* ---- the rounds before the EOF PDU *)
Lemma sh_fd : forall off, off < zlen data ->
  SH (InvAx off) [] (InvAx (off + Z.min seg (zlen data - off))) [PFileData hRA' off (ztake seg (zdrop off data))] true.
Proof.
  intros off Hlt s HI. pose proof (InvA_range _ _ _ _ _ _ _ _ _ _ _ HI) as Hr.
  destruct (step_fd_a cs p rs fss data cf seg clo tid sn [x] Hnames Hlook Hseg Hm off s HI Hlt) as (s' & P & HI').
  unfold fd_of in P. cbn [fst snd] in P. rewrite (hdr_eq_a cd cf Hm Hdst) in P.
  assert (Htl : zlen (ztake seg (zdrop off data)) = Z.min seg (zlen data - off)) by (apply tile_len; lia).
  assert (How : onw (PFileData hRA' off (ztake seg (zdrop off data)))).
  { unfold onw. destruct (ztake seg (zdrop off data)); [change (zlen (@nil Z)) with 0 in Htl; lia | reflexivity]. }
  exists s'. split; [exact HI'|].
  rewrite <- (act_t s s' [PFileData hRA' off (ztake seg (zdrop off data))]) by reflexivity.
  apply (SHalf_none ft tid Hk); [exact P|exact (Forall_cons _ How (Forall_nil _))|left; exact (proj1 (IA_bt _ _ HI))|left; exact (IA_bt _ _ HI')].
Qed.

Lemma dh_fd : forall off ls tile fs lg old, lookup fs [x] = Some (File old) -> 0 < zlen tile ->
  DHalf' [PFileData hRA' off tile] (DAx off ls off fs lg)
    (DAx (off + zlen tile) off (off + zlen tile) (set_node fs [x] (File (write_at old off tile)))
         (if l_ind_seg cd then EvSegmentRecv (sc_src cf) (sc_seq cf) off (zlen tile) :: lg else lg)) [] true.
Proof.
  intros off ls tile fs lg old Hl Hpos.
  pose proof (sm_fd_a cd rd x (sc_crc cf) (sc_large cf) clo (sc_src cf) (sc_srcw cf) (sc_seq cf) (sc_seqw cf)
                (r_cktype rs) (zlen data) Hrem off ls tile fs lg _ Hl Hpos) as Hsm.
  rewrite Z.max_l in Hsm by lia.
  apply DHalf_list. change (@nil pdu) with (@nil pdu ++ []) at 2.
  eapply (DAll_ok ft tid Hk _ _ _ _ _ []); [split; reflexivity | exact Hsm | reflexivity | fo | left; split; reflexivity |].
  apply DAll_nil.
Qed.

(* while File Data is sent, nothing held back so far *)
Definition SPK (off c1 : Z) (y : sys) : Prop :=
  exists rnd ls fs lg, rnd = c1 /\
    St (InvAx off) (DAx off ls off fs lg) [] c1 0 [] rnd y /\
    lookup fs [x] = Some (File (ztake off data)) /\ clean lg.

Lemma fin_step : forall y y1 a Ps dd q c1 c2 dl rnd, step_round y = (y1, a) -> 0 < a -> St Ps dd q c1 c2 dl rnd y1 ->
  BusyP Ps \/ d_state dd = ST_BUSY \/ dl <> [] \/ q <> [] -> fin_okx y1 -> fin_okx y.
Proof.
  intros y y1 a Ps dd q c1 c2 dl rnd R Ha H N F.
  exact (fin_reach cd x data cf tick ft [] y y1 (St_act y y1 a Ps dd q c1 c2 dl rnd R Ha H N) F).
Qed.

Lemma BusyP_IA : forall off, BusyP (InvAx off). Proof. intros off s H. exact (proj1 (IA_bt _ _ H)). Qed.
Lemma BusyP_T7 : forall nw t0 k, BusyP (T7 nw t0 k). Proof. intros nw t0 k s H. exact (proj1 (T7_bt _ _ _ _ H)). Qed.
Lemma BusyP_T7x : BusyP (fun s => exists nw, T7 nw nw 0 s). Proof. intros s [nw H]. exact (proj1 (T7_bt _ _ _ _ H)). Qed.
Lemma BusyP_T8 : BusyP T8. Proof. intros s H. exact (proj1 (Tl_bt _ _ _ H)). Qed.
Lemma BusyP_T9 : BusyP T9. Proof. intros s H. exact (proj1 (Tl_bt _ _ _ H)). Qed.

Lemma round_md_k : forall s1 s3,
  pump s1 = (s3, Ok [PMetadata (hdr_of cf TOWARDS_RECEIVER) clo (r_cktype rs) (zlen data) (Some (sn, [x])) []]) ->
  InvAx 0 s3 -> hit ft 0 0 = false ->
  exists y', reach tick (ZD ft [] s1 (dst_init cd) [] [] 0 0 [] 0 None None [] []) y' /\ SPK 0 1 y'.
Proof.
  intros s1 s3 P HI Hh. rewrite (hdr_eq_a cd cf Hm Hdst) in P.
  pose proof (sm_md_a cd rd x (sc_crc cf) (sc_large cf) clo (sc_src cf) (sc_srcw cf) (sc_seq cf) (sc_seqw cf)
                (r_cktype rs) (zlen data) Hrem sn []) as Hsm.
  assert (G : dguard (PMetadata hRA' clo (r_cktype rs) (zlen data) (Some (sn, [x])) []) (dst_init cd) []) by (split; reflexivity).
  eexists. split.
  - eapply reach_step.
    + rewrite (step_round_ZD ft). cbn [rel0 rel1 kept app].
      rewrite (sph0_k ft Hk s1 s3 _ _ _ _ _ _ _ _ _ _ _ _ P ltac:(fo)). cbv beta iota.
      cbn [surv held app]. rewrite Hh. cbn [app].
      rewrite (dph_list_k ft), (ka_dst_ok ft Hk _ _ (dst_init cd) _ _ [] _ _ _ _ _ _ _ _ _ _ _ _ _ G Hsm eq_refl ltac:(fo)).
      rewrite da_nil. reflexivity.
    + repeat match goal with |- context[if ?b then 0 else 1] => destruct b end; unfold zlen; cbn [length]; lia.
    + apply qz_sbusy_k. exact (proj1 (IA_bt _ _ HI)).
  - exists (0 + 1), 0, [([x], File [])], [EvMetadataRecv (sc_src cf) (sc_seq cf) (sc_src cf) (Some (zlen data)) (Some (sn, [x])) []].
    split; [reflexivity|]. split; [|split].
    + do 5 eexists. split; [reflexivity|]. split; [exact HI|]. split.
      * apply bk_busy; [exact (proj1 (IA_bt _ _ HI))|exact (proj2 (IA_bt _ _ HI))].
      * apply bk_busy; reflexivity.
    + cbn [lookup lookup_raw path_eqb]. rewrite Z.eqb_refl. reflexivity.
    + apply clean_cons; [reflexivity|reflexivity|apply clean_nil].
Qed.

Lemma round_fd_k : forall off c1 y, SPK off c1 y -> off < zlen data -> hit ft 0 c1 = false ->
  exists y', reach tick y y' /\ SPK (off + Z.min seg (zlen data - off)) (c1 + 1) y'.
Proof.
  intros off c1 y (rnd & ls & fs & lg & Er & H & Hl & Hc) Hlt Hh.
  assert (Hr : 0 <= off <= zlen data).
  { destruct H as (s & _ & _ & _ & _ & _ & HI & _). exact (InvA_range _ _ _ _ _ _ _ _ _ _ _ HI). }
  set (tile := ztake seg (zdrop off data)) in *.
  assert (Htl : zlen tile = Z.min seg (zlen data - off)) by (apply tile_len; lia).
  assert (Hpos : 0 < zlen tile) by lia.
  edestruct St_round as (y1 & a & R & H1 & Ha);
    [exact H | reflexivity | exact (sh_fd off Hlt) | cbn [rel0 app surv]; rewrite Hh; reflexivity
    | exact (dh_fd off ls tile fs lg _ Hl Hpos) | reflexivity | cbn [kept held app]; rewrite Hh; reflexivity |].
  cbn [orb] in Ha. rewrite Htl in H1.
  exists y1. split.
  - exact (St_act y y1 a _ _ _ _ _ _ _ R Ha H1 (or_introl (BusyP_IA _))).
  - exists (rnd + 1), off. eexists. eexists. split; [rewrite Er; reflexivity|]. split; [exact H1|]. split.
    + rewrite lookup_set_node by discriminate. rewrite path_eqb_refl. f_equal. f_equal. apply write_append; lia.
    + destruct (l_ind_seg cd); [apply clean_cons; [reflexivity|reflexivity|exact Hc] | exact Hc].
Qed.

Lemma prefix_k : forall m i y, 0 <= i -> SPK (Z.min (i * seg) (zlen data)) (i + 1) y ->
  (i = 0 \/ (i - 1) * seg < zlen data) -> (Z.to_nat (zlen data - i * seg) <= m)%nat ->
  (forall c, i + 1 <= c <= nfd' -> hit ft 0 c = false) ->
  exists y', reach tick y y' /\ SPK (zlen data) (nfd' + 1) y'.
Proof.
  pose proof (nfd_spec data seg Hseg) as HN. assert (HL : 0 <= zlen data) by (unfold zlen; lia).
  induction m as [|m IH]; intros i y Hi HS Hprev Hmm Hh;
    (destruct (Z_lt_le_dec (i * seg) (zlen data)) as [Hlt|Hge];
     [| exists y; split; [apply reach_refl|];
        rewrite Z.min_r in HS by lia; replace (nfd' + 1) with (i + 1); [exact HS|];
        destruct Hprev as [->|Hp]; unfold nfd in *; nia ]).
  - exfalso. lia.
  - rewrite Z.min_l in HS by lia.
    assert (Hin : i < nfd') by (unfold nfd in *; nia).
    destruct (round_fd_k (i * seg) (i + 1) y HS Hlt (Hh (i + 1) ltac:(lia))) as (y1 & R1 & H1).
    replace (i * seg + Z.min seg (zlen data - i * seg)) with (Z.min ((i + 1) * seg) (zlen data)) in H1 by lia.
    destruct (IH (i + 1) y1 ltac:(lia) H1 ltac:(right; replace (i + 1 - 1) with i by lia; exact Hlt) ltac:(nia)
                 ltac:(intros c Hc; apply Hh; lia))
      as (y2 & R2 & H2).
    exists y2. split; [exact (reach_trans tick _ _ _ R1 R2)|exact H2].
Qed.

Lemma to_eof_k : forall s1 s3,
  pump s1 = (s3, Ok [PMetadata (hdr_of cf TOWARDS_RECEIVER) clo (r_cktype rs) (zlen data) (Some (sn, [x])) []]) ->
  InvAx 0 s3 -> (forall c, 0 <= c <= nfd' -> hit ft 0 c = false) ->
  exists y', reach tick (ZD ft [] s1 (dst_init cd) [] [] 0 0 [] 0 None None [] []) y' /\ SPK (zlen data) (nfd' + 1) y'.
Proof.
  intros s1 s3 P HI Hh. assert (HL : 0 <= zlen data) by (unfold zlen; lia).
  pose proof (nfd_spec data seg Hseg) as HN.
  destruct (round_md_k s1 s3 P HI (Hh 0 ltac:(unfold nfd in *; nia))) as (y1 & R1 & H1).
  destruct (prefix_k (Z.to_nat (zlen data)) 0 y1 ltac:(lia) ltac:(rewrite Z.mul_0_l, Z.min_l by lia; exact H1)
              ltac:(left; reflexivity) ltac:(lia) ltac:(intros c Hc; apply Hh; lia)) as (y2 & R2 & H2).
  exists y2. split; [exact (reach_trans tick _ _ _ R1 R2)|exact H2].
Qed.

(* ---- rounds after the PDU in question was held back: nothing else is *)
Definition NQ (Ps : src -> Prop) (dd : dst) (dl : list (Z * Z * pdu)) (q : list pdu) : Prop :=
  BusyP Ps \/ d_state dd = ST_BUSY \/ dl <> [] \/ q <> [].

Lemma k_step : forall Ps Ps' ps dd dd' outs q c1 c2 dl rnd a1 a2 qin pds dl' c1' c2' y,
  NH 0 c1 -> NH 1 c2 -> St Ps dd q c1 c2 dl rnd y ->
  q ++ rel1 (rnd + 1) dl = qin -> SH Ps qin Ps' ps a1 ->
  rel0 (rnd + 1) dl ++ ps = pds -> DHalf' pds dd dd' outs a2 -> kept (rnd + 1) dl = dl' ->
  c1 + zlen ps = c1' -> c2 + zlen outs = c2' -> a1 || a2 = true -> NQ Ps' dd' dl' outs ->
  (forall y1, NH 0 c1' -> NH 1 c2' -> St Ps' dd' outs c1' c2' dl' (rnd + 1) y1 -> fin_okx y1) -> fin_okx y.
Proof.
  intros Ps Ps' ps dd dd' outs q c1 c2 dl rnd a1 a2 qin pds dl' c1' c2' y N0 N1 H E1 HS E2 HD E3 <- <- Ea N K.
  destruct (St_round_nh Ps Ps' ps dd dd' outs q c1 c2 dl rnd a1 a2 qin pds dl' y N0 N1 H E1 HS E2 HD E3)
    as (y1 & a & R & H1 & Ha).
  rewrite Ea in Ha.
  apply (fin_step y y1 a _ _ _ _ _ _ _ R Ha H1 N). apply K; [| |exact H1].
  - apply (NH_mono 0 c1); [exact N0|pose proof (zlen_nonneg _ ps); lia].
  - apply (NH_mono 1 c2); [exact N1|pose proof (zlen_nonneg _ outs); lia].
Qed.

(* a round without activity: both clocks advance *)
Lemma k_idle : forall Ps Ps' dd dd' q c1 c2 dl rnd qin pds dl' y,
  NH 0 c1 -> NH 1 c2 -> St Ps dd q c1 c2 dl rnd y ->
  q ++ rel1 (rnd + 1) dl = qin -> SH Ps qin Ps' [] false ->
  rel0 (rnd + 1) dl ++ [] = pds -> DHalf' pds dd dd' [] false -> kept (rnd + 1) dl = dl' -> NQ Ps' dd' dl' [] ->
  (forall y1, St (advP Ps') (adv_d tick dd') [] c1 c2 dl' (rnd + 1) y1 -> fin_okx y1) -> fin_okx y.
Proof.
  intros Ps Ps' dd dd' q c1 c2 dl rnd qin pds dl' y N0 N1 H E1 HS E2 HD E3 N K.
  destruct (St_round_nh Ps Ps' [] dd dd' [] q c1 c2 dl rnd false false qin pds dl' y N0 N1 H E1 HS E2 HD E3)
    as (y1 & a & R & H1 & Ha).
  cbn [orb] in Ha. subst a. change (zlen (@nil pdu)) with 0 in H1. rewrite !Z.add_0_r in H1.
  destruct (St_idle y y1 _ _ _ _ _ _ _ R H1 N) as [Rr H2].
  apply (fin_reach cd x data cf tick ft [] y _ Rr). apply K. exact H2.
Qed.

Section Tails.
Variables (ls : Z) (fs : tree).
Hypothesis Hl : lookup fs [x] = Some (File data).

(* the last round *)
Lemma k_last : forall Ps dd q c1 c2 dl rnd a1 a2 qin ps pds nwd lg y,
  NH 0 c1 -> NH 1 c2 -> St Ps dd q c1 c2 dl rnd y -> clean lg ->
  q ++ rel1 (rnd + 1) dl = qin -> SH Ps qin PD ps a1 ->
  rel0 (rnd + 1) dl ++ ps = pds -> DHalf' pds dd (RFx nwd fs (evF :: lg)) [] a2 -> kept (rnd + 1) dl = [] -> fin_okx y.
Proof.
  intros Ps dd q c1 c2 dl rnd a1 a2 qin ps pds nwd lg y N0 N1 H Hc E1 HS E2 HD E3.
  destruct (St_round_nh Ps PD ps dd _ [] q c1 c2 dl rnd a1 a2 qin pds [] y N0 N1 H E1 HS E2 HD E3)
    as (y1 & a & R & H1 & Ha).
  exact (fin_St_last y y1 a _ _ _ _ _ _ R H1 Hl Hc).
Qed.

Ltac zl := unfold zlen; cbn [length]; lia.
Ltac nq1 := left; first [exact BusyP_T8 | exact BusyP_T9 | exact (BusyP_T7 _ _ _) | exact BusyP_T7x].
Ltac nq2 := right; left; reflexivity.
Ltac nq3 := right; right; left; discriminate.
Ltac nq4 := right; right; right; discriminate.

(* ---- nothing held back (any more): as on a perfect link *)
Lemma t_S3 : forall lg nwd c1 c2 rnd y, clean lg -> NH 0 c1 -> NH 1 c2 ->
  St T9 (RFx nwd fs (evF :: lg)) [] c1 c2 [] rnd y -> fin_okx y.
Proof.
  intros lg nwd c1 c2 rnd y Hc N0 N1 H.
  eapply (k_last _ _ _ _ _ _ _ _ _ _ _ _ nwd lg); [exact N0|exact N1|exact H|exact Hc|reflexivity|exact sh9_done|reflexivity|exact (dhF_none _ _ _)|reflexivity].
Qed.
Lemma t_S2 : forall lg nwd td kd c1 c2 rnd y, clean lg -> NH 0 c1 -> NH 1 c2 ->
  St T8 (RWx nwd td kd 0 [] cks ls fs (evF :: lg)) [finP'] c1 c2 [] rnd y -> fin_okx y.
Proof.
  intros lg nwd td kd c1 c2 rnd y Hc N0 N1 H.
  eapply k_step; [exact N0|exact N1|exact H|reflexivity|exact sh8_fin|reflexivity|exact (dhW_ack TS_ACTIVE _ _ _ _ _ _)|reflexivity
                 |reflexivity|reflexivity|reflexivity|nq1|].
  intros y1 N0' N1' H1. exact (t_S3 lg nwd _ _ _ y1 Hc N0' N1' H1).
Qed.
Lemma t_S1 : forall lg nw t0 k nwd c1 c2 rnd y, clean lg -> NH 0 c1 -> NH 1 c2 ->
  St (T7 nw t0 k) (REx nwd 0 [] cks ls fs lg) [ackE'] c1 c2 [] rnd y -> fin_okx y.
Proof.
  intros lg nw t0 k nwd c1 c2 rnd y Hc N0 N1 H.
  eapply k_step; [exact N0|exact N1|exact H|reflexivity|exact (sh7_ack _ _ _)|reflexivity|exact (dhE_none _ _ _ _ Hl)|reflexivity
                 |reflexivity|reflexivity|reflexivity|nq1|].
  intros y1 N0' N1' H1. exact (t_S2 lg nwd nwd 0 _ _ _ y1 Hc N0' N1' H1).
Qed.

(* both handlers have closed the transaction, a PDU is still held back: rounds without activity until it is released *)
Lemma adv_PD : forall s, advP PD s -> PD s.
Proof. intros s (s0 & [lgs HD] & ->). exists lgs. apply Done_adv. exact HD. Qed.

Lemma loop_DF : forall m lg nwd c1 c2 rel dir pk rnd y, (Z.to_nat (rel - rnd) <= m)%nat -> NH 0 c1 -> NH 1 c2 ->
  St PD (RFx nwd fs (evF :: lg)) [] c1 c2 [(rel, dir, pk)] rnd y ->
  (forall nwd' rnd' y', rel <= rnd' + 1 -> St PD (RFx nwd' fs (evF :: lg)) [] c1 c2 [(rel, dir, pk)] rnd' y' -> fin_okx y') ->
  fin_okx y.
Proof.
  induction m as [|m IH]; intros lg nwd c1 c2 rel dir pk rnd y Hmm N0 N1 H K;
    (destruct (Z_le_gt_dec rel (rnd + 1)) as [Hle|Hgt]; [exact (K nwd rnd y Hle H)|]).
  - exfalso. lia.
  - destruct (rel_hold (rnd + 1) rel dir pk ltac:(lia)) as (E0 & E1 & Ek).
    eapply k_idle; [exact N0|exact N1|exact H|rewrite E1; reflexivity|exact shD_none|rewrite E0; reflexivity
                   |exact (dhF_none _ _ _)|exact Ek|nq3|].
    intros y1 H1. apply (IH lg (tick + nwd) c1 c2 rel dir pk (rnd + 1) y1); [lia|exact N0|exact N1| |exact K].
    exact (St_weaken _ _ _ _ _ _ _ _ _ adv_PD H1).
Qed.

Lemma clean_eofr_k : forall lg, clean lg -> clean (eofr ++ lg).
Proof.
  intros. apply clean_app; [|assumption].
  destruct (l_ind_eof_recv cd); [apply clean_cons; [reflexivity|reflexivity|apply clean_nil] | apply clean_nil].
Qed.

Lemma adv_T7 : forall nw t0 k s, advP (T7 nw t0 k) s -> T7 (tick + nw) t0 k s.
Proof. intros nw t0 k s (s0 & H & ->). apply TailT_adv. exact H. Qed.
Lemma adv_T8 : forall s, advP T8 s -> T8 s.
Proof. intros s (s0 & H & ->). apply Tail_adv. exact H. Qed.

(* ================================================================== *)
(* the EOF PDU is held back *)
Section PathA.
Variable rel : Z.
Local Notation e := (rel, 0, eofG').

Lemma rA4 : forall lg nwd c1 c2 rnd y, clean lg -> NH 0 c1 -> NH 1 c2 -> rel <= rnd + 1 ->
  St PD (RFx nwd fs (evF :: lg)) [] c1 c2 [e] rnd y -> fin_okx y.
Proof.
  intros lg nwd c1 c2 rnd y Hc N0 N1 Hle H. destruct (rel_now0 (rnd + 1) rel eofG' Hle) as (E0 & E1 & Ek).
  eapply k_step; [exact N0|exact N1|exact H|rewrite E1; reflexivity|exact shD_none|rewrite E0; reflexivity|exact (dhF_eof _ _ _)
                 |exact Ek|reflexivity|reflexivity|reflexivity|nq4|].
  intros y1 N0' N1' H1.
  eapply (k_last _ _ _ _ _ _ _ _ _ _ _ _ nwd lg); [exact N0'|exact N1'|exact H1|exact Hc|reflexivity|exact (shD_ack _ _ _ _)
                                                   |reflexivity|exact (dhF_none _ _ _)|reflexivity].
Qed.

Lemma pa3 : forall lg nwd c1 c2 rnd y, clean lg -> NH 0 c1 -> NH 1 c2 ->
  St T9 (RFx nwd fs (evF :: lg)) [] c1 c2 [e] rnd y -> fin_okx y.
Proof.
  intros lg nwd c1 c2 rnd y Hc N0 N1 H. destruct (Z_le_gt_dec rel (rnd + 1)) as [Hle|Hgt].
  - destruct (rel_now0 (rnd + 1) rel eofG' Hle) as (E0 & E1 & Ek).
    eapply k_step; [exact N0|exact N1|exact H|rewrite E1; reflexivity|exact sh9_done|rewrite E0; reflexivity|exact (dhF_eof _ _ _)
                   |exact Ek|reflexivity|reflexivity|reflexivity|nq4|].
    intros y1 N0' N1' H1.
    eapply (k_last _ _ _ _ _ _ _ _ _ _ _ _ nwd lg); [exact N0'|exact N1'|exact H1|exact Hc|reflexivity|exact (shD_ack _ _ _ _)
                                                     |reflexivity|exact (dhF_none _ _ _)|reflexivity].
  - destruct (rel_hold (rnd + 1) rel 0 eofG' ltac:(lia)) as (E0 & E1 & Ek).
    eapply k_step; [exact N0|exact N1|exact H|rewrite E1; reflexivity|exact sh9_done|rewrite E0; reflexivity|exact (dhF_none _ _ _)
                   |exact Ek|reflexivity|reflexivity|reflexivity|nq3|].
    intros y1 N0' N1' H1.
    apply (loop_DF (Z.to_nat (rel - (rnd + 1))) lg nwd _ _ rel 0 eofG' (rnd + 1) y1 (le_n _) N0' N1' H1).
    intros nwd' rnd' y' Hle' H'. exact (rA4 lg nwd' _ _ rnd' y' Hc N0' N1' Hle' H').
Qed.

Lemma pa2 : forall lg nwd td kd c1 c2 rnd y, clean lg -> NH 0 c1 -> NH 1 c2 ->
  St T8 (RWx nwd td kd 0 [] cks ls fs (evF :: lg)) [finP'] c1 c2 [e] rnd y -> fin_okx y.
Proof.
  intros lg nwd td kd c1 c2 rnd y Hc N0 N1 H. destruct (Z_le_gt_dec rel (rnd + 1)) as [Hle|Hgt].
  - destruct (rel_now0 (rnd + 1) rel eofG' Hle) as (E0 & E1 & Ek).
    eapply k_step; [exact N0|exact N1|exact H|rewrite E1; reflexivity|exact sh8_fin|rewrite E0; reflexivity
                   |exact (dhW_eof_ack _ _ _ _ _ _)|exact Ek|reflexivity|reflexivity|reflexivity|nq1|].
    intros y1 N0' N1' H1.
    eapply (k_last _ _ _ _ _ _ _ _ _ _ _ _ nwd lg); [exact N0'|exact N1'|exact H1|exact Hc|reflexivity|exact sh9_ack
                                                     |reflexivity|exact (dhF_none _ _ _)|reflexivity].
  - destruct (rel_hold (rnd + 1) rel 0 eofG' ltac:(lia)) as (E0 & E1 & Ek).
    eapply k_step; [exact N0|exact N1|exact H|rewrite E1; reflexivity|exact sh8_fin|rewrite E0; reflexivity
                   |exact (dhW_ack TS_ACTIVE _ _ _ _ _ _)|exact Ek|reflexivity|reflexivity|reflexivity|nq1|].
    intros y1 N0' N1' H1. exact (pa3 lg nwd _ _ _ y1 Hc N0' N1' H1).
Qed.

Lemma pa1 : forall lg nw t0 k nwd c1 c2 rnd y, clean lg -> NH 0 c1 -> NH 1 c2 ->
  St (T7 nw t0 k) (REx nwd 0 [] cks ls fs lg) [ackE'] c1 c2 [e] rnd y -> fin_okx y.
Proof.
  intros lg nw t0 k nwd c1 c2 rnd y Hc N0 N1 H. destruct (Z_le_gt_dec rel (rnd + 1)) as [Hle|Hgt].
  - destruct (rel_now0 (rnd + 1) rel eofG' Hle) as (E0 & E1 & Ek).
    eapply k_step; [exact N0|exact N1|exact H|rewrite E1; reflexivity|exact (sh7_ack _ _ _)|rewrite E0; reflexivity
                   |exact (dhE_eof _ _ _ _ Hl)|exact Ek|reflexivity|reflexivity|reflexivity|nq1|].
    intros y1 N0' N1' H1.
    eapply (k_last _ _ _ _ _ _ _ _ _ _ _ _ nwd lg); [exact N0'|exact N1'|exact H1|exact Hc|reflexivity|exact sh8_fin_ack
                                                     |reflexivity|exact (dhW_ack TS_ACTIVE _ _ _ _ _ _)|reflexivity].
  - destruct (rel_hold (rnd + 1) rel 0 eofG' ltac:(lia)) as (E0 & E1 & Ek).
    eapply k_step; [exact N0|exact N1|exact H|rewrite E1; reflexivity|exact (sh7_ack _ _ _)|rewrite E0; reflexivity
                   |exact (dhE_none _ _ _ _ Hl)|exact Ek|reflexivity|reflexivity|reflexivity|nq1|].
    intros y1 N0' N1' H1. exact (pa2 lg nwd nwd 0 _ _ _ y1 Hc N0' N1' H1).
Qed.

(* the sender waits for the ACK (EOF), the receiver for the EOF PDU: rounds without activity, in which the sender's
   Positive-ACK timer may expire *)
Lemma pa0 : forall m lg nw t0 nwd c1 c2 rnd y, (Z.to_nat (rel - rnd) <= m)%nat -> clean lg -> NH 0 c1 -> NH 1 c2 ->
  2 <= r_ack_limit rs \/ (nw - t0 < r_ack_ms rs /\ nw - t0 + (rel - rnd - 1) * tick < r_ack_ms rs) ->
  St (T7 nw t0 0) (RAx nwd ls fs lg) [] c1 c2 [e] rnd y -> fin_okx y.
Proof.
  induction m as [|m IH]; intros lg nw t0 nwd c1 c2 rnd y Hmm Hc N0 N1 TC H;
    (destruct (Z_le_gt_dec rel (rnd + 1)) as [Hle|Hgt];
     [ destruct (rel_now0 (rnd + 1) rel eofG' Hle) as (E0 & E1 & Ek);
       destruct (Z_lt_le_dec (nw - t0) (r_ack_ms rs)) as [Hlt|Hge];
       [ eapply k_step; [exact N0|exact N1|exact H|rewrite E1; reflexivity|exact (sh7_wait _ _ _ Hlt)|rewrite E0; reflexivity
                        |exact (dhA_eof _ _ _ _)|exact Ek|reflexivity|reflexivity|reflexivity|nq1|];
         intros y1 N0' N1' H1; exact (t_S1 _ nw t0 0 nwd _ _ _ y1 (clean_eofr_k lg Hc) N0' N1' H1)
       | assert (Hlim : 0 + 1 < r_ack_limit rs) by (destruct TC as [?|[? ?]]; lia);
         eapply k_step; [exact N0|exact N1|exact H|rewrite E1; reflexivity|exact (sh7_resend _ _ _ Hge Hlim)|rewrite E0; reflexivity
                        |exact (dhA_eof2 _ _ _ _ Hl)|exact Ek|reflexivity|reflexivity|reflexivity|nq1|];
         intros y1 N0' N1' H1;
         eapply (k_last _ _ _ _ _ _ _ _ _ _ _ _ nwd (eofr ++ lg));
           [exact N0'|exact N1'|exact H1|exact (clean_eofr_k lg Hc)|reflexivity|exact (sh7_afa _ _ _)
           |reflexivity|exact (dhW_ack TS_ACTIVE _ _ _ _ _ _)|reflexivity] ]
     |]).
  - exfalso. lia.
  - destruct (rel_hold (rnd + 1) rel 0 eofG' ltac:(lia)) as (E0 & E1 & Ek).
    destruct (Z_lt_le_dec (nw - t0) (r_ack_ms rs)) as [Hlt|Hge].
    + eapply k_idle; [exact N0|exact N1|exact H|rewrite E1; reflexivity|exact (sh7_wait _ _ _ Hlt)|rewrite E0; reflexivity
                     |exact (dhA_none _ _ _ _)|exact Ek|nq1|].
      intros y1 H1. apply (IH lg (tick + nw) t0 (tick + nwd) c1 c2 (rnd + 1) y1); [lia|exact Hc|exact N0|exact N1| |].
      * destruct TC as [?|[T1 T2]]; [left; assumption|right]. split; nia.
      * exact (St_weaken _ _ _ _ _ _ _ _ _ (adv_T7 nw t0 0) H1).
    + assert (Hlim : 0 + 1 < r_ack_limit rs) by (destruct TC as [?|[? ?]]; lia).
      eapply k_step; [exact N0|exact N1|exact H|rewrite E1; reflexivity|exact (sh7_resend _ _ _ Hge Hlim)|rewrite E0; reflexivity
                     |exact (dhA_eof _ _ _ _)|exact Ek|reflexivity|reflexivity|reflexivity|nq1|].
      intros y1 N0' N1' H1. exact (pa1 _ nw nw (0 + 1) nwd _ _ _ y1 (clean_eofr_k lg Hc) N0' N1' H1).
Qed.
End PathA.

(* ================================================================== *)
(* the ACK (EOF) is held back *)
Section PathC.
Variable rel : Z.
Local Notation e := (rel, 1, ackE').

Lemma rC4 : forall lg nwd c1 c2 rnd y, clean lg -> NH 0 c1 -> NH 1 c2 -> rel <= rnd + 1 ->
  St PD (RFx nwd fs (evF :: lg)) [] c1 c2 [e] rnd y -> fin_okx y.
Proof.
  intros lg nwd c1 c2 rnd y Hc N0 N1 Hle H. destruct (rel_now1 (rnd + 1) rel ackE' Hle) as (E0 & E1 & Ek).
  eapply (k_last _ _ _ _ _ _ _ _ _ _ _ _ nwd lg); [exact N0|exact N1|exact H|exact Hc|rewrite E1; reflexivity|exact (shD_ack _ _ _ _)
                                                   |rewrite E0; reflexivity|exact (dhF_none _ _ _)|exact Ek].
Qed.

Lemma pc3 : forall lg nwd c1 c2 rnd y, clean lg -> NH 0 c1 -> NH 1 c2 ->
  St T9 (RFx nwd fs (evF :: lg)) [] c1 c2 [e] rnd y -> fin_okx y.
Proof.
  intros lg nwd c1 c2 rnd y Hc N0 N1 H. destruct (Z_le_gt_dec rel (rnd + 1)) as [Hle|Hgt].
  - destruct (rel_now1 (rnd + 1) rel ackE' Hle) as (E0 & E1 & Ek).
    eapply (k_last _ _ _ _ _ _ _ _ _ _ _ _ nwd lg); [exact N0|exact N1|exact H|exact Hc|rewrite E1; reflexivity|exact sh9_ack
                                                     |rewrite E0; reflexivity|exact (dhF_none _ _ _)|exact Ek].
  - destruct (rel_hold (rnd + 1) rel 1 ackE' ltac:(lia)) as (E0 & E1 & Ek).
    eapply k_step; [exact N0|exact N1|exact H|rewrite E1; reflexivity|exact sh9_done|rewrite E0; reflexivity|exact (dhF_none _ _ _)
                   |exact Ek|reflexivity|reflexivity|reflexivity|nq3|].
    intros y1 N0' N1' H1.
    apply (loop_DF (Z.to_nat (rel - (rnd + 1))) lg nwd _ _ rel 1 ackE' (rnd + 1) y1 (le_n _) N0' N1' H1).
    intros nwd' rnd' y' Hle' H'. exact (rC4 lg nwd' _ _ rnd' y' Hc N0' N1' Hle' H').
Qed.

Lemma pc2 : forall lg nw t0 k nwd td kd c1 c2 rnd y, clean lg -> NH 0 c1 -> NH 1 c2 ->
  St (T7 nw t0 k) (RWx nwd td kd 0 [] cks ls fs (evF :: lg)) [finP'] c1 c2 [e] rnd y -> fin_okx y.
Proof.
  intros lg nw t0 k nwd td kd c1 c2 rnd y Hc N0 N1 H. destruct (Z_le_gt_dec rel (rnd + 1)) as [Hle|Hgt].
  - destruct (rel_now1 (rnd + 1) rel ackE' Hle) as (E0 & E1 & Ek).
    eapply (k_last _ _ _ _ _ _ _ _ _ _ _ _ nwd lg); [exact N0|exact N1|exact H|exact Hc|rewrite E1; reflexivity|exact (sh7_fin_ack _ _ _)
                                                     |rewrite E0; reflexivity|exact (dhW_ack TS_ACTIVE _ _ _ _ _ _)|exact Ek].
  - destruct (rel_hold (rnd + 1) rel 1 ackE' ltac:(lia)) as (E0 & E1 & Ek).
    eapply k_step; [exact N0|exact N1|exact H|rewrite E1; reflexivity|exact (sh7_fin _ _ _)|rewrite E0; reflexivity
                   |exact (dhW_ack TS_ACTIVE _ _ _ _ _ _)|exact Ek|reflexivity|reflexivity|reflexivity|nq1|].
    intros y1 N0' N1' H1. exact (pc3 lg nwd _ _ _ y1 Hc N0' N1' H1).
Qed.

Lemma pc1 : forall lg nw t0 k nwd c1 c2 rnd y, clean lg -> NH 0 c1 -> NH 1 c2 -> nw - t0 < r_ack_ms rs ->
  St (T7 nw t0 k) (REx nwd 0 [] cks ls fs lg) [] c1 c2 [e] rnd y -> fin_okx y.
Proof.
  intros lg nw t0 k nwd c1 c2 rnd y Hc N0 N1 Hlt H. destruct (Z_le_gt_dec rel (rnd + 1)) as [Hle|Hgt].
  - destruct (rel_now1 (rnd + 1) rel ackE' Hle) as (E0 & E1 & Ek).
    eapply k_step; [exact N0|exact N1|exact H|rewrite E1; reflexivity|exact (sh7_ack _ _ _)|rewrite E0; reflexivity
                   |exact (dhE_none _ _ _ _ Hl)|exact Ek|reflexivity|reflexivity|reflexivity|nq1|].
    intros y1 N0' N1' H1. exact (t_S2 lg nwd nwd 0 _ _ _ y1 Hc N0' N1' H1).
  - destruct (rel_hold (rnd + 1) rel 1 ackE' ltac:(lia)) as (E0 & E1 & Ek).
    eapply k_step; [exact N0|exact N1|exact H|rewrite E1; reflexivity|exact (sh7_wait _ _ _ Hlt)|rewrite E0; reflexivity
                   |exact (dhE_none _ _ _ _ Hl)|exact Ek|reflexivity|reflexivity|reflexivity|nq1|].
    intros y1 N0' N1' H1. exact (pc2 lg nw t0 k nwd nwd 0 _ _ _ y1 Hc N0' N1' H1).
Qed.
End PathC.

(* ================================================================== *)
(* the Finished PDU is held back *)
Section PathD.
Variable rel : Z.
Local Notation e := (rel, 1, finP').

Lemma rD4 : forall lg nwd c1 c2 rnd y, clean lg -> NH 0 c1 -> NH 1 c2 -> rel <= rnd + 1 ->
  St PD (RFx nwd fs (evF :: lg)) [] c1 c2 [e] rnd y -> fin_okx y.
Proof.
  intros lg nwd c1 c2 rnd y Hc N0 N1 Hle H. destruct (rel_now1 (rnd + 1) rel finP' Hle) as (E0 & E1 & Ek).
  eapply (k_last _ _ _ _ _ _ _ _ _ _ _ _ nwd lg); [exact N0|exact N1|exact H|exact Hc|rewrite E1; reflexivity|exact shD_fin
                                                   |rewrite E0; reflexivity|exact (dhF_ack TS_TERMINATED _ _ _)|exact Ek].
Qed.

Lemma pd3 : forall lg nwd c1 c2 rnd y, clean lg -> NH 0 c1 -> NH 1 c2 ->
  St T9 (RFx nwd fs (evF :: lg)) [] c1 c2 [e] rnd y -> fin_okx y.
Proof.
  intros lg nwd c1 c2 rnd y Hc N0 N1 H. destruct (Z_le_gt_dec rel (rnd + 1)) as [Hle|Hgt].
  - destruct (rel_now1 (rnd + 1) rel finP' Hle) as (E0 & E1 & Ek).
    eapply (k_last _ _ _ _ _ _ _ _ _ _ _ _ nwd lg); [exact N0|exact N1|exact H|exact Hc|rewrite E1; reflexivity|exact sh9_fin
                                                     |rewrite E0; reflexivity|exact (dhF_none _ _ _)|exact Ek].
  - destruct (rel_hold (rnd + 1) rel 1 finP' ltac:(lia)) as (E0 & E1 & Ek).
    eapply k_step; [exact N0|exact N1|exact H|rewrite E1; reflexivity|exact sh9_done|rewrite E0; reflexivity|exact (dhF_none _ _ _)
                   |exact Ek|reflexivity|reflexivity|reflexivity|nq3|].
    intros y1 N0' N1' H1.
    apply (loop_DF (Z.to_nat (rel - (rnd + 1))) lg nwd _ _ rel 1 finP' (rnd + 1) y1 (le_n _) N0' N1' H1).
    intros nwd' rnd' y' Hle' H'. exact (rD4 lg nwd' _ _ rnd' y' Hc N0' N1' Hle' H').
Qed.

Lemma pd2 : forall lg nwd td kd c1 c2 rnd y, clean lg -> NH 0 c1 -> NH 1 c2 ->
  St T8 (RWx nwd td kd 0 [] cks ls fs (evF :: lg)) [finP'] c1 c2 [e] rnd y -> fin_okx y.
Proof.
  intros lg nwd td kd c1 c2 rnd y Hc N0 N1 H. destruct (Z_le_gt_dec rel (rnd + 1)) as [Hle|Hgt].
  - destruct (rel_now1 (rnd + 1) rel finP' Hle) as (E0 & E1 & Ek).
    eapply (k_last _ _ _ _ _ _ _ _ _ _ _ _ nwd lg); [exact N0|exact N1|exact H|exact Hc|rewrite E1; reflexivity|exact sh8_fin_fin
                                                     |rewrite E0; reflexivity|exact (dhW_ack TS_ACTIVE _ _ _ _ _ _)|exact Ek].
  - destruct (rel_hold (rnd + 1) rel 1 finP' ltac:(lia)) as (E0 & E1 & Ek).
    eapply k_step; [exact N0|exact N1|exact H|rewrite E1; reflexivity|exact sh8_fin|rewrite E0; reflexivity
                   |exact (dhW_ack TS_ACTIVE _ _ _ _ _ _)|exact Ek|reflexivity|reflexivity|reflexivity|nq1|].
    intros y1 N0' N1' H1. exact (pd3 lg nwd _ _ _ y1 Hc N0' N1' H1).
Qed.

(* the sender waits for the Finished PDU, the receiver for its ACK: rounds without activity, in which the receiver's
   Positive-ACK timer may expire *)
Lemma pd1 : forall m lg nwd td c1 c2 rnd y, (Z.to_nat (rel - rnd) <= m)%nat -> clean lg -> NH 0 c1 -> NH 1 c2 ->
  2 <= r_ack_limit rd \/ (2 <= rel - rnd -> nwd - td < r_ack_ms rd /\ nwd - td + (rel - rnd - 2) * tick < r_ack_ms rd) ->
  St T8 (RWx nwd td 0 0 [] cks ls fs (evF :: lg)) [] c1 c2 [e] rnd y -> fin_okx y.
Proof.
  induction m as [|m IH]; intros lg nwd td c1 c2 rnd y Hmm Hc N0 N1 TC H;
    (destruct (Z_le_gt_dec rel (rnd + 1)) as [Hle|Hgt];
     [ destruct (rel_now1 (rnd + 1) rel finP' Hle) as (E0 & E1 & Ek);
       eapply k_step; [exact N0|exact N1|exact H|rewrite E1; reflexivity|exact sh8_fin|rewrite E0; reflexivity
                      |exact (dhW_ack TS_ACTIVE _ _ _ _ _ _)|exact Ek|reflexivity|reflexivity|reflexivity|nq1|];
       intros y1 N0' N1' H1; exact (t_S3 lg nwd _ _ _ y1 Hc N0' N1' H1)
     |]).
  - exfalso. lia.
  - destruct (rel_hold (rnd + 1) rel 1 finP' ltac:(lia)) as (E0 & E1 & Ek).
    destruct (Z_lt_le_dec (nwd - td) (r_ack_ms rd)) as [Hlt|Hge].
    + eapply k_idle; [exact N0|exact N1|exact H|rewrite E1; reflexivity|exact sh8_wait|rewrite E0; reflexivity
                     |exact (dhW_wait _ _ _ _ _ _ Hlt)|exact Ek|nq1|].
      intros y1 H1. apply (IH lg (tick + nwd) td c1 c2 (rnd + 1) y1); [lia|exact Hc|exact N0|exact N1| |].
      * destruct TC as [?|T]; [left; assumption|right]. intro H2. destruct (T ltac:(lia)) as [T1 T2]. split; nia.
      * exact (St_weaken _ _ _ _ _ _ _ _ _ adv_T8 H1).
    + assert (Hlim : 0 + 1 < r_ack_limit rd) by (destruct TC as [?|T]; [lia|destruct (T ltac:(lia)); lia]).
      eapply k_step; [exact N0|exact N1|exact H|rewrite E1; reflexivity|exact sh8_wait|rewrite E0; reflexivity
                     |exact (dhW_resend _ _ _ _ _ _ Hge Hlim)|exact Ek|reflexivity|reflexivity|reflexivity|nq1|].
      intros y1 N0' N1' H1. exact (pd2 lg nwd nwd (0 + 1) _ _ _ y1 Hc N0' N1' H1).
Qed.
End PathD.

(* ================================================================== *)
(* the ACK (Finished) is held back *)
Section PathB.
Variable rel : Z.
Local Notation e := (rel, 0, ackFG').

Lemma rB4 : forall lg nwd c1 c2 rnd y, clean lg -> NH 0 c1 -> NH 1 c2 -> rel <= rnd + 1 ->
  St PD (RFx nwd fs (evF :: lg)) [] c1 c2 [e] rnd y -> fin_okx y.
Proof.
  intros lg nwd c1 c2 rnd y Hc N0 N1 Hle H. destruct (rel_now0 (rnd + 1) rel ackFG' Hle) as (E0 & E1 & Ek).
  eapply (k_last _ _ _ _ _ _ _ _ _ _ _ _ nwd lg); [exact N0|exact N1|exact H|exact Hc|rewrite E1; reflexivity|exact shD_none
                                                   |rewrite E0; reflexivity|exact (dhF_ack TS_ACTIVE _ _ _)|exact Ek].
Qed.

Lemma pb3 : forall lg nwd td kd c1 c2 rnd y, clean lg -> NH 0 c1 -> NH 1 c2 ->
  St PD (RWx nwd td kd 0 [] cks ls fs (evF :: lg)) [finP'] c1 c2 [e] rnd y -> fin_okx y.
Proof.
  intros lg nwd td kd c1 c2 rnd y Hc N0 N1 H. destruct (Z_le_gt_dec rel (rnd + 1)) as [Hle|Hgt].
  - destruct (rel_now0 (rnd + 1) rel ackFG' Hle) as (E0 & E1 & Ek).
    eapply (k_last _ _ _ _ _ _ _ _ _ _ _ _ nwd lg); [exact N0|exact N1|exact H|exact Hc|rewrite E1; reflexivity|exact shD_fin
                                                     |rewrite E0; reflexivity|exact (dhW_ack_ackT _ _ _ _ _ _)|exact Ek].
  - destruct (rel_hold (rnd + 1) rel 0 ackFG' ltac:(lia)) as (E0 & E1 & Ek).
    eapply k_step; [exact N0|exact N1|exact H|rewrite E1; reflexivity|exact shD_fin|rewrite E0; reflexivity
                   |exact (dhW_ack TS_TERMINATED _ _ _ _ _ _)|exact Ek|reflexivity|reflexivity|reflexivity|nq3|].
    intros y1 N0' N1' H1.
    apply (loop_DF (Z.to_nat (rel - (rnd + 1))) lg nwd _ _ rel 0 ackFG' (rnd + 1) y1 (le_n _) N0' N1' H1).
    intros nwd' rnd' y' Hle' H'. exact (rB4 lg nwd' _ _ rnd' y' Hc N0' N1' Hle' H').
Qed.

(* the sender has closed the transaction, the receiver waits for the ACK (Finished): rounds without activity, in which
   the receiver's Positive-ACK timer may expire *)
Lemma pb2 : forall m lg nwd td c1 c2 rnd y, (Z.to_nat (rel - rnd) <= m)%nat -> clean lg -> NH 0 c1 -> NH 1 c2 ->
  2 <= r_ack_limit rd \/ (2 <= rel - rnd -> nwd - td < r_ack_ms rd /\ nwd - td + (rel - rnd - 2) * tick < r_ack_ms rd) ->
  St PD (RWx nwd td 0 0 [] cks ls fs (evF :: lg)) [] c1 c2 [e] rnd y -> fin_okx y.
Proof.
  induction m as [|m IH]; intros lg nwd td c1 c2 rnd y Hmm Hc N0 N1 TC H;
    (destruct (Z_le_gt_dec rel (rnd + 1)) as [Hle|Hgt];
     [ destruct (rel_now0 (rnd + 1) rel ackFG' Hle) as (E0 & E1 & Ek);
       eapply (k_last _ _ _ _ _ _ _ _ _ _ _ _ nwd lg); [exact N0|exact N1|exact H|exact Hc|rewrite E1; reflexivity|exact shD_none
                                                       |rewrite E0; reflexivity|exact (dhW_ack TS_ACTIVE _ _ _ _ _ _)|exact Ek]
     |]).
  - exfalso. lia.
  - destruct (rel_hold (rnd + 1) rel 0 ackFG' ltac:(lia)) as (E0 & E1 & Ek).
    destruct (Z_lt_le_dec (nwd - td) (r_ack_ms rd)) as [Hlt|Hge].
    + eapply k_idle; [exact N0|exact N1|exact H|rewrite E1; reflexivity|exact shD_none|rewrite E0; reflexivity
                     |exact (dhW_wait _ _ _ _ _ _ Hlt)|exact Ek|nq2|].
      intros y1 H1. apply (IH lg (tick + nwd) td c1 c2 (rnd + 1) y1); [lia|exact Hc|exact N0|exact N1| |].
      * destruct TC as [?|T]; [left; assumption|right]. intro H2. destruct (T ltac:(lia)) as [T1 T2]. split; nia.
      * exact (St_weaken _ _ _ _ _ _ _ _ _ adv_PD H1).
    + assert (Hlim : 0 + 1 < r_ack_limit rd) by (destruct TC as [?|T]; [lia|destruct (T ltac:(lia)); lia]).
      eapply k_step; [exact N0|exact N1|exact H|rewrite E1; reflexivity|exact shD_none|rewrite E0; reflexivity
                     |exact (dhW_resend _ _ _ _ _ _ Hge Hlim)|exact Ek|reflexivity|reflexivity|reflexivity|nq2|].
      intros y1 N0' N1' H1. exact (pb3 lg nwd nwd (0 + 1) _ _ _ y1 Hc N0' N1' H1).
Qed.

Lemma pb1 : forall lg nwd td c1 c2 rnd y, clean lg -> NH 0 c1 -> NH 1 c2 -> nwd - td < r_ack_ms rd ->
  2 <= r_ack_limit rd \/ (3 <= rel - rnd -> nwd - td + (rel - rnd - 3) * tick < r_ack_ms rd) ->
  St T9 (RWx nwd td 0 0 [] cks ls fs (evF :: lg)) [] c1 c2 [e] rnd y -> fin_okx y.
Proof.
  intros lg nwd td c1 c2 rnd y Hc N0 N1 Hlt TC H. destruct (Z_le_gt_dec rel (rnd + 1)) as [Hle|Hgt].
  - destruct (rel_now0 (rnd + 1) rel ackFG' Hle) as (E0 & E1 & Ek).
    eapply (k_last _ _ _ _ _ _ _ _ _ _ _ _ nwd lg); [exact N0|exact N1|exact H|exact Hc|rewrite E1; reflexivity|exact sh9_done
                                                     |rewrite E0; reflexivity|exact (dhW_ack TS_ACTIVE _ _ _ _ _ _)|exact Ek].
  - destruct (rel_hold (rnd + 1) rel 0 ackFG' ltac:(lia)) as (E0 & E1 & Ek).
    eapply k_step; [exact N0|exact N1|exact H|rewrite E1; reflexivity|exact sh9_done|rewrite E0; reflexivity
                   |exact (dhW_wait _ _ _ _ _ _ Hlt)|exact Ek|reflexivity|reflexivity|reflexivity|nq2|].
    intros y1 N0' N1' H1.
    apply (pb2 (Z.to_nat (rel - (rnd + 1))) lg nwd td _ _ (rnd + 1) y1 (le_n _) Hc N0' N1'); [|exact H1].
    destruct TC as [?|T]; [left; assumption|right]. intro H2. split; [exact Hlt|].
    replace (rel - (rnd + 1) - 2) with (rel - rnd - 3) by lia. apply T. lia.
Qed.
End PathB.
End Tails.

Lemma St_cnt : forall Ps dd q c1 c2 c1' c2' dl rnd y, St Ps dd q c1 c2 dl rnd y -> c1 = c1' -> c2 = c2' ->
  St Ps dd q c1' c2' dl rnd y.
Proof. intros Ps dd q c1 c2 c1' c2' dl rnd y H <- <-. exact H. Qed.

Ltac zl := unfold zlen; cbn [length]; lia.

(* ---- the round in which the EOF PDU is sent, per held-back PDU *)
(* the EOF PDU and its ACK pass *)
Lemma N_eof : forall c1 y, SPK (zlen data) c1 y -> hit ft 0 c1 = false -> hit ft 1 0 = false ->
  exists y1 rnd ls fs lg nw, reach tick y y1 /\
    St (T7 nw nw 0) (REx 0 0 [] cks ls fs (eofr ++ lg)) [ackE'] (c1 + 1) 1 [] rnd y1 /\
    lookup fs [x] = Some (File data) /\ clean lg.
Proof.
  intros c1 y (rnd & ls & fs & lg & _ & H & Hl & Hc) Hh0 Hh1. rewrite ztake_all in Hl.
  change (DAx (zlen data) ls (zlen data) fs lg) with (RAx 0 ls fs lg) in H.
  edestruct St_round as (y1 & a & R & H1 & Ha);
    [exact H | reflexivity | exact sh_final | cbn [rel0 app surv]; rewrite Hh0; reflexivity | exact (dhA_eof 0 ls fs lg)
    | cbn [surv]; rewrite Hh1; reflexivity | cbn [kept held app]; rewrite Hh0, Hh1; reflexivity |].
  cbn [orb] in Ha. destruct (St_ex _ _ _ _ _ _ _ _ _ H1) as [nw H2].
  exists y1, (rnd + 1), ls, fs, lg, nw. split; [exact (St_act y y1 a _ _ _ _ _ _ _ R Ha H1 (or_introl BusyP_T7x))|].
  split; [exact (St_cnt _ _ _ _ _ (c1 + 1) 1 _ _ _ H2 ltac:(zl) ltac:(zl))|]. split; [exact Hl|exact Hc].
Qed.

(* the EOF PDU is held back *)
Lemma case_A : forall c1 y, SPK (zlen data) c1 y -> hit ft 0 c1 = true -> NH 0 (c1 + 1) -> NH 1 0 ->
  2 <= r_ack_limit rs \/ (ft_arg ft - 1) * tick < r_ack_ms rs -> fin_okx y.
Proof.
  intros c1 y (rnd & ls & fs & lg & _ & H & Hl & Hc) Hh N0 N1 TC. rewrite ztake_all in Hl.
  change (DAx (zlen data) ls (zlen data) fs lg) with (RAx 0 ls fs lg) in H.
  edestruct St_round as (y1 & a & R & H1 & Ha);
    [exact H | reflexivity | exact sh_final | cbn [rel0 app surv]; rewrite Hh; reflexivity | exact (dhA_none 0 ls fs lg)
    | reflexivity | cbn [kept held app]; rewrite Hh; reflexivity |].
  cbn [orb] in Ha. apply (fin_step y y1 a _ _ _ _ _ _ _ R Ha H1 (or_introl BusyP_T7x)).
  destruct (St_ex _ _ _ _ _ _ _ _ _ H1) as [nw H2].
  pose proof (St_cnt _ _ _ _ _ (c1 + 1) 0 _ _ _ H2 ltac:(zl) ltac:(zl)) as H3.
  apply (pa0 ls fs Hl (rnd + 1 + ft_arg ft) (Z.to_nat (rnd + 1 + ft_arg ft - (rnd + 1))) lg nw nw 0 (c1 + 1) 0 (rnd + 1) y1
           (le_n _) Hc N0 N1); [|exact H3].
  destruct TC as [?|T]; [left; assumption|right]. rewrite Z.sub_diag. split; [lia|].
  replace (rnd + 1 + ft_arg ft - (rnd + 1) - 1) with (ft_arg ft - 1) by lia. lia.
Qed.

(* the ACK (EOF) is held back *)
Lemma case_C : forall c1 y, SPK (zlen data) c1 y -> hit ft 0 c1 = false -> hit ft 1 0 = true -> NH 0 (c1 + 1) -> NH 1 1 ->
  fin_okx y.
Proof.
  intros c1 y (rnd & ls & fs & lg & _ & H & Hl & Hc) Hh0 Hh1 N0 N1. rewrite ztake_all in Hl.
  change (DAx (zlen data) ls (zlen data) fs lg) with (RAx 0 ls fs lg) in H.
  edestruct St_round as (y1 & a & R & H1 & Ha);
    [exact H | reflexivity | exact sh_final | cbn [rel0 app surv]; rewrite Hh0; reflexivity | exact (dhA_eof 0 ls fs lg)
    | cbn [surv]; rewrite Hh1; reflexivity | cbn [kept held app]; rewrite Hh0, Hh1; reflexivity |].
  cbn [orb] in Ha. apply (fin_step y y1 a _ _ _ _ _ _ _ R Ha H1 (or_introl BusyP_T7x)).
  destruct (St_ex _ _ _ _ _ _ _ _ _ H1) as [nw H2].
  pose proof (St_cnt _ _ _ _ _ (c1 + 1) 1 _ _ _ H2 ltac:(zl) ltac:(zl)) as H3.
  apply (pc1 ls fs Hl (rnd + 1 + ft_arg ft) (eofr ++ lg) nw nw 0 0 (c1 + 1) 1 (rnd + 1) y1 (clean_eofr_k lg Hc) N0 N1); [|exact H3].
  rewrite Z.sub_diag. exact Hacks.
Qed.

(* the Finished PDU is held back *)
Lemma case_D : forall c1 y, SPK (zlen data) c1 y -> (forall c, hit ft 0 c = false) -> hit ft 1 0 = false -> hit ft 1 1 = true -> NH 1 2 ->
  2 <= r_ack_limit rd \/ (ft_arg ft - 2) * tick < r_ack_ms rd -> fin_okx y.
Proof.
  intros c1 y HS N0 Hh0 Hh1 N1 TC.
  destruct (N_eof c1 y HS (N0 c1) Hh0) as (y1 & rnd & ls & fs & lg & nw & R1 & H1 & Hl & Hc).
  apply (fin_reach cd x data cf tick ft [] y y1 R1).
  edestruct St_round as (y2 & a & R & H2 & Ha);
    [exact H1 | reflexivity | exact (sh7_ack nw nw 0) | reflexivity | exact (dhE_none 0 ls fs _ Hl)
    | cbn [surv]; rewrite Hh1; reflexivity | cbn [kept held app]; rewrite Hh1; reflexivity |].
  cbn [orb] in Ha. apply (fin_step y1 y2 a _ _ _ _ _ _ _ R Ha H2 (or_introl BusyP_T8)).
  pose proof (St_cnt _ _ _ _ _ (c1 + 1) 2 _ _ _ H2 ltac:(zl) ltac:(zl)) as H3.
  apply (pd1 ls fs Hl (rnd + 1 + ft_arg ft) (Z.to_nat (rnd + 1 + ft_arg ft - (rnd + 1))) (eofr ++ lg) 0 0 (c1 + 1) 2 (rnd + 1) y2
           (le_n _) (clean_eofr_k lg Hc) (fun c _ => N0 c) N1); [|exact H3].
  destruct TC as [?|T]; [left; assumption|right]. intros _. rewrite Z.sub_diag. split; [lia|].
  replace (rnd + 1 + ft_arg ft - (rnd + 1) - 2) with (ft_arg ft - 2) by lia. lia.
Qed.

(* the ACK (Finished) is held back *)
Lemma case_B : forall c1 y, SPK (zlen data) c1 y -> hit ft 0 c1 = false -> hit ft 0 (c1 + 1) = true -> NH 0 (c1 + 2) -> NH 1 0 ->
  2 <= r_ack_limit rd \/ (ft_arg ft - 3) * tick < r_ack_ms rd -> fin_okx y.
Proof.
  intros c1 y HS Hh0 Hh1 N0 N1 TC.
  destruct (N_eof c1 y HS Hh0 (N1 0 ltac:(lia))) as (y1 & rnd & ls & fs & lg & nw & R1 & H1 & Hl & Hc).
  apply (fin_reach cd x data cf tick ft [] y y1 R1).
  edestruct St_round as (y2 & a & R & H2 & Ha);
    [exact H1 | reflexivity | exact (sh7_ack nw nw 0) | reflexivity | exact (dhE_none 0 ls fs _ Hl)
    | cbn [surv]; rewrite (N1 1) by lia; reflexivity | cbn [kept held app]; rewrite (N1 1) by lia; reflexivity |].
  cbn [orb] in Ha. apply (fin_step y1 y2 a _ _ _ _ _ _ _ R Ha H2 (or_introl BusyP_T8)).
  pose proof (St_cnt _ _ _ _ _ (c1 + 1) 2 _ _ _ H2 ltac:(zl) ltac:(zl)) as H3.
  edestruct St_round as (y3 & a' & R' & H4 & Ha');
    [exact H3 | reflexivity | exact sh8_fin | cbn [rel0 app surv]; rewrite Hh1; reflexivity
    | exact (dhW_wait 0 0 0 ls fs _ ltac:(rewrite Z.sub_diag; exact Hackd))
    | reflexivity | cbn [kept held app]; rewrite Hh1; reflexivity |].
  cbn [orb] in Ha'. apply (fin_step y2 y3 a' _ _ _ _ _ _ _ R' Ha' H4 (or_introl BusyP_T9)).
  pose proof (St_cnt _ _ _ _ _ (c1 + 2) 2 _ _ _ H4 ltac:(zl) ltac:(zl)) as H5.
  apply (pb1 ls fs Hl (rnd + 1 + 1 + ft_arg ft) (eofr ++ lg) 0 0 (c1 + 2) 2 (rnd + 1 + 1) y3
           (clean_eofr_k lg Hc) N0 (NH_mono 1 0 2 N1 ltac:(lia))); [rewrite Z.sub_diag; exact Hackd| |exact H5].
  destruct TC as [?|T]; [left; assumption|right]. intros _. rewrite Z.sub_diag.
  replace (rnd + 1 + 1 + ft_arg ft - (rnd + 1 + 1) - 3) with (ft_arg ft - 3) by lia. lia.
Qed.

(* the assumption on the timers, per held-back PDU: either the Positive-ACK limit of the entity whose timer runs while the
   PDU is held back allows one re-transmission, or that timer does not expire in the rounds without activity *)
Definition delay_timers (ft0 : fault) : Prop :=
  (ft_dir ft0 = 0 -> ft_index ft0 = nfd' + 1 -> 2 <= r_ack_limit rs \/ (ft_arg ft0 - 1) * tick < r_ack_ms rs) /\
  (ft_dir ft0 = 0 -> ft_index ft0 = nfd' + 2 -> 2 <= r_ack_limit rd \/ (ft_arg ft0 - 3) * tick < r_ack_ms rd) /\
  (ft_dir ft0 = 1 -> ft_index ft0 = 1 -> 2 <= r_ack_limit rd \/ (ft_arg ft0 - 2) * tick < r_ack_ms rd).

(* the whole run *)
Lemma main_k : forall s1 s3 d,
  pump s1 = (s3, Ok [PMetadata (hdr_of cf TOWARDS_RECEIVER) clo (r_cktype rs) (zlen data) (Some (sn, [x])) []]) ->
  InvAx 0 s3 ->
  (ft = mkFault 0 (nfd' + 1) 2 d \/ ft = mkFault 0 (nfd' + 2) 2 d \/ ft = mkFault 1 0 2 d \/ ft = mkFault 1 1 2 d) ->
  delay_timers ft ->
  fin_okx (ZD ft [] s1 (dst_init cd) [] [] 0 0 [] 0 None None [] []).
Proof.
  intros s1 s3 d P HI Hft (TA & TB & TD).
  assert (HN : 0 <= nfd') by (pose proof (nfd_spec data seg Hseg); assert (0 <= zlen data) by (unfold zlen; lia); unfold nfd in *; nia).
  assert (Hpre : forall c, 0 <= c <= nfd' -> hit ft 0 c = false).
  { intros c Hc. destruct Hft as [E|[E|[E|E]]]; rewrite E; rewrite ?hit_k00, ?hit_k10; try reflexivity; apply Z.eqb_neq; lia. }
  destruct (to_eof_k s1 s3 P HI Hpre) as (y1 & R1 & H1). apply (fin_reach cd x data cf tick ft [] _ y1 R1).
  destruct Hft as [E|[E|[E|E]]].
  - apply (case_A _ _ H1).
    + rewrite E, hit_k00. apply Z.eqb_eq. reflexivity.
    + intros c Hc. rewrite E, hit_k00. apply Z.eqb_neq. lia.
    + intros c Hc. rewrite E. apply hit_k01.
    + apply TA; rewrite E; reflexivity.
  - apply (case_B _ _ H1).
    + rewrite E, hit_k00. apply Z.eqb_neq. lia.
    + rewrite E, hit_k00. apply Z.eqb_eq. lia.
    + intros c Hc. rewrite E, hit_k00. apply Z.eqb_neq. lia.
    + intros c Hc. rewrite E. apply hit_k01.
    + apply TB; rewrite E; reflexivity.
  - apply (case_C _ _ H1).
    + rewrite E. apply hit_k10.
    + rewrite E. reflexivity.
    + intros c Hc. rewrite E. apply hit_k10.
    + intros c Hc. rewrite E, hit_k11. apply Z.eqb_neq. lia.
  - apply (case_D _ _ H1).
    + intros c. rewrite E. apply hit_k10.
    + rewrite E. reflexivity.
    + rewrite E. reflexivity.
    + intros c Hc. rewrite E, hit_k11. apply Z.eqb_neq. lia.
    + apply TD; rewrite E; reflexivity.
Qed.

(* ================================================================== *)
(* a File Data PDU is held back and released no later than in the round of the EOF PDU: pure reordering *)
Local Notation DRx := (RT DR) (only parsing).
Local Notation tl' off := (ztake seg (zdrop off data)) (only parsing).
Local Notation nxt' off := (off + Z.min seg (zlen data - off)) (only parsing).
Local Notation fdP off := (PFileData hRA' off (ztake seg (zdrop off data))) (only parsing).
Local Notation lgS off n lg := (if l_ind_seg cd then EvSegmentRecv (sc_src cf) (sc_seq cf) off n :: lg else lg%list) (only parsing).

Lemma deliver_all_app : forall f l1 l2 y a,
  deliver_all f (l1 ++ l2) y a = (let '(y1, a1) := deliver_all f l1 y a in deliver_all f l2 y1 a1).
Proof.
  intros f l1. induction l1 as [|p1 t IH]; intros l2 y a; [reflexivity|].
  cbn [app deliver_all]. destruct (f p1 y) as [y1 n]. apply IH.
Qed.
Lemma DAll_app : forall l1 l2 dd dd1 dd2 o1 o2, DAll' l1 dd dd1 o1 -> DAll' l2 dd1 dd2 o2 -> DAll' (l1 ++ l2) dd dd2 (o1 ++ o2).
Proof.
  intros l1 l2 dd dd1 dd2 o1 o2 H1 H2 er s q1 q2 c1 c2 dl rnd scur dcur sdone ddone a B.
  destruct (H1 er s q1 q2 c1 c2 dl rnd scur dcur sdone ddone a B) as (dc & dn & a1 & E1 & B1 & Ha1).
  destruct (H2 er s q1 (q2 ++ surv ft 1 c2 o1) c1 (c2 + zlen o1) (dl ++ held ft 1 c2 rnd o1) rnd scur dc sdone dn a1 B1)
    as (dc' & dn' & a2 & E2 & B2 & Ha2).
  exists dc', dn', a2. rewrite deliver_all_app, E1, E2.
  rewrite surv_app, held_app, !zlen_app_k, !app_assoc, Z.add_assoc. split; [reflexivity|]. split; [exact B2|lia].
Qed.

Lemma tl_len_k : forall off, 0 <= off < zlen data -> zlen (tl' off) = Z.min seg (zlen data - off).
Proof. intros. apply tile_len; lia. Qed.

(* the receiver and one File Data PDU: in order (whatever the tracker holds), after a gap (deferred NAK mode), late *)
Lemma da_fd_in : forall off tr ls dt fs lg old, lookup fs [x] = Some (File old) -> 0 < zlen dt ->
  DAll' [PFileData hRA' off dt] (DRx off tr ls off fs lg)
    (DRx (off + zlen dt) tr off (off + zlen dt) (set_node fs [x] (File (write_at old off dt))) (lgS off (zlen dt) lg)) [].
Proof.
  intros off tr ls dt fs lg old Hl Hpos.
  pose proof (sm_fd_inorder cd rd x (sc_crc cf) (sc_large cf) clo (sc_src cf) (sc_srcw cf) (sc_seq cf) (sc_seqw cf)
                (r_cktype rs) (zlen data) Hrem off tr ls dt fs lg old Hl Hpos) as Hsm.
  rewrite Z.max_l in Hsm by lia. change (@nil pdu) with (@nil pdu ++ []) at 2.
  eapply (DAll_ok ft tid Hk _ _ _ _ _ []); [split; reflexivity | exact Hsm | reflexivity | fo | left; split; reflexivity |].
  apply DAll_nil.
Qed.
Lemma da_fd_gap : forall a b ls dt fs lg old, lookup fs [x] = Some (File old) -> 0 < zlen dt -> a < b -> r_imm_nak rd = false ->
  DAll' [PFileData hRA' b dt] (DRx a [] ls a fs lg)
    (DRx (b + zlen dt) [(a, b)] b (b + zlen dt) (set_node fs [x] (File (write_at old b dt))) (lgS b (zlen dt) lg)) [].
Proof.
  intros a b ls dt fs lg old Hl Hpos Hab Hi.
  pose proof (sm_fd_gap_def cd rd x (sc_crc cf) (sc_large cf) clo (sc_src cf) (sc_srcw cf) (sc_seq cf) (sc_seqw cf)
                (r_cktype rs) (zlen data) Hrem a b ls dt fs lg old Hl Hpos Hab Hi) as Hsm.
  rewrite Z.max_l in Hsm by lia. change (@nil pdu) with (@nil pdu ++ []) at 2.
  eapply (DAll_ok ft tid Hk _ _ _ _ _ []); [split; reflexivity | exact Hsm | reflexivity | fo | left; split; reflexivity |].
  apply DAll_nil.
Qed.
Lemma da_fd_fill : forall a prog ls dt fs lg old, lookup fs [x] = Some (File old) -> 0 < zlen dt ->
  a + zlen dt <= ls -> a + zlen dt <= prog ->
  DAll' [PFileData hRA' a dt] (DRx prog [(a, a + zlen dt)] ls prog fs lg)
    (DRx prog [] ls prog (set_node fs [x] (File (write_at old a dt))) (lgS a (zlen dt) lg)) [].
Proof.
  intros a prog ls dt fs lg old Hl Hpos Hls Hle.
  pose proof (sm_fd_fill_late cd rd x (sc_crc cf) (sc_large cf) clo (sc_src cf) (sc_srcw cf) (sc_seq cf) (sc_seqw cf)
                (r_cktype rs) (zlen data) Hrem a prog ls dt fs lg old Hl Hpos Hls Hle) as Hsm.
  rewrite Z.max_r in Hsm by lia. change (@nil pdu) with (@nil pdu ++ []) at 2.
  eapply (DAll_ok ft tid Hk _ _ _ _ _ []); [split; reflexivity | exact Hsm | reflexivity | fo | left; split; reflexivity |].
  apply DAll_nil.
Qed.
Lemma da_eof : forall nwd ls fs lg, DAll' [eofG'] (RAx nwd ls fs lg) (REx nwd 0 [] cks ls fs (eofr ++ lg)) [ackE'].
Proof.
  intros. change [ackE'] with ([ackE'] ++ []).
  eapply (DAll_ok ft tid Hk _ _ _ _ (REx nwd 0 [] cks ls fs (eofr ++ lg)) [ackE']);
    [split; reflexivity | exact (Ld_eof_ra cd rs rd x data cks cf clo Hrem nwd ls fs lg) | reflexivity | fo | left; split; reflexivity |].
  apply DAll_nil.
Qed.
Lemma dhR_none : forall prog tr ls le fs lg, DHalf' [] (DRx prog tr ls le fs lg) (DRx prog tr ls le fs lg) [] false.
Proof.
  intros. exact (DHalf_none ft tid Hk _ _ _ [] (sm_none_recv cd rd x (sc_crc cf) (sc_large cf) clo (sc_src cf) (sc_srcw cf)
                   (sc_seq cf) (sc_seqw cf) (r_cktype rs) (zlen data) prog tr ls le fs lg) eq_refl (Forall_nil _) BB BT).
Qed.

(* from any point of the File Data phase at which nothing is held back (any more): the rest of the run *)
Lemma fin_SPK : forall i y, 0 <= i -> SPK (Z.min (i * seg) (zlen data)) (i + 1) y -> (i = 0 \/ (i - 1) * seg < zlen data) ->
  NH 0 (i + 1) -> NH 1 0 -> fin_okx y.
Proof.
  intros i y Hi HS Hprev N0 N1.
  pose proof (nfd_spec data seg Hseg) as HN. assert (HL : 0 <= zlen data) by (unfold zlen; lia).
  assert (Hin : i <= nfd') by (destruct Hprev as [->|Hp]; unfold nfd in *; nia).
  destruct (prefix_k (Z.to_nat (zlen data - i * seg)) i y Hi HS Hprev (le_n _) ltac:(intros c Hc; apply N0; lia)) as (y1 & R1 & H1).
  apply (fin_reach cd x data cf tick ft [] y y1 R1).
  destruct (N_eof (nfd' + 1) y1 H1 (N0 (nfd' + 1) ltac:(lia)) (N1 0 ltac:(lia))) as (y2 & rnd & ls & fs & lg & nw & R2 & H2 & Hl & Hc).
  apply (fin_reach cd x data cf tick ft [] y1 y2 R2).
  exact (t_S1 ls fs Hl (eofr ++ lg) nw nw 0 0 _ _ _ y2 (clean_eofr_k lg Hc) (NH_mono 0 (i + 1) (nfd' + 1 + 1) N0 ltac:(lia)) (NH_mono 1 0 1 N1 ltac:(lia)) H2).
Qed.

Section PathF.
Variables (a rel : Z).
Hypothesis Ha : 0 <= a < zlen data.
Local Notation b := (nxt' a).
Local Notation e := (rel, 0, fdP a).

(* the round in which the PDU is released, the receiver being [dd] and the late PDU taking it to the state in which
   [off] bytes were received in order: the sender's next File Data PDU follows in the same round *)
Lemma rel_fd : forall i dd ls fs lg y, 0 <= i -> i * seg < zlen data -> rel <= i + 1 + 1 -> NH 0 (i + 1) -> NH 1 0 ->
  St (InvAx (i * seg)) dd [] (i + 1) 0 [e] (i + 1) y ->
  DAll' [fdP a] dd (DRx (i * seg) [] ls (i * seg) fs lg) [] ->
  lookup fs [x] = Some (File (ztake (i * seg) data)) -> clean lg -> fin_okx y.
Proof.
  intros i dd ls fs lg y Hi Hlt Hle N0 N1 H HA Hl Hc. set (off := i * seg) in *.
  destruct (rel_now0 (i + 1 + 1) rel (fdP a) Hle) as (E0 & E1 & Ek).
  assert (Htl : zlen (tl' off) = Z.min seg (zlen data - off)) by (apply tl_len_k; lia).
  assert (Hpos : 0 < zlen (tl' off)) by lia.
  eapply k_step; [exact N0|exact N1|exact H|rewrite E1; reflexivity|exact (sh_fd off Hlt)|rewrite E0; reflexivity
                 |apply DHalf_list; exact (DAll_app [fdP a] [fdP off] _ _ _ [] [] HA (da_fd_in off [] ls (tl' off) fs lg _ Hl Hpos))
                 |exact Ek|reflexivity|reflexivity|reflexivity|left; exact (BusyP_IA _)|].
  intros y1 N0' N1' H1. rewrite Htl in H1.
  apply (fin_SPK (i + 1) y1 ltac:(lia)); [|right; replace (i + 1 - 1) with i by lia; exact Hlt|exact N0'|exact N1].
  replace (Z.min ((i + 1) * seg) (zlen data)) with (off + Z.min seg (zlen data - off)) by (unfold off; lia).
  exists (i + 1 + 1), off. eexists. eexists. split; [reflexivity|]. split; [exact H1|]. split.
  - rewrite lookup_set_node by discriminate. rewrite path_eqb_refl. f_equal. f_equal. apply write_append; lia.
  - destruct (l_ind_seg cd); [apply clean_cons; [reflexivity|reflexivity|exact Hc] | exact Hc].
Qed.

(* ... the sender's EOF PDU follows in the same round *)
Lemma rel_eof : forall c1 rnd dd ls fs lg y, rel <= rnd + 1 -> NH 0 c1 -> NH 1 0 ->
  St (InvAx (zlen data)) dd [] c1 0 [e] rnd y ->
  DAll' [fdP a] dd (DRx (zlen data) [] ls (zlen data) fs lg) [] ->
  lookup fs [x] = Some (File data) -> clean lg -> fin_okx y.
Proof.
  intros c1 rnd dd ls fs lg y Hle N0 N1 H HA Hl Hc.
  destruct (rel_now0 (rnd + 1) rel (fdP a) Hle) as (E0 & E1 & Ek).
  eapply k_step; [exact N0|exact N1|exact H|rewrite E1; reflexivity|exact sh_final|rewrite E0; reflexivity
                 |apply DHalf_list; exact (DAll_app [fdP a] [eofG'] _ _ _ [] [ackE'] HA (da_eof 0 ls fs lg))
                 |exact Ek|reflexivity|reflexivity|reflexivity|left; exact BusyP_T7x|].
  intros y1 N0' N1' H1. destruct (St_ex _ _ _ _ _ _ _ _ _ H1) as [nw H2].
  exact (t_S1 ls fs Hl (eofr ++ lg) nw nw 0 0 _ _ _ y1 (clean_eofr_k lg Hc) N0' N1' H2).
Qed.

(* the gap is recorded, the sender goes on: File Data PDUs in order until the late one is released *)
Lemma g_loop : forall m i ls fs lg y, (Z.to_nat (rel - (i + 1)) <= m)%nat -> 0 <= i -> b <= i * seg -> (i - 1) * seg < zlen data ->
  rel <= nfd' + 2 -> NH 0 (i + 1) -> NH 1 0 -> b <= ls ->
  St (InvAx (Z.min (i * seg) (zlen data))) (DRx (Z.min (i * seg) (zlen data)) [(a, b)] ls (Z.min (i * seg) (zlen data)) fs lg)
     [] (i + 1) 0 [e] (i + 1) y ->
  lookup fs [x] = Some (File (holed data a b (Z.min (i * seg) (zlen data)))) -> clean lg -> fin_okx y.
Proof.
  pose proof (nfd_spec data seg Hseg) as HN. assert (HL : 0 <= zlen data) by (unfold zlen; lia).
  assert (Htla : zlen (tl' a) = Z.min seg (zlen data - a)) by (apply tl_len_k; lia).
  induction m as [|m IH]; intros i ls fs lg y Hmm Hi Hbi Hprev Hrel N0 N1 Hls H Hl Hc;
    (destruct (Z_le_gt_dec rel (i + 1 + 1)) as [Hle|Hgt];
     [ assert (HA : forall off, b <= off <= zlen data -> lookup fs [x] = Some (File (holed data a b off)) ->
                 DAll' [fdP a] (DRx off [(a, b)] ls off fs lg)
                   (DRx off [] ls off (set_node fs [x] (File (write_at (holed data a b off) a (tl' a)))) (lgS a (zlen (tl' a)) lg)) [])
         by (intros off Ho Hlo; rewrite <- Htla at 1; apply da_fd_fill; [exact Hlo|lia|lia|lia]);
       assert (Hcl : clean (lgS a (zlen (tl' a)) lg))
         by (destruct (l_ind_seg cd); [apply clean_cons; [reflexivity|reflexivity|exact Hc] | exact Hc]);
       destruct (Z_lt_le_dec (i * seg) (zlen data)) as [Hlt|Hge];
       [ rewrite (Z.min_l (i * seg) (zlen data)) in H, Hl by lia;
         apply (rel_fd i _ ls _ _ y Hi Hlt Hle N0 N1 H (HA (i * seg) ltac:(lia) Hl)); [|exact Hcl];
         rewrite lookup_set_node by discriminate; rewrite path_eqb_refl; f_equal; f_equal;
         apply (hole_fill data seg a b (i * seg) Hseg); lia
       | rewrite (Z.min_r (i * seg) (zlen data)) in H, Hl by lia;
         apply (rel_eof (i + 1) (i + 1) _ ls _ _ y Hle N0 N1 H (HA (zlen data) ltac:(lia) Hl)); [|exact Hcl];
         rewrite lookup_set_node by discriminate; rewrite path_eqb_refl; f_equal; f_equal;
         transitivity (ztake (zlen data) data); [apply (hole_fill data seg a b (zlen data) Hseg); lia | apply ztake_all] ]
     |]).
  - exfalso. lia.
  - assert (Hin : i < nfd') by lia. assert (Hlt : i * seg < zlen data) by (unfold nfd in *; nia).
    rewrite (Z.min_l (i * seg) (zlen data)) in H, Hl by lia. set (off := i * seg) in *.
    destruct (rel_hold (i + 1 + 1) rel 0 (fdP a) ltac:(lia)) as (E0 & E1 & Ek).
    assert (Htl : zlen (tl' off) = Z.min seg (zlen data - off)) by (apply tl_len_k; lia).
    assert (Hpos : 0 < zlen (tl' off)) by lia.
    eapply k_step; [exact N0|exact N1|exact H|rewrite E1; reflexivity|exact (sh_fd off Hlt)|rewrite E0; reflexivity
                   |apply DHalf_list; exact (da_fd_in off [(a, b)] ls (tl' off) fs lg _ Hl Hpos)
                   |exact Ek|reflexivity|reflexivity|reflexivity|left; exact (BusyP_IA _)|].
    intros y1 N0' N1' H1. rewrite Htl in H1.
    assert (Eo : off + Z.min seg (zlen data - off) = Z.min ((i + 1) * seg) (zlen data)) by (unfold off; lia).
    rewrite Eo in H1.
    eapply (IH (i + 1) off _ _ y1); [lia|lia|unfold off; nia|replace (i + 1 - 1) with i by lia; exact Hlt|exact Hrel|exact N0'|exact N1|lia|exact H1| |].
    + rewrite lookup_set_node by discriminate. rewrite path_eqb_refl. f_equal. f_equal. rewrite <- Eo, <- Htl.
      apply (hole_ext data seg a b off Hseg); lia.
    + destruct (l_ind_seg cd); [apply clean_cons; [reflexivity|reflexivity|exact Hc] | exact Hc].
Qed.
End PathF.

(* the File Data PDU number j + 1 (offset j * seg) is held back *)
Lemma fd_main : forall j y, 0 <= j -> j * seg < zlen data -> SPK (j * seg) (j + 1) y -> hit ft 0 (j + 1) = true ->
  NH 0 (j + 2) -> NH 1 0 -> j + 1 + ft_arg ft <= nfd' + 1 -> r_imm_nak rd = false \/ ft_arg ft <= 1 -> fin_okx y.
Proof.
  intros j y Hj Hlt (rnd & ls & fs & lg & Er & H & Hl & Hc) Hh N0 N1 Hd Hmode. subst rnd.
  pose proof (nfd_spec data seg Hseg) as HN. assert (HL : 0 <= zlen data) by (unfold zlen; lia).
  assert (Ha0 : 0 <= j * seg < zlen data) by nia.
  set (a := j * seg) in *.
  assert (Htla : zlen (tl' a) = Z.min seg (zlen data - a)) by (apply tl_len_k; lia).
  assert (Hposa : 0 < zlen (tl' a)) by lia.
  change (DAx a ls a fs lg) with (DRx a [] ls a fs lg) in H.
  edestruct St_round as (y1 & a1 & R & H1 & Ha1);
    [exact H | reflexivity | exact (sh_fd a Hlt) | cbn [rel0 app surv]; rewrite Hh; reflexivity | exact (dhR_none a [] ls a fs lg)
    | reflexivity | cbn [kept held app]; rewrite Hh; reflexivity |].
  cbn [orb] in Ha1. cbn [surv app] in H1. apply (fin_step y y1 a1 _ _ _ _ _ _ _ R Ha1 H1 (or_introl (BusyP_IA _))).
  pose proof (St_cnt _ _ _ _ _ (j + 1 + 1) 0 _ _ _ H1 ltac:(unfold zlen; cbn [length]; lia) ltac:(unfold zlen; cbn [length]; lia)) as H2.
  set (rel := j + 1 + 1 + ft_arg ft) in *.
  assert (N0' : NH 0 (j + 1 + 1)) by (apply (NH_mono 0 (j + 2)); [exact N0|lia]).
  assert (HAin : DAll' [fdP a] (DRx a [] ls a fs lg)
            (DRx (a + zlen (tl' a)) [] a (a + zlen (tl' a)) (set_node fs [x] (File (write_at (ztake a data) a (tl' a))))
                 (lgS a (zlen (tl' a)) lg)) []) by exact (da_fd_in a [] ls (tl' a) fs lg _ Hl Hposa).
  assert (Hcl : clean (lgS a (zlen (tl' a)) lg))
    by (destruct (l_ind_seg cd); [apply clean_cons; [reflexivity|reflexivity|exact Hc] | exact Hc]).
  assert (Hla : lookup (set_node fs [x] (File (write_at (ztake a data) a (tl' a)))) [x] =
                Some (File (ztake (a + zlen (tl' a)) data))).
  { rewrite lookup_set_node by discriminate. rewrite path_eqb_refl. f_equal. f_equal. rewrite Htla. apply write_append; lia. }
  destruct (Z_le_gt_dec rel (j + 1 + 1 + 1)) as [Hle|Hgt].
  - (* released in the next round: no reordering *)
    destruct (Z_lt_le_dec ((j + 1) * seg) (zlen data)) as [Hlt1|Hge1].
    + assert (Eb : a + zlen (tl' a) = (j + 1) * seg) by (rewrite Htla; unfold a in *; lia).
      replace (a + Z.min seg (zlen data - a)) with ((j + 1) * seg) in H2 by (unfold a; lia).
      rewrite Eb in HAin, Hla.
      exact (rel_fd a rel (j + 1) _ a _ _ y1 ltac:(lia) Hlt1 Hle N0' N1 H2 HAin Hla Hcl).
    + assert (Eb : a + zlen (tl' a) = zlen data) by (rewrite Htla; unfold a in *; lia).
      replace (a + Z.min seg (zlen data - a)) with (zlen data) in H2 by (unfold a in *; lia).
      rewrite Eb in HAin, Hla. rewrite ztake_all in Hla.
      exact (rel_eof a rel (j + 1 + 1) (j + 1 + 1) _ a _ _ y1 Hle N0' N1 H2 HAin Hla Hcl).
  - (* overtaken by the next File Data PDU: the receiver records the gap (deferred NAK mode) *)
    assert (Himm : r_imm_nak rd = false) by (destruct Hmode as [?|?]; [assumption|unfold rel in Hgt; lia]).
    assert (Hin : j + 2 <= nfd') by (unfold rel in Hgt; lia).
    assert (Hlt1 : (j + 1) * seg < zlen data) by (unfold nfd in *; nia).
    set (b := (j + 1) * seg) in *.
    assert (Eb : a + Z.min seg (zlen data - a) = b) by (unfold a, b; lia).
    rewrite Eb in H2.
    assert (Htlb : zlen (tl' b) = Z.min seg (zlen data - b)) by (apply tl_len_k; lia).
    assert (Hposb : 0 < zlen (tl' b)) by lia.
    destruct (rel_hold (j + 1 + 1 + 1) rel 0 (fdP a) ltac:(lia)) as (E0 & E1 & Ek).
    eapply k_step; [exact N0'|exact N1|exact H2|rewrite E1; reflexivity|exact (sh_fd b Hlt1)|rewrite E0; reflexivity
                   |apply DHalf_list; exact (da_fd_gap a b ls (tl' b) fs lg _ Hl Hposb ltac:(unfold a, b; lia) Himm)
                   |exact Ek|reflexivity|reflexivity|reflexivity|left; exact (BusyP_IA _)|].
    intros y2 N0'' N1'' H3. rewrite Htlb in H3.
    assert (Eo : b + Z.min seg (zlen data - b) = Z.min ((j + 2) * seg) (zlen data)) by (unfold b; lia).
    rewrite Eo in H3.
    pose proof (St_cnt _ _ _ _ _ (j + 2 + 1) 0 _ _ _ H3 ltac:(unfold zlen; cbn [length]; lia) ltac:(unfold zlen; cbn [length]; lia)) as H4.
    replace (j + 1 + 1 + 1) with (j + 2 + 1) in H4 by lia.
    eapply (g_loop a rel Ha0 (Z.to_nat (rel - (j + 2 + 1))) (j + 2) b _ _ y2 (le_n _) ltac:(lia)
             ltac:(unfold a, b; nia) ltac:(replace (j + 2 - 1) with (j + 1) by lia; exact Hlt1) ltac:(unfold rel; lia)
             (NH_mono 0 (j + 2) (j + 2 + 1) N0 ltac:(lia)) N1 ltac:(unfold a, b; lia)).
    + rewrite <- Eb in H4 at 1. exact H4.
    + rewrite lookup_set_node by discriminate. rewrite path_eqb_refl. f_equal. f_equal. rewrite <- Eo, <- Htlb, Eb.
      apply (hole_make data seg a b Hseg); unfold a, b; lia.
    + destruct (l_ind_seg cd); [apply clean_cons; [reflexivity|reflexivity|exact Hc] | exact Hc].
Qed.

Lemma prefix_upto : forall m i y, 0 <= i -> SPK (Z.min (i * seg) (zlen data)) (i + 1) y ->
  (forall c, i + 1 <= c <= i + Z.of_nat m -> hit ft 0 c = false) -> (i + Z.of_nat m - 1) * seg < zlen data \/ m = 0%nat ->
  exists y', reach tick y y' /\ SPK (Z.min ((i + Z.of_nat m) * seg) (zlen data)) (i + Z.of_nat m + 1) y'.
Proof.
  induction m as [|m IH]; intros i y Hi HS Hh Hb.
  - exists y. split; [apply reach_refl|]. replace (i + Z.of_nat 0) with i by lia. exact HS.
  - destruct Hb as [Hb|Hb]; [|discriminate Hb].
    assert (Hlt : i * seg < zlen data) by nia.
    rewrite Z.min_l in HS by lia.
    destruct (round_fd_k (i * seg) (i + 1) y HS Hlt (Hh (i + 1) ltac:(lia))) as (y1 & R1 & H1).
    replace (i * seg + Z.min seg (zlen data - i * seg)) with (Z.min ((i + 1) * seg) (zlen data)) in H1 by lia.
    destruct (IH (i + 1) y1 ltac:(lia) H1 ltac:(intros c Hc; apply Hh; lia)
                ltac:(destruct m; [right; reflexivity|left; replace (i + 1 + Z.of_nat (S m) - 1) with (i + Z.of_nat (S (S m)) - 1) by lia; exact Hb]))
      as (y2 & R2 & H2).
    exists y2. split; [exact (reach_trans tick _ _ _ R1 R2)|].
    replace (i + Z.of_nat (S m)) with (i + 1 + Z.of_nat m) by lia. exact H2.
Qed.

Lemma main_fd : forall s1 s3 k d,
  pump s1 = (s3, Ok [PMetadata (hdr_of cf TOWARDS_RECEIVER) clo (r_cktype rs) (zlen data) (Some (sn, [x])) []]) ->
  InvAx 0 s3 -> ft = mkFault 0 k 2 d -> 1 <= k <= nfd' -> k + d <= nfd' + 1 -> r_imm_nak rd = false \/ d <= 1 ->
  fin_okx (ZD ft [] s1 (dst_init cd) [] [] 0 0 [] 0 None None [] []).
Proof.
  intros s1 s3 k d P HI E Hk1 Hkd Hmode.
  pose proof (nfd_spec data seg Hseg) as HN. assert (HL : 0 <= zlen data) by (unfold zlen; lia).
  assert (Hh : forall c, hit ft 0 c = (k =? c)) by (intro c; rewrite E; apply hit_k00).
  destruct (round_md_k s1 s3 P HI ltac:(rewrite Hh; apply Z.eqb_neq; lia)) as (y1 & R1 & H1).
  apply (fin_reach cd x data cf tick ft [] _ y1 R1).
  assert (Hlt : (k - 1) * seg < zlen data) by (unfold nfd in *; nia).
  destruct (prefix_upto (Z.to_nat (k - 1)) 0 y1 ltac:(lia) ltac:(rewrite Z.mul_0_l, Z.min_l by lia; exact H1)
              ltac:(intros c Hc; rewrite Hh; apply Z.eqb_neq; lia)
              ltac:(destruct (Z.eq_dec k 1) as [->|?]; [right; reflexivity|left; nia])) as (y2 & R2 & H2).
  apply (fin_reach cd x data cf tick ft [] y1 y2 R2).
  replace (0 + Z.of_nat (Z.to_nat (k - 1))) with (k - 1) in H2 by lia. rewrite Z.min_l in H2 by lia.
  apply (fd_main (k - 1) y2 ltac:(lia) Hlt H2).
  - rewrite Hh. apply Z.eqb_eq. lia.
  - intros c Hc. rewrite Hh. apply Z.eqb_neq. lia.
  - intros c Hc. rewrite E. apply hit_k01.
  - rewrite E. cbn [ft_arg]. lia.
  - rewrite E. exact Hmode.
Qed.

(* ================================================================== *)
(* the Metadata PDU is held back for one round: it arrives together with, and before, the next PDU *)
Lemma md_main : forall s1 s3,
  pump s1 = (s3, Ok [PMetadata (hdr_of cf TOWARDS_RECEIVER) clo (r_cktype rs) (zlen data) (Some (sn, [x])) []]) ->
  InvAx 0 s3 -> hit ft 0 0 = true -> ft_arg ft <= 1 -> NH 0 1 -> NH 1 0 ->
  fin_okx (ZD ft [] s1 (dst_init cd) [] [] 0 0 [] 0 None None [] []).
Proof.
  intros s1 s3 P HI Hh Hd N0 N1. rewrite (hdr_eq_a cd cf Hm Hdst) in P.
  pose proof (nfd_spec data seg Hseg) as HN. assert (HL : 0 <= zlen data) by (unfold zlen; lia).
  set (md := PMetadata hRA' clo (r_cktype rs) (zlen data) (Some (sn, [x])) []) in *.
  set (lg0 := [EvMetadataRecv (sc_src cf) (sc_seq cf) (sc_src cf) (Some (zlen data)) (Some (sn, [x])) []]).
  pose proof (sm_md_a cd rd x (sc_crc cf) (sc_large cf) clo (sc_src cf) (sc_srcw cf) (sc_seq cf) (sc_seqw cf)
                (r_cktype rs) (zlen data) Hrem sn []) as Hsm. fold md lg0 in Hsm.
  assert (G : dguard md (dst_init cd) []) by (split; reflexivity).
  destruct (IA_bt _ _ HI) as [Hb3 Ht3].
  assert (Hl0 : lookup [([x], File [])] [x] = Some (File (ztake 0 data))).
  { cbn [lookup lookup_raw path_eqb]. rewrite Z.eqb_refl. reflexivity. }
  assert (Hc0 : clean lg0) by (apply clean_cons; [reflexivity|reflexivity|apply clean_nil]).
  assert (Hrel : forall pk, rel0 (0 + 1 + 1) [(0 + 1 + ft_arg ft, 0, pk)] = [pk] /\ rel1 (0 + 1 + 1) [(0 + 1 + ft_arg ft, 0, pk)] = [] /\
                            kept (0 + 1 + 1) [(0 + 1 + ft_arg ft, 0, pk)] = []) by (intro pk; apply rel_now0; lia).
  (* round 1: the Metadata PDU is held back, the idle receiver is called without a PDU *)
  eapply (fin_reach cd x data cf tick ft []).
  { eapply reach_step.
    - rewrite (step_round_ZD ft). cbn [rel0 rel1 kept app].
      rewrite (sph0_k ft Hk s1 s3 _ _ _ _ _ _ _ _ _ _ _ _ P ltac:(fo)). cbv beta iota.
      cbn [surv held app]. rewrite Hh. cbn [app].
      rewrite (dph0_k ft Hk (dst_init cd) (dst_init cd) (dst_init cd) [] _ _ _ _ _ _ _ _ _ _ _ _ (sm_idle_init cd) eq_refl (Forall_nil _)).
      rewrite Hb3, Ht3. reflexivity.
    - change (zlen [md]) with 1. repeat match goal with |- context[if ?b then 0 else 1] => destruct b end; unfold zlen; cbn [length]; lia.
    - apply qz_sbusy_k. exact Hb3. }
  change (ST_BUSY =? ST_BUSY) with true. cbn [ncur ndone surv held app d_state dst_init].
  change (ST_IDLE =? ST_BUSY) with false. cbv iota. change (zlen [md]) with 1. change (zlen (@nil pdu)) with 0.
  destruct (Hrel md) as (E0 & E1 & Ek).
  destruct (Z_lt_le_dec 0 (zlen data)) as [Hpos|Hz].
  - (* round 2: Metadata PDU and first File Data PDU *)
    destruct (step_fd_a cs p rs fss data cf seg clo tid sn [x] Hnames Hlook Hseg Hm 0 s3 HI Hpos) as (s4 & P4 & HI4).
    unfold fd_of in P4. cbn [fst snd] in P4. rewrite (hdr_eq_a cd cf Hm Hdst) in P4.
    set (tile := ztake seg (zdrop 0 data)) in *.
    assert (Htl : zlen tile = Z.min seg (zlen data - 0)) by (apply tile_len; lia).
    assert (How : onw (PFileData hRA' 0 tile)).
    { unfold onw. destruct tile; [change (zlen (@nil Z)) with 0 in Htl; lia | reflexivity]. }
    pose proof (sm_fd_a cd rd x (sc_crc cf) (sc_large cf) clo (sc_src cf) (sc_srcw cf) (sc_seq cf) (sc_seqw cf)
                  (r_cktype rs) (zlen data) Hrem 0 0 tile _ lg0 _ Hl0 ltac:(lia)) as Hsm2.
    rewrite Z.max_l in Hsm2 by lia.
    destruct (IA_bt _ _ HI4) as [Hb4 Ht4].
    assert (G2 : forall dn, dguard (PFileData hRA' 0 tile) (DAx 0 0 0 [([x], File [])] lg0) dn)
      by (intro; apply dbusy_guard; split; reflexivity).
    eapply (fin_reach cd x data cf tick ft []).
    { eapply reach_step.
      - rewrite (step_round_ZD ft), E0, E1, Ek. cbn [app].
        rewrite (sph0_k ft Hk s3 s4 _ _ _ _ _ _ _ _ _ _ _ _ P4 (Forall_cons _ How (Forall_nil _))). cbv beta iota.
        cbn [surv held app]. rewrite (N0 (0 + 1)) by lia. cbn [app].
        rewrite (dph_list_k ft), (ka_dst_ok ft Hk _ _ (dst_init cd) _ (DAx 0 0 0 [([x], File [])] lg0) [] _ _ _ _ _ _ _ _ _ _ _ _ _ G Hsm eq_refl ltac:(fo)).
        rewrite (ka_dst_ok ft Hk _ _ _ _ _ [] _ _ _ _ _ _ _ _ _ _ _ _ _ (G2 _) Hsm2 eq_refl ltac:(fo)).
        rewrite da_nil. reflexivity.
      - repeat match goal with |- context[if ?b then 0 else 1] => destruct b end; unfold zlen; cbn [length]; lia.
      - apply qz_sbusy_k. exact Hb4. }
    apply (fin_SPK 1 _ ltac:(lia)); [|right; lia|exact (NH_mono 0 1 (1 + 1) N0 ltac:(lia))|exact N1].
    + replace (Z.min (1 * seg) (zlen data)) with (0 + zlen tile) by lia.
      exists (0 + 1 + 1), 0. eexists. eexists. split; [reflexivity|]. split; [|split].
      * do 5 eexists. split; [cbn [surv held app]; change (zlen (@nil pdu)) with 0; rewrite ?Z.add_0_r; reflexivity|].
        split; [rewrite Htl; exact HI4|]. split; [apply bk_busy; [exact Hb4|exact Ht4]|apply bk_busy; reflexivity].
      * rewrite lookup_set_node by discriminate. rewrite path_eqb_refl. f_equal. f_equal. rewrite Htl. apply write_append; lia.
      * destruct (l_ind_seg cd); [apply clean_cons; [reflexivity|reflexivity|exact Hc0] | exact Hc0].
  - (* round 2, empty file: Metadata PDU and EOF PDU *)
    assert (Ez : zlen data = 0) by lia.
    assert (HIz : InvAx (zlen data) s3) by (rewrite Ez; exact HI).
    destruct (Ld_final cs cd p rs sn x data cks cf seg clo fss Hnames Hlook Hm Hck Hdst Hacks s3 HIz) as (s4 & nw & P4 & HT).
    destruct (T7_bt _ _ _ _ HT) as [Hb4 Ht4].
    pose proof (Ld_eof_ra cd rs rd x data cks cf clo Hrem 0 0 [([x], File [])] lg0) as Hsm2.
    assert (Ed : DAx 0 0 0 [([x], File [])] lg0 = RAx 0 0 [([x], File [])] lg0) by (unfold RA, DA; rewrite Ez; reflexivity).
    assert (G2 : forall dn, dguard eofG' (RAx 0 0 [([x], File [])] lg0) dn)
      by (intro; apply dbusy_guard; split; reflexivity).
    eapply (fin_reach cd x data cf tick ft []).
    { eapply reach_step.
      - rewrite (step_round_ZD ft), E0, E1, Ek. cbn [app].
        rewrite (sph0_k ft Hk s3 s4 _ _ _ _ _ _ _ _ _ _ _ _ P4 ltac:(fo)). cbv beta iota.
        cbn [surv held app]. rewrite (N0 (0 + 1)) by lia. cbn [app].
        rewrite (dph_list_k ft), (ka_dst_ok ft Hk _ _ (dst_init cd) _ (DAx 0 0 0 [([x], File [])] lg0) [] _ _ _ _ _ _ _ _ _ _ _ _ _ G Hsm eq_refl ltac:(fo)).
        rewrite Ed.
        rewrite (ka_dst_ok ft Hk _ _ _ _ (REx 0 0 [] cks 0 [([x], File [])] (eofr ++ lg0)) [ackE'] _ _ _ _ _ _ _ _ _ _ _ _ _
                   (G2 _) Hsm2 eq_refl ltac:(fo)).
        rewrite da_nil. cbn [surv held app]. rewrite (N1 (0 + 0 + zlen (@nil pdu))) by (change (zlen (@nil pdu)) with 0; lia).
        cbn [app]. reflexivity.
      - repeat match goal with |- context[if ?b then 0 else 1] => destruct b end; unfold zlen; cbn [length]; lia.
      - apply qz_sbusy_k. exact Hb4. }
    assert (Hld : lookup [([x], File [])] [x] = Some (File data)).
    { rewrite Hl0. f_equal. f_equal. rewrite <- (ztake_all data), Ez. reflexivity. }
    apply (t_S1 0 _ Hld (eofr ++ lg0) nw nw 0 0 (0 + 1 + 1) 1 (0 + 1 + 1) _ (clean_eofr_k lg0 Hc0) (NH_mono 0 1 (0 + 1 + 1) N0 ltac:(lia)) (NH_mono 1 0 1 N1 ltac:(lia))).
    do 5 eexists. split; [reflexivity|].
    split; [exact HT|]. split; [apply bk_busy; [exact Hb4|exact Ht4]|apply bk_busy; reflexivity].
Qed.
End SysK.

(* ================================================================== *)
(* 4. property C03, K = 1, delay of a control PDU                      *)
(* ================================================================== *)
Lemma single_delay_control_run :
  forall (cs cd : lcfg) (seq0 bits : Z) (p : putreq) (rs rd : rcfg) (sn dn : path) (data : bytes) (tick d : Z) (ft : fault),
  let w := Z.max (l_idw cs) (pr_dstw p) in
  let large := 4294967295 <? zlen data in
  let derived := r_max_packet rs - (4 + 2 * w + bits / 8) - (if large then 8 else 4) - (if r_crc rs then 2 else 0) in
  let seg := match r_max_seg rs with Some m => Z.min m derived | None => derived end in
  let cf := mkSconf (l_id cs) w (pr_dst p) w seq0 (bits / 8) ACKED large (r_crc rs) in
  get_remote (l_remotes cs) (pr_dst p) = Some rs ->
  pr_names p = Some (sn, dn) -> sn <> [] -> dn <> [] -> pr_msgs p = None ->
  (match pr_mode p with Some m => m | None => r_mode rs end) = ACKED ->
  let n := (zlen data + seg - 1) / seg in
  (ft = mkFault 0 (n + 1) 2 d \/ ft = mkFault 0 (n + 2) 2 d \/ ft = mkFault 1 0 2 d \/ ft = mkFault 1 1 2 d) ->
  (ft = mkFault 0 (n + 1) 2 d -> 2 <= r_ack_limit rs \/ (d - 1) * tick < r_ack_ms rs) ->
  (ft = mkFault 0 (n + 2) 2 d -> 2 <= r_ack_limit rd \/ (d - 3) * tick < r_ack_ms rd) ->
  (ft = mkFault 1 1 2 d -> 2 <= r_ack_limit rd \/ (d - 2) * tick < r_ack_ms rd) ->
  0 < r_ack_ms rs -> 0 < r_ack_ms rd ->
  (bits = 8 \/ bits = 16 \/ bits = 32) -> 0 <= seq0 < 2 ^ bits -> 1 <= seg -> 6 <= derived ->
  (r_cktype rs = CK_CRC32 \/ r_cktype rs = CK_CRC32C \/ r_cktype rs = CK_NULL \/ r_cktype rs = CK_MODULAR) ->
  bytes_ok data = true ->
  l_id cd = pr_dst p -> get_remote (l_remotes cd) (l_id cs) = Some rd -> length dn = 1%nat ->
  get_fault_handler (l_faults cd) C_CHECKSUM_FAILURE <> None ->
  l_ind_fin cs = true -> l_ind_fin cd = true ->
  exists fuel y' x,
    dn = [x] /\ transfer cs cd seq0 bits p sn data [ft] fuel tick = (y', true) /\ FinalG cd x data cf ft [] y'.
Proof.
  intros cs cd seq0 bits p rs rd sn dn data tick d ft w large derived seg cf
         Hrs Hn Hsn Hdn Hmsgs Hmode n Hft HtA HtB HtD Hacks Hackd Hbits Hseq Hseg Hd6 Hck Hbytes Hid Hrd Hlen
         Hfh Hfs Hfd.
  destruct dn as [|x [|x' dn']]; try discriminate Hlen.
  set (fss := [(sn, File data)]).
  assert (Hlook : lookup fss sn = Some (File data)).
  { destruct sn as [|a sn']; [contradiction|]. unfold fss. cbn [lookup lookup_raw].
    rewrite path_eqb_refl. reflexivity. }
  destruct (ck_agree (r_cktype rs) data seg Hck Hseg) as (cks & C1 & C2).
  set (clo := match pr_closure p with Some b => b | None => r_closure rs end).
  destruct (first_call_a cs seq0 bits fss p rs sn [x] data Hrs Hn Hlook Hmode Hbits Hseq Hseg Hd6)
    as (s1 & s3 & P1 & P2 & HI).
  rewrite Hmsgs in P2.
  assert (Hdst : sc_dst cf = l_id cd) by (symmetry; exact Hid).
  assert (Hdstr : sc_dst cf = r_id rs) by (symmetry; exact (get_remote_id _ _ _ Hrs)).
  assert (Hk : ft_kind ft = 2) by (destruct Hft as [E|[E|[E|E]]]; rewrite E; reflexivity).
  assert (HT : delay_timers rs rd data seg tick ft).
  { unfold delay_timers, nfd. fold n.
    destruct Hft as [E|[E|[E|E]]]; (repeat split; intros H1 H2);
      first [ rewrite E in H1; discriminate H1
            | rewrite E in H2; cbn [ft_index] in H2; exfalso; lia
            | rewrite E in H2; discriminate H2
            | idtac ].
    - replace (ft_arg ft) with d by (rewrite E; reflexivity). exact (HtA E).
    - replace (ft_arg ft) with d by (rewrite E; reflexivity). exact (HtB E).
    - replace (ft_arg ft) with d by (rewrite E; reflexivity). exact (HtD E). }
  destruct (main_k cs cd p rs rd sn x data cks cf seg tick clo fss ft Hn Hlook Hseg eq_refl C1 C2 Hfs Hfd Hrd Hdst
              Hacks Hackd eq_refl Hdstr Hk s1 s3 d P2 HI Hft HT) as (fuel & y' & Rr & F).
  exists fuel, y', x. split; [reflexivity|]. split; [|exact F].
  unfold transfer, sys_init. cbn [y_src]. fold fss. rewrite P1. exact Rr.
Qed.

(* the statement of props/C03y.v *)
Lemma single_delay_control :
  forall (cs cd : lcfg) (seq0 bits : Z) (p : putreq) (rs rd : rcfg) (sn dn : path) (data : bytes) (tick d : Z) (ft : fault),
  let w := Z.max (l_idw cs) (pr_dstw p) in
  let large := 4294967295 <? zlen data in
  let derived := r_max_packet rs - (4 + 2 * w + bits / 8) - (if large then 8 else 4) - (if r_crc rs then 2 else 0) in
  let seg := match r_max_seg rs with Some m => Z.min m derived | None => derived end in
  get_remote (l_remotes cs) (pr_dst p) = Some rs ->
  pr_names p = Some (sn, dn) -> sn <> [] -> dn <> [] -> pr_msgs p = None ->
  (match pr_mode p with Some m => m | None => r_mode rs end) = ACKED ->
  let n := (zlen data + seg - 1) / seg in
  (ft = mkFault 0 (n + 1) 2 d \/ ft = mkFault 0 (n + 2) 2 d \/ ft = mkFault 1 0 2 d \/ ft = mkFault 1 1 2 d) ->
  (ft = mkFault 0 (n + 1) 2 d -> 2 <= r_ack_limit rs \/ (d - 1) * tick < r_ack_ms rs) ->
  (ft = mkFault 0 (n + 2) 2 d -> 2 <= r_ack_limit rd \/ (d - 3) * tick < r_ack_ms rd) ->
  (ft = mkFault 1 1 2 d -> 2 <= r_ack_limit rd \/ (d - 2) * tick < r_ack_ms rd) ->
  0 < r_ack_ms rs -> 0 < r_ack_ms rd ->
  (bits = 8 \/ bits = 16 \/ bits = 32) -> 0 <= seq0 < 2 ^ bits -> 1 <= seg -> 6 <= derived ->
  (r_cktype rs = CK_CRC32 \/ r_cktype rs = CK_CRC32C \/ r_cktype rs = CK_NULL \/ r_cktype rs = CK_MODULAR) ->
  bytes_ok data = true ->
  l_id cd = pr_dst p -> get_remote (l_remotes cd) (l_id cs) = Some rd -> length dn = 1%nat ->
  get_fault_handler (l_faults cd) C_CHECKSUM_FAILURE <> None ->
  l_ind_fin cs = true -> l_ind_fin cd = true ->
  exists fuel,
    let res := transfer cs cd seq0 bits p sn data [ft] fuel tick in
    delivered_ok dn data res = true /\ y_errs (fst res) = [] /\ fault_free_ok dn data res = true.
Proof.
  intros cs cd seq0 bits p rs rd sn dn data tick d ft w large derived seg
         Hrs Hn Hsn Hdn Hmsgs Hmode n Hft HtA HtB HtD Hacks Hackd Hbits Hseq Hseg Hd6 Hck Hbytes Hid Hrd Hlen
         Hfh Hfs Hfd.
  destruct (single_delay_control_run cs cd seq0 bits p rs rd sn dn data tick d ft Hrs Hn Hsn Hdn Hmsgs Hmode Hft HtA HtB HtD
              Hacks Hackd Hbits Hseq Hseg Hd6 Hck Hbytes Hid Hrd Hlen Hfh Hfs Hfd) as (fuel & y' & x & -> & Et & F).
  exists fuel. cbv zeta. rewrite Et.
  destruct (final_verdict_g cd x data _ ft _ y' F) as [V1 V2].
  split; [exact V1|]. split; [exact V2|]. exact (final_fault_free_g cd x data _ ft y' F).
Qed.

(* ---- a File Data PDU *)
Lemma single_delay_file_data :
  forall (cs cd : lcfg) (seq0 bits : Z) (p : putreq) (rs rd : rcfg) (sn dn : path) (data : bytes) (tick k d : Z) (ft : fault),
  let w := Z.max (l_idw cs) (pr_dstw p) in
  let large := 4294967295 <? zlen data in
  let derived := r_max_packet rs - (4 + 2 * w + bits / 8) - (if large then 8 else 4) - (if r_crc rs then 2 else 0) in
  let seg := match r_max_seg rs with Some m => Z.min m derived | None => derived end in
  get_remote (l_remotes cs) (pr_dst p) = Some rs ->
  pr_names p = Some (sn, dn) -> sn <> [] -> dn <> [] -> pr_msgs p = None ->
  (match pr_mode p with Some m => m | None => r_mode rs end) = ACKED ->
  let n := (zlen data + seg - 1) / seg in
  ft = mkFault 0 k 2 d -> 1 <= k <= n -> k + d <= n + 1 -> r_imm_nak rd = false \/ d <= 1 ->
  0 < r_ack_ms rs -> 0 < r_ack_ms rd ->
  (bits = 8 \/ bits = 16 \/ bits = 32) -> 0 <= seq0 < 2 ^ bits -> 1 <= seg -> 6 <= derived ->
  (r_cktype rs = CK_CRC32 \/ r_cktype rs = CK_CRC32C \/ r_cktype rs = CK_NULL \/ r_cktype rs = CK_MODULAR) ->
  bytes_ok data = true ->
  l_id cd = pr_dst p -> get_remote (l_remotes cd) (l_id cs) = Some rd -> length dn = 1%nat ->
  get_fault_handler (l_faults cd) C_CHECKSUM_FAILURE <> None ->
  l_ind_fin cs = true -> l_ind_fin cd = true ->
  exists fuel,
    let res := transfer cs cd seq0 bits p sn data [ft] fuel tick in
    delivered_ok dn data res = true /\ y_errs (fst res) = [] /\ fault_free_ok dn data res = true.
Proof.
  intros cs cd seq0 bits p rs rd sn dn data tick k d ft w large derived seg
         Hrs Hn Hsn Hdn Hmsgs Hmode n Hft Hk1 Hkd Hnm Hacks Hackd Hbits Hseq Hseg Hd6 Hck Hbytes Hid Hrd Hlen
         Hfh Hfs Hfd.
  destruct dn as [|x [|x' dn']]; try discriminate Hlen.
  set (fss := [(sn, File data)]).
  assert (Hlook : lookup fss sn = Some (File data)).
  { destruct sn as [|a sn']; [contradiction|]. unfold fss. cbn [lookup lookup_raw].
    rewrite path_eqb_refl. reflexivity. }
  destruct (ck_agree (r_cktype rs) data seg Hck Hseg) as (cks & C1 & C2).
  set (cf := mkSconf (l_id cs) w (pr_dst p) w seq0 (bits / 8) ACKED large (r_crc rs)).
  set (clo := match pr_closure p with Some b => b | None => r_closure rs end).
  destruct (first_call_a cs seq0 bits fss p rs sn [x] data Hrs Hn Hlook Hmode Hbits Hseq Hseg Hd6)
    as (s1 & s3 & P1 & P2 & HI).
  rewrite Hmsgs in P2.
  assert (Hdst : sc_dst cf = l_id cd) by (symmetry; exact Hid).
  assert (Hdstr : sc_dst cf = r_id rs) by (symmetry; exact (get_remote_id _ _ _ Hrs)).
  assert (Hk : ft_kind ft = 2) by (rewrite Hft; reflexivity).
  destruct (main_fd cs cd p rs rd sn x data cks cf seg tick clo fss ft Hn Hlook Hseg eq_refl C1 C2 Hfs Hfd Hrd Hdst
              Hacks Hackd eq_refl Hdstr Hk s1 s3 k d P2 HI Hft Hk1 Hkd Hnm) as (fuel & y' & Rr & F).
  exists fuel.
  assert (Et : transfer cs cd seq0 bits p sn data [ft] fuel tick = (y', true)).
  { unfold transfer, sys_init. cbn [y_src]. fold fss. rewrite P1. exact Rr. }
  cbv zeta. rewrite Et.
  destruct (final_verdict_g cd x data _ ft _ y' F) as [V1 V2].
  split; [exact V1|]. split; [exact V2|]. exact (final_fault_free_g cd x data _ ft y' F).
Qed.

(* ---- the Metadata PDU, held back for one round *)
Lemma single_delay_metadata :
  forall (cs cd : lcfg) (seq0 bits : Z) (p : putreq) (rs rd : rcfg) (sn dn : path) (data : bytes) (tick d : Z) (ft : fault),
  let w := Z.max (l_idw cs) (pr_dstw p) in
  let large := 4294967295 <? zlen data in
  let derived := r_max_packet rs - (4 + 2 * w + bits / 8) - (if large then 8 else 4) - (if r_crc rs then 2 else 0) in
  let seg := match r_max_seg rs with Some m => Z.min m derived | None => derived end in
  get_remote (l_remotes cs) (pr_dst p) = Some rs ->
  pr_names p = Some (sn, dn) -> sn <> [] -> dn <> [] -> pr_msgs p = None ->
  (match pr_mode p with Some m => m | None => r_mode rs end) = ACKED ->
  ft = mkFault 0 0 2 d -> d <= 1 ->
  0 < r_ack_ms rs -> 0 < r_ack_ms rd ->
  (bits = 8 \/ bits = 16 \/ bits = 32) -> 0 <= seq0 < 2 ^ bits -> 1 <= seg -> 6 <= derived ->
  (r_cktype rs = CK_CRC32 \/ r_cktype rs = CK_CRC32C \/ r_cktype rs = CK_NULL \/ r_cktype rs = CK_MODULAR) ->
  bytes_ok data = true ->
  l_id cd = pr_dst p -> get_remote (l_remotes cd) (l_id cs) = Some rd -> length dn = 1%nat ->
  get_fault_handler (l_faults cd) C_CHECKSUM_FAILURE <> None ->
  l_ind_fin cs = true -> l_ind_fin cd = true ->
  exists fuel,
    let res := transfer cs cd seq0 bits p sn data [ft] fuel tick in
    delivered_ok dn data res = true /\ y_errs (fst res) = [] /\ fault_free_ok dn data res = true.
Proof.
  intros cs cd seq0 bits p rs rd sn dn data tick d ft w large derived seg
         Hrs Hn Hsn Hdn Hmsgs Hmode Hft Hd1 Hacks Hackd Hbits Hseq Hseg Hd6 Hck Hbytes Hid Hrd Hlen
         Hfh Hfs Hfd.
  destruct dn as [|x [|x' dn']]; try discriminate Hlen.
  set (fss := [(sn, File data)]).
  assert (Hlook : lookup fss sn = Some (File data)).
  { destruct sn as [|a sn']; [contradiction|]. unfold fss. cbn [lookup lookup_raw].
    rewrite path_eqb_refl. reflexivity. }
  destruct (ck_agree (r_cktype rs) data seg Hck Hseg) as (cks & C1 & C2).
  set (cf := mkSconf (l_id cs) w (pr_dst p) w seq0 (bits / 8) ACKED large (r_crc rs)).
  set (clo := match pr_closure p with Some b => b | None => r_closure rs end).
  destruct (first_call_a cs seq0 bits fss p rs sn [x] data Hrs Hn Hlook Hmode Hbits Hseq Hseg Hd6)
    as (s1 & s3 & P1 & P2 & HI).
  rewrite Hmsgs in P2.
  assert (Hdst : sc_dst cf = l_id cd) by (symmetry; exact Hid).
  assert (Hdstr : sc_dst cf = r_id rs) by (symmetry; exact (get_remote_id _ _ _ Hrs)).
  assert (Hk : ft_kind ft = 2) by (rewrite Hft; reflexivity).
  destruct (md_main cs cd p rs rd sn x data cks cf seg tick clo fss ft Hn Hlook Hseg eq_refl C1 C2 Hfs Hfd Hrd Hdst
              Hacks Hackd eq_refl Hdstr Hk s1 s3 P2 HI ltac:(rewrite Hft; reflexivity) ltac:(rewrite Hft; exact Hd1)
              ltac:(intros c Hc; rewrite Hft, hit_k00; apply Z.eqb_neq; lia) ltac:(intros c Hc; rewrite Hft; apply hit_k01))
    as (fuel & y' & Rr & F).
  exists fuel.
  assert (Et : transfer cs cd seq0 bits p sn data [ft] fuel tick = (y', true)).
  { unfold transfer, sys_init. cbn [y_src]. fold fss. rewrite P1. exact Rr. }
  cbv zeta. rewrite Et.
  destruct (final_verdict_g cd x data _ ft _ y' F) as [V1 V2].
  split; [exact V1|]. split; [exact V2|]. exact (final_fault_free_g cd x data _ ft y' F).
Qed.

(* ================================================================== *)
(* 5. instances                                                        *)
(* ================================================================== *)
(* files of 5 and 9 bytes in segments of 4 (n = 2, 3), limits 2, intervals and clock advance 1000 ms: each of the four
   control PDUs held back for 1, 2, 3, 4, 5 and 30 rounds: the verdict of the fault-free runs, every time *)
Example delay_control_examples :
  let run sz dir i d := run_case ACKED false CK_CRC32 4 false 2 sz [mkFault dir i 2 d] in
  forallb (fun d =>
    forallb (fun di => fault_free_ok [2] (test_data 5) (run 5 (fst di) (snd di) d)) [(0, 3); (0, 4); (1, 0); (1, 1)] &&
    forallb (fun di => fault_free_ok [2] (test_data 9) (run 9 (fst di) (snd di) d)) [(0, 4); (0, 5); (1, 0); (1, 1)])
    [1; 2; 3; 4; 5; 30] = true /\
  (* the rounds the runs take (5 bytes; a fault-free run takes 7): EOF, ACK (Finished), ACK (EOF), Finished *)
  map (fun d => map (fun di => y_round (fst (run 5 (fst di) (snd di) d))) [(0, 3); (0, 4); (1, 0); (1, 1)]) [1; 2; 3; 5] =
    [[8; 7; 7; 7]; [7; 8; 6; 8]; [8; 9; 7; 8]; [10; 11; 9; 10]].
Proof. vm_compute. split; reflexivity. Qed.

(* the assumption on the timers is needed: Positive-ACK limits 1, intervals = clock advance per idle round = 1000 ms; the
   EOF PDU held back for 3 rounds, the Finished PDU for 3 rounds, the ACK (Finished) for 4 rounds: the timer in question
   expires, the limit is reached, the transaction is abandoned with a fault (the file is not delivered); held back one
   round less, the timer does not expire and the file is delivered *)
Example delay_control_limit_examples :
  let run dir i d := run_case ACKED false CK_CRC32 4 false 1 5 [mkFault dir i 2 d] in
  map (fun c => delivered_ok [2] (test_data 5) (run (fst (fst c)) (snd (fst c)) (snd c)))
      [(0, 3, 3); (1, 1, 3); (0, 4, 4); (1, 1, 2); (0, 4, 3)] = [false; false; false; true; true].
Proof. vm_compute. reflexivity. Qed.

(* the hypotheses of the theorem are satisfiable: limits 1, the EOF PDU held back for one round *)
Example single_delay_control_instance :
  let rs := rc 2 (Some 3) false ACKED CK_CRC32 1 false in
  let rd := rc 1 (Some 3) false ACKED CK_CRC32 1 false in
  exists fuel,
    let res := transfer (lc 1 rs) (lc 2 rd) 0 16 (mkPut 2 2 None None (Some ([1], [2])) None) [1] (test_data 7)
                 [mkFault 0 4 2 1] fuel 1000 in
    delivered_ok [2] (test_data 7) res = true /\ y_errs (fst res) = [] /\ fault_free_ok [2] (test_data 7) res = true.
Proof.
  intros rs rd.
  apply (single_delay_control (lc 1 rs) (lc 2 rd) 0 16 (mkPut 2 2 None None (Some ([1], [2])) None) rs rd [1] [2] (test_data 7) 1000 1
           (mkFault 0 4 2 1));
    try reflexivity; try discriminate; try (vm_compute; discriminate); try (vm_compute; reflexivity).
  - left; reflexivity.
  - intros _. right. vm_compute. reflexivity.
  - right; left; reflexivity.
  - split; [discriminate | reflexivity].
  - left; reflexivity.
Qed.

(* the Metadata PDU and every File Data PDU of files of 5 and 9 bytes (segments of 4: n = 2, 3) held back for 1, 2, 3, 5 and 30
   rounds, deferred and immediate NAK mode: the verdict of the fault-free runs, every time - also in the cases the
   theorems below do not cover (immediate NAK mode with reordering: the segment arrives twice; release after the EOF PDU:
   the deferred lost-segment procedure has requested the segment, retransmission and late original both arrive; Metadata
   PDU overtaken by File Data; release after both handlers are idle again: the receiving entity drops the PDU) *)
Example delay_data_examples :
  let run imm sz i d := run_case ACKED false CK_CRC32 4 imm 2 sz [mkFault 0 i 2 d] in
  forallb (fun imm => forallb (fun d =>
    forallb (fun i => fault_free_ok [2] (test_data 5) (run imm 5 i d)) [0; 1; 2] &&
    forallb (fun i => fault_free_ok [2] (test_data 9) (run imm 9 i d)) [0; 1; 2; 3]) [1; 2; 3; 5; 30]) [false; true] = true.
Proof. vm_compute. reflexivity. Qed.

(* what the surrounding entity is needed for: the Metadata PDU of a 9-byte file held back for 40 rounds.  The file is
   delivered by means of the deferred lost-segment procedure and both handlers are idle again when the PDU is released;
   the receiving entity has the transaction on record as done and drops the PDU (System.deliver_to_dest).  Handed to the
   idle receiver handler itself, the late Metadata PDU would be accepted as the first PDU of a new transaction with the
   same transaction id: the handler is busy again and the delivered file is truncated to length 0 (as dest.py does: a
   DestHandler does not remember the transactions it has finished) *)
Example late_metadata_bare_handler :
  let fin := fst (run_case ACKED false CK_CRC32 4 false 2 9 [mkFault 0 0 2 40]) in
  let late := PMetadata (mkHdr TOWARDS_RECEIVER ACKED false false 1 2 2 0 2) false CK_CRC32 9 (Some ([1], [2])) [] in
  d_state (y_dst fin) = ST_IDLE /\ tid_mem (1, 0) (y_dst_done fin) = true /\
  file_content (e_fs (d_env (y_dst fin))) [2] = Some (test_data 9) /\
  (let '(d1, r) := Dest.state_machine (Some late) (y_dst fin) in
   r = Ok tt /\ d_state d1 = ST_BUSY /\ file_content (e_fs (d_env d1)) [2] = Some []).
Proof. vm_compute. repeat split; reflexivity. Qed.

(* the hypotheses of the File Data theorem are satisfiable: 7 bytes in segments of 3, the first File Data PDU held back for 3
   rounds (overtaken by the other two, released in the round of the EOF PDU), deferred NAK mode *)
Example single_delay_file_data_instance :
  let rs := rc 2 (Some 3) false ACKED CK_CRC32 1 false in
  let rd := rc 1 (Some 3) false ACKED CK_CRC32 1 false in
  exists fuel,
    let res := transfer (lc 1 rs) (lc 2 rd) 0 16 (mkPut 2 2 None None (Some ([1], [2])) None) [1] (test_data 7)
                 [mkFault 0 1 2 3] fuel 1000 in
    delivered_ok [2] (test_data 7) res = true /\ y_errs (fst res) = [] /\ fault_free_ok [2] (test_data 7) res = true.
Proof.
  intros rs rd.
  apply (single_delay_file_data (lc 1 rs) (lc 2 rd) 0 16 (mkPut 2 2 None None (Some ([1], [2])) None) rs rd [1] [2] (test_data 7)
           1000 1 3 (mkFault 0 1 2 3));
    try reflexivity; try discriminate; try (vm_compute; discriminate); try (vm_compute; reflexivity).
  - vm_compute. split; discriminate.
  - left; reflexivity.
  - right; left; reflexivity.
  - split; [discriminate | reflexivity].
  - left; reflexivity.
Qed.
