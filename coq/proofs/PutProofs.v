(* PutProofs.v — proofs for property C19 (props/C19.v): Put requests are admitted,
   parameterised and identified correctly. *)
From CFDP Require Import Base Fs Crc Checksum Handler Dest Source HandlerSpec.
From RecordUpdate Require Import RecordSet.
Import RecordSetNotations.

Arguments Z.add : simpl never. Arguments Z.sub : simpl never. Arguments Z.mul : simpl never.
Arguments Z.pow : simpl never. Arguments Z.div : simpl never. Arguments Z.ltb : simpl never.
Arguments Z.leb : simpl never. Arguments Z.eqb : simpl never.

(* ------------------------------------------------------------------ put_request *)
Lemma put_busy_refused : forall p s, s_state s <> ST_IDLE -> put_request p s = (s, Ok false).
Proof.
  intros p s H. unfold put_request, bind, get, ret.
  apply Z.eqb_neq in H. rewrite H. reflexivity.
Qed.

Lemma put_missing_source : forall p s sn dn,
  s_state s = ST_IDLE -> pr_names p = Some (sn, dn) -> fs_file_exists (fs_s s) sn = false ->
  put_request p s = (s <| s_put := Some p |>, Err E_SOURCE_FILE_MISSING).
Proof.
  intros p s sn dn Hst Hn Hf. unfold fs_s in Hf.
  unfold put_request, bind, get, put, ret, raise.
  rewrite Hst, Hn, Hf. reflexivity.
Qed.

Lemma put_unknown_dest : forall p s,
  s_state s = ST_IDLE ->
  (match pr_names p with Some (sn, _) => fs_file_exists (fs_s s) sn = true | None => True end) ->
  get_remote (l_remotes (s_cfg s)) (pr_dst p) = None ->
  exists s', put_request p s = (s', Err E_NO_REMOTE_CFG) /\ s_state s' = ST_IDLE /\ s_step s' = s_step s /\
             s_queue s' = s_queue s /\ s_seq_count s' = s_seq_count s /\ fs_s s' = fs_s s.
Proof.
  intros p s Hst Hn Hr. unfold fs_s in *.
  unfold put_request, bind, get, put, ret, raise, setq, modify.
  rewrite Hst, Hr. change (negb (ST_IDLE =? ST_IDLE)) with false. cbv iota.
  destruct (pr_names p) as [[sn dn]|]; [rewrite Hn|];
    (eexists; split; [reflexivity|]; destruct s; cbn in *; repeat split; auto).
Qed.

Lemma put_accepted : forall p s r,
  s_state s = ST_IDLE ->
  (match pr_names p with Some (sn, _) => fs_file_exists (fs_s s) sn = true | None => True end) ->
  get_remote (l_remotes (s_cfg s)) (pr_dst p) = Some r ->
  exists s', put_request p s = (s', Ok true) /\
    s_state s' = ST_BUSY /\ s_put s' = Some p /\ q_rcfg (s_p s') = Some r /\
    sc_mode (q_conf (s_p s')) = (match pr_mode p with Some m => m | None => r_mode r end) /\
    q_closure (s_p s') = (match pr_closure p with Some c => c | None => r_closure r end) /\
    s_ready s' = s_ready s /\ s_step s' = s_step s /\ s_queue s' = s_queue s /\ s_seq_count s' = s_seq_count s.
Proof.
  intros p s r Hst Hn Hr. unfold fs_s in *.
  unfold put_request, bind, get, put, ret, raise, setq, modify.
  rewrite Hst, Hr. change (negb (ST_IDLE =? ST_IDLE)) with false. cbv iota.
  destruct (pr_names p) as [[sn dn]|]; [rewrite Hn|];
    (eexists; split; [reflexivity|]; destruct s as [? ? ? ? ? q ? ? ? ? ?]; destruct q; cbn in *;
     repeat split; auto).
Qed.

(* a refused request leaves either only the remembered request changed, or additionally the
   remote configuration cleared *)
Lemma put_failed_state : forall p s s' e,
  s_state s = ST_IDLE -> put_request p s = (s', Err e) ->
  s' = s <| s_put := Some p |> \/
  s' = s <| s_put := Some p |> <| s_p ::= (fun q => q <| q_rcfg := None |>) |>.
Proof.
  intros p s s' e Hst. unfold put_request, bind, get, put, ret, raise, setq, modify.
  rewrite Hst. change (negb (ST_IDLE =? ST_IDLE)) with false. cbv iota.
  destruct (pr_names p) as [[sn dn]|].
  - destruct (fs_file_exists (e_fs (s_env s)) sn).
    + destruct (get_remote (l_remotes (s_cfg s)) (pr_dst p)); intros H; inversion H. right. reflexivity.
    + intros H; inversion H. left. reflexivity.
  - destruct (get_remote (l_remotes (s_cfg s)) (pr_dst p)); intros H; inversion H. right. reflexivity.
Qed.

(* C19 failed_put_reusable holds for every idle state whose remote configuration is unset
   (every reachable idle state: init_sparams / reset_sparams) *)
Lemma failed_put_reusable_partial : forall p p2 s s' e,
  s_state s = ST_IDLE -> q_rcfg (s_p s) = None ->
  put_request p s = (s', Err e) -> put_request p2 s' = put_request p2 s.
Proof.
  intros p p2 s s' e Hst Hq H.
  destruct (put_failed_state _ _ _ _ Hst H) as [E|E]; subst s';
    destruct s as [? ? ? ? ? q ? ? ? ? ?]; destruct q; cbn in Hst, Hq; subst; reflexivity.
Qed.

(* without that hypothesis the results agree and the states agree up to q_rcfg, which differs
   exactly when the second request fails before the remote lookup *)
Lemma failed_put_reusable_result : forall p p2 s s' e,
  s_state s = ST_IDLE -> put_request p s = (s', Err e) ->
  snd (put_request p2 s') = snd (put_request p2 s) /\
  (snd (put_request p2 s) <> Err E_SOURCE_FILE_MISSING -> put_request p2 s' = put_request p2 s).
Proof.
  intros p p2 s s' e Hst H.
  destruct (put_failed_state _ _ _ _ Hst H) as [E|E]; subst s';
    destruct s as [cfg st step rdy qu q sb pt sc sbits env]; destruct q; cbn in Hst; subst;
    unfold put_request, bind, get, put, ret, raise, setq, modify; cbn;
    change (negb (ST_IDLE =? ST_IDLE)) with false; cbn;
    (destruct (pr_names p2) as [[sn dn]|]; [destruct (fs_file_exists (e_fs env) sn)|];
     destruct (get_remote (l_remotes cfg) (pr_dst p2)); cbn; split; try reflexivity; try congruence).
Qed.

(* the statement as given in props/C19.v is false: a concrete counterexample *)
Lemma failed_put_reusable_counterexample :
  ~ (forall p p2 s s' e,
       s_state s = ST_IDLE -> put_request p s = (s', Err e) -> put_request p2 s' = put_request p2 s).
Proof.
  intros H.
  pose (c := mkLcfg 1 1 false false false false [] 0 []).
  pose (r0 := mkRcfg 2 1 None 100 false false 0 0 1 1 1 false false 1 1).
  pose (s := (src_init c 0 16) <| s_p ::= (fun q => q <| q_rcfg := Some r0 |>) |>).
  pose (p := mkPut 2 1 None None None None).
  pose (p2 := mkPut 2 1 None None (Some ([1], [2])) None).
  specialize (H p p2 s (fst (put_request p s)) E_NO_REMOTE_CFG eq_refl eq_refl).
  apply (f_equal (fun x => q_rcfg (s_p (fst x)))) in H. cbv in H. discriminate H.
Qed.

(* ------------------------------------------------------------------ transaction_start *)
Definition derived_seg_len (r : rcfg) (w seqw : Z) (large : bool) : Z :=
  r_max_packet r - (4 + 2 * w + seqw) - (if large then 8 else 4) - (if r_crc r then 2 else 0).

Lemma seq_bits_ok : forall b, (b = 8 \/ b = 16 \/ b = 32) ->
  negb ((b =? 8) || (b =? 16) || (b =? 32)) = false.
Proof. intros b [H|[H|H]]; subst; reflexivity. Qed.

Lemma transaction_start_partial : forall s p r sn dn d,
  s_put s = Some p -> pr_names p = Some (sn, dn) -> q_rcfg (s_p s) = Some r ->
  lookup (fs_s s) sn = Some (File d) -> sn <> [] ->
  q_file_size (s_p s) = Some 0 ->
  q_md_only (s_p s) = false -> q_empty_file (s_p s) = false ->
  (s_seq_bits s = 8 \/ s_seq_bits s = 16 \/ s_seq_bits s = 32) -> 0 <= s_seq_count s < 2 ^ s_seq_bits s ->
  let w := Z.max (l_idw (s_cfg s)) (pr_dstw p) in
  let large := 4294967295 <? zlen d in
  let derived := derived_seg_len r w (s_seq_bits s / 8) large in
  6 <= derived ->
  exists s', transaction_start s = (s', Ok tt) /\
    q_segment_len (s_p s') = (match r_max_seg r with Some m => Z.min m derived | None => derived end) /\
    q_tid (s_p s') = Some (l_id (s_cfg s), s_seq_count s) /\
    sc_seq (q_conf (s_p s')) = s_seq_count s /\ sc_seqw (q_conf (s_p s')) = s_seq_bits s / 8 /\
    s_seq_count s' = s_seq_count s + 1 /\
    sc_srcw (q_conf (s_p s')) = w /\ sc_dstw (q_conf (s_p s')) = w /\
    sc_src (q_conf (s_p s')) = l_id (s_cfg s) /\ sc_dst (q_conf (s_p s')) = pr_dst p /\
    sc_crc (q_conf (s_p s')) = r_crc r /\ sc_large (q_conf (s_p s')) = large /\
    sc_mode (q_conf (s_p s')) = sc_mode (q_conf (s_p s)) /\ q_closure (s_p s') = q_closure (s_p s) /\
    q_file_size (s_p s') = Some (zlen d) /\ q_empty_file (s_p s') = (zlen d =? 0) /\
    log_s s' = EvTransaction (l_id (s_cfg s)) (s_seq_count s)
                 (match pr_msgs p with None => None | Some l => originating_id l None false end) :: log_s s.
Proof.
  intros s p r sn dn d Hp Hn Hr Hl Hne Hfs Hmd Hef Hb Hc w large derived Hd.
  unfold fs_s, log_s in *.
  assert (Hex : fs_file_exists (e_fs (s_env s)) sn = true)
    by (unfold fs_file_exists, exists_; rewrite Hl; reflexivity).
  assert (Hsz : fs_file_size (e_fs (s_env s)) sn = Ok (zlen d))
    by (unfold fs_file_size; rewrite Hl; reflexivity).
  clear Hl.
  destruct s as [cfg st step rdy qu q sb pt sc sbits env].
  destruct q as [tid ckt akt akc ce pr sl fsz ef mdo fn rc cl conf]. destruct conf.
  cbn in Hp, Hr, Hfs, Hmd, Hef, Hex, Hsz, Hb, Hc, w, derived. subst.
  unfold transaction_start, put_or_assert, srcfg_or_assert, gq, setq, semit, bind, get, put, gets, modify, ret, raise, when.
  cbn. rewrite Hn. cbn. rewrite Hex, Hsz. cbn.
  pose proof (seq_bits_ok _ Hb) as Hb'.
  assert (Hc' : (2 ^ sbits <=? sc) = false) by (apply Z.leb_gt; lia).
  subst w derived large. unfold derived_seg_len in *.
  destruct (zlen d =? 0) eqn:Ez; [apply Z.eqb_eq in Ez; rewrite Ez in *|];
    cbn; rewrite Hb', Hc'; cbn;
    unfold max_file_seg_len, hdr_len, fss_len, crc_len; cbn;
    match goal with |- context [4294967295 <? ?z] => set (lg := 4294967295 <? z) in * end;
    match goal with |- context [if ?a <? ?b then None else _] =>
      destruct (a <? b) eqn:El;
      [ apply Z.ltb_lt in El; destruct lg; destruct (r_crc r); lia | apply Z.ltb_ge in El ] end;
    cbn;
    match goal with |- context [if ?a <? ?b then (fun s0 : src => (s0, Err E_VALUE)) else _] =>
      destruct (a <? b) eqn:El2;
      [ apply Z.ltb_lt in El2; destruct lg; destruct (r_crc r); lia | apply Z.ltb_ge in El2 ] end;
    cbn; (eexists; split; [reflexivity|]); cbn;
    repeat (split; [reflexivity|]); (split; [|repeat split; try reflexivity]).
  all: clearbody lg; destruct lg; destruct (r_crc r); destruct (r_max_seg r) as [m|]; try lia.
  all: match goal with |- (if ?a <? ?b then _ else _) = _ =>
         destruct (a <? b) eqn:Em; [apply Z.ltb_lt in Em|apply Z.ltb_ge in Em]; lia end.
Qed.

Lemma transaction_start_too_small_partial : forall s p r sn dn d,
  s_put s = Some p -> pr_names p = Some (sn, dn) -> q_rcfg (s_p s) = Some r ->
  lookup (fs_s s) sn = Some (File d) -> sn <> [] -> q_file_size (s_p s) = Some 0 ->
  q_md_only (s_p s) = false ->
  (s_seq_bits s = 8 \/ s_seq_bits s = 16 \/ s_seq_bits s = 32) -> 0 <= s_seq_count s < 2 ^ s_seq_bits s ->
  derived_seg_len r (Z.max (l_idw (s_cfg s)) (pr_dstw p)) (s_seq_bits s / 8) (4294967295 <? zlen d) < 0 ->
  snd (transaction_start s) = Err E_VALUE.
Proof.
  intros s p r sn dn d Hp Hn Hr Hl Hne Hfs Hmd Hb Hc Hd.
  unfold fs_s in *.
  assert (Hex : fs_file_exists (e_fs (s_env s)) sn = true)
    by (unfold fs_file_exists, exists_; rewrite Hl; reflexivity).
  assert (Hsz : fs_file_size (e_fs (s_env s)) sn = Ok (zlen d))
    by (unfold fs_file_size; rewrite Hl; reflexivity).
  clear Hl.
  destruct s as [cfg st step rdy qu q sb pt sc sbits env].
  destruct q as [tid ckt akt akc ce pr sl fsz ef mdo fn rc cl conf]. destruct conf.
  cbn in Hp, Hr, Hfs, Hmd, Hex, Hsz, Hb, Hc, Hd. subst.
  unfold transaction_start, put_or_assert, srcfg_or_assert, gq, setq, semit, bind, get, put, gets, modify, ret, raise, when.
  cbn. rewrite Hn. cbn. rewrite Hex, Hsz. cbn.
  pose proof (seq_bits_ok _ Hb) as Hb'.
  assert (Hc' : (2 ^ sbits <=? sc) = false) by (apply Z.leb_gt; lia).
  unfold derived_seg_len in *.
  destruct (zlen d =? 0) eqn:Ez; [apply Z.eqb_eq in Ez; rewrite Ez in *|];
    cbn; rewrite Hb', Hc'; cbn;
    unfold max_file_seg_len, hdr_len, fss_len, crc_len; cbn;
    match goal with |- context [4294967295 <? ?z] => set (lg := 4294967295 <? z) in * end;
    match goal with |- context [if ?a <? ?b then None else _] =>
      destruct (a <? b) eqn:El;
      [ reflexivity
      | apply Z.ltb_ge in El; clearbody lg; destruct lg; destruct (r_crc r); lia ] end.
Qed.

(* F19 repair: a maximum packet length that can hold a File Data PDU with fewer than 6 bytes of file data
   cannot hold the EOF PDU (directive code, condition code, 4-byte checksum in place of the file data)
   and is refused as well; with [transaction_start_partial] the bound 6 is exact *)
Lemma transaction_start_packet_too_small_partial : forall s p r sn dn d,
  s_put s = Some p -> pr_names p = Some (sn, dn) -> q_rcfg (s_p s) = Some r ->
  lookup (fs_s s) sn = Some (File d) -> sn <> [] -> q_file_size (s_p s) = Some 0 ->
  q_md_only (s_p s) = false ->
  (s_seq_bits s = 8 \/ s_seq_bits s = 16 \/ s_seq_bits s = 32) -> 0 <= s_seq_count s < 2 ^ s_seq_bits s ->
  derived_seg_len r (Z.max (l_idw (s_cfg s)) (pr_dstw p)) (s_seq_bits s / 8) (4294967295 <? zlen d) < 6 ->
  snd (transaction_start s) = Err E_VALUE.
Proof.
  intros s p r sn dn d Hp Hn Hr Hl Hne Hfs Hmd Hb Hc Hd.
  unfold fs_s in *.
  assert (Hex : fs_file_exists (e_fs (s_env s)) sn = true)
    by (unfold fs_file_exists, exists_; rewrite Hl; reflexivity).
  assert (Hsz : fs_file_size (e_fs (s_env s)) sn = Ok (zlen d))
    by (unfold fs_file_size; rewrite Hl; reflexivity).
  clear Hl.
  destruct s as [cfg st step rdy qu q sb pt sc sbits env].
  destruct q as [tid ckt akt akc ce pr sl fsz ef mdo fn rc cl conf]. destruct conf.
  cbn in Hp, Hr, Hfs, Hmd, Hex, Hsz, Hb, Hc, Hd. subst.
  unfold transaction_start, put_or_assert, srcfg_or_assert, gq, setq, semit, bind, get, put, gets, modify, ret, raise, when.
  cbn. rewrite Hn. cbn. rewrite Hex, Hsz. cbn.
  pose proof (seq_bits_ok _ Hb) as Hb'.
  assert (Hc' : (2 ^ sbits <=? sc) = false) by (apply Z.leb_gt; lia).
  unfold derived_seg_len in *.
  destruct (zlen d =? 0) eqn:Ez; [apply Z.eqb_eq in Ez; rewrite Ez in *|];
    cbn; rewrite Hb', Hc'; cbn;
    unfold max_file_seg_len, hdr_len, fss_len, crc_len; cbn;
    match goal with |- context [4294967295 <? ?z] => set (lg := 4294967295 <? z) in * end;
    match goal with |- context [if ?a <? ?b then None else _] =>
      destruct (a <? b) eqn:El; [ reflexivity | apply Z.ltb_ge in El ] end;
    cbn;
    match goal with |- context [if ?a <? ?b then (fun s0 : src => (s0, Err E_VALUE)) else _] =>
      destruct (a <? b) eqn:El2;
      [ reflexivity
      | apply Z.ltb_ge in El2; clearbody lg; destruct lg; destruct (r_crc r); lia ] end.
Qed.

(* the statement of c19_transaction_start, with room for an extra hypothesis on the start state *)
Definition transaction_start_stmt (extra : src -> Prop) : Prop := forall s p r sn dn d,
  extra s ->
  s_put s = Some p -> pr_names p = Some (sn, dn) -> q_rcfg (s_p s) = Some r ->
  lookup (fs_s s) sn = Some (File d) -> sn <> [] ->
  q_file_size (s_p s) = Some 0 ->
  (s_seq_bits s = 8 \/ s_seq_bits s = 16 \/ s_seq_bits s = 32) -> 0 <= s_seq_count s < 2 ^ s_seq_bits s ->
  let w := Z.max (l_idw (s_cfg s)) (pr_dstw p) in
  let large := 4294967295 <? zlen d in
  let derived := derived_seg_len r w (s_seq_bits s / 8) large in
  6 <= derived ->
  exists s', transaction_start s = (s', Ok tt) /\
    q_segment_len (s_p s') = (match r_max_seg r with Some m => Z.min m derived | None => derived end) /\
    q_tid (s_p s') = Some (l_id (s_cfg s), s_seq_count s) /\
    sc_seq (q_conf (s_p s')) = s_seq_count s /\ sc_seqw (q_conf (s_p s')) = s_seq_bits s / 8 /\
    s_seq_count s' = s_seq_count s + 1 /\
    sc_srcw (q_conf (s_p s')) = w /\ sc_dstw (q_conf (s_p s')) = w /\
    sc_src (q_conf (s_p s')) = l_id (s_cfg s) /\ sc_dst (q_conf (s_p s')) = pr_dst p /\
    sc_crc (q_conf (s_p s')) = r_crc r /\ sc_large (q_conf (s_p s')) = large /\
    sc_mode (q_conf (s_p s')) = sc_mode (q_conf (s_p s)) /\ q_closure (s_p s') = q_closure (s_p s) /\
    q_file_size (s_p s') = Some (zlen d) /\ q_empty_file (s_p s') = (zlen d =? 0) /\
    log_s s' = EvTransaction (l_id (s_cfg s)) (s_seq_count s)
                 (match pr_msgs p with None => None | Some l => originating_id l None false end) :: log_s s.

Lemma transaction_start_partial_stmt :
  transaction_start_stmt (fun s => q_md_only (s_p s) = false /\ q_empty_file (s_p s) = false).
Proof.
  intros s p r sn dn d [Hmd Hef] Hp Hn Hr Hl Hne Hfs Hb Hc.
  exact (transaction_start_partial s p r sn dn d Hp Hn Hr Hl Hne Hfs Hmd Hef Hb Hc).
Qed.

(* counterexamples: neither extra hypothesis can be dropped (in particular the statement
   of props/C19.v, transaction_start_stmt (fun _ => True), is false) *)
Definition cx_cfg := mkLcfg 1 1 false false false false [] 0 [].
Definition cx_r := mkRcfg 2 1 None 100 false false 0 0 1 1 1 false false 1 1.
Definition cx_p := mkPut 2 1 None None (Some ([1], [2])) None.
Definition cx_s (q : sparams) : src :=
  mkSrc cx_cfg ST_BUSY SS_TRANSACTION_START 0 [] q None (Some cx_p) 0 16 (mkEnv 0 [([1], File [7])] false []).

Lemma transaction_start_needs_empty_file_false :
  ~ transaction_start_stmt (fun s => q_md_only (s_p s) = false).
Proof.
  intros H.
  destruct (H (cx_s (init_sparams cx_cfg <| q_rcfg := Some cx_r |> <| q_empty_file := true |>))
              cx_p cx_r [1] [2] [7]) as (s' & E & R); try reflexivity.
  - discriminate.
  - right; left; reflexivity.
  - split; vm_compute; [discriminate|reflexivity].
  - vm_compute; discriminate.
  - vm_compute in E. inversion E; subst s'. vm_compute in R.
    repeat match goal with H : _ /\ _ |- _ => destruct H end. congruence.
Qed.

Lemma transaction_start_needs_md_only_false :
  ~ transaction_start_stmt (fun s => q_empty_file (s_p s) = false).
Proof.
  intros H.
  destruct (H (cx_s (init_sparams cx_cfg <| q_rcfg := Some cx_r |> <| q_md_only := true |>
                       <| q_conf ::= (fun c => c <| sc_large := true |>) |>))
              cx_p cx_r [1] [2] [7]) as (s' & E & R); try reflexivity.
  - discriminate.
  - right; left; reflexivity.
  - split; vm_compute; [discriminate|reflexivity].
  - vm_compute; discriminate.
  - vm_compute in E. inversion E; subst s'. vm_compute in R.
    repeat match goal with H : _ /\ _ |- _ => destruct H end. congruence.
Qed.

Lemma transaction_start_spec_false : ~ transaction_start_stmt (fun _ => True).
Proof.
  intros H. apply transaction_start_needs_md_only_false.
  intros s p r sn dn d _. exact (H s p r sn dn d I).
Qed.

(* the refusal statements without q_md_only = false.  With q_md_only = true the large-file flag is not
   recomputed, so the header may carry a stale sc_large = false although the file is longer than 2^32 - 1 bytes:
   the length the model derives is then 4 bytes larger than the derived length of the statement.
   - bound 0 (c19_transaction_start_too_small): before the F19 repair this made the statement false without
     q_md_only = false (packet length 15: File Data PDU fits, statement's length is -1).  Since the repair the
     EOF PDU has to fit as well, which needs 6 >= 4 more bytes: the statement now holds without the hypothesis.
   - bound 6 (c19_transaction_start_packet_too_small): still false without q_md_only = false
     (packet length 18: EOF PDU with the stale 4-byte size field fits exactly, statement's length is 2) *)
Definition too_small_stmt (bound : Z) : Prop := forall s p r sn dn d,
  s_put s = Some p -> pr_names p = Some (sn, dn) -> q_rcfg (s_p s) = Some r ->
  lookup (fs_s s) sn = Some (File d) -> sn <> [] -> q_file_size (s_p s) = Some 0 ->
  (s_seq_bits s = 8 \/ s_seq_bits s = 16 \/ s_seq_bits s = 32) -> 0 <= s_seq_count s < 2 ^ s_seq_bits s ->
  derived_seg_len r (Z.max (l_idw (s_cfg s)) (pr_dstw p)) (s_seq_bits s / 8) (4294967295 <? zlen d) < bound ->
  snd (transaction_start s) = Err E_VALUE.

Lemma transaction_start_too_small_general : too_small_stmt 0.
Proof.
  intros s p r sn dn d Hp Hn Hr Hl Hne Hfs Hb Hc Hd.
  unfold fs_s in *.
  assert (Hex : fs_file_exists (e_fs (s_env s)) sn = true)
    by (unfold fs_file_exists, exists_; rewrite Hl; reflexivity).
  assert (Hsz : fs_file_size (e_fs (s_env s)) sn = Ok (zlen d))
    by (unfold fs_file_size; rewrite Hl; reflexivity).
  clear Hl.
  destruct s as [cfg st step rdy qu q sb pt sc sbits env].
  destruct q as [tid ckt akt akc ce pr sl fsz ef mdo fn rc cl conf]. destruct conf.
  cbn in Hp, Hr, Hfs, Hex, Hsz, Hb, Hc, Hd. subst.
  unfold transaction_start, put_or_assert, srcfg_or_assert, gq, setq, semit, bind, get, put, gets, modify, ret, raise, when.
  cbn. rewrite Hn. cbn. rewrite Hex, Hsz. cbn.
  pose proof (seq_bits_ok _ Hb) as Hb'.
  assert (Hc' : (2 ^ sbits <=? sc) = false) by (apply Z.leb_gt; lia).
  unfold derived_seg_len in *.
  destruct mdo;
  (destruct (zlen d =? 0) eqn:Ez; [apply Z.eqb_eq in Ez; rewrite Ez in *|];
    cbn; rewrite Hb', Hc'; cbn;
    unfold max_file_seg_len, hdr_len, fss_len, crc_len; cbn;
    match type of Hd with context [4294967295 <? ?z] => set (lg := 4294967295 <? z) in * end;
    match goal with |- context [if ?a <? ?b then None else _] =>
      destruct (a <? b) eqn:El; [ reflexivity | apply Z.ltb_ge in El ] end;
    cbn;
    match goal with |- context [if ?a <? ?b then (fun s0 : src => (s0, Err E_VALUE)) else _] =>
      destruct (a <? b) eqn:El2;
      [ reflexivity
      | apply Z.ltb_ge in El2; clearbody lg;
        destruct lg; repeat match goal with x : bool |- _ => destruct x end; destruct (r_crc r); lia ] end).
Qed.

Lemma packet_too_small_false_aux : forall d : bytes, zlen d = 4294967296 -> ~ too_small_stmt 6.
Proof.
  intros d Hd H.
  pose (r := mkRcfg 2 1 None 18 false false 0 0 1 1 1 false false 1 1).
  pose (s := mkSrc cx_cfg ST_BUSY SS_TRANSACTION_START 0 []
               (init_sparams cx_cfg <| q_rcfg := Some r |> <| q_md_only := true |>)
               None (Some cx_p) 0 16 (mkEnv 0 [([1], File d)] false [])).
  specialize (H s cx_p r [1] [2] d eq_refl eq_refl eq_refl eq_refl).
  assert (E : snd (transaction_start s) = Ok tt).
  { unfold transaction_start, put_or_assert, srcfg_or_assert, gq, setq, semit, bind, get, put, gets, modify, ret, raise, when.
    cbn. change (fs_file_exists [([1], File d)] [1]) with true.
    change (fs_file_size [([1], File d)] [1]) with (@Ok oserr Z (zlen d)).
    cbn. rewrite Hd. reflexivity. }
  assert (Hx : snd (transaction_start s) = Err E_VALUE).
  { apply H.
    - discriminate.
    - reflexivity.
    - right; left; reflexivity.
    - split; vm_compute; [discriminate|reflexivity].
    - cbn. rewrite Hd. reflexivity. }
  rewrite E in Hx. discriminate Hx.
Qed.

Lemma transaction_start_packet_too_small_false : ~ too_small_stmt 6.
Proof.
  apply (packet_too_small_false_aux (repeat 0 (Z.to_nat 4294967296))).
  unfold zlen. rewrite repeat_length. apply Z2Nat.id. discriminate.
Qed.

(* ------------------------------------------------------------------ the sequence-number provider *)
(* [pres n m]: started with provider value n, m ends with provider value n;
   [mono n m]: started with a provider value >= n, m ends with a provider value >= n *)
Definition pres {A} (n : Z) (m : SM A) : Prop :=
  forall s, s_seq_count s = n -> s_seq_count (fst (m s)) = n.
Definition mono {A} (n : Z) (m : SM A) : Prop :=
  forall s, n <= s_seq_count s -> n <= s_seq_count (fst (m s)).

Lemma pres_mono : forall A (m : SM A), (forall k, pres k m) -> forall n, mono n m.
Proof. intros A m H n s Hs. rewrite (H _ s eq_refl). exact Hs. Qed.

Lemma pres_ret : forall n A (a : A), pres n (ret a : SM A).
Proof. intros n A a s H. exact H. Qed.
Lemma pres_raise : forall n A e, pres n (raise e : SM A).
Proof. intros n A e s H. exact H. Qed.
Lemma pres_gets : forall n A (f : src -> A), pres n (gets f).
Proof. intros n A f s H. exact H. Qed.
Lemma pres_modify : forall n (f : src -> src),
  (forall s, s_seq_count (f s) = s_seq_count s) -> pres n (modify f).
Proof. intros n f H s Hs. cbn. rewrite H. exact Hs. Qed.
Lemma pres_put : forall n x, s_seq_count x = n -> pres n (put x).
Proof. intros n x H s _. exact H. Qed.
Lemma pres_bind : forall n A B (m : SM A) (f : A -> SM B),
  pres n m -> (forall a, pres n (f a)) -> pres n (bind m f).
Proof.
  intros n A B m f Hm Hf s Hs. unfold bind. specialize (Hm s Hs).
  destruct (m s) as [s' [a|e]]; cbn in *; [apply Hf; exact Hm | exact Hm].
Qed.
Lemma pres_get_bind : forall n B (f : src -> SM B),
  (forall s0, s_seq_count s0 = n -> pres n (f s0)) -> pres n (bind get f).
Proof. intros n B f H s Hs. unfold bind, get. apply (H s Hs s Hs). Qed.
Lemma pres_when : forall n b (m : SM unit), pres n m -> pres n (when b m).
Proof. intros n [] m H; [exact H | apply pres_ret]. Qed.

Lemma mono_put : forall n x, n <= s_seq_count x -> mono n (put x).
Proof. intros n x H s _. exact H. Qed.
Lemma mono_bind : forall n A B (m : SM A) (f : A -> SM B),
  mono n m -> (forall a, mono n (f a)) -> mono n (bind m f).
Proof.
  intros n A B m f Hm Hf s Hs. unfold bind. specialize (Hm s Hs).
  destruct (m s) as [s' [a|e]]; cbn in *; [apply Hf; exact Hm | exact Hm].
Qed.
Lemma mono_get_bind : forall n B (f : src -> SM B),
  (forall s0, n <= s_seq_count s0 -> mono n (f s0)) -> mono n (bind get f).
Proof. intros n B f H s Hs. unfold bind, get. apply (H s Hs s Hs). Qed.
Lemma mono_when : forall n b (m : SM unit), mono n m -> mono n (when b m).
Proof. intros n [] m H; [exact H | intros s Hs; exact Hs]. Qed.

Create HintDb pres.

Ltac pres_step :=
  match goal with
  | |- pres _ (ret _) => apply pres_ret
  | |- pres _ (raise _) => apply pres_raise
  | |- pres _ (gets _) => apply pres_gets
  | |- pres _ (modify _) => apply pres_modify; intros []; reflexivity
  | |- pres _ (put _) =>
      apply pres_put;
      repeat match goal with H : s_seq_count ?x = _ |- _ => is_var x; destruct x; cbn in H end;
      cbn; assumption
  | |- pres _ (when _ _) => apply pres_when
  | |- pres _ (bind get _) => apply pres_get_bind; intros ? ?
  | |- pres _ (bind _ _) => apply pres_bind; [| intro]
  | |- pres _ (match ?x with _ => _ end) => destruct x
  | |- pres _ _ => solve [auto with pres]
  end.
Ltac pres_all := intros; repeat pres_step.

Lemma pres_gq : forall n A (f : sparams -> A), pres n (gq f).
Proof. unfold gq; pres_all. Qed.
Lemma pres_setq : forall n f, pres n (setq f).
Proof. unfold setq; pres_all. Qed.
Lemma pres_sset_step : forall n v, pres n (sset_step v).
Proof. unfold sset_step; pres_all. Qed.
Lemma pres_semit : forall n e, pres n (semit e).
Proof. unfold semit; pres_all. Qed.
Lemma pres_snow : forall n, pres n snow.
Proof. unfold snow; pres_all. Qed.
Lemma pres_sadd_packet : forall n p, pres n (sadd_packet p).
Proof. unfold sadd_packet; pres_all. Qed.
Lemma pres_sreset_internal : forall n c, pres n (sreset_internal c).
Proof. unfold sreset_internal; pres_all. Qed.
#[export] Hint Resolve pres_gq pres_setq pres_sset_step pres_semit pres_snow pres_sadd_packet
  pres_sreset_internal : pres.

Lemma pres_stid_or_assert : forall n, pres n stid_or_assert.
Proof. unfold stid_or_assert; pres_all. Qed.
Lemma pres_srcfg_or_assert : forall n, pres n srcfg_or_assert.
Proof. unfold srcfg_or_assert; pres_all. Qed.
Lemma pres_put_or_assert : forall n, pres n put_or_assert.
Proof. unfold put_or_assert; pres_all. Qed.
Lemma pres_stmode : forall n, pres n stmode.
Proof. unfold stmode; pres_all. Qed.
#[export] Hint Resolve pres_stid_or_assert pres_srcfg_or_assert pres_put_or_assert pres_stmode : pres.
Lemma pres_smode_is : forall n m, pres n (smode_is m).
Proof. unfold smode_is; pres_all. Qed.
Lemma pres_sstep_is : forall n v, pres n (sstep_is v).
Proof. unfold sstep_is; pres_all. Qed.
#[export] Hint Resolve pres_smode_is pres_sstep_is : pres.

Lemma pres_src_names : forall n, pres n src_names.
Proof. unfold src_names; pres_all. Qed.
Lemma pres_checksum_calculation : forall n sz, pres n (checksum_calculation sz).
Proof. unfold checksum_calculation; pres_all. Qed.
#[export] Hint Resolve pres_src_names pres_checksum_calculation : pres.
Lemma pres_prepare_file_data_pdu : forall n o l, pres n (prepare_file_data_pdu o l).
Proof. unfold prepare_file_data_pdu; pres_all. Qed.
Lemma pres_prepare_metadata_pdu : forall n, pres n prepare_metadata_pdu.
Proof. unfold prepare_metadata_pdu; pres_all. Qed.
Lemma pres_prepare_eof_pdu : forall n ck, pres n (prepare_eof_pdu ck).
Proof. unfold prepare_eof_pdu; pres_all. Qed.
Lemma pres_start_positive_ack_procedure_s : forall n, pres n start_positive_ack_procedure_s.
Proof. unfold start_positive_ack_procedure_s; pres_all. Qed.
#[export] Hint Resolve pres_prepare_file_data_pdu pres_prepare_metadata_pdu pres_prepare_eof_pdu
  pres_start_positive_ack_procedure_s : pres.
(* handle_eof_sent ends the cancelled unacknowledged transaction through notice_of_completion_s (F21 repair) *)
Lemma pres_notice_of_completion_s : forall n, pres n notice_of_completion_s.
Proof. unfold notice_of_completion_s; pres_all. Qed.
#[export] Hint Resolve pres_notice_of_completion_s : pres.
Lemma pres_handle_eof_sent : forall n c, pres n (handle_eof_sent c).
Proof. unfold handle_eof_sent; pres_all. Qed.
#[export] Hint Resolve pres_handle_eof_sent : pres.
Lemma pres_notice_of_cancellation_s : forall n c, pres n (notice_of_cancellation_s c).
Proof. unfold notice_of_cancellation_s; pres_all. Qed.
#[export] Hint Resolve pres_notice_of_cancellation_s : pres.
Lemma pres_declare_fault_s : forall n c, pres n (declare_fault_s c).
Proof. unfold declare_fault_s; pres_all. Qed.
#[export] Hint Resolve pres_declare_fault_s : pres.

Lemma pres_retransmit_chunks : forall n fuel o m sg, pres n (retransmit_chunks fuel o m sg).
Proof.
  intros n. induction fuel; intros; cbn [retransmit_chunks]; pres_all.
Qed.
#[export] Hint Resolve pres_retransmit_chunks : pres.
Lemma pres_handle_segment_req : forall n rq, pres n (handle_segment_req rq).
Proof. unfold handle_segment_req; pres_all. Qed.
#[export] Hint Resolve pres_handle_segment_req : pres.
Lemma pres_fold_segment_reqs : forall n reqs (m : SM unit), pres n m ->
  pres n (fold_left (fun m rq => bind m (fun _ => handle_segment_req rq)) reqs m).
Proof.
  intros n. induction reqs; intros m H; cbn [fold_left]; [exact H|]. apply IHreqs. pres_all.
Qed.
Lemma pres_handle_retransmission : forall n pkt, pres n (handle_retransmission pkt).
Proof.
  unfold handle_retransmission; pres_all. apply pres_fold_segment_reqs. pres_all.
Qed.
#[export] Hint Resolve pres_handle_retransmission : pres.

Lemma pres_prepare_progressing_file_data_pdu : forall n, pres n prepare_progressing_file_data_pdu.
Proof. unfold prepare_progressing_file_data_pdu; pres_all. Qed.
#[export] Hint Resolve pres_prepare_progressing_file_data_pdu : pres.
Lemma pres_sending_file_data_fsm : forall n pkt, pres n (sending_file_data_fsm pkt).
Proof. unfold sending_file_data_fsm; pres_all. Qed.
Lemma pres_handle_positive_ack_procedures_s : forall n, pres n handle_positive_ack_procedures_s.
Proof. unfold handle_positive_ack_procedures_s; pres_all. Qed.
#[export] Hint Resolve pres_sending_file_data_fsm pres_handle_positive_ack_procedures_s : pres.
Lemma pres_handle_waiting_for_ack : forall n pkt, pres n (handle_waiting_for_ack pkt).
Proof. unfold handle_waiting_for_ack; pres_all. Qed.
Lemma pres_handle_wait_for_finish : forall n pkt, pres n (handle_wait_for_finish pkt).
Proof. unfold handle_wait_for_finish; pres_all. Qed.
Lemma pres_fsm_advancement_s : forall n, pres n fsm_advancement_s.
Proof. unfold fsm_advancement_s; pres_all. Qed.
Lemma pres_check_inserted_packet_s : forall n p, pres n (check_inserted_packet_s p).
Proof. unfold check_inserted_packet_s; pres_all. Qed.
#[export] Hint Resolve pres_handle_waiting_for_ack pres_handle_wait_for_finish pres_notice_of_completion_s
  pres_fsm_advancement_s pres_check_inserted_packet_s : pres.

(* the only function that touches the provider: it takes the next value *)
Ltac mono_step :=
  first
  [ apply pres_mono; intro; solve [repeat pres_step]
  | match goal with
    | |- mono _ (when _ _) => apply mono_when
    | |- mono _ (put _) =>
        apply mono_put;
        repeat match goal with H : _ <= s_seq_count ?x |- _ => is_var x; destruct x; cbn in H end;
        cbn; lia
    | |- mono _ (bind get _) => apply mono_get_bind; intros ? ?
    | |- mono _ (bind _ _) => apply mono_bind; [| intro]
    | |- mono _ (match ?x with _ => _ end) => destruct x
    end ].

Lemma mono_transaction_start : forall n, mono n transaction_start.
Proof. intros n. unfold transaction_start. cbv zeta. repeat mono_step. Qed.
Lemma mono_fsm_non_idle : forall n pkt, mono n (fsm_non_idle pkt).
Proof.
  intros n pkt. unfold fsm_non_idle.
  repeat first [ match goal with |- mono _ transaction_start => apply mono_transaction_start end | mono_step ].
Qed.
Lemma mono_state_machine_s : forall n pkt, mono n (state_machine_s pkt).
Proof.
  intros n pkt. unfold state_machine_s.
  repeat first [ match goal with |- mono _ (fsm_non_idle _) => apply mono_fsm_non_idle end | mono_step ].
Qed.

Lemma seq_monotone : forall pkt s, s_seq_count s <= s_seq_count (fst (state_machine_s pkt s)).
Proof. intros pkt s. apply (mono_state_machine_s (s_seq_count s) pkt s). lia. Qed.

Lemma pres_put_request : forall n p, pres n (put_request p).
Proof. unfold put_request; pres_all. Qed.
Lemma pres_cancel_request_s : forall n a b, pres n (cancel_request_s a b).
Proof. unfold cancel_request_s; pres_all. Qed.
Lemma pres_get_next_packet_s : forall n, pres n get_next_packet_s.
Proof. unfold get_next_packet_s; pres_all. Qed.

Lemma seq_unchanged_elsewhere : forall s p a b,
  s_seq_count (fst (put_request p s)) = s_seq_count s /\
  s_seq_count (fst (cancel_request_s a b s)) = s_seq_count s /\
  s_seq_count (fst (get_next_packet_s s)) = s_seq_count s /\
  s_seq_count (fst (reset_s s)) = s_seq_count s.
Proof.
  intros s p a b. split; [|split; [|split]].
  - apply pres_put_request; reflexivity.
  - apply pres_cancel_request_s; reflexivity.
  - apply pres_get_next_packet_s; reflexivity.
  - apply (pres_sreset_internal (s_seq_count s) true s); reflexivity.
Qed.
