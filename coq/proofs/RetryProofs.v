(* RetryProofs.v — proofs for property C04 (props/C04.v): the positive-ACK procedures of both
   handlers and the NAK procedure of the receiver honour their limits exactly. *)
From CFDP Require Import Base LostSeg Fs Crc Checksum Handler Dest Source HandlerSpec SourceSpec.
From CFDP.gen Require Import Tables.
From CFDP.proofs Require Import FaultProofs.
From RecordUpdate Require Import RecordSet.
Import RecordSetNotations.

Arguments Z.add : simpl never. Arguments Z.sub : simpl never. Arguments Z.mul : simpl never.
Arguments Z.max : simpl never. Arguments Z.min : simpl never.
Arguments Z.ltb !x !y : simpl nomatch. Arguments Z.leb !x !y : simpl nomatch.
Arguments Z.eqb !x !y : simpl nomatch.
Arguments timed_out : simpl never.

Opaque checksum_verify calculate_checksum checksum_calculation.
Arguments handle_waiting_for_ack : simpl never. Arguments handle_wait_for_finish : simpl never.
Arguments notice_of_completion_s : simpl never.

Definition src_waiting_ack (s : src) (r : rcfg) (t : timer) : Prop :=
  s_state s = ST_BUSY /\ s_step s = SS_WAITING_FOR_EOF_ACK /\ s_queue s = [] /\ s_put s <> None /\
  q_rcfg (s_p s) = Some r /\ q_ack_timer (s_p s) = Some t.

Definition dst_waiting_fin_ack (s : dst) (r : rcfg) (t : timer) (a b : Z) : Prop :=
  d_state s = ST_BUSY /\ d_step s = DS_WAITING_FOR_FINISHED_ACK /\ d_queue s = [] /\ d_ready s = 0 /\
  p_rcfg (d_p s) = Some r /\ p_ack_timer (d_p s) = Some t /\ p_tid (d_p s) = Some (a, b) /\
  h_mode (p_conf (d_p s)) = ACKED.

Ltac msimp := repeat (cbn; unfold bind, ret, raise, get, put, gets, modify, when).

(* normalise a receiver state built from record updates on a constructor (keeps the kernel's conversion cheap) *)
Ltac nstate st :=
  let st' := eval cbv beta iota delta [set d_cfg d_state d_step d_states_tid d_ready d_queue d_p d_env
    p_tid p_rcfg p_check_timer p_check_count p_closure p_cktype p_fin p_disp p_conf p_progress p_crc32 p_file_size
    p_file_name p_file_size_eof p_md_only p_tracker p_md_missing p_last_start p_last_end p_deferred p_proc_timer
    p_nak_counter p_ack_timer p_ack_counter f_deliv f_fstatus f_cond f_fl e_now e_fs e_reject_writes e_log] in st in
  change st with st'.

Ltac dsrc s :=
  destruct s as [cfg st step ready q p sb pt sc sbits env]; destruct env as [nw fs rw lg];
  destruct p as [tid ckt ackt ackc ce pr sl fsz ef mdo fin rc cl cf].

Ltac ddst s :=
  destruct s as [cfg st step stid ready q p env]; destruct env as [nw fs rw lg];
  destruct p as [tid rc ckt ckc clo ckty fin disp cf pr crc fsz fname fse mdo trk mdm ls le dfr prt nakc ackt ackc];
  destruct fin as [deliv fstat fcond ffl].

(* ------------------------------------------------------------------ sender *)
(* what is left of a state_machine() call in step WAITING_FOR_EOF_ACK with nothing queued *)
Definition tail_s (pkt : option pdu) : SM unit :=
  (b <- sstep_is SS_WAITING_FOR_FINISHED ;; when b (handle_wait_for_finish pkt)) ;;;
  b <- sstep_is SS_NOTICE_OF_COMPLETION ;; when b notice_of_completion_s.

Lemma sm_waiting_eof_ack : forall pkt s,
  s_state s = ST_BUSY -> s_step s = SS_WAITING_FOR_EOF_ACK -> s_queue s = [] -> s_put s <> None ->
  fsm_non_idle pkt s = (handle_waiting_for_ack pkt ;;; tail_s pkt) s.
Proof.
  intros pkt s Hst Hstep Hq Hput.
  destruct s as [cfg st step ready q p sb pt sc sbits env]. cbn in Hst, Hstep, Hq, Hput. subst st step q.
  destruct pt as [pt|]; [|contradiction].
  unfold fsm_non_idle, tail_s, fsm_advancement_s, sstep_is. msimp.
  reflexivity.
Qed.

Lemma tail_s_idle : forall pkt s,
  s_step s = SS_WAITING_FOR_EOF_ACK \/ s_step s = SS_IDLE -> tail_s pkt s = (s, Ok tt).
Proof.
  intros pkt s [H|H]; unfold tail_s, sstep_is, gets, bind, ret, when; rewrite H; cbn; rewrite H; reflexivity.
Qed.

Lemma sm_none : forall s, s_state s = ST_BUSY -> state_machine_s None s = fsm_non_idle None s.
Proof.
  intros s H. unfold state_machine_s, get, bind, ret. rewrite H. reflexivity.
Qed.

Lemma src_wait : forall s r t,
  src_waiting_ack s r t -> timed_out (now_s s) t = false -> state_machine_s None s = (s, Ok tt).
Proof.
  intros s r t (Hst & Hstep & Hq & Hput & Hr & Ht) Hto. unfold now_s in Hto.
  rewrite sm_none, sm_waiting_eof_ack by assumption.
  unfold bind at 1.
  assert (handle_waiting_for_ack None s = (s, Ok tt)) as ->.
  { unfold handle_waiting_for_ack, handle_retransmission, handle_positive_ack_procedures_s,
      srcfg_or_assert, snow, gq, gets, bind, ret.
    rewrite Ht. cbv beta iota. rewrite Hr. cbv beta iota. rewrite Hto. reflexivity. }
  apply tail_s_idle. left; exact Hstep.
Qed.

Lemma src_resend : forall s r t ck cond,
  src_waiting_ack s r t -> timed_out (now_s s) t = true -> q_ack_counter (s_p s) + 1 < r_ack_limit r ->
  q_cond_eof (s_p s) = Some cond -> (l_ind_eof_sent (s_cfg s) = true -> q_tid (s_p s) <> None) ->
  (forall s0, s_put s0 = s_put s -> fs_s s0 = fs_s s -> q_rcfg (s_p s0) = q_rcfg (s_p s) ->
              q_segment_len (s_p s0) = q_segment_len (s_p s) -> q_md_only (s_p s0) = q_md_only (s_p s) ->
              checksum_calculation (q_progress (s_p s)) s0 = (s0, Ok ck)) ->
  exists s', state_machine_s None s = (s', Ok tt) /\
    s_queue s' = [PEof (hdr_of (q_conf (s_p s)) TOWARDS_RECEIVER) cond ck (q_progress (s_p s)) None] /\
    q_ack_counter (s_p s') = q_ack_counter (s_p s) + 1 /\ q_ack_timer (s_p s') = Some (now_s s, snd t) /\
    s_step s' = SS_WAITING_FOR_EOF_ACK /\ s_state s' = ST_BUSY /\ q_cond_eof (s_p s') = Some cond /\
    q_progress (s_p s') = q_progress (s_p s).
Proof.
  intros s r t ck cond (Hst & Hstep & Hq & Hput & Hr & Ht) Hto Hlim Hce Htid Hck. unfold now_s in *.
  assert (r_ack_limit r <=? q_ack_counter (s_p s) + 1 = false) as Hle by (apply Z.leb_gt; lia).
  rewrite sm_none, sm_waiting_eof_ack by assumption.
  dsrc s. unfold fs_s in Hck. cbn in *. subst st step q rc ackt ce.
  unfold tail_s, handle_waiting_for_ack, handle_positive_ack_procedures_s. msimp.
  rewrite Hto. msimp. rewrite Hle. msimp.
  rewrite Hck by reflexivity. msimp.
  destruct (l_ind_eof_sent cfg) eqn:Hind.
  - destruct tid as [[a b]|]; [|exfalso; apply Htid; reflexivity].
    msimp. eexists. split; [reflexivity|]. cbn. repeat split; reflexivity.
  - msimp. eexists. split; [reflexivity|]. cbn. repeat split; reflexivity.
Qed.

Lemma cc_same : forall size s, checksum_calculation size s = (s, snd (checksum_calculation size s)).
Proof. intros. apply cc_frame; reflexivity. Qed.

Lemma bind_inv : forall {S A B} (m : M S A) (f : A -> M S B) s s' b,
  bind m f s = (s', Ok b) -> exists s1 a, m s = (s1, Ok a) /\ f a s1 = (s', Ok b).
Proof.
  intros S A B m f s s' b H. unfold bind in H.
  destruct (m s) as [s1 [a|e]]; [|discriminate]. exists s1, a. split; [reflexivity | exact H].
Qed.

Definition step_7_or_0 (s : src) : Prop := s_step s = SS_WAITING_FOR_EOF_ACK \/ s_step s = SS_IDLE.

Lemma sreset_step : forall c s s' u, sreset_internal c s = (s', Ok u) -> step_7_or_0 s'.
Proof.
  intros c s s' u H. unfold sreset_internal, modify in H. inversion H; subst. right. reflexivity.
Qed.

Lemma notice_of_completion_s_step : forall s s' u, notice_of_completion_s s = (s', Ok u) -> step_7_or_0 s'.
Proof.
  intros s s' u H. unfold notice_of_completion_s in H.
  apply bind_inv in H as (s1 & l & _ & H). apply bind_inv in H as (s2 & ? & _ & H).
  eapply sreset_step. exact H.
Qed.

Lemma handle_eof_sent_step : forall s s' u, handle_eof_sent true s = (s', Ok u) -> step_7_or_0 s'.
Proof.
  intros s s' u H. unfold handle_eof_sent in H.
  apply bind_inv in H as (s1 & ac & _ & H).
  destruct ac.
  - unfold start_positive_ack_procedure_s in H.
    apply bind_inv in H as (s2 & r & _ & H). apply bind_inv in H as (s3 & n & _ & H).
    apply bind_inv in H as (s4 & x & Hs & H).
    unfold sset_step, modify in Hs. unfold setq, modify in H. inversion H; inversion Hs; subst.
    left. reflexivity.
  - (* unacknowledged mode (F21 repair): the Finished indication, then the reset *)
    apply bind_inv in H as (s2 & ce & _ & H).
    destruct ce as [c|]; [|discriminate].
    apply bind_inv in H as (s3 & ? & _ & H).
    eapply notice_of_completion_s_step. exact H.
Qed.

Lemma notice_of_cancellation_s_step : forall cond s s' go,
  notice_of_cancellation_s cond s = (s', Ok go) -> step_7_or_0 s'.
Proof.
  intros cond s s' go H. unfold notice_of_cancellation_s in H.
  apply bind_inv in H as (s1 & ce & _ & H).
  assert (forall s1 s' go,
    (setq (fun q => q <| q_cond_eof := Some cond |>) ;;;
     pr <- gq q_progress ;; ck <- checksum_calculation pr ;;
     prepare_eof_pdu ck ;;; handle_eof_sent true ;;; ret true)%monad s1 = (s', Ok go) -> step_7_or_0 s') as Htail.
  { clear. intros s1 s' go H.
    apply bind_inv in H as (s2 & ? & _ & H). apply bind_inv in H as (s3 & pr & _ & H).
    apply bind_inv in H as (s4 & ck & _ & H). apply bind_inv in H as (s5 & ? & _ & H).
    apply bind_inv in H as (s6 & ? & He & H). unfold ret in H. inversion H; subst.
    eapply handle_eof_sent_step. exact He. }
  destruct ce as [c0|]; [|eapply Htail; exact H].
  destruct (negb (c0 =? C_NO_ERROR)); [|eapply Htail; exact H].
  apply bind_inv in H as (s2 & t & _ & H). apply bind_inv in H as (s3 & pr & _ & H).
  apply bind_inv in H as (s4 & ? & _ & H). apply bind_inv in H as (s5 & ? & Hr & H).
  unfold ret in H. inversion H; subst. eapply sreset_step. exact Hr.
Qed.

Lemma declare_fault_s_step : forall cond s s' u,
  s_step s = SS_WAITING_FOR_EOF_ACK -> declare_fault_s cond s = (s', Ok u) -> step_7_or_0 s'.
Proof.
  intros cond s s' u Hstep H. unfold declare_fault_s in H.
  apply bind_inv in H as (s1 & l & Hl & H). unfold gets in Hl. inversion Hl; subst s1. clear Hl.
  apply bind_inv in H as (s1 & tid & Hl & H). unfold gq, gets in Hl. inversion Hl; subst s1. clear Hl.
  apply bind_inv in H as (s1 & pr & Hl & H). unfold gq, gets in Hl. inversion Hl; subst s1. clear Hl.
  destruct tid as [[a b]|]; [|discriminate].
  apply bind_inv in H as (s1 & go & Hgo & H).
  assert (step_7_or_0 s1) as H1.
  { destruct (get_fault_handler (l_faults l) cond) as [h|].
    - destruct (h =? FH_CANCEL); [eapply notice_of_cancellation_s_step; exact Hgo|].
      destruct (h =? FH_ABANDON).
      + apply bind_inv in Hgo as (s2 & ? & Hr & Hgo). unfold ret in Hgo. inversion Hgo; subst.
        eapply sreset_step. exact Hr.
      + unfold ret in Hgo. inversion Hgo; subst. left. exact Hstep.
    - unfold ret in Hgo. inversion Hgo; subst. left. exact Hstep. }
  destruct (negb go).
  - unfold ret in H. inversion H; subst. exact H1.
  - destruct (get_fault_handler (l_faults l) cond) as [h|]; [|discriminate].
    unfold semit, modify in H. inversion H; subst. exact H1.
Qed.

(* ---- the configuration is never written: what _declare_fault's caller reads after the call is what was there before *)
Definition kc {A} (m : SM A) : Prop := forall s, s_cfg (fst (m s)) = s_cfg s.

Lemma kc_bind : forall {A B} (m : SM A) (f : A -> SM B), kc m -> (forall a, kc (f a)) -> kc (bind m f).
Proof.
  intros A B m f Hm Hf s. unfold bind. specialize (Hm s).
  destruct (m s) as [s1 [a|e]]; cbn [fst] in *; [rewrite Hf|]; exact Hm.
Qed.
Lemma kc_ret : forall {A} (a : A), kc (ret a). Proof. intros A a s. reflexivity. Qed.
Lemma kc_raise : forall {A} e, kc (@raise src A e). Proof. intros A e s. reflexivity. Qed.
Lemma kc_gets : forall {A} (f : src -> A), kc (gets f). Proof. intros A f s. reflexivity. Qed.
Lemma kc_gq : forall {A} (f : sparams -> A), kc (gq f). Proof. intros A f s. reflexivity. Qed.
Lemma kc_get : kc get. Proof. intros s. reflexivity. Qed.
Lemma kc_setq : forall f, kc (setq f). Proof. intros f s. destruct s. reflexivity. Qed.
Lemma kc_semit : forall e, kc (semit e). Proof. intros e s. destruct s. reflexivity. Qed.
Lemma kc_sset_step : forall v, kc (sset_step v). Proof. intros v s. destruct s. reflexivity. Qed.
Lemma kc_sadd_packet : forall p, kc (sadd_packet p). Proof. intros p s. destruct s. reflexivity. Qed.
Lemma kc_sreset : forall c, kc (sreset_internal c). Proof. intros c s. destruct s. reflexivity. Qed.
Lemma kc_when : forall b (m : SM unit), kc m -> kc (when b m).
Proof. intros b m H. destruct b; [exact H | apply kc_ret]. Qed.
Lemma kc_cc : forall size, kc (checksum_calculation size).
Proof. intros size s. rewrite cc_same. reflexivity. Qed.

Ltac kc_step :=
  first [ apply kc_ret | apply kc_raise | apply kc_gets | apply kc_gq | apply kc_get | apply kc_setq | apply kc_semit
        | apply kc_sset_step | apply kc_sadd_packet | apply kc_sreset | apply kc_cc
        | apply kc_when | (apply kc_bind; [|intro]) ].
Ltac kc_auto := repeat first [ kc_step | match goal with |- kc (match ?x with _ => _ end) => destruct x end ].

Lemma kc_stid : kc stid_or_assert. Proof. unfold stid_or_assert. kc_auto. Qed.
Lemma kc_srcfg : kc srcfg_or_assert. Proof. unfold srcfg_or_assert. kc_auto. Qed.
Lemma kc_snow : kc snow. Proof. unfold snow. kc_auto. Qed.
Lemma kc_smode_is : forall m, kc (smode_is m). Proof. intros m. unfold smode_is, stmode. kc_auto. Qed.
Lemma kc_prepare_eof : forall ck, kc (prepare_eof_pdu ck).
Proof. intros ck. unfold prepare_eof_pdu. kc_auto; try apply kc_stid; kc_auto. Qed.
Lemma kc_notice_of_completion : kc notice_of_completion_s.
Proof. unfold notice_of_completion_s. kc_auto; try apply kc_stid; kc_auto. Qed.
Lemma kc_handle_eof_sent : forall b, kc (handle_eof_sent b).
Proof.
  intros b. unfold handle_eof_sent, start_positive_ack_procedure_s.
  kc_auto; first [apply kc_smode_is | apply kc_srcfg | apply kc_snow | apply kc_notice_of_completion | idtac]; kc_auto.
Qed.
Lemma kc_notice_of_cancellation : forall cond, kc (notice_of_cancellation_s cond).
Proof.
  intros cond. unfold notice_of_cancellation_s.
  kc_auto; first [apply kc_stid | apply kc_prepare_eof | apply kc_handle_eof_sent | idtac]; kc_auto.
Qed.
Lemma kc_declare_fault : forall cond, kc (declare_fault_s cond).
Proof.
  intros cond. unfold declare_fault_s.
  kc_auto; first [apply kc_notice_of_cancellation | idtac]; kc_auto.
Qed.

(* the handler code that makes _declare_fault return "ignored" *)
Lemma fault_ignored_iff : forall l cond,
  fault_ignored l cond = true <-> get_fault_handler (l_faults l) cond = Some FH_IGNORE.
Proof.
  intros l cond. unfold fault_ignored. destruct (get_fault_handler (l_faults l) cond) as [h|].
  - rewrite Z.eqb_eq. split; [intros ->; reflexivity | intros H; inversion H; reflexivity].
  - split; discriminate.
Qed.

(* the call at an expiry with the counter at the limit, whatever the handler *)
Lemma hwa_limit : forall s r t,
  src_waiting_ack s r t -> timed_out (now_s s) t = true -> r_ack_limit r <= q_ack_counter (s_p s) + 1 ->
  handle_waiting_for_ack None s =
    (declare_fault_s C_POS_ACK_LIMIT ;;;
     l <- gets s_cfg ;;
     if fault_ignored l C_POS_ACK_LIMIT then
       (setq (fun q => q <| q_ack_timer := Some (now_s s, snd t) |> <| q_ack_counter := q_ack_counter (s_p s) + 1 |>) ;;;
        pr <- gq q_progress ;; ck <- checksum_calculation pr ;; prepare_eof_pdu ck)
     else ret tt)%monad s.
Proof.
  intros s r t (Hst & Hstep & Hq & Hput & Hr & Ht) Hto Hlim. unfold now_s in *.
  assert (r_ack_limit r <=? q_ack_counter (s_p s) + 1 = true) as Hle by (apply Z.leb_le; lia).
  unfold handle_waiting_for_ack, handle_retransmission, handle_positive_ack_procedures_s,
    srcfg_or_assert, snow, gq.
  unfold gets at 1 2 3 4 5, bind at 1 2 3 4 5 6, ret at 1 2 3.
  rewrite Ht. cbv beta iota. rewrite Hr. cbv beta iota. rewrite Hto. cbv beta iota delta [negb].
  rewrite Hle. reflexivity.
Qed.

Lemma src_limit : forall s r t,
  src_waiting_ack s r t -> timed_out (now_s s) t = true -> r_ack_limit r <= q_ack_counter (s_p s) + 1 ->
  get_fault_handler (l_faults (s_cfg s)) C_POS_ACK_LIMIT <> Some FH_IGNORE ->
  (exists s', declare_fault_s C_POS_ACK_LIMIT s = (s', Ok tt) /\
              (s_step s' = SS_WAITING_FOR_EOF_ACK \/ s_step s' = SS_IDLE) /\
              state_machine_s None s = (s', Ok tt)) \/
  (exists s' e, declare_fault_s C_POS_ACK_LIMIT s = (s', Err e) /\ state_machine_s None s = (s', Err e)).
Proof.
  intros s r t Hw Hto Hlim Hni.
  pose proof (hwa_limit s r t Hw Hto Hlim) as Hh.
  destruct Hw as (Hst & Hstep & Hq & Hput & Hr & Ht).
  assert (fault_ignored (s_cfg s) C_POS_ACK_LIMIT = false) as Hfi.
  { destruct (fault_ignored (s_cfg s) C_POS_ACK_LIMIT) eqn:E; [|reflexivity].
    apply fault_ignored_iff in E. contradiction. }
  remember (state_machine_s None s) as res eqn:Hres.
  rewrite sm_none, sm_waiting_eof_ack in Hres by assumption.
  unfold bind at 1 in Hres. rewrite Hh in Hres. clear Hh.
  pose proof (kc_declare_fault C_POS_ACK_LIMIT s) as Hc.
  unfold bind at 1 in Hres.
  destruct (declare_fault_s C_POS_ACK_LIMIT s) as [s' [[]|e]] eqn:Hdf; cbn [fst] in Hc.
  - left. exists s'. apply declare_fault_s_step in Hdf; [|exact Hstep].
    split; [reflexivity|]. split; [exact Hdf|].
    unfold gets, bind at 1 in Hres. rewrite Hc, Hfi in Hres.
    unfold ret at 1 in Hres. rewrite Hres. apply tail_s_idle. exact Hdf.
  - right. exists s', e. split; [reflexivity | exact Hres].
Qed.

(* c04_src_limit without its handler hypothesis (the statement up to wave 6: "at the limit the call is the fault
   declaration, whatever the handler") is false after the F34 repair: with the handler IGNORE the call goes on and
   re-sends the EOF.  Metadata-only put, limit 1, first expiry. *)
Module CounterExamples.
  Definition cx_r : rcfg := mkRcfg 2 2 None 64 false false ACKED CK_NULL 1000 1 1 false false 1000 1.
  Definition cx_cfg : lcfg := mkLcfg 1 2 false false false false [(C_POS_ACK_LIMIT, FH_IGNORE)] 1000 [cx_r].
  Definition cx_s : src :=
    mkSrc cx_cfg ST_BUSY SS_WAITING_FOR_EOF_ACK 0 []
      (mkSP (Some (1, 0)) None (Some (0, 1000)) 0 (Some C_NO_ERROR) 0 0 (Some 0) false true None (Some cx_r) false empty_sconf)
      None (Some (mkPut 2 2 None None None None)) 0 16 (mkEnv 1000 [] false []).
  Example handler_needed :
    src_waiting_ack cx_s cx_r (0, 1000) /\ timed_out (now_s cx_s) (0, 1000) = true /\
    r_ack_limit cx_r <= q_ack_counter (s_p cx_s) + 1 /\
    (exists s', declare_fault_s C_POS_ACK_LIMIT cx_s = (s', Ok tt) /\ s_queue s' = [] /\ q_ack_counter (s_p s') = 0) /\
    (exists s'', state_machine_s None cx_s = (s'', Ok tt) /\ s_queue s'' <> [] /\ q_ack_counter (s_p s'') = 1).
  Proof.
    split; [repeat split; try reflexivity; discriminate|].
    split; [reflexivity|]. split; [vm_compute; discriminate|].
    split; eexists; (split; [vm_compute; reflexivity|]); split; try reflexivity. discriminate.
  Qed.
End CounterExamples.

(* expiry N, handler IGNORE (F34 repair): exactly one IGNORE callback, then the procedure carries on as below the limit:
   timer restarted at the current time, counter + 1, the EOF queued again with the contents of the original
   (and, where configured, its EOF-Sent indication); the step is kept.
   Before the repair the call returned right after the callback: the state differed from [s] by the log entry only,
   the timer stayed expired and the counter stayed at the limit. *)
Lemma src_ack_limit_ignored_continues : forall s r t ck cond a b,
  src_waiting_ack s r t -> timed_out (now_s s) t = true -> r_ack_limit r <= q_ack_counter (s_p s) + 1 ->
  get_fault_handler (l_faults (s_cfg s)) C_POS_ACK_LIMIT = Some FH_IGNORE ->
  q_tid (s_p s) = Some (a, b) -> q_cond_eof (s_p s) = Some cond ->
  (forall s0, s_put s0 = s_put s -> fs_s s0 = fs_s s -> q_rcfg (s_p s0) = q_rcfg (s_p s) ->
              q_segment_len (s_p s0) = q_segment_len (s_p s) -> q_md_only (s_p s0) = q_md_only (s_p s) ->
              checksum_calculation (q_progress (s_p s)) s0 = (s0, Ok ck)) ->
  state_machine_s None s =
    (s <| s_queue := [PEof (hdr_of (q_conf (s_p s)) TOWARDS_RECEIVER) cond ck (q_progress (s_p s)) None] |>
       <| s_ready := s_ready s + 1 |>
       <| s_p ::= (fun q => q <| q_ack_timer := Some (now_s s, snd t) |>
                              <| q_ack_counter := q_ack_counter (s_p s) + 1 |>) |>
       <| s_env ::= (fun en => en <| e_log :=
            (if l_ind_eof_sent (s_cfg s) then [EvEofSent a b] else []) ++
            EvFault FH_IGNORE a b C_POS_ACK_LIMIT (q_progress (s_p s)) :: log_s s |>) |>, Ok tt).
Proof.
  intros s r t ck cond a b (Hst & Hstep & Hq & Hput & Hr & Ht) Hto Hlim Hfh Htid Hce Hck. unfold now_s, log_s in *.
  assert (r_ack_limit r <=? q_ack_counter (s_p s) + 1 = true) as Hle by (apply Z.leb_le; lia).
  rewrite sm_none, sm_waiting_eof_ack by assumption.
  dsrc s. unfold fs_s in Hck. cbn in *. subst st step q rc ackt ce tid.
  unfold tail_s, handle_waiting_for_ack, handle_positive_ack_procedures_s. msimp.
  rewrite Hto. msimp. rewrite Hle. msimp.
  unfold declare_fault_s, fault_ignored. msimp. rewrite Hfh. msimp. rewrite ?Hfh. msimp.
  rewrite Hck by reflexivity. msimp.
  destruct (l_ind_eof_sent cfg) eqn:Hind; msimp; reflexivity.
Qed.

(* ... and it is not declared again: once the queued EOF is retrieved, a call at any time before the next expiry
   (the restarted timer not timed out) delivers nothing and changes nothing.
   This was false before the repair: the call at the limit left the timer expired and the counter at the limit, so
   EVERY following state_machine() call, at whatever time, delivered another IGNORE callback for Positive ACK Limit
   Reached (one log entry per call) and the EOF was never sent again. *)
Lemma src_ack_limit_ignored_not_redeclared : forall s r t ck cond a b s1 ps n',
  src_waiting_ack s r t -> timed_out (now_s s) t = true -> r_ack_limit r <= q_ack_counter (s_p s) + 1 ->
  get_fault_handler (l_faults (s_cfg s)) C_POS_ACK_LIMIT = Some FH_IGNORE ->
  q_tid (s_p s) = Some (a, b) -> q_cond_eof (s_p s) = Some cond ->
  (forall s0, s_put s0 = s_put s -> fs_s s0 = fs_s s -> q_rcfg (s_p s0) = q_rcfg (s_p s) ->
              q_segment_len (s_p s0) = q_segment_len (s_p s) -> q_md_only (s_p s0) = q_md_only (s_p s) ->
              checksum_calculation (q_progress (s_p s)) s0 = (s0, Ok ck)) ->
  pump s = (s1, Ok ps) ->                                  (* the call at the limit, its EOF retrieved *)
  timed_out n' (now_s s, snd t) = false ->                 (* any time before the next expiry *)
  let s2 := s1 <| s_env ::= (fun en => en <| e_now := n' |>) |> in
  state_machine_s None s2 = (s2, Ok tt).
Proof.
  intros s r t ck cond a b s1 ps n' Hw Hto Hlim Hfh Htid Hce Hck Hp Hn s2.
  pose proof (src_ack_limit_ignored_continues s r t ck cond a b Hw Hto Hlim Hfh Htid Hce Hck) as Hsm.
  destruct Hw as (Hst & Hstep & Hq & Hput & Hr & Ht).
  unfold pump, pump_with in Hp. rewrite Hsm in Hp. unfold drain_s in Hp. inversion Hp. subst s1 ps. clear Hp Hsm.
  apply (src_wait s2 r (now_s s, snd t)); [|exact Hn].
  subst s2. dsrc s. cbn in *. subst. repeat split; try reflexivity. exact Hput.
Qed.

Lemma src_ack_ends : forall s r t h c st,
  src_waiting_ack s r t -> check_inserted_packet_s (PAck h D_EOF c st) s = (s, Ok tt) -> q_check_timer (s_p s) = None ->
  state_machine_s (Some (PAck h D_EOF c st)) s = (s <| s_step := SS_WAITING_FOR_FINISHED |>, Ok tt).
Proof.
  intros s r t h c st0 (Hst & Hstep & Hq & Hput & Hr & Ht) Hci Hct.
  unfold state_machine_s. unfold bind at 1. rewrite Hci.
  unfold get, bind at 1. rewrite Hst. change (ST_BUSY =? ST_IDLE) with false. cbv beta iota.
  rewrite sm_waiting_eof_ack by assumption.
  dsrc s. cbn in *. subst st step q rc ackt ckt.
  unfold tail_s, handle_waiting_for_ack, handle_wait_for_finish. msimp.
  destruct (sc_mode cf =? ACKED); reflexivity.
Qed.

(* ------------------------------------------------------------------ receiver: Finished awaiting its ACK *)
Arguments handle_waiting_for_finished_ack : simpl never.

(* in step WAITING_FOR_FINISHED_ACK with nothing queued only the last block of __non_idle_fsm acts *)
Lemma nif_waiting_fin_ack : forall k pkt s,
  d_step s = DS_WAITING_FOR_FINISHED_ACK -> d_queue s = [] ->
  non_idle_fsm (S k) pkt s =
  handle_waiting_for_finished_ack
    (catch_abandoned (s0 <- get ;; when (d_state s0 =? ST_BUSY) (non_idle_fsm k None)))%monad pkt s.
Proof.
  intros k pkt s Hstep Hq.
  destruct s as [cfg st step stid ready q p env]. cbn in Hstep, Hq. subst step q.
  cbn [non_idle_fsm]. unfold fsm_advancement, step_is, get_step. msimp. reflexivity.
Qed.

(* a state_machine() call swallows the abandon signal (try ... except _TransactionAbandoned: pass) *)
Lemma ca_ok : forall (m : D unit) s s1 u, m s = (s1, Ok u) -> catch_abandoned m s = (s1, Ok u).
Proof. intros m s s1 u H. unfold catch_abandoned, catch. rewrite H. reflexivity. Qed.

Lemma dsm_none : forall s, d_state s = ST_BUSY ->
  Dest.state_machine None s = catch_abandoned (non_idle_fsm 3 None) s.
Proof.
  intros s H. unfold Dest.state_machine. unfold bind at 1. unfold ret at 1. cbv beta iota.
  unfold catch_abandoned, catch.
  assert ((s0 <- get ;;
           stop <- (if d_state s0 =? ST_IDLE then idle_fsm None ;;; n <- gets d_ready ;; ret (0 <? n) else ret false) ;;
           if stop then ret tt else s1 <- get ;; when (d_state s1 =? ST_BUSY) (non_idle_fsm 3 None))%monad s
          = non_idle_fsm 3 None s) as ->; [|reflexivity].
  unfold get, bind, ret, when. rewrite H.
  change (ST_BUSY =? ST_IDLE) with false. cbv beta iota. rewrite H. reflexivity.
Qed.

Lemma dst_fin_wait : forall s r t a b,
  dst_waiting_fin_ack s r t a b -> timed_out (now_d s) t = false -> Dest.state_machine None s = (s, Ok tt).
Proof.
  intros s r t a b (Hst & Hstep & Hq & Hrd & Hr & Ht & Htid & Hm) Hto. unfold now_d in Hto.
  rewrite dsm_none by assumption. apply ca_ok. rewrite nif_waiting_fin_ack by assumption.
  unfold handle_waiting_for_finished_ack, handle_positive_ack_procedures, rcfg_or_assert, now, gp, gets, bind, ret.
  rewrite Ht. cbv beta iota. rewrite Hr. cbv beta iota. rewrite Hto. reflexivity.
Qed.

Lemma dst_fin_resend : forall s r t a b,
  dst_waiting_fin_ack s r t a b -> timed_out (now_d s) t = true -> p_ack_counter (d_p s) + 1 < r_ack_limit r ->
  exists s', Dest.state_machine None s = (s', Ok tt) /\
    (let f := p_fin (d_p s) in
     d_queue s' = [PFinished (set_dir TOWARDS_SENDER (p_conf (d_p s))) (f_cond f) (f_deliv f) (f_fstatus f) (f_fl f)]) /\
    p_ack_counter (d_p s') = p_ack_counter (d_p s) + 1 /\ p_ack_timer (d_p s') = Some (now_d s, snd t) /\
    d_step s' = DS_WAITING_FOR_FINISHED_ACK /\ d_state s' = ST_BUSY /\ p_fin (d_p s') = p_fin (d_p s) /\
    log_d s' = log_d s /\ fs_d s' = fs_d s.
Proof.
  intros s r t a b (Hst & Hstep & Hq & Hrd & Hr & Ht & Htid & Hm) Hto Hlim. unfold now_d, log_d, fs_d in *.
  assert (r_ack_limit r <=? p_ack_counter (d_p s) + 1 = false) as Hle by (apply Z.leb_gt; lia).
  rewrite dsm_none by assumption. unfold catch_abandoned at 1, catch. rewrite nif_waiting_fin_ack by assumption.
  ddst s. cbn in *. subst st step q ready rc ackt tid.
  unfold handle_waiting_for_finished_ack, handle_positive_ack_procedures. msimp.
  rewrite Hto. msimp. rewrite Hle. msimp.
  destruct t as [t0 tmo]. msimp.
  eexists. split; [reflexivity|]. cbn. repeat split; reflexivity.
Qed.

Lemma fresh_timer_running : forall n tmo, 0 < tmo -> timed_out n (n, tmo) = false.
Proof. intros n tmo H. unfold timed_out. cbn [fst snd]. rewrite Z.sub_diag. apply Z.leb_gt. exact H. Qed.

Lemma dst_fin_limit_abandons : forall s r t a b,
  dst_waiting_fin_ack s r t a b -> timed_out (now_d s) t = true -> r_ack_limit r <= p_ack_counter (d_p s) + 1 ->
  p_disp (d_p s) = DISP_CANCELED ->
  exists s', Dest.state_machine None s = (s', Ok tt) /\
    d_state s' = ST_IDLE /\ d_step s' = DS_IDLE /\ d_queue s' = [] /\
    log_d s' = EvFault FH_ABANDON a b (f_cond (p_fin (d_p s))) (p_progress (d_p s)) :: log_d s.
Proof.
  intros s r t a b (Hst & Hstep & Hq & Hrd & Hr & Ht & Htid & Hm) Hto Hlim Hdisp. unfold now_d, log_d in *.
  assert (r_ack_limit r <=? p_ack_counter (d_p s) + 1 = true) as Hle by (apply Z.leb_le; lia).
  rewrite dsm_none by assumption. unfold catch_abandoned at 1, catch. rewrite nif_waiting_fin_ack by assumption.
  ddst s. cbn in *. subst st step q ready rc ackt tid disp.
  unfold handle_waiting_for_finished_ack, handle_positive_ack_procedures. msimp.
  rewrite Hto. msimp. rewrite Hle. msimp.
  eexists. split; [reflexivity|]. cbn. repeat split; reflexivity.
Qed.

Lemma dst_fin_ack_ends : forall s r t a b h acked c st,
  dst_waiting_fin_ack s r t a b -> check_inserted_packet (PAck h acked c st) s = (s, Ok tt) ->
  exists s', Dest.state_machine (Some (PAck h acked c st)) s = (s', Ok tt) /\
    d_state s' = ST_IDLE /\ d_step s' = DS_IDLE /\ d_queue s' = [] /\ log_d s' = log_d s.
Proof.
  intros s r t a b h acked c st0 (Hst & Hstep & Hq & Hrd & Hr & Ht & Htid & Hm) Hci. unfold log_d.
  unfold Dest.state_machine. unfold bind at 1. rewrite Hci.
  unfold catch_abandoned, catch.
  unfold get, bind, ret, when. rewrite Hst. change (ST_BUSY =? ST_IDLE) with false. cbv beta iota. rewrite Hst.
  change (ST_BUSY =? ST_BUSY) with true. cbv beta iota.
  rewrite nif_waiting_fin_ack by assumption.
  ddst s. cbn in *. subst st step q ready rc ackt tid.
  unfold handle_waiting_for_finished_ack. msimp.
  eexists. split; [reflexivity|]. cbn. repeat split; reflexivity.
Qed.

(* ---- the NAK procedure at and around its limit (F22 repair) *)
(* the re-issue branch of deferred_lost_segment_handling (timer expired, procedure not stopped): the NAK sequence is
   queued again, the counter is incremented and the timer restarts; same text as in Dest.v *)
Definition nak_reissue (r : rcfg) (eos : Z) : D unit :=
  (h <- conf ;;
   match max_seg_reqs (r_max_packet r) h with
   | None => raise E_VALUE
   | Some maxn =>
     let hh := set_dir TOWARDS_SENDER h in
     tr <- gp p_tracker ;; mdm <- gp p_md_missing ;;
     let '(pre, acc0) :=
       if mdm then (if 1 =? maxn then ([PNak hh 0 eos [(0, 0)]], []) else ([], [(0, 0)]))
       else ([], []) in
     let '(ps, rest) := nak_split hh eos maxn acc0 tr in
     let all := pre ++ ps ++ (match rest with [] => [] | _ => [PNak hh 0 eos rest] end) in
     fold_left (fun m p => m ;;; add_packet p) all (ret tt) ;;;
     (n <- now ;; t <- gp p_proc_timer ;;
      setp (fun p => p <| p_nak_counter ::= (fun c => c + 1) |>
                       <| p_proc_timer := (match t with Some (_, tmo) => Some (n, tmo) | None => None end) |>))
   end)%monad.

(* the PDUs of one NAK sequence *)
Definition nak_seq (h : hdr) (eos maxn : Z) (mdm : bool) (tr : tracker) : list pdu :=
  let '(pre, acc0) := if mdm then (if 1 =? maxn then ([PNak h 0 eos [(0, 0)]], []) else ([], [(0, 0)])) else ([], []) in
  let '(ps, rest) := nak_split h eos maxn acc0 tr in
  pre ++ ps ++ (match rest with [] => [] | _ => [PNak h 0 eos rest] end).

Lemma fold_add_packets : forall l (m : D unit) s s1, m s = (s1, Ok tt) ->
  fold_left (fun m p => m ;;; add_packet p)%monad l m s =
    (s1 <| d_queue := d_queue s1 ++ l |> <| d_ready := d_ready s1 + zlen l |>, Ok tt).
Proof.
  induction l as [|p l IH]; intros m s s1 H; cbn [fold_left].
  - rewrite H. destruct s1. cbn. rewrite app_nil_r. change (zlen (@nil pdu)) with 0. rewrite Z.add_0_r. reflexivity.
  - rewrite (IH _ s (s1 <| d_queue ::= (fun q => q ++ [p]) |> <| d_ready ::= (fun n => n + 1) |>)).
    + replace (zlen (p :: l)) with (1 + zlen l) by (unfold zlen; cbn [length]; lia).
      destruct s1. unfold set. cbn. rewrite <- app_assoc, Z.add_assoc. reflexivity.
    + unfold bind. rewrite H. reflexivity.
Qed.

(* what a re-issue does, exactly: the NAK sequence appended to the queue, counter + 1, timer restarted now, nothing else;
   without room for one segment request in a NAK PDU: ValueError, state untouched *)
Lemma nak_reissue_exact : forall s r eos t maxn,
  p_proc_timer (d_p s) = Some t -> max_seg_reqs (r_max_packet r) (p_conf (d_p s)) = Some maxn ->
  let naks := nak_seq (set_dir TOWARDS_SENDER (p_conf (d_p s))) eos maxn (p_md_missing (d_p s)) (p_tracker (d_p s)) in
  nak_reissue r eos s =
    (s <| d_queue := d_queue s ++ naks |> <| d_ready := d_ready s + zlen naks |>
       <| d_p ::= (fun p => p <| p_nak_counter := p_nak_counter (d_p s) + 1 |>
                              <| p_proc_timer := Some (now_d s, snd t) |>) |>, Ok tt).
Proof.
  intros s r eos t maxn Ht Hm naks. subst naks.
  unfold nak_reissue, conf, gp, gets, now. unfold bind at 1. rewrite Hm. cbv zeta.
  unfold bind at 1. unfold bind at 1. unfold nak_seq.
  destruct (if p_md_missing (d_p s) then _ else _) as [pre acc0].
  destruct (nak_split _ _ _ acc0 _) as [ps rest].
  unfold bind at 1.
  rewrite (fold_add_packets _ (ret tt) s s eq_refl).
  match goal with |- context[zlen ?x] => generalize x end. intro al.
  destruct t as [t0 tmo]. unfold now_d.
  destruct s as [cfg st step stid ready q p env]. destruct p. cbn in Ht. subst.
  reflexivity.
Qed.

Lemma nak_reissue_no_room : forall s r eos,
  max_seg_reqs (r_max_packet r) (p_conf (d_p s)) = None -> nak_reissue r eos s = (s, Err E_VALUE).
Proof.
  intros s r eos Hm. unfold nak_reissue, conf, gp, gets. unfold bind at 1. rewrite Hm. reflexivity.
Qed.

(* a re-issue logs nothing *)
Lemma nak_reissue_log : forall s r eos, log_d (fst (nak_reissue r eos s)) = log_d s.
Proof.
  intros s r eos.
  destruct (max_seg_reqs (r_max_packet r) (p_conf (d_p s))) as [maxn|] eqn:Hm; [|rewrite nak_reissue_no_room by exact Hm; reflexivity].
  unfold nak_reissue, conf, gp, gets, now. unfold bind at 1. rewrite Hm. cbv zeta.
  unfold bind at 1. unfold bind at 1.
  destruct (if p_md_missing (d_p s) then _ else _) as [pre acc0].
  destruct (nak_split _ _ _ acc0 _) as [ps rest].
  unfold bind at 1.
  rewrite (fold_add_packets _ (ret tt) s s eq_refl).
  reflexivity.
Qed.

Lemma nak_missing_cond : forall s, (p_tracker (d_p s) <> [] \/ p_md_missing (d_p s) = true) ->
  (zlen (p_tracker (d_p s)) =? 0) && negb (p_md_missing (d_p s)) = false.
Proof.
  intros s [Hn|Hm]; [|rewrite Hm; apply andb_false_r].
  destruct (p_tracker (d_p s)); [contradiction|]. reflexivity.
Qed.

(* expiry below (or beyond) the limit, transaction not cancelled: the call is exactly a re-issue *)
Lemma dst_nak_reissue : forall s r eos t,
  p_deferred (d_p s) = true -> p_disp (d_p s) <> DISP_CANCELED -> p_rcfg (d_p s) = Some r -> p_file_size_eof (d_p s) = Some eos ->
  (p_tracker (d_p s) <> [] \/ p_md_missing (d_p s) = true) ->
  p_proc_timer (d_p s) = Some t -> timed_out (now_d s) t = true -> p_nak_counter (d_p s) + 1 <> r_nak_limit r ->
  deferred_lost_segment_handling s = nak_reissue r eos s.
Proof.
  intros s r eos t Hd Hnc Hr He Hmiss Ht Hto Hlim.
  assert (p_disp (d_p s) =? DISP_CANCELED = false) as Hdc by (apply Z.eqb_neq; exact Hnc).
  pose proof (nak_missing_cond s Hmiss) as Hz. unfold now_d in Hto.
  assert (p_nak_counter (d_p s) + 1 =? r_nak_limit r = false) as Heq by (apply Z.eqb_neq; exact Hlim).
  unfold deferred_lost_segment_handling, rcfg_or_assert, now, gp, gets, bind, ret.
  rewrite Hd. change (negb true) with false. cbv beta iota. rewrite Hdc. cbv beta iota. rewrite Hr. cbv beta iota. rewrite He. cbv beta iota.
  rewrite Hz. cbv beta iota. rewrite Ht. cbv beta iota. rewrite Hto. change (negb true) with false. cbv beta iota.
  rewrite Heq. change (negb false && false) with false. cbv beta iota.
  reflexivity.
Qed.

(* expiry N, handler of NAK Limit Reached not IGNORE: the fault is declared and the call ends there (its effect is C14's) *)
Lemma dst_nak_limit : forall s r eos t,
  p_deferred (d_p s) = true -> p_disp (d_p s) <> DISP_CANCELED -> p_rcfg (d_p s) = Some r -> p_file_size_eof (d_p s) = Some eos ->
  (p_tracker (d_p s) <> [] \/ p_md_missing (d_p s) = true) ->
  p_proc_timer (d_p s) = Some t -> timed_out (now_d s) t = true -> p_nak_counter (d_p s) + 1 = r_nak_limit r ->
  get_fault_handler (l_faults (d_cfg s)) C_NAK_LIMIT <> Some FH_IGNORE ->
  deferred_lost_segment_handling s =
    (fst (declare_fault C_NAK_LIMIT s), match snd (declare_fault C_NAK_LIMIT s) with Ok _ => Ok tt | Err e => Err e end).
Proof.
  intros s r eos t Hd Hnc Hr He Hmiss Ht Hto Hlim Hni.
  assert (p_disp (d_p s) =? DISP_CANCELED = false) as Hdc by (apply Z.eqb_neq; exact Hnc).
  pose proof (nak_missing_cond s Hmiss) as Hz. unfold now_d in Hto.
  assert (p_nak_counter (d_p s) + 1 =? r_nak_limit r = true) as Heq by (apply Z.eqb_eq; exact Hlim).
  assert (forall s' x, declare_fault C_NAK_LIMIT s = (s', Ok x) -> negb (x =? FH_IGNORE) = true) as Hx.
  { intros s' x Hdf. unfold declare_fault, gp, gets, bind, ret, raise in Hdf.
    destruct (p_tid (d_p s)) as [[a b]|]; [|discriminate].
    destruct (get_fault_handler (l_faults (d_cfg s)) C_NAK_LIMIT) as [fh|]; [|discriminate].
    assert (fh <> FH_IGNORE) as Hne by (intro; subst fh; apply Hni; reflexivity).
    destruct (fh =? FH_CANCEL); cbn in Hdf;
      (destruct (fh =? FH_ABANDON); cbn in Hdf; [discriminate|]);
      inversion Hdf; subst x; apply negb_true_iff, Z.eqb_neq; exact Hne. }
  unfold deferred_lost_segment_handling, rcfg_or_assert, now, gp, gets, bind, ret.
  rewrite Hd. change (negb true) with false. cbv beta iota. rewrite Hdc. cbv beta iota. rewrite Hr. cbv beta iota. rewrite He. cbv beta iota.
  rewrite Hz. cbv beta iota. rewrite Ht. cbv beta iota. rewrite Hto. change (negb true) with false. cbv beta iota.
  rewrite Heq. change (negb false && true) with true. cbv beta iota.
  destruct (declare_fault C_NAK_LIMIT s) as [s' [x|e]] eqn:Hdf; [|reflexivity].
  rewrite (Hx s' x eq_refl). reflexivity.
Qed.

(* expiry N, handler IGNORE (F22 repair): exactly one IGNORE callback, then the call is exactly a re-issue: the NAK
   sequence again, counter N, timer restarted (so the limit test fails at every later expiry) *)
Lemma dst_nak_limit_ignored_continues : forall s r eos t a b,
  p_deferred (d_p s) = true -> p_disp (d_p s) <> DISP_CANCELED -> p_rcfg (d_p s) = Some r -> p_file_size_eof (d_p s) = Some eos ->
  (p_tracker (d_p s) <> [] \/ p_md_missing (d_p s) = true) ->
  p_proc_timer (d_p s) = Some t -> timed_out (now_d s) t = true -> p_nak_counter (d_p s) + 1 = r_nak_limit r ->
  get_fault_handler (l_faults (d_cfg s)) C_NAK_LIMIT = Some FH_IGNORE -> p_tid (d_p s) = Some (a, b) ->
  let s1 := s <| d_env ::= (fun en => en <| e_log ::= cons (EvFault FH_IGNORE a b C_NAK_LIMIT (p_progress (d_p s))) |>) |> in
  deferred_lost_segment_handling s = nak_reissue r eos s1 /\
  (forall maxn, max_seg_reqs (r_max_packet r) (p_conf (d_p s)) = Some maxn ->
     let naks := nak_seq (set_dir TOWARDS_SENDER (p_conf (d_p s))) eos maxn (p_md_missing (d_p s)) (p_tracker (d_p s)) in
     deferred_lost_segment_handling s =
       (s1 <| d_queue := d_queue s ++ naks |> <| d_ready := d_ready s + zlen naks |>
           <| d_p ::= (fun p => p <| p_nak_counter := p_nak_counter (d_p s) + 1 |>
                                  <| p_proc_timer := Some (now_d s, snd t) |>) |>, Ok tt)) /\
  (max_seg_reqs (r_max_packet r) (p_conf (d_p s)) = None -> deferred_lost_segment_handling s = (s1, Err E_VALUE)).
Proof.
  intros s r eos t a b Hd Hnc Hr He Hmiss Ht Hto Hlim Hfh Htid s1.
  assert (p_disp (d_p s) =? DISP_CANCELED = false) as Hdc by (apply Z.eqb_neq; exact Hnc).
  assert (deferred_lost_segment_handling s = nak_reissue r eos s1) as Heqn.
  { pose proof (nak_missing_cond s Hmiss) as Hz. unfold now_d in Hto.
    assert (p_nak_counter (d_p s) + 1 =? r_nak_limit r = true) as Heq by (apply Z.eqb_eq; exact Hlim).
    assert (declare_fault C_NAK_LIMIT s = (s1, Ok FH_IGNORE)) as Hdf.
    { unfold declare_fault, gp, gets, bind. rewrite Htid, Hfh. reflexivity. }
    unfold deferred_lost_segment_handling, rcfg_or_assert, now, gp, gets, bind, ret.
    rewrite Hd. change (negb true) with false. cbv beta iota. rewrite Hdc. cbv beta iota. rewrite Hr. cbv beta iota. rewrite He. cbv beta iota.
    rewrite Hz. cbv beta iota. rewrite Ht. cbv beta iota. rewrite Hto. change (negb true) with false. cbv beta iota.
    rewrite Heq. change (negb false && true) with true. cbv beta iota.
    rewrite Hdf. reflexivity. }
  split; [exact Heqn|]. split.
  - intros maxn Hm naks. rewrite Heqn. exact (nak_reissue_exact s1 r eos t maxn Ht Hm).
  - intros Hm. rewrite Heqn. exact (nak_reissue_no_room s1 r eos Hm).
Qed.

(* consequently the fault is declared once: at every expiry with the counter at or beyond the limit the call is a
   re-issue and logs nothing *)
Lemma dst_nak_limit_not_declared_again : forall s r eos t,
  p_deferred (d_p s) = true -> p_disp (d_p s) <> DISP_CANCELED -> p_rcfg (d_p s) = Some r -> p_file_size_eof (d_p s) = Some eos ->
  (p_tracker (d_p s) <> [] \/ p_md_missing (d_p s) = true) ->
  p_proc_timer (d_p s) = Some t -> timed_out (now_d s) t = true -> r_nak_limit r <= p_nak_counter (d_p s) ->
  deferred_lost_segment_handling s = nak_reissue r eos s /\
  log_d (fst (deferred_lost_segment_handling s)) = log_d s.
Proof.
  intros s r eos t Hd Hnc Hr He Hmiss Ht Hto Hge.
  assert (deferred_lost_segment_handling s = nak_reissue r eos s) as Heqn
    by (eapply dst_nak_reissue; try eassumption; lia).
  split; [exact Heqn|]. rewrite Heqn. apply nak_reissue_log.
Qed.

(* ---- F35 repair: the deferred procedure of a cancelled transaction does nothing (whatever the timer, the counter and
   the tracker say): no NAK, no limit fault, no checksum verification; the cancel condition stands.  Before the repair
   the FSM steps WAITING_FOR_MISSING_DATA / WAITING_FOR_METADATA ran the whole procedure after a PDU whose handling had
   cancelled the transaction; with the tracker emptied by the same PDU the completion overwrote the cancel condition
   with No Error. *)
Lemma dst_deferred_cancelled : forall s,
  p_disp (d_p s) = DISP_CANCELED -> deferred_lost_segment_handling s = (s, Ok tt).
Proof.
  intros s Hc. unfold deferred_lost_segment_handling, gp, gets, bind, ret. cbv beta iota.
  destruct (p_deferred (d_p s)); cbv beta iota delta [negb]; [|reflexivity]. rewrite Hc. reflexivity.
Qed.

(* the lemmas above (dst_nak_reissue, dst_nak_limit, dst_nak_limit_ignored_continues, dst_nak_limit_not_declared_again)
   without `p_disp (d_p s) <> DISP_CANCELED` (their statements up to wave 7) are false after the repair: a waiting
   state at expiry N whose transaction is marked cancelled satisfies every other hypothesis, and the call does nothing
   instead of declaring NAK Limit Reached.  (Within the FSM such a state does not occur at an expiry: every PDU that
   cancels is followed by reset_nak_activity_parameters, and a cancelled transaction leaves the waiting steps.) *)
Module NakCounterExamples.
  Definition nx_r : rcfg := mkRcfg 1 2 (Some 4) 64 false false ACKED CK_NULL 1000 2 2 false false 1000 1.
  Definition nx_cfg : lcfg := mkLcfg 2 2 false false false true default_fault_table 1000 [nx_r].
  Definition nx_h : hdr := mkHdr TOWARDS_RECEIVER ACKED false false 1 2 2 0 2.
  Definition nx_sm (p : option pdu) (s : dst) : dst := fst (Dest.state_machine p s).
  Definition nx_gn (s : dst) : dst := fst (Dest.get_next_packet s).
  (* Metadata (size 10), File Data (0,4), EOF (no error, 10), ACK retrieved, poll (NAK (4,10)) retrieved; NAK interval later *)
  Definition nx_s3 : dst :=
    nx_gn (nx_sm None (nx_gn (nx_sm (Some (PEof nx_h C_NO_ERROR [0; 0; 0; 0] 10 None))
      (nx_sm (Some (PFileData nx_h 0 [1; 2; 3; 4]))
         (nx_sm (Some (PMetadata nx_h false CK_NULL 10 (Some ([7], [8])) [])) (dst_init nx_cfg))))))
    <| d_env ::= (fun en => en <| e_now := 1000 |>) |>.
  Definition nx_s : dst := nx_s3 <| d_p ::= (fun p => p <| p_disp := DISP_CANCELED |>) |>.
  Example not_cancelled_needed :
    p_deferred (d_p nx_s) = true /\ p_rcfg (d_p nx_s) = Some nx_r /\ p_file_size_eof (d_p nx_s) = Some 10 /\
    (p_tracker (d_p nx_s) <> [] \/ p_md_missing (d_p nx_s) = true) /\
    p_proc_timer (d_p nx_s) = Some (0, 1000) /\ timed_out (now_d nx_s) (0, 1000) = true /\
    p_nak_counter (d_p nx_s) + 1 = r_nak_limit nx_r /\
    get_fault_handler (l_faults (d_cfg nx_s)) C_NAK_LIMIT = Some FH_CANCEL /\
    p_disp (d_p nx_s) = DISP_CANCELED /\
    deferred_lost_segment_handling nx_s = (nx_s, Ok tt) /\
    log_d (fst (declare_fault C_NAK_LIMIT nx_s)) = EvFault FH_CANCEL 1 0 C_NAK_LIMIT 4 :: log_d nx_s /\
    (* the same state, not cancelled: the fault is declared *)
    log_d (fst (deferred_lost_segment_handling nx_s3)) = EvFault FH_CANCEL 1 0 C_NAK_LIMIT 4 :: log_d nx_s3.
  Proof.
    split; [vm_compute; reflexivity|]. split; [vm_compute; reflexivity|]. split; [vm_compute; reflexivity|].
    split; [left; vm_compute; discriminate|].
    split; [vm_compute; reflexivity|]. split; [vm_compute; reflexivity|]. split; [vm_compute; reflexivity|].
    split; [vm_compute; reflexivity|]. split; [reflexivity|].
    split; [apply dst_deferred_cancelled; reflexivity|]. split; vm_compute; reflexivity.
  Qed.
End NakCounterExamples.

Lemma dst_nak_progress_resets : forall s t,
  p_proc_timer (d_p s) = Some t ->
  reset_nak_activity_parameters s =
    (s <| d_p ::= (fun p => p <| p_nak_counter := 0 |> <| p_proc_timer := Some (now_d s, snd t) |>) |>, Ok tt).
Proof.
  intros s [t0 tmo] Ht. unfold now_d.
  unfold reset_nak_activity_parameters, now, setp, modify, gp, gets, bind, ret.
  rewrite Ht. reflexivity.
Qed.

(* the nested state_machine() call after the notice of cancellation: completion, Finished (cancel) PDU,
   positive ACK procedure restarted *)
Lemma nif_cancel_completion : forall k s r a b,
  d_state s = ST_BUSY -> d_step s = DS_TRANSFER_COMPLETION -> d_queue s = [] -> d_ready s = 0 ->
  p_rcfg (d_p s) = Some r -> p_tid (d_p s) = Some (a, b) -> h_mode (p_conf (d_p s)) = ACKED ->
  p_disp (d_p s) = DISP_CANCELED -> 0 < r_ack_ms r ->
  exists s' fstatus',
    non_idle_fsm (S k) None s = (s', Ok tt) /\
    d_queue s' = [PFinished (set_dir TOWARDS_SENDER (p_conf (d_p s))) (f_cond (p_fin (d_p s))) (f_deliv (p_fin (d_p s)))
                            fstatus' (f_fl (p_fin (d_p s)))] /\
    p_ack_counter (d_p s') = 0 /\ p_ack_timer (d_p s') = Some (now_d s, r_ack_ms r) /\
    d_step s' = DS_WAITING_FOR_FINISHED_ACK /\ d_state s' = ST_BUSY /\ p_disp (d_p s') = DISP_CANCELED /\
    (exists evs, log_d s' = evs ++ log_d s /\
                 (evs = [] \/ evs = [EvFinished a b (f_cond (p_fin (d_p s))) (f_deliv (p_fin (d_p s))) fstatus'
                                                (f_fl (p_fin (d_p s)))])).
Proof.
  intros k s r a b Hst Hstep Hq Hrd Hr Htid Hm Hdisp Hms. unfold now_d, log_d.
  ddst s. cbn in Hst, Hstep, Hq, Hrd, Hr, Htid, Hm, Hdisp. subst st step q ready rc tid disp.
  destruct cf as [hdir hmode hcrc hlarge hsrc hdst hidw hseq hseqw]. cbn in Hm. subst hmode.
  cbn [non_idle_fsm].
  unfold fsm_advancement, step_is, get_step, handle_transfer_completion, notice_of_completion, rcfg_or_assert,
    mode_is, tmode, gp. msimp.
  destruct (l_ind_fin cfg) eqn:Hind;
    (match goal with |- context[r_disposition r && ?x] => destruct (r_disposition r && x) end);
    msimp; rewrite ?Hind; msimp;
    (match goal with |- context[handle_waiting_for_finished_ack _ None ?st] => nstate st end);
    unfold handle_waiting_for_finished_ack, handle_positive_ack_procedures; msimp;
    rewrite (fresh_timer_running nw (r_ack_ms r) Hms); msimp;
    (eexists; eexists; split; [reflexivity|]; cbn;
     split; [reflexivity|]; split; [reflexivity|]; split; [reflexivity|]; split; [reflexivity|];
     split; [reflexivity|]; split; [reflexivity|];
     first [ exists []; split; [reflexivity | left; reflexivity]
           | eexists; split; [|right; reflexivity]; reflexivity ]).
Qed.

Lemma dst_fin_limit_cancels : forall s r t a b,
  dst_waiting_fin_ack s r t a b -> timed_out (now_d s) t = true -> r_ack_limit r <= p_ack_counter (d_p s) + 1 ->
  p_disp (d_p s) <> DISP_CANCELED -> get_fault_handler (l_faults (d_cfg s)) C_POS_ACK_LIMIT = Some FH_CANCEL ->
  0 < r_ack_ms r ->
  exists s' fstatus',
    Dest.state_machine None s = (s', Ok tt) /\
    d_queue s' = [PFinished (set_dir TOWARDS_SENDER (p_conf (d_p s))) C_POS_ACK_LIMIT (f_deliv (p_fin (d_p s))) fstatus'
                            (f_fl (p_fin (d_p s)))] /\
    p_ack_counter (d_p s') = 0 /\ p_ack_timer (d_p s') = Some (now_d s, r_ack_ms r) /\
    d_step s' = DS_WAITING_FOR_FINISHED_ACK /\ d_state s' = ST_BUSY /\ p_disp (d_p s') = DISP_CANCELED /\
    (exists evs, log_d s' = evs ++ EvFault FH_CANCEL a b C_POS_ACK_LIMIT (p_progress (d_p s)) :: log_d s /\
                 (evs = [] \/ evs = [EvFinished a b C_POS_ACK_LIMIT (f_deliv (p_fin (d_p s))) fstatus' (f_fl (p_fin (d_p s)))])).
Proof.
  intros s r t a b (Hst & Hstep & Hq & Hrd & Hr & Ht & Htid & Hm) Hto Hlim Hdisp Hfh Hms. unfold now_d, log_d in *.
  assert (r_ack_limit r <=? p_ack_counter (d_p s) + 1 = true) as Hle by (apply Z.leb_le; lia).
  assert (p_disp (d_p s) =? DISP_CANCELED = false) as Hdc by (apply Z.eqb_neq; exact Hdisp).
  rewrite dsm_none by assumption. unfold catch_abandoned at 1, catch. rewrite nif_waiting_fin_ack by assumption.
  remember (non_idle_fsm 2 None) as ag eqn:Hag.
  ddst s. cbn in Hst, Hstep, Hq, Hrd, Hr, Ht, Htid, Hm, Hto, Hlim, Hdisp, Hfh, Hle, Hdc. subst st step q ready rc ackt tid.
  unfold handle_waiting_for_finished_ack, handle_positive_ack_procedures. msimp.
  rewrite Hto. msimp. rewrite Hle. msimp. rewrite Hdc. msimp.
  unfold declare_fault. msimp. rewrite Hfh. msimp.
  unfold catch_abandoned, catch. msimp.
  subst ag.
  match goal with |- context[non_idle_fsm 2 None ?st] => nstate st end.
  match goal with |- context[non_idle_fsm 2 None ?st] =>
    destruct (nif_cancel_completion 1%nat st r a b) as (s' & fstatus' & Hrun & Hq' & Hc' & Ht' & Hstep' & Hst' & Hd' & evs & Hlog & Hevs);
      [reflexivity | reflexivity | reflexivity | reflexivity | reflexivity | reflexivity | exact Hm | reflexivity | exact Hms |]
  end.
  rewrite Hrun. msimp.
  exists s', fstatus'. split; [reflexivity|].
  split; [exact Hq'|]. split; [exact Hc'|]. split; [exact Ht'|]. split; [exact Hstep'|]. split; [exact Hst'|].
  split; [exact Hd'|].
  exists evs. split; [exact Hlog | exact Hevs].
Qed.

(* expiry N, transaction not yet cancelled, limit fault configured as ABANDON (F25-F27 repair): the abandon signal
   unwinds the call; the handler is idle with fresh_params, only the abandon callback is logged,
   nothing is re-sent and the call returns normally (before the repair: AttributeError on the cleared timer) *)
Lemma dst_fin_limit_handler_abandons : forall s r t a b,
  dst_waiting_fin_ack s r t a b -> timed_out (now_d s) t = true -> r_ack_limit r <= p_ack_counter (d_p s) + 1 ->
  p_disp (d_p s) <> DISP_CANCELED -> get_fault_handler (l_faults (d_cfg s)) C_POS_ACK_LIMIT = Some FH_ABANDON ->
  exists s', Dest.state_machine None s = (s', Ok tt) /\
    d_state s' = ST_IDLE /\ d_step s' = DS_IDLE /\ d_queue s' = [] /\ d_ready s' = 0 /\ d_p s' = fresh_params /\
    fs_d s' = fs_d s /\
    log_d s' = EvFault FH_ABANDON a b C_POS_ACK_LIMIT (p_progress (d_p s)) :: log_d s.
Proof.
  intros s r t a b (Hst & Hstep & Hq & Hrd & Hr & Ht & Htid & Hm) Hto Hlim Hdisp Hfh. unfold now_d, log_d, fs_d in *.
  assert (r_ack_limit r <=? p_ack_counter (d_p s) + 1 = true) as Hle by (apply Z.leb_le; lia).
  assert (p_disp (d_p s) =? DISP_CANCELED = false) as Hdc by (apply Z.eqb_neq; exact Hdisp).
  rewrite dsm_none by assumption. unfold catch_abandoned at 1, catch. rewrite nif_waiting_fin_ack by assumption.
  remember (non_idle_fsm 2 None) as ag eqn:Hag.
  ddst s. cbn in Hst, Hstep, Hq, Hrd, Hr, Ht, Htid, Hm, Hto, Hlim, Hdisp, Hfh, Hle, Hdc. subst st step q ready rc ackt tid.
  unfold handle_waiting_for_finished_ack, handle_positive_ack_procedures. msimp.
  rewrite Hto. msimp. rewrite Hle. msimp. rewrite Hdc. msimp.
  unfold declare_fault. msimp. rewrite Hfh. msimp.
  eexists. split; [reflexivity|]. cbn. repeat split; reflexivity.
Qed.
