(* IsolationProofs.v — proofs for property C11 (props/C11.v): an idle handler carries no trace of
   earlier transactions in its per-transaction parameter block.

   Method: forward reasoning with one post-condition combinator [post Q E (m s)]
   ("if m returns a, Q a holds of the final state; if it raises, E holds of the final state").
   Functions that never change the handler state (d_state / s_state) are dealt with wholesale
   through the predicate MInv of GuardProofs (delta = the handler state); the functions that can
   reset the handler in the middle of a call (fault handler ABANDON, completion) get one
   specification each:
     NI s  (handler not idle)                       -> afterwards J
     J  s  (idle => fresh parameters, step IDLE/TC) -> afterwards J      ("safe" functions)
   and J on every exceptional exit (an abandoning declare_fault raises E_ABANDONED in the reset state;
   the exception travels to the nearest catch_abandoned, which returns normally in that state, so the
   exceptional post-condition has to be as strong as the normal one).  [postx] is [post] with an
   exceptional post-condition that sees the exception code: needed at the one [catch] of the receiver
   whose body can abandon (handle_fd_pdu), to know that the filestore handler does not run then. *)
From CFDP Require Import Base LostSeg Fs Crc Checksum Handler Dest Source HandlerSpec.
From CFDP.gen Require Import Tables.
From CFDP.proofs Require Import GuardProofs.
From RecordUpdate Require Import RecordSet.
Import RecordSetNotations.

Local Opaque calculate_checksum.
Arguments Z.add : simpl never.
Arguments Z.sub : simpl never.
Arguments Z.mul : simpl never.
Arguments Z.div : simpl never.
Arguments Z.max : simpl never.
Arguments Z.min : simpl never.
Arguments Z.pow : simpl never.
Arguments Z.ltb : simpl never.
Arguments Z.leb : simpl never.
Arguments Z.eqb : simpl never.

(* ------------------------------------------------------------------ generic part *)
(* [postx]: the exceptional post-condition may depend on the exception (needed where a [catch] selects by code) *)
Definition postx {S A} (Q : A -> S -> Prop) (E : Z -> S -> Prop) (x : S * res Z A) : Prop :=
  match x with (s', Ok a) => Q a s' | (s', Err e) => E e s' end.
Definition post {S A} (Q : A -> S -> Prop) (E : S -> Prop) (x : S * res Z A) : Prop := postx Q (fun _ => E) x.

Lemma postx_bind {S A B} (m : M S A) (k : A -> M S B) s (Q1 : A -> S -> Prop) (E1 : Z -> S -> Prop) (Q : B -> S -> Prop) (E : Z -> S -> Prop) :
  postx Q1 E1 (m s) -> (forall e s', E1 e s' -> E e s') -> (forall a s', Q1 a s' -> postx Q E (k a s')) ->
  postx Q E (bind m k s).
Proof.
  unfold bind, postx. destruct (m s) as [s1 [a|e]]; intros H1 HE Hk.
  - apply Hk. exact H1.
  - apply HE. exact H1.
Qed.

Lemma postx_post {S A} (Q1 Q : A -> S -> Prop) (E1 : Z -> S -> Prop) (E : S -> Prop) x :
  postx Q1 E1 x -> (forall a s', Q1 a s' -> Q a s') -> (forall e s', E1 e s' -> E s') -> post Q E x.
Proof. unfold post, postx. destruct x as [s1 [a|e]]; intros H HQ HE; [apply HQ | apply (HE e)]; exact H. Qed.

Lemma postx_catch {S A} (m : M S A) (h : Z -> option (M S A)) s (E1 : Z -> S -> Prop) (Q : A -> S -> Prop) (E : Z -> S -> Prop) :
  postx Q E1 (m s) -> (forall e k s', h e = Some k -> E1 e s' -> postx Q E (k s')) ->
  (forall e s', h e = None -> E1 e s' -> E e s') ->
  postx Q E (catch m h s).
Proof.
  unfold catch, postx. destruct (m s) as [s1 [a|e]]; intros H1 Hh HE; [exact H1|].
  destruct (h e) as [k|] eqn:Hk; [exact (Hh e k s1 Hk H1) | exact (HE e s1 Hk H1)].
Qed.

Lemma post_bind {S A B} (m : M S A) (k : A -> M S B) s (Q1 : A -> S -> Prop) (E1 : S -> Prop) (Q : B -> S -> Prop) (E : S -> Prop) :
  post Q1 E1 (m s) -> (forall s', E1 s' -> E s') -> (forall a s', Q1 a s' -> post Q E (k a s')) ->
  post Q E (bind m k s).
Proof.
  unfold bind, post, postx. destruct (m s) as [s1 [a|e]]; intros H1 HE Hk.
  - apply Hk. exact H1.
  - apply HE. exact H1.
Qed.

Lemma post_weaken {S A} (Q1 Q : A -> S -> Prop) (E1 E : S -> Prop) x :
  post Q1 E1 x -> (forall a s', Q1 a s' -> Q a s') -> (forall s', E1 s' -> E s') -> post Q E x.
Proof. unfold post, postx. destruct x as [s1 [a|e]]; intros H HQ HE; [apply HQ | apply HE]; exact H. Qed.

Lemma post_fst {S A} (P : S -> Prop) (x : S * res Z A) : post (fun _ => P) P x -> P (fst x).
Proof. unfold post, postx. destruct x as [s1 [a|e]]; intro H; exact H. Qed.

Lemma post_catch {S A} (m : M S A) (h : Z -> option (M S A)) s (E1 : S -> Prop) (Q : A -> S -> Prop) (E : S -> Prop) :
  post Q E1 (m s) -> (forall e k s', h e = Some k -> E1 s' -> post Q E (k s')) -> (forall s', E1 s' -> E s') ->
  post Q E (catch m h s).
Proof.
  unfold catch, post, postx. destruct (m s) as [s1 [a|e]]; intros H1 Hh HE; [exact H1|].
  destruct (h e) as [k|] eqn:Hk; [exact (Hh e k s1 Hk H1) | exact (HE s1 H1)].
Qed.

Lemma bind_assoc {S A B C} (m : M S A) (f : A -> M S B) (g : B -> M S C) s :
  bind (bind m f) g s = bind m (fun a => bind (f a) g) s.
Proof. unfold bind. destruct (m s) as [s1 [a|e]]; reflexivity. Qed.
Lemma b_ret {S A B} (a : A) (k : A -> M S B) s : bind (ret a) k s = k a s.
Proof. reflexivity. Qed.
Lemma b_raise {S A B} e (k : A -> M S B) s : bind (raise e) k s = (s, Err e).
Proof. reflexivity. Qed.
Lemma b_gets {S A B} (f : S -> A) (k : A -> M S B) s : bind (gets f) k s = k (f s) s.
Proof. reflexivity. Qed.
Lemma b_get {S B} (k : S -> M S B) s : bind get k s = k s s.
Proof. reflexivity. Qed.
Lemma b_modify {S B} (f : S -> S) (k : unit -> M S B) s : bind (modify f) k s = k tt (f s).
Proof. reflexivity. Qed.
Lemma b_put {S B} (x : S) (k : unit -> M S B) s : bind (put x) k s = k tt x.
Proof. reflexivity. Qed.
Lemma when_true {S} (m : M S unit) : when true m = m.
Proof. reflexivity. Qed.
Lemma when_false {S} (m : M S unit) : when false m = ret tt.
Proof. reflexivity. Qed.

(* ================================================================== destination handler *)
Definition dest_idle_fresh (s : dst) : Prop := d_state s = ST_IDLE -> d_p s = fresh_params.

Definition NI (s : dst) : Prop := (d_state s =? ST_IDLE) = false.
Definition J0 (s : dst) : Prop := d_state s = ST_IDLE -> d_p s = fresh_params.
Definition J (s : dst) : Prop :=
  d_state s = ST_IDLE -> d_p s = fresh_params /\ (d_step s = DS_IDLE \/ d_step s = DS_TRANSFER_COMPLETION).
Definition Idle (s : dst) : Prop := d_state s = ST_IDLE /\ d_p s = fresh_params /\ d_step s = DS_IDLE.

Lemma NI_J : forall s, NI s -> J s.
Proof. unfold NI, J. intros s H H1. rewrite H1 in H. discriminate H. Qed.
Lemma J_J0 : forall s, J s -> J0 s.
Proof. unfold J, J0. intros s H H1. apply H, H1. Qed.
Lemma NI_J0 : forall s, NI s -> J0 s.
Proof. intros. apply J_J0, NI_J. assumption. Qed.
Lemma Idle_J : forall s, Idle s -> J s.
Proof. unfold Idle, J. intros s [_ [H1 H2]] _. split; [exact H1 | left; exact H2]. Qed.
Lemma J0_NI : forall s, J0 s -> d_p s <> fresh_params -> NI s.
Proof.
  unfold J0, NI. intros s H Hn. destruct (d_state s =? ST_IDLE) eqn:E; [|reflexivity].
  apply Z.eqb_eq in E. contradiction (Hn (H E)).
Qed.
Lemma NI_or_idle : forall s, NI s \/ d_state s = ST_IDLE.
Proof. intro s. unfold NI. destruct (d_state s =? ST_IDLE) eqn:E; [right; apply Z.eqb_eq; exact E | left; reflexivity]. Qed.
#[local] Hint Resolve NI_J J_J0 NI_J0 Idle_J : iso.

(* primitive steps *)
Lemma b_gp {A B} (f : dparams -> A) (k : A -> D B) s : bind (gp f) k s = k (f (d_p s)) s.
Proof. reflexivity. Qed.
Lemma b_setp {B} f (k : unit -> D B) s : bind (setp f) k s = k tt (s <| d_p ::= f |>).
Proof. reflexivity. Qed.
Lemma b_set_step {B} v (k : unit -> D B) s : bind (set_step v) k s = k tt (s <| d_step := v |>).
Proof. reflexivity. Qed.
Lemma b_emit {B} e (k : unit -> D B) s :
  bind (emit e) k s = k tt (s <| d_env ::= (fun en => en <| e_log ::= cons e |>) |>).
Proof. reflexivity. Qed.
Lemma b_now {B} (k : Z -> D B) s : bind now k s = k (e_now (d_env s)) s.
Proof. reflexivity. Qed.
Lemma b_get_step {B} (k : Z -> D B) s : bind get_step k s = k (d_step s) s.
Proof. reflexivity. Qed.
Lemma b_step_is {B} v (k : bool -> D B) s : bind (step_is v) k s = k (d_step s =? v) s.
Proof. reflexivity. Qed.
Lemma b_conf {B} (k : hdr -> D B) s : bind conf k s = k (p_conf (d_p s)) s.
Proof. reflexivity. Qed.
Lemma b_tmode {B} (k : option Z -> D B) s :
  bind tmode k s = k (if d_state s =? ST_IDLE then None else Some (h_mode (p_conf (d_p s)))) s.
Proof. reflexivity. Qed.
Lemma b_mode_is {B} m (k : bool -> D B) s :
  bind (mode_is m) k s = k (if d_state s =? ST_IDLE then false else (h_mode (p_conf (d_p s)) =? m)) s.
Proof. unfold mode_is. rewrite bind_assoc, b_tmode. destruct (d_state s =? ST_IDLE); reflexivity. Qed.
Lemma b_reset_internal {B} (k : unit -> D B) s :
  bind reset_internal k s = k tt (s <| d_p := fresh_params |> <| d_state := ST_IDLE |> <| d_step := DS_IDLE |>).
Proof. reflexivity. Qed.

Ltac mrun :=
  repeat first
    [ rewrite bind_assoc | rewrite b_ret | rewrite b_raise | rewrite b_gets | rewrite b_get | rewrite b_gp
    | rewrite b_setp | rewrite b_set_step | rewrite b_emit | rewrite b_now | rewrite b_get_step
    | rewrite b_step_is | rewrite b_conf | rewrite b_mode_is | rewrite b_tmode | rewrite b_reset_internal
    | rewrite b_modify | rewrite b_put | rewrite when_true | rewrite when_false ];
  cbv beta.

(* finish a straight-line tail made of primitives *)
Ltac mfin :=
  unfold setp, set_step, emit, reset_internal, add_packet, gp, now, get_step, modify, gets, get, put, ret, raise, post, postx;
  cbn.

Ltac ni := first [ assumption | unfold NI in *; cbn; first [assumption | reflexivity] ].

(* functions that do not change d_state *)
Notation DF m := (MInv d_state Any m).

Lemma frame_bind {A B} (m : D A) (k : A -> D B) s (Q : B -> dst -> Prop) (E : dst -> Prop) :
  DF m -> NI s -> (forall s', NI s' -> E s') -> (forall a s', NI s' -> post Q E (k a s')) -> post Q E (bind m k s).
Proof.
  intros Hm Hs HE Hk. pose proof (minv_state _ _ _ s Hm) as X. unfold bind, post, postx.
  destruct (m s) as [s1 [a|e]]; cbn [fst] in X.
  - apply Hk. unfold NI in *. rewrite X. exact Hs.
  - apply HE. unfold NI in *. rewrite X. exact Hs.
Qed.

Lemma frame_bindx {A B} (m : D A) (k : A -> D B) s (Q : B -> dst -> Prop) (E : Z -> dst -> Prop) :
  DF m -> NI s -> (forall e s', NI s' -> E e s') -> (forall a s', NI s' -> postx Q E (k a s')) -> postx Q E (bind m k s).
Proof.
  intros Hm Hs HE Hk. pose proof (minv_state _ _ _ s Hm) as X. unfold bind, postx.
  destruct (m s) as [s1 [a|e]]; cbn [fst] in X.
  - apply Hk. unfold NI in *. rewrite X. exact Hs.
  - apply HE. unfold NI in *. rewrite X. exact Hs.
Qed.

Lemma frame_last {A} (m : D A) s : DF m -> NI s -> post (fun _ => NI) NI (m s).
Proof.
  intros Hm Hs. pose proof (minv_state _ _ _ s Hm) as X. unfold post, postx.
  destruct (m s) as [s1 [a|e]]; cbn [fst] in X; unfold NI in *; rewrite X; exact Hs.
Qed.

Lemma df_notice_of_cancellation : forall c, DF (notice_of_cancellation c).
Proof. intro. minv. Qed.
Lemma df_tid_or_assert : DF tid_or_assert. Proof. minv. Qed.
Lemma df_rcfg_or_assert : DF rcfg_or_assert. Proof. minv. Qed.
Lemma df_mode_is : forall m, DF (mode_is m). Proof. intro. minv. Qed.
Lemma df_add_packet : forall p, DF (add_packet p). Proof. intro. minv. Qed.
#[local] Hint Resolve df_notice_of_cancellation df_tid_or_assert df_rcfg_or_assert df_mode_is df_add_packet : minv.
Lemma df_vfs_checksum : forall ty n sz, DF (vfs_checksum ty n sz). Proof. intros. minv. Qed.
Lemma df_prepare_eof_ack_packet : DF prepare_eof_ack_packet. Proof. minv. Qed.
#[local] Hint Resolve df_vfs_checksum df_prepare_eof_ack_packet : minv.
Lemma df_file_transfer_complete_transition : DF file_transfer_complete_transition. Proof. minv. Qed.
Lemma df_start_check_limit_handling : DF start_check_limit_handling. Proof. minv. Qed.
Lemma df_tracker_add : forall sg, DF (tracker_add sg). Proof. intro. minv. Qed.
#[local] Hint Resolve df_file_transfer_complete_transition df_start_check_limit_handling df_tracker_add : minv.
Lemma df_lost_segment_handling : forall o l, DF (lost_segment_handling o l). Proof. intros. minv. Qed.
Lemma df_vfs_write : forall n d o, DF (vfs_write n d o). Proof. intros. minv. Qed.
Lemma df_reset_nak_activity_parameters : DF reset_nak_activity_parameters. Proof. minv. Qed.
Lemma df_vfs_op_tree : forall f, DF (vfs_op_tree f). Proof. intro. minv. Qed.
#[local] Hint Resolve df_lost_segment_handling df_vfs_write df_reset_nak_activity_parameters df_vfs_op_tree : minv.
(* (F32 repair) only the EOF (no error) keeps the handler state; an EOF (cancel) is an ordinary EOF (cancel), see
   handle_eof_without_previous_metadata_spec below *)
Lemma df_handle_eof_without_previous_metadata : forall c ck sz,
  (c =? C_NO_ERROR) = true -> DF (handle_eof_without_previous_metadata c ck sz).
Proof. intros c ck sz Hc. unfold handle_eof_without_previous_metadata. rewrite Hc. cbn [negb]. minv. Qed.
Lemma df_handle_fd_without_previous_metadata : forall f o d, DF (handle_fd_without_previous_metadata f o d).
Proof. intros. minv. Qed.
Lemma df_notice_of_completion : DF notice_of_completion. Proof. minv. Qed.
Lemma df_prepare_finished_pdu : DF prepare_finished_pdu. Proof. minv. Qed.
Lemma df_start_positive_ack_procedure : DF start_positive_ack_procedure. Proof. minv. Qed.
#[local] Hint Resolve df_handle_fd_without_previous_metadata
  df_notice_of_completion df_prepare_finished_pdu df_start_positive_ack_procedure : minv.

Ltac fstep :=
  first [eapply frame_bind | eapply frame_bindx];
  [solve [minv] | ni | intros; first [assumption | auto with iso] | intros ? ? ?].
Ltac jdone :=
  first [ assumption | apply NI_J; ni | apply NI_J0; ni | apply Idle_J; assumption
        | apply J_J0; assumption | apply J_J0; apply Idle_J; assumption ].
Ltac flast := eapply post_weaken; [apply frame_last; [solve [minv] | ni] | intros; jdone | intros; jdone].
(* exceptional exits described by a disjunction (not idle / abandoned) *)
Ltac jx := let s0 := fresh "s" in let Hx := fresh "Hx" in intros s0 Hx; cbv beta in Hx; destruct Hx as [Hx|Hx]; jdone.
(* forget the shape of the current state, keeping only that the handler is not idle *)
Tactic Notation "nigen" ident(x) :=
  match goal with
  | |- post _ _ (_ ?st) =>
      let Hn := fresh "Hn" in assert (Hn : NI st) by ni; revert Hn; generalize st; intros x Hn
  | |- postx _ _ (_ ?st) =>
      let Hn := fresh "Hn" in assert (Hn : NI st) by ni; revert Hn; generalize st; intros x Hn
  end.

(* ------------------------------------------------------------------ fault declaration *)
(* with the handler ABANDON the call is unwound: E_ABANDONED is raised in the reset (idle, fresh) state;
   every other outcome leaves the handler state as it was *)
Lemma declare_fault_spec : forall c s,
  postx (fun fh s' => d_state s' = d_state s /\ p_tid (d_p s) <> None /\ fh <> FH_ABANDON)
        (fun e s' => (e = E_ABANDONED /\ Idle s') \/ (e <> E_ABANDONED /\ s' = s)) (declare_fault c s).
Proof.
  intros c s. unfold declare_fault. mrun.
  destruct (p_tid (d_p s)) as [[a b]|] eqn:Ht; [|right; split; [compute; discriminate | reflexivity]].
  destruct (get_fault_handler (l_faults (d_cfg s)) c) as [fh|]; [|right; split; [compute; discriminate | reflexivity]].
  destruct (fh =? FH_CANCEL) eqn:E1.
  - unfold notice_of_cancellation. mrun. destruct (fh =? FH_ABANDON) eqn:E2.
    + apply Z.eqb_eq in E1, E2. rewrite E1 in E2. compute in E2. discriminate E2.
    + mfin. apply Z.eqb_neq in E2. split; [reflexivity | split; [discriminate | exact E2]].
  - destruct (fh =? FH_ABANDON) eqn:E2.
    + mrun. mfin. left. split; [reflexivity|]. repeat split; reflexivity.
    + mrun. mfin. apply Z.eqb_neq in E2. split; [reflexivity | split; [discriminate | exact E2]].
Qed.

(* from a state satisfying J0: either nothing happened to the handler state (and it was not idle), or it was abandoned *)
Lemma declare_fault_J : forall c s, J0 s ->
  postx (fun fh s' => NI s' /\ NI s)
        (fun e s' => (e = E_ABANDONED /\ Idle s') \/ (e <> E_ABANDONED /\ s' = s)) (declare_fault c s).
Proof.
  intros c s HJ. pose proof (declare_fault_spec c s) as X. unfold postx in *.
  destruct (declare_fault c s) as [s' [fh|e]]; [|exact X].
  destruct X as [H1 [H2 _]].
  assert (NI s) as Hn.
  { apply J0_NI; [exact HJ|]. intro X. rewrite X in H2. apply H2. reflexivity. }
  split; [|exact Hn]. unfold NI in *. rewrite H1. exact Hn.
Qed.

(* the same without the exception code *)
Lemma declare_fault_Jp : forall c s, J0 s ->
  post (fun fh s' => NI s' /\ NI s) (fun s' => Idle s' \/ s' = s) (declare_fault c s).
Proof.
  intros c s HJ. eapply postx_post; [apply (declare_fault_J c s HJ) | auto |].
  intros e s' [[_ H]|[_ H]]; [left | right]; exact H.
Qed.

Lemma declare_fault_safe : forall c s, J s -> post (fun _ => J) J (declare_fault c s).
Proof.
  intros c s HJ. eapply post_weaken; [apply (declare_fault_Jp c s); auto with iso | | ].
  - intros fh s' [H _]. auto with iso.
  - intros s' [H| ->]; auto with iso.
Qed.

(* ------------------------------------------------------------------ functions that may abandon *)
Lemma checksum_verify_spec : forall s, NI s ->
  post (fun ok s' => NI s') (fun s' => NI s' \/ Idle s') (checksum_verify s).
Proof.
  intros s H. unfold checksum_verify. mrun.
  destruct ((p_cktype (d_p s) =? CK_NULL) || p_md_only (d_p s)).
  - mrun. mfin. ni.
  - mrun. fstep. destruct (bytes_eqb a (p_crc32 (d_p s)) && _).
    + mrun. mfin. ni.
    + mrun. eapply post_bind; [apply declare_fault_Jp; auto with iso | intros s2 [Hi| ->]; [right; exact Hi | left; ni] |].
      intros fh s2 [Hn _]; mrun; mfin; ni.
Qed.

Lemma filestore_rejection_spec : forall s, NI s -> post (fun _ => J) (fun s' => NI s' \/ Idle s') (filestore_rejection s).
Proof.
  intros s H. unfold filestore_rejection. mrun.
  destruct (negb (f_fstatus (p_fin (d_p s)) =? FS_RETAINED)); mrun.
  - eapply post_bind; [apply declare_fault_Jp; apply NI_J0; ni | intros s' [Hi| ->]; [right; exact Hi | left; ni] |].
    intros fh s2 [Hn _]; mfin; auto with iso.
  - mfin. auto with iso.
Qed.

Lemma handle_fd_pdu_spec : forall o d s, NI s -> post (fun _ => J) J (handle_fd_pdu o d s).
Proof.
  intros o d s H. unfold handle_fd_pdu. mrun. fstep.
  apply postx_catch with (E1 := fun e s' => NI s' \/ (e = E_ABANDONED /\ Idle s')).
  - fstep. fstep. mrun. fstep. mrun. nigen s3.
    destruct (p_file_size_eof (d_p s3)) as [sz|]; [destruct (sz <? o + zlen d)|]; mrun.
    + eapply postx_bind; [apply declare_fault_J; jdone | |].
      * intros e s2 [[He Hi]|[_ ->]]; [right; split; assumption | left; ni].
      * intros fh s2 [Hn2 _]; mrun. destruct (negb (fh =? FH_IGNORE)); mfin; jdone.
    + mfin. jdone.
    + mfin. jdone.
  - (* the filestore handler never sees the abandon exception *)
    intros e k s1 Hh HE. destruct ((e =? E_FILE_NOT_FOUND) || (e =? E_PERMISSION)) eqn:Ee; [|discriminate Hh].
    inversion Hh; subst k.
    assert (NI s1) as Hn.
    { destruct HE as [Hn|[He _]]; [exact Hn|]. subst e. vm_compute in Ee. discriminate Ee. }
    eapply post_weaken; [apply filestore_rejection_spec; ni | intros; jdone | jx].
  - intros e s2 _ [Hn|[_ Hi]]; jdone.
Qed.

Lemma ftct_safe : forall s, J s -> post (fun _ => J) J (file_transfer_complete_transition s).
Proof.
  intros s HJ. destruct (NI_or_idle s) as [Hn|Hi]; [flast|].
  unfold file_transfer_complete_transition. mrun. rewrite Hi. change (ST_IDLE =? ST_IDLE) with true.
  mfin. exact HJ.
Qed.

Lemma J_tc_deferred : forall s, Idle s ->
  J (s <| d_step := DS_TRANSFER_COMPLETION |> <| d_p ::= (fun p => p <| p_deferred := false |>) |>).
Proof.
  intros s [H1 [H2 H3]]. unfold J. cbn. intros _. rewrite H2. split; [reflexivity | right; reflexivity].
Qed.

Lemma deferred_safe : forall s, J s -> post (fun _ => J) J (deferred_lost_segment_handling s).
Proof.
  intros s HJ. unfold deferred_lost_segment_handling. mrun.
  destruct (p_deferred (d_p s)) eqn:Hd; cbn [negb]; [|mfin; exact HJ].
  assert (NI s) as Hn by (apply J0_NI; [jdone | intro X; rewrite X in Hd; discriminate Hd]).
  mrun. destruct (p_disp (d_p s) =? DISP_CANCELED); [mfin; exact HJ|].
  fstep. mrun. destruct (p_file_size_eof (d_p s')) as [eos|]; [|mfin; jdone].
  mrun. destruct ((zlen (p_tracker (d_p s')) =? 0) && negb (p_md_missing (d_p s'))).
  - eapply post_bind; [apply checksum_verify_spec; ni | jx |].
    intros ok s2 Hn2; mrun; mfin; jdone.
  - fstep. fstep. fstep. destruct a2 as [first|]; [|mfin; jdone]. mrun.
    destruct (negb first && (p_nak_counter (d_p s'2) + 1 =? r_nak_limit a)).
    + (* F22 repair: with the handler IGNORE the call continues into the re-issue branch *)
      mrun. eapply post_bind; [apply declare_fault_Jp; jdone | intros s3 [Hi| ->]; jdone |].
      intros fh s3 [Hn3 _]. mrun. destruct (negb (fh =? FH_IGNORE)); [mfin; jdone | flast].
    + mrun. flast.
Qed.

Lemma start_deferred_spec : forall s, NI s -> post (fun _ => J) J (start_deferred_lost_segment_handling s).
Proof.
  intros s H. unfold start_deferred_lost_segment_handling. mrun. apply deferred_safe. jdone.
Qed.

Lemma handle_no_error_eof_spec : forall s, NI s -> post (fun _ => J) J (handle_no_error_eof s).
Proof.
  intros s H. unfold handle_no_error_eof, tracker_add. mrun.
  eapply post_bind with (Q1 := fun early s' => NI s') (E1 := fun s' => NI s' \/ Idle s').
  - destruct (opt_z (p_file_size_eof (d_p s)) <? p_progress (d_p s)); [|destruct (_ && _)]; mrun.
    + eapply post_bind; [apply declare_fault_Jp; jdone | intros s2 [Hi| ->]; [right; exact Hi | left; ni] |].
      intros fh s2 [Hn _]; mfin; ni.
    + mfin. ni.
    + mfin. ni.
  - jx.
  - intros early s1 Hn.
    destruct early; [mfin; jdone|].
    destruct (if d_state s =? ST_IDLE then false else h_mode (p_conf (d_p s)) =? UNACKED); [|mfin; jdone].
    eapply post_bind; [apply checksum_verify_spec; ni | jx |].
    intros ok s2 Hn2. destruct ok; [mfin; jdone|]. mrun.
    destruct (get_fault_handler (l_faults (d_cfg s2)) C_CHECKSUM_FAILURE) as [fh|]; [|mfin; jdone].
    destruct (fh =? FH_IGNORE); [flast | mfin; jdone].
Qed.

Lemma handle_eof_pdu_spec : forall c ck sz s, NI s -> post (fun _ => J) J (handle_eof_pdu c ck sz s).
Proof.
  intros c ck sz s H. unfold handle_eof_pdu. mrun. nigen s1. fstep.
  destruct (c =? C_NO_ERROR).
  - eapply post_bind; [apply handle_no_error_eof_spec; ni | intros; jdone |].
    intros regular s2 HJ. destruct regular; [apply ftct_safe; exact HJ | mfin; exact HJ].
  - flast.
Qed.

Lemma handle_eof_without_previous_metadata_spec : forall c ck sz s, NI s ->
  post (fun _ => J) J (handle_eof_without_previous_metadata c ck sz s).
Proof.
  intros c ck sz s H. destruct (c =? C_NO_ERROR) eqn:Hc.
  - eapply post_weaken; [apply frame_last; [apply df_handle_eof_without_previous_metadata; exact Hc | exact H]
                        | intros; jdone | intros; jdone].
  - unfold handle_eof_without_previous_metadata. rewrite Hc. cbn [negb]. apply handle_eof_pdu_spec. exact H.
Qed.

Lemma init_vfs_handling_spec : forall b s, NI s -> post (fun _ => J) J (init_vfs_handling b s).
Proof.
  intros b s H. unfold init_vfs_handling. apply post_catch with (E1 := NI).
  - flast.
  - intros e k s1 Hh Hn. destruct (e =? E_PERMISSION); [|discriminate Hh].
    inversion Hh; subst k. mrun. nigen s2.
    eapply post_bind; [apply declare_fault_safe; jdone | intros; assumption | intros; mfin; assumption].
  - intros; jdone.
Qed.

Lemma handle_metadata_packet_spec : forall h cl ck sz names msgs s, NI s ->
  post (fun _ => J) J (handle_metadata_packet h cl ck sz names msgs s).
Proof.
  intros h cl ck sz names msgs s H. unfold handle_metadata_packet. mrun. nigen s1. fstep. mrun. nigen s2.
  destruct (p_rcfg (d_p s2)); [|mfin; jdone]. mrun.
  destruct (negb (p_md_only (d_p s2))); mrun.
  - nigen s3. eapply post_bind; [apply init_vfs_handling_spec; ni | intros; assumption |].
    intros u s4 HJ. mrun.
    destruct (match p_tid (d_p s4) with Some x => x | None => (-1, -1) end) as [ta tb]. mfin. exact HJ.
  - nigen s3. flast.
Qed.

Lemma fsm_advancement_spec : forall s, NI s -> post (fun _ => J) J (fsm_advancement s).
Proof.
  intros s H. unfold fsm_advancement. mrun.
  destruct (0 <? zlen (d_queue s)); [mfin; jdone|].
  destruct (d_step s =? DS_SENDING_EOF_ACK); [|mfin; jdone].
  destruct (negb (p_disp (d_p s) =? DISP_CANCELED) && _).
  - apply start_deferred_spec. exact H.
  - destruct (negb (p_disp (d_p s) =? DISP_CANCELED)); mrun.
    + eapply post_bind; [apply checksum_verify_spec; ni | jx |].
      intros ok s2 Hn2; mrun; mfin; jdone.
    + mfin. jdone.
Qed.

Lemma check_limit_handling_spec : forall s, NI s -> post (fun _ => J) J (check_limit_handling s).
Proof.
  intros s H. unfold check_limit_handling. mrun.
  destruct (p_check_timer (d_p s)) as [tm|]; [|mfin; jdone].
  fstep. mrun. destruct (timed_out (e_now (d_env s')) tm); [|mfin; jdone].
  eapply post_bind; [apply checksum_verify_spec; ni | jx |].
  intros ok s2 Hn2.
  destruct ok; [apply ftct_safe; jdone|]. mrun.
  destruct (p_rcfg (d_p s2)) as [r'|] eqn:Hr; [|mfin; jdone].
  destruct (r_check_limit r' <=? p_check_count (d_p s2) + 1).
  - (* F34 repair: with the handler IGNORE the call continues into the counting branch *)
    mrun. eapply post_bind; [apply declare_fault_Jp; jdone | intros s3 [Hi| ->]; jdone |].
    intros fh s3 [Hn3 _]. mrun. destruct (fh =? FH_IGNORE); [flast | mfin; jdone].
  - flast.
Qed.

Lemma handle_waiting_for_missing_metadata_spec : forall pkt s, NI s ->
  post (fun _ => J) J (handle_waiting_for_missing_metadata pkt s).
Proof.
  intros pkt s H. unfold handle_waiting_for_missing_metadata.
  destruct pkt as [[ | | | | | | | ]|]; try flast.
  - eapply post_bind; [apply handle_metadata_packet_spec; exact H | intros; assumption |].
    intros u s2 HJ. mrun. destruct (p_deferred (d_p s2)) eqn:Hd; [|mfin; exact HJ].
    assert (NI s2) as Hn2 by (apply J0_NI; [jdone | intro X; rewrite X in Hd; discriminate Hd]).
    flast.
  - (* an EOF (cancel) may end the transaction (F32 repair) *)
    eapply post_bind; [apply handle_eof_without_previous_metadata_spec; exact H | intros; assumption |].
    intros u s2 HJ. mrun. destruct (p_deferred (d_p s2)) eqn:Hd; [|mfin; exact HJ].
    assert (NI s2) as Hn2 by (apply J0_NI; [jdone | intro X; rewrite X in Hd; discriminate Hd]).
    flast.
Qed.

Lemma J_reset : forall s, J (s <| d_p := fresh_params |> <| d_state := ST_IDLE |> <| d_step := DS_IDLE |>).
Proof. intro s. unfold J. cbn. intros _. split; [reflexivity | left; reflexivity]. Qed.

Ltac jreset := first [ apply J_reset | unfold J; cbn; intros _; split; [reflexivity | left; reflexivity] ].

Lemma noc_idle : forall s, d_state s = ST_IDLE -> d_p s = fresh_params ->
  post (fun _ s' => d_state s' = ST_IDLE /\ d_p s' = fresh_params /\ d_step s' = d_step s)
       (fun s' => d_state s' = ST_IDLE /\ d_p s' = fresh_params /\ d_step s' = d_step s) (notice_of_completion s).
Proof.
  intros s Hi Hp. unfold notice_of_completion. mrun. rewrite Hp.
  change (p_disp fresh_params =? DISP_CANCELED) with false. mrun.
  destruct (l_ind_fin (d_cfg s)); [|mfin; auto]. mrun. rewrite Hp. cbn. mfin. auto.
Qed.

Lemma handle_transfer_completion_safe : forall s, J s -> post (fun _ => J) J (handle_transfer_completion s).
Proof.
  intros s HJ. unfold handle_transfer_completion.
  destruct (NI_or_idle s) as [Hn|Hi].
  - fstep. mrun. destruct (_ || _); mfin; [jdone | apply J_reset].
  - destruct (HJ Hi) as [Hp Hs].
    eapply post_bind; [apply noc_idle; assumption | |].
    + intros s1 [H1 [H2 H3]] _. split; [exact H2 | rewrite H3; exact Hs].
    + intros u s1 [H1 [H2 H3]]. mrun. rewrite H1. change (ST_IDLE =? ST_IDLE) with true. cbn [andb orb].
      mfin. apply J_reset.
Qed.

Lemma handle_finished_pdu_sent_spec : forall s, NI s -> post (fun _ => J) J (handle_finished_pdu_sent s).
Proof.
  intros s H. unfold handle_finished_pdu_sent. mrun.
  destruct ((d_state s =? ST_BUSY) && _); [flast | mfin; apply J_reset].
Qed.

Lemma handle_positive_ack_procedures_spec : forall again s,
  (forall s0, NI s0 -> post (fun _ => J) J (again s0)) -> NI s ->
  post (fun _ => J) J (handle_positive_ack_procedures again s).
Proof.
  intros again s Hag H. unfold handle_positive_ack_procedures. mrun.
  destruct (p_ack_timer (d_p s)) as [tm|]; [|mfin; jdone].
  fstep. mrun. destruct (negb (timed_out (e_now (d_env s')) tm)); [mfin; jdone|].
  mrun. eapply post_bind with (Q1 := fun _ s1 => J s1) (E1 := J).
  - destruct (r_ack_limit a <=? p_ack_counter (d_p s') + 1); [|mfin; jdone]. mrun.
    destruct (p_disp (d_p s') =? DISP_CANCELED).
    + mrun. destruct (p_tid (d_p s')) as [[a1 b1]|]; [|mfin; jdone]. mrun. mfin. jreset.
    + eapply post_bind; [apply declare_fault_safe; jdone | intros; assumption |].
      intros fh s2 HJ2. mrun. destruct (p_disp (d_p s2) =? DISP_CANCELED) eqn:Hd; [|mfin; exact HJ2].
      assert (NI s2) as Hn2 by (apply J0_NI; [jdone | intro X; rewrite X in Hd; discriminate Hd]).
      eapply post_bind; [apply Hag; exact Hn2 | intros; assumption | intros; mfin; assumption].
  - intros; assumption.
  - intros stop s1 HJ1. destruct stop; [mfin; exact HJ1|]. mrun.
    destruct (p_ack_timer (d_p s1)) as [[t0 tmo]|] eqn:Ht; [|mfin; jdone].
    assert (NI s1) as Hn1 by (apply J0_NI; [jdone | intro X; rewrite X in Ht; discriminate Ht]).
    flast.
Qed.

Lemma handle_waiting_for_finished_ack_spec : forall again pkt s,
  (forall s0, NI s0 -> post (fun _ => J) J (again s0)) -> NI s ->
  post (fun _ => J) J (handle_waiting_for_finished_ack again pkt s).
Proof.
  intros again pkt s Hag H. unfold handle_waiting_for_finished_ack.
  destruct pkt as [[ | | | | | | | ]|]; try (apply handle_positive_ack_procedures_spec; assumption).
  - flast.
  - mfin. jreset.
Qed.

(* a state in which the step is neither IDLE nor TRANSFER_COMPLETION is not idle *)
Lemma J_step_NI : forall s v, J s -> (d_step s =? v) = true -> v <> DS_IDLE -> v <> DS_TRANSFER_COMPLETION -> NI s.
Proof.
  intros s v HJ Hv H1 H2. apply Z.eqb_eq in Hv. destruct (NI_or_idle s) as [Hn|Hi]; [exact Hn|].
  destruct (HJ Hi) as [_ [Hs|Hs]]; congruence.
Qed.

Lemma stage {B} V (m : D unit) (rest : D B) (Q : B -> dst -> Prop) s :
  J s -> V <> DS_IDLE -> V <> DS_TRANSFER_COMPLETION ->
  (forall s0, NI s0 -> post (fun _ => J) J (m s0)) -> (forall s', J s' -> post Q J (rest s')) ->
  post Q J (bind (step_is V) (fun b => bind (when b m) (fun _ => rest)) s).
Proof.
  intros HJ H1 H2 Hm Hr. rewrite b_step_is. destruct (d_step s =? V) eqn:E.
  - rewrite when_true. eapply post_bind; [apply Hm; eapply J_step_NI; eauto | intros; assumption |].
    intros u s' HJ'. apply Hr. exact HJ'.
  - rewrite when_false, b_ret. apply Hr. exact HJ.
Qed.

Lemma stage_last V (m : D unit) s :
  J s -> V <> DS_IDLE -> V <> DS_TRANSFER_COMPLETION ->
  (forall s0, NI s0 -> post (fun _ => J) J (m s0)) ->
  post (fun _ => J) J (bind (step_is V) (fun b => when b m) s).
Proof.
  intros HJ H1 H2 Hm. rewrite b_step_is. destruct (d_step s =? V) eqn:E.
  - rewrite when_true. apply Hm. eapply J_step_NI; eauto.
  - rewrite when_false. mfin. exact HJ.
Qed.

(* the body of __non_idle_fsm with the nested call abstracted *)
Definition nif_body (again : D unit) (pkt : option pdu) : D unit :=
  fsm_advancement ;;;
  st <- get_step ;;
  when (((st =? DS_RECEIVING_FILE_DATA) || (st =? DS_RECV_WITH_CHECK_LIMIT)))
    (match pkt with
     | Some (PFileData _ off data) => handle_fd_pdu off data
     | Some (PEof _ cond ck sz _) => handle_eof_pdu cond ck sz
     | _ => ret tt
     end) ;;;
  b <- step_is DS_WAITING_FOR_METADATA ;;
  when b (handle_waiting_for_missing_metadata pkt ;;; deferred_lost_segment_handling) ;;;
  b <- step_is DS_RECV_WITH_CHECK_LIMIT ;;
  when b check_limit_handling ;;;
  b <- step_is DS_WAITING_FOR_MISSING_DATA ;;
  when b
    ((match pkt with
      | Some (PEof _ cond ck sz _) =>
          if cond =? C_NO_ERROR then prepare_eof_ack_packet
          else (setp (fun p => p <| p_deferred := false |>) ;;; handle_eof_pdu cond ck sz)
      | _ => ret tt
      end) ;;;
     (match pkt with
      | Some (PFileData _ off data) =>
          handle_fd_pdu off data ;;;
          active <- gp p_deferred ;;
          when active reset_nak_activity_parameters
      | _ => ret tt
      end) ;;;
     deferred_lost_segment_handling) ;;;
  b <- step_is DS_TRANSFER_COMPLETION ;;
  when b handle_transfer_completion ;;;
  b <- step_is DS_SENDING_FINISHED ;;
  when b (n <- gets d_ready ;;
          if 0 <? n then ret tt else (prepare_finished_pdu ;;; handle_finished_pdu_sent)) ;;;
  b <- step_is DS_WAITING_FOR_FINISHED_ACK ;;
  when b (handle_waiting_for_finished_ack again pkt).

Lemma nif_body_spec : forall again pkt s,
  (forall s0, NI s0 -> post (fun _ => J) J (again s0)) -> NI s ->
  post (fun _ => J) J (nif_body again pkt s).
Proof.
  intros again pkt s Hag H. unfold nif_body.
  eapply post_bind; [apply fsm_advancement_spec; exact H | intros; assumption |].
  intros u s1 HJ1. mrun.
  eapply post_bind with (Q1 := fun _ s2 => J s2) (E1 := J).
  { destruct ((d_step s1 =? DS_RECEIVING_FILE_DATA) || (d_step s1 =? DS_RECV_WITH_CHECK_LIMIT)) eqn:E;
      [rewrite when_true | rewrite when_false; mfin; exact HJ1].
    assert (NI s1) as Hn1.
    { apply orb_true_iff in E. destruct E as [E|E]; eapply J_step_NI; eauto; discriminate. }
    destruct pkt as [[ | | | | | | | ]|]; try (mfin; exact HJ1).
    - apply handle_fd_pdu_spec. exact Hn1.
    - apply handle_eof_pdu_spec. exact Hn1. }
  { intros; assumption. }
  intros u2 s2 HJ2.
  apply stage; [exact HJ2 | discriminate | discriminate | |].
  { intros s0 Hn0. eapply post_bind; [apply handle_waiting_for_missing_metadata_spec; exact Hn0 | intros; assumption |].
    intros u3 s3 HJ3. apply deferred_safe. exact HJ3. }
  intros s3 HJ3.
  apply stage; [exact HJ3 | discriminate | discriminate | apply check_limit_handling_spec |].
  intros s4 HJ4.
  apply stage; [exact HJ4 | discriminate | discriminate | |].
  { intros s0 Hn0.
    destruct pkt as [[h off data| |h c ck sz fl| | | | | ]|]; try (rewrite !b_ret; apply deferred_safe; jdone).
    - rewrite b_ret.
      eapply post_bind with (Q1 := fun _ s5 => J s5) (E1 := J).
      + eapply post_bind; [apply handle_fd_pdu_spec; ni | intros; assumption |].
        intros u5 s5 HJ5. mrun. destruct (p_deferred (d_p s5)) eqn:Hd; [|mfin; exact HJ5].
        assert (NI s5) as Hn5 by (apply J0_NI; [jdone | intro X; rewrite X in Hd; discriminate Hd]).
        flast.
      + intros; assumption.
      + intros u5 s5 HJ5. apply deferred_safe. exact HJ5.
    - (* a re-sent EOF is acknowledged; an EOF (cancel) gets the Cancel Response Procedures (F33 repair) *)
      eapply post_bind with (Q1 := fun _ s5 => J s5) (E1 := J).
      + destruct (c =? C_NO_ERROR); [flast|].
        mrun. apply handle_eof_pdu_spec. ni.
      + intros; assumption.
      + intros u5 s5 HJ5. rewrite b_ret. apply deferred_safe. exact HJ5. }
  intros s5 HJ5.
  rewrite b_step_is.
  eapply post_bind with (Q1 := fun _ s6 => J s6) (E1 := J).
  { destruct (d_step s5 =? DS_TRANSFER_COMPLETION); [rewrite when_true | rewrite when_false; mfin; exact HJ5].
    apply handle_transfer_completion_safe. exact HJ5. }
  { intros; assumption. }
  intros u6 s6 HJ6.
  apply stage; [exact HJ6 | discriminate | discriminate | |].
  { intros s0 Hn0. mrun. destruct (0 <? d_ready s0); [mfin; jdone|].
    fstep. apply handle_finished_pdu_sent_spec. ni. }
  intros s7 HJ7.
  apply stage_last; [exact HJ7 | discriminate | discriminate |].
  intros s0 Hn0. apply handle_waiting_for_finished_ack_spec; assumption.
Qed.

Lemma non_idle_fsm_spec : forall fuel pkt s, NI s -> post (fun _ => J) J (non_idle_fsm fuel pkt s).
Proof.
  induction fuel as [|k IH]; intros pkt s H.
  - change (non_idle_fsm 0 pkt) with (nif_body (raise E_FUEL) pkt).
    apply nif_body_spec; [|exact H]. intros s0 Hn0. mfin. jdone.
  - change (non_idle_fsm (S k) pkt)
      with (nif_body (catch_abandoned (s0 <- get ;; when (d_state s0 =? ST_BUSY) (non_idle_fsm k None))) pkt).
    apply nif_body_spec; [|exact H]. intros s0 Hn0. unfold catch_abandoned.
    apply post_catch with (E1 := J).
    + mrun. destruct (d_state s0 =? ST_BUSY); [rewrite when_true; apply IH; exact Hn0 | rewrite when_false; mfin; jdone].
    + (* the nested call swallows the abandon exception; the state it ends in is J *)
      intros e k0 s1 Hh HJ1. destruct (e =? E_ABANDONED); [|discriminate Hh]. inversion Hh; subst k0. mfin. exact HJ1.
    + intros; assumption.
Qed.

(* ------------------------------------------------------------------ public API of the destination handler *)
Lemma busy_NI : forall s, (d_state s =? ST_BUSY) = true -> NI s.
Proof. intros s H. apply Z.eqb_eq in H. unfold NI. rewrite H. reflexivity. Qed.

Lemma idle_fsm_spec : forall pkt s, J0 s -> (d_state s =? ST_IDLE) = true -> post (fun _ => J0) J0 (idle_fsm pkt s).
Proof.
  intros pkt s HJ Hi. unfold idle_fsm.
  destruct pkt as [[h off data|h cl ck sz names msgs|h c ck sz fl| | | | | ]|]; try (mfin; exact HJ).
  - unfold common_first_packet_not_metadata, common_first_packet_handler. mrun. cbn [d_state set]. cbn. rewrite Hi.
    cbn [negb]. mrun. flast.
  - unfold start_transaction. mrun. rewrite Hi. cbn [negb].
    unfold common_first_packet_handler. mrun. cbn. rewrite Hi. cbn [negb]. mrun.
    eapply post_weaken; [apply handle_metadata_packet_spec; ni | intros; jdone | intros; jdone].
  - unfold common_first_packet_not_metadata, common_first_packet_handler. mrun. cbn. rewrite Hi.
    cbn [negb]. mrun.
    eapply post_weaken; [apply handle_eof_without_previous_metadata_spec; ni | intros; jdone | intros; jdone].
Qed.

Lemma state_machine_spec : forall pkt s, J0 s -> post (fun _ => J0) J0 (Dest.state_machine pkt s).
Proof.
  intros pkt s HJ. unfold Dest.state_machine.
  eapply post_bind with (Q1 := fun _ s1 => s1 = s) (E1 := fun s1 => s1 = s).
  - destruct pkt as [p|]; [|mfin; reflexivity].
    pose proof (minv_state _ _ _ s (adm_d p)) as X. unfold whole in X. unfold post, postx.
    destruct (check_inserted_packet p s) as [s1 [a|e]]; exact X.
  - intros s1 ->. exact HJ.
  - intros u s1 ->. unfold catch_abandoned. apply post_catch with (E1 := J0).
    + mrun. destruct (d_state s =? ST_IDLE) eqn:Ei.
      * mrun. eapply post_bind; [apply idle_fsm_spec; assumption | intros; assumption |].
        intros u1 s1 HJ1. mrun. destruct (0 <? d_ready s1); [mfin; exact HJ1|]. mrun.
        destruct (d_state s1 =? ST_BUSY) eqn:Eb; [rewrite when_true | rewrite when_false; mfin; exact HJ1].
        eapply post_weaken; [apply non_idle_fsm_spec; apply busy_NI; exact Eb | intros; jdone | intros; jdone].
      * mrun. destruct (d_state s =? ST_BUSY) eqn:Eb; [rewrite when_true | rewrite when_false; mfin; exact HJ].
        eapply post_weaken; [apply non_idle_fsm_spec; exact Ei | intros; jdone | intros; jdone].
    + (* try ... except _TransactionAbandoned: pass *)
      intros e k s1 Hh HJ1. destruct (e =? E_ABANDONED); [|discriminate Hh]. inversion Hh; subst k. mfin. exact HJ1.
    + intros; assumption.
Qed.

Lemma get_next_packet_spec : forall s, J0 s -> J0 (fst (Dest.get_next_packet s)).
Proof.
  intros s HJ. unfold Dest.get_next_packet. mrun. destruct (d_queue s); [exact HJ|]. mrun. cbn. exact HJ.
Qed.

Lemma cancel_request_spec : forall a b s, J0 s -> J0 (fst (Dest.cancel_request a b s)).
Proof.
  intros a b s HJ. apply post_fst. destruct (NI_or_idle s) as [Hn|Hi]; [flast|].
  unfold Dest.cancel_request. mrun. rewrite Hi. change (ST_IDLE =? ST_IDLE) with true. mfin. exact HJ.
Qed.

Lemma dest_idle_fresh_init : forall c, dest_idle_fresh (dst_init c).
Proof. intros c _. reflexivity. Qed.

Lemma dest_idle_fresh_preserved : forall pkt s a b,
  dest_idle_fresh s ->
  dest_idle_fresh (fst (Dest.state_machine pkt s)) /\ dest_idle_fresh (fst (Dest.get_next_packet s)) /\
  dest_idle_fresh (fst (Dest.cancel_request a b s)) /\ dest_idle_fresh (fst (Dest.reset s)).
Proof.
  intros pkt s a b H. change dest_idle_fresh with J0 in *. split; [|split; [|split]].
  - apply post_fst. apply state_machine_spec. exact H.
  - apply get_next_packet_spec. exact H.
  - apply cancel_request_spec. exact H.
  - intros _. reflexivity.
Qed.
Print Assumptions dest_idle_fresh_preserved.

(* ------------------------------------------------------------------ a new transaction starts from fresh parameters *)
(* c11_dest_start_ignores_old_params as first stated (without d_state s = ST_IDLE) is false: *)
Lemma dest_start_ignores_old_params_cex :
  ~ (forall s h cl ck sz names msgs p1 p2,
       start_transaction h cl ck sz names msgs (s <| d_p := p1 |>) =
       start_transaction h cl ck sz names msgs (s <| d_p := p2 |>)).
Proof.
  intro H.
  specialize (H ((dst_init (mkLcfg 1 1 false false false false [] 0 [])) <| d_state := ST_BUSY |>)
                empty_hdr false 0 0 None [] fresh_params (fresh_params <| p_progress := 1 |>)).
  apply (f_equal (fun x => p_progress (d_p (fst x)))) in H. vm_compute in H. discriminate H.
Qed.

Lemma dest_start_ignores_old_params_partial : forall s h cl ck sz names msgs p1 p2,
  d_state s = ST_IDLE ->
  start_transaction h cl ck sz names msgs (s <| d_p := p1 |>) = start_transaction h cl ck sz names msgs (s <| d_p := p2 |>).
Proof.
  intros s h cl ck sz names msgs p1 p2 Hi. unfold start_transaction. rewrite !b_get. cbn [d_state set].
  cbn. rewrite Hi. change (negb (ST_IDLE =? ST_IDLE)) with false. cbv iota. reflexivity.
Qed.
Print Assumptions dest_start_ignores_old_params_partial.

(* ================================================================== source handler *)
Definition source_idle_fresh (s : src) : Prop :=
  s_state s = ST_IDLE -> s_p s = reset_sparams \/ s_p s = init_sparams (s_cfg s) \/
                         (exists r, s_p s = reset_sparams <| q_rcfg := r |>) \/
                         (exists r, s_p s = (init_sparams (s_cfg s)) <| q_rcfg := r |>).

Definition NIs (s : src) : Prop := (s_state s =? ST_IDLE) = false.
Definition K0 (s : src) : Prop := s_state s = ST_IDLE -> s_p s = reset_sparams.
Definition K (s : src) : Prop := s_state s = ST_IDLE -> s_p s = reset_sparams /\ s_step s = SS_IDLE.

Lemma NIs_K : forall s, NIs s -> K s.
Proof. unfold NIs, K. intros s H H1. rewrite H1 in H. discriminate H. Qed.
Lemma K_K0 : forall s, K s -> K0 s.
Proof. unfold K, K0. intros s H H1. apply H, H1. Qed.
Lemma NIs_K0 : forall s, NIs s -> K0 s.
Proof. intros. apply K_K0, NIs_K. assumption. Qed.
Lemma NIs_or_idle : forall s, NIs s \/ s_state s = ST_IDLE.
Proof. intro s. unfold NIs. destruct (s_state s =? ST_IDLE) eqn:E; [right; apply Z.eqb_eq; exact E | left; reflexivity]. Qed.
Lemma K_step_NIs : forall s v, K s -> (s_step s =? v) = true -> v <> SS_IDLE -> NIs s.
Proof.
  intros s v HK Hv H1. apply Z.eqb_eq in Hv. destruct (NIs_or_idle s) as [Hn|Hi]; [exact Hn|].
  destruct (HK Hi) as [_ Hs]. congruence.
Qed.
Lemma K_sreset : forall cl s,
  K (s <| s_step := SS_IDLE |> <| s_state := ST_IDLE |> <| s_queue ::= (fun q => if cl : bool then [] else q) |>
       <| s_ready ::= (fun n => if cl : bool then 0 else n) |> <| s_p := reset_sparams |>).
Proof. intros cl s. unfold K. cbn. intros _. split; reflexivity. Qed.

Lemma b_gq {A B} (f : sparams -> A) (k : A -> SM B) s : bind (gq f) k s = k (f (s_p s)) s.
Proof. reflexivity. Qed.
Lemma b_setq {B} f (k : unit -> SM B) s : bind (setq f) k s = k tt (s <| s_p ::= f |>).
Proof. reflexivity. Qed.
Lemma b_sset_step {B} v (k : unit -> SM B) s : bind (sset_step v) k s = k tt (s <| s_step := v |>).
Proof. reflexivity. Qed.
Lemma b_semit {B} e (k : unit -> SM B) s :
  bind (semit e) k s = k tt (s <| s_env ::= (fun en => en <| e_log ::= cons e |>) |>).
Proof. reflexivity. Qed.
Lemma b_snow {B} (k : Z -> SM B) s : bind snow k s = k (e_now (s_env s)) s.
Proof. reflexivity. Qed.
Lemma b_sstep_is {B} v (k : bool -> SM B) s : bind (sstep_is v) k s = k (s_step s =? v) s.
Proof. reflexivity. Qed.
Lemma b_smode_is {B} m (k : bool -> SM B) s :
  bind (smode_is m) k s = k (if s_state s =? ST_IDLE then false else (sc_mode (q_conf (s_p s)) =? m)) s.
Proof.
  unfold smode_is, stmode. rewrite !bind_assoc, b_get, b_ret, b_ret. destruct (s_state s =? ST_IDLE); reflexivity.
Qed.
Lemma b_sreset_internal {B} cl (k : unit -> SM B) s :
  bind (sreset_internal cl) k s =
  k tt (s <| s_step := SS_IDLE |> <| s_state := ST_IDLE |> <| s_queue ::= (fun q => if cl then [] else q) |>
          <| s_ready ::= (fun n => if cl then 0 else n) |> <| s_p := reset_sparams |>).
Proof. reflexivity. Qed.

Ltac srun :=
  repeat first
    [ rewrite bind_assoc | rewrite b_ret | rewrite b_raise | rewrite b_gets | rewrite b_get | rewrite b_gq
    | rewrite b_setq | rewrite b_sset_step | rewrite b_semit | rewrite b_snow | rewrite b_sstep_is
    | rewrite b_smode_is | rewrite b_sreset_internal
    | rewrite b_modify | rewrite b_put | rewrite when_true | rewrite when_false ];
  cbv beta.
Ltac sfin :=
  unfold setq, sset_step, semit, sreset_internal, sadd_packet, gq, snow, modify, gets, get, put, ret, raise, post, postx;
  cbn.
Ltac nis := first [ assumption | unfold NIs in *; cbn; first [assumption | reflexivity] ].
Ltac kdone :=
  first [ assumption | apply NIs_K; nis | apply NIs_K0; nis | apply K_K0; assumption | apply K_sreset
        | unfold K; cbn; intros _; split; reflexivity ].

Notation SF m := (MInv s_state Any m).

Lemma sframe_bind {A B} (m : SM A) (k : A -> SM B) s (Q : B -> src -> Prop) (E : src -> Prop) :
  SF m -> NIs s -> (forall s', NIs s' -> E s') -> (forall a s', NIs s' -> post Q E (k a s')) -> post Q E (bind m k s).
Proof.
  intros Hm Hs HE Hk. pose proof (minv_state _ _ _ s Hm) as X. unfold bind, post, postx.
  destruct (m s) as [s1 [a|e]]; cbn [fst] in X.
  - apply Hk. unfold NIs in *. rewrite X. exact Hs.
  - apply HE. unfold NIs in *. rewrite X. exact Hs.
Qed.
Lemma sframe_last {A} (m : SM A) s : SF m -> NIs s -> post (fun _ => NIs) NIs (m s).
Proof.
  intros Hm Hs. pose proof (minv_state _ _ _ s Hm) as X. unfold post, postx.
  destruct (m s) as [s1 [a|e]]; cbn [fst] in X; unfold NIs in *; rewrite X; exact Hs.
Qed.

(* s <- get ;; put (g s) ;;; k s   with g keeping the handler state *)
Lemma minv_get_put {S T B} (delta : S -> T) (E : Z -> Prop) (g : S -> S) (k : S -> M S B) :
  (forall s, delta (g s) = delta s) -> (forall s0, MInv delta E (k s0)) ->
  MInv delta E (bind get (fun s => bind (put (g s)) (fun _ => k s))).
Proof.
  intros Hg Hk s. rewrite b_get, b_put. destruct (Hk s (g s)) as [H1 H2]. split; [rewrite H1; apply Hg | exact H2].
Qed.

Ltac sminv :=
  repeat first [ progress cbv zeta
               | match goal with |- MInv _ _ (bind get (fun s => bind (put _) _)) =>
                   apply minv_get_put; [intros; reflexivity | intro] end
               | minv_step ltac:(fun x => destruct x) ].

Lemma sf_checksum_calculation : forall sz, SF (checksum_calculation sz). Proof. intro. minv. Qed.
Lemma sf_prepare_file_data_pdu : forall o l, SF (prepare_file_data_pdu o l). Proof. intros. minv. Qed.
Lemma sf_prepare_metadata_pdu : SF prepare_metadata_pdu. Proof. minv. Qed.
Lemma sf_prepare_eof_pdu : forall ck, SF (prepare_eof_pdu ck). Proof. intro. minv. Qed.
Lemma sf_start_positive_ack_procedure_s : SF start_positive_ack_procedure_s. Proof. minv. Qed.
#[local] Hint Resolve sf_checksum_calculation sf_prepare_file_data_pdu sf_prepare_metadata_pdu sf_prepare_eof_pdu
  sf_start_positive_ack_procedure_s : minv.
Lemma sf_transaction_start : SF transaction_start.
Proof. unfold transaction_start. sminv. Qed.
Lemma sf_retransmit_chunks : forall fuel o m seg, SF (retransmit_chunks fuel o m seg).
Proof. induction fuel; intros; cbn [retransmit_chunks]; minv. Qed.
#[local] Hint Resolve sf_transaction_start sf_retransmit_chunks : minv.
Lemma sf_handle_segment_req : forall rq, SF (handle_segment_req rq). Proof. intro. minv. Qed.
#[local] Hint Resolve sf_handle_segment_req : minv.
Lemma sf_handle_retransmission : forall pkt, SF (handle_retransmission pkt).
Proof. intro. unfold handle_retransmission. sminv. Qed.
#[local] Hint Resolve sf_handle_retransmission : minv.
Lemma sf_sending_file_data_fsm : forall pkt, SF (sending_file_data_fsm pkt). Proof. intro. minv. Qed.
Lemma sf_fsm_advancement_s : SF fsm_advancement_s. Proof. minv. Qed.
#[local] Hint Resolve sf_sending_file_data_fsm sf_fsm_advancement_s : minv.

Ltac sfstep := eapply sframe_bind; [solve [sminv] | nis | intros; first [assumption | kdone] | intros ? ? ?].
Ltac sflast := eapply post_weaken; [apply sframe_last; [solve [sminv] | nis] | intros; kdone | intros; kdone].

Lemma sf_handle_eof_sent_false : SF (handle_eof_sent false).
Proof. unfold handle_eof_sent. apply minv_bind; [minv|]. intro ac. destruct ac; [minv|]. cbv iota. minv. Qed.
#[local] Hint Resolve sf_handle_eof_sent_false : minv.

(* moved up: the cancelled unacknowledged transaction ends through notice_of_completion_s (F21 repair) *)
Lemma notice_of_completion_s_spec : forall s, NIs s -> post (fun _ => K) K0 (notice_of_completion_s s).
Proof.
  intros s H. unfold notice_of_completion_s. srun. sfstep. sfin. kdone.
Qed.

Lemma handle_eof_sent_spec : forall b s, NIs s -> post (fun _ => K) K0 (handle_eof_sent b s).
Proof.
  intros b s H. destruct b; [|sflast]. unfold handle_eof_sent. srun.
  destruct (if s_state s =? ST_IDLE then false else sc_mode (q_conf (s_p s)) =? ACKED); [sflast|].
  srun. destruct (q_cond_eof (s_p s)) as [c|]; [|sfin; kdone].
  srun. apply notice_of_completion_s_spec. nis.
Qed.

Lemma notice_of_cancellation_s_spec : forall c s, NIs s -> post (fun _ => K) K0 (notice_of_cancellation_s c s).
Proof.
  intros c s H. unfold notice_of_cancellation_s. srun.
  destruct (q_cond_eof (s_p s)) as [c0|]; [destruct (negb (c0 =? C_NO_ERROR))|].
  - sfstep. srun. sfin. kdone.
  - srun. sfstep. sfstep.
    eapply post_bind; [apply handle_eof_sent_spec; nis | intros; assumption | intros; sfin; assumption].
  - srun. sfstep. sfstep.
    eapply post_bind; [apply handle_eof_sent_spec; nis | intros; assumption | intros; sfin; assumption].
Qed.

Lemma declare_fault_s_spec : forall c s, NIs s -> post (fun _ => K) K0 (declare_fault_s c s).
Proof.
  intros c s H. unfold declare_fault_s. srun.
  destruct (q_tid (s_p s)) as [[a b]|]; [|sfin; kdone].
  destruct (get_fault_handler (l_faults (s_cfg s)) c) as [h|].
  - destruct (h =? FH_CANCEL); [|destruct (h =? FH_ABANDON)]; srun.
    + eapply post_bind; [apply notice_of_cancellation_s_spec; nis | intros; assumption |].
      intros go s1 HK. destruct (negb go); sfin; exact HK.
    + sfin. kdone.
    + sfin. kdone.
  - srun. sfin. kdone.
Qed.

(* an ignored fault leaves the handler as it is (F34 repair: the callers carry on in that case) *)
Lemma cfg_declare_fault_s : forall c, MInv s_cfg Any (declare_fault_s c).
Proof. intro c. sminv. Qed.

Lemma declare_fault_s_ign : forall c s, NIs s -> fault_ignored (s_cfg s) c = true ->
  post (fun _ => NIs) NIs (declare_fault_s c s).
Proof.
  intros c s H Hig. unfold declare_fault_s. srun. unfold fault_ignored in Hig.
  destruct (q_tid (s_p s)) as [[a b]|]; [|sfin; nis].
  destruct (get_fault_handler (l_faults (s_cfg s)) c) as [h|]; [|discriminate Hig].
  apply Z.eqb_eq in Hig. subst h.
  change (FH_IGNORE =? FH_CANCEL) with false. change (FH_IGNORE =? FH_ABANDON) with false. cbv iota.
  srun. sfin. nis.
Qed.

Lemma declare_fault_s_spec2 : forall c s, NIs s ->
  post (fun _ s' => K s' /\ (fault_ignored (s_cfg s') c = true -> NIs s')) K0 (declare_fault_s c s).
Proof.
  intros c s H. pose proof (declare_fault_s_spec c s H) as X.
  pose proof (minv_state _ _ _ s (cfg_declare_fault_s c)) as Hc.
  pose proof (declare_fault_s_ign c s H) as Y. unfold post, postx in *.
  destruct (declare_fault_s c s) as [s1 [u|e]]; cbn [fst] in Hc; [|exact X].
  split; [exact X|]. rewrite Hc. exact Y.
Qed.

Lemma handle_positive_ack_procedures_s_spec : forall s, NIs s -> post (fun _ => K) K0 (handle_positive_ack_procedures_s s).
Proof.
  intros s H. unfold handle_positive_ack_procedures_s. srun.
  destruct (q_ack_timer (s_p s)) as [tm|]; [|sfin; kdone].
  sfstep. srun. destruct (negb (timed_out (e_now (s_env s')) tm)); [sfin; kdone|]. srun.
  destruct (r_ack_limit a <=? q_ack_counter (s_p s') + 1); [|sflast].
  (* F34 repair: with the handler IGNORE the procedure carries on (timer, counter, EOF again) *)
  eapply post_bind; [apply declare_fault_s_spec2; nis | intros; assumption |].
  intros u s2 [HK Hig]. srun.
  destruct (fault_ignored (s_cfg s2) C_POS_ACK_LIMIT); [specialize (Hig eq_refl); sflast | sfin; exact HK].
Qed.

Lemma handle_waiting_for_ack_spec : forall pkt s, NIs s -> post (fun _ => K) K0 (handle_waiting_for_ack pkt s).
Proof.
  intros pkt s H. unfold handle_waiting_for_ack. sfstep. destruct a; [sfin; kdone|].
  destruct pkt as [[ | | | | | | | ]|]; try (apply handle_positive_ack_procedures_s_spec; assumption).
  - sfin. kdone.
  - (* Finished PDU: only the step changes (F30 repair) *) sflast.
  - sflast.
Qed.

Lemma handle_wait_for_finish_spec : forall pkt s, NIs s -> post (fun _ => K) K0 (handle_wait_for_finish pkt s).
Proof.
  intros pkt s H. unfold handle_wait_for_finish. srun. sfstep. destruct a; [sfin; kdone|].
  destruct pkt as [[ | | | | | | | ]|]; try sflast; srun;
    (destruct (q_check_timer (s_p s')) as [tm|]; [|sfin; kdone]);
    (destruct (timed_out (e_now (s_env s')) tm); [rewrite when_true | sfin; kdone]);
    (* F34 repair: with the handler IGNORE the check timer is restarted *)
    (eapply post_bind; [apply declare_fault_s_spec2; nis | intros; assumption |]);
    intros u s2 [HK Hig]; srun;
    (destruct (fault_ignored (s_cfg s2) C_CHECK_LIMIT); [specialize (Hig eq_refl); sflast | sfin; exact HK]).
Qed.

Lemma stage_s {B} V (m : SM unit) (rest : SM B) (Q : B -> src -> Prop) s :
  K s -> V <> SS_IDLE ->
  (forall s0, NIs s0 -> post (fun _ => K) K0 (m s0)) -> (forall s', K s' -> post Q K0 (rest s')) ->
  post Q K0 (bind (sstep_is V) (fun b => bind (when b m) (fun _ => rest)) s).
Proof.
  intros HK H1 Hm Hr. rewrite b_sstep_is. destruct (s_step s =? V) eqn:E.
  - rewrite when_true. eapply post_bind; [apply Hm; eapply K_step_NIs; eauto | intros; assumption |].
    intros u s' HK'. apply Hr. exact HK'.
  - rewrite when_false, b_ret. apply Hr. exact HK.
Qed.

Lemma fsm_non_idle_spec : forall pkt s, NIs s -> post (fun _ => K) K0 (fsm_non_idle pkt s).
Proof.
  intros pkt s H. unfold fsm_non_idle. sfstep. srun.
  destruct (s_put s') as [pr|]; [|sfin; kdone]. srun.
  sfstep. srun. sfstep. srun.
  destruct (s_step s'1 =? SS_SENDING_METADATA); [sflast|]. srun.
  sfstep. destruct a2; [sfin; kdone|]. srun. sfstep.
  apply stage_s; [kdone | discriminate | apply handle_waiting_for_ack_spec |].
  intros s3 HK3.
  apply stage_s; [exact HK3 | discriminate | apply handle_wait_for_finish_spec |].
  intros s4 HK4. rewrite b_sstep_is.
  destruct (s_step s4 =? SS_NOTICE_OF_COMPLETION) eqn:E; [rewrite when_true | rewrite when_false; sfin; exact HK4].
  apply notice_of_completion_s_spec. eapply K_step_NIs; eauto. discriminate.
Qed.

(* ------------------------------------------------------------------ public API of the source handler *)
Lemma K0_fresh : forall s, K0 s -> source_idle_fresh s.
Proof. intros s H Hi. left. apply H. exact Hi. Qed.

Lemma idle_tid_none : forall s, source_idle_fresh s -> s_state s = ST_IDLE -> q_tid (s_p s) = None.
Proof.
  intros s H Hi. destruct (H Hi) as [X|[X|[[r X]|[r X]]]]; rewrite X; reflexivity.
Qed.

Lemma source_idle_fresh_init : forall c seq0 bits, source_idle_fresh (src_init c seq0 bits).
Proof. intros c seq0 bits _. right. left. reflexivity. Qed.

Lemma state_machine_s_fresh : forall pkt s, source_idle_fresh s -> source_idle_fresh (fst (state_machine_s pkt s)).
Proof.
  intros pkt s H. apply post_fst. unfold state_machine_s.
  eapply post_bind with (Q1 := fun _ s1 => s1 = s) (E1 := fun s1 => s1 = s).
  - destruct pkt as [p|]; [|sfin; reflexivity].
    pose proof (minv_state _ _ _ s (adm_s p)) as X. unfold whole in X. unfold post, postx.
    destruct (check_inserted_packet_s p s) as [s1 [a|e]]; exact X.
  - intros s1 ->. exact H.
  - intros u s1 ->. srun. destruct (s_state s =? ST_IDLE) eqn:Ei; [sfin; exact H|].
    eapply post_weaken; [apply fsm_non_idle_spec; exact Ei | |]; intros; apply K0_fresh; kdone.
Qed.

Lemma get_next_packet_s_fresh : forall s, source_idle_fresh s -> source_idle_fresh (fst (get_next_packet_s s)).
Proof.
  intros s H. unfold get_next_packet_s. srun. destruct (s_queue s); [exact H|]. srun. cbn. exact H.
Qed.

Lemma cancel_request_s_fresh : forall a b s, source_idle_fresh s -> source_idle_fresh (fst (cancel_request_s a b s)).
Proof.
  intros a b s H. apply post_fst. unfold cancel_request_s. srun.
  destruct (0 <? s_ready s); [sfin; exact H|].
  destruct (NIs_or_idle s) as [Hn|Hi].
  - destruct (q_tid (s_p s)) as [[x y]|]; [|sfin; exact H].
    destruct ((x =? a) && (y =? b)); [|sfin; exact H]. srun.
    eapply post_bind; [apply notice_of_cancellation_s_spec; exact Hn | intros; apply K0_fresh; assumption |].
    intros go s1 HK. sfin. apply K0_fresh. kdone.
  - rewrite (idle_tid_none s H Hi). sfin. exact H.
Qed.

Lemma put_request_fresh : forall p s, source_idle_fresh s -> source_idle_fresh (fst (put_request p s)).
Proof.
  intros p s H. unfold put_request. srun.
  destruct (s_state s =? ST_IDLE) eqn:Ei; cbn [negb]; [|exact H].
  apply Z.eqb_eq in Ei. srun.
  assert (forall s1 : src, s_state s1 = ST_IDLE -> s_cfg s1 = s_cfg s ->
            (exists r, s_p s1 = (s_p s) <| q_rcfg := r |>) -> source_idle_fresh s1) as Hkeep.
  { intros s1 _ Hc [r Hp] _. rewrite Hp, Hc.
    destruct (H Ei) as [X|[X|[[r0 X]|[r0 X]]]]; rewrite X.
    - right. right. left. exists r. reflexivity.
    - right. right. right. exists r. reflexivity.
    - right. right. left. exists r. reflexivity.
    - right. right. right. exists r. reflexivity. }
  assert (source_idle_fresh (s <| s_put := Some p |>)) as H0 by (unfold source_idle_fresh; cbn; exact H).
  assert (forall s0 : src, s_state s0 = ST_IDLE -> s_cfg s0 = s_cfg s -> s_p s0 = s_p s -> source_idle_fresh s0 ->
            source_idle_fresh (fst ((setq (fun q => q <| q_rcfg := get_remote (l_remotes (s_cfg s)) (pr_dst p) |>) ;;;
              match get_remote (l_remotes (s_cfg s)) (pr_dst p) with
              | Some r =>
                  setq (fun q => q <| q_conf ::= (fun c => c <| sc_dst := pr_dst p |> <| sc_dstw := pr_dstw p |>) |>) ;;;
                  modify (fun s => s <| s_state := ST_BUSY |>) ;;;
                  setq (fun q => q <| q_conf ::= (fun c => c <| sc_mode := match pr_mode p with Some m => m | None => r_mode r end |>) |>
                                    <| q_closure := match pr_closure p with Some c => c | None => r_closure r end |>) ;;;
                  ret true
              | None => raise E_NO_REMOTE_CFG
              end) s0))) as Htail.
  { intros s0 Hi0 Hc0 Hp0 _. srun. destruct (get_remote (l_remotes (s_cfg s)) (pr_dst p)) as [r|]; srun.
    - unfold source_idle_fresh. cbn. intro X. discriminate X.
    - cbn [fst]. apply Hkeep; cbn; [exact Hi0 | exact Hc0 | exists None; rewrite Hp0; reflexivity]. }
  destruct (pr_names p) as [[sn dn]|].
  - destruct (fs_file_exists (e_fs (s_env s)) sn); srun; [|exact H0].
    apply Htail; [exact Ei | reflexivity | reflexivity | exact H0].
  - srun. apply Htail; [exact Ei | reflexivity | reflexivity | exact H0].
Qed.

Lemma source_idle_fresh_preserved : forall pkt s a b p,
  source_idle_fresh s ->
  source_idle_fresh (fst (state_machine_s pkt s)) /\ source_idle_fresh (fst (get_next_packet_s s)) /\
  source_idle_fresh (fst (cancel_request_s a b s)) /\ source_idle_fresh (fst (reset_s s)) /\
  source_idle_fresh (fst (put_request p s)).
Proof.
  intros pkt s a b p H. split; [|split; [|split; [|split]]].
  - apply state_machine_s_fresh. exact H.
  - apply get_next_packet_s_fresh. exact H.
  - apply cancel_request_s_fresh. exact H.
  - intros _. left. reflexivity.
  - apply put_request_fresh. exact H.
Qed.
Print Assumptions source_idle_fresh_preserved.

(* ------------------------------------------------------------------ the header template and transaction start *)
(* c11_source_start_ignores_template as first stated (without a success hypothesis) is false:
   a raise before the sequence number is assigned leaves the differing template in the state *)
Lemma source_start_ignores_template_cex :
  ~ (forall s c1 c2,
       sc_mode c1 = sc_mode c2 -> sc_large c1 = sc_large c2 ->
       transaction_start (s <| s_p ::= (fun q => q <| q_conf := c1 |>) |>) =
       (let '(s', r) := transaction_start (s <| s_p ::= (fun q => q <| q_conf := c2 |>) |>) in (s', r))).
Proof.
  intro H.
  pose (c2 := mkSconf 7 0 0 0 0 0 ACKED false false).
  specialize (H (src_init (mkLcfg 1 1 false false false false [] 0 []) 0 16) empty_sconf c2 eq_refl eq_refl).
  apply (f_equal (fun x => sc_src (q_conf (s_p (fst x))))) in H. vm_compute in H. discriminate H.
Qed.

Arguments fs_file_exists : simpl never.
Arguments fs_file_size : simpl never.
Arguments originating_id : simpl never.

Definition same_upto_conf (x1 x2 : src * res Z unit) : Prop :=
  snd x1 = snd x2 /\
  (forall c, (fst x1) <| s_p ::= (fun q => q <| q_conf := c |>) |> = (fst x2) <| s_p ::= (fun q => q <| q_conf := c |>) |>) /\
  (snd x1 = Ok tt -> fst x1 = fst x2).

Ltac stuck x := lazymatch x with match ?y with _ => _ end => stuck y | _ => constr:(x) end.

Lemma source_start_template_results_equal : forall s c1 c2,
  sc_mode c1 = sc_mode c2 -> sc_large c1 = sc_large c2 ->
  same_upto_conf (transaction_start (s <| s_p ::= (fun q => q <| q_conf := c1 |>) |>))
                 (transaction_start (s <| s_p ::= (fun q => q <| q_conf := c2 |>) |>)).
Proof.
  intros s c1 c2 Hm Hl.
  destruct c1 as [a1 a2 a3 a4 a5 a6 a7 a8 a9], c2 as [b1 b2 b3 b4 b5 b6 b7 b8 b9]. cbn in Hm, Hl. subst b7 b8.
  unfold transaction_start, put_or_assert, srcfg_or_assert.
  repeat (srun; unfold max_file_seg_len, hdr_len, fss_len, crc_len; cbn;
          lazymatch goal with
          | |- same_upto_conf (bind (match ?x with _ => _ end) _ _) _ => let y := stuck x in destruct y
          | |- same_upto_conf ((match ?x with _ => _ end) _) _ => let y := stuck x in destruct y
          | |- same_upto_conf (bind (when ?b _) _ _) _ => destruct b
          | |- same_upto_conf (semit _ _) _ => unfold semit, modify
          | |- same_upto_conf (_, _) (_, _) =>
              unfold same_upto_conf; cbn; repeat split; try reflexivity; try (intro X; discriminate X)
          end).
Qed.

Lemma source_start_ignores_template_partial : forall s c1 c2 s',
  sc_mode c1 = sc_mode c2 -> sc_large c1 = sc_large c2 ->
  transaction_start (s <| s_p ::= (fun q => q <| q_conf := c1 |>) |>) = (s', Ok tt) ->
  transaction_start (s <| s_p ::= (fun q => q <| q_conf := c2 |>) |>) = (s', Ok tt).
Proof.
  intros s c1 c2 s' Hm Hl H.
  destruct (source_start_template_results_equal s c1 c2 Hm Hl) as [H1 [_ H3]].
  rewrite H in H1, H3. cbn [fst snd] in H1, H3.
  destruct (transaction_start (s <| s_p ::= (fun q => q <| q_conf := c2 |>) |>)) as [s2 r2].
  cbn [fst snd] in H1, H3. subst r2. rewrite (H3 eq_refl). reflexivity.
Qed.
Print Assumptions source_start_ignores_template_partial.
