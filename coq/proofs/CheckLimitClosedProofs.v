(* CheckLimitClosedProofs.v — proof for the closed form of property C13 (props/C13b.v): in unacknowledged mode, when
   the EOF overtook file data that never arrives, the receiver declares Check Limit Reached exactly at the L-th
   check-timer expiry, completes the cancelled transaction in the same call and is idle, for every limit L >= 1. *)
From CFDP Require Import Base LostSeg Fs Crc Checksum Handler Dest HandlerSpec.
From CFDP.gen Require Import Tables.
From CFDP.proofs Require Import RetryProofs.
From RecordUpdate Require Import RecordSet.
Import RecordSetNotations.

Arguments Z.add : simpl never. Arguments Z.sub : simpl never. Arguments Z.mul : simpl never.
Arguments Z.max : simpl never. Arguments Z.min : simpl never.
Arguments Z.ltb !x !y : simpl nomatch. Arguments Z.leb !x !y : simpl nomatch.
Arguments Z.eqb !x !y : simpl nomatch.
Arguments timed_out : simpl never.

(* retrieve every queued PDU *)
Definition drain_d (s : dst) : dst * list pdu :=
  (s <| d_queue := [] |> <| d_ready := d_ready s - zlen (d_queue s) |>, d_queue s).
(* one timer interval passes, then one call without a PDU, then everything queued is retrieved *)
Definition expire_d (ms : Z) (s : dst) : dst * res Z (list pdu) :=
  match Dest.state_machine None (s <| d_env ::= (fun e => e <| e_now ::= Z.add ms |>) |>) with
  | (s', Ok _) => let '(s'', ps) := drain_d s' in (s'', Ok ps)
  | (s', Err e) => (s', Err e)
  end.
Fixpoint expires_d (n : nat) (ms : Z) (s : dst) : dst * res Z (list (list pdu)) :=
  match n with
  | O => (s, Ok [])
  | S k => match expire_d ms s with
           | (s', Ok ps) => match expires_d k ms s' with
                            | (s'', Ok rest) => (s'', Ok (ps :: rest))
                            | (s'', Err e) => (s'', Err e)
                            end
           | (s', Err e) => (s', Err e)
           end
  end.

Lemma expires_d_one : forall ms s s' ps, expire_d ms s = (s', Ok ps) -> expires_d 1 ms s = (s', Ok [ps]).
Proof. intros ms s s' ps H. cbn [expires_d]. rewrite H. reflexivity. Qed.

Lemma expires_d_app : forall m n ms s s1 l1 s2 l2,
  expires_d m ms s = (s1, Ok l1) -> expires_d n ms s1 = (s2, Ok l2) ->
  expires_d (m + n) ms s = (s2, Ok (l1 ++ l2)).
Proof.
  induction m as [|m IH]; intros n ms s s1 l1 s2 l2 H1 H2.
  - cbn [expires_d] in H1. inversion H1; subst. exact H2.
  - cbn [expires_d Nat.add] in *.
    destruct (expire_d ms s) as [s' [ps|e]]; [|discriminate].
    destruct (expires_d m ms s') as [s'' [rest|e]] eqn:E; [|discriminate].
    inversion H1; subst. rewrite (IH n ms s' s1 rest s2 l2 E H2). reflexivity.
Qed.

Lemma timer_expired_d : forall nw tmo, timed_out (tmo + nw) (nw, tmo) = true.
Proof. intros nw tmo. unfold timed_out. cbn [fst snd]. apply Z.leb_le. lia. Qed.

Lemma repeat_shift : forall {A} (x : A) m l, repeat x m ++ x :: l = x :: repeat x m ++ l.
Proof. intros A x m l. induction m as [|m IH]; [reflexivity|]. cbn [repeat app]. rewrite IH. reflexivity. Qed.

Lemma bytes_eqb_true : forall x y, bytes_eqb x y = true -> x = y.
Proof.
  induction x as [|u x IH]; intros [|v y] H; cbn [bytes_eqb] in H; try discriminate; [reflexivity|].
  apply andb_true_iff in H as [H1 H2]. apply Z.eqb_eq in H1. subst v. rewrite (IH y H2). reflexivity.
Qed.

Ltac nsm := match goal with |- context[Dest.state_machine None ?st] => nstate st end.
Ltac nres := match goal with |- context[(?st, Ok _) = _] => nstate st end.

Section CheckLimit.
Variables (L : nat) (r : rcfg) (a b : Z) (cfg : lcfg) (stid : option (Z * Z))
          (clo : bool) (ckty : Z) (deliv : Z) (ffl : option (Z * Z)) (cf : hdr)
          (pr : Z) (crc : bytes) (fsz : option Z) (fname : path) (fse : option Z)
          (trk : tracker) (mdm : bool) (ls le : Z) (dfr : bool) (prt : option timer) (nakc : Z)
          (ackt : option timer) (ackc : Z) (rw : bool) (fs : tree) (d ck : bytes).
Hypothesis Hlim : r_check_limit r = Z.of_nat L.
Hypothesis Hmode : h_mode cf = UNACKED.
Hypothesis Hnull : ckty <> CK_NULL.
Hypothesis Hlook : lookup fs fname = Some (File d).
Hypothesis Hck : calculate_checksum ckty (Some d) pr 4096 = Ok ck.
Hypothesis Hne : ck <> crc.
Hypothesis Hfh5 : get_fault_handler (l_faults cfg) C_CHECKSUM_FAILURE = Some FH_IGNORE.
Hypothesis Hfh10 : get_fault_handler (l_faults cfg) C_CHECK_LIMIT = Some FH_CANCEL.

Let ms := l_check_ms cfg.

(* a busy receiver state of a file transfer (not metadata-only) over the unchanged filestore, the fields that stay put
   until the completion taken from the section *)
Definition mk (step ready : Z) (q : list pdu) (fstat fcond disp : Z) (ckt : option timer) (c : Z)
              (nw : Z) (lg : list event) : dst :=
  mkDst cfg ST_BUSY step stid ready q
    (mkDP (Some (a, b)) (Some r) ckt c clo ckty (mkFin deliv fstat fcond ffl) disp cf pr crc fsz fname fse false
          trk mdm ls le dfr prt nakc ackt ackc)
    (mkEnv nw fs rw lg).

(* the callback of the ignored checksum failure *)
Definition ign : event := EvFault FH_IGNORE a b C_CHECKSUM_FAILURE pr.

(* re-verification fails: the fault is declared and ignored, only its callback is logged *)
Transparent checksum_verify.
Lemma cv_fail : forall step ready q fstat fcond disp ckt c nw lg,
  checksum_verify (mk step ready q fstat fcond disp ckt c nw lg) =
    (mk step ready q fstat fcond disp ckt c nw (ign :: lg), Ok false).
Proof.
  intros. unfold mk, ign.
  assert (ckty =? CK_NULL = false) as Hn by (apply Z.eqb_neq; exact Hnull).
  assert (bytes_eqb ck crc = false) as Hb.
  { destruct (bytes_eqb ck crc) eqn:E; [|reflexivity]. apply bytes_eqb_true in E. contradiction. }
  unfold checksum_verify, vfs_checksum, gp. msimp. rewrite Hn. msimp. rewrite Hlook, Hck. msimp. rewrite Hb. msimp.
  unfold declare_fault. msimp. rewrite Hfh5. msimp. reflexivity.
Qed.
Opaque checksum_verify.

(* counting: step RECV_WITH_CHECK_LIMIT, [c] expiries counted, the timer started at the current time, nothing queued *)
Definition cst (fstat fcond disp : Z) (c nw : Z) (lg : list event) : dst :=
  mk DS_RECV_WITH_CHECK_LIMIT 0 [] fstat fcond disp (Some (nw, ms)) c nw lg.

(* below the limit: the expiry is counted, the timer restarts, nothing is sent *)
Lemma nif_counts : forall k fstat fcond disp c nw lg,
  c + 1 < Z.of_nat L ->
  non_idle_fsm (S k) None (mk DS_RECV_WITH_CHECK_LIMIT 0 [] fstat fcond disp (Some (nw, ms)) c (ms + nw) lg) =
    (mk DS_RECV_WITH_CHECK_LIMIT 0 [] fstat fcond disp (Some (ms + nw, ms)) (c + 1) (ms + nw) (ign :: lg), Ok tt).
Proof.
  intros k fstat fcond disp c nw lg Hlt.
  assert (r_check_limit r <=? c + 1 = false) as Hle by (apply Z.leb_gt; lia).
  unfold mk at 1.
  cbn [non_idle_fsm].
  unfold fsm_advancement, step_is, get_step. msimp.
  unfold check_limit_handling, rcfg_or_assert, now, gp. msimp.
  rewrite timer_expired_d. msimp.
  match goal with |- context[checksum_verify ?st] =>
    change st with (mk DS_RECV_WITH_CHECK_LIMIT 0 [] fstat fcond disp (Some (nw, ms)) c (ms + nw) lg) end.
  rewrite cv_fail. unfold mk. msimp. rewrite Hle. msimp.
  reflexivity.
Qed.

Lemma expire_counts : forall fstat fcond disp c nw lg,
  c + 1 < Z.of_nat L ->
  expire_d ms (cst fstat fcond disp c nw lg) = (cst fstat fcond disp (c + 1) (ms + nw) (ign :: lg), Ok []).
Proof.
  intros fstat fcond disp c nw lg Hlt.
  unfold expire_d, cst, mk. nsm.
  rewrite dsm_none by reflexivity. unfold catch_abandoned at 1, catch.
  match goal with |- context[non_idle_fsm 3 None ?st] =>
    change st with (mk DS_RECV_WITH_CHECK_LIMIT 0 [] fstat fcond disp (Some (nw, ms)) c (ms + nw) lg) end.
  rewrite (nif_counts 2 fstat fcond disp c nw lg Hlt).
  reflexivity.
Qed.

Definition del : bool := r_disposition r && (deliv =? DATA_INCOMPLETE).

(* the idle handler after the completion *)
Definition fin_state (fstat' : Z) (nw : Z) (lg : list event) : dst :=
  mkDst cfg ST_IDLE DS_IDLE stid 0 [] fresh_params
    (mkEnv nw (if del then fst (fs_delete_file fs fname) else fs) rw
       ((if l_ind_fin cfg then [EvFinished a b C_CHECK_LIMIT deliv fstat' ffl] else []) ++
        EvFault FH_CANCEL a b C_CHECK_LIMIT pr :: lg)).

Definition finished (fstat' : Z) : pdu := PFinished (set_dir TOWARDS_SENDER cf) C_CHECK_LIMIT deliv fstat' ffl.

(* at the limit: Check Limit Reached -> notice of cancellation -> completion in the same call (the incomplete file is
   deleted if the remote configuration says so, Transaction-Finished, the Finished PDU if closure was requested) ->
   idle: unacknowledged mode does not wait for an ACK of the Finished PDU *)
Lemma nif_limit : forall k fstat fcond disp c nw lg,
  Z.of_nat L <= c + 1 ->
  let fstat' := if del then FS_DISCARDED_DELIBERATELY else fstat in
  non_idle_fsm (S k) None (mk DS_RECV_WITH_CHECK_LIMIT 0 [] fstat fcond disp (Some (nw, ms)) c (ms + nw) lg) =
    (fin_state fstat' (ms + nw) (ign :: lg) <| d_queue := if clo then [finished fstat'] else [] |>
                                            <| d_ready := if clo then 0 + 1 else 0 |>, Ok tt).
Proof.
  intros k fstat fcond disp c nw lg Hge fstat'. subst fstat'.
  assert (r_check_limit r <=? c + 1 = true) as Hle by (apply Z.leb_le; lia).
  unfold mk at 1.
  cbn [non_idle_fsm].
  unfold fsm_advancement, step_is, get_step. msimp.
  unfold check_limit_handling, rcfg_or_assert, now, gp. msimp.
  rewrite timer_expired_d. msimp.
  match goal with |- context[checksum_verify ?st] =>
    change st with (mk DS_RECV_WITH_CHECK_LIMIT 0 [] fstat fcond disp (Some (nw, ms)) c (ms + nw) lg) end.
  rewrite cv_fail. unfold mk. msimp. rewrite Hle. msimp.
  unfold declare_fault. msimp. rewrite Hfh10. msimp.
  unfold handle_transfer_completion, notice_of_completion, rcfg_or_assert, mode_is, tmode, gp. msimp.
  unfold fin_state, finished, del.
  destruct (l_ind_fin cfg) eqn:Hind;
    (match goal with |- context[r_disposition r && ?x] => destruct (r_disposition r && x) end);
    msimp; rewrite ?Hind; msimp; repeat (rewrite Hmode; msimp);
    destruct clo; msimp;
    unfold prepare_finished_pdu, handle_finished_pdu_sent, mode_is, tmode, conf, gp; msimp;
    repeat (rewrite Hmode; msimp); reflexivity.
Qed.

Lemma expire_limit : forall fstat fcond disp c nw lg,
  Z.of_nat L <= c + 1 ->
  let fstat' := if del then FS_DISCARDED_DELIBERATELY else fstat in
  expire_d ms (cst fstat fcond disp c nw lg) =
    (fin_state fstat' (ms + nw) (ign :: lg), Ok (if clo then [finished fstat'] else [])).
Proof.
  intros fstat fcond disp c nw lg Hge fstat'.
  unfold expire_d, cst, mk. nsm.
  rewrite dsm_none by reflexivity. unfold catch_abandoned at 1, catch.
  match goal with |- context[non_idle_fsm 3 None ?st] =>
    change st with (mk DS_RECV_WITH_CHECK_LIMIT 0 [] fstat fcond disp (Some (nw, ms)) c (ms + nw) lg) end.
  rewrite (nif_limit 2 fstat fcond disp c nw lg Hge). fold fstat'.
  unfold fin_state. destruct clo; reflexivity.
Qed.

(* m expiries below the limit: nothing but the counter, the timer, the clock and the log changes *)
Lemma expires_counts : forall fstat fcond disp m c nw lg,
  c + Z.of_nat m < Z.of_nat L ->
  expires_d m ms (cst fstat fcond disp c nw lg) =
    (cst fstat fcond disp (c + Z.of_nat m) (nw + Z.of_nat m * ms) (repeat ign m ++ lg), Ok (repeat [] m)).
Proof.
  intros fstat fcond disp. induction m as [|m IH]; intros c nw lg Hlt.
  - cbn [expires_d repeat app]. replace (c + Z.of_nat 0) with c by lia. replace (nw + Z.of_nat 0 * ms) with nw by lia.
    reflexivity.
  - cbn [expires_d]. rewrite expire_counts by lia. rewrite IH by lia.
    replace (c + 1 + Z.of_nat m) with (c + Z.of_nat (S m)) by lia.
    replace (ms + nw + Z.of_nat m * ms) with (nw + Z.of_nat (S m) * ms) by lia.
    rewrite repeat_shift. reflexivity.
Qed.

Lemma closed_from_cst : forall fstat fcond disp nw lg,
  (1 <= L)%nat ->
  let fstat' := if del then FS_DISCARDED_DELIBERATELY else fstat in
  expires_d L ms (cst fstat fcond disp 0 nw lg) =
    (fin_state fstat' (nw + Z.of_nat L * ms) (repeat ign L ++ lg),
     Ok (repeat [] (L - 1) ++ [if clo then [finished fstat'] else []])).
Proof.
  intros fstat fcond disp nw lg HL fstat'.
  pose proof (expires_counts fstat fcond disp (L - 1) 0 nw lg) as H1.
  pose proof (expire_limit fstat fcond disp (0 + Z.of_nat (L - 1)) (nw + Z.of_nat (L - 1) * ms) (repeat ign (L - 1) ++ lg))
    as H2.
  cbv zeta in H2. fold fstat' in H2.
  replace L with ((L - 1) + 1)%nat at 1 by lia.
  rewrite (expires_d_app (L - 1) 1 ms _ _ _ _ _ (H1 ltac:(lia)) (expires_d_one _ _ _ _ (H2 ltac:(lia)))).
  replace (ms + (nw + Z.of_nat (L - 1) * ms)) with (nw + Z.of_nat L * ms)
    by (replace (Z.of_nat L) with (Z.of_nat (L - 1) + 1) by lia; ring).
  assert (repeat ign L = ign :: repeat ign (L - 1)) as ->
    by (replace L with (S (L - 1)) at 1 by lia; reflexivity).
  reflexivity.
Qed.
End CheckLimit.

(* the general form: any delivery code in the Finished fields (it is DATA_INCOMPLETE in every state reached by an
   EOF that did not verify; the file is deleted only then) *)
Lemma dest_check_limit_closed_gen : forall (L : nat) (s : dst) (r : rcfg) (a b : Z) (d : bytes) (ck : bytes),
  (1 <= L)%nat -> r_check_limit r = Z.of_nat L ->
  d_state s = ST_BUSY -> d_step s = DS_RECV_WITH_CHECK_LIMIT -> d_queue s = [] -> d_ready s = 0 ->
  h_mode (p_conf (d_p s)) = UNACKED -> p_rcfg (d_p s) = Some r -> p_tid (d_p s) = Some (a, b) ->
  p_check_timer (d_p s) = Some (now_d s, l_check_ms (d_cfg s)) -> p_check_count (d_p s) = 0 ->
  p_md_only (d_p s) = false ->
  p_cktype (d_p s) <> CK_NULL ->
  lookup (fs_d s) (p_file_name (d_p s)) = Some (File d) ->
  calculate_checksum (p_cktype (d_p s)) (Some d) (p_progress (d_p s)) 4096 = Ok ck -> ck <> p_crc32 (d_p s) ->
  get_fault_handler (l_faults (d_cfg s)) C_CHECKSUM_FAILURE = Some FH_IGNORE ->
  get_fault_handler (l_faults (d_cfg s)) C_CHECK_LIMIT = Some FH_CANCEL ->
  let ms := l_check_ms (d_cfg s) in
  let h := set_dir TOWARDS_SENDER (p_conf (d_p s)) in
  let f := p_fin (d_p s) in
  let del := r_disposition r && (f_deliv f =? DATA_INCOMPLETE) in
  let fstatus' := if del then FS_DISCARDED_DELIBERATELY else f_fstatus f in
  let fin := PFinished h C_CHECK_LIMIT (f_deliv f) fstatus' (f_fl f) in
  let ign := EvFault FH_IGNORE a b C_CHECKSUM_FAILURE (p_progress (d_p s)) in
  exists s',
    expires_d L ms s = (s', Ok (repeat [] (L - 1) ++ [if p_closure (d_p s) then [fin] else []])) /\
    d_state s' = ST_IDLE /\ d_step s' = DS_IDLE /\ d_queue s' = [] /\ d_ready s' = 0 /\ d_p s' = fresh_params /\
    d_cfg s' = d_cfg s /\ now_d s' = now_d s + Z.of_nat L * ms /\
    fs_d s' = (if del then fst (fs_delete_file (fs_d s) (p_file_name (d_p s))) else fs_d s) /\
    log_d s' = (if l_ind_fin (d_cfg s) then [EvFinished a b C_CHECK_LIMIT (f_deliv f) fstatus' (f_fl f)] else []) ++
               EvFault FH_CANCEL a b C_CHECK_LIMIT (p_progress (d_p s)) :: repeat ign L ++ log_d s.
Proof.
  intros L s r a b d ck HL Hlim Hst Hstep Hq Hrd Hmode Hr Htid Ht Hc Hmdo Hnull Hlook Hck Hne Hfh5 Hfh10
    ms h f del0 fstatus' fin ign0.
  subst ms h f del0 fstatus' fin ign0. unfold now_d, fs_d, log_d in *.
  ddst s. cbn in HL, Hlim, Hst, Hstep, Hq, Hrd, Hmode, Hr, Htid, Ht, Hc, Hmdo, Hnull, Hlook, Hck, Hne, Hfh5, Hfh10 |- *.
  subst st step q ready rc tid ckc mdo. subst ckt.
  pose proof (closed_from_cst L r a b cfg stid clo ckty deliv ffl cf pr crc fsz fname fse trk mdm ls le dfr prt nakc
                ackt ackc rw fs d ck Hlim Hmode Hnull Hlook Hck Hne Hfh5 Hfh10 fstat fcond disp nw lg HL) as H.
  unfold cst, mk, ign, fin_state, finished, del in H. cbv zeta in H.
  eexists. split; [exact H|]. cbn. repeat split; reflexivity.
Qed.

Lemma dest_check_limit_closed : forall (L : nat) (s : dst) (r : rcfg) (a b : Z) (d : bytes) (ck : bytes),
  (1 <= L)%nat -> r_check_limit r = Z.of_nat L ->
  d_state s = ST_BUSY -> d_step s = DS_RECV_WITH_CHECK_LIMIT -> d_queue s = [] -> d_ready s = 0 ->
  h_mode (p_conf (d_p s)) = UNACKED -> p_rcfg (d_p s) = Some r -> p_tid (d_p s) = Some (a, b) ->
  p_check_timer (d_p s) = Some (now_d s, l_check_ms (d_cfg s)) -> p_check_count (d_p s) = 0 ->
  p_md_only (d_p s) = false -> f_deliv (p_fin (d_p s)) = DATA_INCOMPLETE ->
  (* the file as it is does not verify, and nothing arrives any more *)
  p_cktype (d_p s) <> CK_NULL ->
  lookup (fs_d s) (p_file_name (d_p s)) = Some (File d) ->
  calculate_checksum (p_cktype (d_p s)) (Some d) (p_progress (d_p s)) 4096 = Ok ck -> ck <> p_crc32 (d_p s) ->
  get_fault_handler (l_faults (d_cfg s)) C_CHECKSUM_FAILURE = Some FH_IGNORE ->
  get_fault_handler (l_faults (d_cfg s)) C_CHECK_LIMIT = Some FH_CANCEL ->
  let ms := l_check_ms (d_cfg s) in
  let h := set_dir TOWARDS_SENDER (p_conf (d_p s)) in
  let f := p_fin (d_p s) in
  let fstatus' := if r_disposition r then FS_DISCARDED_DELIBERATELY else f_fstatus f in
  let fin := PFinished h C_CHECK_LIMIT DATA_INCOMPLETE fstatus' (f_fl f) in
  let ign := EvFault FH_IGNORE a b C_CHECKSUM_FAILURE (p_progress (d_p s)) in
  (* expiries 1 .. L-1 only count *)
  (forall k, (k < L)%nat ->
     expires_d k ms s =
       (s <| d_p ::= (fun p => p <| p_check_count := Z.of_nat k |>
                                 <| p_check_timer := Some (now_d s + Z.of_nat k * ms, ms) |>) |>
          <| d_env ::= (fun e => e <| e_now := now_d s + Z.of_nat k * ms |> <| e_log := repeat ign k ++ log_d s |>) |>,
        Ok (repeat [] k))) /\
  (* the L-th declares Check Limit Reached and completes the cancelled transaction *)
  exists s',
    expires_d L ms s = (s', Ok (repeat [] (L - 1) ++ [if p_closure (d_p s) then [fin] else []])) /\
    d_state s' = ST_IDLE /\ d_step s' = DS_IDLE /\ d_queue s' = [] /\ d_ready s' = 0 /\ d_p s' = fresh_params /\
    d_cfg s' = d_cfg s /\ now_d s' = now_d s + Z.of_nat L * ms /\
    fs_d s' = (if r_disposition r then fst (fs_delete_file (fs_d s) (p_file_name (d_p s))) else fs_d s) /\
    log_d s' = (if l_ind_fin (d_cfg s) then [EvFinished a b C_CHECK_LIMIT DATA_INCOMPLETE fstatus' (f_fl f)] else []) ++
               EvFault FH_CANCEL a b C_CHECK_LIMIT (p_progress (d_p s)) :: repeat ign L ++ log_d s.
Proof.
  intros L s r a b d ck HL Hlim Hst Hstep Hq Hrd Hmode Hr Htid Ht Hc Hmdo Hdel Hnull Hlook Hck Hne Hfh5 Hfh10
    ms h f fstatus' fin ign0.
  subst ms h f fstatus' fin ign0. unfold now_d, fs_d, log_d in *.
  ddst s. cbn in HL, Hlim, Hst, Hstep, Hq, Hrd, Hmode, Hr, Htid, Ht, Hc, Hmdo, Hdel, Hnull, Hlook, Hck, Hne, Hfh5, Hfh10 |- *.
  subst st step q ready rc tid ckc mdo deliv. subst ckt.
  split.
  - intros k Hk.
    pose proof (expires_counts L r a b cfg stid clo ckty DATA_INCOMPLETE ffl cf pr crc fsz fname fse trk mdm ls le dfr prt nakc
                  ackt ackc rw fs d ck Hlim Hnull Hlook Hck Hne Hfh5 fstat fcond disp k 0 nw lg ltac:(lia)) as H.
    unfold cst, mk, ign in H. rewrite H.
    replace (0 + Z.of_nat k) with (Z.of_nat k) by lia. reflexivity.
  - pose proof (closed_from_cst L r a b cfg stid clo ckty DATA_INCOMPLETE ffl cf pr crc fsz fname fse trk mdm ls le dfr prt nakc
                  ackt ackc rw fs d ck Hlim Hmode Hnull Hlook Hck Hne Hfh5 Hfh10 fstat fcond disp nw lg HL) as H.
    unfold cst, mk, ign, fin_state, finished, del in H. cbv zeta in H.
    change (DATA_INCOMPLETE =? DATA_INCOMPLETE) with true in H. rewrite andb_true_r in H.
    eexists. split; [exact H|]. cbn. repeat split; reflexivity.
Qed.
Print Assumptions dest_check_limit_closed.

(* ------------------------------------------------------------------ the hypotheses are satisfiable: a fresh handler
   that gets Metadata, the first of two segments and the EOF (the second segment never arrives) is in such a state *)
Definition ex_r (L : Z) (clo disp : bool) : rcfg :=
  mkRcfg 1 2 (Some 16) 64 clo false UNACKED CK_CRC32 1000 2 L disp false 1000 2.
Definition ex_l (L : Z) (clo disp fin : bool) : lcfg :=
  mkLcfg 2 2 true true true fin default_fault_table 700 [ex_r L clo disp].
Definition ex_h : hdr := mkHdr TOWARDS_RECEIVER UNACKED false false 1 2 2 5 2.
Definition ex_run (ops : list pdu) (s : dst) : dst * res Z unit :=
  fold_left (fun acc p => match acc with (s, Ok _) => Dest.state_machine (Some p) s | x => x end) ops (s, Ok tt).
Definition ex_state (L : Z) (clo disp fin : bool) : dst * res Z unit :=
  ex_run [PMetadata ex_h clo CK_CRC32 32 (Some ([1], [2])) [];
          PFileData ex_h 0 [1; 2; 3; 4; 5; 6; 7; 8; 9; 10; 11; 12; 13; 14; 15; 16];
          PEof ex_h C_NO_ERROR [1; 2; 3; 4] 32 None] (dst_init (ex_l L clo disp fin)).

Example hypotheses_reachable :
  forallb (fun x : Z * bool * bool * bool =>
    let '(L, clo, disp, fin) := x in
    match ex_state L clo disp fin with
    | (s, Ok _) =>
        (d_state s =? ST_BUSY) && (d_step s =? DS_RECV_WITH_CHECK_LIMIT) && (zlen (d_queue s) =? 0) && (d_ready s =? 0) &&
        (h_mode (p_conf (d_p s)) =? UNACKED) &&
        match p_rcfg (d_p s), p_tid (d_p s), p_check_timer (d_p s), lookup (fs_d s) (p_file_name (d_p s)) with
        | Some r, Some (1, 5), Some (t0, tmo), Some (File d) =>
            (r_check_limit r =? L) && (t0 =? now_d s) && (tmo =? l_check_ms (d_cfg s)) &&
            match calculate_checksum (p_cktype (d_p s)) (Some d) (p_progress (d_p s)) 4096 with
            | Ok ck => negb (bytes_eqb ck (p_crc32 (d_p s)))
            | Err _ => false
            end
        | _, _, _, _ => false
        end &&
        (p_check_count (d_p s) =? 0) && negb (p_md_only (d_p s)) && (f_deliv (p_fin (d_p s)) =? DATA_INCOMPLETE) &&
        negb (p_cktype (d_p s) =? CK_NULL)
    | _ => false
    end)
    [(1, true, true, true); (2, true, false, true); (3, false, true, false); (2, false, false, true)] = true.
Proof. vm_compute. reflexivity. Qed.

(* and the closed form evaluated: L = 2, closure, disposition-on-cancellation, Transaction-Finished enabled *)
Example closed_form_instance :
  match ex_state 2 true true true with
  | (s, Ok _) =>
      match expires_d 2 700 s with
      | (s', Ok out) =>
          (out, d_state s', d_step s', fs_d s', firstn 5 (log_d s')) =
          ([[]; [PFinished (set_dir TOWARDS_SENDER ex_h) C_CHECK_LIMIT DATA_INCOMPLETE FS_DISCARDED_DELIBERATELY None]],
           ST_IDLE, DS_IDLE, [],
           [EvFinished 1 5 C_CHECK_LIMIT DATA_INCOMPLETE FS_DISCARDED_DELIBERATELY None;
            EvFault FH_CANCEL 1 5 C_CHECK_LIMIT 16;
            EvFault FH_IGNORE 1 5 C_CHECKSUM_FAILURE 16; EvFault FH_IGNORE 1 5 C_CHECKSUM_FAILURE 16;
            EvFault FH_IGNORE 1 5 C_CHECKSUM_FAILURE 16])
      | _ => False
      end
  | _ => False
  end.
Proof. vm_compute. reflexivity. Qed.
