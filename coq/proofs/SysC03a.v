(* Kernel-checked exhaustive instance of C03, K <= 1: every single link fault (drop / duplicate / delay by 2 rounds of
   the i-th PDU, i < 12, either direction) on files of 0 / 5 / 9 bytes, both NAK modes, closure on/off, limits 4. *)
From CFDP Require Import Base Checksum Handler Dest Source System SystemCases.
Definition c03_k1_space : list (bool * (bool * Z)) := list_prod [false; true] (list_prod [false; true] [0; 5; 9]).
Lemma c03_k0_small : forallb (fun '(cl, (imm, size)) => c03_case cl imm size 0 []) c03_k1_space = true.
Proof. vm_compute. reflexivity. Qed.
Lemma c03_k1_small :
  forallb (fun '(cl, (imm, size)) => forallb (fun f => c03_case cl imm size 1 [f]) (fault_space 12)) c03_k1_space = true.
Proof. vm_compute. reflexivity. Qed.
