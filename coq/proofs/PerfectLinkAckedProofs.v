(* PerfectLinkAckedProofs.v — proof for the unbounded part of property C02 in acknowledged mode (props/C02a.v):
   over a fault-free link the two-entity system of System.v delivers EVERY file with EVERY configuration in
   acknowledged mode (closure requested or not, immediate or deferred NAK mode).  Same composition as
   PerfectLinkProofs.v (whose sender invariant, symbolic interpreter of the receiver monad and scheduler lemmas are
   reused), plus the tail of the acknowledged protocol: ACK(EOF), Finished, ACK(Finished), notice of completion.
   No axioms. *)
From CFDP Require Import Base LostSeg Fs Crc Checksum Handler Dest Source HandlerSpec SourceSpec System.
From CFDP.gen Require Import Tables.
From CFDP.proofs Require Import ChecksumProofs FsProofs StreamProofs PerfectLinkProofs.
From RecordUpdate Require Import RecordSet.
Import RecordSetNotations.

(* arithmetic stays folded unless both arguments are literals *)
Local Arguments Z.add : simpl never. Local Arguments Z.sub : simpl never. Local Arguments Z.mul : simpl never.
Local Arguments Z.pow : simpl never. Local Arguments Z.div : simpl never. Local Arguments Z.min : simpl never.
Local Arguments Z.max : simpl never. Local Arguments Z.to_nat : simpl never.
Local Arguments Z.ltb !x !y : simpl nomatch. Local Arguments Z.leb !x !y : simpl nomatch.
Local Arguments Z.eqb !x !y : simpl nomatch. Local Arguments Z.of_nat !n : simpl nomatch.
Local Arguments write_at : simpl never.
Local Arguments set_node : simpl never.
Local Opaque calculate_checksum.

(* ================================================================== *)
(* 1. the sender in acknowledged mode, call by call                    *)
(* ================================================================== *)
Section SenderSide.
Local Arguments max_file_seg_len : simpl never.
Local Arguments lookup : simpl never.

Section Sender.
Variables (c : lcfg) (p : putreq) (r : rcfg) (fs : tree) (d cks : bytes) (cf : sconf)
          (seg : Z) (clo : bool) (tid : Z * Z) (sn dn : path).
Hypothesis Hnames : pr_names p = Some (sn, dn).
Hypothesis Hlook : lookup fs sn = Some (File d).
Hypothesis Hseg : 1 <= seg.
Hypothesis Hm : sc_mode cf = ACKED.
Hypothesis Hck : calculate_checksum (r_cktype r) (Some d) (zlen d) seg = Ok cks.
Hypothesis Hfin : l_ind_fin c = true.
Hypothesis Hack : 0 < r_ack_ms r.
Hypothesis Hsrc : sc_src cf = l_id c.
Hypothesis Hdst : sc_dst cf = r_id r.

(* while file data is being sent: the invariant of StreamProofs.v, a clean log, no Finished PDU seen, no check timer *)
Definition InvA (off : Z) (s : src) : Prop :=
  Inv c p r fs d cf seg clo tid off s /\ clean (e_log (s_env s)) /\ q_fin (s_p s) = None /\
  q_check_timer (s_p s) = None.

Lemma InvA_busy : forall off s, InvA off s -> s_state s = ST_BUSY.
Proof. intros off s [(_&H&_) _]. exact H. Qed.
Lemma InvA_range : forall off s, InvA off s -> 0 <= off <= zlen d.
Proof. intros off s [(_&_&_&_&_&_&_&_&_&_&_&_&_&_&_&H&_) _]. exact H. Qed.

Lemma step_fd_a : forall off s, InvA off s -> off < zlen d ->
  exists s', pump s = (s', Ok [fd_of (hdr_of cf TOWARDS_RECEIVER) (off, ztake seg (zdrop off d))]) /\
             InvA (off + Z.min seg (zlen d - off)) s'.
Proof.
  intros off s [HI [Hcl [Hqf Hct]]] Hlt.
  destruct HI as (H1&H2&H3&H4&H5&H6&H7&H8&H9&H10&H11&H12&H13&H14&H15&H16&H17).
  destruct s as [cfg st step ready queue q sb pt sc sbits [nw fs' rw lg]].
  destruct q. cbn in H1,H2,H3,H4,H5,H6,H7,H8,H9,H10,H11,H12,H13,H14,H15,Hcl,Hqf,Hct. subst.
  unfold pump, pump_with, state_machine_s.
  assert (E1 : (off <? zlen d) = true) by (apply Z.ltb_lt; lia).
  assert (E2 : (off =? zlen d) = false) by (apply Z.eqb_neq; lia).
  assert (E3 : (zlen d =? 0) = false) by (apply Z.eqb_neq; lia).
  destruct H15 as [[Hs _]|Hs]; subst step;
    repeat (progress (sx; rewrite ?Hnames, ?Hlook, ?Hm, ?E1, ?E2, ?E3;
                      unfold fsm_non_idle, fsm_advancement_s, sending_file_data_fsm, handle_retransmission,
                        prepare_progressing_file_data_pdu, prepare_file_data_pdu, fs_read_data));
    rewrite (read_len_eq (zlen d) seg off) by lia; rewrite ztake_min by lia;
    (eexists; split; [reflexivity|]);
    (split; [|split; [exact Hcl | split; reflexivity]]);
    unfold Inv; cbn; repeat split; try reflexivity; try lia;
    try (right; reflexivity).
Qed.

Local Opaque checksum_calculation.

(* the handler between two calls after the EOF PDU: waiting in [step], the Finished PDU parameters [qf] *)
Definition Tail (step : Z) (qf : option (Z * Z * Z * option (Z * Z))) (s : src) : Prop :=
  s_cfg s = c /\ s_state s = ST_BUSY /\ s_step s = step /\ s_queue s = [] /\ s_put s = Some p /\
  q_conf (s_p s) = cf /\ q_rcfg (s_p s) = Some r /\ q_tid (s_p s) = Some tid /\ q_check_timer (s_p s) = None /\
  q_fin (s_p s) = qf /\ clean (e_log (s_env s)).

Ltac unf_final :=
  unfold fsm_non_idle, fsm_advancement_s, sending_file_data_fsm, handle_retransmission,
    prepare_eof_pdu, handle_eof_sent, start_positive_ack_procedure_s, handle_waiting_for_ack,
    handle_positive_ack_procedures_s, handle_wait_for_finish, notice_of_completion_s, sreset_internal.

(* the call after the last tile: EOF PDU, Positive-ACK timer started (not expired: its interval is positive) *)
Lemma step_final_a : forall s, InvA (zlen d) s ->
  exists s', pump s = (s', Ok [PEof (hdr_of cf TOWARDS_RECEIVER) C_NO_ERROR cks (zlen d) None]) /\
             Tail SS_WAITING_FOR_EOF_ACK None s'.
Proof.
  intros s [HI [Hcl [Hqf Hct]]].
  destruct HI as (H1&H2&H3&H4&H5&H6&H7&H8&H9&H10&H11&H12&H13&H14&H15&H16&H17).
  destruct s as [cfg st step ready queue q sb pt sc sbits [nw fs' rw lg]].
  destruct q. cbn in H1,H2,H3,H4,H5,H6,H7,H8,H9,H10,H11,H12,H13,H14,H15,Hcl,Hqf,Hct. subst.
  unfold pump, pump_with, state_machine_s.
  assert (E1 : (zlen d <? zlen d) = false) by (apply Z.ltb_irrefl).
  assert (E4 : zlen d = 0 -> (zlen d =? 0) = true) by (intro Hz; apply Z.eqb_eq; exact Hz).
  assert (E5 : (r_ack_ms r <=? 0) = false) by (apply Z.leb_gt; exact Hack).
  destruct (l_ind_eof_sent c) eqn:Ee;
  (destruct H15 as [[Hs Hz]|Hs]; subst step; [pose proof (E4 Hz) as E7 | pose proof E1 as E7]);
  repeat (progress (sx; rewrite ?Hnames, ?Hlook, ?Hm, ?Ee, ?Hfin, ?zsub_diag, ?zeqb_refl, ?E1, ?E7, ?E5;
                    rewrite ?(cc_ok p r fs d cks seg sn dn Hnames Hlook Hck) by reflexivity; unf_final));
  (eexists; split; [reflexivity|]); unfold Tail; cbn;
  repeat (split; [reflexivity|]);
  repeat (apply clean_cons; [reflexivity|reflexivity|]); exact Hcl.
Qed.

(* ACK(EOF) arrives: the handler now waits for the Finished PDU *)
Lemma step_ack_eof : forall s cond st, Tail SS_WAITING_FOR_EOF_ACK None s ->
  exists s', pump_with (Some (PAck (hdr_of cf TOWARDS_SENDER) D_EOF cond st)) s = (s', Ok []) /\
             Tail SS_WAITING_FOR_FINISHED None s'.
Proof.
  intros s cond st0 (H1&H2&H3&H4&H5&H6&H7&H8&H9&H10&H11).
  destruct s as [cfg st step ready queue q sb pt sc sbits [nw fs' rw lg]].
  destruct q. cbn in H1,H2,H3,H4,H5,H6,H7,H8,H9,H10,H11. subst.
  unfold pump_with, state_machine_s, check_inserted_packet_s.
  repeat (progress (sx; rewrite ?Hm, ?Hsrc, ?Hdst, ?zeqb_refl; unf_final)).
  eexists; split; [reflexivity|]. unfold Tail; cbn.
  repeat (split; [reflexivity|]). exact H11.
Qed.

(* the Finished PDU arrives: it is acknowledged *)
Lemma step_finished : forall s fstat, Tail SS_WAITING_FOR_FINISHED None s ->
  exists s', pump_with (Some (PFinished (hdr_of cf TOWARDS_SENDER) C_NO_ERROR DATA_COMPLETE fstat None)) s =
               (s', Ok [PAck (hdr_of cf TOWARDS_RECEIVER) D_FINISHED C_NO_ERROR TS_ACTIVE]) /\
             Tail SS_SENDING_ACK_OF_FINISHED (Some (C_NO_ERROR, DATA_COMPLETE, fstat, None)) s'.
Proof.
  intros s fstat (H1&H2&H3&H4&H5&H6&H7&H8&H9&H10&H11).
  destruct s as [cfg st step ready queue q sb pt sc sbits [nw fs' rw lg]].
  destruct q. cbn in H1,H2,H3,H4,H5,H6,H7,H8,H9,H10,H11. subst.
  unfold pump_with, state_machine_s, check_inserted_packet_s.
  repeat (progress (sx; rewrite ?Hm, ?Hsrc, ?Hdst, ?zeqb_refl; unf_final)).
  eexists; split; [reflexivity|]. unfold Tail; cbn.
  repeat (split; [reflexivity|]). exact H11.
Qed.

(* the call after ACK(Finished) was retrieved: Transaction-Finished indication, back to IDLE *)
Lemma step_done : forall s fstat, Tail SS_SENDING_ACK_OF_FINISHED (Some (C_NO_ERROR, DATA_COMPLETE, fstat, None)) s ->
  exists s' lg0, pump s = (s', Ok []) /\ s_state s' = ST_IDLE /\
             e_log (s_env s') = EvFinished (fst tid) (snd tid) C_NO_ERROR DATA_COMPLETE fstat None :: lg0 /\
             clean lg0.
Proof.
  intros s fstat (H1&H2&H3&H4&H5&H6&H7&H8&H9&H10&H11).
  destruct s as [cfg st step ready queue q sb pt sc sbits [nw fs' rw lg]].
  destruct q. cbn in H1,H2,H3,H4,H5,H6,H7,H8,H9,H10,H11. subst.
  unfold pump, pump_with, state_machine_s.
  repeat (progress (sx; rewrite ?Hm, ?Hfin; unf_final)).
  eexists; eexists; split; [reflexivity|]. cbn.
  split; [reflexivity|]. split; [reflexivity|]. exact H11.
Qed.

End Sender.

Lemma md_pump_a : forall c p r fs d cf seg clo tid sn dn, pr_names p = Some (sn, dn) ->
  forall s, InvA c p r fs d cf seg clo tid 0 s ->
  exists s3,
    (match prepare_metadata_pdu s with
     | (s'', Ok _) => let '(s3, ps) := drain_s s'' in (s3, Ok ps)
     | (s'', Err e) => (s'', Err e)
     end) =
    (s3, Ok [PMetadata (hdr_of cf TOWARDS_RECEIVER) clo (r_cktype r) (zlen d) (Some (sn, dn))
               (match pr_msgs p with Some l => l | None => [] end)]) /\
    InvA c p r fs d cf seg clo tid 0 s3.
Proof.
  intros c p r fs d cf seg clo tid sn dn Hnames s [HI [Hcl [Hqf Hct]]].
  destruct HI as (H1&H2&H3&H4&H5&H6&H7&H8&H9&H10&H11&H12&H13&H14&H15&H16&H17).
  destruct s as [cfg st step ready queue q sb pt sc sbits [nw fs' rw lg]].
  destruct q. cbn in H1,H2,H3,H4,H5,H6,H7,H8,H9,H10,H11,H12,H13,H14,H15,Hcl,Hqf,Hct. subst.
  unfold prepare_metadata_pdu, drain_s.
  repeat (progress (sx; rewrite ?Hnames)).
  eexists. split; [reflexivity|].
  split; [|split; [exact Hcl|split; reflexivity]].
  unfold Inv; cbn. repeat split; try reflexivity; try lia; exact H15.
Qed.

Lemma ts_ok_a : forall (c : lcfg) (seq0 bits : Z) (fs : tree) (p : putreq) (r : rcfg) (sn dn : path) (d : bytes)
    (mode : Z) (clo : bool),
  let w := Z.max (l_idw c) (pr_dstw p) in
  let large := 4294967295 <? zlen d in
  let derived := r_max_packet r - (4 + 2 * w + bits / 8) - (if large then 8 else 4) - (if r_crc r then 2 else 0) in
  let seg := match r_max_seg r with Some m => Z.min m derived | None => derived end in
  let cf := mkSconf (l_id c) w (pr_dst p) w seq0 (bits / 8) mode large (r_crc r) in
  pr_names p = Some (sn, dn) -> lookup fs sn = Some (File d) ->
  (bits = 8 \/ bits = 16 \/ bits = 32) -> 0 <= seq0 < 2 ^ bits ->
  1 <= seg -> 6 <= derived ->
  exists s2,
    transaction_start (st1 c p r fs seq0 bits mode clo SS_TRANSACTION_START) = (s2, Ok tt) /\
    InvA c p r fs d cf seg clo (l_id c, seq0) 0 (s2 <| s_step := SS_SENDING_METADATA |>).
Proof.
  intros c seq0 bits fs p r sn dn d mode clo w large derived seg cf Hn Hl Hb Hs Hseg Hd6.
  assert (Hd : 1 <= derived).
  { unfold seg in Hseg. destruct (r_max_seg r); lia. }
  destruct p as [dst dstw pm pc pn pmsg]. cbn in Hn, w, cf. subst pn.
  subst cf seg derived large w.
  unfold st1.
  assert (Hlen : 0 <= zlen d) by (unfold zlen; lia).
  assert (E2 : (2 ^ bits <=? seq0) = false) by (apply Z.leb_gt; lia).
  assert (E3 : (bits =? 8) || (bits =? 16) || (bits =? 32) = true).
  { destruct Hb as [Hb|[Hb|Hb]]; subst bits; reflexivity. }
  unfold transaction_start.
  destruct (zlen d =? 0) eqn:Ez.
  - pose proof Ez as Ez'. apply Z.eqb_eq in Ez'. rewrite Ez' in Hd, Hd6. cbn in Hd, Hd6.
    repeat (progress (sx; rewrite ?Hl, ?Ez, ?E2, ?E3;
                      rewrite ?mfsl_ok by (unfold hdr_len, fss_len, crc_len; cbn; lia);
                      rewrite ?eof_fits_pl by (unfold hdr_len, fss_len, crc_len; cbn; lia);
                      unfold fs_file_exists, exists_, fs_file_size)).
    unfold InvA, Inv. rewrite Ez'. eexists. split; [reflexivity|]. unfold set; cbn.
    split; [|split; [apply clean_cons; [reflexivity|reflexivity|apply clean_nil]|split; reflexivity]].
    repeat split; try reflexivity; try lia; try (left; split; reflexivity).
    unfold hdr_len, crc_len. cbn.
    destruct (r_max_seg r) as [m|]; [|lia].
    destruct (m <? _) eqn:E; [apply Z.ltb_lt in E | apply Z.ltb_ge in E]; lia.
  - pose proof Ez as Ez'. apply Z.eqb_neq in Ez'.
    repeat (progress (sx; rewrite ?Hl, ?Ez, ?E2, ?E3;
                      rewrite ?mfsl_ok by (unfold hdr_len, fss_len, crc_len; cbn; lia);
                      rewrite ?eof_fits_pl by (unfold hdr_len, fss_len, crc_len; cbn; lia);
                      unfold fs_file_exists, exists_, fs_file_size)).
    unfold InvA, Inv. eexists. split; [reflexivity|]. unfold set; cbn.
    split; [|split; [apply clean_cons; [reflexivity|reflexivity|apply clean_nil]|split; reflexivity]].
    repeat split; try reflexivity; try lia; try (left; split; reflexivity).
    unfold hdr_len, crc_len, fss_len. cbn.
    destruct (r_max_seg r) as [m|]; [|lia].
    destruct (m <? _) eqn:E; [apply Z.ltb_lt in E | apply Z.ltb_ge in E]; lia.
Qed.

(* the first call on the handler that accepted the put request: Metadata PDU *)
Lemma first_call_a : forall (c : lcfg) (seq0 bits : Z) (fs : tree) (p : putreq) (r : rcfg) (sn dn : path) (d : bytes),
  let w := Z.max (l_idw c) (pr_dstw p) in
  let large := 4294967295 <? zlen d in
  let derived := r_max_packet r - (4 + 2 * w + bits / 8) - (if large then 8 else 4) - (if r_crc r then 2 else 0) in
  let seg := match r_max_seg r with Some m => Z.min m derived | None => derived end in
  let cf := mkSconf (l_id c) w (pr_dst p) w seq0 (bits / 8) ACKED large (r_crc r) in
  let clo := match pr_closure p with Some b => b | None => r_closure r end in
  get_remote (l_remotes c) (pr_dst p) = Some r ->
  pr_names p = Some (sn, dn) -> lookup fs sn = Some (File d) ->
  (match pr_mode p with Some m => m | None => r_mode r end) = ACKED ->
  (bits = 8 \/ bits = 16 \/ bits = 32) -> 0 <= seq0 < 2 ^ bits -> 1 <= seg -> 6 <= derived ->
  exists s1 s3,
    put_request p (src_fresh c seq0 bits fs) = (s1, Ok true) /\
    pump s1 = (s3, Ok [PMetadata (hdr_of cf TOWARDS_RECEIVER) clo (r_cktype r) (zlen d) (Some (sn, dn))
                         (match pr_msgs p with Some l => l | None => [] end)]) /\
    InvA c p r fs d cf seg clo (l_id c, seq0) 0 s3.
Proof.
  intros c seq0 bits fs p r sn dn d w large derived seg cf clo Hr Hn Hl Hmode Hb Hs Hseg Hd6.
  destruct (ts_ok_a c seq0 bits fs p r sn dn d ACKED clo Hn Hl Hb Hs Hseg Hd6) as [s2 [T1 T2]].
  fold w large cf in T2. fold derived in T2. fold seg in T2.
  destruct (md_pump_a c p r fs d cf seg clo (l_id c, seq0) sn dn Hn _ T2) as [s3 [M1 M2]].
  eexists. exists s3. split; [|split; [|exact M2]].
  - rewrite (pr_ok c seq0 bits fs p r sn dn d Hr Hn Hl), Hmode. reflexivity.
  - fold clo. rewrite pump_call1, T1. exact M1.
Qed.

Lemma get_remote_id : forall l id r, get_remote l id = Some r -> r_id r = id.
Proof.
  induction l as [|a l IH]; intros id r H; [discriminate|].
  cbn [get_remote] in H. destruct (r_id a =? id) eqn:E; [|exact (IH id r H)].
  inversion H; subst. apply Z.eqb_eq. exact E.
Qed.

End SenderSide.

(* ================================================================== *)
(* 2. the receiver in acknowledged mode: symbolic execution            *)
(* ================================================================== *)
Ltac dpr :=
  cbn [d_cfg d_state d_step d_states_tid d_ready d_queue d_p d_env
       p_tid p_rcfg p_check_timer p_check_count p_closure p_cktype p_fin p_disp p_conf p_progress p_crc32 p_file_size
       p_file_name p_file_size_eof p_md_only p_tracker p_md_missing p_last_start p_last_end p_deferred p_proc_timer
       p_nak_counter p_ack_timer p_ack_counter f_deliv f_fstatus f_cond f_fl e_now e_fs e_reject_writes e_log
       h_dir h_mode h_crc h_large h_src h_dst h_idw h_seq h_seqw fst snd opt_z].

Section ReceiverA.
Variables (cd : lcfg) (rd : rcfg) (x : Z) (crc large clo : bool) (srcid idw seq seqw ckt fsz : Z).
Hypothesis Hrem : get_remote (l_remotes cd) srcid = Some rd.
Hypothesis Hfin : l_ind_fin cd = true.
Hypothesis Hack : 0 < r_ack_ms rd.

Definition hA : hdr := mkHdr TOWARDS_RECEIVER ACKED crc large srcid (l_id cd) idw seq seqw.
Definition hB : hdr := mkHdr TOWARDS_SENDER ACKED crc large srcid (l_id cd) idw seq seqw.

Definition fin0 : fin := mkFin DATA_INCOMPLETE FS_RETAINED C_NO_ERROR None.
Definition fin1 : fin := mkFin DATA_COMPLETE FS_RETAINED C_NO_ERROR None.

(* the receiver's parameter block during an in-order acknowledged transfer: no lost segment, metadata present *)
Definition dpA (f : fin) (off : Z) (ck : bytes) (eof : option Z) (ls le : Z) (tm : option timer) : dparams :=
  mkDP (Some (srcid, seq)) (Some rd) None 0 clo ckt f DISP_COMPLETED hB off ck (Some fsz) [x] eof false [] false ls le
       false None 0 tm 0.
Definition dstA (step ready : Z) (q : list pdu) (pa : dparams) (fs : tree) (lg : list event) : dst :=
  mkDst cd ST_BUSY step (Some (srcid, seq)) ready q pa (mkEnv 0 fs false lg).

(* receiving file data: [off] bytes received in order, last segment [ls, le) *)
Definition DA (off ls le : Z) (fs : tree) (lg : list event) : dst :=
  dstA DS_RECEIVING_FILE_DATA 0 [] (dpA fin0 off [] None ls le None) fs lg.

Lemma check_a : forall pd s, d_cfg s = cd -> pdu_hdr pd = hA ->
  (d_state s = ST_IDLE /\ (exists cl ck sz names msgs, pd = PMetadata hA cl ck sz names msgs)) \/
  (d_state s = ST_BUSY /\ h_mode (p_conf (d_p s)) = ACKED /\ packet_destination pd = Some 1) ->
  check_inserted_packet pd s = (s, Ok tt).
Proof.
  intros pd s H1 Hh H2. unfold check_inserted_packet. rewrite b_get. cbv zeta.
  rewrite Hh. cbn [hA h_dir h_dst h_src h_mode]. rewrite H1, Hrem, !Z.eqb_refl.
  destruct H2 as [[H2 (cl & ck & sz & names & msgs & ->)] | [H2 [H3 H4]]].
  - rewrite H2. reflexivity.
  - rewrite H2, H3, H4. cbn. destruct (is_file_data pd); cbn; [reflexivity|].
    rewrite andb_false_r. reflexivity.
Qed.

Lemma init_vfs_run_a : forall base s, e_fs (d_env s) = [] -> p_file_name (d_p s) = [x] ->
  init_vfs_handling base s =
    (s <| d_p ::= (fun p => p <| p_file_name := [x] |>) |>
       <| d_env ::= (fun e => e <| e_fs := [([x], File [])] |>) |>
       <| d_p ::= (fun p => p <| p_fin ::= (fun f => f <| f_fstatus := FS_RETAINED |>) |>) |>, Ok tt).
Proof. exact (init_vfs_run x). Qed.

Lemma idle_md_a : forall sn msgs,
  idle_fsm (Some (PMetadata hA clo ckt fsz (Some (sn, [x])) msgs)) (dst_init cd) =
    (DA 0 0 0 [([x], File [])] [EvMetadataRecv srcid seq srcid (Some fsz) (Some (sn, [x])) msgs], Ok tt).
Proof.
  intros sn msgs. unfold idle_fsm, start_transaction, dst_init, fresh_params, hA.
  mrun. unfold common_first_packet_handler. mrun. rewrite Hrem.
  unfold handle_metadata_packet. mrun.
  erewrite b_ok by (apply init_vfs_run_a; reflexivity). mrun.
  reflexivity.
Qed.

Lemma fsm_adv_nop_a : forall s, d_queue s = [] -> d_step s <> DS_SENDING_EOF_ACK -> fsm_advancement s = (s, Ok tt).
Proof.
  intros s H1 H2. unfold fsm_advancement. rewrite b_get, H1.
  apply Z.eqb_neq in H2. rewrite H2. reflexivity.
Qed.

Lemma nif_md_a : forall fuel cl ck sz names msgs off ls le fs lg,
  non_idle_fsm (S fuel) (Some (PMetadata hA cl ck sz names msgs)) (DA off ls le fs lg) = (DA off ls le fs lg, Ok tt).
Proof.
  intros. cbn [non_idle_fsm].
  rewrite (b_ok _ _ _ _ _ (fsm_adv_nop_a (DA off ls le fs lg) eq_refl ltac:(discriminate))).
  unfold DA, dstA, dpA, hB. mrun. reflexivity.
Qed.

Lemma sm_md_a : forall sn msgs,
  Dest.state_machine (Some (PMetadata hA clo ckt fsz (Some (sn, [x])) msgs)) (dst_init cd) =
    (DA 0 0 0 [([x], File [])] [EvMetadataRecv srcid seq srcid (Some fsz) (Some (sn, [x])) msgs], Ok tt).
Proof.
  intros sn msgs. unfold Dest.state_machine.
  assert (C : check_inserted_packet (PMetadata hA clo ckt fsz (Some (sn, [x])) msgs) (dst_init cd) = (dst_init cd, Ok tt)).
  { apply check_a; [reflexivity|reflexivity|left; split; [reflexivity|repeat eexists]]. }
  rewrite (b_ok _ _ _ _ _ C).
  unfold catch_abandoned; apply catch_ok.
  unfold dst_init at 1. mrun. fold (dst_init cd).
  rewrite (b_ok _ _ _ _ _ (idle_md_a sn msgs)).
  unfold DA at 1, dstA, dpA, hB. mrun.
  apply nif_md_a.
Qed.

Lemma handle_fd_run_a : forall off ls data fs lg old, lookup fs [x] = Some (File old) -> 0 < zlen data ->
  handle_fd_pdu off data (DA off ls off fs lg) =
    (DA (Z.max (off + zlen data) off) off (off + zlen data) (set_node fs [x] (File (write_at old off data)))
            (if l_ind_seg cd then EvSegmentRecv srcid seq off (zlen data) :: lg else lg), Ok tt).
Proof.
  intros off ls data fs lg old Hl Hpos. unfold handle_fd_pdu, DA, dstA, dpA, hB, fin0. mrun.
  assert (E1 : (off + zlen data <=? off) = false) by (apply Z.leb_gt; lia).
  destruct (l_ind_seg cd); mrun; apply catch_ok; mrun; unfold lost_segment_handling; mrun;
    rewrite Z.ltb_irrefl; mrun; rewrite Z.leb_refl; mrun; rewrite E1; mrun;
    unfold vfs_write; mrun; cbn [e_fs]; unfold fs_write_data; rewrite Hl; cbv iota; mrun; reflexivity.
Qed.

Lemma nif_fd_a : forall fuel off ls data fs lg old, lookup fs [x] = Some (File old) -> 0 < zlen data ->
  non_idle_fsm (S fuel) (Some (PFileData hA off data)) (DA off ls off fs lg) =
    (DA (Z.max (off + zlen data) off) off (off + zlen data) (set_node fs [x] (File (write_at old off data)))
            (if l_ind_seg cd then EvSegmentRecv srcid seq off (zlen data) :: lg else lg), Ok tt).
Proof.
  intros fuel off ls data fs lg old Hl Hpos. cbn [non_idle_fsm].
  rewrite (b_ok _ _ _ _ _ (fsm_adv_nop_a (DA off ls off fs lg) eq_refl ltac:(discriminate))).
  unfold DA at 1, dstA, dpA, hB. mrun. fold hB. fold (dpA fin0 off [] None ls off None).
  fold (dstA DS_RECEIVING_FILE_DATA 0 [] (dpA fin0 off [] None ls off None) fs lg). fold (DA off ls off fs lg).
  rewrite (b_ok _ _ _ _ _ (handle_fd_run_a off ls data fs lg old Hl Hpos)).
  unfold DA, dstA, dpA, hB. mrun. reflexivity.
Qed.

Lemma sm_fd_a : forall off ls data fs lg old, lookup fs [x] = Some (File old) -> 0 < zlen data ->
  Dest.state_machine (Some (PFileData hA off data)) (DA off ls off fs lg) =
    (DA (Z.max (off + zlen data) off) off (off + zlen data) (set_node fs [x] (File (write_at old off data)))
            (if l_ind_seg cd then EvSegmentRecv srcid seq off (zlen data) :: lg else lg), Ok tt).
Proof.
  intros off ls data fs lg old Hl Hpos. unfold Dest.state_machine.
  assert (C : check_inserted_packet (PFileData hA off data) (DA off ls off fs lg) = (DA off ls off fs lg, Ok tt)).
  { apply check_a; [reflexivity|reflexivity|right; split; [reflexivity|split; reflexivity]]. }
  rewrite (b_ok _ _ _ _ _ C).
  unfold catch_abandoned; apply catch_ok.
  unfold DA at 1, dstA, dpA, hB. mrun.
  apply nif_fd_a; assumption.
Qed.

(* after the EOF PDU: ACK(EOF) queued *)
Definition ackE : pdu := PAck hB D_EOF C_NO_ERROR TS_ACTIVE.
Definition DE (ready : Z) (q : list pdu) (ck : bytes) (ls : Z) (fs : tree) (lg : list event) : dst :=
  dstA DS_SENDING_EOF_ACK ready q (dpA fin0 fsz ck (Some fsz) ls fsz None) fs lg.

Lemma nif_eof_a : forall fuel cks fl ls fs lg,
  non_idle_fsm (S fuel) (Some (PEof hA C_NO_ERROR cks fsz fl)) (DA fsz ls fsz fs lg) =
    (DE 1 [ackE] cks ls fs ((if l_ind_eof_recv cd then [EvEofRecv srcid seq] else []) ++ lg), Ok tt).
Proof.
  intros fuel cks fl ls fs lg. cbn [non_idle_fsm].
  rewrite (b_ok _ _ _ _ _ (fsm_adv_nop_a (DA fsz ls fsz fs lg) eq_refl ltac:(discriminate))).
  unfold DA at 1, dstA, dpA, hB, fin0. mrun. unfold handle_eof_pdu. mrun.
  destruct (l_ind_eof_recv cd); unfold tid_or_assert; mrun;
  unfold handle_no_error_eof; mrun; dpr; rewrite Z.ltb_irrefl; cbn [andb]; mrun;
  unfold file_transfer_complete_transition; mrun; unfold prepare_eof_ack_packet, conf, add_packet; mrun;
  reflexivity.
Qed.

Lemma sm_eof_a : forall cks fl ls fs lg,
  Dest.state_machine (Some (PEof hA C_NO_ERROR cks fsz fl)) (DA fsz ls fsz fs lg) =
    (DE 1 [ackE] cks ls fs ((if l_ind_eof_recv cd then [EvEofRecv srcid seq] else []) ++ lg), Ok tt).
Proof.
  intros cks fl ls fs lg. unfold Dest.state_machine.
  assert (C : check_inserted_packet (PEof hA C_NO_ERROR cks fsz fl) (DA fsz ls fsz fs lg) = (DA fsz ls fsz fs lg, Ok tt)).
  { apply check_a; [reflexivity|reflexivity|right; split; [reflexivity|split; reflexivity]]. }
  rewrite (b_ok _ _ _ _ _ C).
  unfold catch_abandoned; apply catch_ok.
  unfold DA at 1, dstA, dpA, hB. mrun.
  apply nif_eof_a.
Qed.

(* the next call: checksum verified, transfer complete, Finished PDU queued, Positive-ACK timer started *)
Definition finP : pdu := PFinished hB C_NO_ERROR DATA_COMPLETE FS_RETAINED None.
Definition DW (ready : Z) (q : list pdu) (ck : bytes) (ls : Z) (fs : tree) (lg : list event) : dst :=
  dstA DS_WAITING_FOR_FINISHED_ACK ready q (dpA fin1 fsz ck (Some fsz) ls fsz (Some (0, r_ack_ms rd))) fs lg.

Lemma timer_fresh : forall n tmo, 0 < tmo -> timed_out n (n, tmo) = false.
Proof. intros n tmo H. unfold timed_out. cbn [fst snd]. rewrite Z.sub_diag. apply Z.leb_gt. exact H. Qed.

Lemma nif_complete : forall fuel cks ls fs lg data,
  lookup fs [x] = Some (File data) -> calculate_checksum ckt (Some data) fsz 4096 = Ok cks ->
  non_idle_fsm (S fuel) None (DE 0 [] cks ls fs lg) =
    (DW 1 [finP] cks ls fs (EvFinished srcid seq C_NO_ERROR DATA_COMPLETE FS_RETAINED None :: lg), Ok tt).
Proof.
  intros fuel cks ls fs lg data Hl Hck. cbn [non_idle_fsm].
  unfold DE at 1, dstA, dpA, hB, fin0.
  unfold fsm_advancement at 1. mrun.
  unfold checksum_verify; mrun; dpr;
  (destruct (ckt =? CK_NULL) eqn:Eck; cbn [orb]; mrun;
   [| unfold vfs_checksum; mrun; rewrite Eck; mrun; rewrite Hl, Hck; cbv iota; mrun; rewrite bytes_eqb_refl; dpr; rewrite Z.leb_refl; cbn [andb]; mrun]);
  unfold handle_transfer_completion, notice_of_completion; mrun; rewrite Hfin; mrun; dpr; mrun;
  unfold prepare_finished_pdu, conf, add_packet; mrun;
  unfold handle_finished_pdu_sent; mrun; unfold start_positive_ack_procedure, rcfg_or_assert, now; mrun;
  unfold handle_waiting_for_finished_ack, handle_positive_ack_procedures, rcfg_or_assert, now; mrun;
  rewrite (timer_fresh 0 (r_ack_ms rd) Hack); reflexivity.
Qed.

Lemma dsm_busy_none : forall s, d_state s = ST_BUSY ->
  Dest.state_machine None s = catch_abandoned (non_idle_fsm 3 None) s.
Proof.
  intros s H. unfold Dest.state_machine, catch_abandoned, catch, get, bind, ret, when. rewrite H.
  change (ST_BUSY =? ST_IDLE) with false. cbv beta iota. rewrite H. reflexivity.
Qed.

Lemma sm_complete : forall cks ls fs lg data,
  lookup fs [x] = Some (File data) -> calculate_checksum ckt (Some data) fsz 4096 = Ok cks ->
  Dest.state_machine None (DE 0 [] cks ls fs lg) =
    (DW 1 [finP] cks ls fs (EvFinished srcid seq C_NO_ERROR DATA_COMPLETE FS_RETAINED None :: lg), Ok tt).
Proof.
  intros cks ls fs lg data Hl Hck. rewrite dsm_busy_none by reflexivity.
  unfold catch_abandoned; apply catch_ok. eapply nif_complete; eassumption.
Qed.

(* ACK(Finished) arrives: back to IDLE *)
Lemma sm_ack_fin : forall cond st cks ls fs lg,
  Dest.state_machine (Some (PAck hA D_FINISHED cond st)) (DW 0 [] cks ls fs lg) = (dfinal cd srcid seq fs lg, Ok tt).
Proof.
  intros cond st cks ls fs lg. unfold Dest.state_machine.
  assert (C : check_inserted_packet (PAck hA D_FINISHED cond st) (DW 0 [] cks ls fs lg) = (DW 0 [] cks ls fs lg, Ok tt)).
  { apply check_a; [reflexivity|reflexivity|right; split; [reflexivity|split; reflexivity]]. }
  rewrite (b_ok _ _ _ _ _ C).
  unfold catch_abandoned; apply catch_ok.
  unfold DW at 1, dstA, dpA, hB, fin1. mrun. change 3%nat with (S 2). cbn [non_idle_fsm].
  unfold fsm_advancement at 1. mrun.
  unfold handle_waiting_for_finished_ack, reset_internal. mrun. reflexivity.
Qed.

(* a call on the idle handler *)
Lemma sm_idle_none : forall fs lg,
  Dest.state_machine None (dfinal cd srcid seq fs lg) = (dfinal cd srcid seq fs lg, Ok tt).
Proof. intros fs lg. unfold Dest.state_machine, dfinal. mrun.
  unfold catch_abandoned; apply catch_ok. mrun. unfold idle_fsm. mrun. reflexivity. Qed.
End ReceiverA.

(* ================================================================== *)
(* 3. the system, acknowledged mode                                    *)
(* ================================================================== *)
Local Opaque state_machine_s Dest.state_machine.

Ltac ypr :=
  unfold set; cbv beta;
  cbn [y_src y_dst y_s2d y_d2s y_cnt_s2d y_cnt_d2s y_delayed y_round y_src_cur y_dst_cur y_src_done y_dst_done
       y_errs y_faults fst snd].

(* between two rounds of a fault-free acknowledged run: nothing towards the receiver, [q] towards the sender *)
Definition Y2 (s : src) (dd : dst) (q : list pdu) (c1 c2 rnd : Z) (scur dcur : option (Z * Z))
           (sdone ddone : list (Z * Z)) : sys :=
  mkSys s dd [] q c1 c2 [] rnd scur dcur sdone ddone [] [].

Lemma call_src_pw : forall pkt s s2 ps dd q1 q2 c1 c2 rnd scur dcur sdone ddone,
  pump_with pkt s = (s2, Ok ps) ->
  exists scur' sdone',
  call_src pkt (mkSys s dd q1 q2 c1 c2 [] rnd scur dcur sdone ddone [] []) =
   (emit_pdus 0 (flat_map ow ps) (mkSys s2 dd q1 q2 c1 c2 [] rnd scur' dcur sdone' ddone [] []), zlen ps).
Proof.
  intros pkt s s2 ps dd q1 q2 c1 c2 rnd scur dcur sdone ddone H.
  unfold pump_with in H.
  destruct (state_machine_s pkt s) as [s1 [u|e]] eqn:Hsm; [|discriminate H].
  unfold drain_s in H. injection H as <- <-.
  destruct (nds_shape s1 dd q1 q2 c1 c2 [] rnd scur dcur sdone ddone [] []) as (sc & sd & E).
  exists sc, sd.
  unfold call_src. ypr. rewrite Hsm. ypr. rewrite E. ypr. unfold drain_s. reflexivity.
Qed.

Lemma call_dst_emit : forall pkt dd dd1 s q1 q2 c1 c2 rnd scur dcur sdone ddone,
  Dest.state_machine pkt dd = (dd1, Ok tt) ->
  exists dcur' ddone',
  call_dst pkt (mkSys s dd q1 q2 c1 c2 [] rnd scur dcur sdone ddone [] []) =
   (emit_pdus 1 (flat_map ow (snd (drain_d dd1)))
      (mkSys s (fst (drain_d dd1)) q1 q2 c1 c2 [] rnd scur dcur' sdone ddone' [] []), zlen (snd (drain_d dd1))).
Proof.
  intros pkt dd dd1 s q1 q2 c1 c2 rnd scur dcur sdone ddone H1.
  destruct (ndd_shape s dd1 q1 q2 c1 c2 [] rnd scur dcur sdone ddone [] []) as (dc & dn & E).
  exists dc, dn.
  unfold call_dst. ypr. rewrite H1. ypr. rewrite E. ypr. reflexivity.
Qed.

Lemma emit_one_d : forall p s dd q1 q2 c1 c2 dl rnd scur dcur sdone ddone er,
  emit_pdus 1 [p] (mkSys s dd q1 q2 c1 c2 dl rnd scur dcur sdone ddone er []) =
  mkSys s dd q1 (q2 ++ [p]) c1 (c2 + 1) dl rnd scur dcur sdone ddone er [].
Proof. reflexivity. Qed.

Lemma step_round_Y2 : forall s dd pk c1 c2 rnd scur dcur sdone ddone,
  step_round (Y2 s dd [pk] c1 c2 rnd scur dcur sdone ddone) =
  (let y1 := Y s dd c1 c2 (rnd + 1) scur dcur sdone ddone in
   let '(y2, a2) := deliver_all deliver_to_source [pk] y1 0 in
   let inbound2 := y_s2d y2 in
   let '(y3, a3) := deliver_all deliver_to_dest inbound2 (y2 <| y_s2d := [] |>) a2 in
   match inbound2 with
   | [] => let before := (d_state (y_dst y3), d_step (y_dst y3)) in
           let '(yy, n) := call_dst None y3 in
           (yy, a3 + n + (if (fst before =? d_state (y_dst yy)) && (snd before =? d_step (y_dst yy)) then 0 else 1))
   | _ => (y3, a3)
   end).
Proof. reflexivity. Qed.

Lemma deliver_to_source_busy : forall pd s dd q1 q2 c1 c2 dl rnd scur dcur sdone ddone er fl,
  s_state s = ST_BUSY ->
  deliver_to_source pd (mkSys s dd q1 q2 c1 c2 dl rnd scur dcur sdone ddone er fl) =
  call_src (Some pd) (mkSys s dd q1 q2 c1 c2 dl rnd scur dcur sdone ddone er fl).
Proof.
  intros pd s dd q1 q2 c1 c2 dl rnd scur dcur sdone ddone er fl H.
  unfold deliver_to_source. ypr. rewrite H. reflexivity.
Qed.

Section SysA.
Variables (cs cd : lcfg) (p : putreq) (rs rd : rcfg) (sn : path) (x : Z) (data cks : bytes) (cf : sconf)
          (seg tick : Z) (clo : bool).
Variable fss : tree.
Hypothesis Hnames : pr_names p = Some (sn, [x]).
Hypothesis Hlook : lookup fss sn = Some (File data).
Hypothesis Hseg : 1 <= seg.
Hypothesis Hm : sc_mode cf = ACKED.
Hypothesis Hck : calculate_checksum (r_cktype rs) (Some data) (zlen data) seg = Ok cks.
Hypothesis Hck2 : calculate_checksum (r_cktype rs) (Some data) (zlen data) 4096 = Ok cks.
Hypothesis Hfins : l_ind_fin cs = true.
Hypothesis Hfind : l_ind_fin cd = true.
Hypothesis Hrem : get_remote (l_remotes cd) (sc_src cf) = Some rd.
Hypothesis Hdst : sc_dst cf = l_id cd.
Hypothesis Hacks : 0 < r_ack_ms rs.
Hypothesis Hackd : 0 < r_ack_ms rd.
Hypothesis Hsrc : sc_src cf = l_id cs.
Hypothesis Hdstr : sc_dst cf = r_id rs.

Definition tidA : Z * Z := (sc_src cf, sc_seq cf).
Definition hRA : hdr := hA cd (sc_crc cf) (sc_large cf) (sc_src cf) (sc_srcw cf) (sc_seq cf) (sc_seqw cf).
Definition hRB : hdr := hB cd (sc_crc cf) (sc_large cf) (sc_src cf) (sc_srcw cf) (sc_seq cf) (sc_seqw cf).
Definition DSA : Z -> Z -> Z -> tree -> list event -> dst :=
  DA cd rd x (sc_crc cf) (sc_large cf) clo (sc_src cf) (sc_srcw cf) (sc_seq cf) (sc_seqw cf) (r_cktype rs) (zlen data).
Definition DSE : Z -> list pdu -> bytes -> Z -> tree -> list event -> dst :=
  DE cd rd x (sc_crc cf) (sc_large cf) clo (sc_src cf) (sc_srcw cf) (sc_seq cf) (sc_seqw cf) (r_cktype rs) (zlen data).
Definition DSW : Z -> list pdu -> bytes -> Z -> tree -> list event -> dst :=
  DW cd rd x (sc_crc cf) (sc_large cf) clo (sc_src cf) (sc_srcw cf) (sc_seq cf) (sc_seqw cf) (r_cktype rs) (zlen data).
Definition DFA (fs : tree) (lg : list event) : dst := dfinal cd (sc_src cf) (sc_seq cf) fs lg.
Definition ackEA : pdu := PAck hRB D_EOF C_NO_ERROR TS_ACTIVE.
Definition finPA : pdu := PFinished hRB C_NO_ERROR DATA_COMPLETE FS_RETAINED None.

Lemma hdr_eq_a : hdr_of cf TOWARDS_RECEIVER = hRA.
Proof. unfold hdr_of, hRA, hA. rewrite Hm, Hdst. reflexivity. Qed.
Lemma hdr_eq_b : hdr_of cf TOWARDS_SENDER = hRB.
Proof. unfold hdr_of, hRB, hB. rewrite Hm, Hdst. reflexivity. Qed.

Definition SInvA (off : Z) (y : sys) : Prop :=
  exists s ls fs lg c1 c2 rnd scur dcur sdone ddone,
    y = Y s (DSA off ls off fs lg) c1 c2 rnd scur dcur sdone ddone /\
    InvA cs p rs fss data cf seg clo tidA off s /\
    lookup fs [x] = Some (File (ztake off data)) /\ clean lg.

(* delivery guards of the surrounding entity: the busy receiver serves this transaction *)
Lemma guard_busy_a : forall pkt dd ddone, pdu_hdr pkt = hRA -> d_state dd = ST_BUSY ->
  p_tid (d_p dd) = Some (sc_src cf, sc_seq cf) ->
  (d_state dd =? ST_IDLE) && tid_mem (h_src (pdu_hdr pkt), h_seq (pdu_hdr pkt)) ddone = false /\
  (d_state dd =? ST_BUSY) &&
    match p_tid (d_p dd) with
    | Some t => negb (tid_eqb (h_src (pdu_hdr pkt), h_seq (pdu_hdr pkt)) t) | None => false end = false.
Proof.
  intros pkt dd ddone H Hs Ht. rewrite H, Hs, Ht. split; [reflexivity|].
  unfold hRA, hA, tid_eqb. cbn [h_src h_seq fst snd].
  rewrite !Z.eqb_refl. reflexivity.
Qed.

(* a File Data round *)
Lemma round_fd_a : forall off y, SInvA off y -> off < zlen data ->
  exists y' a, step_round y = (y', a) /\ 0 < a /\ quiescent y' = false /\
               SInvA (off + Z.min seg (zlen data - off)) y'.
Proof.
  intros off y (s & ls & fs & lg & c1 & c2 & rnd & scur & dcur & sdone & ddone & -> & HI & Hl & Hc) Hlt.
  pose proof (InvA_range _ _ _ _ _ _ _ _ _ _ _ HI) as Hr.
  destruct (step_fd_a cs p rs fss data cf seg clo tidA sn [x] Hnames Hlook Hseg Hm off s HI Hlt) as (s' & P & HI').
  unfold fd_of in P. cbn [fst snd] in P. rewrite hdr_eq_a in P.
  set (tile := ztake seg (zdrop off data)) in *.
  assert (Htl : zlen tile = Z.min seg (zlen data - off)) by (apply tile_len; lia).
  assert (How : on_wire (PFileData hRA off tile) = Some (PFileData hRA off tile)).
  { destruct tile; [change (zlen (@nil Z)) with 0 in Htl; lia | reflexivity]. }
  destruct (guard_busy_a (PFileData hRA off tile) (DSA off ls off fs lg) ddone eq_refl eq_refl eq_refl) as [G1 G2].
  pose proof (sm_fd_a cd rd x (sc_crc cf) (sc_large cf) clo (sc_src cf) (sc_srcw cf) (sc_seq cf) (sc_seqw cf)
                (r_cktype rs) (zlen data) Hrem off ls tile fs lg _ Hl ltac:(lia)) as Hsm.
  fold hRA in Hsm. rewrite Z.max_l in Hsm by lia. rewrite Htl in Hsm.
  destruct (round_generic s s' _ _ _ c1 c2 rnd scur dcur sdone ddone P How G1 G2 Hsm eq_refl)
    as (c1' & scur' & dcur' & sdone' & ddone' & a & R & Ha).
  eexists. exists a. split; [exact R|]. split; [exact Ha|]. split.
  - unfold quiescent, Y. cbn [y_src]. rewrite (InvA_busy _ _ _ _ _ _ _ _ _ _ _ HI'). reflexivity.
  - do 11 eexists. split; [reflexivity|]. split; [exact HI'|]. split.
    + rewrite lookup_set_node by discriminate. rewrite path_eqb_refl. f_equal. f_equal.
      apply write_append; lia.
    + destruct (l_ind_seg cd); [apply clean_cons; [reflexivity|reflexivity|exact Hc] | exact Hc].
Qed.

(* the Metadata round *)
Lemma round_md_a : forall s1 s3 c1 c2 rnd,
  pump s1 = (s3, Ok [PMetadata (hdr_of cf TOWARDS_RECEIVER) clo (r_cktype rs) (zlen data) (Some (sn, [x])) []]) ->
  InvA cs p rs fss data cf seg clo tidA 0 s3 ->
  exists y' a, step_round (Y s1 (dst_init cd) c1 c2 rnd None None [] []) = (y', a) /\ 0 < a /\
               quiescent y' = false /\ SInvA 0 y'.
Proof.
  intros s1 s3 c1 c2 rnd P HI. rewrite hdr_eq_a in P.
  pose proof (sm_md_a cd rd x (sc_crc cf) (sc_large cf) clo (sc_src cf) (sc_srcw cf) (sc_seq cf) (sc_seqw cf)
                (r_cktype rs) (zlen data) Hrem sn []) as Hsm.
  fold hRA in Hsm.
  destruct (round_generic s1 s3 _ (dst_init cd) _ c1 c2 rnd None None [] [] P eq_refl eq_refl eq_refl Hsm eq_refl)
    as (c1' & scur' & dcur' & sdone' & ddone' & a & R & Ha).
  eexists. exists a. split; [exact R|]. split; [exact Ha|]. split.
  - unfold quiescent, Y. cbn [y_src]. rewrite (InvA_busy _ _ _ _ _ _ _ _ _ _ _ HI). reflexivity.
  - do 11 eexists. split; [reflexivity|]. split; [exact HI|]. split.
    + cbn [lookup lookup_raw path_eqb]. rewrite Z.eqb_refl. reflexivity.
    + apply clean_cons; [reflexivity|reflexivity|apply clean_nil].
Qed.

(* ---- the tail of the acknowledged protocol *)
Definition evFinD : event := EvFinished (sc_src cf) (sc_seq cf) C_NO_ERROR DATA_COMPLETE FS_RETAINED None.

(* after the EOF round: ACK(EOF) in flight *)
Definition S1 (y : sys) : Prop :=
  exists s ls fs lg c1 c2 rnd scur dcur sdone ddone,
    y = Y2 s (DSE 0 [] cks ls fs lg) [ackEA] c1 c2 rnd scur dcur sdone ddone /\
    Tail cs p rs cf tidA SS_WAITING_FOR_EOF_ACK None s /\
    lookup fs [x] = Some (File data) /\ clean lg.
(* after the next round: Finished in flight *)
Definition S2 (y : sys) : Prop :=
  exists s ls fs lg c1 c2 rnd scur dcur sdone ddone,
    y = Y2 s (DSW 0 [] cks ls fs (evFinD :: lg)) [finPA] c1 c2 rnd scur dcur sdone ddone /\
    Tail cs p rs cf tidA SS_WAITING_FOR_FINISHED None s /\
    lookup fs [x] = Some (File data) /\ clean lg.
(* after the next round: the receiver is done, the sender has sent ACK(Finished) *)
Definition S3 (y : sys) : Prop :=
  exists s fs lg c1 c2 rnd scur dcur sdone ddone,
    y = Y s (DFA fs (evFinD :: lg)) c1 c2 rnd scur dcur sdone ddone /\
    Tail cs p rs cf tidA SS_SENDING_ACK_OF_FINISHED (Some (C_NO_ERROR, DATA_COMPLETE, FS_RETAINED, None)) s /\
    lookup fs [x] = Some (File data) /\ clean lg.

Lemma Tail_busy : forall st qf s, Tail cs p rs cf tidA st qf s -> s_state s = ST_BUSY.
Proof. intros st qf s (_&H&_). exact H. Qed.

Lemma round_eof_a : forall y, SInvA (zlen data) y ->
  exists y' a, step_round y = (y', a) /\ 0 < a /\ quiescent y' = false /\ S1 y'.
Proof.
  intros y (s & ls & fs & lg & c1 & c2 & rnd & scur & dcur & sdone & ddone & -> & HI & Hl & Hc).
  destruct (step_final_a cs p rs fss data cks cf seg clo tidA sn [x] Hnames Hlook Hm Hck Hacks s HI)
    as (s' & P & HT).
  rewrite hdr_eq_a in P. rewrite ztake_all in Hl.
  destruct (guard_busy_a (PEof hRA C_NO_ERROR cks (zlen data) None) (DSA (zlen data) ls (zlen data) fs lg) ddone
              eq_refl eq_refl eq_refl) as [G1 G2].
  pose proof (sm_eof_a cd rd x (sc_crc cf) (sc_large cf) clo (sc_src cf) (sc_srcw cf) (sc_seq cf) (sc_seqw cf)
                (r_cktype rs) (zlen data) Hrem cks None ls fs lg) as Hsm.
  fold hRA in Hsm.
  set (lg' := (if l_ind_eof_recv cd then [EvEofRecv (sc_src cf) (sc_seq cf)] else []) ++ lg) in *.
  change (Dest.state_machine (Some (PEof hRA C_NO_ERROR cks (zlen data) None)) (DSA (zlen data) ls (zlen data) fs lg) =
          (DSE 1 [ackEA] cks ls fs lg', Ok tt)) in Hsm.
  assert (Hdr : drain_d (DSE 1 [ackEA] cks ls fs lg') = (DSE 0 [] cks ls fs lg', [ackEA])) by reflexivity.
  assert (How : on_wire (PEof hRA C_NO_ERROR cks (zlen data) None) = Some (PEof hRA C_NO_ERROR cks (zlen data) None))
    by reflexivity.
  assert (How2 : on_wire ackEA = Some ackEA) by reflexivity.
  destruct (call_src_pump s s' _ (DSA (zlen data) ls (zlen data) fs lg) [] [] c1 c2 (rnd + 1) scur dcur sdone ddone P)
    as (scur' & sdone' & E).
  destruct (call_dst_emit _ _ _ s' [] [] (c1 + 1) c2 (rnd + 1) scur' dcur sdone' ddone Hsm) as (dcur' & ddone' & E2).
  eexists. eexists.
  rewrite step_round_Y. unfold Y. cbv zeta. rewrite E.
  cbn [flat_map app]. unfold ow. rewrite How. cbn [app]. rewrite emit_one.
  ypr. cbn [app]. rewrite deliver_all_one. rewrite deliver_to_dest_pass by assumption. rewrite E2.
  rewrite Hdr. cbn [fst snd flat_map app]. unfold ow. rewrite How2. cbn [app]. rewrite emit_one_d. ypr. cbn [app].
  split; [reflexivity|]. split; [|split].
  - change (zlen [PEof hRA C_NO_ERROR cks (zlen data) None]) with 1. change (zlen [ackEA]) with 1.
    destruct ((s_state s =? s_state s') && (s_step s =? s_step s')); lia.
  - unfold quiescent. cbn [y_src]. rewrite (Tail_busy _ _ _ HT). reflexivity.
  - do 11 eexists. split; [reflexivity|]. split; [exact HT|]. split; [exact Hl|].
    apply clean_app; [|exact Hc].
    destruct (l_ind_eof_recv cd); [apply clean_cons; [reflexivity|reflexivity|apply clean_nil] | apply clean_nil].
Qed.

(* ACK(EOF) reaches the sender; the receiver completes the transfer and emits the Finished PDU *)
Lemma round_ack_eof : forall y, S1 y ->
  exists y' a, step_round y = (y', a) /\ 0 < a /\ quiescent y' = false /\ S2 y'.
Proof.
  intros y (s & ls & fs & lg & c1 & c2 & rnd & scur & dcur & sdone & ddone & -> & HT & Hl & Hc).
  destruct (step_ack_eof cs p rs cf tidA Hm Hsrc Hdstr s C_NO_ERROR TS_ACTIVE HT) as (s' & P & HT').
  rewrite hdr_eq_b in P. fold ackEA in P.
  pose proof (sm_complete cd rd x (sc_crc cf) (sc_large cf) clo (sc_src cf) (sc_srcw cf) (sc_seq cf) (sc_seqw cf)
                (r_cktype rs) (zlen data) Hfind Hackd cks ls fs lg data Hl Hck2) as Hsm.
  change (Dest.state_machine None (DSE 0 [] cks ls fs lg) = (DSW 1 [finPA] cks ls fs (evFinD :: lg), Ok tt)) in Hsm.
  assert (Hdr : drain_d (DSW 1 [finPA] cks ls fs (evFinD :: lg)) = (DSW 0 [] cks ls fs (evFinD :: lg), [finPA]))
    by reflexivity.
  assert (How2 : on_wire finPA = Some finPA) by reflexivity.
  destruct (call_src_pw _ s s' _ (DSE 0 [] cks ls fs lg) [] [] c1 c2 (rnd + 1) scur dcur sdone ddone P)
    as (scur' & sdone' & E).
  destruct (call_dst_emit _ _ _ s' [] [] c1 c2 (rnd + 1) scur' dcur sdone' ddone Hsm) as (dcur' & ddone' & E2).
  eexists. eexists.
  rewrite step_round_Y2. unfold Y. cbv zeta. rewrite deliver_all_one.
  rewrite deliver_to_source_busy by exact (Tail_busy _ _ _ HT). rewrite E.
  cbn [flat_map emit_pdus]. ypr. cbn [deliver_all]. rewrite E2.
  rewrite Hdr. cbn [fst snd flat_map app]. unfold ow. rewrite How2. cbn [app]. rewrite emit_one_d. ypr. cbn [app].
  split; [reflexivity|]. split; [|split].
  - change (zlen (@nil pdu)) with 0. change (zlen [finPA]) with 1.
    match goal with |- 0 < _ + (if ?b then 0 else 1) => destruct b end; lia.
  - unfold quiescent. cbn [y_src]. rewrite (Tail_busy _ _ _ HT'). reflexivity.
  - do 11 eexists. split; [reflexivity|]. split; [exact HT'|]. split; [exact Hl|exact Hc].
Qed.

(* the Finished PDU reaches the sender, its ACK reaches the receiver *)
Lemma round_finished : forall y, S2 y ->
  exists y' a, step_round y = (y', a) /\ 0 < a /\ quiescent y' = false /\ S3 y'.
Proof.
  intros y (s & ls & fs & lg & c1 & c2 & rnd & scur & dcur & sdone & ddone & -> & HT & Hl & Hc).
  destruct (step_finished cs p rs cf tidA Hm Hsrc Hdstr s FS_RETAINED HT) as (s' & P & HT').
  rewrite hdr_eq_b, hdr_eq_a in P. fold finPA in P.
  set (ackF := PAck hRA D_FINISHED C_NO_ERROR TS_ACTIVE) in *.
  pose proof (sm_ack_fin cd rd x (sc_crc cf) (sc_large cf) clo (sc_src cf) (sc_srcw cf) (sc_seq cf) (sc_seqw cf)
                (r_cktype rs) (zlen data) Hrem C_NO_ERROR TS_ACTIVE cks ls fs (evFinD :: lg)) as Hsm.
  change (Dest.state_machine (Some ackF) (DSW 0 [] cks ls fs (evFinD :: lg)) = (DFA fs (evFinD :: lg), Ok tt)) in Hsm.
  assert (How : on_wire ackF = Some ackF) by reflexivity.
  destruct (guard_busy_a ackF (DSW 0 [] cks ls fs (evFinD :: lg)) ddone eq_refl eq_refl eq_refl) as [G1 G2].
  destruct (call_src_pw _ s s' _ (DSW 0 [] cks ls fs (evFinD :: lg)) [] [] c1 c2 (rnd + 1) scur dcur sdone ddone P)
    as (scur' & sdone' & E).
  destruct (call_dst_ok _ _ _ s' [] [] (c1 + 1) c2 (rnd + 1) scur' dcur sdone' ddone Hsm eq_refl) as (dcur' & ddone' & E2).
  eexists. eexists.
  rewrite step_round_Y2. unfold Y. cbv zeta. rewrite deliver_all_one.
  rewrite deliver_to_source_busy by exact (Tail_busy _ _ _ HT). rewrite E.
  cbn [flat_map app]. unfold ow. rewrite How. cbn [app]. rewrite emit_one.
  ypr. cbn [app]. rewrite deliver_all_one. rewrite deliver_to_dest_pass by assumption. rewrite E2. ypr.
  split; [reflexivity|]. split; [|split].
  - change (zlen [ackF]) with 1. lia.
  - unfold quiescent. cbn [y_src]. rewrite (Tail_busy _ _ _ HT'). reflexivity.
  - do 10 eexists. split; [reflexivity|]. split; [exact HT'|]. split; [exact Hl|exact Hc].
Qed.

(* what the verdict looks at, after the last round *)
Definition FinalA (y : sys) : Prop :=
  exists s fs lgs lgd c1 c2 rnd scur dcur sdone ddone,
    y = Y s (DFA fs (evFinD :: lgd)) c1 c2 rnd scur dcur sdone ddone /\
    e_log (s_env s) = EvFinished (sc_src cf) (sc_seq cf) C_NO_ERROR DATA_COMPLETE FS_RETAINED None :: lgs /\
    clean lgs /\ clean lgd /\ lookup fs [x] = Some (File data).

(* the last round: the sender issues its Transaction-Finished indication; both handlers idle *)
Lemma round_done : forall y, S3 y ->
  exists y' a, step_round y = (y', a) /\ quiescent y' = true /\ FinalA y'.
Proof.
  intros y (s & fs & lg & c1 & c2 & rnd & scur & dcur & sdone & ddone & -> & HT & Hl & Hc).
  destruct (step_done cs p rs cf tidA Hfins s FS_RETAINED HT) as (s' & lg0 & P & Hst & Hlog & Hc0).
  pose proof (sm_idle_none cd (sc_src cf) (sc_seq cf) fs (evFinD :: lg)) as Hsm. fold (DFA fs (evFinD :: lg)) in Hsm.
  destruct (call_src_pump s s' _ (DFA fs (evFinD :: lg)) [] [] c1 c2 (rnd + 1) scur dcur sdone ddone P)
    as (scur' & sdone' & E).
  destruct (call_dst_ok _ _ _ s' [] [] c1 c2 (rnd + 1) scur' dcur sdone' ddone Hsm eq_refl) as (dcur' & ddone' & E2).
  eexists. eexists.
  rewrite step_round_Y. unfold Y. cbv zeta. rewrite E.
  cbn [flat_map emit_pdus]. ypr. cbn [deliver_all]. rewrite E2. ypr.
  split; [reflexivity|]. split.
  - unfold quiescent. cbn [y_src y_dst y_s2d y_d2s y_delayed]. rewrite Hst. reflexivity.
  - do 11 eexists. split; [reflexivity|]. split; [exact Hlog|]. split; [exact Hc0|]. split; [exact Hc|exact Hl].
Qed.

Ltac run_step R Q Ha :=
  rewrite run_S, R; cbv iota beta; rewrite Q;
  match type of Ha with 0 < ?a => replace (a =? 0) with false by (symmetry; apply Z.eqb_neq; lia) end.

(* EOF, ACK(EOF), Finished + ACK(Finished), completion: four rounds *)
Lemma run_tail : forall k y, SInvA (zlen data) y ->
  exists y', run (4 + k) tick y = (y', true) /\ FinalA y'.
Proof.
  intros k y HS.
  destruct (round_eof_a y HS) as (y1 & a1 & R1 & Ha1 & Q1 & H1).
  destruct (round_ack_eof y1 H1) as (y2 & a2 & R2 & Ha2 & Q2 & H2).
  destruct (round_finished y2 H2) as (y3 & a3 & R3 & Ha3 & Q3 & H3).
  destruct (round_done y3 H3) as (y4 & a4 & R4 & Q4 & H4).
  exists y4. split; [|exact H4].
  change (4 + k)%nat with (S (S (S (S k)))).
  run_step R1 Q1 Ha1. run_step R2 Q2 Ha2. run_step R3 Q3 Ha3.
  rewrite run_S, R4. cbv iota beta. rewrite Q4. reflexivity.
Qed.

(* all rounds after the Metadata round *)
Lemma run_rest_a : forall n off y, SInvA off y -> (length (zdrop off data) <= n)%nat ->
  exists y', run (4 + n) tick y = (y', true) /\ FinalA y'.
Proof.
  induction n as [|n IH]; intros off y HS Hn.
  - assert (Hr : 0 <= off <= zlen data).
    { destruct HS as (s & ls & fs & lg & c1 & c2 & rnd & scur & dcur & sdone & ddone & _ & HI & _).
      exact (InvA_range _ _ _ _ _ _ _ _ _ _ _ HI). }
    assert (Hz : zlen (zdrop off data) = 0) by (unfold zlen; lia).
    rewrite zlen_zdrop in Hz by lia. assert (off = zlen data) by lia. subst off.
    apply run_tail. exact HS.
  - assert (Hr : 0 <= off <= zlen data).
    { destruct HS as (s & ls & fs & lg & c1 & c2 & rnd & scur & dcur & sdone & ddone & _ & HI & _).
      exact (InvA_range _ _ _ _ _ _ _ _ _ _ _ HI). }
    destruct (Z.eq_dec off (zlen data)) as [He|He].
    + subst off. apply run_tail. exact HS.
    + assert (Hlt : off < zlen data) by lia.
      destruct (round_fd_a off y HS Hlt) as (y1 & a & R & Ha & Q & HS').
      set (off' := off + Z.min seg (zlen data - off)) in *.
      assert (Hn' : (length (zdrop off' data) <= n)%nat).
      { assert (Hz : zlen (zdrop off data) = Z.max 0 (zlen data - off)) by (apply zlen_zdrop; lia).
        assert (Hz' : zlen (zdrop off' data) = Z.max 0 (zlen data - off')) by (apply zlen_zdrop; unfold off'; lia).
        unfold zlen in Hz, Hz'. unfold off' in *. lia. }
      destruct (IH off' y1 HS' Hn') as (y' & Rr & F).
      exists y'. split; [|exact F].
      change (4 + S n)%nat with (S (4 + n)).
      run_step R Q Ha. exact Rr.
Qed.
End SysA.

Lemma final_verdict_a : forall cd x data cf y,
  FinalA cd x data cf y ->
  delivered_ok [x] data (y, true) = true /\ y_errs y = [] /\
  existsb fault_event (e_log (s_env (y_src y))) = false /\
  existsb fault_event (e_log (d_env (y_dst y))) = false.
Proof.
  intros cd x data cf y (s & fs & lgs & lgd & c1 & c2 & rnd & scur & dcur & sdone & ddone & -> & Hs & [S1' S2'] & [D1 D2] & Hl).
  unfold delivered_ok, Y, DFA, dfinal, evFinD, file_content.
  cbn [y_src y_dst y_errs d_env e_fs e_log]. rewrite Hs, Hl.
  cbn [filter success_event existsb fault_event hd andb orb]. rewrite S1', S2', D1, D2.
  rewrite bytes_eqb_refl. repeat split; reflexivity.
Qed.

Lemma acked_perfect_link :
  forall (cs cd : lcfg) (seq0 bits : Z) (p : putreq) (rs rd : rcfg) (sn dn : path) (data : bytes) (tick : Z),
  let w := Z.max (l_idw cs) (pr_dstw p) in
  let large := 4294967295 <? zlen data in
  let derived := r_max_packet rs - (4 + 2 * w + bits / 8) - (if large then 8 else 4) - (if r_crc rs then 2 else 0) in
  let seg := match r_max_seg rs with Some m => Z.min m derived | None => derived end in
  get_remote (l_remotes cs) (pr_dst p) = Some rs ->
  pr_names p = Some (sn, dn) -> sn <> [] -> dn <> [] -> pr_msgs p = None ->
  (match pr_mode p with Some m => m | None => r_mode rs end) = ACKED ->
  1 <= r_ack_limit rs -> 1 <= r_ack_limit rd -> 1 <= r_nak_limit rd -> 0 < tick ->
  0 < r_ack_ms rs -> 0 < r_ack_ms rd ->
  (bits = 8 \/ bits = 16 \/ bits = 32) -> 0 <= seq0 < 2 ^ bits -> 1 <= seg -> 6 <= derived ->
  (r_cktype rs = CK_CRC32 \/ r_cktype rs = CK_CRC32C \/ r_cktype rs = CK_NULL \/ r_cktype rs = CK_MODULAR) ->
  bytes_ok data = true ->
  l_id cd = pr_dst p -> get_remote (l_remotes cd) (l_id cs) = Some rd -> length dn = 1%nat ->
  get_fault_handler (l_faults cd) C_CHECKSUM_FAILURE <> None ->
  l_ind_fin cs = true -> l_ind_fin cd = true ->
  exists fuel,
    let res := transfer cs cd seq0 bits p sn data [] fuel tick in
    delivered_ok dn data res = true /\ y_errs (fst res) = [] /\
    existsb fault_event (e_log (s_env (y_src (fst res)))) = false /\
    existsb fault_event (e_log (d_env (y_dst (fst res)))) = false.
Proof.
  intros cs cd seq0 bits p rs rd sn dn data tick w large derived seg
         Hrs Hn Hsn Hdn Hmsgs Hmode Hls Hld Hnl Htick Hacks Hackd Hbits Hseq Hseg Hd6 Hck Hbytes Hid Hrd Hlen Hfh Hfs Hfd.
  destruct dn as [|x [|x' dn']]; try discriminate Hlen.
  set (fss := [(sn, File data)]).
  assert (Hlook : lookup fss sn = Some (File data)).
  { destruct sn as [|a sn']; [contradiction|]. unfold fss. cbn [lookup lookup_raw].
    rewrite path_eqb_refl. reflexivity. }
  destruct (ck_agree (r_cktype rs) data seg Hck Hseg) as (cks & C1 & C2).
  set (cf := mkSconf (l_id cs) w (pr_dst p) w seq0 (bits / 8) ACKED large (r_crc rs)).
  set (clo := match pr_closure p with Some b => b | None => r_closure rs end).
  destruct (first_call_a cs seq0 bits fss p rs sn [x] data Hrs Hn Hlook Hmode Hbits Hseq Hseg Hd6)
    as (s1 & s3 & P1 & P2 & HI).
  rewrite Hmsgs in P2.
  assert (Hdst : sc_dst cf = l_id cd) by (symmetry; exact Hid).
  assert (Hdstr : sc_dst cf = r_id rs) by (symmetry; exact (get_remote_id _ _ _ Hrs)).
  destruct (round_md_a cs cd p rs rd sn x data cf seg clo fss eq_refl Hrd Hdst s1 s3 0 0 0 P2 HI)
    as (y1 & a & R & Ha & Q & HS).
  destruct (run_rest_a cs cd p rs rd sn x data cks cf seg tick clo fss Hn Hlook Hseg eq_refl C1 C2 Hfs Hfd Hrd Hdst
              Hacks Hackd eq_refl Hdstr (length data) 0 y1 HS (le_n _)) as (y' & Rr & F).
  exists (S (4 + length data)).
  assert (Et : transfer cs cd seq0 bits p sn data [] (S (4 + length data)) tick = (y', true)).
  { unfold transfer, sys_init. cbn [y_src]. fold fss. rewrite P1.
    change (mkSys (src_fresh cs seq0 bits fss) (dst_init cd) [] [] 0 0 [] 0 None None [] [] [] (rev []) <| y_src := s1 |>)
      with (Y s1 (dst_init cd) 0 0 0 None None [] []).
    rewrite run_S, R. cbv iota beta. rewrite Q.
    assert (Ea : (a =? 0) = false) by (apply Z.eqb_neq; lia). rewrite Ea. exact Rr. }
  cbv zeta. rewrite Et. cbn [fst].
  exact (final_verdict_a cd x data cf y' F).
Qed.
