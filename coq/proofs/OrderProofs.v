(* OrderProofs.v — proofs for props/C15c.v: the causal order of the user indications, as an invariant of the event
   log over every history of API calls (whole state machines), for both handlers.

   Method: one compositional predicate [Step R m] on monadic computations,
     "m relates the state it starts on to the state it ends in (normally or by raising) by R",
   for a reflexive and transitive relation R on handler states, closed under ret / raise / bind / when / catch /
   fold_left / case analysis, and one tactic ([walk]) that goes through the model code (as [gate] of
   IndicationProofs.v, for an arbitrary R).  Instances: R s s' = "Q s -> Q s'" for the invariants, and growth
   relations on the log for the per-call statements.  The places where an indication is delivered are proved by
   hand, the rest of the code is walked. *)
From CFDP Require Import Base LostSeg Fs Crc Checksum Handler Dest Source HandlerSpec SourceSpec.
From CFDP.gen Require Import Tables.
From CFDP.proofs Require Import GuardProofs IsolationProofs HistoryIndepProofs.
From RecordUpdate Require Import RecordSet.
Import RecordSetNotations.
Open Scope monad_scope.

Local Opaque calculate_checksum.

(* ================================================================== the generic part *)
Definition PreOrd {S} (R : S -> S -> Prop) : Prop := (forall s, R s s) /\ (forall a b c, R a b -> R b c -> R a c).

Section StepSec.
  Context {S : Type}.
  Variable R : S -> S -> Prop.
  Hypothesis HR : PreOrd R.

  Definition Step {A} (m : M S A) : Prop := forall s, R s (fst (m s)).

  Lemma step_ret {A} (a : A) : Step (ret a).
  Proof. intro s. apply HR. Qed.
  Lemma step_raise {A} (e : Z) : Step (@raise S A e).
  Proof. intro s. apply HR. Qed.
  Lemma step_get : Step (@get S).
  Proof. intro s. apply HR. Qed.
  Lemma step_gets {A} (f : S -> A) : Step (gets f).
  Proof. intro s. apply HR. Qed.
  Lemma step_modify (f : S -> S) : (forall s, R s (f s)) -> Step (modify f).
  Proof. intros Hf s. apply Hf. Qed.
  Lemma step_bind {A B} (m : M S A) (f : A -> M S B) : Step m -> (forall a, Step (f a)) -> Step (bind m f).
  Proof.
    intros Hm Hf s. unfold bind. specialize (Hm s).
    destruct (m s) as [s1 [a|e]]; cbn [fst] in *; [|exact Hm].
    destruct HR as [_ Ht]. eapply Ht; [exact Hm | apply Hf].
  Qed.
  (* s <- get ;; put (g s) ;;; k s *)
  Lemma step_get_put {B} (g : S -> S) (k : S -> M S B) :
    (forall s, R s (g s)) -> (forall s0, Step (k s0)) -> Step (bind get (fun s => bind (put (g s)) (fun _ => k s))).
  Proof.
    intros Hg Hk s. unfold bind, get, put. destruct HR as [_ Ht]. eapply Ht; [apply Hg | apply Hk].
  Qed.
  Lemma step_when (b : bool) (m : M S unit) : (b = true -> Step m) -> Step (when b m).
  Proof. intro Hm. unfold when. destruct b; [apply Hm; reflexivity | apply step_ret]. Qed.
  Lemma step_catch {A} (m : M S A) (h : Z -> option (M S A)) :
    Step m -> (forall e k, h e = Some k -> Step k) -> Step (catch m h).
  Proof.
    intros Hm Hh s. unfold catch. specialize (Hm s).
    destruct (m s) as [s1 [a|e]]; cbn [fst] in *; [exact Hm|].
    destruct (h e) as [k|] eqn:Hk; [|exact Hm].
    destruct HR as [_ Ht]. eapply Ht; [exact Hm | apply (Hh e k Hk)].
  Qed.
  Lemma step_fold {B} (g : B -> M S unit) (l : list B) : forall m0,
    Step m0 -> (forall b, Step (g b)) -> Step (fold_left (fun m b => bind m (fun _ => g b)) l m0).
  Proof.
    induction l as [|b l IH]; intros m0 H0 Hg; cbn [fold_left]; [exact H0|].
    apply IH; [|exact Hg]. apply step_bind; [exact H0 | intros _; apply Hg].
  Qed.
  (* value-aware: the continuation is analysed on the state that was read *)
  Lemma step_bind_gets {A B} (g : S -> A) (f : A -> M S B) : (forall s, R s (fst (f (g s) s))) -> Step (bind (gets g) f).
  Proof. intros H s. apply H. Qed.
  Lemma step_bind_get {B} (f : S -> M S B) : (forall s, R s (fst (f s s))) -> Step (bind get f).
  Proof. intros H s. apply H. Qed.
  (* a section of code that runs only where R holds vacuously *)
  Lemma step_guard {A B} (g : S -> A) (c : A -> bool) (m : M S unit) (rest : M S B) :
    (forall s, c (g s) = true -> forall s', R s s') -> Step rest ->
    Step (bind (gets g) (fun a => bind (when (c a) m) (fun _ => rest))).
  Proof.
    intros Hv Hr s. unfold bind at 1, gets. destruct (c (g s)) eqn:E.
    - apply (Hv s E).
    - unfold when, bind, ret. apply Hr.
  Qed.
End StepSec.

Lemma preord_inv {S} (Q : S -> Prop) : PreOrd (fun s s' => Q s -> Q s').
Proof. split; [intros s H; exact H | intros a b c H1 H2 H; exact (H2 (H1 H))]. Qed.

Create HintDb stepdb discriminated.

Ltac whead t := match t with ?f _ => whead f | _ => t end.
(* side condition of a modification: redefined per instance *)
Ltac wside := fail.
Ltac whandler :=
  let e := fresh "e" in let k := fresh "k" in let Hh := fresh "Hh" in
  intros e k Hh; cbv beta in Hh;
  match type of Hh with
  | (if ?c then Some _ else None) = Some _ => destruct c; [inversion Hh; subst k; clear Hh | discriminate Hh]
  end.

Ltac walk_step HR :=
  cbv beta zeta;
  match goal with
  | |- Step _ _ => solve [auto with stepdb nocore]
  | |- Step _ (bind get (fun s => bind (put (@?g s)) (fun _ => @?k s))) =>
      apply (step_get_put _ HR g k); [wside | intro]
  | |- Step _ (bind _ _) => apply (step_bind _ HR); [|intro]
  | |- Step _ (ret _) => apply (step_ret _ HR)
  | |- Step _ (raise _) => apply (step_raise _ HR)
  | |- Step _ get => apply (step_get _ HR)
  | |- Step _ (gets _) => apply (step_gets _ HR)
  | |- Step _ (modify _) => apply step_modify; wside
  | |- Step _ (when _ _) => apply (step_when _ HR); intro
  | |- Step _ (catch _ _) => apply (step_catch _ HR); [|whandler]
  | |- Step _ (fold_left _ _ _) => apply (step_fold _ HR); [|intro]
  | |- Step _ (if ?b then _ else _) => destruct b
  | |- Step _ (match ?x with _ => _ end) => destruct x
  | |- Step _ ?m => let h := whead m in lazymatch h with @modify => fail | @catch => fail | @fold_left => fail | _ => unfold h end
  end.
Ltac walk HR := repeat walk_step HR.

(* ================================================================== SENDER *)
(* ---- local copies of the vocabulary of props/C15c.v (same bodies) *)
Definition sphase := option (Z * Z * bool).

Definition src_step (ph : sphase) (e : event) : option sphase :=
  match e with
  | EvTransaction a b _ =>
      match ph with
      | None => Some (Some (a, b, false))
      | Some (a0, b0, _) => if (a =? a0) && (b0 <? b) then Some (Some (a, b, false)) else None
      end
  | EvEofSent a b =>
      match ph with
      | Some (a0, b0, false) => if (a =? a0) && (b =? b0) then Some ph else None
      | _ => None
      end
  | EvFinished a b _ _ _ _ =>
      match ph with
      | Some (a0, b0, false) => if (a =? a0) && (b =? b0) then Some (Some (a0, b0, true)) else None
      | _ => None
      end
  | EvFault _ a b _ _ =>
      match ph with
      | Some (a0, b0, _) => if (a =? a0) && (b =? b0) then Some ph else None
      | None => None
      end
  | _ => None
  end.

Fixpoint src_run (ph : sphase) (l : list event) : option sphase :=
  match l with
  | [] => Some ph
  | e :: t => match src_step ph e with Some ph' => src_run ph' t | None => None end
  end.
Definition src_order_ok (l : list event) : Prop := src_run None l <> None.

Fixpoint src_phase (log : list event) : option sphase :=
  match log with
  | [] => Some None
  | e :: older => match src_phase older with Some ph => src_step ph e | None => None end
  end.

Definition src_ord (s : src) : Prop :=
  exists ph, src_phase (log_s s) = Some ph /\
    (forall t, q_tid (s_p s) = Some t -> ph = Some (t, false)) /\
    (forall a b f, ph = Some (a, b, f) -> a = l_id (s_cfg s) /\ b < s_seq_count s).

Definition is_finished (e : event) : bool := match e with EvFinished _ _ _ _ _ _ => true | _ => false end.

Definition shist (cs : list scall) (s : src) : src := fold_left (fun s c => fst (sapply c s)) cs s.

(* ---- the two readings of the log agree *)
Lemma src_run_app : forall l1 l2 ph,
  src_run ph (l1 ++ l2) = match src_run ph l1 with Some ph' => src_run ph' l2 | None => None end.
Proof.
  induction l1 as [|e l1 IH]; intros l2 ph; cbn [app src_run]; [reflexivity|].
  destruct (src_step ph e) as [ph'|]; [apply IH | reflexivity].
Qed.

Lemma src_run_rev : forall log, src_run None (rev log) = src_phase log.
Proof.
  induction log as [|e log IH]; [reflexivity|].
  cbn [rev src_phase]. rewrite src_run_app, IH.
  destruct (src_phase log) as [ph|]; [|reflexivity].
  cbn [src_run]. destruct (src_step ph e); reflexivity.
Qed.

Lemma src_ord_order : forall s, src_ord s -> src_order_ok (rev (log_s s)).
Proof.
  intros s [ph [H _]]. unfold src_order_ok. rewrite src_run_rev, H. discriminate.
Qed.

(* ---- the invariant with the current transaction of the log pinned (used across a fault declaration) *)
Definition cur_tid (log : list event) : option (Z * Z) :=
  match src_phase log with Some (Some (a, b, _)) => Some (a, b) | _ => None end.
Definition Kx (o : option (Z * Z)) (s : src) : Prop :=
  src_ord s /\ (forall t, o = Some t -> cur_tid (log_s s) = Some t).

Definition spush (e : event) (s : src) : src := s <| s_env ::= (fun en => en <| e_log ::= cons e |>) |>.

Lemma Kx_frame : forall o s s',
  log_s s' = log_s s -> (q_tid (s_p s') = q_tid (s_p s) \/ q_tid (s_p s') = None) -> s_cfg s' = s_cfg s ->
  s_seq_count s <= s_seq_count s' -> Kx o s -> Kx o s'.
Proof.
  intros o s s' Hl Ht Hc Hn [[ph [H1 [H2 H3]]] H4]. split.
  - exists ph. rewrite Hl, Hc. split; [exact H1|]. split.
    + intros t Hq. destruct Ht as [Ht|Ht]; [apply H2; congruence | congruence].
    + intros a b f Hp. destruct (H3 a b f Hp) as [X Y]. split; [exact X | lia].
  - rewrite Hl. exact H4.
Qed.

Lemma Kx_tid_cur : forall o s t, Kx o s -> q_tid (s_p s) = Some t -> Kx (Some t) s.
Proof.
  intros o s [a b] [HO H4] Ht. split; [exact HO|].
  intros t' E. inversion E; subst t'. destruct HO as [ph [H1 [H2 _]]].
  unfold cur_tid. rewrite H1, (H2 _ Ht). reflexivity.
Qed.

(* EOF-Sent and fault callbacks of the current transaction *)
Lemma Kx_push_eof : forall o s a b, Kx o s -> q_tid (s_p s) = Some (a, b) -> Kx o (spush (EvEofSent a b) s).
Proof.
  intros o s a b [[ph [H1 [H2 H3]]] H4] Ht. pose proof (H2 _ Ht) as Hp. subst ph.
  assert (E : src_phase (log_s (spush (EvEofSent a b) s)) = Some (Some (a, b, false))).
  { unfold spush, log_s. cbn. unfold log_s in H1. rewrite H1. cbn. rewrite !Z.eqb_refl. reflexivity. }
  split.
  - exists (Some (a, b, false)). split; [exact E|]. split; [exact H2 | exact H3].
  - intros t Ho. unfold cur_tid. rewrite E. specialize (H4 t Ho). unfold cur_tid in H4. rewrite H1 in H4. exact H4.
Qed.

Lemma Kx_push_fault : forall o s a b h c pr, Kx (Some (a, b)) s -> (forall t, o = Some t -> t = (a, b)) ->
  Kx o (spush (EvFault h a b c pr) s).
Proof.
  intros o s a b h c pr [[ph [H1 [H2 H3]]] H4] Ho.
  specialize (H4 _ eq_refl). unfold cur_tid in H4. rewrite H1 in H4.
  destruct ph as [[[a0 b0] f]|]; [|discriminate H4]. inversion H4; subst a0 b0.
  assert (E : src_phase (log_s (spush (EvFault h a b c pr) s)) = Some (Some (a, b, f))).
  { unfold spush, log_s. cbn. unfold log_s in H1. rewrite H1. cbn. rewrite !Z.eqb_refl. reflexivity. }
  split.
  - exists (Some (a, b, f)). split; [exact E|]. split; [exact H2 | exact H3].
  - intros t Et. unfold cur_tid. rewrite E. rewrite (Ho t Et). reflexivity.
Qed.

Definition sreset_of (cl : bool) (s : src) : src :=
  s <| s_step := SS_IDLE |> <| s_state := ST_IDLE |> <| s_queue ::= (fun q => if cl then [] else q) |>
    <| s_ready ::= (fun n => if cl then 0 else n) |> <| s_p := reset_sparams |>.

(* Transaction-Finished, then the reset *)
Lemma Kx_push_fin : forall o s a b c d f fl g, Kx o s -> q_tid (s_p s) = Some (a, b) ->
  Kx o (sreset_of false ((spush (EvFinished a b c d f fl) s) <| s_p ::= g |>)).
Proof.
  intros o s a b c d f fl g [[ph [H1 [H2 H3]]] H4] Ht. pose proof (H2 _ Ht) as Hp. subst ph.
  assert (E : src_phase (log_s (sreset_of false ((spush (EvFinished a b c d f fl) s) <| s_p ::= g |>))) = Some (Some (a, b, true))).
  { unfold sreset_of, spush, log_s. cbn. unfold log_s in H1. rewrite H1. cbn. rewrite !Z.eqb_refl. reflexivity. }
  split.
  - exists (Some (a, b, true)). split; [exact E|]. split.
    + intros t X. cbn in X. discriminate X.
    + intros a1 b1 f1 X. injection X as Xa Xb Xf. subst a1 b1. apply (H3 a b false eq_refl).
  - intros t Ho. unfold cur_tid. rewrite E. specialize (H4 t Ho). unfold cur_tid in H4. rewrite H1 in H4. exact H4.
Qed.

(* the configuration is never changed; [Kc] fixes it so that the code that reads it can be followed *)
Definition Kc (c : lcfg) (o : option (Z * Z)) (s : src) : Prop := s_cfg s = c /\ Kx o s.

Lemma Kc_frame : forall c o s s',
  log_s s' = log_s s -> (q_tid (s_p s') = q_tid (s_p s) \/ q_tid (s_p s') = None) -> s_cfg s' = s_cfg s ->
  s_seq_count s <= s_seq_count s' -> Kc c o s -> Kc c o s'.
Proof.
  intros c o s s' Hl Ht Hc Hn [H1 H2]. split; [congruence | exact (Kx_frame o s s' Hl Ht Hc Hn H2)].
Qed.

Ltac kfr := apply Kc_frame;
  [reflexivity | first [left; reflexivity | right; reflexivity] | reflexivity | first [apply Z.le_refl | cbn; lia]].
Ltac kframe := let s := fresh "s" in let H := fresh "H" in intro s; intro H; revert H; kfr.

Notation RI c o := (fun s s' : src => Kc c o s -> Kc c o s').

Lemma step_bind_cfg {B} c o (f : lcfg -> SM B) : Step (RI c o) (f c) -> Step (RI c o) (bind (gets s_cfg) f).
Proof. intros Hf s H. unfold bind, gets. destruct H as [Hc H]. rewrite Hc. apply Hf. split; assumption. Qed.

(* ---- the code that can run inside a fault declaration: the current transaction of the log stays *)
Section SrcInner.
  Variable c : lcfg.
  Variable o : option (Z * Z).
  Let HR : PreOrd (RI c o) := preord_inv (Kc c o).
  Notation SI m := (Step (RI c o) m).
  Ltac wside ::= kframe.

  Lemma si_checksum_calculation : forall size, SI (checksum_calculation size).
  Proof. intro. walk HR. Qed.
  #[local] Hint Resolve si_checksum_calculation : stepdb.

  Lemma si_sadd_packet : forall p, SI (sadd_packet p).
  Proof. intro. walk HR. Qed.
  #[local] Hint Resolve si_sadd_packet : stepdb.

  Lemma si_eof_indication : SI (t <- stid_or_assert ;; semit (EvEofSent (fst t) (snd t))).
  Proof.
    intros s [Hc H]. unfold stid_or_assert. srun. destruct (q_tid (s_p s)) as [[a b]|] eqn:Ht; srun; [|split; assumption].
    split; [exact Hc | apply (Kx_push_eof o s a b H Ht)].
  Qed.
  #[local] Hint Resolve si_eof_indication : stepdb.

  Lemma si_prepare_eof_pdu : forall ck, SI (prepare_eof_pdu ck).
  Proof. intro. walk HR. Qed.
  #[local] Hint Resolve si_prepare_eof_pdu : stepdb.

  Lemma si_sreset_internal : forall cl, SI (sreset_internal cl).
  Proof. intro. walk HR. Qed.
  #[local] Hint Resolve si_sreset_internal : stepdb.

  Lemma si_notice_of_completion_s : SI notice_of_completion_s.
  Proof.
    intros s H. unfold notice_of_completion_s, stid_or_assert. srun.
    destruct (l_ind_fin (s_cfg s)); [rewrite when_true | rewrite when_false].
    - srun. destruct (q_tid (s_p s)) as [[a b]|] eqn:Ht; srun; [|exact H].
      destruct H as [Hc H].
      destruct (q_fin (s_p s)) as [[[[cd d] f] fl]|]; srun; unfold ret; cbn [fst];
        (split; [exact Hc | apply (Kx_push_fin o s a b _ _ _ _ _ H Ht)]).
    - srun. unfold ret; cbn [fst]. revert H. kfr.
  Qed.
  #[local] Hint Resolve si_notice_of_completion_s : stepdb.

  Lemma si_start_positive_ack_procedure_s : SI start_positive_ack_procedure_s.
  Proof. walk HR. Qed.
  #[local] Hint Resolve si_start_positive_ack_procedure_s : stepdb.

  Lemma si_handle_eof_sent : forall b, SI (handle_eof_sent b).
  Proof. intro. walk HR. Qed.
  #[local] Hint Resolve si_handle_eof_sent : stepdb.

  Lemma si_abandon_callback : forall c0,
    SI (t <- stid_or_assert ;; pr <- gq q_progress ;; semit (EvFault FH_ABANDON (fst t) (snd t) c0 pr) ;;; sreset_internal true ;;; ret false).
  Proof.
    intros c0 s H. unfold stid_or_assert. srun. destruct (q_tid (s_p s)) as [[a b]|] eqn:Ht; srun; [|exact H].
    unfold ret; cbn [fst]. destruct H as [Hc H].
    assert (H1 : Kc c o (spush (EvFault FH_ABANDON a b c0 (q_progress (s_p s))) s)).
    { split; [exact Hc|]. apply Kx_push_fault; [exact (Kx_tid_cur o s (a, b) H Ht)|].
      intros t Et. destruct H as [[ph [H1 [H2 _]]] H4]. specialize (H4 t Et). unfold cur_tid in H4.
      rewrite H1, (H2 _ Ht) in H4. inversion H4. reflexivity. }
    revert H1. kfr.
  Qed.
  #[local] Hint Resolve si_abandon_callback : stepdb.

  Lemma si_notice_of_cancellation_s : forall cd, SI (notice_of_cancellation_s cd).
  Proof. intro. walk HR. Qed.
End SrcInner.

(* ---- the whole state machine *)
#[local] Hint Resolve si_checksum_calculation si_sadd_packet si_prepare_eof_pdu si_sreset_internal
  si_notice_of_completion_s si_start_positive_ack_procedure_s si_handle_eof_sent si_notice_of_cancellation_s
  si_eof_indication si_abandon_callback : stepdb.

Lemma Kx_none : forall o s, Kx o s -> Kx None s.
Proof. intros o s [H _]. split; [exact H | intros t X; discriminate X]. Qed.
Lemma Kc_none : forall c o s, Kc c o s -> Kc c None s.
Proof. intros c o s [H1 H2]. split; [exact H1 | exact (Kx_none o s H2)]. Qed.

Lemma so_fault_tail : forall c (go : SM bool) fh a b cd pr s,
  Step (RI c (Some (a, b))) go -> Kc c (Some (a, b)) s ->
  Kc c None (fst ((g <- go ;;
                   if negb g then ret tt else
                   match fh with None => raise E_VALUE | Some h => semit (EvFault h a b cd pr) end) s)).
Proof.
  intros c go fh a b cd pr s G H. specialize (G s H). unfold bind.
  destruct (go s) as [s1 [g|e]]; cbn [fst] in G |- *; [|exact (Kc_none _ _ _ G)].
  destruct (negb g); [exact (Kc_none _ _ _ G)|].
  destruct fh as [h|]; [|exact (Kc_none _ _ _ G)].
  unfold semit, modify; cbn [fst]. destruct G as [Gc G]. split; [exact Gc|].
  apply (Kx_push_fault None s1 a b h cd pr G).
  intros t X. discriminate X.
Qed.

(* Transaction: a new transaction of the log, numbered by the counter *)
Lemma Kx_push_tx : forall s s' n orig, Kx None s ->
  log_s s' = EvTransaction (l_id (s_cfg s)) n orig :: log_s s -> q_tid (s_p s') = Some (l_id (s_cfg s), n) ->
  s_cfg s' = s_cfg s -> s_seq_count s <= n -> n < s_seq_count s' -> Kx None s'.
Proof.
  intros s s' n orig [[ph [H1 [H2 H3]]] _] Hl Ht Hc Hn1 Hn2.
  assert (E : src_phase (log_s s') = Some (Some (l_id (s_cfg s), n, false))).
  { rewrite Hl. cbn [src_phase]. rewrite H1. destruct ph as [[[a0 b0] f0]|]; cbn [src_step]; [|reflexivity].
    destruct (H3 a0 b0 f0 eq_refl) as [X Y]. subst a0. rewrite Z.eqb_refl.
    assert (Z : (b0 <? n) = true) by (apply Z.ltb_lt; lia). rewrite Z. reflexivity. }
  split; [|intros t X; discriminate X].
  exists (Some (l_id (s_cfg s), n, false)). split; [exact E|]. split.
  - intros t X. rewrite Ht in X. inversion X. reflexivity.
  - intros a b f X. injection X as Xa Xb Xf. subst a b. rewrite Hc. split; [reflexivity | exact Hn2].
Qed.

(* _get_next_transfer_seq_num, _calculate_max_file_seg_len and the Transaction indication *)
Definition ord_ts_tail (l : lcfg) (r : rcfg) (orig : option (Z * Z)) : SM unit :=
  s <- get ;;
  let next := s_seq_count s in
  put (s <| s_seq_count := next + 1 |>) ;;;
  (if negb ((s_seq_bits s =? 8) || (s_seq_bits s =? 16) || (s_seq_bits s =? 32)) then raise E_VALUE
   else if 2 ^ (s_seq_bits s) <=? next then raise E_VALUE
   else setq (fun q => q <| q_conf ::= (fun c => c <| sc_seq := next |> <| sc_seqw := s_seq_bits s / 8 |>) |>)) ;;;
  c <- gq q_conf ;;
  (match max_file_seg_len (hdr_of c TOWARDS_RECEIVER) (r_max_packet r) with
   | None => raise E_VALUE
   | Some derived =>
       let h := hdr_of c TOWARDS_RECEIVER in
       if r_max_packet r <? hdr_len h + 1 + 1 + 4 + fss_len h + crc_len h then raise E_VALUE else
       let seg := match r_max_seg r with
                  | Some m => if m <? derived then m else derived
                  | None => derived end in
       setq (fun q => q <| q_segment_len := seg |>)
   end) ;;;
  c <- gq q_conf ;;
  setq (fun q => q <| q_tid := Some (l_id l, sc_seq c) |>) ;;;
  semit (EvTransaction (l_id l) (sc_seq c) orig).

Lemma so_ord_ts_tail : forall c r orig, Step (RI c None) (ord_ts_tail c r orig).
Proof.
  intros c r orig s [Hc H]. unfold ord_ts_tail. cbv zeta. rewrite b_get, b_put.
  assert (F : Kc c None (s <| s_seq_count := s_seq_count s + 1 |>)).
  { apply (Kc_frame c None s); try reflexivity; [left; reflexivity | cbn; lia | split; assumption]. }
  destruct (negb _); [srun; exact F|].
  destruct (2 ^ s_seq_bits s <=? s_seq_count s); [srun; exact F|].
  srun.
  match goal with |- context [max_file_seg_len ?h ?m] => destruct (max_file_seg_len h m) as [derived|] end;
    [|srun; revert F; kfr].
  match goal with |- context [if ?b then _ else _] => destruct b end; [srun; revert F; kfr|].
  srun. unfold semit, modify; cbn [fst]. split; [cbn; exact Hc|].
  subst c. eapply (Kx_push_tx s _ (s_seq_count s) orig H); try reflexivity; cbn; lia.
Qed.

(* put_request after the request has been stored *)
Definition put_rest (p : putreq) (s : src) : SM bool :=
  (match pr_names p with
   | Some (sn, _) => if fs_file_exists (e_fs (s_env s)) sn then ret tt else raise E_SOURCE_FILE_MISSING
   | None => ret tt
   end) ;;;
  let r := get_remote (l_remotes (s_cfg s)) (pr_dst p) in
  setq (fun q => q <| q_rcfg := r |>) ;;;
  match r with
  | None => raise E_NO_REMOTE_CFG
  | Some r =>
    setq (fun q => q <| q_conf ::= (fun c => c <| sc_dst := pr_dst p |> <| sc_dstw := pr_dstw p |>) |>) ;;;
    modify (fun s => s <| s_state := ST_BUSY |>) ;;;
    let mode := match pr_mode p with Some m => m | None => r_mode r end in
    let cl := match pr_closure p with Some c => c | None => r_closure r end in
    setq (fun q => q <| q_conf ::= (fun c => c <| sc_mode := mode |>) |> <| q_closure := cl |>) ;;;
    ret true
  end.
Lemma put_request_eq : forall p s,
  put_request p s = if negb (s_state s =? ST_IDLE) then (s, Ok false) else put_rest p s (s <| s_put := Some p |>).
Proof. intros p s. unfold put_request. rewrite b_get. destruct (negb (s_state s =? ST_IDLE)); reflexivity. Qed.

Section SrcOuter.
  Variable c : lcfg.
  Notation SO m := (Step (RI c None) m).
  Let HR : PreOrd (RI c None) := preord_inv (Kc c None).
  Ltac wside ::= kframe.

  Lemma so_declare_fault_s : forall cd, SO (declare_fault_s cd).
  Proof.
    intros cd s H. unfold declare_fault_s. rewrite b_gets, b_gq, b_gq.
    destruct (q_tid (s_p s)) as [[a b]|] eqn:Ht; [|exact H].
    apply so_fault_tail; [|destruct H as [Hc H]; split; [exact Hc | exact (Kx_tid_cur None s (a, b) H Ht)]].
    pose proof (preord_inv (Kc c (Some (a, b)))) as HR1.
    destruct (get_fault_handler (l_faults (s_cfg s)) cd) as [h|]; [|apply (step_ret _ HR1)].
    destruct (h =? FH_CANCEL); [apply si_notice_of_cancellation_s|].
    destruct (h =? FH_ABANDON); [|apply (step_ret _ HR1)].
    apply (step_bind _ HR1); [apply si_sreset_internal | intro; apply (step_ret _ HR1)].
  Qed.
  #[local] Hint Resolve so_declare_fault_s : stepdb.

  Lemma so_transaction_start : SO transaction_start.
  Proof.
    unfold transaction_start.
    apply (step_bind _ HR); [walk HR | intro p]. cbv zeta.
    apply (step_bind _ HR); [walk HR | intros _].
    apply (step_bind _ HR); [walk HR | intro r].
    apply step_bind_cfg.
    apply (step_bind _ HR); [walk HR | intro fsz].
    apply (step_bind _ HR); [walk HR | intro mdo].
    apply (step_bind _ HR); [walk HR | intros _].
    apply (step_bind _ HR); [walk HR | intros _].
    apply so_ord_ts_tail.
  Qed.
  #[local] Hint Resolve so_transaction_start : stepdb.

  Lemma so_prepare_file_data_pdu : forall o l, SO (prepare_file_data_pdu o l).
  Proof. intros. walk HR. Qed.
  #[local] Hint Resolve so_prepare_file_data_pdu : stepdb.

  Lemma so_prepare_metadata_pdu : SO prepare_metadata_pdu.
  Proof. walk HR. Qed.
  #[local] Hint Resolve so_prepare_metadata_pdu : stepdb.

  Lemma so_retransmit_chunks : forall fuel o m seg, SO (retransmit_chunks fuel o m seg).
  Proof. induction fuel; intros; cbn [retransmit_chunks]; walk HR. Qed.
  #[local] Hint Resolve so_retransmit_chunks : stepdb.

  Lemma so_handle_segment_req : forall rq, SO (handle_segment_req rq).
  Proof. intro. walk HR. Qed.
  #[local] Hint Resolve so_handle_segment_req : stepdb.

  Lemma so_handle_retransmission : forall pkt, SO (handle_retransmission pkt).
  Proof. intro. walk HR. Qed.
  #[local] Hint Resolve so_handle_retransmission : stepdb.

  Lemma so_sending_file_data_fsm : forall pkt, SO (sending_file_data_fsm pkt).
  Proof. intro. walk HR. Qed.
  #[local] Hint Resolve so_sending_file_data_fsm : stepdb.

  Lemma so_handle_positive_ack_procedures_s : SO handle_positive_ack_procedures_s.
  Proof. walk HR. Qed.
  #[local] Hint Resolve so_handle_positive_ack_procedures_s : stepdb.

  Lemma so_handle_waiting_for_ack : forall pkt, SO (handle_waiting_for_ack pkt).
  Proof. intro. walk HR. Qed.
  #[local] Hint Resolve so_handle_waiting_for_ack : stepdb.

  Lemma so_handle_wait_for_finish : forall pkt, SO (handle_wait_for_finish pkt).
  Proof. intro. walk HR. Qed.
  #[local] Hint Resolve so_handle_wait_for_finish : stepdb.

  Lemma so_fsm_advancement_s : SO fsm_advancement_s.
  Proof. walk HR. Qed.
  #[local] Hint Resolve so_fsm_advancement_s : stepdb.

  Lemma so_fsm_non_idle : forall pkt, SO (fsm_non_idle pkt).
  Proof. intro. walk HR. Qed.
  #[local] Hint Resolve so_fsm_non_idle : stepdb.

  Lemma so_check_inserted_packet_s : forall p, SO (check_inserted_packet_s p).
  Proof. intro. walk HR. Qed.
  #[local] Hint Resolve so_check_inserted_packet_s : stepdb.

  Lemma so_state_machine_s : forall pkt, SO (state_machine_s pkt).
  Proof. intro. walk HR. Qed.

  Lemma so_cancel_request_s : forall a b, SO (cancel_request_s a b).
  Proof. intros. walk HR. Qed.

  Lemma so_get_next_packet_s : SO get_next_packet_s.
  Proof.
    unfold get_next_packet_s. apply step_bind_get. intros s H.
    destruct (s_queue s); [exact H|]. rewrite b_put. unfold ret; cbn [fst]. revert H. kfr.
  Qed.

  Lemma so_reset_s : SO reset_s.
  Proof. unfold reset_s. walk HR. Qed.

  Lemma so_put_rest : forall p s0, SO (put_rest p s0).
  Proof. intros. unfold put_rest. walk HR. Qed.

  Lemma so_put_request : forall p, SO (put_request p).
  Proof.
    intros p s H. rewrite put_request_eq.
    destruct (negb (s_state s =? ST_IDLE)); [exact H|].
    apply so_put_rest. revert H. kfr.
  Qed.
End SrcOuter.

(* ---- the statements of props/C15c.v, sender *)
Lemma src_ord_Kc : forall s, src_ord s <-> Kc (s_cfg s) None s.
Proof.
  intro s. split.
  - intro H. split; [reflexivity|]. split; [exact H | intros t X; discriminate X].
  - intros [_ [H _]]. exact H.
Qed.

Lemma Kc_src_ord : forall c s, Kc c None s -> src_ord s.
Proof. intros c s [_ [H _]]. exact H. Qed.

Lemma src_ord_init : forall c seq0 bits, src_ord (src_init c seq0 bits).
Proof.
  intros c seq0 bits. exists None. split; [reflexivity|]. split.
  - intros t X. discriminate X.
  - intros a b f X. discriminate X.
Qed.

Lemma src_ord_preserved : forall pkt p a b s,
  src_ord s ->
  src_ord (fst (state_machine_s pkt s)) /\ src_ord (fst (put_request p s)) /\
  src_ord (fst (get_next_packet_s s)) /\ src_ord (fst (cancel_request_s a b s)) /\ src_ord (fst (reset_s s)).
Proof.
  intros pkt p a b s H. apply src_ord_Kc in H.
  split; [|split; [|split; [|split]]]; apply (Kc_src_ord (s_cfg s)).
  - exact (so_state_machine_s (s_cfg s) pkt s H).
  - exact (so_put_request (s_cfg s) p s H).
  - exact (so_get_next_packet_s (s_cfg s) s H).
  - exact (so_cancel_request_s (s_cfg s) a b s H).
  - exact (so_reset_s (s_cfg s) s H).
Qed.

(* the clock and the environment's own changes of the filestore *)
Lemma src_ord_env : forall s f, (forall e, e_log (f e) = e_log e) -> src_ord s -> src_ord (s <| s_env ::= f |>).
Proof.
  intros s f Hf [ph [H1 [H2 H3]]]. exists ph. unfold log_s in *. cbn. rewrite Hf. split; [exact H1|]. split; [exact H2 | exact H3].
Qed.

Lemma src_ord_sapply : forall c s, src_ord s -> src_ord (fst (sapply c s)).
Proof.
  intros c s H.
  destruct c as [pkt| |p|a b| |ms]; cbn [sapply].
  - destruct (src_ord_preserved pkt (mkPut 0 0 None None None None) 0 0 s H) as [X _].
    destruct (state_machine_s pkt s); exact X.
  - destruct (src_ord_preserved None (mkPut 0 0 None None None None) 0 0 s H) as [_ [_ [X _]]].
    destruct (get_next_packet_s s); exact X.
  - destruct (src_ord_preserved None p 0 0 s H) as [_ [X _]].
    destruct (put_request p s); exact X.
  - destruct (src_ord_preserved None (mkPut 0 0 None None None None) a b s H) as [_ [_ [_ [X _]]]].
    destruct (cancel_request_s a b s); exact X.
  - destruct (src_ord_preserved None (mkPut 0 0 None None None None) 0 0 s H) as [_ [_ [_ [_ X]]]].
    destruct (reset_s s); exact X.
  - cbn [fst]. apply src_ord_env; [reflexivity | exact H].
Qed.

Lemma src_ord_history : forall cs s, src_ord s -> src_ord (shist cs s).
Proof.
  unfold shist. induction cs as [|c cs IH]; intros s H; cbn [fold_left]; [exact H|].
  apply IH. apply src_ord_sapply. exact H.
Qed.

Lemma src_order_history : forall cs c seq0 bits, src_order_ok (rev (log_s (shist cs (src_init c seq0 bits)))).
Proof. intros. apply src_ord_order, src_ord_history, src_ord_init. Qed.

(* ---- Transaction-Finished is delivered by the call that leaves the handler idle *)
Definition fin_idle (s s' : src) : Prop :=
  (exists new, log_s s' = new ++ log_s s /\ (existsb is_finished new = true -> s_state s' = ST_IDLE)) /\
  (s_state s = ST_IDLE -> s_state s' = ST_IDLE).

Lemma preord_fin_idle : PreOrd fin_idle.
Proof.
  split.
  - intro s. split; [exists []; split; [reflexivity | intro X; discriminate X] | intro X; exact X].
  - intros s1 s2 s3 [[n1 [H1 H2]] H3] [[n2 [K1 K2]] K3]. split; [|intro X; exact (K3 (H3 X))].
    exists (n2 ++ n1). split; [rewrite K1, H1; apply app_assoc|].
    rewrite existsb_app. intro X. apply orb_true_iff in X. destruct X as [X|X]; [exact (K2 X) | exact (K3 (H2 X))].
Qed.

Ltac fside :=
  let s := fresh "s" in
  intro s; split;
  [ first [ exists []; split; [reflexivity | let X := fresh in intro X; discriminate X]
          | eexists [_]; split; [reflexivity | let X := fresh in intro X; discriminate X] ]
  | first [ let X := fresh in intro X; exact X | let X := fresh in intro X; reflexivity ] ].

Section SrcFin.
  Let HR : PreOrd fin_idle := preord_fin_idle.
  Notation SF m := (Step fin_idle m).
  Ltac wside ::= fside.

  Lemma sf_checksum_calculation : forall size, SF (checksum_calculation size).
  Proof. intro. walk HR. Qed.
  #[local] Hint Resolve sf_checksum_calculation : stepdb.

  Lemma sf_notice_of_completion_s : SF notice_of_completion_s.
  Proof.
    intros s. unfold notice_of_completion_s, stid_or_assert. srun.
    destruct (l_ind_fin (s_cfg s)); [rewrite when_true | rewrite when_false].
    - srun. destruct (q_tid (s_p s)) as [[a b]|] eqn:Ht; srun; [|apply HR].
      destruct (q_fin (s_p s)) as [[[[cd d] f] fl]|]; srun; unfold ret; cbn [fst];
        (split; [eexists [_]; split; [reflexivity | intros _; reflexivity] | intros _; reflexivity]).
    - srun. unfold ret; cbn [fst]. split; [exists []; split; [reflexivity | intro X; discriminate X] | intros _; reflexivity].
  Qed.
  #[local] Hint Resolve sf_notice_of_completion_s : stepdb.

  Lemma sf_retransmit_chunks : forall fuel o m seg, SF (retransmit_chunks fuel o m seg).
  Proof. induction fuel; intros; cbn [retransmit_chunks]; walk HR. Qed.
  #[local] Hint Resolve sf_retransmit_chunks : stepdb.

  Lemma sf_state_machine_s : forall pkt, SF (state_machine_s pkt).
  Proof. intro. walk HR. Qed.

  Lemma sf_cancel_request_s : forall a b, SF (cancel_request_s a b).
  Proof. intros. walk HR. Qed.
End SrcFin.

Lemma src_finished_idle : forall pkt a b s,
  (exists new, log_s (fst (state_machine_s pkt s)) = new ++ log_s s /\
     (existsb is_finished new = true -> s_state (fst (state_machine_s pkt s)) = ST_IDLE)) /\
  (exists new, log_s (fst (cancel_request_s a b s)) = new ++ log_s s /\
     (existsb is_finished new = true -> s_state (fst (cancel_request_s a b s)) = ST_IDLE)).
Proof.
  intros pkt a b s. split; [exact (proj1 (sf_state_machine_s pkt s)) | exact (proj1 (sf_cancel_request_s a b s))].
Qed.

Lemma src_other_calls_silent : forall p s,
  log_s (fst (put_request p s)) = log_s s /\ log_s (fst (get_next_packet_s s)) = log_s s /\
  log_s (fst (reset_s s)) = log_s s.
Proof.
  intros p s. split; [|split].
  - rewrite put_request_eq. destruct (negb (s_state s =? ST_IDLE)); [reflexivity|].
    unfold put_rest. cbv zeta.
    destruct (pr_names p) as [[sn dn]|]; [destruct (fs_file_exists (e_fs (s_env s)) sn)|];
      srun; try reflexivity; destruct (get_remote (l_remotes (s_cfg s)) (pr_dst p)); srun; reflexivity.
  - unfold get_next_packet_s. rewrite b_get. destruct (s_queue s); [reflexivity|]. rewrite b_put. reflexivity.
  - reflexivity.
Qed.

(* ================================================================== RECEIVER *)
(* ---- the generic part, aware of the abandon exception: a computation that ends by raising E_ABANDONED relates its
   start to its end by RA (the transaction is gone), every other end by RN *)
Section StepXSec.
  Context {S : Type}.
  Variables RN RA : S -> S -> Prop.
  Hypothesis HN : PreOrd RN.
  Hypothesis HA : forall a b c, RN a b -> RA b c -> RA a c.

  Definition outc {A} (s : S) (x : S * res Z A) : Prop :=
    match x with
    | (s', Ok _) => RN s s'
    | (s', Err e) => if e =? E_ABANDONED then RA s s' else RN s s'
    end.
  Definition StepX {A} (m : M S A) : Prop := forall s, outc s (m s).

  Lemma outc_trans {A} s s1 (x : S * res Z A) : RN s s1 -> outc s1 x -> outc s x.
  Proof.
    intros H1 H2. destruct x as [s2 [v|e]]; cbn [outc] in *.
    - destruct HN as [_ Ht]. exact (Ht _ _ _ H1 H2).
    - destruct (e =? E_ABANDONED); [exact (HA _ _ _ H1 H2) | destruct HN as [_ Ht]; exact (Ht _ _ _ H1 H2)].
  Qed.

  Lemma sx_ret {A} (a : A) : StepX (ret a).
  Proof. intro s. apply HN. Qed.
  Lemma sx_raise {A} (e : Z) : (e =? E_ABANDONED) = false -> StepX (@raise S A e).
  Proof. intros He s. unfold raise, outc. rewrite He. apply HN. Qed.
  Lemma sx_get : StepX (@get S).
  Proof. intro s. apply HN. Qed.
  Lemma sx_gets {A} (f : S -> A) : StepX (gets f).
  Proof. intro s. apply HN. Qed.
  Lemma sx_modify (f : S -> S) : (forall s, RN s (f s)) -> StepX (modify f).
  Proof. intros Hf s. apply Hf. Qed.
  Lemma sx_bind {A B} (m : M S A) (f : A -> M S B) : StepX m -> (forall a, StepX (f a)) -> StepX (bind m f).
  Proof.
    intros Hm Hf s. unfold bind. specialize (Hm s).
    destruct (m s) as [s1 [a|e]]; [|exact Hm].
    cbn [outc] in Hm. eapply outc_trans; [exact Hm | apply Hf].
  Qed.
  Lemma sx_get_put {B} (g : S -> S) (k : S -> M S B) :
    (forall s, RN s (g s)) -> (forall s0, StepX (k s0)) -> StepX (bind get (fun s => bind (put (g s)) (fun _ => k s))).
  Proof. intros Hg Hk s. unfold bind, get, put. eapply outc_trans; [apply Hg | apply Hk]. Qed.
  Lemma sx_when (b : bool) (m : M S unit) : (b = true -> StepX m) -> StepX (when b m).
  Proof. intro Hm. unfold when. destruct b; [apply Hm; reflexivity | apply sx_ret]. Qed.
  Lemma sx_catch {A} (m : M S A) (h : Z -> option (M S A)) :
    StepX m -> (forall e k, h e = Some k -> (e =? E_ABANDONED) = false /\ StepX k) -> StepX (catch m h).
  Proof.
    intros Hm Hh s. unfold catch. specialize (Hm s).
    destruct (m s) as [s1 [a|e]]; [exact Hm|].
    destruct (h e) as [k|] eqn:Hk; [|exact Hm].
    destruct (Hh e k Hk) as [He Hk']. cbn [outc] in Hm. rewrite He in Hm.
    eapply outc_trans; [exact Hm | apply Hk'].
  Qed.
  Lemma sx_fold {B} (g : B -> M S unit) (l : list B) : forall m0,
    StepX m0 -> (forall b, StepX (g b)) -> StepX (fold_left (fun m b => bind m (fun _ => g b)) l m0).
  Proof.
    induction l as [|b l IH]; intros m0 H0 Hg; cbn [fold_left]; [exact H0|].
    apply IH; [|exact Hg]. apply sx_bind; [exact H0 | intros _; apply Hg].
  Qed.
  Lemma sx_bind_gets {A B} (g : S -> A) (f : A -> M S B) : (forall s, outc s (f (g s) s)) -> StepX (bind (gets g) f).
  Proof. intros H s. apply H. Qed.
  Lemma sx_bind_get {B} (f : S -> M S B) : (forall s, outc s (f s s)) -> StepX (bind get f).
  Proof. intros H s. apply H. Qed.
End StepXSec.

Ltac xside := fail.
Ltac xhandler := fail.
Ltac xraise := first [ reflexivity | match goal with |- (oserr_exn ?o =? _) = false => destruct o; reflexivity end ].
Ltac walkx_step HN HA :=
  cbv beta zeta;
  match goal with
  | |- StepX _ _ _ => solve [auto with stepdb nocore]
  | |- StepX _ _ (bind get (fun s => bind (put (@?g s)) (fun _ => @?k s))) =>
      apply (sx_get_put _ _ HN HA g k); [xside | intro]
  | |- StepX _ _ (bind _ _) => apply (sx_bind _ _ HN HA); [|intro]
  | |- StepX _ _ (ret _) => apply (sx_ret _ _ HN)
  | |- StepX _ _ (raise _) => apply (sx_raise _ _ HN); xraise
  | |- StepX _ _ get => apply (sx_get _ _ HN)
  | |- StepX _ _ (gets _) => apply (sx_gets _ _ HN)
  | |- StepX _ _ (modify _) => apply sx_modify; xside
  | |- StepX _ _ (when _ _) => apply (sx_when _ _ HN); intro
  | |- StepX _ _ (catch _ _) => apply (sx_catch _ _ HN HA); [|xhandler]
  | |- StepX _ _ (fold_left _ _ _) => apply (sx_fold _ _ HN HA); [|intro]
  | |- StepX _ _ (if ?b then _ else _) => destruct b
  | |- StepX _ _ (match ?x with _ => _ end) => destruct x
  | |- StepX _ _ ?m => let h := whead m in
        lazymatch h with @modify => fail | @catch => fail | @fold_left => fail | @raise => fail | @emit => fail
                       | @reset_internal => fail | _ => unfold h end
  end.
Ltac walkx HN HA := repeat walkx_step HN HA.

(* ---- local copies of the vocabulary of props/C15c.v (same bodies) *)
Definition ev_tid (e : event) : Z * Z :=
  match e with
  | EvTransaction a b _ | EvEofSent a b | EvFinished a b _ _ _ _ | EvMetadataRecv a b _ _ _ _
  | EvSegmentRecv a b _ _ | EvEofRecv a b | EvFault _ a b _ _ => (a, b)
  end.
Definition is_fault (e : event) : bool := match e with EvFault _ _ _ _ _ => true | _ => false end.

(* ---- tier 1: the code of the receiving phase.  From a state whose transaction is (a, b): every event delivered
   satisfies P, and the transaction stays, unless it is abandoned (then the parameter block is fresh, the handler idle) *)
Definition alive (a b : Z) (s : dst) : Prop := p_tid (d_p s) = Some (a, b).
Definition dead (s : dst) : Prop := d_p s = fresh_params /\ d_state s = ST_IDLE /\ d_step s = DS_IDLE.
Definition grow (P : event -> Prop) (s s' : dst) : Prop :=
  exists new, log_d s' = new ++ log_d s /\ Forall P new.
Definition RN (a b : Z) (P : event -> Prop) (s s' : dst) : Prop := alive a b s -> grow P s s' /\ alive a b s'.
Definition RA (a b : Z) (P : event -> Prop) (s s' : dst) : Prop := alive a b s -> grow P s s' /\ dead s'.

Lemma grow_refl : forall P s, grow P s s.
Proof. intros P s. exists []. split; [reflexivity | constructor]. Qed.
Lemma grow_trans : forall P s1 s2 s3, grow P s1 s2 -> grow P s2 s3 -> grow P s1 s3.
Proof.
  intros P s1 s2 s3 [n1 [H1 H2]] [n2 [K1 K2]]. exists (n2 ++ n1). split.
  - rewrite K1, H1. apply app_assoc.
  - apply Forall_app. split; assumption.
Qed.
Lemma grow_cons : forall (P : event -> Prop) s s' e, P e -> log_d s' = e :: log_d s -> grow P s s'.
Proof. intros P s s' e H Hl. exists [e]. split; [exact Hl | constructor; [exact H | constructor]]. Qed.
Lemma grow_same : forall P s s', log_d s' = log_d s -> grow P s s'.
Proof. intros P s s' Hl. exists []. split; [exact Hl | constructor]. Qed.

Lemma preord_RN : forall a b P, PreOrd (RN a b P).
Proof.
  intros a b P. split.
  - intros s H. split; [apply grow_refl | exact H].
  - intros s1 s2 s3 H1 H2 H. destruct (H1 H) as [G1 A1]. destruct (H2 A1) as [G2 A2].
    split; [exact (grow_trans _ _ _ _ G1 G2) | exact A2].
Qed.
Lemma RN_RA : forall a b P s1 s2 s3, RN a b P s1 s2 -> RA a b P s2 s3 -> RA a b P s1 s3.
Proof.
  intros a b P s1 s2 s3 H1 H2 H. destruct (H1 H) as [G1 A1]. destruct (H2 A1) as [G2 A2].
  split; [exact (grow_trans _ _ _ _ G1 G2) | exact A2].
Qed.

Ltac xside ::=
  let s := fresh "s" in let H := fresh "H" in
  intro s; intro H; split; [exists []; split; [reflexivity | constructor] | exact H].
Ltac xhandler ::=
  let e := fresh "e" in let k := fresh "k" in let Hh := fresh "Hh" in
  intros e k Hh; cbv beta in Hh;
  match type of Hh with
  | (if ?c then Some _ else None) = Some _ =>
      let E := fresh "E" in
      destruct c eqn:E; [inversion Hh; subst k; clear Hh | discriminate Hh];
      split; [destruct (e =? E_ABANDONED) eqn:E2; [apply Z.eqb_eq in E2; subst e; discriminate E | reflexivity]|]
  end.


(* the receive indication an inbound PDU can cause *)
Definition ri_of (a b : Z) (pkt : option pdu) : option event :=
  match pkt with
  | Some (PFileData _ off data) => Some (EvSegmentRecv a b off (zlen data))
  | Some (PMetadata h _ _ sz names msgs) =>
      Some (EvMetadataRecv a b (h_src h) (match names with Some _ => Some sz | None => None end) names msgs)
  | Some (PEof _ _ _ _ _) => Some (EvEofRecv a b)
  | _ => None
  end.

(* __non_idle_fsm: the sections of the receiving phase, and the sections of the completion *)
Definition recv_part (pkt : option pdu) : D unit :=
  fsm_advancement ;;;
  st <- get_step ;;
  when (((st =? DS_RECEIVING_FILE_DATA) || (st =? DS_RECV_WITH_CHECK_LIMIT)))
    (match pkt with
     | Some (PFileData _ off data) => handle_fd_pdu off data
     | Some (PEof _ cond ck sz _) => handle_eof_pdu cond ck sz
     | _ => ret tt
     end) ;;;
  b <- step_is DS_WAITING_FOR_METADATA ;;
  when b (handle_waiting_for_missing_metadata pkt ;;; deferred_lost_segment_handling) ;;;
  b <- step_is DS_RECV_WITH_CHECK_LIMIT ;;
  when b check_limit_handling ;;;
  b <- step_is DS_WAITING_FOR_MISSING_DATA ;;
  when b
    ((match pkt with
      | Some (PEof _ cond ck sz _) =>
          if cond =? C_NO_ERROR then prepare_eof_ack_packet
          else (setp (fun p => p <| p_deferred := false |>) ;;; handle_eof_pdu cond ck sz)
      | _ => ret tt
      end) ;;;
     (match pkt with
      | Some (PFileData _ off data) =>
          handle_fd_pdu off data ;;;
          active <- gp p_deferred ;;
          when active reset_nak_activity_parameters
      | _ => ret tt
      end) ;;;
     deferred_lost_segment_handling).
Definition comp_part (again : D unit) (pkt : option pdu) : D unit :=
  b <- step_is DS_TRANSFER_COMPLETION ;;
  when b handle_transfer_completion ;;;
  b <- step_is DS_SENDING_FINISHED ;;
  when b (n <- gets d_ready ;;
          if 0 <? n then ret tt else (prepare_finished_pdu ;;; handle_finished_pdu_sent)) ;;;
  b <- step_is DS_WAITING_FOR_FINISHED_ACK ;;
  when b (handle_waiting_for_finished_ack again pkt).

Lemma bind_ext {S A B} (m : M S A) (f g : A -> M S B) s :
  (forall a s', f a s' = g a s') -> bind m f s = bind m g s.
Proof. intro H. unfold bind. destruct (m s) as [s1 [a|e]]; [apply H | reflexivity]. Qed.

Lemma nif_split : forall again pkt s,
  nif_body again pkt s = bind (recv_part pkt) (fun _ => comp_part again pkt) s.
Proof.
  intros. unfold nif_body, recv_part, comp_part. symmetry.
  repeat (rewrite bind_assoc; apply bind_ext; intros ? ?). reflexivity.
Qed.

Section DstRecv.
  Variables a b : Z.
  Variable P : event -> Prop.
  Hypothesis P_fault : forall k c pr, P (EvFault k a b c pr).
  Let HN : PreOrd (RN a b P) := preord_RN a b P.
  Let HA := RN_RA a b P.
  Notation X m := (StepX (RN a b P) (RA a b P) m).

  Lemma x_declare_fault : forall cond, X (declare_fault cond).
  Proof.
    intros cond s. unfold declare_fault. rewrite b_gets, b_gp, b_gp.
    destruct (p_tid (d_p s)) as [[x y]|] eqn:Ht; [|apply HN].
    destruct (get_fault_handler (l_faults (d_cfg s)) cond) as [fh|]; [|apply HN].
    destruct (fh =? FH_CANCEL) eqn:E1.
    - unfold notice_of_cancellation. mrun. destruct (fh =? FH_ABANDON) eqn:E2.
      + apply Z.eqb_eq in E1, E2. subst fh. discriminate E2.
      + unfold ret, outc. intro H. unfold alive in H. rewrite Ht in H. inversion H; subst x y.
        split; [eapply grow_cons; [apply P_fault | reflexivity] | exact Ht].
    - destruct (fh =? FH_ABANDON) eqn:E2.
      + mrun. unfold raise, outc. rewrite Z.eqb_refl. intro H. unfold alive in H. rewrite Ht in H. inversion H; subst x y.
        split; [eapply grow_cons; [apply P_fault | reflexivity]|].
        split; [reflexivity | split; reflexivity].
      + mrun. unfold ret, outc. intro H. unfold alive in H. rewrite Ht in H. inversion H; subst x y.
        split; [eapply grow_cons; [apply P_fault | reflexivity] | exact Ht].
  Qed.
  #[local] Hint Resolve x_declare_fault : stepdb.

  Lemma x_checksum_verify : X checksum_verify.
  Proof. walkx HN HA. Qed.
  #[local] Hint Resolve x_checksum_verify : stepdb.

  Lemma x_add_packet : forall p, X (add_packet p).
  Proof. intro. walkx HN HA. Qed.
  #[local] Hint Resolve x_add_packet : stepdb.

  Lemma x_emit : forall e, P e -> X (emit e).
  Proof.
    intros e He s H. split; [eapply grow_cons; [exact He | reflexivity] | exact H].
  Qed.

  Lemma x_deferred_lost_segment_handling : X deferred_lost_segment_handling.
  Proof. walkx HN HA. Qed.
  #[local] Hint Resolve x_deferred_lost_segment_handling : stepdb.

  Lemma x_start_deferred_lost_segment_handling : X start_deferred_lost_segment_handling.
  Proof. walkx HN HA. Qed.
  #[local] Hint Resolve x_start_deferred_lost_segment_handling : stepdb.

  Lemma x_fsm_advancement : X fsm_advancement.
  Proof. walkx HN HA. Qed.
  #[local] Hint Resolve x_fsm_advancement : stepdb.

  Lemma x_file_transfer_complete_transition : X file_transfer_complete_transition.
  Proof. walkx HN HA. Qed.
  #[local] Hint Resolve x_file_transfer_complete_transition : stepdb.

  Lemma x_lost_segment_handling : forall o l, X (lost_segment_handling o l).
  Proof. intros. walkx HN HA. Qed.
  #[local] Hint Resolve x_lost_segment_handling : stepdb.

  Lemma x_filestore_rejection : X filestore_rejection.
  Proof. walkx HN HA. Qed.
  #[local] Hint Resolve x_filestore_rejection : stepdb.

  (* the indications read the transaction id of the parameter block *)
  Lemma x_seg_ind : forall off len, P (EvSegmentRecv a b off len) ->
    X (t <- gp p_tid ;;
       let '(src, seq) := match t with Some x => x | None => (-1, -1) end in
       emit (EvSegmentRecv src seq off len)).
  Proof.
    intros off len HP s. rewrite b_gp. destruct (p_tid (d_p s)) as [[x y]|] eqn:E; cbv beta iota.
    - intro H. pose proof H as H0. unfold alive in H0. rewrite E in H0. inversion H0; subst x y. exact (x_emit _ HP s H).
    - intro H. unfold alive in H. rewrite E in H. discriminate H.
  Qed.

  Lemma x_handle_fd_pdu : forall off data, P (EvSegmentRecv a b off (zlen data)) -> X (handle_fd_pdu off data).
  Proof.
    intros off data HP. unfold handle_fd_pdu.
    apply (sx_bind _ _ HN HA); [walkx HN HA | intro c].
    apply (sx_bind _ _ HN HA); [apply (sx_when _ _ HN); intros _; apply x_seg_ind; exact HP | intros _].
    walkx HN HA.
  Qed.

  Lemma x_handle_no_error_eof : X handle_no_error_eof.
  Proof. walkx HN HA. Qed.
  #[local] Hint Resolve x_handle_no_error_eof : stepdb.

  Lemma x_eof_ind : P (EvEofRecv a b) -> X (t <- tid_or_assert ;; emit (EvEofRecv (fst t) (snd t))).
  Proof.
    intros HP s. unfold tid_or_assert. rewrite bind_assoc, b_gp. destruct (p_tid (d_p s)) as [[x y]|] eqn:E.
    - rewrite b_ret. cbn [fst snd]. intro H. pose proof H as H0. unfold alive in H0. rewrite E in H0. inversion H0; subst x y.
      exact (x_emit _ HP s H).
    - rewrite b_raise. apply HN.
  Qed.

  Lemma x_handle_eof_pdu : forall cd ck sz, P (EvEofRecv a b) -> X (handle_eof_pdu cd ck sz).
  Proof.
    intros cd ck sz HP. pose proof (x_eof_ind HP) as HE. walkx HN HA.
  Qed.

  Lemma x_init_vfs_handling : forall base, X (init_vfs_handling base).
  Proof. intro. walkx HN HA. Qed.
  #[local] Hint Resolve x_init_vfs_handling : stepdb.

  Lemma x_md_ind : forall sid fsz names msgs, P (EvMetadataRecv a b sid fsz names msgs) ->
    X (t <- gp p_tid ;;
       let '(src, seq) := match t with Some x => x | None => (-1, -1) end in
       emit (EvMetadataRecv src seq sid fsz names msgs)).
  Proof.
    intros sid fsz names msgs HP s. rewrite b_gp. destruct (p_tid (d_p s)) as [[x y]|] eqn:E; cbv beta iota.
    - intro H. pose proof H as H0. unfold alive in H0. rewrite E in H0. inversion H0; subst x y. exact (x_emit _ HP s H).
    - intro H. unfold alive in H. rewrite E in H. discriminate H.
  Qed.

  Lemma x_handle_metadata_packet : forall h cl ck sz names msgs,
    P (EvMetadataRecv a b (h_src h) (match names with Some _ => Some sz | None => None end) names msgs) ->
    X (handle_metadata_packet h cl ck sz names msgs).
  Proof.
    intros h cl ck sz names msgs HP. pose proof (x_md_ind _ _ _ _ HP) as HE. walkx HN HA.
  Qed.

  Lemma x_handle_eof_without_previous_metadata : forall cd ck sz, P (EvEofRecv a b) ->
    X (handle_eof_without_previous_metadata cd ck sz).
  Proof.
    intros cd ck sz HP. pose proof (x_eof_ind HP) as HE. pose proof (x_handle_eof_pdu cd ck sz HP) as HE2. walkx HN HA.
  Qed.

  Lemma x_handle_fd_without_previous_metadata : forall f o d, X (handle_fd_without_previous_metadata f o d).
  Proof. intros. walkx HN HA. Qed.
  #[local] Hint Resolve x_handle_fd_without_previous_metadata : stepdb.

  Lemma x_check_limit_handling : X check_limit_handling.
  Proof. walkx HN HA. Qed.

  Lemma x_reset_nak_activity_parameters : X reset_nak_activity_parameters.
  Proof. walkx HN HA. Qed.
  #[local] Hint Resolve x_reset_nak_activity_parameters : stepdb.

  Lemma x_prepare_eof_ack_packet : X prepare_eof_ack_packet.
  Proof. walkx HN HA. Qed.

  Lemma x_prepare_finished_pdu : X prepare_finished_pdu.
  Proof. walkx HN HA. Qed.

  Lemma x_start_positive_ack_procedure : X start_positive_ack_procedure.
  Proof. walkx HN HA. Qed.

  Lemma x_recv_part : forall pkt, (forall e, ri_of a b pkt = Some e -> P e) -> X (recv_part pkt).
  Proof.
    intros pkt Hri. pose proof x_check_limit_handling as H1. pose proof x_prepare_eof_ack_packet as H2.
    destruct pkt as [[h off data|h cl ck sz names msgs|h cd ck sz fl|h c1 c2 c3 c4|h c1 c2 c3|h c1 c2 c3|h c1|h c1]|];
      cbn [ri_of] in Hri; unfold recv_part, handle_waiting_for_missing_metadata.
    - pose proof (x_handle_fd_pdu off data (Hri _ eq_refl)) as H3. walkx HN HA.
    - pose proof (x_handle_metadata_packet h cl ck sz names msgs (Hri _ eq_refl)) as H3. walkx HN HA.
    - pose proof (x_handle_eof_pdu cd ck sz (Hri _ eq_refl)) as H3.
      pose proof (x_handle_eof_without_previous_metadata cd ck sz (Hri _ eq_refl)) as H4. walkx HN HA.
    - walkx HN HA.
    - walkx HN HA.
    - walkx HN HA.
    - walkx HN HA.
    - walkx HN HA.
    - walkx HN HA.
  Qed.
End DstRecv.

(* ---- tier 2: the completion.  Events: Transaction-Finished and fault callbacks of the transaction only; the steps
   TRANSFER_COMPLETION / SENDING_FINISHED / WAITING_FOR_FINISHED_ACK are left only by ending the transaction *)
Definition finfault (e : event) : bool := is_finished e || is_fault e.
Definition completing (s : dst) : bool :=
  (d_step s =? DS_TRANSFER_COMPLETION) || (d_step s =? DS_SENDING_FINISHED) || (d_step s =? DS_WAITING_FOR_FINISHED_ACK).
Definition Pc (a b : Z) (e : event) : Prop := ev_tid e = (a, b) /\ finfault e = true.

Definition CRA (a b : Z) (s s' : dst) : Prop :=
  exists new, log_d s' = new ++ log_d s /\ Forall (Pc a b) new /\ (alive a b s' \/ dead s') /\
    (completing s = true -> completing s' = true \/ dead s') /\
    (existsb is_finished new = true -> completing s' = true \/ dead s').
Definition CR (a b : Z) (s s' : dst) : Prop :=
  (alive a b s -> CRA a b s s') /\ (dead s -> log_d s' = log_d s /\ dead s').

Lemma bind_run_ok {S A B} (m : M S A) (k : A -> M S B) s s1 a : m s = (s1, Ok a) -> bind m k s = k a s1.
Proof. intro H. unfold bind. rewrite H. reflexivity. Qed.
Lemma bind_run_err {S A B} (m : M S A) (k : A -> M S B) s s1 e : m s = (s1, Err e) -> bind m k s = (s1, Err e).
Proof. intro H. unfold bind. rewrite H. reflexivity. Qed.
(* run the first computation of a bind, keeping a fact X about its final state *)
Ltac brun X s1 :=
  match goal with |- context [bind ?m ?k ?s] =>
    let En := fresh "En" in let u := fresh "u" in let e := fresh "e" in
    destruct (m s) as [s1 [u|e]] eqn:En; cbn [fst] in X;
    [rewrite (bind_run_ok m k s s1 u En) | rewrite (bind_run_err m k s s1 e En); cbn [fst]]
  end.

Lemma alive_not_dead : forall a b s, alive a b s -> dead s -> False.
Proof. intros a b s H [D _]. unfold alive in H. rewrite D in H. discriminate H. Qed.

Lemma dead_compb : forall s, dead s -> completing s = false.
Proof. intros s [_ [_ D]]. unfold completing. rewrite D. reflexivity. Qed.

Lemma preord_CR : forall a b, PreOrd (CR a b).
Proof.
  intros a b. split.
  - intro s. split.
    + intro H. exists []. split; [reflexivity|]. split; [constructor|]. split; [left; exact H|].
      split; [intro X; left; exact X | intro X; discriminate X].
    + intro H. split; [reflexivity | exact H].
  - intros s1 s2 s3 [A1 D1] [A2 D2]. split.
    + intro H. destruct (A1 H) as [n1 [L1 [F1 [E1 [C1 K1]]]]].
      destruct E1 as [E1|E1].
      * destruct (A2 E1) as [n2 [L2 [F2 [E2 [C2 K2]]]]].
        exists (n2 ++ n1). split; [rewrite L2, L1; apply app_assoc|].
        split; [apply Forall_app; split; assumption|]. split; [exact E2|]. split.
        -- intro X. destruct (C1 X) as [Y|Y]; [exact (C2 Y) | exfalso; exact (alive_not_dead _ _ _ E1 Y)].
        -- rewrite existsb_app. intro X. apply orb_true_iff in X. destruct X as [X|X]; [exact (K2 X)|].
           destruct (K1 X) as [Y|Y]; [exact (C2 Y) | exfalso; exact (alive_not_dead _ _ _ E1 Y)].
      * destruct (D2 E1) as [L2 E2]. exists n1. split; [rewrite L2; exact L1|].
        split; [exact F1|]. split; [right; exact E2|]. split; intros _; right; exact E2.
    + intro H. destruct (D1 H) as [L1 E1]. destruct (D2 E1) as [L2 E2]. split; [congruence | exact E2].
Qed.

(* one section of __non_idle_fsm: selected by the step *)
Lemma step_stage {B} (R : dst -> dst -> Prop) (HR : PreOrd R) V (m : D unit) (rest : D B) :
  (forall s, d_step s = V -> R s (fst (m s))) -> Step R rest ->
  Step R (bind (step_is V) (fun b => bind (when b m) (fun _ => rest))).
Proof.
  intros Hm Hr s. rewrite b_step_is. destruct (d_step s =? V) eqn:E.
  - rewrite when_true. apply Z.eqb_eq in E. specialize (Hm s E). unfold bind.
    destruct (m s) as [s1 [u|e]]; cbn [fst] in *; [|exact Hm].
    destruct HR as [_ Ht]. eapply Ht; [exact Hm | apply Hr].
  - rewrite when_false, b_ret. apply Hr.
Qed.
Lemma step_stage_last (R : dst -> dst -> Prop) (HR : PreOrd R) V (m : D unit) :
  (forall s, d_step s = V -> R s (fst (m s))) ->
  Step R (bind (step_is V) (fun b => when b m)).
Proof.
  intros Hm s. rewrite b_step_is. destruct (d_step s =? V) eqn:E.
  - rewrite when_true. apply Z.eqb_eq in E. exact (Hm s E).
  - rewrite when_false. apply HR.
Qed.

(* pieces that change neither the step nor the transaction and deliver completion events only *)
Definition R2 (a b : Z) (s s' : dst) : Prop :=
  alive a b s -> grow (Pc a b) s s' /\ alive a b s' /\ d_step s' = d_step s /\ d_state s' = d_state s.
Lemma preord_R2 : forall a b, PreOrd (R2 a b).
Proof.
  intros a b. split.
  - intros s H. split; [apply grow_refl|]. split; [exact H | split; reflexivity].
  - intros s1 s2 s3 H1 H2 H. destruct (H1 H) as [G1 [A1 [S1 T1]]]. destruct (H2 A1) as [G2 [A2 [S2 T2]]].
    split; [exact (grow_trans _ _ _ _ G1 G2)|]. split; [exact A2 | split; congruence].
Qed.

Ltac r2side :=
  let s := fresh "s" in let H := fresh "H" in
  intro s; intro H; split; [exists []; split; [reflexivity | constructor] | split; [exact H | split; reflexivity]].

Definition resend (n : Z) : D unit :=
  t' <- gp p_ack_timer ;;
  match t' with
  | None => raise E_ATTRIBUTE
  | Some (_, tmo) =>
      setp (fun p => p <| p_ack_timer := Some (n, tmo) |> <| p_ack_counter ::= (fun c => c + 1) |>) ;;;
      prepare_finished_pdu
  end.

Section DstComp.
  Variables a b : Z.
  Let HR2 : PreOrd (R2 a b) := preord_R2 a b.
  Ltac wside ::= r2side.

  Lemma r2_fin_ind : Step (R2 a b)
    (p <- gp (fun p => p) ;;
     let '(src, seq) := match p_tid p with Some x => x | None => (-1, -1) end in
     let f := p_fin p in
     emit (EvFinished src seq (f_cond f) (f_deliv f) (f_fstatus f) (f_fl f))).
  Proof.
    intros s. rewrite b_gp. destruct (p_tid (d_p s)) as [[x y]|] eqn:E; cbv beta iota zeta.
    - intro H. pose proof H as H0. unfold alive in H0. rewrite E in H0. inversion H0; subst x y.
      split; [eapply grow_cons; [|reflexivity]; split; reflexivity|]. split; [exact H | split; reflexivity].
    - intro H. unfold alive in H. rewrite E in H. discriminate H.
  Qed.
  #[local] Hint Resolve r2_fin_ind : stepdb.

  Lemma r2_notice_of_completion : Step (R2 a b) notice_of_completion.
  Proof. walk HR2. Qed.

  Lemma r2_prepare_finished_pdu : Step (R2 a b) prepare_finished_pdu.
  Proof. walk HR2. Qed.

  Lemma r2_start_positive_ack_procedure : Step (R2 a b) start_positive_ack_procedure.
  Proof. walk HR2. Qed.

  Lemma r2_prepare_eof_ack_packet : Step (R2 a b) prepare_eof_ack_packet.
  Proof. walk HR2. Qed.

  (* ending in the completion steps or with the transaction gone *)
  Lemma cr_finish : forall s s1 s', grow (Pc a b) s s1 -> log_d s' = log_d s1 ->
    ((alive a b s' /\ completing s' = true) \/ dead s') -> CRA a b s s'.
  Proof.
    intros s s1 s' [new [L F]] L' E. exists new. split; [rewrite L'; exact L|]. split; [exact F|].
    destruct E as [[E1 E2]|E]; (split; [tauto|]); split; intros _; tauto.
  Qed.

  Lemma cr_by_step : forall s s' V, d_step s = V -> V <> DS_IDLE ->
    (alive a b s -> CRA a b s s') -> CR a b s s'.
  Proof.
    intros s s' V HV HV0 H. split; [exact H|]. intros [_ [_ D]]. congruence.
  Qed.

  Lemma cr_handle_transfer_completion : forall s, d_step s = DS_TRANSFER_COMPLETION ->
    CR a b s (fst (handle_transfer_completion s)).
  Proof.
    intros s Hs. apply (cr_by_step s _ _ Hs); [discriminate|]. intro H.
    unfold handle_transfer_completion.
    pose proof (r2_notice_of_completion s H) as X. brun X s1; destruct X as [G [A1 [S1 T1]]].
    - mrun. destruct (_ || _).
      + mfin. apply (cr_finish s s1); [exact G | reflexivity|]. left. split; [exact A1 | reflexivity].
      + mfin. apply (cr_finish s s1); [exact G | reflexivity|]. right. split; [reflexivity | split; reflexivity].
    - apply (cr_finish s s1); [exact G | reflexivity|]. left. split; [exact A1|]. unfold completing. rewrite S1, Hs. reflexivity.
  Qed.

  Lemma cr_sending_finished : forall s, d_step s = DS_SENDING_FINISHED ->
    CR a b s (fst ((n <- gets d_ready ;;
                    if 0 <? n then ret tt else (prepare_finished_pdu ;;; handle_finished_pdu_sent)) s)).
  Proof.
    intros s Hs. apply (cr_by_step s _ _ Hs); [discriminate|]. intro H.
    rewrite b_gets. destruct (0 <? d_ready s).
    - cbn [fst ret]. apply (cr_finish s s); [apply grow_refl | reflexivity|]. left. split; [exact H|].
      unfold completing. rewrite Hs. reflexivity.
    - pose proof (r2_prepare_finished_pdu s H) as X. brun X s1; destruct X as [G [A1 [S1 T1]]].
      + unfold handle_finished_pdu_sent. mrun. destruct (_ && _).
        * pose proof (r2_start_positive_ack_procedure s1 A1) as X. brun X s2; destruct X as [G2 [A2 [S2 T2]]].
          -- mfin. apply (cr_finish s s2); [exact (grow_trans _ _ _ _ G G2) | reflexivity|]. left. split; [exact A2 | reflexivity].
          -- apply (cr_finish s s2); [exact (grow_trans _ _ _ _ G G2) | reflexivity|]. left. split; [exact A2|].
             unfold completing. rewrite S2, S1, Hs. reflexivity.
        * mfin. apply (cr_finish s s1); [exact G | reflexivity|]. right. split; [reflexivity | split; reflexivity].
      + apply (cr_finish s s1); [exact G | reflexivity|]. left. split; [exact A1|]. unfold completing. rewrite S1, Hs. reflexivity.
  Qed.

  Lemma Pc_fault : forall k c pr, Pc a b (EvFault k a b c pr).
  Proof. intros. split; reflexivity. Qed.

  Lemma declare_fault_comp : forall c s, alive a b s ->
    match declare_fault c s with
    | (s1, Ok _) => grow (Pc a b) s s1 /\ alive a b s1 /\ (d_step s1 = d_step s \/ d_step s1 = DS_TRANSFER_COMPLETION)
    | (s1, Err e) => if e =? E_ABANDONED then grow (Pc a b) s s1 /\ dead s1 else s1 = s
    end.
  Proof.
    intros c s H. unfold declare_fault. rewrite b_gets, b_gp, b_gp.
    pose proof H as Ht. unfold alive in Ht. rewrite Ht.
    destruct (get_fault_handler (l_faults (d_cfg s)) c) as [fh|]; [|reflexivity].
    destruct (fh =? FH_CANCEL) eqn:E1.
    - unfold notice_of_cancellation. mrun. destruct (fh =? FH_ABANDON) eqn:E2.
      + apply Z.eqb_eq in E1, E2. subst fh. discriminate E2.
      + unfold ret. split; [eapply grow_cons; [apply Pc_fault | reflexivity]|]. split; [exact Ht | right; reflexivity].
    - destruct (fh =? FH_ABANDON) eqn:E2.
      + mrun. unfold raise. rewrite Z.eqb_refl.
        split; [eapply grow_cons; [apply Pc_fault | reflexivity]|]. split; [reflexivity | split; reflexivity].
      + mrun. unfold ret. split; [eapply grow_cons; [apply Pc_fault | reflexivity]|]. split; [exact Ht | left; reflexivity].
  Qed.

  Lemma cr_prefix : forall s s1 s2, grow (Pc a b) s s1 -> alive a b s1 -> completing s1 = true -> CR a b s1 s2 ->
    CRA a b s s2.
  Proof.
    intros s s1 s2 [n1 [L1 F1]] A1 C1 [X _]. destruct (X A1) as [n2 [L2 [F2 [E2 [K2 _]]]]].
    exists (n2 ++ n1). split; [rewrite L2, L1; apply app_assoc|]. split; [apply Forall_app; split; assumption|].
    split; [exact E2|]. split; intros _; exact (K2 C1).
  Qed.

  (* the Finished PDU is sent again *)
  Lemma cr_resend : forall n s sx, grow (Pc a b) s sx -> alive a b sx -> completing sx = true ->
    CRA a b s (fst (resend n sx)).
  Proof.
    intros n s sx G A1 C1. unfold resend. rewrite b_gp.
    destruct (p_ack_timer (d_p sx)) as [[t0 tmo]|]; [|apply (cr_finish s sx); [exact G | reflexivity | left; split; assumption]].
    rewrite b_setp.
    match goal with |- context [prepare_finished_pdu ?st] => set (s1 := st) end.
    assert (A2 : alive a b s1) by exact A1.
    destruct (r2_prepare_finished_pdu s1 A2) as [G2 [A3 [S3 T3]]].
    apply (cr_finish s (fst (prepare_finished_pdu s1))); [|reflexivity|].
    - eapply grow_trans; [exact G|]. eapply grow_trans; [|exact G2]. apply grow_same. reflexivity.
    - left. split; [exact A3|]. unfold completing. rewrite S3. exact C1.
  Qed.

  Lemma cr_hpap : forall again,
    (forall s, alive a b s -> completing s = true -> CR a b s (fst (again s))) ->
    forall s, d_step s = DS_WAITING_FOR_FINISHED_ACK -> CR a b s (fst (handle_positive_ack_procedures again s)).
  Proof.
    intros again Hag s Hs. apply (cr_by_step s _ _ Hs); [discriminate|]. intro H.
    assert (C0 : completing s = true) by (unfold completing; rewrite Hs; reflexivity).
    assert (F0 : CRA a b s s) by (apply (cr_finish s s); [apply grow_refl | reflexivity | left; split; assumption]).
    unfold handle_positive_ack_procedures, rcfg_or_assert. rewrite b_gp.
    destruct (p_ack_timer (d_p s)) as [tm|]; [|exact F0].
    mrun. destruct (p_rcfg (d_p s)) as [r|]; [|exact F0]. mrun.
    destruct (negb (timed_out (e_now (d_env s)) tm)); [exact F0|]. mrun.
    change (fun t' : option timer => ?k t') with k.
    fold (resend (e_now (d_env s))).
    destruct (r_ack_limit r <=? p_ack_counter (d_p s) + 1).
    - mrun. destruct (p_disp (d_p s) =? DISP_CANCELED).
      + mrun. pose proof H as Ht. unfold alive in Ht. rewrite Ht. mrun. unfold ret; cbn [fst].
        apply (cr_finish s (s <| d_env ::= (fun en => en <| e_log ::= cons (EvFault FH_ABANDON a b (f_cond (p_fin (d_p s))) (p_progress (d_p s))) |>) |>)).
        * eapply grow_cons; [apply Pc_fault | reflexivity].
        * reflexivity.
        * right. split; [reflexivity | split; reflexivity].
      + rewrite !bind_assoc. pose proof (declare_fault_comp C_POS_ACK_LIMIT s H) as X.
        destruct (declare_fault C_POS_ACK_LIMIT s) as [s1 [fh|e]] eqn:En.
        * rewrite (bind_run_ok _ _ _ _ _ En). destruct X as [G1 [A1 S1]].
          assert (C1 : completing s1 = true).
          { unfold completing. destruct S1 as [S1|S1]; rewrite S1; [rewrite Hs|]; reflexivity. }
          mrun. destruct (p_disp (d_p s1) =? DISP_CANCELED).
          -- rewrite ?bind_assoc. pose proof (Hag s1 A1 C1) as Y.
             destruct (again s1) as [s2 [u|e]] eqn:En2; cbn [fst] in Y.
             ++ rewrite (bind_run_ok _ _ _ _ _ En2). mrun. unfold ret; cbn [fst]. exact (cr_prefix s s1 s2 G1 A1 C1 Y).
             ++ rewrite (bind_run_err _ _ _ _ _ En2). cbn [fst]. exact (cr_prefix s s1 s2 G1 A1 C1 Y).
          -- mrun. exact (cr_resend _ s s1 G1 A1 C1).
        * rewrite (bind_run_err _ _ _ _ _ En). cbn [fst]. destruct (e =? E_ABANDONED).
          -- destruct X as [G1 D1]. apply (cr_finish s s1); [exact G1 | reflexivity | right; exact D1].
          -- subst s1. exact F0.
    - mrun. exact (cr_resend _ s s (grow_refl _ s) H C0).
  Qed.

  Lemma cr_hwfa : forall again pkt,
    (forall s, alive a b s -> completing s = true -> CR a b s (fst (again s))) ->
    forall s, d_step s = DS_WAITING_FOR_FINISHED_ACK -> CR a b s (fst (handle_waiting_for_finished_ack again pkt s)).
  Proof.
    intros again pkt Hag s Hs. unfold handle_waiting_for_finished_ack.
    destruct pkt as [[ | | | | | | | ]|]; try (apply cr_hpap; assumption).
    - apply (cr_by_step s _ _ Hs); [discriminate|]. intro H.
      destruct (r2_prepare_eof_ack_packet s H) as [G [A1 [S1 T1]]].
      apply (cr_finish s (fst (prepare_eof_ack_packet s))); [exact G | reflexivity|].
      left. split; [exact A1|]. unfold completing. rewrite S1, Hs. reflexivity.
    - apply (cr_by_step s _ _ Hs); [discriminate|]. intro H.
      apply (cr_finish s s); [apply grow_refl | reflexivity|]. right. split; [reflexivity | split; reflexivity].
  Qed.

  (* the completion sections *)
  Lemma cr_comp_part : forall again pkt,
    (forall s, alive a b s -> completing s = true -> CR a b s (fst (again s))) ->
    Step (CR a b) (comp_part again pkt).
  Proof.
    intros again pkt Hag. pose proof (preord_CR a b) as HC. unfold comp_part.
    apply (step_stage _ HC); [apply cr_handle_transfer_completion|].
    apply (step_stage _ HC); [apply cr_sending_finished|].
    apply (step_stage_last _ HC). apply cr_hwfa. exact Hag.
  Qed.
End DstComp.

(* ---- the whole of __non_idle_fsm *)
Definition ind_ok (a b : Z) (pkt : option pdu) (e : event) : Prop :=
  ev_tid e = (a, b) /\ (finfault e = true \/ ri_of a b pkt = Some e).
Definition Pr (a b : Z) (pkt : option pdu) (e : event) : Prop := ind_ok a b pkt e /\ is_finished e = false.
Definition call_order (new : list event) : Prop :=
  exists late early, new = late ++ early /\
    Forall (fun e => finfault e = true) late /\ Forall (fun e => is_finished e = false) early.
Definition NIFA (a b : Z) (pkt : option pdu) (s s' : dst) : Prop :=
  exists new, log_d s' = new ++ log_d s /\ Forall (ind_ok a b pkt) new /\ (alive a b s' \/ dead s') /\ call_order new /\
    (completing s = true -> Forall (fun e => finfault e = true) new /\ (completing s' = true \/ dead s')) /\
    (existsb is_finished new = true -> completing s' = true \/ dead s').

Lemma Pc_Pk : forall a b pkt e, Pc a b e -> ind_ok a b pkt e.
Proof. intros a b pkt e [H1 H2]. split; [exact H1 | left; exact H2]. Qed.
Lemma nofin_existsb : forall l, Forall (fun e => is_finished e = false) l -> existsb is_finished l = false.
Proof. induction 1 as [|e l H _ IH]; [reflexivity|]. cbn. rewrite H, IH. reflexivity. Qed.

Lemma CRA_NIFA : forall a b pkt s s', CRA a b s s' -> NIFA a b pkt s s'.
Proof.
  intros a b pkt s s' [new [L [F [E [C K]]]]]. exists new. split; [exact L|].
  split; [eapply Forall_impl; [|exact F]; intros e; apply Pc_Pk|]. split; [exact E|]. split.
  - exists new, []. split; [symmetry; apply app_nil_r|]. split; [|constructor].
    eapply Forall_impl; [|exact F]. intros e [_ X]. exact X.
  - split; [|exact K]. intro X. split; [|exact (C X)]. eapply Forall_impl; [|exact F]. intros e [_ Y]. exact Y.
Qed.

Lemma fst_catch_abandoned : forall (m : D unit) s, fst (catch_abandoned m s) = fst (m s).
Proof.
  intros m s. unfold catch_abandoned, catch. destruct (m s) as [s1 [u|e]]; [reflexivity|].
  destruct (e =? E_ABANDONED); reflexivity.
Qed.

(* in the completion steps the sections of the receiving phase do not run *)
Lemma recv_part_comp : forall pkt s, completing s = true ->
  recv_part pkt s = (s, Ok tt) \/ exists e, recv_part pkt s = (s, Err e).
Proof.
  intros pkt s C. unfold completing in C.
  assert (E5 : (d_step s =? DS_SENDING_EOF_ACK) = false /\ (d_step s =? DS_RECEIVING_FILE_DATA) = false /\
               (d_step s =? DS_RECV_WITH_CHECK_LIMIT) = false /\ (d_step s =? DS_WAITING_FOR_METADATA) = false /\
               (d_step s =? DS_WAITING_FOR_MISSING_DATA) = false).
  { apply orb_true_iff in C. destruct C as [C|C]; [apply orb_true_iff in C; destruct C as [C|C]|];
      apply Z.eqb_eq in C; rewrite C; repeat split; reflexivity. }
  destruct E5 as [E5 [E3 [E4 [E2 E6]]]].
  unfold recv_part, fsm_advancement. rewrite bind_assoc, b_get.
  destruct (0 <? zlen (d_queue s)); [right; eexists; reflexivity|].
  rewrite E5. mrun. rewrite E3, E4. cbn [orb]. mrun. rewrite E2. mrun. rewrite E4. mrun. rewrite E6. mrun.
  left. reflexivity.
Qed.

Section DstTop.
  Variables a b : Z.

  Lemma Pr_fault : forall pkt k c pr, Pr a b pkt (EvFault k a b c pr).
  Proof. intros. split; [split; [reflexivity | left; reflexivity] | reflexivity]. Qed.

  Lemma Pr_ri : forall pkt e, ri_of a b pkt = Some e -> Pr a b pkt e.
  Proof.
    intros pkt e H. split; [split; [|right; exact H]|];
      destruct pkt as [[ | | | | | | | ]|]; cbn [ri_of] in H; inversion H; reflexivity.
  Qed.

  Lemma nif_body_spec : forall again pkt,
    (forall s, alive a b s -> completing s = true -> CR a b s (fst (again s))) ->
    forall s, alive a b s -> NIFA a b pkt s (fst (nif_body again pkt s)).
  Proof.
    intros again pkt Hag s H. rewrite nif_split.
    pose proof (cr_comp_part a b again pkt Hag) as HC.
    destruct (completing s) eqn:C.
    - destruct (recv_part_comp pkt s C) as [E|[e E]].
      + rewrite (bind_run_ok _ _ _ _ _ E). apply CRA_NIFA. exact (proj1 (HC s) H).
      + rewrite (bind_run_err _ _ _ _ _ E). cbn [fst]. apply CRA_NIFA.
        exists []. split; [reflexivity|]. split; [constructor|]. split; [left; exact H|].
        split; [intros _; left; exact C | intro X; discriminate X].
    - pose proof (x_recv_part a b (Pr a b pkt) (Pr_fault pkt) pkt (Pr_ri pkt) s) as X.
      destruct (recv_part pkt s) as [s1 [u|e]] eqn:E.
      + rewrite (bind_run_ok _ _ _ _ _ E). cbn [outc] in X. destruct (X H) as [[n1 [L1 F1]] A1].
        destruct (proj1 (HC s1) A1) as [n2 [L2 [F2 [E2 [_ K2]]]]].
        assert (N1 : Forall (fun e => is_finished e = false) n1) by (eapply Forall_impl; [|exact F1]; intros e [_ Y]; exact Y).
        exists (n2 ++ n1). split; [rewrite L2, L1; apply app_assoc|]. split.
        { apply Forall_app. split; [eapply Forall_impl; [|exact F2]; intro e; apply Pc_Pk|].
          eapply Forall_impl; [|exact F1]. intros e [Y _]. exact Y. }
        split; [exact E2|]. split.
        { exists n2, n1. split; [reflexivity|]. split; [|exact N1].
          eapply Forall_impl; [|exact F2]. intros e [_ Y]. exact Y. }
        split; [intro Y; rewrite C in Y; discriminate Y|].
        rewrite existsb_app, (nofin_existsb n1 N1), orb_false_r. exact K2.
      + rewrite (bind_run_err _ _ _ _ _ E). cbn [fst]. cbn [outc] in X.
        assert (Y : grow (Pr a b pkt) s s1 /\ (alive a b s1 \/ dead s1)).
        { destruct (e =? E_ABANDONED); destruct (X H) as [G Z]; split; [exact G | right; exact Z | exact G | left; exact Z]. }
        destruct Y as [[n1 [L1 F1]] A1].
        assert (N1 : Forall (fun e => is_finished e = false) n1) by (eapply Forall_impl; [|exact F1]; intros e0 [_ Y]; exact Y).
        exists n1. split; [exact L1|]. split; [eapply Forall_impl; [|exact F1]; intros e0 [Y _]; exact Y|].
        split; [exact A1|]. split; [exists [], n1; split; [reflexivity | split; [constructor | exact N1]]|].
        split; [intro Y; rewrite C in Y; discriminate Y|]. rewrite (nofin_existsb n1 N1). intro Y. discriminate Y.
  Qed.

  Lemma NIFA_None_CR : forall s s', alive a b s -> completing s = true -> NIFA a b None s s' -> CR a b s s'.
  Proof.
    intros s s' H C [new [L [F [E [_ [K1 K2]]]]]]. split; [|intro D; exfalso; exact (alive_not_dead _ _ _ H D)].
    intros _. destruct (K1 C) as [F2 E2]. exists new. split; [exact L|]. split.
    - rewrite Forall_forall in *. intros e He. split; [exact (proj1 (F e He)) | exact (F2 e He)].
    - split; [exact E|]. split; [intros _; exact E2 | exact K2].
  Qed.

  Lemma non_idle_fsm_spec : forall fuel pkt s, alive a b s -> NIFA a b pkt s (fst (non_idle_fsm fuel pkt s)).
  Proof.
    induction fuel as [|k IH]; intros pkt s H.
    - change (non_idle_fsm 0 pkt) with (nif_body (raise E_FUEL) pkt).
      apply nif_body_spec; [|exact H]. intros s0 _ _. apply (preord_CR a b).
    - change (non_idle_fsm (S k) pkt)
        with (nif_body (catch_abandoned (s0 <- get ;; when (d_state s0 =? ST_BUSY) (non_idle_fsm k None))) pkt).
      apply nif_body_spec; [|exact H]. intros s0 H0 C0. rewrite fst_catch_abandoned, b_get.
      destruct (d_state s0 =? ST_BUSY); [rewrite when_true | rewrite when_false; apply (preord_CR a b)].
      apply NIFA_None_CR; [exact H0 | exact C0 | apply IH; exact H0].
  Qed.
End DstTop.

(* ---- the first PDU of a transaction *)
Definition pkt_tid (p : pdu) : Z * Z := (h_src (pdu_hdr p), h_seq (pdu_hdr p)).

Lemma cfph_eq : forall h s (k : unit -> D unit), d_state s = ST_IDLE ->
  exists s1, bind (common_first_packet_handler h) k s = k tt s1 /\
    alive (h_src h) (h_seq h) s1 /\ log_d s1 = log_d s.
Proof.
  intros h s k Hi. unfold common_first_packet_handler. rewrite bind_assoc, b_get. rewrite Hi.
  change (negb (ST_IDLE =? ST_IDLE)) with false. cbv iota.
  rewrite b_put. eexists. split; [reflexivity|]. split; reflexivity.
Qed.

Lemma idle_fsm_spec : forall p s, d_state s = ST_IDLE ->
  grow (Pr (fst (pkt_tid p)) (snd (pkt_tid p)) (Some p)) s (fst (idle_fsm (Some p) s)) /\
  (alive (fst (pkt_tid p)) (snd (pkt_tid p)) (fst (idle_fsm (Some p) s)) \/ d_state (fst (idle_fsm (Some p) s)) = ST_IDLE).
Proof.
  intros p s Hi.
  assert (Hout : forall (m : D unit) a b pkt s1,
            StepX (RN a b (Pr a b pkt)) (RA a b (Pr a b pkt)) m -> alive a b s1 -> log_d s1 = log_d s ->
            grow (Pr a b pkt) s (fst (m s1)) /\ (alive a b (fst (m s1)) \/ d_state (fst (m s1)) = ST_IDLE)).
  { intros m a b pkt s1 Hm A1 L1. specialize (Hm s1). destruct (m s1) as [s2 [u|e]]; cbn [outc fst] in *.
    - destruct (Hm A1) as [G A2]. split; [|left; exact A2].
      eapply grow_trans; [apply grow_same; exact L1 | exact G].
    - destruct (e =? E_ABANDONED); destruct (Hm A1) as [G A2];
        (split; [eapply grow_trans; [apply grow_same; exact L1 | exact G]|]); [right; apply A2 | left; exact A2]. }
  destruct p as [h off data|h cl ck sz names msgs|h cd ck sz fl|h c1 c2 c3 c4|h c1 c2 c3|h c1 c2 c3|h c1|h c1];
    cbn [idle_fsm pkt_tid pdu_hdr fst snd];
    try (split; [apply grow_refl | right; exact Hi]).
  - (* File Data *)
    unfold common_first_packet_not_metadata. rewrite !bind_assoc, b_setp. cbv beta. rewrite !bind_assoc.
    match goal with |- context [bind (common_first_packet_handler h) ?k ?s0] =>
      destruct (cfph_eq h s0 k Hi) as [s1 [E [A1 L1]]] end.
    rewrite E. clear E. cbv beta.
    apply (Hout _ (h_src h) (h_seq h) (Some (PFileData h off data)) s1); [|exact A1 | exact L1].
    pose proof (preord_RN (h_src h) (h_seq h) (Pr (h_src h) (h_seq h) (Some (PFileData h off data)))) as HN.
    pose proof (RN_RA (h_src h) (h_seq h) (Pr (h_src h) (h_seq h) (Some (PFileData h off data)))) as HA.
    pose proof (x_handle_fd_without_previous_metadata (h_src h) (h_seq h) (Pr (h_src h) (h_seq h) (Some (PFileData h off data))) true off data) as X.
    walkx HN HA.
  - (* Metadata *)
    unfold start_transaction. rewrite b_get, Hi. change (negb (ST_IDLE =? ST_IDLE)) with false. cbv iota.
    rewrite b_setp. cbv beta.
    match goal with |- context [bind (common_first_packet_handler h) ?k ?s0] =>
      destruct (cfph_eq h s0 k Hi) as [s1 [E [A1 L1]]] end.
    rewrite E. clear E. cbv beta.
    apply (Hout _ (h_src h) (h_seq h) (Some (PMetadata h cl ck sz names msgs)) s1); [|exact A1 | exact L1].
    apply x_handle_metadata_packet; [apply Pr_fault | apply Pr_ri; reflexivity].
  - (* EOF *)
    unfold common_first_packet_not_metadata. rewrite !bind_assoc, b_setp. cbv beta. rewrite !bind_assoc.
    match goal with |- context [bind (common_first_packet_handler h) ?k ?s0] =>
      destruct (cfph_eq h s0 k Hi) as [s1 [E [A1 L1]]] end.
    rewrite E. clear E. cbv beta.
    apply (Hout _ (h_src h) (h_seq h) (Some (PEof h cd ck sz fl)) s1); [|exact A1 | exact L1].
    pose proof (preord_RN (h_src h) (h_seq h) (Pr (h_src h) (h_seq h) (Some (PEof h cd ck sz fl)))) as HN.
    pose proof (RN_RA (h_src h) (h_seq h) (Pr (h_src h) (h_seq h) (Some (PEof h cd ck sz fl)))) as HA.
    pose proof (x_handle_eof_without_previous_metadata (h_src h) (h_seq h) _
                  (Pr_fault (h_src h) (h_seq h) (Some (PEof h cd ck sz fl))) cd ck sz
                  (Pr_ri (h_src h) (h_seq h) (Some (PEof h cd ck sz fl)) _ eq_refl)) as X.
    walkx HN HA.
Qed.

(* ---- one call of the state machine *)
Definition call_tid (s : dst) (pkt : option pdu) : option (Z * Z) :=
  if d_state s =? ST_IDLE then match pkt with Some p => Some (pkt_tid p) | None => None end else p_tid (d_p s).

Definition dest_call_ok (a b : Z) (pkt : option pdu) (s s' : dst) : Prop :=
  exists new, log_d s' = new ++ log_d s /\ Forall (ind_ok a b pkt) new /\ call_order new /\
    (d_state s' = ST_IDLE \/ alive a b s') /\
    (existsb is_finished new = true -> d_state s' = ST_IDLE \/ completing s' = true) /\
    (d_state s <> ST_IDLE -> completing s = true ->
       Forall (fun e => finfault e = true) new /\ (d_state s' = ST_IDLE \/ completing s' = true)).

Lemma dead_idle : forall s, dead s -> d_state s = ST_IDLE.
Proof. intros s [_ [H _]]. exact H. Qed.

Lemma NIFA_call_ok : forall a b pkt s s', NIFA a b pkt s s' -> dest_call_ok a b pkt s s'.
Proof.
  intros a b pkt s s' [new [L [F [E [O [K1 K2]]]]]]. exists new. split; [exact L|]. split; [exact F|]. split; [exact O|].
  split; [destruct E as [E|E]; [right; exact E | left; exact (dead_idle _ E)]|]. split.
  - intro X. destruct (K2 X) as [Y|Y]; [right; exact Y | left; exact (dead_idle _ Y)].
  - intros _ X. destruct (K1 X) as [Y1 [Y|Y]]; (split; [exact Y1|]); [right; exact Y | left; exact (dead_idle _ Y)].
Qed.

Lemma call_ok_refl : forall a b pkt s, (d_state s = ST_IDLE \/ alive a b s) -> dest_call_ok a b pkt s s.
Proof.
  intros a b pkt s H. exists []. split; [reflexivity|]. split; [constructor|].
  split; [exists [], []; split; [reflexivity | split; constructor]|]. split; [exact H|].
  split; [intro X; discriminate X|]. intros _ C. split; [constructor | right; exact C].
Qed.

Lemma dest_call_order : forall pkt s,
  (d_state s <> ST_IDLE -> p_tid (d_p s) <> None) ->
  match call_tid s pkt with
  | Some (a, b) => dest_call_ok a b pkt s (fst (Dest.state_machine pkt s))
  | None => log_d (fst (Dest.state_machine pkt s)) = log_d s /\ d_state (fst (Dest.state_machine pkt s)) = ST_IDLE
  end.
Proof.
  intros pkt s W. unfold Dest.state_machine.
  assert (Hc : exists r, (match pkt with Some p => check_inserted_packet p | None => ret tt end) s = (s, r)).
  { destruct pkt as [p|]; [|eexists; reflexivity].
    pose proof (minv_state _ _ _ s (adm_d p)) as X. unfold whole in X.
    destruct (check_inserted_packet p s) as [s1 r]. cbn [fst] in X. subst s1. eexists; reflexivity. }
  destruct Hc as [r Hc]. unfold call_tid.
  destruct (d_state s =? ST_IDLE) eqn:Ei.
  - (* idle *)
    apply Z.eqb_eq in Ei.
    destruct pkt as [p|].
    + destruct (pkt_tid p) as [a b] eqn:Et.
      destruct r as [u|e]; [rewrite (bind_run_ok _ _ _ _ _ Hc) | rewrite (bind_run_err _ _ _ _ _ Hc); apply call_ok_refl; left; exact Ei].
      rewrite fst_catch_abandoned, b_get. rewrite Ei. change (ST_IDLE =? ST_IDLE) with true. cbv iota.
      rewrite !bind_assoc.
      destruct (idle_fsm_spec p s Ei) as [G A1]. rewrite Et in G, A1. cbn [fst snd] in G, A1.
      destruct (idle_fsm (Some p) s) as [s1 [u1|e]] eqn:En; cbn [fst] in G, A1.
      * rewrite (bind_run_ok _ _ _ _ _ En). mrun.
        assert (F1 : dest_call_ok a b (Some p) s s1).
        { destruct G as [n1 [L1 F1]].
          assert (N1 : Forall (fun e => is_finished e = false) n1) by (eapply Forall_impl; [|exact F1]; intros e0 [_ Y]; exact Y).
          exists n1. split; [exact L1|]. split; [eapply Forall_impl; [|exact F1]; intros e0 [Y _]; exact Y|].
          split; [exists [], n1; split; [reflexivity | split; [constructor | exact N1]]|].
          split; [destruct A1 as [A1|A1]; [right | left]; exact A1|].
          split; [rewrite (nofin_existsb n1 N1); intro Y; discriminate Y | intro Y; contradiction]. }
        destruct (0 <? d_ready s1); [mfin; exact F1|]. mrun.
        destruct (d_state s1 =? ST_BUSY) eqn:Eb; [rewrite when_true | rewrite when_false; mfin; exact F1].
        apply Z.eqb_eq in Eb. destruct A1 as [A1|A1]; [|rewrite A1 in Eb; discriminate Eb].
        pose proof (non_idle_fsm_spec a b 3 (Some p) s1 A1) as [n2 [L2 [F2 [E2 [[late [early [O1 [O2 O3]]]] [_ K2]]]]]].
        destruct G as [n1 [L1 F1']].
        assert (N1 : Forall (fun e => is_finished e = false) n1) by (eapply Forall_impl; [|exact F1']; intros e0 [_ Y]; exact Y).
        exists (n2 ++ n1). split; [rewrite L2, L1; apply app_assoc|]. split.
        { apply Forall_app. split; [exact F2|]. eapply Forall_impl; [|exact F1']. intros e0 [Y _]. exact Y. }
        split.
        { exists late, (early ++ n1). split; [rewrite O1; symmetry; apply app_assoc|]. split; [exact O2|].
          apply Forall_app. split; assumption. }
        split; [destruct E2 as [E2|E2]; [right; exact E2 | left; exact (dead_idle _ E2)]|].
        split; [|intro Y; contradiction].
        rewrite existsb_app, (nofin_existsb n1 N1), orb_false_r. intro X.
        destruct (K2 X) as [Y|Y]; [right; exact Y | left; exact (dead_idle _ Y)].
      * rewrite (bind_run_err _ _ _ _ _ En). cbn [fst].
        destruct G as [n1 [L1 F1]].
        assert (N1 : Forall (fun e => is_finished e = false) n1) by (eapply Forall_impl; [|exact F1]; intros e0 [_ Y]; exact Y).
        exists n1. split; [exact L1|]. split; [eapply Forall_impl; [|exact F1]; intros e0 [Y _]; exact Y|].
        split; [exists [], n1; split; [reflexivity | split; [constructor | exact N1]]|].
        split; [destruct A1 as [A1|A1]; [right | left]; exact A1|].
        split; [rewrite (nofin_existsb n1 N1); intro Y; discriminate Y | intro Y; contradiction].
    + cbn in Hc. inversion Hc; subst r. rewrite b_ret. rewrite fst_catch_abandoned, b_get, Ei.
      change (ST_IDLE =? ST_IDLE) with true. cbv iota. unfold idle_fsm. mrun.
      destruct (0 <? d_ready s); [mfin; split; [reflexivity | exact Ei]|]. mrun. rewrite Ei.
      change (ST_IDLE =? ST_BUSY) with false. rewrite when_false. mfin. split; [reflexivity | exact Ei].
  - (* busy *)
    apply Z.eqb_neq in Ei. destruct (p_tid (d_p s)) as [[a b]|] eqn:Et; [|exfalso; exact (W Ei eq_refl)].
    assert (A0 : alive a b s) by exact Et.
    destruct r as [u|e]; [rewrite (bind_run_ok _ _ _ _ _ Hc) | rewrite (bind_run_err _ _ _ _ _ Hc); apply call_ok_refl; right; exact A0].
    rewrite fst_catch_abandoned, b_get. apply Z.eqb_neq in Ei. rewrite Ei. mrun.
    destruct (d_state s =? ST_BUSY); [rewrite when_true | rewrite when_false; mfin; apply call_ok_refl; right; exact A0].
    apply NIFA_call_ok. apply non_idle_fsm_spec. exact A0.
Qed.

(* ---- Metadata-Recv at most once per transaction *)
Definition is_md (e : event) : bool := match e with EvMetadataRecv _ _ _ _ _ _ => true | _ => false end.
(* the Metadata PDU is not awaited (any more) *)
Definition md_done (s : dst) : Prop := p_md_missing (d_p s) = false /\ d_step s <> DS_WAITING_FOR_METADATA.
Definition md_count (l : list event) : nat := length (filter is_md l).
Definition RM (s s' : dst) : Prop :=
  exists new, log_d s' = new ++ log_d s /\
    (md_done s -> md_done s' /\ existsb is_md new = false) /\ (existsb is_md new = true -> md_done s') /\
    (md_count new <= 1)%nat.

Lemma md_count_app : forall l1 l2, md_count (l1 ++ l2) = (md_count l1 + md_count l2)%nat.
Proof. intros. unfold md_count. rewrite filter_app, app_length. reflexivity. Qed.
Lemma md_count_none : forall l, existsb is_md l = false -> md_count l = 0%nat.
Proof.
  induction l as [|e l IH]; [reflexivity|]. cbn [existsb]. intro H. apply orb_false_iff in H. destruct H as [H1 H2].
  unfold md_count. cbn [filter]. rewrite H1. apply IH. exact H2.
Qed.
Lemma md_count_seq : forall n1 n2, (md_count n1 <= 1)%nat -> (md_count n2 <= 1)%nat ->
  (existsb is_md n1 = true -> existsb is_md n2 = false) -> (md_count (n2 ++ n1) <= 1)%nat.
Proof.
  intros n1 n2 H1 H2 H. rewrite md_count_app. destruct (existsb is_md n1) eqn:E.
  - rewrite (md_count_none n2 (H eq_refl)). exact H1.
  - rewrite (md_count_none n1 E). rewrite Nat.add_0_r. exact H2.
Qed.
(* no Metadata-Recv at all *)
Definition RG (s s' : dst) : Prop := exists new, log_d s' = new ++ log_d s /\ existsb is_md new = false.

Lemma preord_RM : PreOrd RM.
Proof.
  split.
  - intro s. exists []. split; [reflexivity|]. split; [intro H; split; [exact H | reflexivity]|].
    split; [intro X; discriminate X | apply Nat.le_0_l].
  - intros s1 s2 s3 [n1 [L1 [C1 [K1 O1]]]] [n2 [L2 [C2 [K2 O2]]]]. exists (n2 ++ n1). split; [rewrite L2, L1; apply app_assoc|].
    rewrite existsb_app. split; [|split].
    + intro H. destruct (C1 H) as [H1 E1]. destruct (C2 H1) as [H2 E2]. split; [exact H2 | rewrite E1, E2; reflexivity].
    + intro X. apply orb_true_iff in X. destruct X as [X|X]; [exact (K2 X)|]. exact (proj1 (C2 (K1 X))).
    + apply md_count_seq; [exact O1 | exact O2|]. intro X. exact (proj2 (C2 (K1 X))).
Qed.
Lemma preord_RG : PreOrd RG.
Proof.
  split.
  - intro s. exists []. split; reflexivity.
  - intros s1 s2 s3 [n1 [L1 E1]] [n2 [L2 E2]]. exists (n2 ++ n1). split; [rewrite L2, L1; apply app_assoc|].
    rewrite existsb_app, E1, E2. reflexivity.
Qed.
Lemma RG_RM : forall s s', ~ md_done s -> RG s s' -> RM s s'.
Proof.
  intros s s' N [new [L E]]. exists new. split; [exact L|]. split; [intro H; contradiction|].
  split; [rewrite E; intro X; discriminate X | rewrite (md_count_none new E); apply Nat.le_0_l].
Qed.

Ltac mside :=
  let s := fresh "s" in
  intro s;
  first
  [ exists []; split; [reflexivity|]; split;
    [ let H := fresh "H" in intro H; split;
      [ first [ exact H
              | split; [first [exact (proj1 H) | reflexivity] | first [exact (proj2 H) | discriminate]] ]
      | reflexivity ]
    | split; [let X := fresh "X" in intro X; discriminate X | apply Nat.le_0_l] ]
  | eexists [_]; split; [reflexivity|]; split;
    [ let H := fresh "H" in intro H; split; [exact H | reflexivity]
    | split; [let X := fresh "X" in intro X; discriminate X | apply Nat.le_0_l] ] ].
Ltac gside :=
  let s := fresh "s" in
  intro s; first [ exists []; split; reflexivity | eexists [_]; split; reflexivity ].

Section DstMd.
  Let HM : PreOrd RM := preord_RM.
  Let HG : PreOrd RG := preord_RG.

  (* the code outside the wait for the Metadata PDU *)
  Ltac wside ::= mside.
  Lemma m_declare_fault : forall c, Step RM (declare_fault c).
  Proof. intro. walk HM. Qed.
  #[local] Hint Resolve m_declare_fault : stepdb.
  Lemma m_checksum_verify : Step RM checksum_verify.
  Proof. walk HM. Qed.
  #[local] Hint Resolve m_checksum_verify : stepdb.
  Lemma m_add_packet : forall p, Step RM (add_packet p).
  Proof. intro. walk HM. Qed.
  #[local] Hint Resolve m_add_packet : stepdb.
  Lemma m_deferred_lost_segment_handling : Step RM deferred_lost_segment_handling.
  Proof. walk HM. Qed.
  #[local] Hint Resolve m_deferred_lost_segment_handling : stepdb.

  Lemma m_start_deferred_lost_segment_handling : Step RM start_deferred_lost_segment_handling.
  Proof.
    unfold start_deferred_lost_segment_handling. apply step_bind_gets. intro s.
    assert (G : Step RM (eof <- gp p_file_size_eof ;;
                 setp (fun p => p <| p_deferred := true |> <| p_tracker ::= coalesce |>
                                  <| p_last_start := opt_z eof |> <| p_last_end := opt_z eof |>) ;;;
                 deferred_lost_segment_handling)) by walk HM.
    rewrite b_set_step.
    match goal with |- RM _ (fst (_ _ ?st)) => pose proof (G st) as Y end.
    destruct HM as [_ Ht]. eapply Ht; [|exact Y].
    exists []. split; [reflexivity|]. split; [|split; [intro X; discriminate X | apply Nat.le_0_l]].
    intros [H1 H2]. rewrite H1. split; [split; [exact H1 | discriminate] | reflexivity].
  Qed.
  #[local] Hint Resolve m_start_deferred_lost_segment_handling : stepdb.

  Lemma m_fsm_advancement : Step RM fsm_advancement.
  Proof. walk HM. Qed.
  #[local] Hint Resolve m_fsm_advancement : stepdb.
  Lemma m_handle_fd_pdu : forall o d, Step RM (handle_fd_pdu o d).
  Proof. intros. walk HM. Qed.
  #[local] Hint Resolve m_handle_fd_pdu : stepdb.
  Lemma m_handle_eof_pdu : forall c ck sz, Step RM (handle_eof_pdu c ck sz).
  Proof. intros. walk HM. Qed.
  #[local] Hint Resolve m_handle_eof_pdu : stepdb.
  Lemma m_check_limit_handling : Step RM check_limit_handling.
  Proof. walk HM. Qed.
  #[local] Hint Resolve m_check_limit_handling : stepdb.
  Lemma m_init_vfs_handling : forall base, Step RM (init_vfs_handling base).
  Proof. intro. walk HM. Qed.
  Lemma m_notice_of_completion : Step RM notice_of_completion.
  Proof. walk HM. Qed.
  #[local] Hint Resolve m_notice_of_completion : stepdb.
  Lemma m_handle_transfer_completion : Step RM handle_transfer_completion.
  Proof. walk HM. Qed.
  #[local] Hint Resolve m_handle_transfer_completion : stepdb.
  Lemma m_prepare_finished_pdu : Step RM prepare_finished_pdu.
  Proof. walk HM. Qed.
  #[local] Hint Resolve m_prepare_finished_pdu : stepdb.
  Lemma m_handle_finished_pdu_sent : Step RM handle_finished_pdu_sent.
  Proof. walk HM. Qed.
  #[local] Hint Resolve m_handle_finished_pdu_sent : stepdb.
  Lemma m_handle_waiting_for_finished_ack : forall again pkt, Step RM again ->
    Step RM (handle_waiting_for_finished_ack again pkt).
  Proof. intros again pkt Hag. walk HM. Qed.

  (* the Metadata PDU: after its indication the Metadata PDU is not awaited *)
  Lemma md_handle_metadata_packet : forall h cl ck sz names msgs s,
    exists new, log_d (fst (handle_metadata_packet h cl ck sz names msgs s)) = new ++ log_d s /\
      (existsb is_md new = true -> md_done (fst (handle_metadata_packet h cl ck sz names msgs s))) /\
      (md_count new <= 1)%nat.
  Proof.
    intros h cl ck sz names msgs s. unfold handle_metadata_packet. rewrite b_setp.
    assert (T : forall s0, p_md_missing (d_p s0) = false ->
              exists new, log_d (fst ((r <- gp p_rcfg ;;
                match r with
                | None => raise E_NO_REMOTE_CFG
                | Some _ =>
                  mdo <- gp p_md_only ;;
                  (if negb mdo then
                     set_step DS_RECEIVING_FILE_DATA ;;;
                     init_vfs_handling (match names with Some (sn, _) => (match rev sn with b :: _ => Some b | [] => None end) | None => None end)
                   else set_step DS_TRANSFER_COMPLETION) ;;;
                  t <- gp p_tid ;;
                  let '(src, seq) := match t with Some x => x | None => (-1, -1) end in
                  emit (EvMetadataRecv src seq (h_src h) (match names with Some _ => Some sz | None => None end) names msgs)
                end) s0)) = new ++ log_d s0 /\
              (existsb is_md new = true -> md_done (fst ((r <- gp p_rcfg ;;
                match r with
                | None => raise E_NO_REMOTE_CFG
                | Some _ =>
                  mdo <- gp p_md_only ;;
                  (if negb mdo then
                     set_step DS_RECEIVING_FILE_DATA ;;;
                     init_vfs_handling (match names with Some (sn, _) => (match rev sn with b :: _ => Some b | [] => None end) | None => None end)
                   else set_step DS_TRANSFER_COMPLETION) ;;;
                  t <- gp p_tid ;;
                  let '(src, seq) := match t with Some x => x | None => (-1, -1) end in
                  emit (EvMetadataRecv src seq (h_src h) (match names with Some _ => Some sz | None => None end) names msgs)
                end) s0))) /\ (md_count new <= 1)%nat).
    { intros s0 M0. rewrite b_gp. destruct (p_rcfg (d_p s0)); [|exists []; split; [reflexivity | split; [intro X; discriminate X | apply Nat.le_0_l]]].
      rewrite b_gp. destruct (negb (p_md_only (d_p s0))).
      - rewrite !bind_assoc, b_set_step.
        match goal with |- context [bind (init_vfs_handling ?base) ?k ?st] => set (s3 := st); set (bs := base) end.
        assert (M3 : md_done s3) by (split; [exact M0 | discriminate]).
        destruct (m_init_vfs_handling bs s3) as [n [L [C _]]]. destruct (C M3) as [M4 E4].
        pose proof (md_count_none n E4) as Z4.
        destruct (init_vfs_handling bs s3) as [s4 [u|e]] eqn:En; cbn [fst] in *.
        + rewrite (bind_run_ok _ _ _ _ _ En). rewrite b_gp.
          destruct (p_tid (d_p s4)) as [[x y]|]; cbv beta iota; unfold emit, modify; cbn [fst];
            (eexists (_ :: n); split; [cbn; unfold log_d in L; rewrite L; reflexivity | split; [intros _; exact M4|]];
             unfold md_count in *; cbn [filter is_md length]; rewrite Z4; apply Nat.le_refl).
        + rewrite (bind_run_err _ _ _ _ _ En). cbn [fst]. exists n.
          split; [exact L | split; [rewrite E4; intro X; discriminate X | rewrite Z4; apply Nat.le_0_l]].
      - rewrite b_set_step, b_gp.
        match goal with |- context [match ?t with Some x => x | None => _ end] => destruct t as [[x y]|] end; cbv beta iota; unfold emit, modify; cbn [fst];
          (eexists [_]; split; [reflexivity | split; [intros _; split; [exact M0 | discriminate] | apply Nat.le_refl]]). }
    destruct names as [[sn dn]|]; rewrite b_setp, b_setp;
      match goal with |- exists new, log_d (fst (_ ?st)) = _ /\ _ => destruct (T st eq_refl) as [new [L K]] end;
      exists new; (split; [exact L | exact K]).
  Qed.

  Lemma md_then : forall (m rest : D unit) s,
    (exists new, log_d (fst (m s)) = new ++ log_d s /\ (existsb is_md new = true -> md_done (fst (m s))) /\
                 (md_count new <= 1)%nat) ->
    ~ md_done s -> Step RM rest -> RM s (fst ((m ;;; rest) s)).
  Proof.
    intros m rest s [n1 [L1 [K1 O1]]] N Hr. unfold bind. destruct (m s) as [s1 [u|e]]; cbn [fst] in *.
    - destruct (Hr s1) as [n2 [L2 [C2 [K2 O2]]]]. exists (n2 ++ n1). split; [rewrite L2, L1; apply app_assoc|].
      split; [intro X; contradiction|]. split.
      + rewrite existsb_app. intro X. apply orb_true_iff in X.
        destruct X as [X|X]; [exact (K2 X) | exact (proj1 (C2 (K1 X)))].
      + apply md_count_seq; [exact O1 | exact O2|]. intro X. exact (proj2 (C2 (K1 X))).
    - exists n1. split; [exact L1|]. split; [intro X; contradiction | split; [exact K1 | exact O1]].
  Qed.

  (* the section of the wait for the Metadata PDU *)
  Ltac wside ::= gside.
  Lemma g_wait_other : forall pkt,
    match pkt with Some (PMetadata _ _ _ _ _ _) => False | _ => True end ->
    Step RG (handle_waiting_for_missing_metadata pkt ;;; deferred_lost_segment_handling).
  Proof.
    intros pkt Hp. unfold handle_waiting_for_missing_metadata.
    destruct pkt as [[h off data|h cl ck sz names msgs|h cd ck sz fl|h c1 c2 c3 c4|h c1 c2 c3|h c1 c2 c3|h c1|h c1]|];
      try contradiction; walk HG.
  Qed.
  Ltac wside ::= mside.
  Lemma m_after_metadata : Step RM
    ((active <- gp p_deferred ;;
      when active
        (reset_nak_activity_parameters ;;;
         st <- get_step ;;
         when (st =? DS_RECEIVING_FILE_DATA) (set_step DS_WAITING_FOR_MISSING_DATA))) ;;; deferred_lost_segment_handling).
  Proof. walk HM. Qed.

  Lemma m_wait_metadata : forall pkt s, d_step s = DS_WAITING_FOR_METADATA ->
    RM s (fst ((handle_waiting_for_missing_metadata pkt ;;; deferred_lost_segment_handling) s)).
  Proof.
    intros pkt s Hs. assert (N : ~ md_done s) by (intros [_ X]; exact (X Hs)).
    destruct pkt as [[h off data|h cl ck sz names msgs|h cd ck sz fl|h c1 c2 c3 c4|h c1 c2 c3|h c1 c2 c3|h c1|h c1]|].
    2: { unfold handle_waiting_for_missing_metadata. rewrite !bind_assoc.
         apply (md_then _ _ s (md_handle_metadata_packet h cl ck sz names msgs s) N).
         intro s1. pose proof (m_after_metadata s1) as Y. rewrite !bind_assoc in Y. exact Y. }
    all: apply RG_RM; [exact N|]; apply g_wait_other; exact I.
  Qed.

  Lemma m_nif_body : forall again pkt, Step RM again -> Step RM (nif_body again pkt).
  Proof.
    intros again pkt Hag. pose proof (m_handle_waiting_for_finished_ack again pkt Hag) as H9.
    unfold nif_body.
    apply (step_bind _ HM); [apply m_fsm_advancement | intros _].
    apply (step_bind _ HM); [walk HM | intro st].
    apply (step_bind _ HM); [walk HM | intros _].
    apply (step_stage _ HM); [apply m_wait_metadata|].
    walk HM.
  Qed.

  Lemma m_non_idle_fsm : forall fuel pkt, Step RM (non_idle_fsm fuel pkt).
  Proof.
    induction fuel as [|k IH]; intro pkt.
    - change (non_idle_fsm 0 pkt) with (nif_body (raise E_FUEL) pkt). apply m_nif_body. apply (step_raise _ HM).
    - change (non_idle_fsm (S k) pkt)
        with (nif_body (catch_abandoned (s0 <- get ;; when (d_state s0 =? ST_BUSY) (non_idle_fsm k None))) pkt).
      apply m_nif_body. intro s. rewrite fst_catch_abandoned, b_get.
      destruct (d_state s =? ST_BUSY); [rewrite when_true; apply IH | rewrite when_false; apply HM].
  Qed.

  (* the first PDU of a transaction *)
  Ltac wside ::= gside.
  Lemma g_cfph : forall h, Step RG (common_first_packet_handler h).
  Proof.
    intros h s. unfold common_first_packet_handler. rewrite b_get.
    destruct (negb (d_state s =? ST_IDLE)); exists []; split; reflexivity.
  Qed.
  #[local] Hint Resolve g_cfph : stepdb.
  Lemma g_first_fd : forall h off data,
    Step RG (common_first_packet_not_metadata h ;;; handle_fd_without_previous_metadata true off data).
  Proof. intros. unfold common_first_packet_not_metadata. walk HG. Qed.
  Lemma g_first_eof : forall h cd ck sz,
    Step RG (common_first_packet_not_metadata h ;;; handle_eof_without_previous_metadata cd ck sz).
  Proof. intros. unfold common_first_packet_not_metadata. walk HG. Qed.

  Lemma md_idle_fsm : forall pkt s, d_state s = ST_IDLE ->
    exists new, log_d (fst (idle_fsm pkt s)) = new ++ log_d s /\
      (existsb is_md new = true -> md_done (fst (idle_fsm pkt s))) /\ (md_count new <= 1)%nat.
  Proof.
    intros pkt s Hi.
    destruct pkt as [[h off data|h cl ck sz names msgs|h cd ck sz fl|h c1 c2 c3 c4|h c1 c2 c3|h c1 c2 c3|h c1|h c1]|];
      cbn [idle_fsm]; try (exists []; split; [reflexivity | split; [intro X; discriminate X | apply Nat.le_0_l]]).
    - destruct (g_first_fd h off data s) as [new [L E]]. exists new.
      split; [exact L | split; [rewrite E; intro X; discriminate X | rewrite (md_count_none new E); apply Nat.le_0_l]].
    - unfold start_transaction. rewrite b_get, Hi. change (negb (ST_IDLE =? ST_IDLE)) with false. cbv iota.
      rewrite b_setp. cbv beta.
      match goal with |- context [bind (common_first_packet_handler h) ?k ?s0] =>
        destruct (cfph_eq h s0 k Hi) as [s1 [E [A1 L1]]] end.
      rewrite E. cbv beta.
      destruct (md_handle_metadata_packet h cl ck sz names msgs s1) as [new [L K]].
      exists new. split; [rewrite L, L1; reflexivity | exact K].
    - destruct (g_first_eof h cd ck sz s) as [new [L E]]. exists new.
      split; [exact L | split; [rewrite E; intro X; discriminate X | rewrite (md_count_none new E); apply Nat.le_0_l]].
  Qed.
End DstMd.

Definition dest_md_ok (s s' : dst) : Prop :=
  exists new, log_d s' = new ++ log_d s /\
    (d_state s <> ST_IDLE -> md_done s -> md_done s' /\ existsb is_md new = false) /\
    (existsb is_md new = true -> md_done s') /\ (md_count new <= 1)%nat.

Lemma dest_md_once : forall pkt s, dest_md_ok s (fst (Dest.state_machine pkt s)).
Proof.
  intros pkt s. unfold Dest.state_machine.
  assert (R0 : dest_md_ok s s).
  { exists []. split; [reflexivity|]. split; [intros _ H; split; [exact H | reflexivity]|].
    split; [intro X; discriminate X | apply Nat.le_0_l]. }
  assert (Hc : exists r, (match pkt with Some p => check_inserted_packet p | None => ret tt end) s = (s, r)).
  { destruct pkt as [p|]; [|eexists; reflexivity].
    pose proof (minv_state _ _ _ s (adm_d p)) as X. unfold whole in X.
    destruct (check_inserted_packet p s) as [s1 r]. cbn [fst] in X. subst s1. eexists; reflexivity. }
  destruct Hc as [r Hc].
  destruct r as [u|e]; [rewrite (bind_run_ok _ _ _ _ _ Hc) | rewrite (bind_run_err _ _ _ _ _ Hc); exact R0].
  rewrite fst_catch_abandoned, b_get.
  destruct (d_state s =? ST_IDLE) eqn:Ei.
  - apply Z.eqb_eq in Ei. rewrite !bind_assoc.
    destruct (md_idle_fsm pkt s Ei) as [n1 [L1 [K1 O1]]].
    destruct (idle_fsm pkt s) as [s1 [u1|e]] eqn:En; cbn [fst] in L1, K1.
    + rewrite (bind_run_ok _ _ _ _ _ En). mrun.
      assert (F1 : dest_md_ok s s1).
      { exists n1. split; [exact L1|]. split; [intro X; contradiction | split; [exact K1 | exact O1]]. }
      destruct (0 <? d_ready s1); [mfin; exact F1|]. mrun.
      destruct (d_state s1 =? ST_BUSY); [rewrite when_true | rewrite when_false; mfin; exact F1].
      destruct (m_non_idle_fsm 3 pkt s1) as [n2 [L2 [C2 [K2 O2]]]].
      exists (n2 ++ n1). split; [rewrite L2, L1; apply app_assoc|]. split; [intro X; contradiction|]. split.
      * rewrite existsb_app. intro X. apply orb_true_iff in X.
        destruct X as [X|X]; [exact (K2 X) | exact (proj1 (C2 (K1 X)))].
      * apply md_count_seq; [exact O1 | exact O2|]. intro X. exact (proj2 (C2 (K1 X))).
    + rewrite (bind_run_err _ _ _ _ _ En). cbn [fst].
      exists n1. split; [exact L1|]. split; [intro X; contradiction | split; [exact K1 | exact O1]].
  - mrun. destruct (d_state s =? ST_BUSY); [rewrite when_true | rewrite when_false; mfin; exact R0].
    destruct (m_non_idle_fsm 3 pkt s) as [n [L [C K]]]. exists n. split; [exact L|]. split; [intros _; exact C | exact K].
Qed.

(* ---- the other calls of the API deliver nothing; a cancel request moves a busy handler to the completion *)
Lemma dest_other_calls : forall a b s,
  (log_d (fst (Dest.cancel_request a b s)) = log_d s /\
   p_tid (d_p (fst (Dest.cancel_request a b s))) = p_tid (d_p s) /\
   d_state (fst (Dest.cancel_request a b s)) = d_state s /\
   (d_step (fst (Dest.cancel_request a b s)) = d_step s \/ d_step (fst (Dest.cancel_request a b s)) = DS_TRANSFER_COMPLETION) /\
   p_md_missing (d_p (fst (Dest.cancel_request a b s))) = p_md_missing (d_p s)) /\
  (log_d (fst (Dest.get_next_packet s)) = log_d s /\ d_state (fst (Dest.get_next_packet s)) = d_state s /\
   d_step (fst (Dest.get_next_packet s)) = d_step s /\ d_p (fst (Dest.get_next_packet s)) = d_p s) /\
  (log_d (fst (Dest.reset s)) = log_d s /\ d_state (fst (Dest.reset s)) = ST_IDLE).
Proof.
  intros a b s. split; [|split].
  - unfold Dest.cancel_request. rewrite b_get.
    destruct (d_state s =? ST_IDLE); [repeat split; try reflexivity; left; reflexivity|].
    destruct (0 <? d_ready s); [repeat split; try reflexivity; left; reflexivity|].
    destruct (p_tid (d_p s)) as [[x y]|] eqn:Et; [|repeat split; try reflexivity; try exact Et; left; reflexivity].
    destruct ((x =? a) && (y =? b)); mrun; unfold ret; cbn [fst].
    + repeat split; try reflexivity; try exact Et. right. reflexivity.
    + repeat split; try reflexivity; try exact Et. left. reflexivity.
  - unfold Dest.get_next_packet. rewrite b_get. destruct (d_queue s); [repeat split; reflexivity|].
    rewrite b_put. repeat split; reflexivity.
  - split; reflexivity.
Qed.

(* ---- the order automaton of the receiver, run along a history of API calls *)
Definition dphase := option (Z * Z * bool * bool).
Definition tid_eqb (x y : Z * Z) : bool := (fst x =? fst y) && (snd x =? snd y).

Definition dst_step (ph : dphase) (e : event) : option dphase :=
  match ph with
  | None => None
  | Some (a, b, md, fin) =>
      if negb (tid_eqb (ev_tid e) (a, b)) then None else
      match e with
      | EvFault _ _ _ _ _ => Some ph
      | EvFinished _ _ _ _ _ _ => Some (Some (a, b, md, true))
      | EvMetadataRecv _ _ _ _ _ _ => if md || fin then None else Some (Some (a, b, true, false))
      | EvSegmentRecv _ _ _ _ | EvEofRecv _ _ => if fin then None else Some ph
      | _ => None
      end
  end.

Fixpoint dst_run (ph : dphase) (l : list event) : option dphase :=
  match l with
  | [] => Some ph
  | e :: t => match dst_step ph e with Some ph' => dst_run ph' t | None => None end
  end.

Definition dnew (s s' : dst) : list event := firstn (length (log_d s') - length (log_d s)) (log_d s').

Definition dtrack (ph : dphase) (c : dcall) (s : dst) : option dphase :=
  let s' := fst (dapply c s) in
  let ph0 := match c with
             | DSm (Some p) => if d_state s =? ST_IDLE then Some (pkt_tid p, false, false) else ph
             | _ => ph
             end in
  match dst_run ph0 (rev (dnew s s')) with
  | Some ph1 => Some (if d_state s' =? ST_IDLE then None else ph1)
  | None => None
  end.

Fixpoint dhist (cs : list dcall) (s : dst) (ph : dphase) : option (dst * dphase) :=
  match cs with
  | [] => Some (s, ph)
  | c :: t => match dtrack ph c s with Some ph' => dhist t (fst (dapply c s)) ph' | None => None end
  end.

(* what the phase says about the handler state *)
Definition dst_ord (s : dst) (ph : dphase) : Prop :=
  match ph with
  | None => d_state s = ST_IDLE
  | Some (a, b, md, fin) =>
      d_state s <> ST_IDLE /\ p_tid (d_p s) = Some (a, b) /\ (md = true -> md_done s) /\ (fin = true -> completing s = true)
  end.

(* ---- reading the events of a call newest first *)
Fixpoint dst_from (ph : dphase) (l : list event) : option dphase :=
  match l with
  | [] => Some ph
  | e :: older => match dst_from ph older with Some ph' => dst_step ph' e | None => None end
  end.

Lemma dst_run_app : forall l1 l2 ph,
  dst_run ph (l1 ++ l2) = match dst_run ph l1 with Some ph' => dst_run ph' l2 | None => None end.
Proof.
  induction l1 as [|e l1 IH]; intros l2 ph; cbn [app dst_run]; [reflexivity|].
  destruct (dst_step ph e) as [ph'|]; [apply IH | reflexivity].
Qed.
Lemma dst_run_rev : forall l ph, dst_run ph (rev l) = dst_from ph l.
Proof.
  induction l as [|e l IH]; intro ph; [reflexivity|].
  cbn [rev dst_from]. rewrite dst_run_app, IH.
  destruct (dst_from ph l) as [ph'|]; [|reflexivity]. cbn [dst_run]. destruct (dst_step ph' e); reflexivity.
Qed.
Lemma dst_from_app : forall late early ph,
  dst_from ph (late ++ early) = match dst_from ph early with Some ph' => dst_from ph' late | None => None end.
Proof.
  induction late as [|e late IH]; intros early ph; cbn [app dst_from].
  - destruct (dst_from ph early); reflexivity.
  - rewrite IH. destruct (dst_from ph early) as [ph'|]; reflexivity.
Qed.

Lemma dnew_eq : forall s s' new, log_d s' = new ++ log_d s -> dnew s s' = new.
Proof.
  intros s s' new H. unfold dnew. rewrite H, app_length, Nat.add_sub.
  rewrite firstn_app, firstn_all, Nat.sub_diag. cbn. apply app_nil_r.
Qed.

Lemma tid_eqb_refl : forall t, tid_eqb t t = true.
Proof. intros [x y]. unfold tid_eqb. cbn. rewrite !Z.eqb_refl. reflexivity. Qed.

(* Transaction-Finished and fault callbacks *)
Lemma from_finfault : forall a b l md fin,
  Forall (fun e => ev_tid e = (a, b) /\ finfault e = true) l ->
  dst_from (Some (a, b, md, fin)) l = Some (Some (a, b, md, fin || existsb is_finished l)).
Proof.
  induction l as [|e l IH]; intros md fin F; cbn [dst_from existsb]; [rewrite orb_false_r; reflexivity|].
  inversion F as [|e' l' [T K] F']; subst. rewrite (IH md fin F').
  unfold dst_step. rewrite T, tid_eqb_refl. cbn [negb].
  destruct e; cbn in K; try discriminate K; cbn [is_finished].
  - rewrite orb_true_r. reflexivity.
  - reflexivity.
Qed.

Lemma md_count_zero : forall l, md_count l = 0%nat -> existsb is_md l = false.
Proof.
  induction l as [|e l IH]; [reflexivity|]. unfold md_count. cbn [filter existsb].
  destruct (is_md e); cbn [length]; [intro X; discriminate X | exact IH].
Qed.

(* the indications of the receiving phase *)
Lemma from_early : forall a b pkt l md,
  Forall (ind_ok a b pkt) l -> Forall (fun e => is_finished e = false) l -> (md_count l <= 1)%nat ->
  (md = true -> existsb is_md l = false) ->
  dst_from (Some (a, b, md, false)) l = Some (Some (a, b, md || existsb is_md l, false)).
Proof.
  induction l as [|e l IH]; intros md F N O M; cbn [dst_from existsb]; [rewrite orb_false_r; reflexivity|].
  inversion F as [|e' l' [T K] F']; subst. inversion N as [|e'' l'' N1 N']; subst.
  assert (O' : (md_count l <= 1)%nat).
  { unfold md_count in *. cbn [filter] in O. destruct (is_md e); cbn [length] in O; lia. }
  assert (M' : md = true -> existsb is_md l = false).
  { intro X. specialize (M X). cbn [existsb] in M. apply orb_false_iff in M. exact (proj2 M). }
  rewrite (IH md F' N' O' M'). unfold dst_step. rewrite T, tid_eqb_refl. cbn [negb].
  assert (Kind : is_fault e = true \/ ri_of a b pkt = Some e).
  { destruct K as [K|K]; [|right; exact K]. left. unfold finfault in K. rewrite N1 in K. exact K. }
  destruct Kind as [Kf|Kr].
  - destruct e; cbn in Kf; try discriminate Kf. cbn [is_md]. cbn [orb]. reflexivity.
  - destruct pkt as [[h off data|h cl ck sz names msgs|h cd ck sz fl|h c1 c2 c3 c4|h c1 c2 c3|h c1 c2 c3|h c1|h c1]|];
      cbn [ri_of] in Kr; inversion Kr; subst e; cbn [is_md orb].
    + reflexivity.
    + assert (Z0 : md_count l = 0%nat) by (unfold md_count in *; cbn [filter is_md length] in O; lia).
      rewrite (md_count_zero l Z0). destruct md; [specialize (M eq_refl); cbn in M; discriminate M|]. reflexivity.
    + reflexivity.
Qed.

Lemma finfault_nomd : forall l, Forall (fun e => finfault e = true) l -> existsb is_md l = false.
Proof.
  induction 1 as [|e l H _ IH]; [reflexivity|]. cbn [existsb]. rewrite IH.
  destruct e; cbn in H; try discriminate H; reflexivity.
Qed.
Lemma nofin_nofin : forall l, Forall (fun e => is_finished e = false) l -> existsb is_finished l = false.
Proof. exact nofin_existsb. Qed.

(* the events of one call are accepted *)
Lemma run_call : forall a b pkt new md fin,
  Forall (ind_ok a b pkt) new -> call_order new -> (md_count new <= 1)%nat ->
  (md = true -> existsb is_md new = false) -> (fin = true -> Forall (fun e => finfault e = true) new) ->
  dst_run (Some (a, b, md, fin)) (rev new) =
  Some (Some (a, b, md || existsb is_md new, fin || existsb is_finished new)).
Proof.
  intros a b pkt new md fin F O C M K. rewrite dst_run_rev.
  destruct fin.
  - specialize (K eq_refl). rewrite (finfault_nomd new K), orb_false_r.
    apply from_finfault. rewrite Forall_forall in *. intros e He. split; [exact (proj1 (F e He)) | exact (K e He)].
  - destruct O as [late [early [E [OL OE]]]]. subst new.
    apply Forall_app in F. destruct F as [FL FE].
    rewrite dst_from_app.
    assert (CE : (md_count early <= 1)%nat) by (rewrite md_count_app in C; lia).
    assert (ME : md = true -> existsb is_md early = false).
    { intro X. specialize (M X). rewrite existsb_app in M. apply orb_false_iff in M. exact (proj2 M). }
    rewrite (from_early a b pkt early md FE OE CE ME).
    rewrite from_finfault.
    + rewrite !existsb_app, (finfault_nomd late OL), (nofin_existsb early OE). cbn [orb]. rewrite orb_false_r. reflexivity.
    + rewrite Forall_forall in *. intros e He. split; [exact (proj1 (FL e He)) | exact (OL e He)].
Qed.

Lemma fst_dapply : forall c s,
  fst (dapply c s) =
  match c with
  | DSm pkt => fst (Dest.state_machine pkt s)
  | DGet => fst (Dest.get_next_packet s)
  | DCancel a b => fst (Dest.cancel_request a b s)
  | DReset => fst (Dest.reset s)
  | DTick ms => s <| d_env ::= (fun e => e <| e_now ::= Z.add ms |>) |>
  end.
Proof.
  intros c s. destruct c as [pkt| |a b| |ms]; cbn [dapply].
  - destruct (Dest.state_machine pkt s); reflexivity.
  - destruct (Dest.get_next_packet s); reflexivity.
  - destruct (Dest.cancel_request a b s); reflexivity.
  - destruct (Dest.reset s); reflexivity.
  - reflexivity.
Qed.

(* a call that delivers nothing and keeps what the phase looks at *)
Lemma track_silent : forall ph s s',
  log_d s' = log_d s -> dst_ord s ph ->
  (d_state s' = ST_IDLE \/
   (d_state s' = d_state s /\ p_tid (d_p s') = p_tid (d_p s) /\ p_md_missing (d_p s') = p_md_missing (d_p s) /\
    (d_step s' = d_step s \/ d_step s' = DS_TRANSFER_COMPLETION))) ->
  exists ph', match dst_run ph (rev (dnew s s')) with
              | Some ph1 => Some (if d_state s' =? ST_IDLE then None else ph1)
              | None => None end = Some ph' /\ dst_ord s' ph'.
Proof.
  intros ph s s' L I K. rewrite (dnew_eq s s' [] L). cbn [rev dst_run].
  destruct (d_state s' =? ST_IDLE) eqn:E.
  - exists None. split; [reflexivity | apply Z.eqb_eq; exact E].
  - exists ph. split; [reflexivity|]. apply Z.eqb_neq in E.
    destruct K as [K|[K1 [K2 [K3 K4]]]]; [contradiction|].
    destruct ph as [[[[a b] md] fin]|]; cbn [dst_ord] in *.
    + destruct I as [I1 [I2 [I3 I4]]]. split; [exact E|]. split; [congruence|]. split.
      * intro X. destruct (I3 X) as [M1 M2]. split; [congruence|].
        destruct K4 as [K4|K4]; rewrite K4; [exact M2 | discriminate].
      * intro X. specialize (I4 X). destruct K4 as [K4|K4]; unfold completing in *; rewrite K4; [exact I4 | reflexivity].
    + rewrite K1 in E. contradiction.
Qed.

Lemma dtrack_ok : forall c s ph, dst_ord s ph ->
  exists ph', dtrack ph c s = Some ph' /\ dst_ord (fst (dapply c s)) ph'.
Proof.
  intros c s ph I. unfold dtrack. rewrite fst_dapply.
  destruct c as [pkt| |x y| |ms].
  - (* state machine *)
    assert (W : d_state s <> ST_IDLE -> p_tid (d_p s) <> None).
    { intro N. destruct ph as [[[[a b] md] fin]|]; cbn [dst_ord] in I; [|contradiction].
      destruct I as [_ [I2 _]]. rewrite I2. discriminate. }
    pose proof (dest_call_order pkt s W) as HC. pose proof (dest_md_once pkt s) as HM.
    set (s' := fst (Dest.state_machine pkt s)) in *.
    unfold call_tid in HC.
    assert (Main : forall a b md fin,
              dest_call_ok a b pkt s s' ->
              (md = true -> d_state s <> ST_IDLE /\ md_done s) -> (fin = true -> d_state s <> ST_IDLE /\ completing s = true) ->
              exists ph', match dst_run (Some (a, b, md, fin)) (rev (dnew s s')) with
                          | Some ph1 => Some (if d_state s' =? ST_IDLE then None else ph1)
                          | None => None end = Some ph' /\ dst_ord s' ph').
    { intros a b md fin [new [L [F [O [A1 [K2 K1]]]]]] Hmd Hfin.
      destruct HM as [new' [L' [C1 [C2 C3]]]].
      assert (new' = new) by (rewrite L in L'; apply app_inv_tail in L'; symmetry; exact L'). subst new'.
      rewrite (dnew_eq s s' new L).
      rewrite (run_call a b pkt new md fin F O C3).
      - destruct (d_state s' =? ST_IDLE) eqn:E.
        + exists None. split; [reflexivity | apply Z.eqb_eq; exact E].
        + eexists. split; [reflexivity|]. apply Z.eqb_neq in E. cbn [dst_ord].
          split; [exact E|]. split; [destruct A1 as [A1|A1]; [contradiction | exact A1]|]. split.
          * intro X. apply orb_true_iff in X. destruct X as [X|X]; [|exact (C2 X)].
            destruct (Hmd X) as [N M]. exact (proj1 (C1 N M)).
          * intro X. apply orb_true_iff in X. destruct X as [X|X].
            -- destruct (Hfin X) as [N M]. destruct (K1 N M) as [_ [Y|Y]]; [contradiction | exact Y].
            -- destruct (K2 X) as [Y|Y]; [contradiction | exact Y].
      - intro X. destruct (Hmd X) as [N M]. exact (proj2 (C1 N M)).
      - intro X. destruct (Hfin X) as [N M]. exact (proj1 (K1 N M)). }
    destruct ph as [[[[a b] md] fin]|]; cbn [dst_ord] in I.
    + destruct I as [I1 [I2 [I3 I4]]]. apply Z.eqb_neq in I1. rewrite I1 in HC |- *. rewrite I2 in HC.
      assert (Ph0 : match pkt with Some p => Some (a, b, md, fin) | None => Some (a, b, md, fin) end = Some (a, b, md, fin))
        by (destruct pkt; reflexivity).
      replace (match pkt with Some _ => Some (a, b, md, fin) | None => Some (a, b, md, fin) end) with (Some (a, b, md, fin)).
      apply Z.eqb_neq in I1.
      apply (Main a b md fin HC); intro X; (split; [exact I1|]); [exact (I3 X) | exact (I4 X)].
    + rewrite I in HC |- *. change (ST_IDLE =? ST_IDLE) with true in *. cbv iota in HC |- *.
      destruct pkt as [p|].
      * destruct (pkt_tid p) as [a b] eqn:Et.
        apply (Main a b false false HC); intro X; discriminate X.
      * destruct HC as [L E]. rewrite (dnew_eq s s' [] L). cbn [rev dst_run]. rewrite E.
        change (ST_IDLE =? ST_IDLE) with true. exists None. split; [reflexivity | exact E].
  - (* get_next_packet *)
    destruct (dest_other_calls 0 0 s) as [_ [[L [S1 [S2 S3]]] _]].
    apply (track_silent ph s _ L I). right. rewrite S3. repeat split; try assumption. left. exact S2.
  - (* cancel_request *)
    destruct (dest_other_calls x y s) as [[L [T [S1 [S2 S3]]]] _].
    apply (track_silent ph s _ L I). right. repeat split; assumption.
  - (* reset *)
    destruct (dest_other_calls 0 0 s) as [_ [_ [L S1]]].
    apply (track_silent ph s _ L I). left. exact S1.
  - (* clock *)
    apply (track_silent ph s _ eq_refl I). right. repeat split; try reflexivity. left. reflexivity.
Qed.

Lemma dhist_ok : forall cs s ph, dst_ord s ph -> exists s' ph', dhist cs s ph = Some (s', ph') /\ dst_ord s' ph'.
Proof.
  induction cs as [|c cs IH]; intros s ph I; cbn [dhist].
  - exists s, ph. split; [reflexivity | exact I].
  - destruct (dtrack_ok c s ph I) as [ph' [E I']]. rewrite E. apply IH. exact I'.
Qed.

Lemma dest_order_history : forall cs c0, dhist cs (dst_init c0) None <> None.
Proof.
  intros cs c0. destruct (dhist_ok cs (dst_init c0) None eq_refl) as [s' [ph' [E _]]]. rewrite E. discriminate.
Qed.

(* ================================================================== instances *)
(* entity 1 sends to entity 2; every indication enabled; the generated default fault handler table *)
Definition ox_r (id mode : Z) (closure : bool) : rcfg :=
  mkRcfg id 2 (Some 4) 64 closure false mode CK_CRC32 1000 2 2 false false 1000 2.
Definition ox_l (id : Z) (r : rcfg) : lcfg := mkLcfg id 2 true true true true default_fault_table 1000 [r].
Definition ox_put : putreq := mkPut 2 2 None None (Some ([1], [2])) None.
Definition ox_src (mode : Z) (closure : bool) : src :=
  src_fresh (ox_l 1 (ox_r 2 mode closure)) 0 16 [([1], File [3; 10; 17; 24; 31])].
Definition ox_pump : list scall := [SSm None; SGet; SGet; SGet].
Definition ox_hd (mode : Z) : hdr := mkHdr TOWARDS_RECEIVER mode false false 1 2 2 7 2.
Definition ox_gets : list dcall := [DGet; DGet; DGet].
Definition dfinal (cs : list dcall) (s : dst) : dst := fold_left (fun s c => fst (dapply c s)) cs s.

(* non-vacuity, sender: a complete unacknowledged transfer; all three indications, in order, accepted *)
Example src_order_instance :
  let s := shist ([SPut ox_put] ++ ox_pump ++ ox_pump ++ ox_pump ++ ox_pump) (ox_src UNACKED false) in
  rev (log_s s) = [EvTransaction 1 0 None; EvEofSent 1 0; EvFinished 1 0 C_NO_ERROR DATA_COMPLETE FS_UNREPORTED None] /\
  src_run None (rev (log_s s)) = Some (Some (1, 0, true)) /\ s_state s = ST_IDLE.
Proof. vm_compute. repeat split; reflexivity. Qed.

(* non-vacuity, receiver: a complete unacknowledged transfer; all four indications, in order, accepted, idle at the end *)
Definition ox_recv_calls : list dcall :=
  [DSm (Some (PMetadata (ox_hd UNACKED) false CK_NULL 5 (Some ([1], [2])) []));
   DSm (Some (PFileData (ox_hd UNACKED) 0 [3; 10; 17; 24]));
   DSm (Some (PFileData (ox_hd UNACKED) 4 [31]));
   DSm (Some (PEof (ox_hd UNACKED) C_NO_ERROR [0; 0; 0; 0] 5 None)); DSm None].
Example dst_order_instance :
  let s0 := dst_init (ox_l 2 (ox_r 1 UNACKED false)) in
  rev (log_d (dfinal ox_recv_calls s0)) =
    [EvMetadataRecv 1 7 1 (Some 5) (Some ([1], [2])) []; EvSegmentRecv 1 7 0 4; EvSegmentRecv 1 7 4 1; EvEofRecv 1 7;
     EvFinished 1 7 C_NO_ERROR DATA_COMPLETE FS_RETAINED None] /\
  (exists s, dhist ox_recv_calls s0 None = Some (s, None)).
Proof. vm_compute. split; [reflexivity | eexists; reflexivity]. Qed.

(* receiver, acknowledged mode: an EOF (cancel) PDU arriving while missing data is awaited (F33 repair) is indicated by
   EOF-Recv in the call that handles it (and acknowledged: step SENDING_EOF_ACK), Transaction-Finished follows in a
   later call; accepted *)
Definition ox_eof_cancel_calls : list dcall :=
  [DSm (Some (PMetadata (ox_hd ACKED) true CK_NULL 5 (Some ([1], [2])) []));
   DSm (Some (PFileData (ox_hd ACKED) 0 [3; 10; 17; 24]));
   DSm (Some (PEof (ox_hd ACKED) C_NO_ERROR [0; 0; 0; 0] 5 None))] ++ ox_gets ++ [DSm None] ++ ox_gets ++
  [DSm (Some (PEof (ox_hd ACKED) C_CANCEL_REQUEST [0; 0; 0; 0] 4 None))] ++ ox_gets ++ [DSm None] ++ ox_gets.
Example dst_eof_cancel_while_waiting_for_data :
  let s0 := dst_init (ox_l 2 (ox_r 1 ACKED true)) in
  let before := dfinal (firstn 10 ox_eof_cancel_calls) s0 in
  let after := dfinal (firstn 11 ox_eof_cancel_calls) s0 in
  d_step before = DS_WAITING_FOR_MISSING_DATA /\
  log_d after = EvEofRecv 1 7 :: log_d before /\ d_step after = DS_SENDING_EOF_ACK /\
  rev (log_d (dfinal ox_eof_cancel_calls s0)) =
    [EvMetadataRecv 1 7 1 (Some 5) (Some ([1], [2])) []; EvSegmentRecv 1 7 0 4; EvEofRecv 1 7; EvEofRecv 1 7;
     EvFinished 1 7 C_CANCEL_REQUEST DATA_INCOMPLETE FS_RETAINED (Some (1, 2))] /\
  (exists s, dhist ox_eof_cancel_calls s0 None = Some (s, Some (1, 7, true, true))).
Proof. vm_compute. repeat split; try reflexivity. eexists; reflexivity. Qed.

(* sender, acknowledged mode, Positive ACK Limit Reached with the fault handler "ignore" (F34 repair): one callback,
   the counter goes on, the EOF PDU is re-sent, so EOF-Sent FOLLOWS the fault callback in that call; a following call
   before the next expiry delivers nothing (the fault is not declared again); accepted *)
Definition ox_ig_l : lcfg :=
  mkLcfg 1 2 true true true true ((C_POS_ACK_LIMIT, FH_IGNORE) :: default_fault_table) 1000 [ox_r 2 ACKED false].
Definition ox_ig_src : src := src_fresh ox_ig_l 0 16 [([1], File [3; 10; 17; 24; 31])].
Definition ox_ig_start : list scall := [SPut ox_put] ++ ox_pump ++ ox_pump ++ ox_pump ++ ox_pump ++ ox_pump.
Definition ox_ig_tick : list scall := [STick 1000] ++ ox_pump.
Example src_eof_sent_after_ignored_fault :
  let before := shist (ox_ig_start ++ ox_ig_tick) ox_ig_src in
  let at_limit := shist (ox_ig_start ++ ox_ig_tick ++ ox_ig_tick) ox_ig_src in
  let later := shist (ox_ig_start ++ ox_ig_tick ++ ox_ig_tick ++ ox_pump) ox_ig_src in
  rev (log_s before) = [EvTransaction 1 0 None; EvEofSent 1 0; EvEofSent 1 0] /\
  log_s at_limit = EvEofSent 1 0 :: EvFault FH_IGNORE 1 0 C_POS_ACK_LIMIT 5 :: log_s before /\
  q_ack_counter (s_p at_limit) = 2 /\ s_step at_limit = SS_WAITING_FOR_EOF_ACK /\
  log_s later = log_s at_limit /\
  src_run None (rev (log_s later)) = Some (Some (1, 0, false)).
Proof. vm_compute. repeat split; reflexivity. Qed.

(* receiver, acknowledged mode: a File Data PDU that overshoots the file size of the EOF arrives while missing data is
   awaited and fills the gap (F35 repair): File-Segment-Recv, the cancel callback of File Size Error, and
   Transaction-Finished with THAT condition (data incomplete), in this order in the one call; accepted *)
Definition ox_overshoot_calls : list dcall :=
  [DSm (Some (PMetadata (ox_hd ACKED) true CK_NULL 5 (Some ([1], [2])) []));
   DSm (Some (PFileData (ox_hd ACKED) 0 [3; 10; 17; 24]));
   DSm (Some (PEof (ox_hd ACKED) C_NO_ERROR [0; 0; 0; 0] 5 None))] ++ ox_gets ++ [DSm None] ++ ox_gets ++
  [DSm (Some (PFileData (ox_hd ACKED) 4 [31; 38; 45; 52]))] ++ ox_gets.
Example dst_cancel_condition_stands :
  let s0 := dst_init (ox_l 2 (ox_r 1 ACKED true)) in
  let before := dfinal (firstn 10 ox_overshoot_calls) s0 in
  let after := dfinal (firstn 11 ox_overshoot_calls) s0 in
  d_step before = DS_WAITING_FOR_MISSING_DATA /\
  log_d after = EvFinished 1 7 C_FILE_SIZE_ERROR DATA_INCOMPLETE FS_RETAINED None ::
                EvFault FH_CANCEL 1 7 C_FILE_SIZE_ERROR 4 :: EvSegmentRecv 1 7 4 4 :: log_d before /\
  (exists s, dhist ox_overshoot_calls s0 None = Some (s, Some (1, 7, true, true))).
Proof. vm_compute. repeat split; try reflexivity. eexists; reflexivity. Qed.

(* ---- what the model does NOT guarantee (statements of the draft that are false; the model follows the code) *)
(* receiver, Transaction-Finished "at most once": a cancel request after the completion (while the Finished PDU is
   sent / its ACK awaited) completes the transaction again, every time *)
Example dst_finished_again_by_cancel :
  let s0 := dst_init (ox_l 2 (ox_r 1 ACKED true)) in
  let md := PMetadata (ox_hd ACKED) true CK_NULL 0 None [] in
  let s := dfinal ([DSm (Some md)] ++ ox_gets ++ [DSm None] ++ ox_gets ++ [DCancel 1 7; DSm None] ++ ox_gets ++
                   [DCancel 1 7; DSm None] ++ ox_gets) s0 in
  rev (log_d s) =
    [EvMetadataRecv 1 7 1 None None []; EvFinished 1 7 C_NO_ERROR DATA_COMPLETE FS_UNREPORTED None;
     EvFinished 1 7 C_CANCEL_REQUEST DATA_COMPLETE FS_UNREPORTED (Some (2, 2));
     EvFinished 1 7 C_CANCEL_REQUEST DATA_COMPLETE FS_UNREPORTED (Some (2, 2))] /\
  d_state s = ST_BUSY /\ d_step s = DS_WAITING_FOR_FINISHED_ACK.
Proof. vm_compute. repeat split; reflexivity. Qed.

(* receiver: the positive ACK limit of the Finished PDU with the fault handler "cancel": fault callback, a second
   Transaction-Finished (condition Positive ACK Limit Reached), then the abandon callback at the next limit *)
Example dst_finished_again_by_ack_limit :
  let s0 := dst_init (ox_l 2 (ox_r 1 ACKED true)) in
  let md := PMetadata (ox_hd ACKED) true CK_NULL 0 None [] in
  let tick := [DTick 1000; DSm None] ++ ox_gets in
  let s := dfinal ([DSm (Some md)] ++ ox_gets ++ [DSm None] ++ ox_gets ++ tick ++ tick ++ tick ++ tick) s0 in
  rev (log_d s) =
    [EvMetadataRecv 1 7 1 None None []; EvFinished 1 7 C_NO_ERROR DATA_COMPLETE FS_UNREPORTED None;
     EvFault FH_CANCEL 1 7 C_POS_ACK_LIMIT 0; EvFinished 1 7 C_POS_ACK_LIMIT DATA_COMPLETE FS_UNREPORTED None;
     EvFault FH_ABANDON 1 7 C_POS_ACK_LIMIT 0] /\
  d_state s = ST_IDLE.
Proof. vm_compute. repeat split; reflexivity. Qed.

(* sender, "nothing of the transaction follows its Transaction-Finished": the fault callback of the fault whose
   handler cancelled the unacknowledged transaction (check limit of the closure) comes after the indication *)
Example src_fault_after_finished :
  let s := shist ([SPut ox_put] ++ ox_pump ++ ox_pump ++ ox_pump ++ ox_pump ++ ox_pump ++ [STick 1000] ++ ox_pump)
                 (ox_src UNACKED true) in
  rev (log_s s) =
    [EvTransaction 1 0 None; EvEofSent 1 0; EvEofSent 1 0;
     EvFinished 1 0 C_CHECK_LIMIT DATA_INCOMPLETE FS_UNREPORTED None; EvFault FH_CANCEL 1 0 C_CHECK_LIMIT 5] /\
  s_state s = ST_IDLE.
Proof. vm_compute. repeat split; reflexivity. Qed.

(* ================================================================== what the sender's automaton says, by transaction ids *)
Definition last_tx (l : list event) : option (Z * Z) :=
  fold_left (fun acc e => match e with EvTransaction a b _ => Some (a, b) | _ => acc end) l None.
Definition is_tx (e : event) : bool := match e with EvTransaction _ _ _ => true | _ => false end.

Definition sph_tid (ph : sphase) : option (Z * Z) := match ph with Some (a, b, _) => Some (a, b) | None => None end.

Lemma src_run_last_tx : forall l ph ph', src_run ph l = Some ph' ->
  sph_tid ph' = fold_left (fun acc e => match e with EvTransaction a b _ => Some (a, b) | _ => acc end) l (sph_tid ph).
Proof.
  induction l as [|e l IH]; intros ph ph' H; cbn [src_run fold_left] in *; [inversion H; reflexivity|].
  destruct (src_step ph e) as [ph1|] eqn:E; [|discriminate H]. rewrite (IH ph1 ph' H). f_equal.
  destruct e; cbn [src_step] in E; try discriminate E.
  - destruct ph as [[[a0 b0] f]|]; [destruct ((src =? a0) && (b0 <? seq)); [|discriminate E]|]; inversion E; reflexivity.
  - destruct ph as [[[a0 b0] [|]]|]; try discriminate E.
    destruct ((src =? a0) && (seq =? b0)); inversion E; reflexivity.
  - destruct ph as [[[a0 b0] [|]]|]; try discriminate E.
    destruct ((src =? a0) && (seq =? b0)); inversion E; reflexivity.
  - destruct ph as [[[a0 b0] f]|]; try discriminate E.
    destruct ((src =? a0) && (seq =? b0)); inversion E; reflexivity.
Qed.

Lemma src_step_tid : forall ph e ph', src_step ph e = Some ph' -> is_tx e = false -> sph_tid ph = Some (ev_tid e).
Proof.
  intros ph e ph' E T. destruct e; cbn [src_step is_tx] in *; try discriminate.
  - destruct ph as [[[a0 b0] [|]]|]; try discriminate E.
    destruct ((src =? a0) && (seq =? b0)) eqn:C; [|discriminate E]. apply andb_true_iff in C. destruct C as [C1 C2].
    apply Z.eqb_eq in C1, C2. subst. reflexivity.
  - destruct ph as [[[a0 b0] [|]]|]; try discriminate E.
    destruct ((src =? a0) && (seq =? b0)) eqn:C; [|discriminate E]. apply andb_true_iff in C. destruct C as [C1 C2].
    apply Z.eqb_eq in C1, C2. subst. reflexivity.
  - destruct ph as [[[a0 b0] f]|]; try discriminate E.
    destruct ((src =? a0) && (seq =? b0)) eqn:C; [|discriminate E]. apply andb_true_iff in C. destruct C as [C1 C2].
    apply Z.eqb_eq in C1, C2. subst. reflexivity.
Qed.

Lemma src_run_split : forall l1 e l2 ph, src_run ph (l1 ++ e :: l2) <> None ->
  exists ph1 ph2, src_run ph l1 = Some ph1 /\ src_step ph1 e = Some ph2 /\ src_run ph2 l2 <> None.
Proof.
  intros l1 e l2 ph H. rewrite src_run_app in H. destruct (src_run ph l1) as [ph1|] eqn:E1; [|contradiction].
  cbn [src_run] in H. destruct (src_step ph1 e) as [ph2|] eqn:E2; [|contradiction].
  exists ph1, ph2. split; [reflexivity | split; [exact E2 | exact H]].
Qed.

(* (1) every EOF-Sent / Transaction-Finished / fault callback refers to the latest Transaction before it *)
Lemma src_refers_to_latest : forall l l1 e l2,
  src_order_ok l -> l = l1 ++ e :: l2 -> is_tx e = false -> last_tx l1 = Some (ev_tid e).
Proof.
  intros l l1 e l2 H -> T. destruct (src_run_split l1 e l2 None H) as [ph1 [ph2 [R1 [S1 _]]]].
  unfold last_tx. pose proof (src_run_last_tx l1 None ph1 R1) as X. cbn [sph_tid] in X. rewrite <- X.
  exact (src_step_tid ph1 e ph2 S1 T).
Qed.

(* (2) after the Transaction-Finished of a transaction only fault callbacks carry its id *)
Lemma src_after_finished : forall l l1 a b c d f fl l2,
  src_order_ok l -> l = l1 ++ EvFinished a b c d f fl :: l2 ->
  Forall (fun e => ev_tid e = (a, b) -> is_fault e = true) l2.
Proof.
  intros l l1 a b c d f fl l2 H ->.
  destruct (src_run_split l1 _ l2 None H) as [ph1 [ph2 [_ [S1 R2]]]].
  assert (P2 : ph2 = Some (a, b, true) \/ exists a' b' f', ph2 = Some (a', b', f') /\ b < b').
  { cbn [src_step] in S1. destruct ph1 as [[[a0 b0] [|]]|]; try discriminate S1.
    destruct ((a =? a0) && (b =? b0)) eqn:C; [|discriminate S1]. apply andb_true_iff in C. destruct C as [C1 C2].
    apply Z.eqb_eq in C1, C2. subst. inversion S1. left. reflexivity. }
  clear S1 H. revert ph2 P2 R2. induction l2 as [|e l2 IH]; intros ph P R; [constructor|].
  cbn [src_run] in R. destruct (src_step ph e) as [ph'|] eqn:E; [|contradiction].
  assert (Step : (ev_tid e = (a, b) -> is_fault e = true) /\
                 (ph' = Some (a, b, true) \/ exists a' b' f', ph' = Some (a', b', f') /\ b < b')).
  { destruct P as [P|[a' [b' [f' [P Lt]]]]]; subst ph.
    - destruct e; cbn [src_step] in E; try discriminate E.
      + destruct ((src =? a) && (b <? seq)) eqn:C; [|discriminate E]. apply andb_true_iff in C. destruct C as [C1 C2].
        apply Z.ltb_lt in C2. inversion E. split; [cbn; intro X; inversion X; lia|].
        right. exists src, seq, false. split; [reflexivity | exact C2].
      + destruct ((src =? a) && (seq =? b)); inversion E. split; [intros _; reflexivity | left; reflexivity].
    - destruct e; cbn [src_step] in E; try discriminate E.
      + destruct ((src =? a') && (b' <? seq)) eqn:C; [|discriminate E]. apply andb_true_iff in C. destruct C as [C1 C2].
        apply Z.ltb_lt in C2. inversion E. split; [cbn; intro X; inversion X; lia|].
        right. exists src, seq, false. split; [reflexivity | lia].
      + destruct f'; [discriminate E|]. destruct ((src =? a') && (seq =? b')) eqn:C; [|discriminate E].
        apply andb_true_iff in C. destruct C as [C1 C2]. apply Z.eqb_eq in C2. inversion E.
        split; [cbn; intro X; inversion X; lia | right; exists a', b', false; split; [reflexivity | exact Lt]].
      + destruct f'; [discriminate E|]. destruct ((src =? a') && (seq =? b')) eqn:C; [|discriminate E].
        apply andb_true_iff in C. destruct C as [C1 C2]. apply Z.eqb_eq in C2. inversion E.
        split; [cbn; intro X; inversion X; lia | right; exists a', b', true; split; [reflexivity | exact Lt]].
      + destruct ((src =? a') && (seq =? b')); inversion E.
        split; [intros _; reflexivity | right; exists a', b', f'; split; [reflexivity | exact Lt]]. }
  destruct Step as [S1 S2]. constructor; [exact S1 | exact (IH ph' S2 R)].
Qed.

(* (3) transactions are numbered in strictly increasing order, by the same entity *)
Lemma src_transactions_increase : forall l l1 a b o l2 a' b' o' l3,
  src_order_ok l -> l = l1 ++ EvTransaction a b o :: l2 ++ EvTransaction a' b' o' :: l3 -> a' = a /\ b < b'.
Proof.
  intros l l1 a b o l2 a' b' o' l3 H ->.
  destruct (src_run_split l1 _ _ None H) as [ph1 [ph2 [_ [S1 R2]]]].
  assert (P2 : exists b0 f0, ph2 = Some (a, b0, f0) /\ b <= b0).
  { cbn [src_step] in S1. destruct ph1 as [[[a0 b0] f0]|].
    - destruct ((a =? a0) && (b0 <? b)); inversion S1. exists b, false. split; [reflexivity | lia].
    - inversion S1. exists b, false. split; [reflexivity | lia]. }
  clear S1 H. revert ph2 P2 R2. induction l2 as [|e l2 IH]; intros ph [b0 [f0 [P Le]]] R; subst ph.
  - cbn [app src_run src_step] in R. destruct ((a' =? a) && (b0 <? b')) eqn:C; [|contradiction].
    apply andb_true_iff in C. destruct C as [C1 C2]. apply Z.eqb_eq in C1. apply Z.ltb_lt in C2. split; [exact C1 | lia].
  - cbn [app src_run] in R. destruct (src_step (Some (a, b0, f0)) e) as [ph'|] eqn:E; [|contradiction].
    apply (IH ph'); [|exact R].
    destruct e; cbn [src_step] in E; try discriminate E.
    + destruct ((src =? a) && (b0 <? seq)) eqn:C; [|discriminate E]. apply andb_true_iff in C. destruct C as [C1 C2].
      apply Z.eqb_eq in C1. apply Z.ltb_lt in C2. inversion E. subst. exists seq, false. split; [reflexivity | lia].
    + destruct f0; [discriminate E|]. destruct ((src =? a) && (seq =? b0)); inversion E. exists b0, false. split; [reflexivity | exact Le].
    + destruct f0; [discriminate E|]. destruct ((src =? a) && (seq =? b0)); inversion E. exists b0, true. split; [reflexivity | exact Le].
    + destruct ((src =? a) && (seq =? b0)); inversion E. exists b0, f0. split; [reflexivity | exact Le].
Qed.
