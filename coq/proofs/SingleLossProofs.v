(* SingleLossProofs.v — proof for the unbounded instance K = 1 of property C03 (props/C03u.v): in acknowledged mode
   the two-entity system of System.v recovers from the loss of any ONE File Data PDU, for every file, every position
   of the lost PDU and every configuration, in immediate and in deferred NAK mode.  Built on PerfectLinkProofs.v
   (symbolic interpreter of the receiver monad) and PerfectLinkAckedProofs.v (sender invariant, fault-free rounds):
     1. the sender's calls around a retransmission (NAK while sending, while waiting for ACK(EOF) / Finished),
     2. the receiver with a gap on record: gap detection, immediate NAK, deferred lost-segment procedure, completion,
     3. the scheduler of System.v with a fault schedule: whole rounds as lemmas about the two handler calls,
     4. the destination file while a tile is missing (zero fill, later overwritten),
     5. the runs: before the loss, the loss, then four ways to recover
          (C)   the lost tile is the last one: the EOF PDU reveals the gap, deferred procedure (both NAK modes),
          (D)   deferred mode, a later tile reveals the gap: requested after ACK(EOF),
          (I-a) immediate mode, more File Data follows: retransmission between two tiles, then a perfect-link run,
          (I-b) immediate mode, the revealing tile is the last: EOF PDU and retransmitted tile in one call, the
                deferred procedure requests the tile once more, the duplicate is ignored,
     6. the theorem, and the counterexample that made the hypothesis on the receiver's maximum packet length necessary.
   The clock never advances: every round has activity.  No axioms. *)
From CFDP Require Import Base LostSeg Fs Crc Checksum Handler Dest Source HandlerSpec SourceSpec System.
From CFDP.gen Require Import Tables.
From CFDP.proofs Require Import ChecksumProofs FsProofs StreamProofs RetransmitProofs PerfectLinkProofs PerfectLinkAckedProofs.
From RecordUpdate Require Import RecordSet.
Import RecordSetNotations.

(* arithmetic stays folded unless both arguments are literals *)
Local Arguments Z.add : simpl never. Local Arguments Z.sub : simpl never. Local Arguments Z.mul : simpl never.
Local Arguments Z.pow : simpl never. Local Arguments Z.div : simpl never. Local Arguments Z.min : simpl never.
Local Arguments Z.max : simpl never. Local Arguments Z.to_nat : simpl never.
Local Arguments Z.ltb !x !y : simpl nomatch. Local Arguments Z.leb !x !y : simpl nomatch.
Local Arguments Z.eqb !x !y : simpl nomatch. Local Arguments Z.of_nat !n : simpl nomatch.
Local Arguments write_at : simpl never.
Local Arguments set_node : simpl never.
Local Opaque calculate_checksum.

(* ================================================================== *)
(* 1. the sender around a retransmission                               *)
(* ================================================================== *)
Section SenderX.
Local Arguments max_file_seg_len : simpl never.
Local Arguments lookup : simpl never.
Local Opaque handle_retransmission.

Variables (c : lcfg) (p : putreq) (r : rcfg) (fs : tree) (d cks : bytes) (cf : sconf)
          (seg : Z) (clo : bool) (tid : Z * Z) (sn dn : path).
Hypothesis Hnames : pr_names p = Some (sn, dn).
Hypothesis Hlook : lookup fs sn = Some (File d).
Hypothesis Hsn : sn <> [].
Hypothesis Hseg : 1 <= seg.
Hypothesis Hm : sc_mode cf = ACKED.
Hypothesis Hck : calculate_checksum (r_cktype r) (Some d) (zlen d) seg = Ok cks.
Hypothesis Hfin : l_ind_fin c = true.
Hypothesis Hack : 0 < r_ack_ms r.
Hypothesis Hsrc : sc_src cf = l_id c.
Hypothesis Hdst : sc_dst cf = r_id r.

Definition tileAt (a : Z) : pdu := PFileData (hdr_of cf TOWARDS_RECEIVER) a (ztake seg (zdrop a d)).

(* the range of one tile is retransmitted as that tile *)
Lemma range_one : forall a b, 0 <= a -> a < zlen d -> b = a + Z.min seg (zlen d - a) ->
  range_tiles d a b seg = [(a, ztake seg (zdrop a d))].
Proof.
  intros a b Ha Hlt ->. unfold range_tiles.
  replace (a + Z.min seg (zlen d - a) - a) with (Z.min seg (zlen d - a)) by lia.
  rewrite ztake_min by lia.
  set (l := ztake seg (zdrop a d)).
  assert (Hl : zlen l = Z.min seg (zlen d - a)) by (apply tile_len; lia).
  assert (Hne : l <> []). { intro E. rewrite E in Hl. change (zlen (@nil Z)) with 0 in Hl. lia. }
  destruct (Z.to_nat (Z.min seg (zlen d - a))) as [|n] eqn:En; [lia|].
  rewrite tiles_from_cons by exact Hne.
  assert (Hd : zdrop seg l = []) by (apply zdrop_all; lia).
  rewrite Hd, tiles_from_nil. f_equal. f_equal.
  unfold ztake. apply firstn_all2. unfold zlen in Hl. lia.
Qed.

Definition nakP (sos eos a b : Z) : pdu := PNak (hdr_of cf TOWARDS_SENDER) sos eos [(a, b)].

(* retransmitting in the middle of the stream: [off] bytes sent so far, File Data is resumed by the next call *)
Definition InvR (off : Z) (s : src) : Prop :=
  InvA c p r fs d cf seg clo tid off (s <| s_step := SS_SENDING_FILE_DATA |>) /\
  s_step s = SS_RETRANSMITTING /\ s_step_before s = Some SS_SENDING_FILE_DATA.

Ltac retx :=
  match goal with |- context[handle_retransmission (Some (PNak ?h ?sos ?eos ?reqs)) ?st] =>
    rewrite (retransmission st p sn dn d h sos eos reqs);
    [ | reflexivity | exact Hnames | exact Hlook | exact Hsn | cbn; lia | exact Hseg
      | constructor; [cbn; lia | constructor] ]
  end.

Lemma step_nak_mid : forall off s sos eos a b, InvA c p r fs d cf seg clo tid off s -> off < zlen d ->
  0 <= a -> b = a + Z.min seg (zlen d - a) -> b <= off ->
  exists s', pump_with (Some (nakP sos eos a b)) s = (s', Ok [tileAt a]) /\ InvR off s'.
Proof.
  intros off s sos eos a b [HI [Hcl [Hqf Hct]]] Hlt Ha Hb Hbo.
  destruct HI as (H1&H2&H3&H4&H5&H6&H7&H8&H9&H10&H11&H12&H13&H14&H15&H16&H17).
  destruct s as [cfg st step ready queue q sb pt sc sbits [nw fs' rw lg]].
  destruct q. cbn in H1,H2,H3,H4,H5,H6,H7,H8,H9,H10,H11,H12,H13,H14,H15,Hcl,Hqf,Hct. subst.
  assert (Hal : a < zlen d) by lia.
  assert (Hstep : step = SS_SENDING_FILE_DATA) by (destruct H15 as [[_ ?]|?]; [lia|assumption]).
  subst step.
  unfold pump_with, state_machine_s, check_inserted_packet_s, nakP.
  assert (E2 : (off =? zlen d) = false) by (apply Z.eqb_neq; lia).
  repeat (progress (sx; rewrite ?Hm, ?Hsrc, ?Hdst, ?zeqb_refl, ?E2;
                    unfold fsm_non_idle, fsm_advancement_s, sending_file_data_fsm)).
  retx. cbn [flat_map map app fst snd]; projs. rewrite (range_one a _ Ha Hal eq_refl).
  repeat (progress (sx; unfold enqueue)).
  eexists. split; [reflexivity|].
  unfold InvR, InvA, Inv. cbn. repeat split; try reflexivity; try lia; try assumption; apply Hcl.
Qed.

(* the call after the retransmission: the stream is resumed with the next tile *)
Lemma step_resume : forall off s, InvR off s -> off < zlen d ->
  exists s', pump s = (s', Ok [tileAt off]) /\ InvA c p r fs d cf seg clo tid (off + Z.min seg (zlen d - off)) s'.
Proof.
  intros off s [[HI [Hcl [Hqf Hct]]] [Hst Hsb]] Hlt.
  destruct HI as (H1&H2&H3&H4&H5&H6&H7&H8&H9&H10&H11&H12&H13&H14&H15&H16&H17).
  destruct s as [cfg st step ready queue q sb pt sc sbits [nw fs' rw lg]].
  destruct q. cbn in H1,H2,H3,H4,H5,H6,H7,H8,H9,H10,H11,H12,H13,H14,H15,Hcl,Hqf,Hct,Hst,Hsb. subst.
  unfold pump, pump_with, state_machine_s, tileAt.
  assert (E1 : (off <? zlen d) = true) by (apply Z.ltb_lt; lia).
  assert (E2 : (off =? zlen d) = false) by (apply Z.eqb_neq; lia).
  assert (E3 : (zlen d =? 0) = false) by (apply Z.eqb_neq; lia).
  repeat (progress (sx; rewrite ?Hnames, ?Hlook, ?Hm, ?E1, ?E2, ?E3;
                    try rewrite not_nak by exact I;
                    unfold fsm_non_idle, fsm_advancement_s, sending_file_data_fsm,
                      prepare_progressing_file_data_pdu, prepare_file_data_pdu, fs_read_data)).
  rewrite (read_len_eq (zlen d) seg off) by lia. rewrite ztake_min by lia.
  eexists; split; [reflexivity|].
  split; [|split; [exact Hcl | split; reflexivity]].
  unfold Inv; cbn; repeat split; try reflexivity; try lia; try (right; reflexivity).
Qed.

Local Opaque checksum_calculation.

(* the handler after the EOF PDU, with what a retransmission needs: filestore, progress, segment length *)
Definition TailX (step : Z) (sb : option Z) (qf : option (Z * Z * Z * option (Z * Z))) (s : src) : Prop :=
  s_cfg s = c /\ s_state s = ST_BUSY /\ s_step s = step /\ s_queue s = [] /\ s_put s = Some p /\
  q_conf (s_p s) = cf /\ q_rcfg (s_p s) = Some r /\ q_tid (s_p s) = Some tid /\ q_check_timer (s_p s) = None /\
  q_fin (s_p s) = qf /\ e_fs (s_env s) = fs /\ q_progress (s_p s) = zlen d /\ q_segment_len (s_p s) = seg /\
  s_step_before s = sb /\ clean (e_log (s_env s)).

Lemma TailX_Tail : forall step sb qf s, TailX step sb qf s -> Tail c p r cf tid step qf s.
Proof. intros step sb qf s (H1&H2&H3&H4&H5&H6&H7&H8&H9&H10&H11&H12&H13&H14&H15). unfold Tail. tauto. Qed.
Lemma TailX_busy : forall step sb qf s, TailX step sb qf s -> s_state s = ST_BUSY.
Proof. intros step sb qf s (_&H&_). exact H. Qed.

Ltac unf_final :=
  unfold fsm_non_idle, fsm_advancement_s, sending_file_data_fsm,
    prepare_eof_pdu, handle_eof_sent, start_positive_ack_procedure_s, handle_waiting_for_ack,
    handle_positive_ack_procedures_s, handle_wait_for_finish, notice_of_completion_s, sreset_internal.

Definition eofP : pdu := PEof (hdr_of cf TOWARDS_RECEIVER) C_NO_ERROR cks (zlen d) None.

(* the call after the last tile *)
Lemma step_final_x : forall s, InvA c p r fs d cf seg clo tid (zlen d) s ->
  exists s' sb, pump s = (s', Ok [eofP]) /\ TailX SS_WAITING_FOR_EOF_ACK sb None s'.
Proof.
  intros s [HI [Hcl [Hqf Hct]]].
  destruct HI as (H1&H2&H3&H4&H5&H6&H7&H8&H9&H10&H11&H12&H13&H14&H15&H16&H17).
  destruct s as [cfg st step ready queue q sb pt sc sbits [nw fs' rw lg]].
  destruct q. cbn in H1,H2,H3,H4,H5,H6,H7,H8,H9,H10,H11,H12,H13,H14,H15,Hcl,Hqf,Hct. subst.
  unfold pump, pump_with, state_machine_s, eofP.
  assert (E1 : (zlen d <? zlen d) = false) by (apply Z.ltb_irrefl).
  assert (E4 : zlen d = 0 -> (zlen d =? 0) = true) by (intro Hz; apply Z.eqb_eq; exact Hz).
  assert (E5 : (r_ack_ms r <=? 0) = false) by (apply Z.leb_gt; exact Hack).
  destruct (l_ind_eof_sent c) eqn:Ee;
  (destruct H15 as [[Hs Hz]|Hs]; subst step; [pose proof (E4 Hz) as E7 | pose proof E1 as E7]);
  repeat (progress (sx; rewrite ?Hnames, ?Hlook, ?Hm, ?Ee, ?Hfin, ?zsub_diag, ?zeqb_refl, ?E1, ?E7, ?E5;
                    try rewrite not_nak by exact I;
                    rewrite ?(cc_ok p r fs d cks seg sn dn Hnames Hlook Hck) by reflexivity; unf_final));
  (eexists; eexists; split; [reflexivity|]); unfold TailX; cbn;
  repeat (split; [reflexivity|]);
  repeat (apply clean_cons; [reflexivity|reflexivity|]); exact Hcl.
Qed.

Lemma step_ack_eof_x : forall s sb cond st, TailX SS_WAITING_FOR_EOF_ACK sb None s ->
  exists s', pump_with (Some (PAck (hdr_of cf TOWARDS_SENDER) D_EOF cond st)) s = (s', Ok []) /\
             TailX SS_WAITING_FOR_FINISHED sb None s'.
Proof.
  intros s sb0 cond st0 (H1&H2&H3&H4&H5&H6&H7&H8&H9&H10&H11&H12&H13&H14&H15).
  destruct s as [cfg st step ready queue q sb pt sc sbits [nw fs' rw lg]].
  destruct q. cbn in H1,H2,H3,H4,H5,H6,H7,H8,H9,H10,H11,H12,H13,H14,H15. subst.
  unfold pump_with, state_machine_s, check_inserted_packet_s.
  repeat (progress (sx; rewrite ?Hm, ?Hsrc, ?Hdst, ?zeqb_refl; try rewrite not_nak by exact I; unf_final)).
  eexists; split; [reflexivity|]. unfold TailX; cbn.
  repeat (split; [reflexivity|]). exact H15.
Qed.

(* a NAK while waiting for the Finished PDU: the requested tile is sent again *)
Lemma step_nak_fin : forall s sb sos eos a b, TailX SS_WAITING_FOR_FINISHED sb None s ->
  0 <= a -> a < zlen d -> b = a + Z.min seg (zlen d - a) ->
  exists s', pump_with (Some (nakP sos eos a b)) s = (s', Ok [tileAt a]) /\
             TailX SS_RETRANSMITTING (Some SS_WAITING_FOR_FINISHED) None s'.
Proof.
  intros s sb0 sos eos a b (H1&H2&H3&H4&H5&H6&H7&H8&H9&H10&H11&H12&H13&H14&H15) Ha Hal Hb.
  destruct s as [cfg st step ready queue q sb pt sc sbits [nw fs' rw lg]].
  destruct q. cbn in H1,H2,H3,H4,H5,H6,H7,H8,H9,H10,H11,H12,H13,H14,H15. subst.
  unfold pump_with, state_machine_s, check_inserted_packet_s, nakP.
  repeat (progress (sx; rewrite ?Hm, ?Hsrc, ?Hdst, ?zeqb_refl; unf_final)).
  retx. cbn [flat_map map app fst snd]; projs. rewrite (range_one a _ Ha Hal eq_refl).
  repeat (progress (sx; unfold enqueue)).
  eexists; split; [reflexivity|]. unfold TailX; cbn.
  repeat (split; [reflexivity|]). exact H15.
Qed.

(* the Finished PDU arrives while the step is still RETRANSMITTING: the step is restored, the PDU acknowledged *)
Lemma step_fin_retx : forall s fstat, TailX SS_RETRANSMITTING (Some SS_WAITING_FOR_FINISHED) None s ->
  exists s', pump_with (Some (PFinished (hdr_of cf TOWARDS_SENDER) C_NO_ERROR DATA_COMPLETE fstat None)) s =
               (s', Ok [PAck (hdr_of cf TOWARDS_RECEIVER) D_FINISHED C_NO_ERROR TS_ACTIVE]) /\
             Tail c p r cf tid SS_SENDING_ACK_OF_FINISHED (Some (C_NO_ERROR, DATA_COMPLETE, fstat, None)) s'.
Proof.
  intros s fstat (H1&H2&H3&H4&H5&H6&H7&H8&H9&H10&H11&H12&H13&H14&H15).
  destruct s as [cfg st step ready queue q sb pt sc sbits [nw fs' rw lg]].
  destruct q. cbn in H1,H2,H3,H4,H5,H6,H7,H8,H9,H10,H11,H12,H13,H14,H15. subst.
  unfold pump_with, state_machine_s, check_inserted_packet_s.
  repeat (progress (sx; rewrite ?Hm, ?Hsrc, ?Hdst, ?zeqb_refl; try rewrite not_nak by exact I; unf_final)).
  eexists; split; [reflexivity|]. unfold Tail; cbn.
  repeat (split; [reflexivity|]). exact H15.
Qed.

(* a NAK arrives when the last tile has just been sent: the same call sends the EOF PDU and the requested tile *)
Lemma step_nak_eof : forall s sos eos a b, InvA c p r fs d cf seg clo tid (zlen d) s -> s_step s = SS_SENDING_FILE_DATA ->
  0 <= a -> a < zlen d -> b = a + Z.min seg (zlen d - a) ->
  exists s', pump_with (Some (nakP sos eos a b)) s = (s', Ok [eofP; tileAt a]) /\
             TailX SS_RETRANSMITTING (Some SS_WAITING_FOR_EOF_ACK) None s'.
Proof.
  intros s sos eos a b [HI [Hcl [Hqf Hct]]] Hst Ha Hal Hb.
  destruct HI as (H1&H2&H3&H4&H5&H6&H7&H8&H9&H10&H11&H12&H13&H14&H15&H16&H17).
  destruct s as [cfg st step ready queue q sb pt sc sbits [nw fs' rw lg]].
  destruct q. cbn in H1,H2,H3,H4,H5,H6,H7,H8,H9,H10,H11,H12,H13,H14,H15,Hcl,Hqf,Hct,Hst. subst.
  unfold pump_with, state_machine_s, check_inserted_packet_s, nakP, eofP.
  assert (E1 : (zlen d <? zlen d) = false) by (apply Z.ltb_irrefl).
  destruct (l_ind_eof_sent c) eqn:Ee;
  repeat (progress (sx; rewrite ?Hnames, ?Hlook, ?Hm, ?Hsrc, ?Hdst, ?Ee, ?Hfin, ?zsub_diag, ?zeqb_refl, ?E1;
                    rewrite ?(cc_ok p r fs d cks seg sn dn Hnames Hlook Hck) by reflexivity; unf_final));
  (retx; cbn [flat_map map app fst snd]; projs; rewrite (range_one a _ Ha Hal eq_refl);
   repeat (progress (sx; unfold enqueue));
   eexists; split; [reflexivity|]; unfold TailX; cbn;
   repeat (split; [reflexivity|]);
   repeat (apply clean_cons; [reflexivity|reflexivity|]); exact Hcl).
Qed.

(* ACK(EOF) arrives while the step is still RETRANSMITTING *)
Lemma step_ack_retx : forall s cond st, TailX SS_RETRANSMITTING (Some SS_WAITING_FOR_EOF_ACK) None s ->
  exists s', pump_with (Some (PAck (hdr_of cf TOWARDS_SENDER) D_EOF cond st)) s = (s', Ok []) /\
             TailX SS_WAITING_FOR_FINISHED (Some SS_WAITING_FOR_EOF_ACK) None s'.
Proof.
  intros s cond st0 (H1&H2&H3&H4&H5&H6&H7&H8&H9&H10&H11&H12&H13&H14&H15).
  destruct s as [cfg st step ready queue q sb pt sc sbits [nw fs' rw lg]].
  destruct q. cbn in H1,H2,H3,H4,H5,H6,H7,H8,H9,H10,H11,H12,H13,H14,H15. subst.
  unfold pump_with, state_machine_s, check_inserted_packet_s.
  repeat (progress (sx; rewrite ?Hm, ?Hsrc, ?Hdst, ?zeqb_refl; try rewrite not_nak by exact I; unf_final)).
  eexists; split; [reflexivity|]. unfold TailX; cbn.
  repeat (split; [reflexivity|]). exact H15.
Qed.
End SenderX.

(* ================================================================== *)
(* 2. the receiver with a lost segment: symbolic execution             *)
(* ================================================================== *)
Lemma remove_one : forall a b, a < b -> LostSeg.remove (a, b) [(a, b)] = Ok ([], true).
Proof.
  intros a b H. unfold LostSeg.remove. cbn [fst snd LostSeg.get].
  replace (b - a =? 0) with false by (symmetry; apply Z.eqb_neq; lia).
  rewrite !Z.eqb_refl, Z.ltb_irrefl. cbn [pop]. rewrite Z.eqb_refl. reflexivity.
Qed.

Section ReceiverX.
Variables (cd : lcfg) (rd : rcfg) (x : Z) (crc large clo : bool) (srcid idw seq seqw ckt fsz : Z).
Hypothesis Hrem : get_remote (l_remotes cd) srcid = Some rd.
Hypothesis Hfin : l_ind_fin cd = true.
Hypothesis Hack : 0 < r_ack_ms rd.
Hypothesis Hnak : 0 < r_nak_ms rd.
Variable maxn : Z.
Hypothesis Hmax : max_seg_reqs (r_max_packet rd) (hB cd crc large srcid idw seq seqw) = Some maxn.

Notation hA' := (hA cd crc large srcid idw seq seqw).
Notation hB' := (hB cd crc large srcid idw seq seqw).

(* the receiver's parameter block: progress, EOF checksum and size, tracker, last segment, deferred procedure
   active, its timer, the Positive-ACK timer *)
Definition dpX (f : fin) (prog : Z) (ck : bytes) (eof : option Z) (tr : tracker) (ls le : Z) (dfr : bool)
           (pt atm : option timer) : dparams :=
  mkDP (Some (srcid, seq)) (Some rd) None 0 clo ckt f DISP_COMPLETED hB' prog ck (Some fsz) [x] eof false tr false ls le
       dfr pt 0 atm 0.
Definition dX (step ready : Z) (q : list pdu) (pa : dparams) (fs : tree) (lg : list event) : dst :=
  mkDst cd ST_BUSY step (Some (srcid, seq)) ready q pa (mkEnv 0 fs false lg).

(* receiving file data *)
Definition DR (prog : Z) (tr : tracker) (ls le : Z) (fs : tree) (lg : list event) : dst :=
  dX DS_RECEIVING_FILE_DATA 0 [] (dpX fin0 prog [] None tr ls le false None None) fs lg.

Lemma DR_DA : forall off ls le fs lg, DA cd rd x crc large clo srcid idw seq seqw ckt fsz off ls le fs lg = DR off [] ls le fs lg.
Proof. reflexivity. Qed.

Lemma sm_busy : forall pd s, d_cfg s = cd -> d_state s = ST_BUSY -> pdu_hdr pd = hA' ->
  h_mode (p_conf (d_p s)) = ACKED -> packet_destination pd = Some 1 ->
  Dest.state_machine (Some pd) s = catch_abandoned (non_idle_fsm 3 (Some pd)) s.
Proof.
  intros pd s H1 H2 H3 H4 H5. unfold Dest.state_machine.
  assert (C : check_inserted_packet pd s = (s, Ok tt)).
  { apply (check_a cd rd crc large srcid idw seq seqw Hrem); [exact H1|exact H3|right; repeat split; assumption]. }
  rewrite (b_ok _ _ _ _ _ C). unfold catch_abandoned, catch, get, bind, ret, when. rewrite H2.
  change (ST_BUSY =? ST_IDLE) with false. cbv beta iota. rewrite H2. reflexivity.
Qed.

Ltac unfX := unfold DR, dX, dpX, hB, fin0, fin1.

Lemma sm_none_recv : forall prog tr ls le fs lg,
  Dest.state_machine None (DR prog tr ls le fs lg) = (DR prog tr ls le fs lg, Ok tt).
Proof.
  intros. rewrite dsm_busy_none by reflexivity.
  unfold catch_abandoned; apply catch_ok. cbn [non_idle_fsm].
  unfX. unfold fsm_advancement at 1. mrun. reflexivity.
Qed.

(* the tile after the lost one: the gap is recorded; immediate NAK mode requests it at once *)
Definition nakI (a b e : Z) : pdu := PNak hB' 0 e [(a, b)].

(* the loop of lost_segment_handling over a tracker with the one range [a, e) that the received data covers exactly *)
Ltac rc_one a e :=
  let E := fresh "Erc" in
  assert (E : (a <? e) = true) by (apply Z.ltb_lt; lia);
  cbn [fold_left]; mrun; unfold remove_covered; cbn [fst snd]; rewrite E, Z.max_id, Z.min_id; cbn [andb]; mrun;
  rewrite remove_one by lia; mrun; clear E.
Ltac wr Hl := unfold vfs_write; mrun; cbn [e_fs]; unfold fs_write_data; rewrite Hl; cbv iota; mrun.
Ltac evlog := (destruct (l_ind_seg cd); mrun; apply catch_ok; mrun; unfold lost_segment_handling; mrun).

Lemma hfd_gap_imm : forall a b ls data fs lg old, lookup fs [x] = Some (File old) -> 0 < zlen data -> a < b ->
  r_imm_nak rd = true ->
  handle_fd_pdu b data (DR a [] ls a fs lg) =
    (dX DS_RECEIVING_FILE_DATA 1 [nakI a b (b + zlen data)]
        (dpX fin0 (Z.max (b + zlen data) a) [] None [(a, b)] b (b + zlen data) false None None)
        (set_node fs [x] (File (write_at old b data)))
        (if l_ind_seg cd then EvSegmentRecv srcid seq b (zlen data) :: lg else lg), Ok tt).
Proof.
  intros a b ls data fs lg old Hl Hpos Hab Himm.
  assert (E1 : (a <? b) = true) by (apply Z.ltb_lt; lia).
  assert (E2 : (a <=? b) = true) by (apply Z.leb_le; lia).
  assert (E3 : (b + zlen data <=? b) = false) by (apply Z.leb_gt; lia).
  unfold handle_fd_pdu. unfX. mrun.
  evlog;
    rewrite E1; mrun; unfold tracker_add, rcfg_or_assert; mrun; rewrite Himm; mrun; unfold conf, add_packet; mrun;
    rewrite E2; mrun; rewrite E3; mrun; wr Hl; reflexivity.
Qed.

Lemma hfd_gap_def : forall a b ls data fs lg old, lookup fs [x] = Some (File old) -> 0 < zlen data -> a < b ->
  r_imm_nak rd = false ->
  handle_fd_pdu b data (DR a [] ls a fs lg) =
    (DR (Z.max (b + zlen data) a) [(a, b)] b (b + zlen data)
        (set_node fs [x] (File (write_at old b data)))
        (if l_ind_seg cd then EvSegmentRecv srcid seq b (zlen data) :: lg else lg), Ok tt).
Proof.
  intros a b ls data fs lg old Hl Hpos Hab Himm.
  assert (E1 : (a <? b) = true) by (apply Z.ltb_lt; lia).
  assert (E2 : (a <=? b) = true) by (apply Z.leb_le; lia).
  assert (E3 : (b + zlen data <=? b) = false) by (apply Z.leb_gt; lia).
  unfold handle_fd_pdu. unfX. mrun.
  evlog;
    rewrite E1; mrun; unfold tracker_add, rcfg_or_assert; mrun; rewrite Himm; mrun;
    rewrite E2; mrun; rewrite E3; mrun; wr Hl; reflexivity.
Qed.

(* in-order File Data while a gap is on record *)
Lemma hfd_inorder : forall off tr ls data fs lg old, lookup fs [x] = Some (File old) -> 0 < zlen data ->
  handle_fd_pdu off data (DR off tr ls off fs lg) =
    (DR (Z.max (off + zlen data) off) tr off (off + zlen data)
        (set_node fs [x] (File (write_at old off data)))
        (if l_ind_seg cd then EvSegmentRecv srcid seq off (zlen data) :: lg else lg), Ok tt).
Proof.
  intros off tr ls data fs lg old Hl Hpos.
  assert (E1 : (off + zlen data <=? off) = false) by (apply Z.leb_gt; lia).
  unfold handle_fd_pdu. unfX. mrun.
  evlog; rewrite Z.ltb_irrefl; mrun; rewrite Z.leb_refl; mrun; rewrite E1; mrun; wr Hl; reflexivity.
Qed.

(* the retransmitted tile while File Data is still being received: the gap is closed *)
Lemma hfd_fill_recv : forall a prog data fs lg old, lookup fs [x] = Some (File old) -> 0 < zlen data ->
  a + zlen data <= prog ->
  handle_fd_pdu a data (DR prog [(a, a + zlen data)] (a + zlen data) prog fs lg) =
    (DR (Z.max (a + zlen data) prog) [] (a + zlen data) prog
        (set_node fs [x] (File (write_at old a data)))
        (if l_ind_seg cd then EvSegmentRecv srcid seq a (zlen data) :: lg else lg), Ok tt).
Proof.
  intros a prog data fs lg old Hl Hpos Hle.
  assert (E1 : (prog <? a) = false) by (apply Z.ltb_ge; lia).
  assert (E2 : (prog <=? a) = false) by (apply Z.leb_gt; lia).
  unfold handle_fd_pdu. unfX. mrun.
  evlog; rewrite E1; mrun; rewrite E2; mrun; rewrite Z.leb_refl; mrun;
    rc_one a (a + zlen data); wr Hl; reflexivity.
Qed.

(* the retransmitted tile during the deferred lost-segment procedure *)
Definition dpD (f : fin) (prog : Z) (ck : bytes) (tr : tracker) (dfr : bool) (atm : option timer) : dparams :=
  dpX f prog ck (Some fsz) tr fsz fsz dfr (Some (0, r_nak_ms rd)) atm.

Lemma hfd_fill_defer : forall a prog rdy q ck data fs lg old, lookup fs [x] = Some (File old) -> 0 < zlen data ->
  a + zlen data <= fsz ->
  handle_fd_pdu a data (dX DS_WAITING_FOR_MISSING_DATA rdy q (dpD fin0 prog ck [(a, a + zlen data)] true None) fs lg) =
    (dX DS_WAITING_FOR_MISSING_DATA rdy q (dpD fin0 (Z.max (a + zlen data) prog) ck [] true None)
        (set_node fs [x] (File (write_at old a data)))
        (if l_ind_seg cd then EvSegmentRecv srcid seq a (zlen data) :: lg else lg), Ok tt).
Proof.
  intros a prog rdy q ck data fs lg old Hl Hpos Hle.
  assert (E1 : (fsz <? a) = false) by (apply Z.ltb_ge; lia).
  assert (E2 : (fsz <=? a) = false) by (apply Z.leb_gt; lia).
  assert (E3 : (a + zlen data <=? fsz) = true) by (apply Z.leb_le; lia).
  assert (E4 : (fsz <? a + zlen data) = false) by (apply Z.ltb_ge; lia).
  unfold handle_fd_pdu. unfold dpD. unfX. mrun.
  evlog; rewrite E1; mrun; rewrite E2; mrun; rewrite E3; mrun;
    rc_one a (a + zlen data); wr Hl; rewrite E4; mrun; reflexivity.
Qed.

Ltac rw_hfd L :=
  match goal with |- bind (handle_fd_pdu ?o ?dt) _ ?st = _ =>
    let H := fresh "Hfd" in
    pose proof L as H;
    match type of H with _ = (?st', _) =>
      rewrite (b_ok _ _ _ _ _ (H : handle_fd_pdu o dt st = (st', Ok tt))) end; clear H
  end.

Ltac nif_start := rewrite sm_busy by reflexivity; unfold catch_abandoned; apply catch_ok; change 3%nat with (S 2); cbn [non_idle_fsm]; unfX;
                  unfold fsm_advancement at 1; mrun.

Lemma sm_fd_gap_imm : forall a b ls data fs lg old, lookup fs [x] = Some (File old) -> 0 < zlen data -> a < b ->
  r_imm_nak rd = true ->
  Dest.state_machine (Some (PFileData hA' b data)) (DR a [] ls a fs lg) =
    (dX DS_RECEIVING_FILE_DATA 1 [nakI a b (b + zlen data)]
        (dpX fin0 (Z.max (b + zlen data) a) [] None [(a, b)] b (b + zlen data) false None None)
        (set_node fs [x] (File (write_at old b data)))
        (if l_ind_seg cd then EvSegmentRecv srcid seq b (zlen data) :: lg else lg), Ok tt).
Proof.
  intros a b ls data fs lg old Hl Hpos Hab Himm. nif_start.
  rw_hfd (hfd_gap_imm a b ls data fs lg old Hl Hpos Hab Himm). unfX. mrun. reflexivity.
Qed.

Lemma sm_fd_gap_def : forall a b ls data fs lg old, lookup fs [x] = Some (File old) -> 0 < zlen data -> a < b ->
  r_imm_nak rd = false ->
  Dest.state_machine (Some (PFileData hA' b data)) (DR a [] ls a fs lg) =
    (DR (Z.max (b + zlen data) a) [(a, b)] b (b + zlen data)
        (set_node fs [x] (File (write_at old b data)))
        (if l_ind_seg cd then EvSegmentRecv srcid seq b (zlen data) :: lg else lg), Ok tt).
Proof.
  intros a b ls data fs lg old Hl Hpos Hab Himm. nif_start.
  rw_hfd (hfd_gap_def a b ls data fs lg old Hl Hpos Hab Himm). unfX. mrun. reflexivity.
Qed.

Lemma sm_fd_inorder : forall off tr ls data fs lg old, lookup fs [x] = Some (File old) -> 0 < zlen data ->
  Dest.state_machine (Some (PFileData hA' off data)) (DR off tr ls off fs lg) =
    (DR (Z.max (off + zlen data) off) tr off (off + zlen data)
        (set_node fs [x] (File (write_at old off data)))
        (if l_ind_seg cd then EvSegmentRecv srcid seq off (zlen data) :: lg else lg), Ok tt).
Proof.
  intros off tr ls data fs lg old Hl Hpos. nif_start.
  rw_hfd (hfd_inorder off tr ls data fs lg old Hl Hpos). unfX. mrun. reflexivity.
Qed.

Lemma sm_fd_fill_recv : forall a prog data fs lg old, lookup fs [x] = Some (File old) -> 0 < zlen data ->
  a + zlen data <= prog ->
  Dest.state_machine (Some (PFileData hA' a data)) (DR prog [(a, a + zlen data)] (a + zlen data) prog fs lg) =
    (DR (Z.max (a + zlen data) prog) [] (a + zlen data) prog
        (set_node fs [x] (File (write_at old a data)))
        (if l_ind_seg cd then EvSegmentRecv srcid seq a (zlen data) :: lg else lg), Ok tt).
Proof.
  intros a prog data fs lg old Hl Hpos Hle. nif_start.
  rw_hfd (hfd_fill_recv a prog data fs lg old Hl Hpos Hle). unfX. mrun. reflexivity.
Qed.

(* ---- the EOF PDU *)
Notation ackE' := (ackE cd crc large srcid idw seq seqw).
Notation finP' := (finP cd crc large srcid idw seq seqw).
Definition evFin : event := EvFinished srcid seq C_NO_ERROR DATA_COMPLETE FS_RETAINED None.

(* after the EOF PDU: ACK(EOF) to be sent, a gap on record *)
Definition DG (ready : Z) (q : list pdu) (prog : Z) (ck : bytes) (tr : tracker) (ls le : Z) (fs : tree) (lg : list event) : dst :=
  dX DS_SENDING_EOF_ACK ready q (dpX fin0 prog ck (Some fsz) tr ls le false None None) fs lg.

Ltac eof_start :=
  nif_start; unfold handle_eof_pdu; mrun;
  destruct (l_ind_eof_recv cd); unfold tid_or_assert; mrun; unfold handle_no_error_eof; mrun; dpr.

(* everything was received but an earlier gap is still open *)
Lemma sm_eof_gap : forall cks fl tr ls le fs lg,
  Dest.state_machine (Some (PEof hA' C_NO_ERROR cks fsz fl)) (DR fsz tr ls le fs lg) =
    (DG 1 [ackE'] fsz cks tr ls le fs ((if l_ind_eof_recv cd then [EvEofRecv srcid seq] else []) ++ lg), Ok tt).
Proof.
  intros cks fl tr ls le fs lg. eof_start; rewrite Z.ltb_irrefl; cbn [andb]; mrun;
  unfold file_transfer_complete_transition; mrun; unfold prepare_eof_ack_packet, conf, add_packet; mrun;
  reflexivity.
Qed.

(* the last tile was lost: the EOF PDU reveals the gap at the end of the file *)
Lemma sm_eof_short : forall cks fl a ls le fs lg, a < fsz ->
  Dest.state_machine (Some (PEof hA' C_NO_ERROR cks fsz fl)) (DR a [] ls le fs lg) =
    (DG 1 [ackE'] a cks [(a, fsz)] ls le fs ((if l_ind_eof_recv cd then [EvEofRecv srcid seq] else []) ++ lg), Ok tt).
Proof.
  intros cks fl a ls le fs lg Ha.
  assert (E1 : (fsz <? a) = false) by (apply Z.ltb_ge; lia).
  assert (E2 : (a <? fsz) = true) by (apply Z.ltb_lt; lia).
  eof_start; rewrite E1, E2; cbn [andb]; mrun; unfold tracker_add; mrun;
  unfold file_transfer_complete_transition; mrun; unfold prepare_eof_ack_packet, conf, add_packet; mrun;
  reflexivity.
Qed.

(* ---- the deferred lost-segment procedure *)
Definition DM (ready : Z) (q : list pdu) (prog : Z) (ck : bytes) (tr : tracker) (fs : tree) (lg : list event) : dst :=
  dX DS_WAITING_FOR_MISSING_DATA ready q (dpD fin0 prog ck tr true None) fs lg.

Ltac rw_m L :=
  match goal with |- bind ?m _ ?st = _ =>
    let H := fresh "Hm" in
    pose proof L as H;
    match type of H with _ = (?st', ?r) => rewrite (b_ok _ _ _ _ _ (H : m st = (st', r))) end; clear H
  end.

(* first pass of the procedure: the timer is started and the gap requested *)
Lemma dlsh_first : forall step rdy q f prog ck a b ls le atm fs lg,
  deferred_lost_segment_handling (dX step rdy q (dpX f prog ck (Some fsz) [(a, b)] ls le true None atm) fs lg) =
    (dX step (rdy + 1) (q ++ [nakI a b fsz]) (dpX f prog ck (Some fsz) [(a, b)] ls le true (Some (0, r_nak_ms rd)) atm) fs lg,
     Ok tt).
Proof.
  intros. unfold deferred_lost_segment_handling. unfX. mrun. unfold rcfg_or_assert. mrun.
  unfold now. mrun. unfold conf. mrun. pose proof Hmax as Hmx. unfold hB in Hmx. rewrite Hmx. cbv iota. mrun.
  cbn [nak_split app]. destruct (_ =? maxn); cbn [app fold_left]; unfold add_packet; mrun; reflexivity.
Qed.

(* a later pass while the timer runs: nothing *)
Lemma dlsh_wait : forall step rdy q f prog ck a b ls le atm fs lg,
  deferred_lost_segment_handling
    (dX step rdy q (dpX f prog ck (Some fsz) [(a, b)] ls le true (Some (0, r_nak_ms rd)) atm) fs lg) =
    (dX step rdy q (dpX f prog ck (Some fsz) [(a, b)] ls le true (Some (0, r_nak_ms rd)) atm) fs lg, Ok tt).
Proof.
  intros. unfold deferred_lost_segment_handling. unfX. mrun. unfold rcfg_or_assert. mrun.
  unfold now. mrun. rewrite (timer_fresh 0 (r_nak_ms rd) Hnak). mrun. reflexivity.
Qed.

(* the tracker is empty: the checksum is verified and the transfer is complete *)
Lemma dlsh_done : forall step rdy q ck ls le pt atm fs lg data,
  lookup fs [x] = Some (File data) -> calculate_checksum ckt (Some data) fsz 4096 = Ok ck ->
  deferred_lost_segment_handling (dX step rdy q (dpX fin0 fsz ck (Some fsz) [] ls le true pt atm) fs lg) =
    (dX DS_TRANSFER_COMPLETION rdy q (dpX fin1 fsz ck (Some fsz) [] ls le false pt atm) fs lg, Ok tt).
Proof.
  intros step rdy q ck ls le pt atm fs lg data Hl Hck. unfold deferred_lost_segment_handling. unfX. mrun.
  unfold rcfg_or_assert. mrun.
  unfold checksum_verify; mrun; dpr;
  (destruct (ckt =? CK_NULL) eqn:Eck; cbn [orb]; mrun;
   [| unfold vfs_checksum; mrun; rewrite Eck; mrun; rewrite Hl, Hck; cbv iota; mrun; rewrite bytes_eqb_refl; dpr; rewrite Z.leb_refl; cbn [andb]; mrun]);
  reflexivity.
Qed.

(* the call after ACK(EOF) was retrieved: the procedure starts, its timer runs, the gap is requested *)
Lemma sm_defer_start : forall prog ck a b ls le fs lg,
  Dest.state_machine None (DG 0 [] prog ck [(a, b)] ls le fs lg) =
    (DM 1 [nakI a b fsz] prog ck [(a, b)] fs lg, Ok tt).
Proof.
  intros prog ck a b ls le fs lg. rewrite dsm_busy_none by reflexivity.
  unfold catch_abandoned; apply catch_ok. cbn [non_idle_fsm].
  unfold DG. unfX. unfold fsm_advancement at 1. mrun.
  unfold start_deferred_lost_segment_handling. mrun.
  rw_m (dlsh_first DS_WAITING_FOR_MISSING_DATA 0 [] fin0 prog ck a b fsz fsz None fs lg). unfX. mrun.
  rw_m (dlsh_wait DS_WAITING_FOR_MISSING_DATA 1 [nakI a b fsz] fin0 prog ck a b fsz fsz None fs lg). unfX. mrun.
  reflexivity.
Qed.

(* ---- completion *)
Lemma htc_run : forall rdy q ck ls le pt atm fs lg,
  handle_transfer_completion (dX DS_TRANSFER_COMPLETION rdy q (dpX fin1 fsz ck (Some fsz) [] ls le false pt atm) fs lg) =
    (dX DS_SENDING_FINISHED rdy q (dpX fin1 fsz ck (Some fsz) [] ls le false pt atm) fs (evFin :: lg), Ok tt).
Proof.
  intros. unfold handle_transfer_completion, notice_of_completion. unfX. mrun. rewrite Hfin. mrun. dpr. mrun.
  reflexivity.
Qed.

(* the Finished PDU is generated, the Positive-ACK timer started (running: its interval is positive) *)
Definition DWX (ready : Z) (q : list pdu) (ck : bytes) (ls le : Z) (pt : option timer) (fs : tree) (lg : list event) : dst :=
  dX DS_WAITING_FOR_FINISHED_ACK ready q (dpX fin1 fsz ck (Some fsz) [] ls le false pt (Some (0, r_ack_ms rd))) fs lg.

Ltac fin_send :=
  unfold prepare_finished_pdu, conf, add_packet; mrun;
  unfold handle_finished_pdu_sent; mrun; unfold start_positive_ack_procedure, rcfg_or_assert, now; mrun.

Lemma pos_ack_wait : forall again rdy q ck ls le pt fs lg,
  handle_positive_ack_procedures again (DWX rdy q ck ls le pt fs lg) = (DWX rdy q ck ls le pt fs lg, Ok tt).
Proof.
  intros. unfold handle_positive_ack_procedures, rcfg_or_assert, now, DWX. unfX. mrun.
  rewrite (timer_fresh 0 (r_ack_ms rd) Hack). reflexivity.
Qed.

(* the retransmitted tile closes the gap during the deferred procedure: checksum, completion, Finished PDU *)
Lemma sm_fill_defer : forall a prog ck data fs lg old full, lookup fs [x] = Some (File old) -> 0 < zlen data ->
  a + zlen data <= fsz -> Z.max (a + zlen data) prog = fsz -> write_at old a data = full ->
  calculate_checksum ckt (Some full) fsz 4096 = Ok ck ->
  Dest.state_machine (Some (PFileData hA' a data)) (DM 0 [] prog ck [(a, a + zlen data)] fs lg) =
    (DWX 1 [finP'] ck fsz fsz (Some (0, r_nak_ms rd)) (set_node fs [x] (File full))
         (evFin :: (if l_ind_seg cd then EvSegmentRecv srcid seq a (zlen data) :: lg else lg)), Ok tt).
Proof.
  intros a prog ck data fs lg old full Hl Hpos Hle Hmx Hfull Hck.
  unfold DM. nif_start.
  rw_hfd (hfd_fill_defer a prog 0 [] ck data fs lg old Hl Hpos Hle). rewrite Hmx, Hfull. unfold dpD. unfX. mrun.
  unfold reset_nak_activity_parameters, now. mrun.
  set (lg' := if l_ind_seg cd then _ else _).
  rw_m (dlsh_done DS_WAITING_FOR_MISSING_DATA 0 [] ck fsz fsz (Some (0, r_nak_ms rd)) None
          (set_node fs [x] (File full)) lg' full
          ltac:(rewrite lookup_set_node by discriminate; rewrite path_eqb_refl; reflexivity) Hck).
  unfX. mrun.
  rw_m (htc_run 0 [] ck fsz fsz (Some (0, r_nak_ms rd)) None (set_node fs [x] (File full)) lg').
  unfX. mrun.
  fin_send. unfold handle_waiting_for_finished_ack.
  apply (pos_ack_wait _ 1 [finP'] ck fsz fsz (Some (0, r_nak_ms rd)) (set_node fs [x] (File full)) (evFin :: lg')).
Qed.

(* ACK(Finished) arrives: back to IDLE *)
Lemma sm_ack_fin_x : forall cond st ck ls le pt fs lg,
  Dest.state_machine (Some (PAck hA' D_FINISHED cond st)) (DWX 0 [] ck ls le pt fs lg) = (dfinal cd srcid seq fs lg, Ok tt).
Proof.
  intros. unfold DWX. nif_start. unfold handle_waiting_for_finished_ack, reset_internal. mrun. reflexivity.
Qed.

(* immediate NAK mode, the lost tile is the last but one: the retransmitted tile is delivered right after the EOF PDU.
   The deferred procedure starts (and requests the tile once more), the tile closes the gap, the transfer completes;
   the Finished PDU has to wait for the next call because the NAK PDU was not yet retrieved. *)
Definition DF8 (ready : Z) (q : list pdu) (ck : bytes) (fs : tree) (lg : list event) : dst :=
  dX DS_SENDING_FINISHED ready q (dpD fin1 fsz ck [] false None) fs lg.

Lemma sm_fill_ib : forall a ck ls le data fs lg old full, lookup fs [x] = Some (File old) -> 0 < zlen data ->
  a + zlen data <= fsz -> write_at old a data = full ->
  calculate_checksum ckt (Some full) fsz 4096 = Ok ck ->
  Dest.state_machine (Some (PFileData hA' a data)) (DG 0 [] fsz ck [(a, a + zlen data)] ls le fs lg) =
    (DF8 1 [nakI a (a + zlen data) fsz] ck (set_node fs [x] (File full))
         (evFin :: (if l_ind_seg cd then EvSegmentRecv srcid seq a (zlen data) :: lg else lg)), Ok tt).
Proof.
  intros a ck ls le data fs lg old full Hl Hpos Hle Hfull Hck.
  unfold DG. nif_start.
  unfold start_deferred_lost_segment_handling. mrun.
  rw_m (dlsh_first DS_WAITING_FOR_MISSING_DATA 0 [] fin0 fsz ck a (a + zlen data) fsz fsz None fs lg). unfX. mrun.
  rw_hfd (hfd_fill_defer a fsz (0 + 1) ([] ++ [nakI a (a + zlen data) fsz]) ck data fs lg old Hl Hpos Hle).
  rewrite Z.max_r by lia. rewrite Hfull. unfold dpD. unfX. mrun.
  unfold reset_nak_activity_parameters, now. mrun.
  set (lg' := if l_ind_seg cd then _ else _).
  rw_m (dlsh_done DS_WAITING_FOR_MISSING_DATA (0 + 1) ([] ++ [nakI a (a + zlen data) fsz]) ck fsz fsz
          (Some (0, r_nak_ms rd)) None
          (set_node fs [x] (File full)) lg' full
          ltac:(rewrite lookup_set_node by discriminate; rewrite path_eqb_refl; reflexivity) Hck).
  unfX. mrun.
  rw_m (htc_run (0 + 1) ([] ++ [nakI a (a + zlen data) fsz]) ck fsz fsz (Some (0, r_nak_ms rd)) None
          (set_node fs [x] (File full)) lg').
  unfX. mrun. reflexivity.
Qed.

(* the tile retransmitted for that second request arrives when nothing is missing any more: it only triggers the
   Finished PDU *)
Lemma sm_dup_ib : forall off data ck fs lg,
  Dest.state_machine (Some (PFileData hA' off data)) (DF8 0 [] ck fs lg) =
    (DWX 1 [finP'] ck fsz fsz (Some (0, r_nak_ms rd)) fs lg, Ok tt).
Proof.
  intros. unfold DF8, dpD. nif_start. fin_send. unfold handle_waiting_for_finished_ack.
  apply (pos_ack_wait _ 1 [finP'] ck fsz fsz (Some (0, r_nak_ms rd)) fs lg).
Qed.
End ReceiverX.

(* ================================================================== *)
(* 3. the scheduler of System.v on a link with a fault schedule        *)
(* ================================================================== *)
Local Opaque state_machine_s Dest.state_machine.

Ltac ypr :=
  unfold set; cbv beta;
  cbn [y_src y_dst y_s2d y_d2s y_cnt_s2d y_cnt_d2s y_delayed y_round y_src_cur y_dst_cur y_src_done y_dst_done
       y_errs y_faults fst snd].

(* the system between two API calls: nothing delayed, no error so far, fault schedule [fl] *)
Definition ZF (fl : list fault) (s : src) (dd : dst) (q1 q2 : list pdu) (c1 c2 rnd : Z) (scur dcur : option (Z * Z))
           (sdone ddone : list (Z * Z)) : sys :=
  mkSys s dd q1 q2 c1 c2 [] rnd scur dcur sdone ddone [] fl.

Definition onw (p : pdu) : Prop := on_wire p = Some p.

Lemma ow_all : forall ps, Forall onw ps -> flat_map ow ps = ps.
Proof.
  induction ps as [|p t IH]; intro H; [reflexivity|].
  inversion H as [|? ? H1 H2]; subst. cbn [flat_map]. unfold ow at 1. rewrite H1. cbn [app]. f_equal. exact (IH H2).
Qed.

Lemma zlen_cons : forall A (a : A) l, zlen (a :: l) = 1 + zlen l.
Proof. intros. unfold zlen. cbn [length]. lia. Qed.

Lemma call_src_f : forall fl pkt s s2 ps dd q1 q2 c1 c2 rnd scur dcur sdone ddone,
  pump_with pkt s = (s2, Ok ps) ->
  exists scur' sdone',
  call_src pkt (ZF fl s dd q1 q2 c1 c2 rnd scur dcur sdone ddone) =
   (emit_pdus 0 (flat_map ow ps) (ZF fl s2 dd q1 q2 c1 c2 rnd scur' dcur sdone' ddone), zlen ps).
Proof.
  intros fl pkt s s2 ps dd q1 q2 c1 c2 rnd scur dcur sdone ddone H.
  unfold pump_with in H.
  destruct (state_machine_s pkt s) as [s1 [u|e]] eqn:Hsm; [|discriminate H].
  unfold drain_s in H. injection H as <- <-.
  destruct (nds_shape s1 dd q1 q2 c1 c2 [] rnd scur dcur sdone ddone [] fl) as (sc & sd & E).
  exists sc, sd.
  unfold call_src, ZF. ypr. rewrite Hsm. ypr. rewrite E. ypr. unfold drain_s. reflexivity.
Qed.

Lemma call_dst_f : forall fl pkt dd dd1 s q1 q2 c1 c2 rnd scur dcur sdone ddone,
  Dest.state_machine pkt dd = (dd1, Ok tt) ->
  exists dcur' ddone',
  call_dst pkt (ZF fl s dd q1 q2 c1 c2 rnd scur dcur sdone ddone) =
   (emit_pdus 1 (flat_map ow (snd (drain_d dd1)))
      (ZF fl s (fst (drain_d dd1)) q1 q2 c1 c2 rnd scur dcur' sdone ddone'), zlen (snd (drain_d dd1))).
Proof.
  intros fl pkt dd dd1 s q1 q2 c1 c2 rnd scur dcur sdone ddone H1.
  destruct (ndd_shape s dd1 q1 q2 c1 c2 [] rnd scur dcur sdone ddone [] fl) as (dc & dn & E).
  exists dc, dn.
  unfold call_dst, ZF. ypr. rewrite H1. ypr. rewrite E. ypr. reflexivity.
Qed.

Lemma emit0_f : forall fl ps s dd q1 q2 c1 c2 rnd scur dcur sdone ddone,
  (forall i, c1 <= i < c1 + zlen ps -> find_fault fl 0 i = None) ->
  emit_pdus 0 ps (ZF fl s dd q1 q2 c1 c2 rnd scur dcur sdone ddone) =
  ZF fl s dd (q1 ++ ps) q2 (c1 + zlen ps) c2 rnd scur dcur sdone ddone.
Proof.
  intros fl. unfold ZF. induction ps as [|p t IH]; intros s dd q1 q2 c1 c2 rnd scur dcur sdone ddone H.
  - cbn [emit_pdus]. rewrite app_nil_r. change (zlen (@nil pdu)) with 0. rewrite Z.add_0_r. reflexivity.
  - pose proof (zlen_cons _ p t) as Hz. assert (0 <= zlen t) by (unfold zlen; lia).
    cbn [emit_pdus]. ypr. change (0 =? 0) with true. cbv iota. ypr.
    rewrite (H c1) by lia. unfold link_push. change (0 =? 0) with true. cbv iota. ypr.
    rewrite IH by (intros i Hi; apply H; lia).
    rewrite <- app_assoc. cbn [app]. rewrite Hz. f_equal. lia.
Qed.

Lemma emit1_f : forall fl ps s dd q1 q2 c1 c2 rnd scur dcur sdone ddone,
  (forall i, find_fault fl 1 i = None) ->
  emit_pdus 1 ps (ZF fl s dd q1 q2 c1 c2 rnd scur dcur sdone ddone) =
  ZF fl s dd q1 (q2 ++ ps) c1 (c2 + zlen ps) rnd scur dcur sdone ddone.
Proof.
  intros fl. unfold ZF. induction ps as [|p t IH]; intros s dd q1 q2 c1 c2 rnd scur dcur sdone ddone H.
  - cbn [emit_pdus]. rewrite app_nil_r. change (zlen (@nil pdu)) with 0. rewrite Z.add_0_r. reflexivity.
  - pose proof (zlen_cons _ p t) as Hz.
    cbn [emit_pdus]. ypr. change (1 =? 0) with false. cbv iota. ypr.
    rewrite (H c2). unfold link_push. change (1 =? 0) with false. cbv iota. ypr.
    rewrite IH by exact H.
    rewrite <- app_assoc. cbn [app]. rewrite Hz. f_equal. lia.
Qed.

Lemma emit_drop : forall fl p s dd q1 q2 c1 c2 rnd scur dcur sdone ddone,
  find_fault fl 0 c1 = Some (mkFault 0 c1 0 0) ->
  emit_pdus 0 [p] (ZF fl s dd q1 q2 c1 c2 rnd scur dcur sdone ddone) =
  ZF fl s dd q1 q2 (c1 + 1) c2 rnd scur dcur sdone ddone.
Proof.
  intros. cbn [emit_pdus]. unfold ZF. ypr. change (0 =? 0) with true. cbv iota. ypr. rewrite H.
  cbn [ft_kind]. change (0 =? 0) with true. cbv iota. reflexivity.
Qed.

(* the two halves of a round *)
Definition sphase (qin : list pdu) (y : sys) : sys * Z :=
  let '(y1, a1) := deliver_all deliver_to_source qin y 0 in
  match qin with
  | [] => let before := (s_state (y_src y1), s_step (y_src y1)) in
          let '(yy, n) := call_src None y1 in
          (yy, a1 + n + (if (fst before =? s_state (y_src yy)) && (snd before =? s_step (y_src yy)) then 0 else 1))
  | _ => (y1, a1)
  end.
Definition dphase (y2 : sys) (a2 : Z) : sys * Z :=
  let inbound2 := y_s2d y2 in
  let '(y3, a3) := deliver_all deliver_to_dest inbound2 (y2 <| y_s2d := [] |>) a2 in
  match inbound2 with
  | [] => let before := (d_state (y_dst y3), d_step (y_dst y3)) in
          let '(yy, n) := call_dst None y3 in
          (yy, a3 + n + (if (fst before =? d_state (y_dst yy)) && (snd before =? d_step (y_dst yy)) then 0 else 1))
  | _ => (y3, a3)
  end.

Lemma step_round_ZF : forall fl s dd qin c1 c2 rnd scur dcur sdone ddone,
  step_round (ZF fl s dd [] qin c1 c2 rnd scur dcur sdone ddone) =
  (let '(y2, a2) := sphase qin (ZF fl s dd [] [] c1 c2 (rnd + 1) scur dcur sdone ddone) in dphase y2 a2).
Proof.
  intros. unfold step_round, sphase. cbv zeta.
  assert (E : release_delayed (ZF fl s dd [] qin c1 c2 rnd scur dcur sdone ddone <| y_round ::= (fun r => r + 1) |>) =
              ZF fl s dd [] qin c1 c2 (rnd + 1) scur dcur sdone ddone) by reflexivity.
  rewrite E. unfold ZF. ypr.
  destruct (deliver_all deliver_to_source qin _ 0) as [y1 a1].
  destruct qin; [destruct (call_src None y1) as [yy n]|]; reflexivity.
Qed.

Definition nofault0 (fl : list fault) (c n : Z) : Prop := forall i, c <= i < c + n -> find_fault fl 0 i = None.
Definition nofault1 (fl : list fault) : Prop := forall i, find_fault fl 1 i = None.

Lemma b01 : forall b : bool, 0 <= (if b then 0 else 1). Proof. destruct b; lia. Qed.

Lemma sphase_none : forall fl s s' ps dd c1 c2 rnd scur dcur sdone ddone,
  pump s = (s', Ok ps) -> Forall onw ps -> nofault0 fl c1 (zlen ps) ->
  exists scur' sdone' a,
    sphase [] (ZF fl s dd [] [] c1 c2 rnd scur dcur sdone ddone) =
      (ZF fl s' dd ps [] (c1 + zlen ps) c2 rnd scur' dcur sdone' ddone, a) /\ zlen ps <= a.
Proof.
  intros fl s s' ps dd c1 c2 rnd scur dcur sdone ddone P Ho Hn.
  destruct (call_src_f fl None s s' ps dd [] [] c1 c2 rnd scur dcur sdone ddone P) as (sc & sd & E).
  exists sc, sd. eexists. unfold sphase. cbn [deliver_all]. rewrite E.
  rewrite (ow_all _ Ho), emit0_f by exact Hn. cbn [app]. split; [reflexivity|].
  match goal with |- _ <= _ + (if ?b then 0 else 1) => pose proof (b01 b) end. lia.
Qed.

Lemma sphase_drop : forall fl s s' p dd c1 c2 rnd scur dcur sdone ddone,
  pump s = (s', Ok [p]) -> onw p -> find_fault fl 0 c1 = Some (mkFault 0 c1 0 0) ->
  exists scur' sdone' a,
    sphase [] (ZF fl s dd [] [] c1 c2 rnd scur dcur sdone ddone) =
      (ZF fl s' dd [] [] (c1 + 1) c2 rnd scur' dcur sdone' ddone, a) /\ 1 <= a.
Proof.
  intros fl s s' p dd c1 c2 rnd scur dcur sdone ddone P Ho Hn.
  destruct (call_src_f fl None s s' [p] dd [] [] c1 c2 rnd scur dcur sdone ddone P) as (sc & sd & E).
  exists sc, sd. eexists. unfold sphase. cbn [deliver_all]. rewrite E.
  cbn [flat_map app]. unfold ow. rewrite Ho. cbn [app]. rewrite emit_drop by exact Hn. split; [reflexivity|].
  change (zlen [p]) with 1.
  match goal with |- _ <= _ + (if ?b then 0 else 1) => pose proof (b01 b) end. lia.
Qed.

Lemma dts_busy : forall fl pd s dd q1 q2 c1 c2 rnd scur dcur sdone ddone,
  s_state s = ST_BUSY ->
  deliver_to_source pd (ZF fl s dd q1 q2 c1 c2 rnd scur dcur sdone ddone) =
  call_src (Some pd) (ZF fl s dd q1 q2 c1 c2 rnd scur dcur sdone ddone).
Proof. intros. unfold deliver_to_source, ZF. ypr. rewrite H. reflexivity. Qed.

Lemma sphase_one : forall fl s s' pk ps dd c1 c2 rnd scur dcur sdone ddone,
  s_state s = ST_BUSY -> pump_with (Some pk) s = (s', Ok ps) -> Forall onw ps -> nofault0 fl c1 (zlen ps) ->
  exists scur' sdone' a,
    sphase [pk] (ZF fl s dd [] [] c1 c2 rnd scur dcur sdone ddone) =
      (ZF fl s' dd ps [] (c1 + zlen ps) c2 rnd scur' dcur sdone' ddone, a) /\ 1 <= a.
Proof.
  intros fl s s' pk ps dd c1 c2 rnd scur dcur sdone ddone Hb P Ho Hn.
  destruct (call_src_f fl (Some pk) s s' ps dd [] [] c1 c2 rnd scur dcur sdone ddone P) as (sc & sd & E).
  exists sc, sd. eexists. unfold sphase. rewrite deliver_all_one, dts_busy by exact Hb. rewrite E.
  rewrite (ow_all _ Ho), emit0_f by exact Hn. cbn [app fst snd]. split; [reflexivity|].
  assert (0 <= zlen ps) by (unfold zlen; lia). lia.
Qed.

Lemma sphase_two : forall fl s s1 s2 pk1 pk2 ps1 ps2 dd c1 c2 rnd scur dcur sdone ddone,
  s_state s = ST_BUSY -> pump_with (Some pk1) s = (s1, Ok ps1) -> Forall onw ps1 ->
  s_state s1 = ST_BUSY -> pump_with (Some pk2) s1 = (s2, Ok ps2) -> Forall onw ps2 ->
  nofault0 fl c1 (zlen ps1 + zlen ps2) ->
  exists scur' sdone' a,
    sphase [pk1; pk2] (ZF fl s dd [] [] c1 c2 rnd scur dcur sdone ddone) =
      (ZF fl s2 dd (ps1 ++ ps2) [] (c1 + zlen ps1 + zlen ps2) c2 rnd scur' dcur sdone' ddone, a) /\ 1 <= a.
Proof.
  intros fl s s1 s2 pk1 pk2 ps1 ps2 dd c1 c2 rnd scur dcur sdone ddone Hb P1 Ho1 Hb1 P2 Ho2 Hn.
  assert (0 <= zlen ps1) by (unfold zlen; lia). assert (0 <= zlen ps2) by (unfold zlen; lia).
  destruct (call_src_f fl (Some pk1) s s1 ps1 dd [] [] c1 c2 rnd scur dcur sdone ddone P1) as (sc & sd & E).
  destruct (call_src_f fl (Some pk2) s1 s2 ps2 dd ([] ++ ps1) [] (c1 + zlen ps1) c2 rnd sc dcur sd ddone P2) as (sc' & sd' & E').
  exists sc', sd'. eexists. unfold sphase. cbn [deliver_all]. rewrite dts_busy by exact Hb. rewrite E.
  rewrite (ow_all _ Ho1), emit0_f by (intros i Hi; apply Hn; lia).
  rewrite dts_busy by exact Hb1. rewrite E'.
  rewrite (ow_all _ Ho2), emit0_f by (intros i Hi; apply Hn; lia). cbn [app]. split; [reflexivity|]. lia.
Qed.

Lemma dtd_pass : forall fl pd s dd q1 q2 c1 c2 rnd scur dcur sdone ddone,
  (d_state dd =? ST_IDLE) && tid_mem (h_src (pdu_hdr pd), h_seq (pdu_hdr pd)) ddone = false ->
  (d_state dd =? ST_BUSY) &&
    match p_tid (d_p dd) with
    | Some t => negb (tid_eqb (h_src (pdu_hdr pd), h_seq (pdu_hdr pd)) t) | None => false end = false ->
  deliver_to_dest pd (ZF fl s dd q1 q2 c1 c2 rnd scur dcur sdone ddone) =
  call_dst (Some pd) (ZF fl s dd q1 q2 c1 c2 rnd scur dcur sdone ddone).
Proof. intros. apply deliver_to_dest_pass; assumption. Qed.

Lemma dphase_none : forall fl s dd dd1 dd' outs c1 c2 rnd scur dcur sdone ddone a2,
  Dest.state_machine None dd = (dd1, Ok tt) -> drain_d dd1 = (dd', outs) -> Forall onw outs -> nofault1 fl ->
  exists dcur' ddone' a,
    dphase (ZF fl s dd [] [] c1 c2 rnd scur dcur sdone ddone) a2 =
      (ZF fl s dd' [] outs c1 (c2 + zlen outs) rnd scur dcur' sdone ddone', a) /\ a2 <= a.
Proof.
  intros fl s dd dd1 dd' outs c1 c2 rnd scur dcur sdone ddone a2 Hd Hdr Ho Hn.
  destruct (call_dst_f fl None dd dd1 s [] [] c1 c2 rnd scur dcur sdone ddone Hd) as (dc & dn & E).
  exists dc, dn. eexists. unfold dphase. unfold ZF at 1 2. ypr. cbn [deliver_all].
  fold (ZF fl s dd [] [] c1 c2 rnd scur dcur sdone ddone). rewrite E, Hdr. cbn [fst snd].
  rewrite (ow_all _ Ho), emit1_f by exact Hn. cbn [app]. split; [reflexivity|].
  assert (0 <= zlen outs) by (unfold zlen; lia).
  match goal with |- _ <= _ + (if ?b then 0 else 1) => pose proof (b01 b) end. lia.
Qed.

Definition dguard (pd : pdu) (dd : dst) (ddone : list (Z * Z)) : Prop :=
  (d_state dd =? ST_IDLE) && tid_mem (h_src (pdu_hdr pd), h_seq (pdu_hdr pd)) ddone = false /\
  (d_state dd =? ST_BUSY) &&
    match p_tid (d_p dd) with
    | Some t => negb (tid_eqb (h_src (pdu_hdr pd), h_seq (pdu_hdr pd)) t) | None => false end = false.

Lemma dphase_one : forall fl s dd dd1 dd' pd outs c1 c2 rnd scur dcur sdone ddone a2,
  dguard pd dd ddone ->
  Dest.state_machine (Some pd) dd = (dd1, Ok tt) -> drain_d dd1 = (dd', outs) -> Forall onw outs -> nofault1 fl ->
  exists dcur' ddone' a,
    dphase (ZF fl s dd [pd] [] c1 c2 rnd scur dcur sdone ddone) a2 =
      (ZF fl s dd' [] outs c1 (c2 + zlen outs) rnd scur dcur' sdone ddone', a) /\ a2 < a.
Proof.
  intros fl s dd dd1 dd' pd outs c1 c2 rnd scur dcur sdone ddone a2 [G1 G2] Hd Hdr Ho Hn.
  destruct (call_dst_f fl (Some pd) dd dd1 s [] [] c1 c2 rnd scur dcur sdone ddone Hd) as (dc & dn & E).
  exists dc, dn. eexists. unfold dphase. unfold ZF at 1 2. ypr.
  fold (ZF fl s dd [] [] c1 c2 rnd scur dcur sdone ddone). rewrite deliver_all_one, dtd_pass by assumption.
  rewrite E, Hdr. cbn [fst snd].
  rewrite (ow_all _ Ho), emit1_f by exact Hn. cbn [app]. split; [reflexivity|].
  assert (0 <= zlen outs) by (unfold zlen; lia). lia.
Qed.

Definition dbusy (pd : pdu) (dd : dst) : Prop :=
  d_state dd = ST_BUSY /\ p_tid (d_p dd) = Some (h_src (pdu_hdr pd), h_seq (pdu_hdr pd)).

Lemma dbusy_guard : forall pd dd ddone, dbusy pd dd -> dguard pd dd ddone.
Proof.
  intros pd dd ddone [H1 H2]. unfold dguard. rewrite H1, H2. split; [reflexivity|].
  unfold tid_eqb. cbn [fst snd]. rewrite !Z.eqb_refl. reflexivity.
Qed.

Lemma dphase_two : forall fl s dd dd1 dd' dd2 dd'' pd1 pd2 outs1 outs2 c1 c2 rnd scur dcur sdone ddone a2,
  dbusy pd1 dd -> Dest.state_machine (Some pd1) dd = (dd1, Ok tt) -> drain_d dd1 = (dd', outs1) -> Forall onw outs1 ->
  dbusy pd2 dd' -> Dest.state_machine (Some pd2) dd' = (dd2, Ok tt) -> drain_d dd2 = (dd'', outs2) -> Forall onw outs2 ->
  nofault1 fl ->
  exists dcur' ddone' a,
    dphase (ZF fl s dd [pd1; pd2] [] c1 c2 rnd scur dcur sdone ddone) a2 =
      (ZF fl s dd'' [] (outs1 ++ outs2) c1 (c2 + zlen outs1 + zlen outs2) rnd scur dcur' sdone ddone', a) /\ a2 < a.
Proof.
  intros fl s dd dd1 dd' dd2 dd'' pd1 pd2 outs1 outs2 c1 c2 rnd scur dcur sdone ddone a2
         B1 Hd1 Hdr1 Ho1 B2 Hd2 Hdr2 Ho2 Hn.
  assert (0 <= zlen outs1) by (unfold zlen; lia). assert (0 <= zlen outs2) by (unfold zlen; lia).
  destruct (call_dst_f fl (Some pd1) dd dd1 s [] [] c1 c2 rnd scur dcur sdone ddone Hd1) as (dc & dn & E).
  destruct (call_dst_f fl (Some pd2) dd' dd2 s [] ([] ++ outs1) c1 (c2 + zlen outs1) rnd scur dc sdone dn Hd2)
    as (dc' & dn' & E').
  destruct (dbusy_guard pd1 dd ddone B1) as [G1 G2]. destruct (dbusy_guard pd2 dd' dn B2) as [G3 G4].
  exists dc', dn'. eexists. unfold dphase. unfold ZF at 1 2. ypr.
  fold (ZF fl s dd [] [] c1 c2 rnd scur dcur sdone ddone). cbn [deliver_all].
  rewrite dtd_pass by assumption. rewrite E, Hdr1. cbn [fst snd].
  rewrite (ow_all _ Ho1), emit1_f by exact Hn.
  rewrite dtd_pass by assumption. rewrite E', Hdr2. cbn [fst snd].
  rewrite (ow_all _ Ho2), emit1_f by exact Hn. cbn [app]. split; [reflexivity|]. lia.
Qed.

(* ---- run, round by round *)
Definition reach (tick : Z) (y y' : sys) : Prop := exists m, forall n, run (m + n) tick y = run n tick y'.

Lemma reach_refl : forall tick y, reach tick y y.
Proof. intros. exists 0%nat. reflexivity. Qed.
Lemma reach_trans : forall tick a b c, reach tick a b -> reach tick b c -> reach tick a c.
Proof.
  intros tick a b c [m1 H1] [m2 H2]. exists (m1 + m2)%nat. intro n.
  rewrite <- Nat.add_assoc, H1, H2. reflexivity.
Qed.
Lemma reach_step : forall tick y y' a, step_round y = (y', a) -> 0 < a -> quiescent y' = false -> reach tick y y'.
Proof.
  intros tick y y' a R Ha Q. exists 1%nat. intro n. change (1 + n)%nat with (S n).
  rewrite run_S, R. cbv iota beta. rewrite Q.
  replace (a =? 0) with false by (symmetry; apply Z.eqb_neq; lia). reflexivity.
Qed.
Lemma reach_final : forall tick y y1 y' a, reach tick y y1 -> step_round y1 = (y', a) -> quiescent y' = true ->
  exists fuel, run fuel tick y = (y', true).
Proof.
  intros tick y y1 y' a [m H] R Q. exists (m + 1)%nat. rewrite H. change 1%nat with (S 0).
  rewrite run_S, R. cbv iota beta. rewrite Q. reflexivity.
Qed.

(* ---- whole rounds *)
Lemma q_busy : forall fl s dd q1 q2 c1 c2 rnd scur dcur sdone ddone, s_state s = ST_BUSY ->
  quiescent (ZF fl s dd q1 q2 c1 c2 rnd scur dcur sdone ddone) = false.
Proof. intros. unfold quiescent, ZF. cbn [y_src]. rewrite H. reflexivity. Qed.

Lemma nf0_one : forall fl c1, find_fault fl 0 c1 = None -> nofault0 fl c1 1.
Proof. intros fl c1 H i Hi. replace i with c1 by lia. exact H. Qed.
Lemma nf0_zero : forall fl c1, nofault0 fl c1 0.
Proof. intros fl c1 i Hi. lia. Qed.

(* the sender emits one PDU, the receiver handles it *)
Lemma round_n1 : forall fl s s' pd dd dd1 dd' outs c1 c2 rnd scur dcur sdone ddone,
  pump s = (s', Ok [pd]) -> onw pd -> find_fault fl 0 c1 = None -> nofault1 fl ->
  dguard pd dd ddone -> Dest.state_machine (Some pd) dd = (dd1, Ok tt) -> drain_d dd1 = (dd', outs) -> Forall onw outs ->
  s_state s' = ST_BUSY ->
  exists c2' rnd' scur' dcur' sdone' ddone' a,
    step_round (ZF fl s dd [] [] c1 c2 rnd scur dcur sdone ddone) =
      (ZF fl s' dd' [] outs (c1 + 1) c2' rnd' scur' dcur' sdone' ddone', a) /\ 0 < a /\
    quiescent (ZF fl s' dd' [] outs (c1 + 1) c2' rnd' scur' dcur' sdone' ddone') = false.
Proof.
  intros fl s s' pd dd dd1 dd' outs c1 c2 rnd scur dcur sdone ddone P Ho Hf Hf1 G Hd Hdr Hos Hb.
  destruct (sphase_none fl s s' [pd] dd c1 c2 (rnd + 1) scur dcur sdone ddone P (Forall_cons _ Ho (Forall_nil _))
              (nf0_one _ _ Hf)) as (sc & sd & a2 & E1 & Ha2).
  change (zlen [pd]) with 1 in *.
  destruct (dphase_one fl s' dd dd1 dd' pd outs (c1 + 1) c2 (rnd + 1) sc dcur sd ddone a2 G Hd Hdr Hos Hf1)
    as (dc & dn & a3 & E2 & Ha3).
  do 6 eexists. exists a3. rewrite step_round_ZF, E1, E2. split; [reflexivity|]. split; [lia|]. apply q_busy. exact Hb.
Qed.

(* the sender's PDU is dropped by the link, the receiver is called without a PDU *)
Lemma round_drop : forall fl s s' pd dd dd1 dd' outs c1 c2 rnd scur dcur sdone ddone,
  pump s = (s', Ok [pd]) -> onw pd -> find_fault fl 0 c1 = Some (mkFault 0 c1 0 0) -> nofault1 fl ->
  Dest.state_machine None dd = (dd1, Ok tt) -> drain_d dd1 = (dd', outs) -> Forall onw outs ->
  s_state s' = ST_BUSY ->
  exists c2' rnd' scur' dcur' sdone' ddone' a,
    step_round (ZF fl s dd [] [] c1 c2 rnd scur dcur sdone ddone) =
      (ZF fl s' dd' [] outs (c1 + 1) c2' rnd' scur' dcur' sdone' ddone', a) /\ 0 < a /\
    quiescent (ZF fl s' dd' [] outs (c1 + 1) c2' rnd' scur' dcur' sdone' ddone') = false.
Proof.
  intros fl s s' pd dd dd1 dd' outs c1 c2 rnd scur dcur sdone ddone P Ho Hf Hf1 Hd Hdr Hos Hb.
  destruct (sphase_drop fl s s' pd dd c1 c2 (rnd + 1) scur dcur sdone ddone P Ho Hf) as (sc & sd & a2 & E1 & Ha2).
  destruct (dphase_none fl s' dd dd1 dd' outs (c1 + 1) c2 (rnd + 1) sc dcur sd ddone a2 Hd Hdr Hos Hf1)
    as (dc & dn & a3 & E2 & Ha3).
  do 6 eexists. exists a3. rewrite step_round_ZF, E1, E2. split; [reflexivity|]. split; [lia|]. apply q_busy. exact Hb.
Qed.

(* an inbound PDU makes the sender emit one PDU, the receiver handles it *)
Lemma round_11 : forall fl s s' pk pd dd dd1 dd' outs c1 c2 rnd scur dcur sdone ddone,
  s_state s = ST_BUSY -> pump_with (Some pk) s = (s', Ok [pd]) -> onw pd -> find_fault fl 0 c1 = None -> nofault1 fl ->
  dguard pd dd ddone -> Dest.state_machine (Some pd) dd = (dd1, Ok tt) -> drain_d dd1 = (dd', outs) -> Forall onw outs ->
  s_state s' = ST_BUSY ->
  exists c2' rnd' scur' dcur' sdone' ddone' a,
    step_round (ZF fl s dd [] [pk] c1 c2 rnd scur dcur sdone ddone) =
      (ZF fl s' dd' [] outs (c1 + 1) c2' rnd' scur' dcur' sdone' ddone', a) /\ 0 < a /\
    quiescent (ZF fl s' dd' [] outs (c1 + 1) c2' rnd' scur' dcur' sdone' ddone') = false.
Proof.
  intros fl s s' pk pd dd dd1 dd' outs c1 c2 rnd scur dcur sdone ddone Hb0 P Ho Hf Hf1 G Hd Hdr Hos Hb.
  destruct (sphase_one fl s s' pk [pd] dd c1 c2 (rnd + 1) scur dcur sdone ddone Hb0 P (Forall_cons _ Ho (Forall_nil _))
              (nf0_one _ _ Hf)) as (sc & sd & a2 & E1 & Ha2).
  change (zlen [pd]) with 1 in *.
  destruct (dphase_one fl s' dd dd1 dd' pd outs (c1 + 1) c2 (rnd + 1) sc dcur sd ddone a2 G Hd Hdr Hos Hf1)
    as (dc & dn & a3 & E2 & Ha3).
  do 6 eexists. exists a3. rewrite step_round_ZF, E1, E2. split; [reflexivity|]. split; [lia|]. apply q_busy. exact Hb.
Qed.

(* an inbound PDU is absorbed by the sender, the receiver is called without a PDU *)
Lemma round_10 : forall fl s s' pk dd dd1 dd' outs c1 c2 rnd scur dcur sdone ddone,
  s_state s = ST_BUSY -> pump_with (Some pk) s = (s', Ok []) -> nofault1 fl ->
  Dest.state_machine None dd = (dd1, Ok tt) -> drain_d dd1 = (dd', outs) -> Forall onw outs ->
  s_state s' = ST_BUSY ->
  exists c2' rnd' scur' dcur' sdone' ddone' a,
    step_round (ZF fl s dd [] [pk] c1 c2 rnd scur dcur sdone ddone) =
      (ZF fl s' dd' [] outs c1 c2' rnd' scur' dcur' sdone' ddone', a) /\ 0 < a /\
    quiescent (ZF fl s' dd' [] outs c1 c2' rnd' scur' dcur' sdone' ddone') = false.
Proof.
  intros fl s s' pk dd dd1 dd' outs c1 c2 rnd scur dcur sdone ddone Hb0 P Hf1 Hd Hdr Hos Hb.
  destruct (sphase_one fl s s' pk [] dd c1 c2 (rnd + 1) scur dcur sdone ddone Hb0 P (Forall_nil _) (nf0_zero _ _))
    as (sc & sd & a2 & E1 & Ha2).
  change (zlen (@nil pdu)) with 0 in *. rewrite Z.add_0_r in E1.
  destruct (dphase_none fl s' dd dd1 dd' outs c1 c2 (rnd + 1) sc dcur sd ddone a2 Hd Hdr Hos Hf1)
    as (dc & dn & a3 & E2 & Ha3).
  do 6 eexists. exists a3. rewrite step_round_ZF, E1, E2. split; [reflexivity|]. split; [lia|]. apply q_busy. exact Hb.
Qed.

(* an inbound PDU makes the sender emit two PDUs, the receiver handles both *)
Lemma round_12 : forall fl s s' pk pd1 pd2 dd dd1 dd' dd2 dd'' outs1 outs2 c1 c2 rnd scur dcur sdone ddone,
  s_state s = ST_BUSY -> pump_with (Some pk) s = (s', Ok [pd1; pd2]) -> onw pd1 -> onw pd2 ->
  nofault0 fl c1 2 -> nofault1 fl ->
  dbusy pd1 dd -> Dest.state_machine (Some pd1) dd = (dd1, Ok tt) -> drain_d dd1 = (dd', outs1) -> Forall onw outs1 ->
  dbusy pd2 dd' -> Dest.state_machine (Some pd2) dd' = (dd2, Ok tt) -> drain_d dd2 = (dd'', outs2) -> Forall onw outs2 ->
  s_state s' = ST_BUSY ->
  exists c1' c2' rnd' scur' dcur' sdone' ddone' a,
    step_round (ZF fl s dd [] [pk] c1 c2 rnd scur dcur sdone ddone) =
      (ZF fl s' dd'' [] (outs1 ++ outs2) c1' c2' rnd' scur' dcur' sdone' ddone', a) /\ 0 < a /\ c1 < c1' /\
    quiescent (ZF fl s' dd'' [] (outs1 ++ outs2) c1' c2' rnd' scur' dcur' sdone' ddone') = false.
Proof.
  intros fl s s' pk pd1 pd2 dd dd1 dd' dd2 dd'' outs1 outs2 c1 c2 rnd scur dcur sdone ddone
         Hb0 P Ho1 Ho2 Hf Hf1 B1 Hd1 Hdr1 Hos1 B2 Hd2 Hdr2 Hos2 Hb.
  destruct (sphase_one fl s s' pk [pd1; pd2] dd c1 c2 (rnd + 1) scur dcur sdone ddone Hb0 P
              (Forall_cons _ Ho1 (Forall_cons _ Ho2 (Forall_nil _))) Hf) as (sc & sd & a2 & E1 & Ha2).
  change (zlen [pd1; pd2]) with 2 in *.
  destruct (dphase_two fl s' dd dd1 dd' dd2 dd'' pd1 pd2 outs1 outs2 (c1 + 2) c2 (rnd + 1) sc dcur sd ddone a2
              B1 Hd1 Hdr1 Hos1 B2 Hd2 Hdr2 Hos2 Hf1) as (dc & dn & a3 & E2 & Ha3).
  do 7 eexists. exists a3. rewrite step_round_ZF, E1, E2. split; [reflexivity|]. split; [lia|]. split; [lia|].
  apply q_busy. exact Hb.
Qed.

(* two inbound PDUs: the first is absorbed, the second makes the sender emit one PDU, the receiver handles it *)
Lemma round_21 : forall fl s s1 s' pk1 pk2 pd dd dd1 dd' outs c1 c2 rnd scur dcur sdone ddone,
  s_state s = ST_BUSY -> pump_with (Some pk1) s = (s1, Ok []) ->
  s_state s1 = ST_BUSY -> pump_with (Some pk2) s1 = (s', Ok [pd]) -> onw pd -> find_fault fl 0 c1 = None -> nofault1 fl ->
  dguard pd dd ddone -> Dest.state_machine (Some pd) dd = (dd1, Ok tt) -> drain_d dd1 = (dd', outs) -> Forall onw outs ->
  s_state s' = ST_BUSY ->
  exists c2' rnd' scur' dcur' sdone' ddone' a,
    step_round (ZF fl s dd [] [pk1; pk2] c1 c2 rnd scur dcur sdone ddone) =
      (ZF fl s' dd' [] outs (c1 + 1) c2' rnd' scur' dcur' sdone' ddone', a) /\ 0 < a /\
    quiescent (ZF fl s' dd' [] outs (c1 + 1) c2' rnd' scur' dcur' sdone' ddone') = false.
Proof.
  intros fl s s1 s' pk1 pk2 pd dd dd1 dd' outs c1 c2 rnd scur dcur sdone ddone Hb0 P1 Hb1 P2 Ho Hf Hf1 G Hd Hdr Hos Hb.
  destruct (sphase_two fl s s1 s' pk1 pk2 [] [pd] dd c1 c2 (rnd + 1) scur dcur sdone ddone Hb0 P1 (Forall_nil _) Hb1 P2
              (Forall_cons _ Ho (Forall_nil _)) (nf0_one _ _ Hf)) as (sc & sd & a2 & E1 & Ha2).
  change (zlen (@nil pdu)) with 0 in *. change (zlen [pd]) with 1 in *. rewrite Z.add_0_r in E1. cbn [app] in E1.
  destruct (dphase_one fl s' dd dd1 dd' pd outs (c1 + 1) c2 (rnd + 1) sc dcur sd ddone a2 G Hd Hdr Hos Hf1)
    as (dc & dn & a3 & E2 & Ha3).
  do 6 eexists. exists a3. rewrite step_round_ZF, E1, E2. split; [reflexivity|]. split; [lia|]. apply q_busy. exact Hb.
Qed.

(* the last round: the sender finishes without a PDU, both handlers are idle *)
Lemma round_00 : forall fl s s' dd c1 c2 rnd scur dcur sdone ddone,
  pump s = (s', Ok []) -> nofault1 fl -> Dest.state_machine None dd = (dd, Ok tt) -> drain_d dd = (dd, []) ->
  s_state s' = ST_IDLE -> d_state dd = ST_IDLE ->
  exists c2' rnd' scur' dcur' sdone' ddone' a,
    step_round (ZF fl s dd [] [] c1 c2 rnd scur dcur sdone ddone) =
      (ZF fl s' dd [] [] c1 c2' rnd' scur' dcur' sdone' ddone', a) /\
    quiescent (ZF fl s' dd [] [] c1 c2' rnd' scur' dcur' sdone' ddone') = true.
Proof.
  intros fl s s' dd c1 c2 rnd scur dcur sdone ddone P Hf1 Hd Hdr Hs Hdd.
  destruct (sphase_none fl s s' [] dd c1 c2 (rnd + 1) scur dcur sdone ddone P (Forall_nil _) (nf0_zero _ _))
    as (sc & sd & a2 & E1 & Ha2).
  change (zlen (@nil pdu)) with 0 in *. rewrite Z.add_0_r in E1.
  destruct (dphase_none fl s' dd dd dd [] c1 c2 (rnd + 1) sc dcur sd ddone a2 Hd Hdr (Forall_nil _) Hf1)
    as (dc & dn & a3 & E2 & Ha3).
  do 6 eexists. exists a3. rewrite step_round_ZF, E1, E2. split; [reflexivity|].
  unfold quiescent, ZF. cbn [y_src y_dst y_s2d y_d2s y_delayed]. rewrite Hs, Hdd. reflexivity.
Qed.

(* ================================================================== *)
(* 4. the destination file while a tile is missing                     *)
(* ================================================================== *)
Lemma write_end : forall (P t : bytes) n, t <> [] -> zlen P <= n ->
  write_at P n t = P ++ zrepeat 0 (Z.to_nat n - length P) ++ t.
Proof.
  intros P t n Ht Hn. rewrite write_at_eq by exact Ht. unfold zlen in Hn.
  rewrite firstn_all2 by lia. rewrite skipn_all2 by lia. rewrite app_nil_r. reflexivity.
Qed.

Lemma write_mid : forall (P Zs R t : bytes), t <> [] -> length t = length Zs ->
  write_at (P ++ Zs ++ R) (zlen P) t = P ++ t ++ R.
Proof.
  intros P Zs R t Ht Hl. rewrite write_at_eq by exact Ht. unfold zlen. rewrite Nat2Z.id.
  rewrite firstn_exact. rewrite app_length. replace (length P - (length P + length (Zs ++ R)))%nat with 0%nat by lia.
  cbn [zrepeat app]. rewrite (app_assoc P Zs R). rewrite (skipn_exact _ (P ++ Zs) R) by (rewrite app_length; lia). reflexivity.
Qed.

Definition holed (d : bytes) (a b off : Z) : bytes :=
  ztake a d ++ zrepeat 0 (Z.to_nat (b - a)) ++ ztake (off - b) (zdrop b d).

Lemma len_ztake : forall (d : bytes) n, 0 <= n <= zlen d -> length (ztake n d) = Z.to_nat n.
Proof. intros d n H. pose proof (zlen_ztake _ n d ltac:(lia)) as E. unfold zlen in *. lia. Qed.

Lemma tile_ne : forall (d : bytes) seg off, 1 <= seg -> 0 <= off < zlen d -> ztake seg (zdrop off d) <> [].
Proof.
  intros d seg off H1 H2 E. pose proof (tile_len d seg off H1 H2) as Hl. rewrite E in Hl.
  change (zlen (@nil Z)) with 0 in Hl. lia.
Qed.

Lemma tile_take : forall (d : bytes) seg off, 1 <= seg -> 0 <= off < zlen d ->
  ztake (zlen (ztake seg (zdrop off d))) (zdrop off d) = ztake seg (zdrop off d).
Proof. intros d seg off H1 H2. rewrite tile_len by lia. apply ztake_min; lia. Qed.

Lemma zlen_holed : forall (d : bytes) a b off, 0 <= a <= b -> b <= off <= zlen d -> zlen (holed d a b off) = off.
Proof.
  intros d a b off H1 H2. unfold holed, zlen. rewrite !app_length, zrepeat_length.
  rewrite len_ztake by lia. pose proof (zlen_ztake _ (off - b) (zdrop b d) ltac:(lia)) as E.
  rewrite zlen_zdrop in E by lia. unfold zlen in *. lia.
Qed.

(* the tile after the lost one is written beyond the end of the file: zero fill *)
Lemma hole_make : forall (d : bytes) seg a b, 1 <= seg -> 0 <= a <= b -> b < zlen d ->
  write_at (ztake a d) b (ztake seg (zdrop b d)) = holed d a b (b + zlen (ztake seg (zdrop b d))).
Proof.
  intros d seg a b Hs H1 H2. rewrite write_end; [|apply tile_ne; lia|rewrite zlen_ztake by lia; lia].
  unfold holed. rewrite len_ztake by lia.
  replace (b + zlen (ztake seg (zdrop b d)) - b) with (zlen (ztake seg (zdrop b d))) by lia.
  rewrite tile_take by lia. replace (Z.to_nat b - Z.to_nat a)%nat with (Z.to_nat (b - a)) by lia. reflexivity.
Qed.

(* a later tile is appended *)
Lemma hole_ext : forall (d : bytes) seg a b off, 1 <= seg -> 0 <= a <= b -> b <= off -> off < zlen d ->
  write_at (holed d a b off) off (ztake seg (zdrop off d)) = holed d a b (off + zlen (ztake seg (zdrop off d))).
Proof.
  intros d seg a b off Hs H1 H2 H3.
  pose proof (zlen_holed d a b off H1 ltac:(lia)) as Hz.
  rewrite write_end; [|apply tile_ne; lia|lia].
  replace (Z.to_nat off - length (holed d a b off))%nat with 0%nat by (unfold zlen in Hz; lia).
  cbn [zrepeat app]. unfold holed. rewrite <- !app_assoc. f_equal. f_equal.
  set (t := ztake seg (zdrop off d)).
  replace (off + zlen t - b) with ((off - b) + zlen t) by lia.
  rewrite ztake_add by (unfold zlen; lia). unfold read_at. rewrite zdrop_zdrop by lia.
  replace (b + (off - b)) with off by lia. unfold t. rewrite tile_take by lia. reflexivity.
Qed.

(* the retransmitted tile replaces the zero fill *)
Lemma hole_fill : forall (d : bytes) seg a b off, 1 <= seg -> 0 <= a -> b = a + Z.min seg (zlen d - a) -> a < b ->
  b <= off <= zlen d ->
  write_at (holed d a b off) a (ztake seg (zdrop a d)) = ztake off d.
Proof.
  intros d seg a b off Hs H1 Hb H2 H3.
  assert (Ht : zlen (ztake seg (zdrop a d)) = b - a) by (rewrite tile_len by lia; lia).
  unfold holed.
  replace a with (zlen (ztake a d)) at 3 by (rewrite zlen_ztake by lia; lia).
  rewrite write_mid; [|apply tile_ne; lia|rewrite zrepeat_length; unfold zlen in Ht; lia].
  replace off with (a + ((b - a) + (off - b))) at 2 by lia.
  rewrite ztake_add by lia. f_equal. unfold read_at. rewrite ztake_add by lia. unfold read_at.
  rewrite zdrop_zdrop by lia. replace (a + (b - a)) with b by lia. f_equal.
  rewrite <- Ht. symmetry; apply tile_take; lia.
Qed.

(* ================================================================== *)
(* 5. the two-entity system with one dropped File Data PDU             *)
(* ================================================================== *)
Section SysX.
Variables (cs cd : lcfg) (p : putreq) (rs rd : rcfg) (sn : path) (x : Z) (data cks : bytes) (cf : sconf)
          (seg tick : Z) (clo : bool) (fss : tree) (maxn j : Z).
Hypothesis Hnames : pr_names p = Some (sn, [x]).
Hypothesis Hlook : lookup fss sn = Some (File data).
Hypothesis Hsn : sn <> [].
Hypothesis Hseg : 1 <= seg.
Hypothesis Hm : sc_mode cf = ACKED.
Hypothesis Hck : calculate_checksum (r_cktype rs) (Some data) (zlen data) seg = Ok cks.
Hypothesis Hck2 : calculate_checksum (r_cktype rs) (Some data) (zlen data) 4096 = Ok cks.
Hypothesis Hfins : l_ind_fin cs = true.
Hypothesis Hfind : l_ind_fin cd = true.
Hypothesis Hrem : get_remote (l_remotes cd) (sc_src cf) = Some rd.
Hypothesis Hdst : sc_dst cf = l_id cd.
Hypothesis Hacks : 0 < r_ack_ms rs.
Hypothesis Hackd : 0 < r_ack_ms rd.
Hypothesis Hnakd : 0 < r_nak_ms rd.
Hypothesis Hsrc : sc_src cf = l_id cs.
Hypothesis Hdstr : sc_dst cf = r_id rs.
Hypothesis Hmax : max_seg_reqs (r_max_packet rd) (hRB cd cf) = Some maxn.

(* the fault schedule: the PDU with index [j] towards the receiver is dropped *)
Definition fl : list fault := [mkFault 0 j 0 0].

Lemma ff_none : forall i, i <> j -> find_fault fl 0 i = None.
Proof.
  intros i H. unfold fl. cbn [find_fault ft_dir ft_index]. change (0 =? 0) with true. cbn [andb].
  replace (j =? i) with false by (symmetry; apply Z.eqb_neq; lia). reflexivity.
Qed.
Lemma ff_hit : find_fault fl 0 j = Some (mkFault 0 j 0 0).
Proof. unfold fl. cbn [find_fault ft_dir ft_index]. change (0 =? 0) with true. cbn [andb]. rewrite Z.eqb_refl. reflexivity. Qed.
Lemma ff1 : nofault1 fl.
Proof. intro i. reflexivity. Qed.
Lemma nf_past : forall c n, j < c -> nofault0 fl c n.
Proof. intros c n H i Hi. apply ff_none. lia. Qed.

Local Notation hRA' := (hRA cd cf).
Local Notation RA f :=
  (f cd rd x (sc_crc cf) (sc_large cf) clo (sc_src cf) (sc_srcw cf) (sc_seq cf) (sc_seqw cf) (r_cktype rs) (zlen data))
  (only parsing).
Local Notation DRx := (RA DR) (only parsing).
Local Notation DGx := (RA DG) (only parsing).
Local Notation DMx := (RA DM) (only parsing).
Local Notation DWXx := (RA DWX) (only parsing).
Local Notation DF8x := (RA DF8) (only parsing).
Local Notation nakIx := (nakI cd (sc_crc cf) (sc_large cf) (sc_src cf) (sc_srcw cf) (sc_seq cf) (sc_seqw cf)) (only parsing).
Local Notation InvAx := (InvA cs p rs fss data cf seg clo (tidA cf)) (only parsing).
Local Notation InvRx := (InvR cs p rs fss data cf seg clo (tidA cf)) (only parsing).
Local Notation TailXx := (TailX cs p rs fss data cf seg (tidA cf)) (only parsing).
Local Notation Tailx := (Tail cs p rs cf (tidA cf)) (only parsing).

Definition nxt (off : Z) : Z := off + Z.min seg (zlen data - off).
Definition tl (off : Z) : bytes := ztake seg (zdrop off data).
Definition tileP (off : Z) : pdu := PFileData hRA' off (tl off).

Lemma tile_eq : forall a, tileAt data cf seg a = tileP a.
Proof. intro a. unfold tileAt, tileP, tl. rewrite (hdr_eq_a cd cf Hm Hdst). reflexivity. Qed.
Lemma nak_eq : forall a b e, nakP cf 0 e a b = nakIx a b e.
Proof. intros. unfold nakP, nakI. rewrite (hdr_eq_b cd cf Hm Hdst). reflexivity. Qed.
Lemma tl_len : forall off, 0 <= off < zlen data -> zlen (tl off) = nxt off - off.
Proof. intros off H. unfold tl, nxt. rewrite tile_len by lia. lia. Qed.
Lemma tl_pos : forall off, 0 <= off < zlen data -> 0 < zlen (tl off).
Proof. intros off H. rewrite tl_len by exact H. unfold nxt. lia. Qed.
Lemma tile_onw : forall off, 0 <= off < zlen data -> onw (tileP off).
Proof.
  intros off H. pose proof (tl_pos off H) as Hp. unfold onw, tileP. destruct (tl off); [change (zlen (@nil Z)) with 0 in Hp; lia|].
  reflexivity.
Qed.
Lemma nxt_le : forall off, 0 <= off < zlen data -> off < nxt off <= zlen data.
Proof. intros off H. unfold nxt. lia. Qed.

Lemma hole_make' : forall a b, 0 <= a <= b -> b < zlen data -> write_at (ztake a data) b (tl b) = holed data a b (nxt b).
Proof.
  intros a b H1 H2. unfold tl. rewrite (hole_make data seg a b Hseg H1 H2). fold (tl b). rewrite tl_len by lia.
  f_equal. lia.
Qed.
Lemma hole_ext' : forall a b off, 0 <= a <= b -> b <= off -> off < zlen data ->
  write_at (holed data a b off) off (tl off) = holed data a b (nxt off).
Proof.
  intros a b off H1 H2 H3. unfold tl. rewrite (hole_ext data seg a b off Hseg H1 H2 H3). fold (tl off).
  rewrite tl_len by lia. f_equal. lia.
Qed.
Lemma hole_fill' : forall a off, 0 <= a < zlen data -> nxt a <= off <= zlen data ->
  write_at (holed data a (nxt a) off) a (tl a) = ztake off data.
Proof. intros a off H1 H2. unfold tl. apply (hole_fill data seg a (nxt a) off Hseg); unfold nxt in *; lia. Qed.

Lemma clean_seg : forall a b c d lg, clean lg -> clean (if l_ind_seg cd then EvSegmentRecv a b c d :: lg else lg).
Proof. intros. destruct (l_ind_seg cd); [apply clean_cons; [reflexivity|reflexivity|assumption] | assumption]. Qed.
Lemma clean_eofr : forall a b lg, clean lg -> clean ((if l_ind_eof_recv cd then [EvEofRecv a b] else []) ++ lg).
Proof.
  intros. apply clean_app; [|assumption].
  destruct (l_ind_eof_recv cd); [apply clean_cons; [reflexivity|reflexivity|apply clean_nil] | apply clean_nil].
Qed.

Lemma look_set : forall fs n, lookup (set_node fs [x] n) [x] = Some n.
Proof. intros. rewrite lookup_set_node by discriminate. rewrite path_eqb_refl. reflexivity. Qed.

(* the system between two rounds: nothing towards the receiver, [q] towards the sender, [c1] PDUs sent so far *)
Definition at_ (s : src) (dd : dst) (q : list pdu) (c1 : Z) (y : sys) : Prop :=
  exists c2 rnd scur dcur sdone ddone, y = ZF fl s dd [] q c1 c2 rnd scur dcur sdone ddone.

Ltac close_round R Ha Q :=
  eexists; split; [exact (reach_step tick _ _ _ R Ha Q)|].
Ltac at_here := unfold at_; do 6 eexists; reflexivity.

Lemma busy_guard : forall pd dd ddone, pdu_hdr pd = hRA' -> d_state dd = ST_BUSY ->
  p_tid (d_p dd) = Some (sc_src cf, sc_seq cf) -> dguard pd dd ddone.
Proof. intros. apply dbusy_guard. split; [assumption|]. rewrite H. assumption. Qed.

(* ---- before the loss: as on a perfect link *)
Definition SInvF (off c1 : Z) (y : sys) : Prop :=
  exists s ls fs lg,
    at_ s (DRx off [] ls off fs lg) [] c1 y /\ InvAx off s /\
    lookup fs [x] = Some (File (ztake off data)) /\ clean lg.

Lemma round_md_f : forall s1 s3,
  pump s1 = (s3, Ok [PMetadata (hdr_of cf TOWARDS_RECEIVER) clo (r_cktype rs) (zlen data) (Some (sn, [x])) []]) ->
  InvAx 0 s3 -> 0 <> j ->
  exists y', reach tick (ZF fl s1 (dst_init cd) [] [] 0 0 0 None None [] []) y' /\ SInvF 0 1 y'.
Proof.
  intros s1 s3 P HI Hj. rewrite (hdr_eq_a cd cf Hm Hdst) in P.
  pose proof (sm_md_a cd rd x (sc_crc cf) (sc_large cf) clo (sc_src cf) (sc_srcw cf) (sc_seq cf) (sc_seqw cf)
                (r_cktype rs) (zlen data) Hrem sn []) as Hsm.
  destruct (round_n1 fl s1 s3 _ (dst_init cd) _ _ [] 0 0 0 None None [] [] P eq_refl (ff_none 0 Hj) ff1
              (conj eq_refl eq_refl) Hsm eq_refl (Forall_nil _) (InvA_busy _ _ _ _ _ _ _ _ _ _ _ HI))
    as (c2' & rnd' & sc & dc & sd & dn & a & R & Ha & Q).
  close_round R Ha Q.
  do 4 eexists. split; [at_here|]. split; [exact HI|]. split.
  - cbn [lookup lookup_raw path_eqb]. rewrite Z.eqb_refl. reflexivity.
  - apply clean_cons; [reflexivity|reflexivity|apply clean_nil].
Qed.

Lemma InvAx_range : forall off s, InvAx off s -> 0 <= off <= zlen data.
Proof. intros off s H. exact (InvA_range _ _ _ _ _ _ _ _ _ _ _ H). Qed.

Lemma round_fd_f : forall off c1 y, SInvF off c1 y -> off < zlen data -> c1 <> j ->
  exists y', reach tick y y' /\ SInvF (nxt off) (c1 + 1) y'.
Proof.
  intros off c1 y (s & ls & fs & lg & (c2 & rnd & scur & dcur & sdone & ddone & ->) & HI & Hl & Hc) Hlt Hj.
  pose proof (InvAx_range _ _ HI) as Hr.
  destruct (step_fd_a cs p rs fss data cf seg clo (tidA cf) sn [x] Hnames Hlook Hseg Hm off s HI Hlt) as (s' & P & HI').
  change (fd_of (hdr_of cf TOWARDS_RECEIVER) (off, ztake seg (zdrop off data))) with (tileAt data cf seg off) in P.
  rewrite tile_eq in P.
  pose proof (sm_fd_inorder cd rd x (sc_crc cf) (sc_large cf) clo (sc_src cf) (sc_srcw cf) (sc_seq cf) (sc_seqw cf)
                (r_cktype rs) (zlen data) Hrem off [] ls (tl off) fs lg _ Hl (tl_pos off ltac:(lia))) as Hsm.
  rewrite Z.max_l in Hsm by (pose proof (tl_pos off ltac:(lia)); lia).
  rewrite tl_len in Hsm by lia. replace (off + (nxt off - off)) with (nxt off) in Hsm by lia.
  assert (G : dguard (tileP off) (DRx off [] ls off fs lg) ddone) by (apply busy_guard; reflexivity).
  destruct (round_n1 fl s s' _ _ _ _ [] c1 c2 rnd scur dcur sdone ddone P (tile_onw off ltac:(lia)) (ff_none c1 Hj) ff1
              G Hsm eq_refl (Forall_nil _)
              (InvA_busy _ _ _ _ _ _ _ _ _ _ _ HI'))
    as (c2' & rnd' & sc & dc & sd & dn & a & R & Ha & Q).
  close_round R Ha Q.
  do 4 eexists. split; [at_here|]. split; [exact HI'|]. split.
  - rewrite look_set. f_equal. f_equal. apply write_append; lia.
  - apply clean_seg. exact Hc.
Qed.

(* ---- the loss: the sender goes on, the receiver is called without a PDU *)
Definition SDrop (a : Z) (y : sys) : Prop :=
  exists s ls fs lg c1, j < c1 /\
    at_ s (DRx a [] ls a fs lg) [] c1 y /\ InvAx (nxt a) s /\
    lookup fs [x] = Some (File (ztake a data)) /\ clean lg.

Lemma round_drop_f : forall a y, SInvF a j y -> a < zlen data ->
  exists y', reach tick y y' /\ SDrop a y'.
Proof.
  intros a y (s & ls & fs & lg & (c2 & rnd & scur & dcur & sdone & ddone & ->) & HI & Hl & Hc) Hlt.
  pose proof (InvAx_range _ _ HI) as Hr.
  destruct (step_fd_a cs p rs fss data cf seg clo (tidA cf) sn [x] Hnames Hlook Hseg Hm a s HI Hlt) as (s' & P & HI').
  change (fd_of (hdr_of cf TOWARDS_RECEIVER) (a, ztake seg (zdrop a data))) with (tileAt data cf seg a) in P.
  rewrite tile_eq in P.
  pose proof (sm_none_recv cd rd x (sc_crc cf) (sc_large cf) clo (sc_src cf) (sc_srcw cf) (sc_seq cf) (sc_seqw cf)
                (r_cktype rs) (zlen data) a [] ls a fs lg) as Hsm.
  destruct (round_drop fl s s' _ _ _ _ [] j c2 rnd scur dcur sdone ddone P (tile_onw a ltac:(lia)) ff_hit ff1
              Hsm eq_refl (Forall_nil _) (InvA_busy _ _ _ _ _ _ _ _ _ _ _ HI'))
    as (c2' & rnd' & sc & dc & sd & dn & a0 & R & Ha & Q).
  close_round R Ha Q.
  exists s', ls, fs, lg, (j + 1). split; [lia|]. split; [at_here|]. split; [exact HI'|]. split; assumption.
Qed.

(* ---- the end of every run: Finished PDU, its ACK, completion *)
Definition fstatT : option (Z * Z * Z * option (Z * Z)) := Some (C_NO_ERROR, DATA_COMPLETE, FS_RETAINED, None).

(* the Finished PDU is on its way to a sender that has just retransmitted the missing tile *)
Definition SW (y : sys) : Prop :=
  exists s ls le pt fs lg c1, j < c1 /\
    at_ s (DWXx 0 [] cks ls le pt fs (evFinD cf :: lg)) [finPA cd cf] c1 y /\
    TailXx SS_RETRANSMITTING (Some SS_WAITING_FOR_FINISHED) None s /\
    lookup fs [x] = Some (File data) /\ clean lg.
(* the receiver is done, the sender has sent ACK(Finished) *)
Definition S3F (y : sys) : Prop :=
  exists s fs lg c1,
    at_ s (DFA cd cf fs (evFinD cf :: lg)) [] c1 y /\ Tailx SS_SENDING_ACK_OF_FINISHED fstatT s /\
    lookup fs [x] = Some (File data) /\ clean lg.
Definition FinalF (y : sys) : Prop :=
  exists s fs lgs lgd c1 c2 rnd scur dcur sdone ddone,
    y = ZF fl s (DFA cd cf fs (evFinD cf :: lgd)) [] [] c1 c2 rnd scur dcur sdone ddone /\
    e_log (s_env s) = EvFinished (sc_src cf) (sc_seq cf) C_NO_ERROR DATA_COMPLETE FS_RETAINED None :: lgs /\
    clean lgs /\ clean lgd /\ lookup fs [x] = Some (File data).

Definition ackF : pdu := PAck hRA' D_FINISHED C_NO_ERROR TS_ACTIVE.

Lemma round_fin_retx : forall y, SW y -> exists y', reach tick y y' /\ S3F y'.
Proof.
  intros y (s & ls & le & pt & fs & lg & c1 & Hc1 & (c2 & rnd & scur & dcur & sdone & ddone & ->) & HT & Hl & Hc).
  destruct (step_fin_retx cs p rs fss data cf seg (tidA cf) Hm Hsrc Hdstr s FS_RETAINED HT) as (s' & P & HT').
  rewrite (hdr_eq_b cd cf Hm Hdst), (hdr_eq_a cd cf Hm Hdst) in P. fold (finPA cd cf) in P. fold ackF in P.
  pose proof (sm_ack_fin_x cd rd x (sc_crc cf) (sc_large cf) clo (sc_src cf) (sc_srcw cf) (sc_seq cf) (sc_seqw cf)
                (r_cktype rs) (zlen data) Hrem C_NO_ERROR TS_ACTIVE cks ls le pt fs (evFinD cf :: lg)) as Hsm.
  assert (G : dguard ackF (DWXx 0 [] cks ls le pt fs (evFinD cf :: lg)) ddone) by (apply busy_guard; reflexivity).
  destruct (round_11 fl s s' _ _ _ _ _ [] c1 c2 rnd scur dcur sdone ddone (TailX_busy _ _ _ _ _ _ _ _ _ _ _ _ HT) P
              eq_refl (ff_none c1 ltac:(lia)) ff1 G Hsm eq_refl (Forall_nil _) (Tail_busy _ _ _ _ _ _ _ HT'))
    as (c2' & rnd' & sc & dc & sd & dn & a & R & Ha & Q).
  close_round R Ha Q.
  do 4 eexists. split; [at_here|]. split; [exact HT'|]. split; assumption.
Qed.

Lemma round_done_f : forall y, S3F y -> exists y' a, step_round y = (y', a) /\ quiescent y' = true /\ FinalF y'.
Proof.
  intros y (s & fs & lg & c1 & (c2 & rnd & scur & dcur & sdone & ddone & ->) & HT & Hl & Hc).
  destruct (step_done cs p rs cf (tidA cf) Hfins s FS_RETAINED HT) as (s' & lg0 & P & Hst & Hlog & Hc0).
  pose proof (sm_idle_none cd (sc_src cf) (sc_seq cf) fs (evFinD cf :: lg)) as Hsm.
  destruct (round_00 fl s s' _ c1 c2 rnd scur dcur sdone ddone P ff1 Hsm eq_refl Hst eq_refl)
    as (c2' & rnd' & sc & dc & sd & dn & a & R & Q).
  eexists. exists a. split; [exact R|]. split; [exact Q|].
  do 11 eexists. split; [reflexivity|]. split; [exact Hlog|]. split; [exact Hc0|]. split; assumption.
Qed.

(* a run that ends, quiescent, in a state the verdict accepts *)
Definition fin_ok (y : sys) : Prop := exists fuel y', run fuel tick y = (y', true) /\ FinalF y'.

Lemma fin_reach : forall y y0, reach tick y y0 -> fin_ok y0 -> fin_ok y.
Proof.
  intros y y0 [m H] (fuel & y' & R & F). exists (m + fuel)%nat, y'. split; [|exact F]. rewrite H. exact R.
Qed.

Lemma fin_SW : forall y, SW y -> fin_ok y.
Proof.
  intros y H. destruct (round_fin_retx y H) as (y1 & R1 & H1).
  destruct (round_done_f y1 H1) as (y2 & a & R2 & Q2 & F).
  apply (fin_reach y y1 R1). exists 1%nat, y2. split; [|exact F].
  change 1%nat with (S 0). rewrite run_S, R2. cbv iota beta. rewrite Q2. reflexivity.
Qed.

(* ---- the deferred lost-segment procedure recovers the tile [a, b) *)
(* after the EOF round: ACK(EOF) on its way, the gap on record; [F] is the destination file *)
Definition SG (prog a b : Z) (y : sys) : Prop :=
  exists s sb ls le fs lg c1 F, j < c1 /\
    at_ s (DGx 0 [] prog cks [(a, b)] ls le fs lg) [ackEA cd cf] c1 y /\
    TailXx SS_WAITING_FOR_EOF_ACK sb None s /\
    lookup fs [x] = Some (File F) /\ write_at F a (tl a) = data /\ clean lg.
(* after the next round: the NAK PDU on its way *)
Definition SM (prog a b : Z) (y : sys) : Prop :=
  exists s sb fs lg c1 F, j < c1 /\
    at_ s (DMx 0 [] prog cks [(a, b)] fs lg) [nakIx a b (zlen data)] c1 y /\
    TailXx SS_WAITING_FOR_FINISHED sb None s /\
    lookup fs [x] = Some (File F) /\ write_at F a (tl a) = data /\ clean lg.

Lemma round_ack_eof_g : forall prog a b y, SG prog a b y -> exists y', reach tick y y' /\ SM prog a b y'.
Proof.
  intros prog a b y (s & sb & ls & le & fs & lg & c1 & F & Hc1 & (c2 & rnd & scur & dcur & sdone & ddone & ->) &
                     HT & Hl & HF & Hc).
  destruct (step_ack_eof_x cs p rs fss data cf seg (tidA cf) Hm Hsrc Hdstr s sb C_NO_ERROR TS_ACTIVE HT) as (s' & P & HT').
  rewrite (hdr_eq_b cd cf Hm Hdst) in P. fold (ackEA cd cf) in P.
  pose proof (sm_defer_start cd rd x (sc_crc cf) (sc_large cf) clo (sc_src cf) (sc_srcw cf) (sc_seq cf) (sc_seqw cf)
                (r_cktype rs) (zlen data) Hnakd maxn Hmax prog cks a b ls le fs lg) as Hsm.
  destruct (round_10 fl s s' _ _ _ _ _ c1 c2 rnd scur dcur sdone ddone (TailX_busy _ _ _ _ _ _ _ _ _ _ _ _ HT) P ff1
              Hsm eq_refl (Forall_cons (nakIx a b (zlen data)) eq_refl (Forall_nil _)) (TailX_busy _ _ _ _ _ _ _ _ _ _ _ _ HT'))
    as (c2' & rnd' & sc & dc & sd & dn & a0 & R & Ha & Q).
  close_round R Ha Q.
  exists s', sb, fs, lg, c1, F. split; [exact Hc1|]. split; [at_here|]. split; [exact HT'|]. split; [exact Hl|]. split; [exact HF|exact Hc].
Qed.

Lemma round_nak_fill : forall prog a y, SM prog a (nxt a) y -> 0 <= a < zlen data -> Z.max (nxt a) prog = zlen data ->
  exists y', reach tick y y' /\ SW y'.
Proof.
  intros prog a y (s & sb & fs & lg & c1 & F & Hc1 & (c2 & rnd & scur & dcur & sdone & ddone & ->) &
                   HT & Hl & HF & Hc) Ha Hmx.
  pose proof (nxt_le a Ha) as Hn.
  destruct (step_nak_fin cs p rs fss data cf seg (tidA cf) sn [x] Hnames Hlook Hsn Hseg Hm Hsrc Hdstr s sb 0 (zlen data)
              a (nxt a) HT ltac:(lia) ltac:(lia) eq_refl) as (s' & P & HT').
  rewrite nak_eq, tile_eq in P.
  pose proof (sm_fill_defer cd rd x (sc_crc cf) (sc_large cf) clo (sc_src cf) (sc_srcw cf) (sc_seq cf) (sc_seqw cf)
                (r_cktype rs) (zlen data) Hrem Hfind Hackd a prog cks (tl a) fs lg F data Hl (tl_pos a Ha)) as Hsm.
  rewrite (tl_len a Ha) in Hsm. replace (a + (nxt a - a)) with (nxt a) in Hsm by lia.
  specialize (Hsm ltac:(lia) Hmx HF Hck2).
  assert (G : dguard (tileP a) (DMx 0 [] prog cks [(a, nxt a)] fs lg) ddone) by (apply busy_guard; reflexivity).
  destruct (round_11 fl s s' _ _ _ _ _ _ c1 c2 rnd scur dcur sdone ddone (TailX_busy _ _ _ _ _ _ _ _ _ _ _ _ HT) P
              (tile_onw a Ha) (ff_none c1 ltac:(lia)) ff1 G Hsm eq_refl (Forall_cons (finPA cd cf) eq_refl (Forall_nil _))
              (TailX_busy _ _ _ _ _ _ _ _ _ _ _ _ HT'))
    as (c2' & rnd' & sc & dc & sd & dn & a0 & R & Ha0 & Q).
  close_round R Ha0 Q.
  do 6 eexists. exists (c1 + 1). split; [lia|]. split; [at_here|]. split; [exact HT'|]. split; [apply look_set|].
  apply clean_seg. exact Hc.
Qed.

Lemma fin_SG : forall prog a y, SG prog a (nxt a) y -> 0 <= a < zlen data -> Z.max (nxt a) prog = zlen data -> fin_ok y.
Proof.
  intros prog a y H Ha Hmx.
  destruct (round_ack_eof_g _ _ _ y H) as (y1 & R1 & H1).
  destruct (round_nak_fill _ _ y1 H1 Ha Hmx) as (y2 & R2 & H2).
  apply (fin_reach y y1 R1). apply (fin_reach y1 y2 R2). apply fin_SW. exact H2.
Qed.

Definition eofX : pdu := PEof hRA' C_NO_ERROR cks (zlen data) None.
Lemma eof_eq : eofP data cks cf = eofX.
Proof. unfold eofP, eofX. rewrite (hdr_eq_a cd cf Hm Hdst). reflexivity. Qed.

(* ---- the lost tile is the last one: the EOF PDU reveals the gap *)
Lemma round_eof_short : forall a y, SDrop a y -> 0 <= a < zlen data -> nxt a = zlen data ->
  exists y', reach tick y y' /\ SG a a (zlen data) y'.
Proof.
  intros a y (s & ls & fs & lg & c1 & Hc1 & (c2 & rnd & scur & dcur & sdone & ddone & ->) & HI & Hl & Hc) Ha Hn.
  rewrite Hn in HI.
  destruct (step_final_x cs p rs fss data cks cf seg clo (tidA cf) sn [x] Hnames Hlook Hm Hck Hacks s HI)
    as (s' & sb & P & HT).
  rewrite eof_eq in P.
  pose proof (sm_eof_short cd rd x (sc_crc cf) (sc_large cf) clo (sc_src cf) (sc_srcw cf) (sc_seq cf) (sc_seqw cf)
                (r_cktype rs) (zlen data) Hrem cks None a ls a fs lg ltac:(lia)) as Hsm.
  assert (G : dguard eofX (DRx a [] ls a fs lg) ddone) by (apply busy_guard; reflexivity).
  destruct (round_n1 fl s s' _ _ _ _ _ c1 c2 rnd scur dcur sdone ddone P eq_refl (ff_none c1 ltac:(lia)) ff1 G Hsm eq_refl
              (Forall_cons (ackEA cd cf) eq_refl (Forall_nil _)) (TailX_busy _ _ _ _ _ _ _ _ _ _ _ _ HT))
    as (c2' & rnd' & sc & dc & sd & dn & a0 & R & Ha0 & Q).
  close_round R Ha0 Q.
  do 6 eexists. exists (c1 + 1), (ztake a data). split; [lia|]. split; [at_here|]. split; [exact HT|]. split; [exact Hl|]. split.
  - unfold tl. rewrite write_append by lia. fold (nxt a). rewrite Hn. apply ztake_all.
  - apply clean_eofr. exact Hc.
Qed.

(* ---- deferred NAK mode, the lost tile is not the last one: the gap is recorded, requested after the EOF PDU *)
Definition SGapD (a b off : Z) (y : sys) : Prop :=
  exists s ls fs lg c1, j < c1 /\
    at_ s (DRx off [(a, b)] ls off fs lg) [] c1 y /\ InvAx off s /\
    lookup fs [x] = Some (File (holed data a b off)) /\ clean lg.

Lemma round_gap_def : forall a y, SDrop a y -> 0 <= a -> nxt a < zlen data -> r_imm_nak rd = false ->
  exists y', reach tick y y' /\ SGapD a (nxt a) (nxt (nxt a)) y'.
Proof.
  intros a y (s & ls & fs & lg & c1 & Hc1 & (c2 & rnd & scur & dcur & sdone & ddone & ->) & HI & Hl & Hc) Ha Hb Himm.
  set (b := nxt a) in *.
  assert (Hab : a < b) by (unfold b, nxt in *; lia).
  destruct (step_fd_a cs p rs fss data cf seg clo (tidA cf) sn [x] Hnames Hlook Hseg Hm b s HI Hb) as (s' & P & HI').
  change (fd_of (hdr_of cf TOWARDS_RECEIVER) (b, ztake seg (zdrop b data))) with (tileAt data cf seg b) in P.
  rewrite tile_eq in P.
  pose proof (sm_fd_gap_def cd rd x (sc_crc cf) (sc_large cf) clo (sc_src cf) (sc_srcw cf) (sc_seq cf) (sc_seqw cf)
                (r_cktype rs) (zlen data) Hrem a b ls (tl b) fs lg _ Hl (tl_pos b ltac:(lia)) Hab Himm) as Hsm.
  pose proof (tl_pos b ltac:(lia)) as Hp.
  rewrite Z.max_l in Hsm by lia. rewrite (hole_make' a b ltac:(lia) Hb) in Hsm.
  rewrite (tl_len b ltac:(lia)) in Hsm. replace (b + (nxt b - b)) with (nxt b) in Hsm by lia.
  assert (G : dguard (tileP b) (DRx a [] ls a fs lg) ddone) by (apply busy_guard; reflexivity).
  destruct (round_n1 fl s s' _ _ _ _ _ c1 c2 rnd scur dcur sdone ddone P (tile_onw b ltac:(lia)) (ff_none c1 ltac:(lia)) ff1
              G Hsm eq_refl (Forall_nil _) (InvA_busy _ _ _ _ _ _ _ _ _ _ _ HI'))
    as (c2' & rnd' & sc & dc & sd & dn & a0 & R & Ha0 & Q).
  close_round R Ha0 Q.
  do 4 eexists. exists (c1 + 1). split; [lia|]. split; [at_here|]. split; [exact HI'|]. split; [apply look_set|].
  apply clean_seg. exact Hc.
Qed.

Lemma round_fd_gapD : forall a b off y, SGapD a b off y -> 0 <= a <= b -> b <= off -> off < zlen data ->
  exists y', reach tick y y' /\ SGapD a b (nxt off) y'.
Proof.
  intros a b off y (s & ls & fs & lg & c1 & Hc1 & (c2 & rnd & scur & dcur & sdone & ddone & ->) & HI & Hl & Hc) Hab Hbo Hlt.
  destruct (step_fd_a cs p rs fss data cf seg clo (tidA cf) sn [x] Hnames Hlook Hseg Hm off s HI Hlt) as (s' & P & HI').
  change (fd_of (hdr_of cf TOWARDS_RECEIVER) (off, ztake seg (zdrop off data))) with (tileAt data cf seg off) in P.
  rewrite tile_eq in P.
  pose proof (tl_pos off ltac:(lia)) as Hp.
  pose proof (sm_fd_inorder cd rd x (sc_crc cf) (sc_large cf) clo (sc_src cf) (sc_srcw cf) (sc_seq cf) (sc_seqw cf)
                (r_cktype rs) (zlen data) Hrem off [(a, b)] ls (tl off) fs lg _ Hl Hp) as Hsm.
  rewrite Z.max_l in Hsm by lia. rewrite (hole_ext' a b off Hab Hbo Hlt) in Hsm.
  rewrite (tl_len off ltac:(lia)) in Hsm. replace (off + (nxt off - off)) with (nxt off) in Hsm by lia.
  assert (G : dguard (tileP off) (DRx off [(a, b)] ls off fs lg) ddone) by (apply busy_guard; reflexivity).
  destruct (round_n1 fl s s' _ _ _ _ _ c1 c2 rnd scur dcur sdone ddone P (tile_onw off ltac:(lia)) (ff_none c1 ltac:(lia)) ff1
              G Hsm eq_refl (Forall_nil _) (InvA_busy _ _ _ _ _ _ _ _ _ _ _ HI'))
    as (c2' & rnd' & sc & dc & sd & dn & a0 & R & Ha0 & Q).
  close_round R Ha0 Q.
  do 4 eexists. exists (c1 + 1). split; [lia|]. split; [at_here|]. split; [exact HI'|]. split; [apply look_set|].
  apply clean_seg. exact Hc.
Qed.

Lemma nxt_drop : forall off n, 0 <= off < zlen data -> (length (zdrop off data) <= S n)%nat ->
  (length (zdrop (nxt off) data) <= n)%nat.
Proof.
  intros off n H Hn.
  assert (Hz : zlen (zdrop off data) = Z.max 0 (zlen data - off)) by (apply zlen_zdrop; lia).
  assert (Hz' : zlen (zdrop (nxt off) data) = Z.max 0 (zlen data - nxt off)) by (apply zlen_zdrop; unfold nxt; lia).
  unfold zlen in Hz, Hz'. unfold nxt in *. lia.
Qed.

Lemma run_gapD : forall n a b off y, SGapD a b off y -> 0 <= a <= b -> b <= off <= zlen data ->
  (length (zdrop off data) <= n)%nat ->
  exists y', reach tick y y' /\ SGapD a b (zlen data) y'.
Proof.
  induction n as [|n IH]; intros a b off y HS Hab Hbo Hn.
  - assert (Hz : zlen (zdrop off data) = 0) by (unfold zlen; lia).
    rewrite zlen_zdrop in Hz by lia. assert (off = zlen data) by lia. subst off.
    exists y. split; [apply reach_refl|exact HS].
  - destruct (Z.eq_dec off (zlen data)) as [He|He].
    + subst off. exists y. split; [apply reach_refl|exact HS].
    + destruct (round_fd_gapD a b off y HS Hab ltac:(lia) ltac:(lia)) as (y1 & R1 & H1).
      pose proof (nxt_le off ltac:(lia)) as Hnx.
      destruct (IH a b (nxt off) y1 H1 Hab ltac:(lia) (nxt_drop off n ltac:(lia) Hn)) as (y2 & R2 & H2).
      exists y2. split; [exact (reach_trans tick _ _ _ R1 R2)|exact H2].
Qed.

Lemma round_eof_gapD : forall a y, SGapD a (nxt a) (zlen data) y -> 0 <= a -> nxt a < zlen data ->
  exists y', reach tick y y' /\ SG (zlen data) a (nxt a) y'.
Proof.
  intros a y (s & ls & fs & lg & c1 & Hc1 & (c2 & rnd & scur & dcur & sdone & ddone & ->) & HI & Hl & Hc) Ha Hb.
  destruct (step_final_x cs p rs fss data cks cf seg clo (tidA cf) sn [x] Hnames Hlook Hm Hck Hacks s HI)
    as (s' & sb & P & HT).
  rewrite eof_eq in P.
  pose proof (sm_eof_gap cd rd x (sc_crc cf) (sc_large cf) clo (sc_src cf) (sc_srcw cf) (sc_seq cf) (sc_seqw cf)
                (r_cktype rs) (zlen data) Hrem cks None [(a, nxt a)] ls (zlen data) fs lg) as Hsm.
  assert (G : dguard eofX (DRx (zlen data) [(a, nxt a)] ls (zlen data) fs lg) ddone) by (apply busy_guard; reflexivity).
  destruct (round_n1 fl s s' _ _ _ _ _ c1 c2 rnd scur dcur sdone ddone P eq_refl (ff_none c1 ltac:(lia)) ff1 G Hsm eq_refl
              (Forall_cons (ackEA cd cf) eq_refl (Forall_nil _)) (TailX_busy _ _ _ _ _ _ _ _ _ _ _ _ HT))
    as (c2' & rnd' & sc & dc & sd & dn & a0 & R & Ha0 & Q).
  close_round R Ha0 Q.
  do 6 eexists. exists (c1 + 1), (holed data a (nxt a) (zlen data)).
  split; [lia|]. split; [at_here|]. split; [exact HT|]. split; [exact Hl|]. split.
  - rewrite hole_fill' by (unfold nxt in *; lia). apply ztake_all.
  - apply clean_eofr. exact Hc.
Qed.

(* ---- immediate NAK mode, the lost tile is not the last one: the next tile triggers a NAK PDU *)
Definition SNak (a b off : Z) (y : sys) : Prop :=
  exists s fs lg c1, j < c1 /\
    at_ s (DRx off [(a, b)] b off fs lg) [nakIx a b off] c1 y /\ InvAx off s /\
    lookup fs [x] = Some (File (holed data a b off)) /\ clean lg.

Lemma round_gap_imm : forall a y, SDrop a y -> 0 <= a -> nxt a < zlen data -> r_imm_nak rd = true ->
  exists y', reach tick y y' /\ SNak a (nxt a) (nxt (nxt a)) y'.
Proof.
  intros a y (s & ls & fs & lg & c1 & Hc1 & (c2 & rnd & scur & dcur & sdone & ddone & ->) & HI & Hl & Hc) Ha Hb Himm.
  set (b := nxt a) in *.
  assert (Hab : a < b) by (unfold b, nxt in *; lia).
  destruct (step_fd_a cs p rs fss data cf seg clo (tidA cf) sn [x] Hnames Hlook Hseg Hm b s HI Hb) as (s' & P & HI').
  change (fd_of (hdr_of cf TOWARDS_RECEIVER) (b, ztake seg (zdrop b data))) with (tileAt data cf seg b) in P.
  rewrite tile_eq in P.
  pose proof (sm_fd_gap_imm cd rd x (sc_crc cf) (sc_large cf) clo (sc_src cf) (sc_srcw cf) (sc_seq cf) (sc_seqw cf)
                (r_cktype rs) (zlen data) Hrem a b ls (tl b) fs lg _ Hl (tl_pos b ltac:(lia)) Hab Himm) as Hsm.
  pose proof (tl_pos b ltac:(lia)) as Hp.
  rewrite Z.max_l in Hsm by lia. rewrite (hole_make' a b ltac:(lia) Hb) in Hsm.
  rewrite (tl_len b ltac:(lia)) in Hsm. replace (b + (nxt b - b)) with (nxt b) in Hsm by lia.
  assert (G : dguard (tileP b) (DRx a [] ls a fs lg) ddone) by (apply busy_guard; reflexivity).
  destruct (round_n1 fl s s' _ _ _ _ _ c1 c2 rnd scur dcur sdone ddone P (tile_onw b ltac:(lia)) (ff_none c1 ltac:(lia)) ff1
              G Hsm eq_refl (Forall_cons (nakIx a b (nxt b)) eq_refl (Forall_nil _)) (InvA_busy _ _ _ _ _ _ _ _ _ _ _ HI'))
    as (c2' & rnd' & sc & dc & sd & dn & a0 & R & Ha0 & Q).
  close_round R Ha0 Q.
  do 3 eexists. exists (c1 + 1). split; [lia|]. split; [at_here|]. split; [exact HI'|]. split; [apply look_set|].
  apply clean_seg. exact Hc.
Qed.

(* -- more File Data follows: the tile is retransmitted between two tiles of the stream *)
Definition SRes (off : Z) (y : sys) : Prop :=
  exists s ls fs lg c1, j < c1 /\
    at_ s (DRx off [] ls off fs lg) [] c1 y /\ InvRx off s /\
    lookup fs [x] = Some (File (ztake off data)) /\ clean lg.

Lemma InvR_busy : forall off s, InvRx off s -> s_state s = ST_BUSY.
Proof. intros off s [H _]. apply InvA_busy in H. destruct s. exact H. Qed.

Lemma round_nak_mid : forall a off y, SNak a (nxt a) off y -> 0 <= a < zlen data -> nxt a <= off -> off < zlen data ->
  exists y', reach tick y y' /\ SRes off y'.
Proof.
  intros a off y (s & fs & lg & c1 & Hc1 & (c2 & rnd & scur & dcur & sdone & ddone & ->) & HI & Hl & Hc) Ha Hbo Hlt.
  pose proof (nxt_le a Ha) as Hn.
  destruct (step_nak_mid cs p rs fss data cf seg clo (tidA cf) sn [x] Hnames Hlook Hsn Hseg Hm Hsrc Hdstr off s 0 off
              a (nxt a) HI Hlt ltac:(lia) eq_refl Hbo) as (s' & P & HI').
  rewrite nak_eq, tile_eq in P.
  pose proof (sm_fd_fill_recv cd rd x (sc_crc cf) (sc_large cf) clo (sc_src cf) (sc_srcw cf) (sc_seq cf) (sc_seqw cf)
                (r_cktype rs) (zlen data) Hrem a off (tl a) fs lg _ Hl (tl_pos a Ha)) as Hsm.
  rewrite (tl_len a Ha) in Hsm. replace (a + (nxt a - a)) with (nxt a) in Hsm by lia.
  specialize (Hsm Hbo). rewrite Z.max_r in Hsm by lia. rewrite hole_fill' in Hsm by lia.
  assert (G : dguard (tileP a) (DRx off [(a, nxt a)] (nxt a) off fs lg) ddone) by (apply busy_guard; reflexivity).
  destruct (round_11 fl s s' _ _ _ _ _ _ c1 c2 rnd scur dcur sdone ddone (InvA_busy _ _ _ _ _ _ _ _ _ _ _ HI) P
              (tile_onw a Ha) (ff_none c1 ltac:(lia)) ff1 G Hsm eq_refl (Forall_nil _) (InvR_busy _ _ HI'))
    as (c2' & rnd' & sc & dc & sd & dn & a0 & R & Ha0 & Q).
  close_round R Ha0 Q.
  do 4 eexists. exists (c1 + 1). split; [lia|]. split; [at_here|]. split; [exact HI'|]. split; [apply look_set|].
  apply clean_seg. exact Hc.
Qed.

Lemma round_resume : forall off y, SRes off y -> 0 <= off < zlen data ->
  exists y' c1, reach tick y y' /\ j < c1 /\ SInvF (nxt off) c1 y'.
Proof.
  intros off y (s & ls & fs & lg & c1 & Hc1 & (c2 & rnd & scur & dcur & sdone & ddone & ->) & HI & Hl & Hc) Hlt.
  destruct (step_resume cs p rs fss data cf seg clo (tidA cf) sn [x] Hnames Hlook Hseg Hm off s HI ltac:(lia)) as (s' & P & HI').
  rewrite tile_eq in P.
  pose proof (sm_fd_inorder cd rd x (sc_crc cf) (sc_large cf) clo (sc_src cf) (sc_srcw cf) (sc_seq cf) (sc_seqw cf)
                (r_cktype rs) (zlen data) Hrem off [] ls (tl off) fs lg _ Hl (tl_pos off Hlt)) as Hsm.
  rewrite Z.max_l in Hsm by (pose proof (tl_pos off Hlt); lia).
  rewrite tl_len in Hsm by lia. replace (off + (nxt off - off)) with (nxt off) in Hsm by lia.
  assert (G : dguard (tileP off) (DRx off [] ls off fs lg) ddone) by (apply busy_guard; reflexivity).
  destruct (round_n1 fl s s' _ _ _ _ [] c1 c2 rnd scur dcur sdone ddone P (tile_onw off Hlt) (ff_none c1 ltac:(lia)) ff1
              G Hsm eq_refl (Forall_nil _) (InvA_busy _ _ _ _ _ _ _ _ _ _ _ HI'))
    as (c2' & rnd' & sc & dc & sd & dn & a & R & Ha & Q).
  eexists. exists (c1 + 1). split; [exact (reach_step tick _ _ _ R Ha Q)|]. split; [lia|].
  do 4 eexists. split; [at_here|]. split; [exact HI'|]. split.
  - rewrite look_set. f_equal. f_equal. apply write_append; lia.
  - apply clean_seg. exact Hc.
Qed.

(* the rest of the run is that of a perfect link *)
Definition S1F (y : sys) : Prop :=
  exists s ls fs lg c1, j < c1 /\
    at_ s (DSE cd rs rd x data cf clo 0 [] cks ls fs lg) [ackEA cd cf] c1 y /\ Tailx SS_WAITING_FOR_EOF_ACK None s /\
    lookup fs [x] = Some (File data) /\ clean lg.
Definition S2F (y : sys) : Prop :=
  exists s ls fs lg c1, j < c1 /\
    at_ s (DSW cd rs rd x data cf clo 0 [] cks ls fs (evFinD cf :: lg)) [finPA cd cf] c1 y /\
    Tailx SS_WAITING_FOR_FINISHED None s /\
    lookup fs [x] = Some (File data) /\ clean lg.

Lemma round_eof_f : forall c1 y, SInvF (zlen data) c1 y -> j < c1 -> exists y', reach tick y y' /\ S1F y'.
Proof.
  intros c1 y (s & ls & fs & lg & (c2 & rnd & scur & dcur & sdone & ddone & ->) & HI & Hl & Hc) Hc1.
  destruct (step_final_a cs p rs fss data cks cf seg clo (tidA cf) sn [x] Hnames Hlook Hm Hck Hacks s HI) as (s' & P & HT).
  rewrite (hdr_eq_a cd cf Hm Hdst) in P. fold eofX in P. rewrite ztake_all in Hl.
  pose proof (sm_eof_a cd rd x (sc_crc cf) (sc_large cf) clo (sc_src cf) (sc_srcw cf) (sc_seq cf) (sc_seqw cf)
                (r_cktype rs) (zlen data) Hrem cks None ls fs lg) as Hsm.
  assert (G : dguard eofX (DRx (zlen data) [] ls (zlen data) fs lg) ddone) by (apply busy_guard; reflexivity).
  destruct (round_n1 fl s s' _ _ _ _ _ c1 c2 rnd scur dcur sdone ddone P eq_refl (ff_none c1 ltac:(lia)) ff1 G Hsm eq_refl
              (Forall_cons (ackEA cd cf) eq_refl (Forall_nil _)) (Tail_busy _ _ _ _ _ _ _ HT))
    as (c2' & rnd' & sc & dc & sd & dn & a0 & R & Ha0 & Q).
  close_round R Ha0 Q.
  do 4 eexists. exists (c1 + 1). split; [lia|]. split; [at_here|]. split; [exact HT|]. split; [exact Hl|].
  apply clean_eofr. exact Hc.
Qed.

Lemma round_ack_eof_f : forall y, S1F y -> exists y', reach tick y y' /\ S2F y'.
Proof.
  intros y (s & ls & fs & lg & c1 & Hc1 & (c2 & rnd & scur & dcur & sdone & ddone & ->) & HT & Hl & Hc).
  destruct (step_ack_eof cs p rs cf (tidA cf) Hm Hsrc Hdstr s C_NO_ERROR TS_ACTIVE HT) as (s' & P & HT').
  rewrite (hdr_eq_b cd cf Hm Hdst) in P. fold (ackEA cd cf) in P.
  pose proof (sm_complete cd rd x (sc_crc cf) (sc_large cf) clo (sc_src cf) (sc_srcw cf) (sc_seq cf) (sc_seqw cf)
                (r_cktype rs) (zlen data) Hfind Hackd cks ls fs lg data Hl Hck2) as Hsm.
  destruct (round_10 fl s s' _ _ _ _ _ c1 c2 rnd scur dcur sdone ddone (Tail_busy _ _ _ _ _ _ _ HT) P ff1
              Hsm eq_refl (Forall_cons (finPA cd cf) eq_refl (Forall_nil _)) (Tail_busy _ _ _ _ _ _ _ HT'))
    as (c2' & rnd' & sc & dc & sd & dn & a0 & R & Ha & Q).
  close_round R Ha Q.
  do 4 eexists. exists c1. split; [exact Hc1|]. split; [at_here|]. split; [exact HT'|]. split; assumption.
Qed.

Lemma round_finished_f : forall y, S2F y -> exists y', reach tick y y' /\ S3F y'.
Proof.
  intros y (s & ls & fs & lg & c1 & Hc1 & (c2 & rnd & scur & dcur & sdone & ddone & ->) & HT & Hl & Hc).
  destruct (step_finished cs p rs cf (tidA cf) Hm Hsrc Hdstr s FS_RETAINED HT) as (s' & P & HT').
  rewrite (hdr_eq_b cd cf Hm Hdst), (hdr_eq_a cd cf Hm Hdst) in P. fold (finPA cd cf) in P. fold ackF in P.
  pose proof (sm_ack_fin cd rd x (sc_crc cf) (sc_large cf) clo (sc_src cf) (sc_srcw cf) (sc_seq cf) (sc_seqw cf)
                (r_cktype rs) (zlen data) Hrem C_NO_ERROR TS_ACTIVE cks ls fs (evFinD cf :: lg)) as Hsm.
  assert (G : dguard ackF (DSW cd rs rd x data cf clo 0 [] cks ls fs (evFinD cf :: lg)) ddone) by (apply busy_guard; reflexivity).
  destruct (round_11 fl s s' _ _ _ _ _ [] c1 c2 rnd scur dcur sdone ddone (Tail_busy _ _ _ _ _ _ _ HT) P
              eq_refl (ff_none c1 ltac:(lia)) ff1 G Hsm eq_refl (Forall_nil _) (Tail_busy _ _ _ _ _ _ _ HT'))
    as (c2' & rnd' & sc & dc & sd & dn & a & R & Ha & Q).
  close_round R Ha Q.
  do 4 eexists. split; [at_here|]. split; [exact HT'|]. split; assumption.
Qed.

Lemma fin_S3F : forall y, S3F y -> fin_ok y.
Proof.
  intros y H. destruct (round_done_f y H) as (y2 & a & R2 & Q2 & F).
  exists 1%nat, y2. split; [|exact F].
  change 1%nat with (S 0). rewrite run_S, R2. cbv iota beta. rewrite Q2. reflexivity.
Qed.

Lemma run_rest_f : forall n off c1 y, SInvF off c1 y -> j < c1 -> (length (zdrop off data) <= n)%nat -> fin_ok y.
Proof.
  assert (Tl : forall c1 y, SInvF (zlen data) c1 y -> j < c1 -> fin_ok y).
  { intros c1 y HS Hc1.
    destruct (round_eof_f c1 y HS Hc1) as (y1 & R1 & H1).
    destruct (round_ack_eof_f y1 H1) as (y2 & R2 & H2).
    destruct (round_finished_f y2 H2) as (y3 & R3 & H3).
    apply (fin_reach y y1 R1). apply (fin_reach y1 y2 R2). apply (fin_reach y2 y3 R3). apply fin_S3F. exact H3. }
  induction n as [|n IH]; intros off c1 y HS Hc1 Hn;
    (assert (Hr : 0 <= off <= zlen data) by (destruct HS as (s & ls & fs & lg & _ & HI & _); exact (InvAx_range _ _ HI))).
  - assert (Hz : zlen (zdrop off data) = 0) by (unfold zlen; lia).
    rewrite zlen_zdrop in Hz by lia. assert (off = zlen data) by lia. subst off. exact (Tl c1 y HS Hc1).
  - destruct (Z.eq_dec off (zlen data)) as [He|He]; [subst off; exact (Tl c1 y HS Hc1)|].
    destruct (round_fd_f off c1 y HS ltac:(lia) ltac:(lia)) as (y1 & R1 & H1).
    apply (fin_reach y y1 R1). apply (IH (nxt off) (c1 + 1) y1 H1 ltac:(lia)). apply nxt_drop; [lia|exact Hn].
Qed.

(* -- the tile after the lost one is the last: the NAK PDU meets a sender that is about to send the EOF PDU *)
Definition SIb (a b : Z) (y : sys) : Prop :=
  exists s fs lg c1, j < c1 /\
    at_ s (DF8x 0 [] cks fs (evFinD cf :: lg)) [ackEA cd cf; nakIx a b (zlen data)] c1 y /\
    TailXx SS_RETRANSMITTING (Some SS_WAITING_FOR_EOF_ACK) None s /\
    lookup fs [x] = Some (File data) /\ clean lg.

Lemma InvA_step_fd : forall off s, InvAx off s -> 0 < off -> s_step s = SS_SENDING_FILE_DATA.
Proof.
  intros off s [HI _] H. destruct HI as (_&_&_&_&_&_&_&_&_&_&_&_&_&_&H15&_). destruct H15 as [[_ ?]|?]; [lia|assumption].
Qed.

Lemma round_nak_eof : forall a y, SNak a (nxt a) (zlen data) y -> 0 <= a -> nxt a < zlen data ->
  exists y', reach tick y y' /\ SIb a (nxt a) y'.
Proof.
  intros a y (s & fs & lg & c1 & Hc1 & (c2 & rnd & scur & dcur & sdone & ddone & ->) & HI & Hl & Hc) Ha Hb.
  assert (Ha' : 0 <= a < zlen data) by (unfold nxt in *; lia).
  pose proof (nxt_le a Ha') as Hn.
  destruct (step_nak_eof cs p rs fss data cks cf seg clo (tidA cf) sn [x] Hnames Hlook Hsn Hseg Hm Hck Hsrc Hdstr s 0
              (zlen data) a (nxt a) HI (InvA_step_fd _ _ HI ltac:(lia)) ltac:(lia) ltac:(lia) eq_refl) as (s' & P & HT).
  rewrite nak_eq, tile_eq, eof_eq in P.
  pose proof (sm_eof_gap cd rd x (sc_crc cf) (sc_large cf) clo (sc_src cf) (sc_srcw cf) (sc_seq cf) (sc_seqw cf)
                (r_cktype rs) (zlen data) Hrem cks None [(a, nxt a)] (nxt a) (zlen data) fs lg) as Hsm1.
  set (lg1 := (if l_ind_eof_recv cd then [EvEofRecv (sc_src cf) (sc_seq cf)] else []) ++ lg) in *.
  pose proof (sm_fill_ib cd rd x (sc_crc cf) (sc_large cf) clo (sc_src cf) (sc_srcw cf) (sc_seq cf) (sc_seqw cf)
                (r_cktype rs) (zlen data) Hrem Hfind maxn Hmax a cks (nxt a) (zlen data) (tl a) fs lg1 _ data Hl
                (tl_pos a Ha')) as Hsm2.
  rewrite (tl_len a Ha') in Hsm2. replace (a + (nxt a - a)) with (nxt a) in Hsm2 by lia.
  specialize (Hsm2 ltac:(lia) (eq_trans (hole_fill' a (zlen data) Ha' ltac:(lia)) (ztake_all data)) Hck2).
  assert (B1 : dbusy eofX (DRx (zlen data) [(a, nxt a)] (nxt a) (zlen data) fs lg)) by (split; reflexivity).
  assert (B2 : dbusy (tileP a) (DGx 0 [] (zlen data) cks [(a, nxt a)] (nxt a) (zlen data) fs lg1)) by (split; reflexivity).
  destruct (round_12 fl s s' _ eofX (tileP a) _ _ _ _ _ _ _ c1 c2 rnd scur dcur sdone ddone
              (InvA_busy _ _ _ _ _ _ _ _ _ _ _ HI) P eq_refl (tile_onw a Ha') (nf_past c1 2 Hc1) ff1
              B1 Hsm1 eq_refl (Forall_cons (ackEA cd cf) eq_refl (Forall_nil _))
              B2 Hsm2 eq_refl (Forall_cons (nakIx a (nxt a) (zlen data)) eq_refl (Forall_nil _))
              (TailX_busy _ _ _ _ _ _ _ _ _ _ _ _ HT))
    as (c1' & c2' & rnd' & sc & dc & sd & dn & a0 & R & Ha0 & Hc1' & Q).
  close_round R Ha0 Q.
  do 3 eexists. exists c1'. split; [lia|]. split; [at_here|]. split; [exact HT|]. split; [apply look_set|].
  apply clean_seg. unfold lg1. apply clean_eofr. exact Hc.
Qed.

Lemma round_ack_nak : forall a y, SIb a (nxt a) y -> 0 <= a < zlen data -> exists y', reach tick y y' /\ SW y'.
Proof.
  intros a y (s & fs & lg & c1 & Hc1 & (c2 & rnd & scur & dcur & sdone & ddone & ->) & HT & Hl & Hc) Ha.
  destruct (step_ack_retx cs p rs fss data cf seg (tidA cf) Hm Hsrc Hdstr s C_NO_ERROR TS_ACTIVE HT) as (s1 & P1 & HT1).
  rewrite (hdr_eq_b cd cf Hm Hdst) in P1. fold (ackEA cd cf) in P1.
  destruct (step_nak_fin cs p rs fss data cf seg (tidA cf) sn [x] Hnames Hlook Hsn Hseg Hm Hsrc Hdstr s1 _ 0 (zlen data)
              a (nxt a) HT1 ltac:(lia) ltac:(lia) eq_refl) as (s' & P & HT').
  rewrite nak_eq, tile_eq in P.
  pose proof (sm_dup_ib cd rd x (sc_crc cf) (sc_large cf) clo (sc_src cf) (sc_srcw cf) (sc_seq cf) (sc_seqw cf)
                (r_cktype rs) (zlen data) Hrem Hackd a (tl a) cks fs (evFinD cf :: lg)) as Hsm.
  assert (G : dguard (tileP a) (DF8x 0 [] cks fs (evFinD cf :: lg)) ddone) by (apply busy_guard; reflexivity).
  destruct (round_21 fl s s1 s' _ _ _ _ _ _ _ c1 c2 rnd scur dcur sdone ddone (TailX_busy _ _ _ _ _ _ _ _ _ _ _ _ HT) P1
              (TailX_busy _ _ _ _ _ _ _ _ _ _ _ _ HT1) P (tile_onw a Ha) (ff_none c1 ltac:(lia)) ff1 G Hsm eq_refl
              (Forall_cons (finPA cd cf) eq_refl (Forall_nil _)) (TailX_busy _ _ _ _ _ _ _ _ _ _ _ _ HT'))
    as (c2' & rnd' & sc & dc & sd & dn & a0 & R & Ha0 & Q).
  close_round R Ha0 Q.
  do 6 eexists. exists (c1 + 1). split; [lia|]. split; [at_here|]. split; [exact HT'|]. split; assumption.
Qed.

(* ---- the whole run *)
Lemma prefix_f : forall n i y, 0 <= i -> SInvF (i * seg) (i + 1) y ->
  (i + Z.of_nat n) * seg < zlen data -> i + Z.of_nat n + 1 <= j ->
  exists y', reach tick y y' /\ SInvF ((i + Z.of_nat n) * seg) (i + Z.of_nat n + 1) y'.
Proof.
  induction n as [|n IH]; intros i y Hi HS Hlt Hj.
  - exists y. split; [apply reach_refl|]. change (Z.of_nat 0) with 0. rewrite !Z.add_0_r. exact HS.
  - rewrite Nat2Z.inj_succ in *.
    assert (Hoff : i * seg + seg < zlen data) by nia.
    destruct (round_fd_f (i * seg) (i + 1) y HS ltac:(lia) ltac:(lia)) as (y1 & R1 & H1).
    assert (En : nxt (i * seg) = (i + 1) * seg) by (unfold nxt; lia).
    rewrite En in H1.
    destruct (IH (i + 1) y1 ltac:(lia) H1 ltac:(replace (i + 1 + Z.of_nat n) with (i + Z.succ (Z.of_nat n)) by lia; exact Hlt)
                ltac:(lia)) as (y2 & R2 & H2).
    exists y2. split; [exact (reach_trans tick _ _ _ R1 R2)|].
    replace (i + Z.succ (Z.of_nat n)) with (i + 1 + Z.of_nat n) by lia. exact H2.
Qed.

Lemma main_f : forall k s1 s3, 0 <= k -> j = k + 1 -> k * seg < zlen data ->
  pump s1 = (s3, Ok [PMetadata (hdr_of cf TOWARDS_RECEIVER) clo (r_cktype rs) (zlen data) (Some (sn, [x])) []]) ->
  InvAx 0 s3 ->
  fin_ok (ZF fl s1 (dst_init cd) [] [] 0 0 0 None None [] []).
Proof.
  intros k s1 s3 Hk Hj Hlt P HI.
  destruct (round_md_f s1 s3 P HI ltac:(lia)) as (y1 & R1 & H1).
  apply (fin_reach _ y1 R1).
  destruct (prefix_f (Z.to_nat k) 0 y1 ltac:(lia) H1 ltac:(rewrite Z2Nat.id by lia; exact Hlt) ltac:(lia)) as (y2 & R2 & H2).
  apply (fin_reach _ y2 R2).
  rewrite Z2Nat.id in H2 by lia. rewrite !Z.add_0_l in H2. rewrite <- Hj in H2.
  set (a := k * seg) in *.
  assert (Ha : 0 <= a < zlen data) by (unfold a; nia).
  destruct (round_drop_f a y2 H2 ltac:(lia)) as (y3 & R3 & H3).
  apply (fin_reach _ y3 R3).
  pose proof (nxt_le a Ha) as Hn.
  destruct (Z.eq_dec (nxt a) (zlen data)) as [Hlast|Hmid].
  - (* the lost tile is the last one *)
    destruct (round_eof_short a y3 H3 Ha Hlast) as (y4 & R4 & H4).
    apply (fin_reach _ y4 R4). rewrite <- Hlast in H4. apply (fin_SG a a y4 H4 Ha). lia.
  - assert (Hb : nxt a < zlen data) by lia.
    pose proof (nxt_le (nxt a) ltac:(lia)) as Hn2.
    destruct (r_imm_nak rd) eqn:Himm.
    + destruct (round_gap_imm a y3 H3 ltac:(lia) Hb Himm) as (y4 & R4 & H4).
      apply (fin_reach _ y4 R4).
      destruct (Z.eq_dec (nxt (nxt a)) (zlen data)) as [Hl2|Hm2].
      * (* the tile after the lost one is the last *)
        rewrite Hl2 in H4.
        destruct (round_nak_eof a y4 H4 ltac:(lia) Hb) as (y5 & R5 & H5).
        apply (fin_reach _ y5 R5).
        destruct (round_ack_nak a y5 H5 Ha) as (y6 & R6 & H6).
        apply (fin_reach _ y6 R6). apply fin_SW. exact H6.
      * destruct (round_nak_mid a (nxt (nxt a)) y4 H4 Ha ltac:(lia) ltac:(lia)) as (y5 & R5 & H5).
        apply (fin_reach _ y5 R5).
        destruct (round_resume (nxt (nxt a)) y5 H5 ltac:(lia)) as (y6 & c1 & R6 & Hc1 & H6).
        apply (fin_reach _ y6 R6).
        exact (run_rest_f _ _ c1 y6 H6 Hc1 (le_n _)).
    + destruct (round_gap_def a y3 H3 ltac:(lia) Hb Himm) as (y4 & R4 & H4).
      apply (fin_reach _ y4 R4).
      destruct (run_gapD _ a (nxt a) (nxt (nxt a)) y4 H4 ltac:(lia) ltac:(lia) (le_n _)) as (y5 & R5 & H5).
      apply (fin_reach _ y5 R5).
      destruct (round_eof_gapD a y5 H5 ltac:(lia) Hb) as (y6 & R6 & H6).
      apply (fin_reach _ y6 R6). apply (fin_SG (zlen data) a y6 H6 Ha). lia.
Qed.
End SysX.

Lemma final_verdict_f : forall cd x data cf j y,
  FinalF cd x data cf j y -> delivered_ok [x] data (y, true) = true /\ y_errs y = [].
Proof.
  intros cd x data cf j y (s & fs & lgs & lgd & c1 & c2 & rnd & scur & dcur & sdone & ddone & -> & Hs & [S1' S2'] & [D1 D2] & Hl).
  unfold delivered_ok, ZF, DFA, dfinal, evFinD, file_content.
  cbn [y_src y_dst y_errs d_env e_fs e_log]. rewrite Hs, Hl.
  cbn [filter success_event existsb fault_event hd andb orb]. rewrite S2', D2.
  rewrite bytes_eqb_refl. split; reflexivity.
Qed.

(* ================================================================== *)
(* 6. property C03, K = 1, File Data                                   *)
(* ================================================================== *)
Lemma single_file_data_loss :
  forall (cs cd : lcfg) (seq0 bits : Z) (p : putreq) (rs rd : rcfg) (sn dn : path) (data : bytes) (tick : Z) (k : Z),
  let w := Z.max (l_idw cs) (pr_dstw p) in
  let large := 4294967295 <? zlen data in
  let derived := r_max_packet rs - (4 + 2 * w + bits / 8) - (if large then 8 else 4) - (if r_crc rs then 2 else 0) in
  let seg := match r_max_seg rs with Some m => Z.min m derived | None => derived end in
  get_remote (l_remotes cs) (pr_dst p) = Some rs ->
  pr_names p = Some (sn, dn) -> sn <> [] -> dn <> [] -> pr_msgs p = None ->
  (match pr_mode p with Some m => m | None => r_mode rs end) = ACKED ->
  2 <= r_ack_limit rs -> 2 <= r_ack_limit rd -> 2 <= r_nak_limit rd -> 0 < tick -> 0 < r_nak_ms rd ->
  4 + 2 * w + bits / 8 + 1 + (if r_crc rs then 2 else 0) + 2 * (if large then 8 else 4) <= r_max_packet rd ->
  0 <= k -> k * seg < zlen data ->
  0 < r_ack_ms rs -> 0 < r_ack_ms rd ->
  (bits = 8 \/ bits = 16 \/ bits = 32) -> 0 <= seq0 < 2 ^ bits -> 1 <= seg -> 6 <= derived ->
  (r_cktype rs = CK_CRC32 \/ r_cktype rs = CK_CRC32C \/ r_cktype rs = CK_NULL \/ r_cktype rs = CK_MODULAR) ->
  bytes_ok data = true ->
  l_id cd = pr_dst p -> get_remote (l_remotes cd) (l_id cs) = Some rd -> length dn = 1%nat ->
  get_fault_handler (l_faults cd) C_CHECKSUM_FAILURE <> None ->
  l_ind_fin cs = true -> l_ind_fin cd = true ->
  exists fuel,
    let res := transfer cs cd seq0 bits p sn data [mkFault 0 (k + 1) 0 0] fuel tick in
    delivered_ok dn data res = true /\ y_errs (fst res) = [].
Proof.
  intros cs cd seq0 bits p rs rd sn dn data tick k w large derived seg
         Hrs Hn Hsn Hdn Hmsgs Hmode Hls Hld Hnl Htick Hnak Hmp Hk Hklt Hacks Hackd Hbits Hseq Hseg Hd6 Hck Hbytes Hid Hrd Hlen
         Hfh Hfs Hfd.
  destruct dn as [|x [|x' dn']]; try discriminate Hlen.
  set (fss := [(sn, File data)]).
  assert (Hlook : lookup fss sn = Some (File data)).
  { destruct sn as [|a sn']; [contradiction|]. unfold fss. cbn [lookup lookup_raw].
    rewrite path_eqb_refl. reflexivity. }
  destruct (ck_agree (r_cktype rs) data seg Hck Hseg) as (cks & C1 & C2).
  set (cf := mkSconf (l_id cs) w (pr_dst p) w seq0 (bits / 8) ACKED large (r_crc rs)).
  set (clo := match pr_closure p with Some b => b | None => r_closure rs end).
  destruct (first_call_a cs seq0 bits fss p rs sn [x] data Hrs Hn Hlook Hmode Hbits Hseq Hseg Hd6)
    as (s1 & s3 & P1 & P2 & HI).
  rewrite Hmsgs in P2.
  assert (Hdst : sc_dst cf = l_id cd) by (symmetry; exact Hid).
  assert (Hdstr : sc_dst cf = r_id rs) by (symmetry; exact (get_remote_id _ _ _ Hrs)).
  assert (Hmax : exists maxn, max_seg_reqs (r_max_packet rd) (hRB cd cf) = Some maxn).
  { unfold max_seg_reqs, hRB, hB, hdr_len, crc_len, fss_len, cf. cbn [h_idw h_seqw h_crc h_large sc_crc sc_large sc_srcw sc_seqw].
    match goal with |- exists _, (if ?c then _ else _) = _ => replace c with false end; [eexists; reflexivity|].
    symmetry. apply Z.ltb_ge. fold w large. lia. }
  destruct Hmax as (maxn & Hmax).
  destruct (main_f cs cd p rs rd sn x data cks cf seg tick clo fss maxn (k + 1) Hn Hlook Hsn Hseg eq_refl C1 C2 Hfs Hfd Hrd
              Hdst Hacks Hackd Hnak eq_refl Hdstr Hmax k s1 s3 Hk eq_refl Hklt P2 HI) as (fuel & y' & Rr & F).
  exists fuel.
  assert (Et : transfer cs cd seq0 bits p sn data [mkFault 0 (k + 1) 0 0] fuel tick = (y', true)).
  { unfold transfer, sys_init. cbn [y_src]. fold fss. rewrite P1. exact Rr. }
  cbv zeta. rewrite Et. cbn [fst].
  exact (final_verdict_f cd x data cf (k + 1) y' F).
Qed.

(* the statement needs the hypothesis on the receiver's maximum packet length for the sender: with 18 bytes (two-byte
   ids and sequence numbers, no CRC, small file: the fixed part of a NAK PDU has 19) the deferred lost-segment
   procedure raises ValueError in every call from round 6 on; whatever the number of rounds, the run is not accepted *)
Example max_packet_counterexample :
  let rs := mkRcfg 2 2 (Some 4) 64 false false ACKED CK_CRC32 1000 2 2 false false 1000 2 in
  let rd := mkRcfg 1 2 (Some 4) 18 false false ACKED CK_CRC32 1000 2 2 false false 1000 2 in
  let cs := mkLcfg 1 2 true true true true default_fault_table 1000 [rs] in
  let cd := mkLcfg 2 2 true true true true default_fault_table 1000 [rd] in
  let data := map (fun i => (7 * Z.of_nat i + 3) mod 256) (seq 0 12) in
  let res fuel := transfer cs cd 0 16 (mkPut 2 2 None None (Some ([1], [2])) None) [1] data [mkFault 0 (1 + 1) 0 0] fuel 1000 in
  forallb (fun fuel => negb (delivered_ok [2] data (res fuel) && match y_errs (fst (res fuel)) with [] => true | _ => false end))
          (seq 0 64) = true /\
  hd (0, 0) (y_errs (fst (res 64%nat))) = (1, E_VALUE).
Proof. vm_compute. split; reflexivity. Qed.
