(* CancelInvProofs.v — proofs for the invariant form of property C12 (props/C12b.v): once the sender is in a
   cancel exchange it never emits new file data, whatever API call is made. *)
From CFDP Require Import Base LostSeg Fs Crc Checksum Handler Dest Source HandlerSpec SourceSpec.
From CFDP.gen Require Import Tables.
From CFDP.proofs Require Import GuardProofs.
From RecordUpdate Require Import RecordSet.
Import RecordSetNotations.

Local Opaque calculate_checksum.
Local Arguments Z.add : simpl never. Local Arguments Z.sub : simpl never. Local Arguments Z.mul : simpl never.
Local Arguments Z.pow : simpl never. Local Arguments Z.div : simpl never. Local Arguments Z.ltb : simpl never.
Local Arguments Z.leb : simpl never. Local Arguments Z.eqb : simpl never. Local Arguments Z.min : simpl never.
Local Arguments Z.max : simpl never. Local Arguments Z.of_nat : simpl never. Local Arguments Z.to_nat : simpl never.

(* ------------------------------------------------------------------ counterexamples to the first statement *)
Module Counter.
  Definition cancelling0 (s : src) : Prop :=
    s_state s = ST_BUSY /\ exists c, q_cond_eof (s_p s) = Some c /\ c <> C_NO_ERROR.
  Definition r0 : rcfg := mkRcfg 2 1 None 64 false false ACKED CK_NULL 100 2 2 false false 100 2.
  Definition cfg0 : lcfg := mkLcfg 1 1 false false false false [] 100 [r0].
  Definition cf0 : sconf := mkSconf 1 1 2 1 0 2 ACKED false false.
  Definition put0 : putreq := mkPut 2 1 None None (Some ([7], [8])) None.
  Definition st0 (step seg : Z) : src :=
    mkSrc cfg0 ST_BUSY step 0 []
      (mkSP (Some (1, 0)) None (Some (0, 100)) 0 (Some C_CANCEL_REQUEST) 2 seg (Some 4) false false None (Some r0) false cf0)
      None (Some put0) 1 16 (mkEnv 0 [([7], File [1; 2; 3; 4])] false []).
  Definition hd : hdr := hdr_of cf0 TOWARDS_RECEIVER.
  Definition hin : hdr := hdr_of cf0 TOWARDS_SENDER.
End Counter.

(* ------------------------------------------------------------------ the statement (same bodies as props/C12b.v) *)
Definition late_step (st : Z) : Prop := SS_SENDING_EOF <= st <= SS_NOTICE_OF_COMPLETION.
Definition cancel_step (s : src) : Prop :=
  late_step (s_step s) \/
  (s_step s = SS_RETRANSMITTING /\ exists b, s_step_before s = Some b /\ late_step b).
Definition cancelling (s : src) : Prop :=
  s_state s = ST_BUSY /\ (exists c, q_cond_eof (s_p s) = Some c /\ c <> C_NO_ERROR) /\
  cancel_step s /\ 0 <= q_segment_len (s_p s).
Definition fd_within (n : Z) (p : pdu) : Prop :=
  match p with PFileData _ off d => 0 <= off /\ off + zlen d <= n | _ => True end.
Definition cancelled_inv (n : Z) (s : src) : Prop :=
  Forall (fd_within n) (s_queue s) /\
  (s_state s = ST_IDLE \/ (cancelling s /\ q_progress (s_p s) = n)).
Definition nak_offsets_unsigned (pkt : option pdu) : Prop :=
  match pkt with Some (PNak _ _ _ reqs) => Forall (fun rq => 0 <= fst rq) reqs | _ => True end.

(* ------------------------------------------------------------------ predicates used inside a call *)
Definition core (n : Z) (s : src) : Prop :=
  Forall (fd_within n) (s_queue s) /\ cancelling s /\ q_progress (s_p s) = n.
(* cancel exchange in progress, the step satisfying X *)
Definition Bq (X : Z -> Prop) (n : Z) (s : src) : Prop := core n s /\ X (s_step s).
Definition anyz (z : Z) : Prop := True.
Notation B := (Bq anyz).
(* the handler was reset in the middle of the call *)
Definition R (n : Z) (s : src) : Prop :=
  Forall (fd_within n) (s_queue s) /\ s_state s = ST_IDLE /\ s_step s = SS_IDLE.
Definition J (n : Z) (s : src) : Prop := B n s \/ R n s.

Lemma B_J : forall n s, B n s -> J n s.
Proof. intros n s H. left. exact H. Qed.
Lemma R_J : forall n s, R n s -> J n s.
Proof. intros n s H. right. exact H. Qed.
Lemma Bq_B : forall X n s, Bq X n s -> B n s.
Proof. intros X n s [H _]. split; [exact H | exact I]. Qed.
Lemma Bq_J : forall X n s, Bq X n s -> J n s.
Proof. intros X n s H. apply B_J, (Bq_B X), H. Qed.
Lemma J_inv : forall n s, J n s -> cancelled_inv n s.
Proof.
  intros n s [[(HF & HC & HP) _] | (HF & HI & _)]; (split; [exact HF|]).
  - right. split; assumption.
  - left. exact HI.
Qed.

(* ------------------------------------------------------------------ preservation combinator *)
Definition pres {A} (P Q : src -> Prop) (m : SM A) : Prop := forall s, P s -> Q (fst (m s)).

Lemma pres_bind {A C} (P Q T : src -> Prop) (m : SM A) (f : A -> SM C) :
  pres P Q m -> (forall s, Q s -> T s) -> (forall a, pres Q T (f a)) -> pres P T (bind m f).
Proof.
  intros Hm HQT Hf s HP. specialize (Hm s HP). unfold bind.
  destruct (m s) as [s1 [a|e]]; cbn [fst] in *; [apply Hf, Hm | apply HQT, Hm].
Qed.
Lemma pres_ret {A} (P : src -> Prop) (a : A) : pres P P (ret a).
Proof. intros s H. exact H. Qed.
Lemma pres_raise {A} (P : src -> Prop) e : pres P P (@raise src A e).
Proof. intros s H. exact H. Qed.
Lemma pres_post {A} (P Q Q' : src -> Prop) (m : SM A) : (forall s, Q s -> Q' s) -> pres P Q m -> pres P Q' m.
Proof. intros HQ H s HP. apply HQ, H, HP. Qed.
Lemma pres_pre {A} (P P' Q : src -> Prop) (m : SM A) : (forall s, P' s -> P s) -> pres P Q m -> pres P' Q m.
Proof. intros HP H s HP'. apply H, HP, HP'. Qed.

Lemma bind_assoc {S A B C} (m : M S A) (f : A -> M S B) (g : B -> M S C) s :
  bind (bind m f) g s = bind m (fun a => bind (f a) g) s.
Proof. unfold bind. destruct (m s) as [s1 [a|e]]; reflexivity. Qed.
Lemma b_ret {S A B} (a : A) (k : A -> M S B) s : bind (ret a) k s = k a s.
Proof. reflexivity. Qed.
Lemma b_gets {S A B} (f : S -> A) (k : A -> M S B) s : bind (gets f) k s = k (f s) s.
Proof. reflexivity. Qed.
Lemma b_get {S B} (k : S -> M S B) s : bind get k s = k s s.
Proof. reflexivity. Qed.
Lemma b_gq {A C} (f : sparams -> A) (k : A -> SM C) s : bind (gq f) k s = k (f (s_p s)) s.
Proof. reflexivity. Qed.
Lemma b_sstep {A} v (k : bool -> SM A) s : bind (sstep_is v) k s = k (s_step s =? v) s.
Proof. reflexivity. Qed.
Lemma when_false {S} (m : M S unit) : when false m = ret tt.
Proof. reflexivity. Qed.
Lemma when_true {S} (m : M S unit) : when true m = m.
Proof. reflexivity. Qed.

(* ------------------------------------------------------------------ frame: functions that leave the view alone *)
Definition view (s : src) :=
  (s_state s, s_step s, s_step_before s, s_queue s, q_cond_eof (s_p s), q_progress (s_p s), q_segment_len (s_p s)).
Notation FR m := (MInv view Any m).
Definition vdet (P : src -> Prop) : Prop := forall s s', view s' = view s -> P s -> P s'.

Lemma pres_fr {A} (P : src -> Prop) (m : SM A) : vdet P -> FR m -> pres P P m.
Proof. intros HP Hm s H. apply (HP s); [|exact H]. apply (minv_state _ _ _ s Hm). Qed.

Ltac vd :=
  let s := fresh "s" in let s' := fresh "s'" in let Hv := fresh "Hv" in let Hp := fresh "Hp" in
  intros s s' Hv Hp; unfold view in Hv; injection Hv; clear Hv; intros;
  unfold J, R, Bq, core, cancelling, cancel_step in *;
  repeat match goal with E : _ = _ |- _ => first [rewrite E | idtac]; clear E end; exact Hp.

Lemma vdet_Bq : forall X n, vdet (Bq X n). Proof. intros X n. vd. Qed.
Lemma vdet_R : forall n, vdet (R n). Proof. intros n. vd. Qed.
Lemma vdet_J : forall n, vdet (J n). Proof. intros n. vd. Qed.

(* ------------------------------------------------------------------ primitive steps *)
Ltac unf := unfold J, R, Bq, core, cancelling, cancel_step, late_step, anyz in *.
Ltac ss := unfold SS_IDLE, SS_TRANSACTION_START, SS_SENDING_METADATA, SS_SENDING_FILE_DATA, SS_RETRANSMITTING,
  SS_SENDING_EOF, SS_WAITING_FOR_EOF_ACK, SS_WAITING_FOR_FINISHED, SS_SENDING_ACK_OF_FINISHED,
  SS_NOTICE_OF_COMPLETION, ST_IDLE, ST_BUSY in *.

Lemma pres_sadd : forall X n p, fd_within n p -> pres (Bq X n) (Bq X n) (sadd_packet p).
Proof.
  intros X n p Hp s H. unfold sadd_packet, modify. cbn [fst]. destruct s. unf. cbn in *.
  destruct H as [(HF & HC & HP) HX]. repeat split; try tauto.
  apply Forall_app. split; [exact HF | constructor; [exact Hp | constructor]].
Qed.

Lemma pres_sset_step : forall X n v, late_step v -> pres (Bq X n) (B n) (sset_step v).
Proof.
  intros X n v Hv s H. unfold sset_step, modify. cbn [fst]. destruct s. unf. cbn in *.
  destruct H as [(HF & (H1 & H2 & _ & H4) & HP) HX]. repeat split; try assumption. left. exact Hv.
Qed.

Lemma pres_reset : forall X n c, pres (Bq X n) (R n) (sreset_internal c).
Proof.
  intros X n c s H. unfold sreset_internal, modify. cbn [fst]. destruct s. unf. cbn in *.
  destruct H as [(HF & _) _]. repeat split. destruct c; [constructor | exact HF].
Qed.

(* after a reset in the middle of the call: whatever is still queued is no new File Data *)
Lemma pres_sadd_R : forall n p, fd_within n p -> pres (R n) (R n) (sadd_packet p).
Proof.
  intros n p Hp s H. unfold sadd_packet, modify. cbn [fst]. destruct s. unf. cbn in *.
  destruct H as (HF & H1 & H2). repeat split; try assumption.
  apply Forall_app. split; [exact HF | constructor; [exact Hp | constructor]].
Qed.

Ltac bb_step :=
  cbv beta zeta;
  match goal with
  | |- pres ?P ?P _ => solve [apply pres_fr; [first [apply vdet_Bq | apply vdet_R | apply vdet_J] | minv]]
  | |- pres ?P ?P (bind _ _) => apply (pres_bind P P P); [ | intros ? Hq; exact Hq | intro]
  | |- pres ?P ?P (ret _) => apply pres_ret
  | |- pres ?P ?P (raise _) => apply pres_raise
  | |- pres _ _ (when ?b _) => destruct b; [rewrite when_true | rewrite when_false]
  | |- pres (R _) (R _) (sadd_packet _) => apply pres_sadd_R; exact I
  | |- pres _ _ (sadd_packet _) => apply pres_sadd; exact I
  | |- pres _ _ (if ?b then _ else _) => destruct b
  | |- pres _ _ (match ?x with _ => _ end) => destruct x
  | |- pres _ _ ?m => let h := mhead m in unfold h
  end.
Ltac bb := repeat bb_step.

Lemma fr_checksum : forall sz, FR (checksum_calculation sz).
Proof. intro. minv. Qed.
#[local] Hint Resolve fr_checksum : minv.

Lemma bb_prepare_eof : forall X n ck, pres (Bq X n) (Bq X n) (prepare_eof_pdu ck).
Proof. intros. bb. Qed.
Lemma rr_prepare_eof : forall n ck, pres (R n) (R n) (prepare_eof_pdu ck).
Proof. intros. bb. Qed.
Lemma bb_prepare_metadata : forall X n, pres (Bq X n) (Bq X n) prepare_metadata_pdu.
Proof. intros. bb. Qed.

(* ------------------------------------------------------------------ retransmission: File Data inside the requested range *)
Lemma zlen_ztake_le : forall A k (l : list A), 0 <= k -> zlen (ztake k l) <= k.
Proof. intros A k l Hk. unfold zlen, ztake. rewrite firstn_length. lia. Qed.

Lemma bb_prepare_file_data : forall X n off len,
  0 <= off -> 0 <= len -> off + len <= n -> pres (Bq X n) (Bq X n) (prepare_file_data_pdu off len).
Proof.
  intros X n off len Ho Hl Hn. unfold prepare_file_data_pdu.
  apply (pres_bind _ (Bq X n) _); [bb | trivial | intro nm].
  intros s H. rewrite b_gets. unfold fs_read_data.
  destruct (lookup (e_fs (s_env s)) (fst nm)) as [[d|]|]; [| exact H | exact H].
  rewrite b_gq. apply pres_sadd; [|exact H].
  cbn [fd_within]. pose proof (zlen_ztake_le _ len (zdrop off d) Hl). lia.
Qed.

Lemma bb_retransmit_chunks : forall X n seg, 0 <= seg -> forall fuel off missing,
  0 <= off -> off + missing <= n -> pres (Bq X n) (Bq X n) (retransmit_chunks fuel off missing seg).
Proof.
  intros X n seg Hseg. induction fuel as [|k IH]; intros off missing Ho Hn; cbn [retransmit_chunks];
    destruct (0 <? missing) eqn:Hm; try apply pres_ret; try apply pres_raise.
  apply Z.ltb_lt in Hm.
  apply (pres_bind _ (Bq X n) _); [| trivial | intros _].
  - apply bb_prepare_file_data; lia.
  - apply IH; lia.
Qed.

Lemma bb_segment_req : forall X n rq, 0 <= fst rq -> pres (Bq X n) (Bq X n) (handle_segment_req rq).
Proof.
  intros X n [a b] Ha. cbn [fst] in Ha. unfold handle_segment_req.
  destruct ((a =? 0) && (b =? 0)); [apply bb_prepare_metadata|].
  destruct (b <? a) eqn:E1; [apply pres_raise|]. apply Z.ltb_ge in E1.
  intros s H. rewrite b_gq.
  assert (Hp : q_progress (s_p s) = n) by (unf; tauto).
  assert (Hs : 0 <= q_segment_len (s_p s)) by (unf; tauto).
  rewrite Hp.
  destruct (n <? a) eqn:E2; [exact H|]. apply Z.ltb_ge in E2.
  destruct (n <? b) eqn:E3; [exact H|]. apply Z.ltb_ge in E3.
  rewrite b_gq. apply bb_retransmit_chunks; try assumption; lia.
Qed.

Lemma bb_fold_requests : forall X n reqs (m0 : SM unit),
  Forall (fun rq => 0 <= fst rq) reqs -> pres (Bq X n) (Bq X n) m0 ->
  pres (Bq X n) (Bq X n) (fold_left (fun m rq => (m ;;; handle_segment_req rq)%monad) reqs m0).
Proof.
  intros X n. induction reqs as [|rq reqs IH]; intros m0 HF H0; cbn [fold_left]; [exact H0|].
  inversion HF as [|x xs Hx Hxs]; subst x xs.
  apply IH; [exact Hxs|].
  apply (pres_bind _ (Bq X n) _); [exact H0 | trivial | intros _; apply bb_segment_req; exact Hx].
Qed.

(* the step at the time of the call is remembered: it has to be one to which it is safe to return *)
Lemma bb_handle_retransmission : forall n pkt,
  nak_offsets_unsigned pkt -> pres (Bq late_step n) (B n) (handle_retransmission pkt).
Proof.
  intros n pkt Hpk. unfold handle_retransmission.
  destruct pkt as [[]|]; try (apply (pres_post _ (Bq late_step n)); [apply Bq_B | apply pres_ret]).
  cbn [nak_offsets_unsigned] in Hpk.
  apply (pres_bind _ (Bq late_step n) _); [| apply Bq_B | intros _].
  - apply bb_fold_requests; [exact Hpk | apply pres_ret].
  - intros s H. rewrite b_get. unfold put, bind, ret. cbn [fst]. destruct s. unf. cbn in *.
    destruct H as [(HF & (H1 & H2 & _ & H4) & HP) HX]. repeat split; try assumption.
    right. split; [reflexivity|]. eexists. split; [reflexivity | exact HX].
Qed.

(* ------------------------------------------------------------------ functions that may reset the handler *)
Ltac late := unfold late_step; ss; lia.

Ltac bj_step :=
  cbv beta zeta;
  match goal with
  | |- pres (Bq ?X ?n) (J ?n) _ => solve [apply (pres_post _ (Bq X n)); [apply Bq_J | bb]]
  | |- pres (Bq ?X ?n) (J ?n) (sset_step _) =>
      apply (pres_post _ (B n)); [apply B_J | apply pres_sset_step; late]
  | |- pres (Bq ?X ?n) (J ?n) (sreset_internal _) => apply (pres_post _ (R n)); [apply R_J | apply pres_reset]
  | |- pres (Bq ?X ?n) (J ?n) (bind _ _) =>
      apply (pres_bind _ (Bq X n) _); [solve [bb] | apply Bq_J | intro]
  | |- pres _ _ (when ?b _) => destruct b; [rewrite when_true | rewrite when_false]
  | |- pres _ _ (if ?b then _ else _) => destruct b
  | |- pres _ _ (match ?x with _ => _ end) => destruct x
  | |- pres _ _ ?m => let h := mhead m in unfold h
  end.
Ltac bj := repeat bj_step.

Lemma bj_start_positive_ack : forall X n, pres (Bq X n) (J n) start_positive_ack_procedure_s.
Proof.
  intros X n. unfold start_positive_ack_procedure_s.
  apply (pres_bind _ (Bq X n) _); [bb | apply Bq_J | intro r].
  apply (pres_bind _ (Bq X n) _); [bb | apply Bq_J | intro nw].
  apply (pres_bind _ (B n) _); [apply pres_sset_step; late | apply B_J | intros _].
  bj.
Qed.

Lemma bj_handle_eof_sent : forall X n ce, pres (Bq X n) (J n) (handle_eof_sent ce).
Proof.
  intros X n ce. unfold handle_eof_sent.
  apply (pres_bind _ (Bq X n) _); [bb | apply Bq_J | intro ac].
  destruct ac; [apply bj_start_positive_ack|].
  destruct ce; [bj|].
  apply (pres_bind _ (Bq X n) _); [bb | apply Bq_J | intro cl].
  destruct cl; [|bj].
  do 3 (apply (pres_bind _ (Bq X n) _); [bb | apply Bq_J | intro]).
  apply (pres_bind _ (Bq X n) _); [bb | apply Bq_J | intros _]. bj.
Qed.

Lemma bj_notice_of_completion : forall X n, pres (Bq X n) (J n) notice_of_completion_s.
Proof. intros X n. bj. Qed.

(* a fault during the cancel exchange abandons the transaction *)
Lemma bj_abandon : forall X n c, pres (Bq X n) (J n)
  (t <- stid_or_assert ;; pr <- gq q_progress ;; semit (EvFault FH_ABANDON (fst t) (snd t) c pr) ;;;
   sreset_internal true ;;; ret false)%monad.
Proof.
  intros X n c.
  do 3 (apply (pres_bind _ (Bq X n) _); [bb | apply Bq_J | intro]).
  apply (pres_bind _ (R n) _); [apply pres_reset | apply R_J | intros _].
  apply (pres_post _ (R n)); [apply R_J | apply pres_ret].
Qed.

Lemma bj_notice_of_cancellation : forall X n cond, pres (Bq X n) (J n) (notice_of_cancellation_s cond).
Proof.
  intros X n cond s H. unfold notice_of_cancellation_s. rewrite b_gq.
  assert (Hc : exists c, q_cond_eof (s_p s) = Some c /\ c <> C_NO_ERROR) by (unf; tauto).
  destruct Hc as (c & Hc & Hne). rewrite Hc. apply Z.eqb_neq in Hne. rewrite Hne. cbn [negb].
  exact (bj_abandon X n c s H).
Qed.

Lemma jj_fr {A} n (m : SM A) : FR m -> pres (J n) (J n) m.
Proof. apply pres_fr, vdet_J. Qed.

Lemma bj_declare_fault : forall X n cond, pres (Bq X n) (J n) (declare_fault_s cond).
Proof.
  intros X n cond. unfold declare_fault_s.
  apply (pres_bind _ (Bq X n) _); [bb | apply Bq_J | intro l].
  apply (pres_bind _ (Bq X n) _); [bb | apply Bq_J | intro tid].
  apply (pres_bind _ (Bq X n) _); [bb | apply Bq_J | intro pr].
  destruct tid as [[x y]|]; [|bj].
  apply (pres_bind _ (J n) _); [| trivial | intro go].
  - destruct (get_fault_handler (l_faults l) cond) as [h|]; [|bj].
    destruct (h =? FH_CANCEL); [apply bj_notice_of_cancellation|].
    destruct (h =? FH_ABANDON); [|bj].
    apply (pres_bind _ (R n) _); [apply pres_reset | apply R_J | intros _].
    apply (pres_post _ (R n)); [apply R_J | apply pres_ret].
  - apply jj_fr. minv.
Qed.

Lemma pres_J_split {A} n (m : SM A) : pres (B n) (B n) m -> pres (R n) (R n) m -> pres (J n) (J n) m.
Proof. intros Hb Hr s [H|H]; [left; apply Hb, H | right; apply Hr, H]. Qed.

(* the EOF sent again (below the limit, or at the limit with the fault ignored: F34 repair); no File Data *)
Lemma jj_resend : forall n nw tmo cnt, pres (J n) (J n)
  (setq (fun q => q <| q_ack_timer := Some (nw, tmo) |> <| q_ack_counter := cnt + 1 |>) ;;;
   pr <- gq q_progress ;; ck <- checksum_calculation pr ;; prepare_eof_pdu ck)%monad.
Proof.
  intros n nw tmo cnt. apply pres_J_split.
  - do 3 (apply (pres_bind _ (B n) _); [bb | trivial | intro]). apply bb_prepare_eof.
  - do 3 (apply (pres_bind _ (R n) _); [bb | trivial | intro]). apply rr_prepare_eof.
Qed.

Lemma bj_positive_ack : forall X n, pres (Bq X n) (J n) handle_positive_ack_procedures_s.
Proof.
  intros X n. unfold handle_positive_ack_procedures_s.
  apply (pres_bind _ (Bq X n) _); [bb | apply Bq_J | intro t].
  destruct t as [tm|]; [|bj].
  apply (pres_bind _ (Bq X n) _); [bb | apply Bq_J | intro r].
  apply (pres_bind _ (Bq X n) _); [bb | apply Bq_J | intro nw].
  destruct (negb (timed_out nw tm)); [bj|].
  apply (pres_bind _ (Bq X n) _); [bb | apply Bq_J | intro cnt].
  cbv zeta.
  destruct (r_ack_limit r <=? cnt + 1).
  - (* the limit fault; ignored, the procedure carries on (F34 repair) *)
    apply (pres_bind _ (J n) _); [apply bj_declare_fault | trivial | intros _].
    apply (pres_bind _ (J n) _); [apply jj_fr; minv | trivial | intro l].
    destruct (fault_ignored l C_POS_ACK_LIMIT); [apply jj_resend | apply pres_ret].
  - apply (pres_pre (J n)); [apply Bq_J | apply jj_resend].
Qed.

Lemma bj_waiting_for_ack : forall n pkt,
  nak_offsets_unsigned pkt -> pres (Bq late_step n) (J n) (handle_waiting_for_ack pkt).
Proof.
  intros n pkt Hpk. unfold handle_waiting_for_ack.
  apply (pres_bind _ (B n) _); [apply bb_handle_retransmission, Hpk | apply B_J | intro rt].
  destruct rt; [bj|].
  destruct pkt as [[]|]; try apply bj_positive_ack; bj.
Qed.

Lemma bj_wait_for_finish : forall n pkt,
  nak_offsets_unsigned pkt -> pres (Bq late_step n) (J n) (handle_wait_for_finish pkt).
Proof.
  intros n pkt Hpk. unfold handle_wait_for_finish.
  apply (pres_bind _ (Bq late_step n) _); [bb | apply Bq_J | intro ac].
  apply (pres_bind _ (B n) _); [| apply B_J | intro rt].
  - destruct ac; [apply bb_handle_retransmission, Hpk|].
    apply (pres_post _ (Bq late_step n)); [apply Bq_B | apply pres_ret].
  - destruct rt; [bj|].
    assert (Hd : pres (B n) (J n)
      (t <- gq q_check_timer ;; n0 <- snow ;;
       match t with
       | Some tm =>
           when (timed_out n0 tm)
             (declare_fault_s C_CHECK_LIMIT ;;;
              l <- gets s_cfg ;;
              when (fault_ignored l C_CHECK_LIMIT) (setq (fun q => q <| q_check_timer := Some (n0, snd tm) |>)))
       | None => ret tt
       end)%monad).
    { apply (pres_bind _ (B n) _); [bb | apply B_J | intro t].
      apply (pres_bind _ (B n) _); [bb | apply B_J | intro nw].
      destruct t as [tm|]; [|bj]. destruct (timed_out nw tm); [rewrite when_true | rewrite when_false; bj].
      (* the check limit fault; ignored, the timer is restarted (F34 repair) *)
      apply (pres_bind _ (J n) _); [apply bj_declare_fault | trivial | intros _].
      apply (pres_bind _ (J n) _); [apply jj_fr; minv | trivial | intro l].
      destruct (fault_ignored l C_CHECK_LIMIT); [rewrite when_true | rewrite when_false; apply pres_ret].
      apply jj_fr. minv. }
    destruct pkt as [[]|]; try exact Hd.
    apply (pres_bind _ (B n) _); [bb | apply B_J | intros _].
    apply (pres_bind _ (B n) _); [bb | apply B_J | intro ac2].
    destruct ac2; [|bj].
    apply (pres_bind _ (B n) _); [bb | apply B_J | intro c].
    apply (pres_bind _ (B n) _); [bb | apply B_J | intros _]. bj.
Qed.

Lemma bj_sending_eof : forall X n, pres (Bq X n) (J n)
  (fsz <- gq q_file_size ;; ck <- checksum_calculation (opt_z fsz) ;; prepare_eof_pdu ck ;;; handle_eof_sent false)%monad.
Proof.
  intros X n.
  do 2 (apply (pres_bind _ (Bq X n) _); [bb | apply Bq_J | intro]).
  apply (pres_bind _ (Bq X n) _); [apply bb_prepare_eof | apply Bq_J | intros _].
  apply bj_handle_eof_sent.
Qed.

(* ------------------------------------------------------------------ the state machine *)
Lemma bb_advancement : forall n, pres (B n) (B n) fsm_advancement_s.
Proof.
  intros n s H. unfold fsm_advancement_s. rewrite b_get.
  destruct (0 <? zlen (s_queue s)); [exact H|].
  assert (Hcs : cancel_step s) by (unf; tauto).
  destruct Hcs as [Hl | (H5 & b & Hb & Hlb)].
  - unfold late_step in Hl.
    destruct (Z.eqb_spec (s_step s) SS_SENDING_METADATA) as [E|_]; [exfalso; ss; lia|].
    destruct (Z.eqb_spec (s_step s) SS_RETRANSMITTING) as [E|_]; [exfalso; ss; lia|].
    destruct (Z.eqb_spec (s_step s) SS_SENDING_FILE_DATA) as [E|_]; [exfalso; ss; lia|].
    destruct (Z.eqb_spec (s_step s) SS_SENDING_ACK_OF_FINISHED) as [E|_]; [|exact H].
    refine (pres_sset_step anyz n _ _ s H). late.
  - rewrite H5, Hb. change (SS_RETRANSMITTING =? SS_SENDING_METADATA) with false.
    change (SS_RETRANSMITTING =? SS_RETRANSMITTING) with true. cbv iota.
    exact (pres_sset_step anyz n b Hlb s H).
Qed.

Lemma guard_J : forall n v (m rest : SM unit),
  late_step v -> pres (Bq late_step n) (J n) m -> pres (J n) (J n) rest ->
  pres (J n) (J n) (bind (sstep_is v) (fun b => bind (when b m) (fun _ => rest))).
Proof.
  intros n v m rest Hv Hm Hr s H. rewrite b_sstep.
  destruct (Z.eqb_spec (s_step s) v) as [E|E].
  - rewrite when_true. destruct H as [H | H].
    + apply (pres_bind (Bq late_step n) (J n) (J n) m (fun _ => rest)); [exact Hm | trivial | intros _; exact Hr |].
      destruct H as [Hc _]. split; [exact Hc | rewrite E; exact Hv].
    + exfalso. destruct H as (_ & _ & H0). rewrite H0 in E. subst v. revert Hv. late.
  - rewrite when_false, b_ret. apply Hr, H.
Qed.

Lemma guard_J_last : forall n v (m : SM unit),
  late_step v -> pres (Bq late_step n) (J n) m ->
  pres (J n) (J n) (bind (sstep_is v) (fun b => when b m)).
Proof.
  intros n v m Hv Hm s H. rewrite b_sstep.
  destruct (Z.eqb_spec (s_step s) v) as [E|E].
  - rewrite when_true. destruct H as [H | H].
    + apply Hm. destruct H as [Hc _]. split; [exact Hc | rewrite E; exact Hv].
    + exfalso. destruct H as (_ & _ & H0). rewrite H0 in E. subst v. revert Hv. late.
  - rewrite when_false. exact H.
Qed.

Lemma not_early : forall n s v, B n s -> v < SS_RETRANSMITTING -> (s_step s =? v) = false.
Proof.
  intros n s v H Hv. apply Z.eqb_neq. assert (Hcs : cancel_step s) by (unf; tauto).
  destruct Hcs as [Hl | (H5 & _)]; [unfold late_step in Hl|]; revert Hv; ss; lia.
Qed.

Lemma bj_fsm_non_idle : forall n pkt, nak_offsets_unsigned pkt -> pres (B n) (J n) (fsm_non_idle pkt).
Proof.
  intros n pkt Hpk. unfold fsm_non_idle.
  apply (pres_bind _ (B n) _); [apply bb_advancement | apply B_J | intros _].
  intros s H. rewrite b_gets. destruct (s_put s) as [p|]; [|apply B_J, H].
  rewrite b_sstep, (not_early n s SS_IDLE H) by (ss; lia). rewrite when_false, b_ret.
  rewrite b_sstep, (not_early n s SS_TRANSACTION_START H) by (ss; lia). rewrite when_false, b_ret.
  rewrite b_sstep, (not_early n s SS_SENDING_METADATA H) by (ss; lia). cbv iota.
  rewrite b_sstep, (not_early n s SS_SENDING_FILE_DATA H) by (ss; lia). cbv iota.
  rewrite b_ret. cbv iota.
  revert s H. apply (pres_pre (J n)); [apply B_J|].
  apply guard_J; [late | apply bj_sending_eof |].
  apply guard_J; [late | apply bj_waiting_for_ack, Hpk |].
  apply guard_J; [late | apply bj_wait_for_finish, Hpk |].
  apply guard_J_last; [late | apply bj_notice_of_completion].
Qed.

Lemma fr_check_inserted : forall p, FR (check_inserted_packet_s p).
Proof. intro p. minv. Qed.

Lemma bj_state_machine : forall n pkt, nak_offsets_unsigned pkt -> pres (B n) (J n) (state_machine_s pkt).
Proof.
  intros n pkt Hpk. unfold state_machine_s.
  apply (pres_bind _ (B n) _); [| apply B_J | intros _].
  - destruct pkt as [p|]; [apply pres_fr; [apply vdet_Bq | apply fr_check_inserted] | apply pres_ret].
  - intros s H. rewrite b_get.
    assert (Hb : s_state s = ST_BUSY) by (unf; tauto). rewrite Hb.
    change (ST_BUSY =? ST_IDLE) with false. cbv iota. apply bj_fsm_non_idle; assumption.
Qed.

Lemma bj_get_next_packet : forall n, pres (B n) (J n) get_next_packet_s.
Proof.
  intros n s H. unfold get_next_packet_s. rewrite b_get. apply B_J.
  destruct s as [cfg st step rdy q p sb pt sc sbits en]. cbn [s_queue].
  destruct q as [|x q]; [exact H|].
  unfold put, bind, ret. cbn [fst]. unf. cbn in *.
  destruct H as [(HF & HC & HP) HX]. inversion HF as [|y ys Hy Hys]; subst y ys. tauto.
Qed.

Lemma bj_cancel_request : forall n a b, pres (B n) (J n) (cancel_request_s a b).
Proof.
  intros n a b s H. unfold cancel_request_s. rewrite b_get.
  destruct (0 <? s_ready s); [apply B_J, H|].
  destruct (q_tid (s_p s)) as [[x y]|]; [|apply B_J, H].
  destruct ((x =? a) && (y =? b)); [|apply B_J, H].
  revert s H. apply (pres_bind _ (J n) _); [apply bj_notice_of_cancellation | trivial | intros _].
  apply pres_ret.
Qed.

(* ------------------------------------------------------------------ the theorems *)
Lemma source_no_new_data_after_cancel : forall (n : Z) (s : src) (pkt : option pdu) (a b : Z),
  cancelling s -> q_progress (s_p s) = n -> Forall (fd_within n) (s_queue s) -> nak_offsets_unsigned pkt ->
  cancelled_inv n (fst (state_machine_s pkt s)) /\
  cancelled_inv n (fst (get_next_packet_s s)) /\
  cancelled_inv n (fst (cancel_request_s a b s)).
Proof.
  intros n s pkt a b HC HP HF Hpk.
  assert (H : B n s) by (split; [split; [exact HF | split; [exact HC | exact HP]] | exact I]).
  split; [|split]; apply J_inv.
  - apply bj_state_machine; assumption.
  - apply bj_get_next_packet; assumption.
  - apply bj_cancel_request; assumption.
Qed.

(* ------------------------------------------------------------------ the cancel request establishes the invariant *)
Definition okpost {A} (Q : A -> src -> Prop) (x : src * res Z A) : Prop :=
  match x with (s', Ok a) => Q a s' | (_, Err _) => True end.

Lemma ok_bind {A C} (P Q : src -> Prop) (T : C -> src -> Prop) (m : SM A) (f : A -> SM C) s :
  pres P Q m -> P s -> (forall a s1, Q s1 -> okpost T (f a s1)) -> okpost T (bind m f s).
Proof.
  intros Hm HP Hf. specialize (Hm s HP). unfold bind.
  destruct (m s) as [s1 [a|e]]; cbn [fst] in Hm; [apply Hf, Hm | exact I].
Qed.
Lemma ok_bind2 {A C} (Q : A -> src -> Prop) (T : C -> src -> Prop) (m : SM A) (f : A -> SM C) s :
  okpost Q (m s) -> (forall a s1, Q a s1 -> okpost T (f a s1)) -> okpost T (bind m f s).
Proof.
  intros Hm Hf. unfold bind. destruct (m s) as [s1 [a|e]]; [apply Hf, Hm | exact I].
Qed.

(* busy, progress n, everything queued within it *)
Definition P0 (n : Z) (s : src) : Prop :=
  s_state s = ST_BUSY /\ q_progress (s_p s) = n /\ 0 <= q_segment_len (s_p s) /\ Forall (fd_within n) (s_queue s).
(* ... and the condition code of a cancellation recorded; any step *)
Definition P1 (n : Z) (s : src) : Prop :=
  P0 n s /\ exists c, q_cond_eof (s_p s) = Some c /\ c <> C_NO_ERROR.

Lemma vdet_P0 : forall n, vdet (P0 n).
Proof.
  intros n s s' Hv Hp. unfold view in Hv. injection Hv; clear Hv; intros. unfold P0 in *.
  repeat match goal with E : _ = _ |- _ => first [rewrite E | idtac]; clear E end. exact Hp.
Qed.
Lemma vdet_P1 : forall n, vdet (P1 n).
Proof.
  intros n s s' Hv Hp. unfold view in Hv. injection Hv; clear Hv; intros. unfold P1, P0 in *.
  repeat match goal with E : _ = _ |- _ => first [rewrite E | idtac]; clear E end. exact Hp.
Qed.

(* only the queue: what is left of the invariant when the transaction ends *)
Definition Q0 (n : Z) (s : src) : Prop := Forall (fd_within n) (s_queue s).
Lemma vdet_Q0 : forall n, vdet (Q0 n).
Proof.
  intros n s s' Hv Hp. unfold view in Hv. injection Hv; clear Hv; intros. unfold Q0 in *.
  repeat match goal with E : _ = _ |- _ => first [rewrite E | idtac]; clear E end. exact Hp.
Qed.

Lemma p1_sadd : forall n p, fd_within n p -> pres (P1 n) (P1 n) (sadd_packet p).
Proof.
  intros n p Hp s H. unfold sadd_packet, modify. cbn [fst]. destruct s. unfold P1, P0 in *. cbn in *.
  destruct H as [(H1 & H2 & H3 & HF) HC]. repeat split; try assumption.
  apply Forall_app. split; [exact HF | constructor; [exact Hp | constructor]].
Qed.

Ltac pp_step :=
  cbv beta zeta;
  match goal with
  | |- pres ?P ?P _ => solve [apply pres_fr; [first [apply vdet_P0 | apply vdet_P1 | apply vdet_Q0] | minv]]
  | |- pres ?P ?P (bind _ _) => apply (pres_bind P P P); [ | intros ? Hq; exact Hq | intro]
  | |- pres _ _ (when ?b _) => destruct b; [rewrite when_true | rewrite when_false]
  | |- pres _ _ (sadd_packet _) => apply p1_sadd; exact I
  | |- pres _ _ (if ?b then _ else _) => destruct b
  | |- pres _ _ (match ?x with _ => _ end) => destruct x
  | |- pres _ _ ?m => let h := mhead m in unfold h
  end.
Ltac pp := repeat pp_step.

Lemma p1_prepare_eof : forall n ck, pres (P1 n) (P1 n) (prepare_eof_pdu ck).
Proof. intros. pp. Qed.

Lemma ok_handle_eof_sent : forall n s,
  P1 n s -> okpost (fun _ => cancelled_inv n) (handle_eof_sent true s).
Proof.
  intros n s H. unfold handle_eof_sent.
  apply (ok_bind (P1 n) (P1 n)); [pp | exact H | intros ac s1 H1].
  destruct ac.
  - unfold start_positive_ack_procedure_s.
    apply (ok_bind (P1 n) (P1 n)); [pp | exact H1 | intros r s2 H2].
    apply (ok_bind (P1 n) (P1 n)); [pp | exact H2 | intros nw s3 H3].
    unfold sset_step, setq, modify, bind, okpost. destruct s3.
    unfold P1, P0, cancelled_inv, cancelling, cancel_step in *. cbn in *.
    destruct H3 as [(E1 & E2 & E3 & HF) HC]. split; [exact HF|]. right.
    repeat split; try assumption. left. late.
  - (* unacknowledged mode: the Transaction-Finished indication, then the reset *)
    assert (HQ : Q0 n s1) by (unfold Q0, P1, P0 in *; tauto).
    rewrite b_gq. destruct (q_cond_eof (s_p s1)) as [c|]; [|exact I].
    apply (ok_bind (Q0 n) (Q0 n)); [pp | exact HQ | intros _ s2 H2].
    unfold notice_of_completion_s.
    apply (ok_bind (Q0 n) (Q0 n)); [pp | exact H2 | intros l s3 H3].
    apply (ok_bind (Q0 n) (Q0 n)); [pp | exact H3 | intros _ s4 H4].
    unfold sreset_internal, modify, okpost. destruct s4. unfold Q0, cancelled_inv in *. cbn in *.
    split; [exact H4 | left; reflexivity].
Qed.

Lemma ok_cancel_branch : forall n cond s, cond <> C_NO_ERROR -> P0 n s ->
  okpost (fun _ => cancelled_inv n)
    ((setq (fun q => q <| q_cond_eof := Some cond |>) ;;;
      pr <- gq q_progress ;; ck <- checksum_calculation pr ;;
      prepare_eof_pdu ck ;;; handle_eof_sent true ;;; ret true)%monad s).
Proof.
  intros n cond s Hc H.
  apply (ok_bind (P0 n) (P1 n)); [| exact H | intros _ s1 H1].
  - intros s0 H0. unfold setq, modify. cbn [fst]. destruct s0. unfold P1, P0 in *. cbn in *.
    split; [exact H0 | exists cond; split; [reflexivity | exact Hc]].
  - apply (ok_bind (P1 n) (P1 n)); [pp | exact H1 | intros pr s2 H2].
    apply (ok_bind (P1 n) (P1 n)); [pp | exact H2 | intros ck s3 H3].
    apply (ok_bind (P1 n) (P1 n)); [apply p1_prepare_eof | exact H3 | intros _ s4 H4].
    apply (ok_bind2 (fun _ => cancelled_inv n)); [apply ok_handle_eof_sent, H4 | intros _ s5 H5; exact H5].
Qed.

Lemma ok_abandon_branch : forall n c s, P0 n s ->
  okpost (fun _ => cancelled_inv n)
    ((t <- stid_or_assert ;; pr <- gq q_progress ;; semit (EvFault FH_ABANDON (fst t) (snd t) c pr) ;;;
      sreset_internal true ;;; ret false)%monad s).
Proof.
  intros n c s H.
  apply (ok_bind (P0 n) (P0 n)); [pp | exact H | intros t s1 H1].
  apply (ok_bind (P0 n) (P0 n)); [pp | exact H1 | intros pr s2 H2].
  apply (ok_bind (P0 n) (P0 n)); [pp | exact H2 | intros _ s3 H3].
  unfold sreset_internal, modify, bind, ret, okpost. destruct s3. unfold cancelled_inv. cbn.
  split; [constructor | left; reflexivity].
Qed.

Lemma ok_notice_of_cancellation : forall n cond s, cond <> C_NO_ERROR -> P0 n s ->
  okpost (fun _ => cancelled_inv n) (notice_of_cancellation_s cond s).
Proof.
  intros n cond s Hc H. unfold notice_of_cancellation_s. rewrite b_gq.
  destruct (q_cond_eof (s_p s)) as [c0|]; [|apply ok_cancel_branch; assumption].
  destruct (negb (c0 =? C_NO_ERROR)); [apply ok_abandon_branch | apply ok_cancel_branch]; assumption.
Qed.

Lemma source_cancel_establishes : forall (s s' : src) (a b : Z),
  s_state s = ST_BUSY -> 0 <= q_segment_len (s_p s) -> Forall (fd_within (q_progress (s_p s))) (s_queue s) ->
  cancel_request_s a b s = (s', Ok true) ->
  cancelled_inv (q_progress (s_p s)) s'.
Proof.
  intros s s' a b Hb Hseg HF Hr.
  assert (H : P0 (q_progress (s_p s)) s) by (repeat split; assumption).
  assert (G : okpost (fun r s1 => r = true -> cancelled_inv (q_progress (s_p s)) s1) (cancel_request_s a b s)).
  { unfold cancel_request_s. rewrite b_get.
    destruct (0 <? s_ready s); [exact I|].
    destruct (q_tid (s_p s)) as [[x y]|]; [|discriminate].
    destruct ((x =? a) && (y =? b)); [|discriminate].
    apply (ok_bind2 (fun _ => cancelled_inv (q_progress (s_p s)))).
    - apply ok_notice_of_cancellation; [discriminate | exact H].
    - intros _ s1 H1 _. exact H1. }
  rewrite Hr in G. apply G. reflexivity.
Qed.

(* ------------------------------------------------------------------ why the statement carries its side conditions *)
Module CounterExamples.
  Import Counter.
  (* 1. [cancelling] without the condition on the step: a state that claims to be cancelling but whose step is
        still "sending file data" sends NEW file data and moves the progress (2 -> 4).  Such a state is not
        reachable: the notice of cancellation leaves the step at "waiting for EOF ACK" or resets the handler. *)
  Example step_needed :
    let s := st0 SS_SENDING_FILE_DATA 2 in
    cancelling0 s /\ q_progress (s_p s) = 2 /\ Forall (fd_within 2) (s_queue s) /\
    s_queue (fst (state_machine_s None s)) = [PFileData hd 2 [3; 4]] /\
    q_progress (s_p (fst (state_machine_s None s))) = 4 /\ ~ fd_within 2 (PFileData hd 2 [3; 4]).
  Proof.
    cbv zeta. split; [split; [reflexivity | exists C_CANCEL_REQUEST; split; [reflexivity | discriminate]]|].
    split; [reflexivity|]. split; [constructor|].
    split; [vm_compute; reflexivity|]. split; [vm_compute; reflexivity|].
    cbn. intros [_ H]. vm_compute in H. apply H. reflexivity.
  Qed.
  (* 2. a NAK whose segment request starts below zero (not representable on the wire: offsets are unsigned) is
        answered, in the model, with a File Data PDU at a negative offset *)
  Example unsigned_offsets_needed :
    let s := st0 SS_WAITING_FOR_EOF_ACK 2 in
    cancelling s /\ q_progress (s_p s) = 2 /\ Forall (fd_within 2) (s_queue s) /\
    s_queue (fst (state_machine_s (Some (PNak hin 0 2 [(-1, 1)])) s)) = [PFileData hd (-1) [1; 2]].
  Proof.
    cbv zeta. split.
    { split; [reflexivity|]. split; [exists C_CANCEL_REQUEST; split; [reflexivity | discriminate]|].
      split; [left; vm_compute; split; discriminate | vm_compute; discriminate]. }
    split; [reflexivity|]. split; [constructor|]. vm_compute. reflexivity.
  Qed.
  (* 3. a negative segment length (a misconfigured remote entity) makes the chunk loop walk downwards *)
  Example segment_length_needed :
    let s := st0 SS_WAITING_FOR_EOF_ACK (-2) in
    cancelling0 s /\ late_step (s_step s) /\ q_progress (s_p s) = 2 /\ Forall (fd_within 2) (s_queue s) /\
    s_queue (fst (state_machine_s (Some (PNak hin 0 2 [(1, 2)])) s)) = [PFileData hd 1 []; PFileData hd (-1) []].
  Proof.
    cbv zeta. split; [split; [reflexivity | exists C_CANCEL_REQUEST; split; [reflexivity | discriminate]]|].
    split; [vm_compute; split; discriminate|]. split; [reflexivity|]. split; [constructor|]. vm_compute. reflexivity.
  Qed.
  (* non-vacuity: a state in a cancel exchange exists, and a NAK for bytes already sent is answered within them *)
  Example answered_within :
    let s := st0 SS_WAITING_FOR_EOF_ACK 2 in
    cancelling s /\ nak_offsets_unsigned (Some (PNak hin 0 2 [(1, 2)])) /\
    s_queue (fst (state_machine_s (Some (PNak hin 0 2 [(1, 2)])) s)) = [PFileData hd 1 [2]] /\
    s_step (fst (state_machine_s (Some (PNak hin 0 2 [(1, 2)])) s)) = SS_RETRANSMITTING.
  Proof.
    cbv zeta. split.
    { split; [reflexivity|]. split; [exists C_CANCEL_REQUEST; split; [reflexivity | discriminate]|].
      split; [left; vm_compute; split; discriminate | vm_compute; discriminate]. }
    split; [constructor; [vm_compute; discriminate | constructor]|]. split; vm_compute; reflexivity.
  Qed.
End CounterExamples.
