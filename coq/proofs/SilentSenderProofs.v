(* SilentSenderProofs.v — proof for the closed form of property C04 for the NAK procedure (props/C04d.v): a silent
   sender cannot hang the receiver.  Waiting for missing data (deferred lost-segment procedure active, NAK timer just
   started, counter 0), with NAK Limit Reached configured as notice of cancellation, exactly N + M timer expiries take
   the handler to idle (N = NAK limit, M = Positive ACK limit), for every N >= 1 and M >= 1: N-1 re-issues of the same
   NAK sequence, then the limit fault whose call also completes the cancelled transaction and sends Finished
   (NAK Limit Reached), M-1 re-sends of that PDU, and a silent abandon. *)
From CFDP Require Import Base LostSeg LostSegSpec Fs Crc Checksum Handler Dest HandlerSpec.
From CFDP.gen Require Import Tables.
From CFDP.proofs Require Import NakProofs RetryProofs SilentReceiverProofs.
From RecordUpdate Require Import RecordSet.
Import RecordSetNotations.
Open Scope monad_scope.

Arguments Z.add : simpl never. Arguments Z.sub : simpl never. Arguments Z.mul : simpl never.
Arguments Z.max : simpl never. Arguments Z.min : simpl never.
Arguments Z.ltb !x !y : simpl nomatch. Arguments Z.leb !x !y : simpl nomatch.
Arguments Z.eqb !x !y : simpl nomatch.
Arguments timed_out : simpl never.
Arguments handle_waiting_for_finished_ack : simpl never.
Arguments deferred_lost_segment_handling : simpl never.


(* nak_seq (the PDUs of one NAK sequence) is defined in RetryProofs.v *)

Lemma enq_eq : forall l s,
  enq l s = s <| d_queue := d_queue s ++ l |> <| d_ready := d_ready s + zlen l |>.
Proof.
  induction l as [|p l IH]; intro s; cbn [enq].
  - destruct s. cbn. rewrite app_nil_r. change (zlen (@nil pdu)) with 0. rewrite Z.add_0_r. reflexivity.
  - rewrite IH. destruct s. cbn. rewrite <- app_assoc. cbn [app].
    replace (zlen (p :: l)) with (1 + zlen l) by (unfold zlen; cbn [length]; lia).
    rewrite Z.add_assoc. reflexivity.
Qed.

(* re-issue of the deferred NAK sequence after the NAK timer expired below the limit *)
Lemma dlsh_reissue : forall s r eos t maxn,
  p_deferred (d_p s) = true -> p_disp (d_p s) <> DISP_CANCELED -> p_rcfg (d_p s) = Some r -> p_file_size_eof (d_p s) = Some eos ->
  (p_tracker (d_p s) <> [] \/ p_md_missing (d_p s) = true) ->
  p_proc_timer (d_p s) = Some t -> timed_out (now_d s) t = true -> p_nak_counter (d_p s) + 1 <> r_nak_limit r ->
  max_seg_reqs (r_max_packet r) (p_conf (d_p s)) = Some maxn ->
  deferred_lost_segment_handling s =
    (enq (nak_seq (set_dir TOWARDS_SENDER (p_conf (d_p s))) eos maxn (p_md_missing (d_p s)) (p_tracker (d_p s))) s
       <| d_p ::= (fun p => p <| p_nak_counter ::= (fun c => c + 1) |> <| p_proc_timer := Some (now_d s, snd t) |>) |>,
     Ok tt).
Proof.
  intros s r eos t maxn Hdef Hnc Hr Heof Hmiss Ht Hto Hcnt Hm. unfold deferred_lost_segment_handling.
  assert (p_disp (d_p s) =? DISP_CANCELED = false) as Hdc by (apply Z.eqb_neq; exact Hnc).
  rewrite bind_gp, Hdef. cbn [negb]. rewrite bind_gp, Hdc. rewrite bind_rcfg, Hr, bind_gp, Heof, bind_gp, bind_gp.
  rewrite (missing_cond s Hmiss). rewrite bind_gp. unfold now at 1. rewrite bind_gets, Ht.
  unfold now_d in *. rewrite Hto. cbn [negb].
  rewrite bind_ret, bind_gp. cbn [negb andb].
  replace (p_nak_counter (d_p s) + 1 =? r_nak_limit r) with false by (symmetry; apply Z.eqb_neq; exact Hcnt).
  rewrite bind_ret. unfold conf. rewrite bind_gp, Hm. cbv zeta. rewrite bind_gp, bind_gp.
  unfold nak_seq.
  destruct (if p_md_missing (d_p s) then _ else _) as [pre acc0].
  destruct (nak_split _ _ _ acc0 _) as [ps rest].
  match goal with |- context[fold_left _ ?all _] =>
    rewrite (bind_ok _ _ _ _ _ _ _ (fold_add_packet_run all (ret tt) s s eq_refl)); set (al := all) end.
  cbn [negb when]. unfold now. rewrite bind_gets, bind_gp.
  destruct (enq_spec al s) as [Q1 [Q2 [Q3 [Q4 [Q5 _]]]]]. rewrite Q3, Q5, Ht. destruct t as [t0 tmo].
  reflexivity.
Qed.

Arguments Z.of_nat !n : simpl nomatch. Arguments Z.div : simpl never.
Arguments nak_seq : simpl never. Arguments handle_transfer_completion : simpl never.

Lemma timer_expired_d : forall nw tmo, timed_out (tmo + nw) (nw, tmo) = true.
Proof. intros nw tmo. unfold timed_out. cbn [fst snd]. apply Z.leb_le. lia. Qed.

Ltac nsm := match goal with |- context[Dest.state_machine None ?st] => nstate st end.
Ltac nres := match goal with |- context[(?st, Ok _) = _] => nstate st end.

Definition drain_d (s : dst) : dst * list pdu :=
  (s <| d_queue := [] |> <| d_ready := d_ready s - zlen (d_queue s) |>, d_queue s).
Definition expire_d (ms : Z) (s : dst) : dst * res Z (list pdu) :=
  match Dest.state_machine None (s <| d_env ::= (fun e => e <| e_now ::= Z.add ms |>) |>) with
  | (s', Ok _) => let '(s'', ps) := drain_d s' in (s'', Ok ps)
  | (s', Err e) => (s', Err e)
  end.
Fixpoint expires_d (n : nat) (ms : Z) (s : dst) : dst * res Z (list (list pdu)) :=
  match n with
  | O => (s, Ok [])
  | S k => match expire_d ms s with
           | (s', Ok ps) => match expires_d k ms s' with
                            | (s'', Ok rest) => (s'', Ok (ps :: rest))
                            | (s'', Err e) => (s'', Err e)
                            end
           | (s', Err e) => (s', Err e)
           end
  end.

Lemma expires_d_one : forall ms s s' ps, expire_d ms s = (s', Ok ps) -> expires_d 1 ms s = (s', Ok [ps]).
Proof. intros ms s s' ps H. cbn [expires_d]. rewrite H. reflexivity. Qed.

Lemma expires_d_app : forall m n ms s s1 l1 s2 l2,
  expires_d m ms s = (s1, Ok l1) -> expires_d n ms s1 = (s2, Ok l2) ->
  expires_d (m + n) ms s = (s2, Ok (l1 ++ l2)).
Proof.
  induction m as [|m IH]; intros n ms s s1 l1 s2 l2 H1 H2.
  - cbn [expires_d] in H1. inversion H1; subst. exact H2.
  - cbn [expires_d Nat.add] in *.
    destruct (expire_d ms s) as [s' [ps|e]]; [|discriminate].
    destruct (expires_d m ms s') as [s'' [rest|e]] eqn:E; [|discriminate].
    inversion H1; subst. rewrite (IH n ms s' s1 rest s2 l2 E H2). reflexivity.
Qed.

Section SilentSender.
Variables (N M : nat) (r : rcfg) (a b : Z) (cfg : lcfg) (stid : option (Z * Z))
          (ckt : option timer) (ckc : Z) (clo : bool) (ckty : Z) (deliv : Z) (ffl : option (Z * Z)) (cf : hdr)
          (pr : Z) (crc : bytes) (fsz : option Z) (fname : path) (eos : Z) (mdo : bool)
          (trk : tracker) (ls le : Z) (rw : bool).
Hypothesis HN : r_nak_limit r = Z.of_nat N.
Hypothesis HM : r_ack_limit r = Z.of_nat M.
Hypothesis Hms : 0 < r_ack_ms r.
Hypothesis Hmode : h_mode cf = ACKED.
Hypothesis Hfh : get_fault_handler (l_faults cfg) C_NAK_LIMIT = Some FH_CANCEL.

Definition mkG (mdm : bool) (step ready : Z) (q : list pdu) (fstat fcond disp : Z) (prt : option timer) (nakc : Z)
               (ackt : option timer) (ackc : Z) (nw : Z) (fs : tree) (lg : list event) : dst :=
  mkDst cfg ST_BUSY step stid ready q
    (mkDP (Some (a, b)) (Some r) ckt ckc clo ckty (mkFin deliv fstat fcond ffl) disp cf pr crc fsz fname (Some eos) mdo
          trk mdm ls le true prt nakc ackt ackc)
    (mkEnv nw fs rw lg).

Definition wstep (mdm : bool) : Z := if mdm then DS_WAITING_FOR_METADATA else DS_WAITING_FOR_MISSING_DATA.
Definition hh : hdr := set_dir TOWARDS_SENDER cf.

Lemma nif_reissue : forall k mdm maxn fstat fcond disp tmo c ackt ackc nw fs lg,
  (trk <> [] \/ mdm = true) -> max_seg_reqs (r_max_packet r) cf = Some maxn -> c + 1 <> Z.of_nat N ->
  disp <> DISP_CANCELED ->
  let naks := nak_seq hh eos maxn mdm trk in
  non_idle_fsm (S k) None (mkG mdm (wstep mdm) 0 [] fstat fcond disp (Some (nw, tmo)) c ackt ackc (tmo + nw) fs lg) =
  (mkG mdm (wstep mdm) (0 + zlen naks) naks fstat fcond disp (Some (tmo + nw, tmo)) (c + 1) ackt ackc (tmo + nw) fs lg,
   Ok tt).
Proof.
  intros k mdm maxn fstat fcond disp tmo c ackt ackc nw fs lg Hmiss Hmax Hc Hnc naks. subst naks.
  assert (c + 1 <> r_nak_limit r) as Hc' by (rewrite HN; exact Hc).
  unfold mkG, wstep. cbn [non_idle_fsm].
  unfold fsm_advancement, step_is, get_step, handle_waiting_for_missing_metadata.
  destruct mdm; msimp.
  all: match goal with |- context[deferred_lost_segment_handling ?st] =>
    rewrite (dlsh_reissue st r eos (nw, tmo) maxn eq_refl Hnc eq_refl eq_refl Hmiss eq_refl (timer_expired_d nw tmo)
               Hc' Hmax) end.
  all: rewrite enq_eq; cbn [d_p p_conf p_md_missing p_tracker d_queue d_ready app snd now_d d_env e_now].
  all: match goal with |- context[(?st, Ok tt)] => nstate st end.
  all: msimp; reflexivity.
Qed.

Definition delf : bool := r_disposition r && (deliv =? DATA_INCOMPLETE).
Definition finished (fcond fstat : Z) : pdu := PFinished hh fcond deliv fstat ffl.


Lemma df_cancel : forall mdm step fstat fcond disp prt c ackt ackc nw fs lg,
  declare_fault C_NAK_LIMIT (mkG mdm step 0 [] fstat fcond disp prt c ackt ackc nw fs lg) =
  (mkG mdm DS_TRANSFER_COMPLETION 0 [] fstat C_NAK_LIMIT DISP_CANCELED prt c ackt ackc nw fs
       (EvFault FH_CANCEL a b C_NAK_LIMIT pr :: lg), Ok FH_CANCEL).
Proof.
  intros. unfold mkG, declare_fault. msimp. rewrite Hfh. msimp. reflexivity.
Qed.


(* the N-th expiry: NAK Limit Reached -> notice of cancellation; the same call completes the cancelled transaction,
   queues Finished (NAK Limit Reached) and starts the Positive ACK procedure *)
Lemma nif_limit_cancelled : forall k mdm fstat fcond disp tmo c ackt ackc nw fs lg,
  (trk <> [] \/ mdm = true) -> c + 1 = Z.of_nat N -> disp <> DISP_CANCELED ->
  non_idle_fsm (S k) None (mkG mdm (wstep mdm) 0 [] fstat fcond disp (Some (nw, tmo)) c ackt ackc (tmo + nw) fs lg) =
  non_idle_fsm (S k) None (mkG mdm DS_TRANSFER_COMPLETION 0 [] fstat C_NAK_LIMIT DISP_CANCELED (Some (nw, tmo)) c ackt ackc
                             (tmo + nw) fs (EvFault FH_CANCEL a b C_NAK_LIMIT pr :: lg)).
Proof.
  intros k mdm fstat fcond disp tmo c ackt ackc nw fs lg Hmiss Hc Hnc.
  assert (c + 1 = r_nak_limit r) as Hc' by (rewrite HN; exact Hc).
  assert (get_fault_handler (l_faults cfg) C_NAK_LIMIT <> Some FH_IGNORE) as Hni by (rewrite Hfh; discriminate).
  pose proof (fun st => dst_nak_limit st r eos (nw, tmo)) as Hlim.
  pose proof df_cancel as Hdf.
  unfold mkG, wstep in *. cbn [non_idle_fsm].
  unfold fsm_advancement, step_is, get_step, handle_waiting_for_missing_metadata.
  destruct mdm; msimp.
  all: match goal with |- context[deferred_lost_segment_handling ?st] =>
    rewrite (Hlim st eq_refl Hnc eq_refl eq_refl Hmiss eq_refl (timer_expired_d nw tmo) Hc' Hni) end.
  all: rewrite Hdf; cbn [fst snd].
  all: msimp; reflexivity.
Qed.

Lemma nif_limit : forall k mdm fstat fcond disp tmo c ackt ackc nw fs lg,
  (trk <> [] \/ mdm = true) -> c + 1 = Z.of_nat N -> disp <> DISP_CANCELED ->
  let fstat' := if delf then FS_DISCARDED_DELIBERATELY else fstat in
  non_idle_fsm (S k) None (mkG mdm (wstep mdm) 0 [] fstat fcond disp (Some (nw, tmo)) c ackt ackc (tmo + nw) fs lg) =
  (mkG mdm DS_WAITING_FOR_FINISHED_ACK (0 + 1) [finished C_NAK_LIMIT fstat'] fstat' C_NAK_LIMIT DISP_CANCELED
       (Some (nw, tmo)) c (Some (tmo + nw, r_ack_ms r)) 0 (tmo + nw)
       (if delf then fst (fs_delete_file fs fname) else fs)
       ((if l_ind_fin cfg then [EvFinished a b C_NAK_LIMIT deliv fstat' ffl] else []) ++
        EvFault FH_CANCEL a b C_NAK_LIMIT pr :: lg), Ok tt).
Proof.
  intros k mdm fstat fcond disp tmo c ackt ackc nw fs lg Hmiss Hc Hnc fstat'. subst fstat'.
  rewrite (nif_limit_cancelled k mdm fstat fcond disp tmo c ackt ackc nw fs lg Hmiss Hc Hnc).
  pose proof (nif_completion r a b cfg stid ckt ckc clo ckty deliv ffl cf pr crc fsz fname (Some eos) mdo trk mdm ls le
                true (Some (nw, tmo)) c rw Hms Hmode k fstat C_NAK_LIMIT ackt ackc (tmo + nw) fs
                (EvFault FH_CANCEL a b C_NAK_LIMIT pr :: lg)) as H.
  unfold mk, del, SilentReceiverProofs.finished in H. cbv zeta in H.
  unfold mkG, delf, finished, hh. rewrite H.
  destruct (l_ind_fin cfg); reflexivity.
Qed.

(* waiting for missing data: NAK timer started at the current time, [c] re-issues counted, everything retrieved *)
Definition waitN (mdm : bool) (fstat fcond disp : Z) (ackt : option timer) (ackc : Z) (fs : tree) (lg : list event)
                 (c : Z) (s : dst) : Prop :=
  exists nw, s = mkG mdm (wstep mdm) 0 [] fstat fcond disp (Some (nw, r_nak_ms r)) c ackt ackc nw fs lg.

(* waiting for the ACK of the Finished PDU: Positive ACK timer started at the current time *)
Definition waitF (mdm : bool) (fstat fcond disp : Z) (prt : option timer) (nakc : Z) (fs : tree) (lg : list event)
                 (c : Z) (s : dst) : Prop :=
  exists nw, s = mkG mdm DS_WAITING_FOR_FINISHED_ACK 0 [] fstat fcond disp prt nakc (Some (nw, r_ack_ms r)) c nw fs lg.

Lemma expire_reissue : forall mdm maxn fstat fcond disp ackt ackc fs lg c s,
  (trk <> [] \/ mdm = true) -> max_seg_reqs (r_max_packet r) cf = Some maxn ->
  waitN mdm fstat fcond disp ackt ackc fs lg c s -> c + 1 <> Z.of_nat N -> disp <> DISP_CANCELED ->
  exists s', expire_d (r_nak_ms r) s = (s', Ok (nak_seq hh eos maxn mdm trk)) /\
             waitN mdm fstat fcond disp ackt ackc fs lg (c + 1) s'.
Proof.
  intros mdm maxn fstat fcond disp ackt ackc fs lg c s Hmiss Hmax (nw & ->) Hc Hnc.
  exists (mkG mdm (wstep mdm) 0 [] fstat fcond disp (Some (r_nak_ms r + nw, r_nak_ms r)) (c + 1) ackt ackc
              (r_nak_ms r + nw) fs lg).
  split; [|exists (r_nak_ms r + nw); reflexivity].
  unfold expire_d.
  change (mkG mdm (wstep mdm) 0 [] fstat fcond disp (Some (nw, r_nak_ms r)) c ackt ackc nw fs lg
            <| d_env ::= (fun e => e <| e_now ::= Z.add (r_nak_ms r) |>) |>)
    with (mkG mdm (wstep mdm) 0 [] fstat fcond disp (Some (nw, r_nak_ms r)) c ackt ackc (r_nak_ms r + nw) fs lg).
  rewrite dsm_none by reflexivity.
  rewrite (ca_ok _ _ _ _ (nif_reissue 2 mdm maxn fstat fcond disp (r_nak_ms r) c ackt ackc nw fs lg Hmiss Hmax Hc Hnc)).
  unfold drain_d, mkG. cbn [d_queue d_ready]. nres.
  replace (0 + zlen (nak_seq hh eos maxn mdm trk) - zlen (nak_seq hh eos maxn mdm trk)) with 0 by lia.
  reflexivity.
Qed.

Lemma expire_limit : forall mdm fstat fcond disp ackt ackc fs lg c s,
  (trk <> [] \/ mdm = true) ->
  waitN mdm fstat fcond disp ackt ackc fs lg c s -> c + 1 = Z.of_nat N -> disp <> DISP_CANCELED ->
  let fstat' := if delf then FS_DISCARDED_DELIBERATELY else fstat in
  exists s' nw0, expire_d (r_nak_ms r) s = (s', Ok [finished C_NAK_LIMIT fstat']) /\
    waitF mdm fstat' C_NAK_LIMIT DISP_CANCELED (Some (nw0, r_nak_ms r)) c
          (if delf then fst (fs_delete_file fs fname) else fs)
          ((if l_ind_fin cfg then [EvFinished a b C_NAK_LIMIT deliv fstat' ffl] else []) ++
           EvFault FH_CANCEL a b C_NAK_LIMIT pr :: lg) 0 s'.
Proof.
  intros mdm fstat fcond disp ackt ackc fs lg c s Hmiss (nw & ->) Hc Hnc fstat'.
  eexists. exists nw. split; [|exists (r_nak_ms r + nw); reflexivity].
  unfold expire_d.
  change (mkG mdm (wstep mdm) 0 [] fstat fcond disp (Some (nw, r_nak_ms r)) c ackt ackc nw fs lg
            <| d_env ::= (fun e => e <| e_now ::= Z.add (r_nak_ms r) |>) |>)
    with (mkG mdm (wstep mdm) 0 [] fstat fcond disp (Some (nw, r_nak_ms r)) c ackt ackc (r_nak_ms r + nw) fs lg).
  rewrite dsm_none by reflexivity.
  rewrite (ca_ok _ _ _ _ (nif_limit 2 mdm fstat fcond disp (r_nak_ms r) c ackt ackc nw fs lg Hmiss Hc Hnc)).
  fold fstat'. unfold drain_d, mkG. cbn [d_queue d_ready]. nres.
  change (0 + 1 - zlen [finished C_NAK_LIMIT fstat']) with 0.
  reflexivity.
Qed.

(* Positive ACK procedure, below the limit: the Finished PDU is sent again *)
Lemma expire_resend : forall mdm fstat fcond disp prt nakc fs lg c s,
  waitF mdm fstat fcond disp prt nakc fs lg c s -> c + 1 < Z.of_nat M ->
  exists s', expire_d (r_ack_ms r) s = (s', Ok [finished fcond fstat]) /\
             waitF mdm fstat fcond disp prt nakc fs lg (c + 1) s'.
Proof.
  intros mdm fstat fcond disp prt nakc fs lg c s (nw & ->) Hlt.
  assert (r_ack_limit r <=? c + 1 = false) as Hle by (apply Z.leb_gt; lia).
  unfold expire_d, mkG. nsm.
  rewrite dsm_none by reflexivity. unfold catch_abandoned at 1, catch. rewrite nif_waiting_fin_ack by reflexivity.
  remember (non_idle_fsm 2 None) as ag eqn:Hag.
  unfold handle_waiting_for_finished_ack, handle_positive_ack_procedures. msimp.
  rewrite timer_expired_d. msimp. rewrite Hle. msimp.
  nres. change (0 + 1 - 1) with 0.
  eexists. split; [reflexivity|]. unfold waitF, mkG. eexists. reflexivity.
Qed.

(* at the limit, the transaction being cancelled already: abandoned without another PDU *)
Lemma expire_abandon : forall mdm fstat fcond prt nakc fs lg c s,
  waitF mdm fstat fcond DISP_CANCELED prt nakc fs lg c s -> Z.of_nat M <= c + 1 ->
  exists s', expire_d (r_ack_ms r) s = (s', Ok []) /\
    d_state s' = ST_IDLE /\ d_step s' = DS_IDLE /\ d_queue s' = [] /\ d_ready s' = 0 /\ d_p s' = fresh_params /\
    fs_d s' = fs /\ log_d s' = EvFault FH_ABANDON a b fcond pr :: lg.
Proof.
  intros mdm fstat fcond prt nakc fs lg c s (nw & ->) Hge.
  assert (r_ack_limit r <=? c + 1 = true) as Hle by (apply Z.leb_le; lia).
  unfold expire_d, mkG. nsm.
  rewrite dsm_none by reflexivity. unfold catch_abandoned at 1, catch. rewrite nif_waiting_fin_ack by reflexivity.
  remember (non_idle_fsm 2 None) as ag eqn:Hag.
  unfold handle_waiting_for_finished_ack, handle_positive_ack_procedures. msimp.
  rewrite timer_expired_d. msimp. rewrite Hle. msimp. nres.
  eexists. split; [reflexivity|]. cbn. repeat split; reflexivity.
Qed.

Lemma expires_reissue : forall mdm maxn fstat fcond disp ackt ackc fs lg,
  (trk <> [] \/ mdm = true) -> max_seg_reqs (r_max_packet r) cf = Some maxn -> disp <> DISP_CANCELED ->
  forall m c s, waitN mdm fstat fcond disp ackt ackc fs lg c s -> c + Z.of_nat m < Z.of_nat N ->
  exists s', expires_d m (r_nak_ms r) s = (s', Ok (repeat (nak_seq hh eos maxn mdm trk) m)) /\
             waitN mdm fstat fcond disp ackt ackc fs lg (c + Z.of_nat m) s'.
Proof.
  intros mdm maxn fstat fcond disp ackt ackc fs lg Hmiss Hmax Hnc. induction m as [|m IH]; intros c s Hw Hlt.
  - exists s. split; [reflexivity|]. replace (c + Z.of_nat 0) with c by lia. exact Hw.
  - destruct (expire_reissue mdm maxn fstat fcond disp ackt ackc fs lg c s Hmiss Hmax Hw) as (s1 & H1 & Hw1); [lia|exact Hnc|].
    destruct (IH (c + 1) s1 Hw1) as (s2 & H2 & Hw2); [lia|].
    exists s2. split.
    + cbn [expires_d repeat]. rewrite H1, H2. reflexivity.
    + replace (c + Z.of_nat (S m)) with (c + 1 + Z.of_nat m) by lia. exact Hw2.
Qed.

Lemma expires_resend : forall mdm fstat fcond disp prt nakc fs lg m c s,
  waitF mdm fstat fcond disp prt nakc fs lg c s -> c + Z.of_nat m < Z.of_nat M ->
  exists s', expires_d m (r_ack_ms r) s = (s', Ok (repeat [finished fcond fstat] m)) /\
             waitF mdm fstat fcond disp prt nakc fs lg (c + Z.of_nat m) s'.
Proof.
  intros mdm fstat fcond disp prt nakc fs lg. induction m as [|m IH]; intros c s Hw Hlt.
  - exists s. split; [reflexivity|]. replace (c + Z.of_nat 0) with c by lia. exact Hw.
  - destruct (expire_resend mdm fstat fcond disp prt nakc fs lg c s Hw) as (s1 & H1 & Hw1); [lia|].
    destruct (IH (c + 1) s1 Hw1) as (s2 & H2 & Hw2); [lia|].
    exists s2. split.
    + cbn [expires_d repeat]. rewrite H1, H2. reflexivity.
    + replace (c + Z.of_nat (S m)) with (c + 1 + Z.of_nat m) by lia. exact Hw2.
Qed.

Lemma silent_from_waiting : forall mdm maxn fstat fcond disp ackt ackc fs lg s,
  (1 <= N)%nat -> (1 <= M)%nat -> (trk <> [] \/ mdm = true) ->
  ((2 <= N)%nat -> max_seg_reqs (r_max_packet r) cf = Some maxn) -> disp <> DISP_CANCELED ->
  waitN mdm fstat fcond disp ackt ackc fs lg 0 s ->
  let fstat' := if delf then FS_DISCARDED_DELIBERATELY else fstat in
  let fin := finished C_NAK_LIMIT fstat' in
  exists s1 s',
    expires_d N (r_nak_ms r) s = (s1, Ok (repeat (nak_seq hh eos maxn mdm trk) (N - 1) ++ [[fin]])) /\
    expires_d M (r_ack_ms r) s1 = (s', Ok (repeat [fin] (M - 1) ++ [[]])) /\
    d_state s' = ST_IDLE /\ d_step s' = DS_IDLE /\ d_queue s' = [] /\ d_ready s' = 0 /\ d_p s' = fresh_params /\
    fs_d s' = (if delf then fst (fs_delete_file fs fname) else fs) /\
    log_d s' = EvFault FH_ABANDON a b C_NAK_LIMIT pr ::
               (if l_ind_fin cfg then [EvFinished a b C_NAK_LIMIT deliv fstat' ffl] else []) ++
               EvFault FH_CANCEL a b C_NAK_LIMIT pr :: lg.
Proof.
  intros mdm maxn fstat fcond disp ackt ackc fs lg s H1N H1M Hmiss Hmax Hnc Hw fstat' fin.
  assert (exists s1, expires_d (N - 1) (r_nak_ms r) s = (s1, Ok (repeat (nak_seq hh eos maxn mdm trk) (N - 1))) /\
                     waitN mdm fstat fcond disp ackt ackc fs lg (0 + Z.of_nat (N - 1)) s1) as (s1 & E1 & Hw1).
  { destruct (Nat.eq_dec N 1) as [->|Hne].
    - exists s. split; [reflexivity | exact Hw].
    - apply expires_reissue; [exact Hmiss | apply Hmax; lia | exact Hnc | exact Hw | lia]. }
  destruct (expire_limit mdm fstat fcond disp ackt ackc fs lg _ s1 Hmiss Hw1) as (s2 & nw0 & E2 & Hw2); [lia|exact Hnc|].
  fold fstat' in E2, Hw2. fold fin in E2.
  destruct (expires_resend _ _ _ _ _ _ _ _ (M - 1) 0 s2 Hw2) as (s3 & E3 & Hw3); [lia|].
  destruct (expire_abandon _ _ _ _ _ _ _ _ s3 Hw3) as (s4 & E4 & Hst & Hstep & Hq & Hrd & Hp & Hfs & Hlog); [lia|].
  exists s2, s4.
  split. { replace N with ((N - 1) + 1)%nat at 1 by lia. eapply expires_d_app; [exact E1|]. apply expires_d_one. exact E2. }
  split. { replace M with ((M - 1) + 1)%nat at 1 by lia. eapply expires_d_app; [exact E3|]. apply expires_d_one. exact E4. }
  repeat (split; [assumption|]). exact Hlog.
Qed.
End SilentSender.

(* ------------------------------------------------------------------ what the NAK sequence is *)
Definition is_nak (p : pdu) : Prop := match p with PNak _ _ _ _ => True | _ => False end.

Lemma nak_split_naks : forall h eos maxn tr acc ps rest,
  nak_split h eos maxn acc tr = (ps, rest) ->
  Forall is_nak ps /\ (acc ++ tr <> [] -> ps <> [] \/ rest <> []).
Proof.
  intros h eos maxn. induction tr as [|sg t IH]; intros acc ps rest H; cbn [nak_split] in H.
  - injection H as <- <-. split; [constructor|]. rewrite app_nil_r. intro Hn. right. exact Hn.
  - cbv zeta in H. destruct (zlen (acc ++ [sg]) =? maxn).
    + destruct (nak_split h eos maxn [] t) as [ps' rest'] eqn:E'. injection H as <- <-.
      destruct (IH [] ps' rest' E') as [I1 _].
      split; [constructor; [exact I|exact I1] | intros _; left; discriminate].
    + destruct (IH (acc ++ [sg]) ps rest H) as [I1 I2]. split; [exact I1|].
      intros _. apply I2. destruct acc; discriminate.
Qed.

Lemma nak_seq_naks : forall h eos maxn mdm tr,
  (tr <> [] \/ mdm = true) ->
  nak_seq h eos maxn mdm tr <> [] /\ Forall is_nak (nak_seq h eos maxn mdm tr).
Proof.
  intros h eos maxn mdm tr Hmiss. unfold nak_seq.
  destruct mdm.
  - destruct (1 =? maxn).
    + destruct (nak_split h eos maxn [] tr) as [ps rest] eqn:E.
      destruct (nak_split_naks _ _ _ _ _ _ _ E) as [F _].
      split; [discriminate|]. cbn [app]. constructor; [exact I|].
      apply Forall_app. split; [exact F|]. destruct rest; repeat constructor.
    + destruct (nak_split h eos maxn [(0, 0)] tr) as [ps rest] eqn:E.
      destruct (nak_split_naks _ _ _ _ _ _ _ E) as [F Hne]. cbn [app].
      split.
      * destruct Hne as [Hp|Hr]; [discriminate | |].
        -- destruct ps; [contradiction | discriminate].
        -- destruct rest; [contradiction|]. destruct ps; discriminate.
      * apply Forall_app. split; [exact F|]. destruct rest; repeat constructor.
  - destruct Hmiss as [Htr|Hf]; [|discriminate].
    destruct (nak_split h eos maxn [] tr) as [ps rest] eqn:E.
    destruct (nak_split_naks _ _ _ _ _ _ _ E) as [F Hne]. cbn [app].
    split.
    + destruct Hne as [Hp|Hr]; [exact Htr | |].
      * destruct ps; [contradiction | discriminate].
      * destruct rest; [contradiction|]. destruct ps; discriminate.
    + apply Forall_app. split; [exact F|]. destruct rest; repeat constructor.
Qed.

(* with room for at least one request per PDU: exactly the metadata request (if missing) and the tracked ranges,
   in order, every PDU carrying between 1 and maxn requests *)
Lemma nak_seq_exact : forall h eos maxn mdm tr, 1 <= maxn ->
  flat_map nak_reqs (nak_seq h eos maxn mdm tr) = (if mdm then [(0, 0)] else []) ++ tr /\
  Forall (fun p => exists rq, p = PNak h 0 eos rq /\ 1 <= zlen rq <= maxn) (nak_seq h eos maxn mdm tr).
Proof.
  intros h eos maxn mdm tr H1. unfold nak_seq.
  assert (Hfull : forall ps, Forall (fun p => exists r, p = PNak h 0 eos r /\ zlen r = maxn) ps ->
                             Forall (fun p => exists rq, p = PNak h 0 eos rq /\ 1 <= zlen rq <= maxn) ps).
  { intros ps F. eapply Forall_impl; [|exact F]. intros p (rq & -> & Hz). exists rq. split; [reflexivity | lia]. }
  assert (Hrest : forall rest : list (Z * Z), zlen rest < maxn ->
            Forall (fun p => exists rq, p = PNak h 0 eos rq /\ 1 <= zlen rq <= maxn)
                   (match rest with [] => [] | _ => [PNak h 0 eos rest] end)).
  { intros [|x l] Hz; constructor; [|constructor]. eexists. split; [reflexivity|].
    pose proof (zlen_cons_pos _ x l). lia. }
  destruct mdm; [destruct (1 =? maxn) eqn:E1|].
  - apply Z.eqb_eq in E1.
    destruct (nak_split h eos maxn [] tr) as [ps rest] eqn:E.
    destruct (nak_split_exact _ _ _ _ _ _ _ H1 ltac:(rewrite zlen_nil; lia) E) as (S1 & S2 & S3).
    split.
    + rewrite !flat_map_app, rest_pdu_reqs, S1. reflexivity.
    + apply Forall_app. split; [|apply Forall_app; split; [apply Hfull; exact S3 | apply Hrest; exact S2]].
      constructor; [|constructor]. eexists. split; [reflexivity|]. rewrite zlen_one. lia.
  - apply Z.eqb_neq in E1.
    destruct (nak_split h eos maxn [(0, 0)] tr) as [ps rest] eqn:E.
    destruct (nak_split_exact _ _ _ _ _ _ _ H1 ltac:(rewrite zlen_one; lia) E) as (S1 & S2 & S3).
    cbn [app]. split.
    + rewrite !flat_map_app, rest_pdu_reqs, S1. reflexivity.
    + apply Forall_app; split; [apply Hfull; exact S3 | apply Hrest; exact S2].
  - destruct (nak_split h eos maxn [] tr) as [ps rest] eqn:E.
    destruct (nak_split_exact _ _ _ _ _ _ _ H1 ltac:(rewrite zlen_nil; lia) E) as (S1 & S2 & S3).
    cbn [app]. split.
    + rewrite !flat_map_app, rest_pdu_reqs, S1. reflexivity.
    + apply Forall_app; split; [apply Hfull; exact S3 | apply Hrest; exact S2].
Qed.

(* ------------------------------------------------------------------ counterexample to the draft statement *)
(* The draft of props/C04d.v had no hypothesis about max_seg_reqs.  With a maximum packet length too small for the
   fixed part of a NAK PDU (18 < 19 here) every hypothesis of the draft holds, N = 2, and the first expiry raises
   E_VALUE (ValueError of get_max_seg_reqs_for_max_packet_size_and_pdu_cfg) instead of re-issuing the NAK. *)
Definition cex_r : rcfg := mkRcfg 1 2 (Some 4) 18 false false ACKED CK_NULL 700 1 2 false false 300 2.
Definition cex_s : dst :=
  mkDst (mkLcfg 2 2 true true true true default_fault_table 1000 [cex_r]) ST_BUSY DS_WAITING_FOR_MISSING_DATA
    (Some (1, 5)) 0 []
    (mkDP (Some (1, 5)) (Some cex_r) None 0 false CK_NULL (mkFin DATA_INCOMPLETE FS_RETAINED C_NO_ERROR None)
          DISP_COMPLETED (mkHdr TOWARDS_SENDER ACKED false false 1 2 2 5 2) 4 [0; 0; 0; 0] (Some 20) [2] (Some 20) false
          [(4, 20)] false 20 20 true (Some (0, 300)) 0 None 0)
    (mkEnv 0 [([2], File [1; 2; 3; 4])] false []).
Example draft_needs_max_seg_reqs :
  r_nak_limit cex_r = Z.of_nat 2 /\ r_ack_limit cex_r = Z.of_nat 1 /\ 0 < r_nak_ms cex_r /\ 0 < r_ack_ms cex_r /\
  d_state cex_s = ST_BUSY /\ d_step cex_s = DS_WAITING_FOR_MISSING_DATA /\ d_queue cex_s = [] /\ d_ready cex_s = 0 /\
  h_mode (p_conf (d_p cex_s)) = ACKED /\ p_rcfg (d_p cex_s) = Some cex_r /\ p_tid (d_p cex_s) = Some (1, 5) /\
  p_deferred (d_p cex_s) = true /\ p_file_size_eof (d_p cex_s) = Some 20 /\ p_md_missing (d_p cex_s) = false /\
  p_tracker (d_p cex_s) <> [] /\ Inv (p_tracker (d_p cex_s)) /\
  p_proc_timer (d_p cex_s) = Some (now_d cex_s, r_nak_ms cex_r) /\ p_nak_counter (d_p cex_s) = 0 /\
  p_disp (d_p cex_s) <> DISP_CANCELED /\
  get_fault_handler (l_faults (d_cfg cex_s)) C_NAK_LIMIT = Some FH_CANCEL /\
  max_seg_reqs (r_max_packet cex_r) (p_conf (d_p cex_s)) = None /\
  snd (expires_d 2 (r_nak_ms cex_r) cex_s) = Err E_VALUE.
Proof.
  repeat (split; [first [reflexivity | discriminate | (cbn; lia) | (apply Inv_one; lia)]|]).
  vm_compute. reflexivity.
Qed.

(* ------------------------------------------------------------------ counterexample to the statement of waves 1-7 *)
(* Up to wave 7 the theorem had no hypothesis about the disposition (the deferred procedure did not look at it).
   After the F35 repair the procedure of a cancelled transaction does nothing, so a state that waits for missing data
   AND is marked cancelled satisfies every other hypothesis (N = 2, M = 1) and stays where it is at every expiry:
   nothing is sent, no fault is declared, the step is kept.  Such a state is not reachable: every cancellation moves
   the step to the transfer completion (or to the EOF ACK) in the same call (dest_cancelled, props/C12c.v); reachable
   waiting states satisfy `p_disp (d_p s) <> DISP_CANCELED`, which is now a hypothesis. *)
Definition cex2_r : rcfg := mkRcfg 1 2 (Some 4) 64 false false ACKED CK_NULL 700 1 2 false false 300 2.
Definition cex2_s : dst :=
  mkDst (mkLcfg 2 2 true true true true default_fault_table 1000 [cex2_r]) ST_BUSY DS_WAITING_FOR_MISSING_DATA
    (Some (1, 5)) 0 []
    (mkDP (Some (1, 5)) (Some cex2_r) None 0 false CK_NULL (mkFin DATA_INCOMPLETE FS_RETAINED C_FILE_SIZE_ERROR None)
          DISP_CANCELED (mkHdr TOWARDS_SENDER ACKED false false 1 2 2 5 2) 4 [0; 0; 0; 0] (Some 20) [2] (Some 20) false
          [(4, 20)] false 20 20 true (Some (0, 300)) 0 None 0)
    (mkEnv 0 [([2], File [1; 2; 3; 4])] false []).
Example statement_needs_not_cancelled :
  r_nak_limit cex2_r = Z.of_nat 2 /\ r_ack_limit cex2_r = Z.of_nat 1 /\ 0 < r_ack_ms cex2_r /\
  d_state cex2_s = ST_BUSY /\ d_step cex2_s = DS_WAITING_FOR_MISSING_DATA /\ d_queue cex2_s = [] /\ d_ready cex2_s = 0 /\
  h_mode (p_conf (d_p cex2_s)) = ACKED /\ p_rcfg (d_p cex2_s) = Some cex2_r /\ p_tid (d_p cex2_s) = Some (1, 5) /\
  p_deferred (d_p cex2_s) = true /\ p_file_size_eof (d_p cex2_s) = Some 20 /\ p_md_missing (d_p cex2_s) = false /\
  p_tracker (d_p cex2_s) <> [] /\
  p_proc_timer (d_p cex2_s) = Some (now_d cex2_s, r_nak_ms cex2_r) /\ p_nak_counter (d_p cex2_s) = 0 /\
  max_seg_reqs (r_max_packet cex2_r) (p_conf (d_p cex2_s)) = Some 5 /\
  get_fault_handler (l_faults (d_cfg cex2_s)) C_NAK_LIMIT = Some FH_CANCEL /\
  p_disp (d_p cex2_s) = DISP_CANCELED /\
  expires_d 2 (r_nak_ms cex2_r) cex2_s =
    (cex2_s <| d_env ::= (fun e => e <| e_now := 600 |>) |>, Ok [[]; []]) /\
  (* the same state, not cancelled: the NAK is issued again, then the limit fault cancels *)
  (exists s', expires_d 2 (r_nak_ms cex2_r) (cex2_s <| d_p ::= (fun p => p <| p_disp := DISP_COMPLETED |>) |>) =
     (s', Ok [[PNak (mkHdr TOWARDS_SENDER ACKED false false 1 2 2 5 2) 0 20 [(4, 20)]];
              [PFinished (mkHdr TOWARDS_SENDER ACKED false false 1 2 2 5 2) C_NAK_LIMIT DATA_INCOMPLETE FS_RETAINED None]])).
Proof.
  repeat (split; [first [reflexivity | discriminate | (cbn; lia) | (vm_compute; reflexivity)]|]).
  eexists. vm_compute. reflexivity.
Qed.

(* ------------------------------------------------------------------ props/C04d.v *)
Lemma dest_silent_sender_bounded : forall (N M : nat) (s : dst) (r : rcfg) (a b eos maxn : Z),
  (1 <= N)%nat -> (1 <= M)%nat -> r_nak_limit r = Z.of_nat N -> r_ack_limit r = Z.of_nat M ->
  0 < r_ack_ms r ->
  d_state s = ST_BUSY ->
  d_step s = (if p_md_missing (d_p s) then DS_WAITING_FOR_METADATA else DS_WAITING_FOR_MISSING_DATA) ->
  d_queue s = [] -> d_ready s = 0 ->
  h_mode (p_conf (d_p s)) = ACKED -> p_rcfg (d_p s) = Some r -> p_tid (d_p s) = Some (a, b) ->
  p_deferred (d_p s) = true -> p_disp (d_p s) <> DISP_CANCELED -> p_file_size_eof (d_p s) = Some eos ->
  (p_tracker (d_p s) <> [] \/ p_md_missing (d_p s) = true) ->
  p_proc_timer (d_p s) = Some (now_d s, r_nak_ms r) -> p_nak_counter (d_p s) = 0 ->
  ((2 <= N)%nat -> max_seg_reqs (r_max_packet r) (p_conf (d_p s)) = Some maxn) ->
  get_fault_handler (l_faults (d_cfg s)) C_NAK_LIMIT = Some FH_CANCEL ->
  let h := set_dir TOWARDS_SENDER (p_conf (d_p s)) in
  let f := p_fin (d_p s) in
  let del := r_disposition r && (f_deliv f =? DATA_INCOMPLETE) in
  let fstatus' := if del then FS_DISCARDED_DELIBERATELY else f_fstatus f in
  let fin := PFinished h C_NAK_LIMIT (f_deliv f) fstatus' (f_fl f) in
  let naks := nak_seq h eos maxn (p_md_missing (d_p s)) (p_tracker (d_p s)) in
  exists s1 s',
    expires_d N (r_nak_ms r) s = (s1, Ok (repeat naks (N - 1) ++ [[fin]])) /\
    expires_d M (r_ack_ms r) s1 = (s', Ok (repeat [fin] (M - 1) ++ [[]])) /\
    naks <> [] /\ Forall (fun p => match p with PNak _ _ _ _ => True | _ => False end) naks /\
    d_state s' = ST_IDLE /\ d_step s' = DS_IDLE /\ d_queue s' = [] /\ d_ready s' = 0 /\ d_p s' = fresh_params /\
    fs_d s' = (if del then fst (fs_delete_file (fs_d s) (p_file_name (d_p s))) else fs_d s) /\
    log_d s' = EvFault FH_ABANDON a b C_NAK_LIMIT (p_progress (d_p s)) ::
               (if l_ind_fin (d_cfg s) then [EvFinished a b C_NAK_LIMIT (f_deliv f) fstatus' (f_fl f)] else []) ++
               EvFault FH_CANCEL a b C_NAK_LIMIT (p_progress (d_p s)) :: log_d s.
Proof.
  intros N M s r a b eos maxn H1N H1M HN HM Hms Hst Hstep Hq Hrd Hmode Hr Htid Hdef Hnc Heof Hmiss Ht Hc Hmax Hfh
         h f del0 fstatus' fin naks.
  subst h f del0 fstatus' fin naks. unfold now_d, fs_d, log_d in *.
  ddst s. cbn in Hst, Hstep, Hq, Hrd, Hmode, Hr, Htid, Hdef, Hnc, Heof, Hmiss, Ht, Hc, Hmax, Hfh |- *.
  subst st step q ready rc tid dfr fse prt nakc.
  destruct (silent_from_waiting N M r a b cfg stid ckt ckc clo ckty deliv ffl cf pr crc fsz fname eos mdo trk ls le rw
              HN HM Hms Hmode Hfh mdm maxn fstat fcond disp ackt ackc fs lg _ H1N H1M Hmiss Hmax Hnc
              ltac:(exists nw; reflexivity))
    as (s1 & s' & E1 & E2 & Hst' & Hstep' & Hq' & Hrd' & Hp' & Hfs' & Hlog').
  destruct (nak_seq_naks (set_dir TOWARDS_SENDER cf) eos maxn mdm trk Hmiss) as [Hne Hall].
  exists s1, s'.
  split; [exact E1|]. split; [exact E2|]. split; [exact Hne|]. split; [exact Hall|].
  repeat (split; [assumption|]). exact Hlog'.
Qed.
Print Assumptions dest_silent_sender_bounded.
